import ImathVerif.Lemmas.FixedArrayWF
import ImathVerif.Model.FixedArray2D
/-!
FixedArray2D / FixedMatrix against nested Python lists (C19).
-/
namespace ImathVerif.FixedArray2D
open ImathVerif ImathVerif.FixedArray

/-- `a(i,j)` as nested lists: `nested[j][i]` -/
def View2D.toNested (h : Heap) (v : View2D) : List (List Int) :=
  (List.range v.lenY).map (fun j => (List.range v.lenX).map (fun i => cellAt h v.buf (v.pos i j)))

structure View2D.WF (sh : List Nat) (v : View2D) : Prop where
  lenXOk : (v.lenX : Int) ≤ PY_SSIZE_T_MAX
  lenYOk : (v.lenY : Int) ≤ PY_SSIZE_T_MAX
  inBuf : ∃ n, sh[v.buf]? = some n ∧ ∀ i j, i < v.lenX → j < v.lenY → v.pos i j < n

theorem View2D.WF.get {h : Heap} {v : View2D} (w : v.WF (shape h)) {i j : Nat} (hi : i < v.lenX) (hj : j < v.lenY) :
    v.get h i j = .ok (cellAt h v.buf (v.pos i j)) := by
  obtain ⟨n, hn, hp⟩ := w.inBuf
  exact rd_cellAt hn (hp i j hi hj)

/-- **`a.item(i, j)`** for ints of any sign = `nested[j][i]`, `IndexError` in the same cases -/
theorem item_refines {h : Heap} {v : View2D} (w : v.WF (shape h)) (i j : Int) :
    item h v i j = (match (PyList.getitem (v.toNested h) j).bind (fun row => PyList.getitem row i) with
      | some x => .ok x
      | none => .error .indexError) := by
  have hy := canonicalIndex_pylist (v.toNested h) j
  have hly : (v.toNested h).length = v.lenY := by simp [View2D.toNested]
  rw [hly] at hy
  unfold item
  cases hi : canonicalIndex v.lenX i with
  | error e =>
    simp only
    have he := (canonicalIndex_error hi).1
    -- whatever row is selected has length lenX, so the column index fails there too
    cases hj : canonicalIndex v.lenY j with
    | error e' =>
      simp only [hj] at hy
      rw [← hy, he]; rfl
    | ok cj =>
      simp only [hj] at hy
      have hcj := canonicalIndex_lt hj
      rw [← hy, he]
      simp only [View2D.toNested, List.getElem?_map, List.getElem?_range hcj, Option.map_some, Option.bind_some]
      have hx := canonicalIndex_pylist ((List.range v.lenX).map (fun i => cellAt h v.buf (v.pos i cj))) i
      simp only [List.length_map, List.length_range, hi] at hx
      rw [← hx]
  | ok ci =>
    have hci := canonicalIndex_lt hi
    cases hj : canonicalIndex v.lenY j with
    | error e' =>
      simp only [hj] at hy ⊢
      rw [← hy, (canonicalIndex_error hj).1]; rfl
    | ok cj =>
      simp only [hj] at hy ⊢
      have hcj := canonicalIndex_lt hj
      rw [← hy, w.get hci hcj]
      simp only [View2D.toNested, List.getElem?_map, List.getElem?_range hcj, Option.map_some, Option.bind_some]
      have hx := canonicalIndex_pylist ((List.range v.lenX).map (fun i => cellAt h v.buf (v.pos i cj))) i
      simp only [List.length_map, List.length_range, hi] at hx
      rw [← hx]
      simp [hci]

/-! ### indexing the `j`-major enumeration -/

theorem pairsJI_succ (nx ny : Nat) :
    pairsJI nx (ny + 1) = pairsJI nx ny ++ (List.range nx).map (fun i => (i, ny)) := by
  simp [pairsJI, List.range_succ, List.flatMap_append]

theorem pairsJI_length (nx ny : Nat) : (pairsJI nx ny).length = ny * nx := by
  induction ny with
  | zero => simp [pairsJI]
  | succ n ih => rw [pairsJI_succ, List.length_append, ih]; simp [Nat.succ_mul]

theorem pairsJI_getElem? (nx ny i j : Nat) (hi : i < nx) (hj : j < ny) :
    (pairsJI nx ny)[j * nx + i]? = some (i, j) := by
  induction ny with
  | zero => omega
  | succ n ih =>
    rw [pairsJI_succ]
    by_cases hjn : j < n
    · have : j * nx + i < (pairsJI nx n).length := by
        rw [pairsJI_length]
        have : (j + 1) * nx ≤ n * nx := Nat.mul_le_mul_right nx hjn
        rw [Nat.succ_mul] at this
        omega
      rw [List.getElem?_append_left this]
      exact ih hjn
    · have hjeq : j = n := by omega
      subst hjeq
      have : (pairsJI nx j).length ≤ j * nx + i := by rw [pairsJI_length]; omega
      rw [List.getElem?_append_right this, pairsJI_length]
      simp [hi]

/-- **`a[sx, sy]`** with slices that the code accepts (every forward slice is, see
    `extract2D_forward_ok`): a fresh array whose nested-list view is
    `[[row[i] for i in range(lenX)[sx]] for row in nested[sy]]` -/
theorem getslice2D_refines {h : Heap} {v : View2D} (w : v.WF (shape h))
    {ax bx cx ay by' cy : Option Int}
    (hcx : ∀ x, cx = some x → -PY_SSIZE_T_MAX ≤ x) (hcy : ∀ x, cy = some x → -PY_SSIZE_T_MAX ≤ x)
    {h' : Heap} {f : View2D}
    (hr : getslice2D h v (.slice ax bx cx) (.slice ay by' cy) = .ok (h', f)) :
    ∃ xs ys, PyList.sliceIndices v.lenX ax bx cx = some xs ∧ PyList.sliceIndices v.lenY ay by' cy = some ys ∧
      f.toNested h' = (PyList.pick (v.toNested h) ys).map (fun row => PyList.pick row xs) ∧
      f.lenX = xs.length ∧ f.lenY = ys.length ∧ f.buf = h.length := by
  unfold getslice2D extract2D at hr
  cases hsx : extractSliceIndices v.lenX (.slice ax bx cx) 0 0 with
  | error e => simp [hsx] at hr
  | ok sx =>
    cases hsy : extractSliceIndices v.lenY (.slice ay by' cy) 0 0 with
    | error e => simp [hsx, hsy] at hr
    | ok sy =>
      simp only [hsx, hsy] at hr
      have hxs := extract_slice_spec w.lenXOk hcx hsx
      have hys := extract_slice_spec w.lenYOk hcy hsy
      have hatx : ∀ i, i < sx.slicelength → sx.at i < v.lenX := fun i hi => slice_at_lt' w.lenXOk hsx i hi
      have haty : ∀ j, j < sy.slicelength → sy.at j < v.lenY := fun j hj => slice_at_lt' w.lenYOk hsy j hj
      let g : Nat × Nat → Int := fun p => cellAt h v.buf (v.pos (sx.at p.1) (sy.at p.2))
      have hread : mapE (fun p => v.get h (sx.at p.1) (sy.at p.2)) (pairsJI sx.slicelength sy.slicelength)
          = .ok ((pairsJI sx.slicelength sy.slicelength).map g) := by
        apply mapE_ok_of_forall
        intro p hp
        simp only [pairsJI, List.mem_flatMap, List.mem_range, List.mem_map] at hp
        obtain ⟨j, hj, i, hi, rfl⟩ := hp
        exact w.get (hatx i hi) (haty j hj)
      rw [hread] at hr
      simp only [Except.ok.injEq, alloc2D, Prod.mk.injEq] at hr
      obtain ⟨hh, hf⟩ := hr
      subst hh hf
      refine ⟨_, _, hxs, hys, ?_, by simp, by simp, rfl⟩
      -- the fresh buffer read back through `pos i j = 1 * (j * lenX + i)`
      simp only [View2D.toNested, View2D.pos, Nat.one_mul]
      rw [pick_range_map (l := (List.range v.lenY).map _) (f := sy.at) (n := sy.slicelength)
        (g := fun j => (List.range v.lenX).map (fun i => cellAt h v.buf (v.strideX * (sy.at j * v.strideY + i))))
        (by intro j hj; simpa using haty j hj)
        (by intro j hj; simp [haty j hj])]
      rw [List.map_map]
      apply List.map_congr_left
      intro j hj
      have hj' : j < sy.slicelength := by simpa using hj
      simp only [Function.comp]
      rw [pick_range_map (l := (List.range v.lenX).map _) (f := sx.at) (n := sx.slicelength)
        (g := fun i => cellAt h v.buf (v.strideX * (sy.at j * v.strideY + sx.at i)))
        (by intro i hi; simpa using hatx i hi)
        (by intro i hi; simp [hatx i hi])]
      apply List.map_congr_left
      intro i hi
      have hi' : i < sx.slicelength := by simpa using hi
      have hlen : h.length < (h ++ [(pairsJI sx.slicelength sy.slicelength).map g]).length := by simp
      have : cellAt (h ++ [(pairsJI sx.slicelength sy.slicelength).map g]) h.length (j * sx.slicelength + i)
          = g (i, j) := by
        simp [cellAt, pairsJI_getElem? _ _ _ _ hi' hj']
      rw [this]
      simp only [g, View2D.pos]

/-- every FORWARD slice is accepted by FixedArray2D's `extract_slice_indices` (backward ones that reach
    index 0 are not: `e < 0` is rejected — outside this property's quantifier) -/
theorem extract2D_forward_ok {n : Nat} (hn : (n : Int) ≤ PY_SSIZE_T_MAX) {a b c : Option Int}
    (hpos : 0 < c.getD 1) : ∃ s, extract2D n (.slice a b c) = .ok s := by
  have hc : ∀ v, c = some v → -PY_SSIZE_T_MAX ≤ v := by
    intro v hv; subst hv; simp at hpos; unfold PY_SSIZE_T_MAX; omega
  unfold extract2D extractSliceIndices
  simp only
  cases hu : sliceUnpack a b c with
  | error e =>
    obtain ⟨h1, _⟩ := sliceUnpack_error hu
    subst h1; simp at hpos
  | ok t =>
    obtain ⟨sa, so, st⟩ := t
    obtain ⟨h1, h2, h3, h4⟩ := sliceUnpack_ok hc hu
    have hst : 0 < st := by rw [h1]; exact hpos
    have hneg : ¬ st < 0 := by omega
    simp only [hneg, if_false] at h3 h4
    subst h3 h4
    simp only
    unfold sliceAdjust
    simp only [hneg, if_false]
    rw [adjust_up_start hst a, adjust_up_stop hn hst b]
    generalize PyList.boundUp n a 0 = S
    generalize PyList.boundUp n b n = E
    by_cases hSE : (S : Int) < (E : Int)
    · simp only [hSE, if_true]
      have hq : 0 ≤ ((E : Int) - (S : Int) - 1).tdiv st := Int.tdiv_nonneg (by omega) (by omega)
      have : ¬ ((S : Int) < 0 ∨ (E : Int) < 0 ∨ ((E : Int) - (S : Int) - 1).tdiv st + 1 < 0) := by omega
      simp [this]
    · simp only [hSE, if_false]
      have : ¬ ((S : Int) < 0 ∨ (E : Int) < 0) := by omega
      simp [this]

/-! ## FixedMatrix rows -/

def MatView.toNested (h : Heap) (m : MatView) : List (List Int) :=
  (List.range m.rows).map (fun i => (List.range m.cols).map (fun j => cellAt h m.buf (m.pos i j)))

structure MatView.WF (sh : List Nat) (m : MatView) : Prop where
  colsOk : (m.cols : Int) ≤ PY_SSIZE_T_MAX
  colStridePos : 0 < m.colStride
  inBuf : ∃ n, sh[m.buf]? = some n ∧ ∀ i j, i < m.rows → j < m.cols → m.pos i j < n

/-- **`m[i]`** for an int of any sign: a writable 1-D VIEW (same allocation) on row `i` of the matrix,
    reading exactly `nested[i]`; `IndexError` as for a Python list -/
theorem matRow_refines {h : Heap} {m : MatView} (w : m.WF (shape h)) (i : Int) :
    (match PyList.getitem (m.toNested h) i with
      | some rowList => ∃ row, matRow m i = .ok row ∧ row.toList h = rowList ∧ row.WF (shape h) ∧
          row.buf = m.buf ∧ row.writable = true
      | none => matRow m i = .error .indexError) := by
  have hs := canonicalIndex_pylist (m.toNested h) i
  have hl : (m.toNested h).length = m.rows := by simp [MatView.toNested]
  rw [hl] at hs
  unfold matRow
  cases hc : canonicalIndex m.rows i with
  | error e =>
    simp only [hc] at hs ⊢
    rw [← hs]
    simp [(canonicalIndex_error hc).1]
  | ok k =>
    simp only [hc] at hs ⊢
    have hk := canonicalIndex_lt hc
    rw [← hs]
    simp only [MatView.toNested, List.getElem?_map, List.getElem?_range hk, Option.map_some]
    obtain ⟨n, hn, hp⟩ := w.inBuf
    have hpos : ∀ j, (m.off + k * m.rowStride * m.cols * m.colStride) + j * m.colStride = m.pos k j := by
      intro j; simp [MatView.pos, Nat.add_assoc]
    refine ⟨_, rfl, ?_, ?_, rfl, rfl⟩
    · simp only [View.toList, View.cellPos, View.rawOf, View.pos, hpos]
    · refine ⟨w.colsOk, w.colStridePos, n, hn, ?_⟩
      simp only
      intro j hj
      simp only [View.pos, hpos]
      exact hp k j hk hj

end ImathVerif.FixedArray2D
