import ImathVerif.Lemmas.C12EigenAngles
import Mathlib.Tactic.NormNum
/-!
# Lemmas for C12 — the solver LOOPS of `Model/Jacobi.lean` (section `loops`), which the driver executes

* the re-tabulation (`matOfArr n f (matArr n f)`, used after every rotation for speed) is the identity;
* induction principles: whatever every single rotation preserves, a sweep, the loop and the whole iteration preserve — for ANY
  tolerance (so a future per-step statement at positive tolerance plugs in);
* with tolerance 0 in the rotations: the SVD loop preserves `U·A·Vᵀ`, `U·Uᵀ`, `V·Vᵀ`; the eigen loop preserves `V·sym(A)·Vᵀ`, `V·Vᵀ`;
* eigen bookkeeping: during a sweep `A[i][i] = A₀[i][i] + Z[i]`; hence the end-of-sweep update `S[i] += Z[i]; A[i][i] = S[i]` writes
  the value the diagonal already has, and `S` IS the diagonal of the rotated matrix at every exit of the loop.
-/
namespace ImathVerif.Jacobi
open ImathVerif.SHRT Matrix
set_option linter.unusedSectionVars false
variable {α : Type} [Field α] [LinearOrder α] [IsStrictOrderedRing α] [Inhabited α]

/-! ## the tabulation is the identity -/

theorem matOfArr_matArr (n : Nat) (f : Mat α) : matOfArr n f (matArr n f) = f := by
  funext i j
  simp only [matOfArr, matArr]
  split_ifs with h
  · obtain ⟨hi, hj⟩ := h
    have hn : 0 < n := Nat.lt_of_le_of_lt (Nat.zero_le _) hi
    have hlt : n * i + j < n * n := by
      calc n * i + j < n * i + n := Nat.add_lt_add_left hj _
        _ = n * (i + 1) := by ring
        _ ≤ n * n := Nat.mul_le_mul_left _ hi
    have hsz : n * i + j < ((Array.range (n * n)).map fun t => f (t / n) (t % n)).size := by simpa using hlt
    rw [getElem!_pos ((Array.range (n * n)).map fun t => f (t / n) (t % n)) (n * i + j) hsz]
    simp only [Array.getElem_map, Array.getElem_range]
    have e1 : (n * i + j) / n = i := by
      rw [Nat.mul_add_div hn, Nat.div_eq_of_lt hj, Nat.add_zero]
    have e2 : (n * i + j) % n = j := by
      rw [Nat.mul_add_mod, Nat.mod_eq_of_lt hj]
    rw [e1, e2]
  · rfl

theorem vecOfArr_vecArr (n : Nat) (f : Nat → α) : vecOfArr n f (vecArr n f) = f := by
  funext i
  simp only [vecOfArr, vecArr]
  split_ifs with h
  · have hsz : i < ((Array.range n).map f).size := by simpa using h
    rw [getElem!_pos ((Array.range n).map f) i hsz]
    simp
  · rfl

theorem freezeSVD_eq (n : Nat) (st : SVDState α) : freezeSVD n st = st := by
  cases st; simp only [freezeSVD, matOfArr_matArr]
theorem freezeUSV_eq (n : Nat) (t : USV α) : freezeUSV n t = t := by
  cases t; simp only [freezeUSV, matOfArr_matArr, vecOfArr_vecArr]
theorem freezeEig_eq (n : Nat) (st : EigState α) : freezeEig n st = st := by
  cases st; simp only [freezeEig, matOfArr_matArr, vecOfArr_vecArr]

/-! ## the pairs of a sweep -/

theorem pairs3_mem {jk : Nat × Nat} (h : jk ∈ pairs 3) : jk.1 < jk.2 ∧ jk.2 < 3 := by
  simp [pairs] at h
  rcases h with rfl | rfl | rfl <;> simp
theorem pairs4_mem {jk : Nat × Nat} (h : jk ∈ pairs 4) : jk.1 < jk.2 ∧ jk.2 < 4 := by
  simp [pairs] at h
  rcases h with rfl | rfl | rfl | rfl | rfl | rfl <;> simp

/-! ## SVD: sweep, loop, iteration — induction principles (any tolerance) -/

theorem svdSweep_eq (tol : α) (sqrt : α → α) (n : Nat) (st : SVDState α) :
    svdSweep tol sqrt n st =
      (pairs n).foldl (fun (acc : Bool × SVDState α) jk =>
        ((twoSidedJacobiRotation tol sqrt jk.1 jk.2 acc.2).1 || acc.1, (twoSidedJacobiRotation tol sqrt jk.1 jk.2 acc.2).2)) (false, st) := by
  simp only [svdSweep, freezeSVD_eq]

theorem foldl_svd_induction (tol : α) (sqrt : α → α) (P : SVDState α → Prop) (l : List (Nat × Nat)) (L : List (Nat × Nat))
    (hl : ∀ jk ∈ l, jk ∈ L)
    (hstep : ∀ jk ∈ L, ∀ st, P st → P (twoSidedJacobiRotation tol sqrt jk.1 jk.2 st).2) (acc : Bool × SVDState α) (h : P acc.2) :
    P (l.foldl (fun (acc : Bool × SVDState α) jk =>
        ((twoSidedJacobiRotation tol sqrt jk.1 jk.2 acc.2).1 || acc.1, (twoSidedJacobiRotation tol sqrt jk.1 jk.2 acc.2).2)) acc).2 := by
  induction l generalizing acc with
  | nil => exact h
  | cons x xs ih =>
    simp only [List.foldl_cons]
    apply ih (fun jk hjk => hl jk (List.mem_cons_of_mem _ hjk))
    exact hstep x (hl x (List.mem_cons_self ..)) _ h

/-- a sweep preserves whatever every rotation over a pair of `pairs n` preserves -/
theorem svdSweep_induction (tol : α) (sqrt : α → α) (n : Nat) (P : SVDState α → Prop)
    (hstep : ∀ jk ∈ pairs n, ∀ st, P st → P (twoSidedJacobiRotation tol sqrt jk.1 jk.2 st).2) (st : SVDState α) (h : P st) :
    P (svdSweep tol sqrt n st).2 := by
  rw [svdSweep_eq]
  exact foldl_svd_induction tol sqrt P (pairs n) (pairs n) (fun _ h => h) hstep (false, st) h

/-- … and so does the loop, whatever the stopping threshold, the fuel and the iteration count -/
theorem svdLoop_induction (tol : α) (sqrt : α → α) (n : Nat) (absTol : α) (P : SVDState α → Prop)
    (hstep : ∀ jk ∈ pairs n, ∀ st, P st → P (twoSidedJacobiRotation tol sqrt jk.1 jk.2 st).2)
    (fuel numIter : Nat) (st : SVDState α) (h : P st) : P (svdLoop tol sqrt n absTol fuel numIter st) := by
  induction fuel generalizing numIter st with
  | zero => exact h
  | succ f ih =>
    have hs := svdSweep_induction tol sqrt n P hstep st h
    simp only [svdLoop]
    split_ifs
    · exact hs
    · exact ih _ _ hs
    · exact hs

/-- tolerance 0 in the rotations: the loop preserves `U·A·Vᵀ`, `U·Uᵀ`, `V·Vᵀ` (3×3) -/
theorem svdLoop_tol0_invariant3 {sqrt : α → α} (hs : SqrtSpec sqrt) (absTol : α) (fuel numIter : Nat) (st : SVDState α) :
    prodUAV 3 (svdLoop 0 sqrt 3 absTol fuel numIter st) = prodUAV 3 st ∧
    toM 3 (svdLoop 0 sqrt 3 absTol fuel numIter st).U * (toM 3 (svdLoop 0 sqrt 3 absTol fuel numIter st).U)ᵀ = toM 3 st.U * (toM 3 st.U)ᵀ ∧
    toM 3 (svdLoop 0 sqrt 3 absTol fuel numIter st).V * (toM 3 (svdLoop 0 sqrt 3 absTol fuel numIter st).V)ᵀ = toM 3 st.V * (toM 3 st.V)ᵀ := by
  apply svdLoop_induction 0 sqrt 3 absTol
    (fun s => prodUAV 3 s = prodUAV 3 st ∧ toM 3 s.U * (toM 3 s.U)ᵀ = toM 3 st.U * (toM 3 st.U)ᵀ ∧ toM 3 s.V * (toM 3 s.V)ᵀ = toM 3 st.V * (toM 3 st.V)ᵀ)
  · intro jk hjk s ⟨a, b, c⟩
    obtain ⟨h1, h2⟩ := pairs3_mem hjk
    obtain ⟨a', b', c'⟩ := svdApply_invariant3 (stepOK_tol0 hs 3 jk.1 jk.2 h1 h2 s)
    exact ⟨a'.trans a, b'.trans b, c'.trans c⟩
  · exact ⟨rfl, rfl, rfl⟩
theorem svdLoop_tol0_invariant4 {sqrt : α → α} (hs : SqrtSpec sqrt) (absTol : α) (fuel numIter : Nat) (st : SVDState α) :
    prodUAV 4 (svdLoop 0 sqrt 4 absTol fuel numIter st) = prodUAV 4 st ∧
    toM 4 (svdLoop 0 sqrt 4 absTol fuel numIter st).U * (toM 4 (svdLoop 0 sqrt 4 absTol fuel numIter st).U)ᵀ = toM 4 st.U * (toM 4 st.U)ᵀ ∧
    toM 4 (svdLoop 0 sqrt 4 absTol fuel numIter st).V * (toM 4 (svdLoop 0 sqrt 4 absTol fuel numIter st).V)ᵀ = toM 4 st.V * (toM 4 st.V)ᵀ := by
  apply svdLoop_induction 0 sqrt 4 absTol
    (fun s => prodUAV 4 s = prodUAV 4 st ∧ toM 4 s.U * (toM 4 s.U)ᵀ = toM 4 st.U * (toM 4 st.U)ᵀ ∧ toM 4 s.V * (toM 4 s.V)ᵀ = toM 4 st.V * (toM 4 st.V)ᵀ)
  · intro jk hjk s ⟨a, b, c⟩
    obtain ⟨h1, h2⟩ := pairs4_mem hjk
    obtain ⟨a', b', c'⟩ := svdApply_invariant4 (stepOK_tol0 hs 4 jk.1 jk.2 h1 h2 s)
    exact ⟨a'.trans a, b'.trans b, c'.trans c⟩
  · exact ⟨rfl, rfl, rfl⟩

/-- whole iteration and post-passes: `svdFull` returns the post-pass of `(U, diag A', V)` of the iterated state -/
theorem svdFull_eq (n : Nat) (force : Bool) (detU detV tol : α) (sqrt : α → α) (A : Mat α) :
    svdFull n force detU detV tol sqrt A =
      (let st := svdIterate tol sqrt n A
       let t : USV α := ⟨st.U, fun i => st.A i i, st.V⟩
       let t := if n == 3 then post3 t else post4 t
       if force then forcePos (n - 1) detU detV t else t) := by
  simp only [svdFull, freezeUSV_eq]

/-! ## Eigen solver -/

theorem eigSweep_eq (tol : α) (sqrt : α → α) (n : Nat) (A V : Mat α) :
    eigSweep tol sqrt n A V =
      (pairs n).foldl (fun (acc : Bool × EigState α) jk =>
        ((jacobiRotation tol sqrt n jk.1 jk.2 acc.2).1 || acc.1, (jacobiRotation tol sqrt n jk.1 jk.2 acc.2).2)) (false, ⟨A, V, fun _ => 0⟩) := by
  simp only [eigSweep, freezeEig_eq]

theorem foldl_eig_induction (tol : α) (sqrt : α → α) (n : Nat) (P : EigState α → Prop) (l L : List (Nat × Nat))
    (hl : ∀ jk ∈ l, jk ∈ L)
    (hstep : ∀ jk ∈ L, ∀ st, P st → P (jacobiRotation tol sqrt n jk.1 jk.2 st).2) (acc : Bool × EigState α) (h : P acc.2) :
    P (l.foldl (fun (acc : Bool × EigState α) jk =>
        ((jacobiRotation tol sqrt n jk.1 jk.2 acc.2).1 || acc.1, (jacobiRotation tol sqrt n jk.1 jk.2 acc.2).2)) acc).2 := by
  induction l generalizing acc with
  | nil => exact h
  | cons x xs ih =>
    simp only [List.foldl_cons]
    apply ih (fun jk hjk => hl jk (List.mem_cons_of_mem _ hjk))
    exact hstep x (hl x (List.mem_cons_self ..)) _ h

/-- a sweep of the eigen solver preserves whatever every rotation preserves (from the state with `Z = 0`) -/
theorem eigSweep_induction (tol : α) (sqrt : α → α) (n : Nat) (P : EigState α → Prop)
    (hstep : ∀ jk ∈ pairs n, ∀ st, P st → P (jacobiRotation tol sqrt n jk.1 jk.2 st).2) (A V : Mat α)
    (h : P ⟨A, V, fun _ => 0⟩) : P (eigSweep tol sqrt n A V).2 := by
  rw [eigSweep_eq]
  exact foldl_eig_induction tol sqrt n P (pairs n) (pairs n) (fun _ h => h) hstep (false, ⟨A, V, fun _ => 0⟩) h

/-- one rotation (any tolerance, `j < k`) keeps `A[i][i] - Z[i]` fixed, for every `i` -/
theorem jacobiRotation_diag_minus_Z (tol : α) (sqrt : α → α) (n j k : Nat) (hjk : j < k) (st : EigState α) (i : Nat) :
    (jacobiRotation tol sqrt n j k st).2.A i i - (jacobiRotation tol sqrt n j k st).2.Z i = st.A i i - st.Z i := by
  simp only [jacobiRotation]
  cases h : eigAngles tol sqrt (n == 4) (st.A j j) (st.A j k) (st.A k k) with
  | none =>
    have : ¬ (i = j ∧ i = k) := fun ⟨a, b⟩ => by omega
    simp [this]
  | some p =>
    have := eigApply_Z_tracks_diagonal n j k hjk p st i
    simp only
    linear_combination this

/-- during a sweep the accumulator tracks the diagonal: `A'[i][i] = A[i][i] + Z'[i]` (n = 3 or 4) -/
theorem eigSweep_diag (tol : α) (sqrt : α → α) (n : Nat) (hn : n = 3 ∨ n = 4) (A V : Mat α) (i : Nat) :
    (eigSweep tol sqrt n A V).2.A i i = A i i + (eigSweep tol sqrt n A V).2.Z i := by
  have key := eigSweep_induction tol sqrt n (fun s => s.A i i - s.Z i = A i i) ?_ A V (by simp)
  · linear_combination key
  · intro jk hjk s hs
    have hlt : jk.1 < jk.2 := by
      rcases hn with rfl | rfl
      · exact (pairs3_mem hjk).1
      · exact (pairs4_mem hjk).1
    rw [jacobiRotation_diag_minus_Z tol sqrt n jk.1 jk.2 hlt s i]; exact hs

/-- the end-of-sweep update writes onto the diagonal the value it already has: if `S` is the diagonal of `A` before the sweep,
the updated matrix IS the rotated matrix, and `S'` is its diagonal -/
theorem eigUpdate_eq (tol : α) (sqrt : α → α) (n : Nat) (hn : n = 3 ∨ n = 4) (st : EigRun α) (hS : ∀ i, i < n → st.S i = st.A i i) :
    (eigUpdate n st (eigSweep tol sqrt n st.A st.V).2).A = (eigSweep tol sqrt n st.A st.V).2.A ∧
    (eigUpdate n st (eigSweep tol sqrt n st.A st.V).2).V = (eigSweep tol sqrt n st.A st.V).2.V ∧
    (∀ i, i < n → (eigUpdate n st (eigSweep tol sqrt n st.A st.V).2).S i = (eigUpdate n st (eigSweep tol sqrt n st.A st.V).2).A i i) := by
  simp only [eigUpdate, matOfArr_matArr, vecOfArr_vecArr]
  refine ⟨?_, trivial, ?_⟩
  · funext i j
    split_ifs with h
    · obtain ⟨rfl, hi⟩ := h
      rw [hS i hi, eigSweep_diag tol sqrt n hn st.A st.V i]
    · rfl
  · intro i hi
    simp [hi]

/-- the loop: whatever every rotation preserves (as a property of `(A, V)`), the loop preserves, and `S` stays the diagonal -/
theorem eigLoop_induction (tol : α) (sqrt : α → α) (n : Nat) (hn : n = 3 ∨ n = 4) (absTol : α) (P : Mat α → Mat α → Prop)
    (hstep : ∀ jk ∈ pairs n, ∀ st : EigState α, P st.A st.V → P (jacobiRotation tol sqrt n jk.1 jk.2 st).2.A (jacobiRotation tol sqrt n jk.1 jk.2 st).2.V)
    (fuel numIter : Nat) (st : EigRun α) (hS : ∀ i, i < n → st.S i = st.A i i) (h : P st.A st.V) :
    P (eigLoop tol sqrt n absTol fuel numIter st).A (eigLoop tol sqrt n absTol fuel numIter st).V ∧
    ∀ i, i < n → (eigLoop tol sqrt n absTol fuel numIter st).S i = (eigLoop tol sqrt n absTol fuel numIter st).A i i := by
  induction fuel generalizing numIter st with
  | zero => exact ⟨h, hS⟩
  | succ f ih =>
    obtain ⟨eA, eV, eS⟩ := eigUpdate_eq tol sqrt n hn st hS
    have hs : P (eigUpdate n st (eigSweep tol sqrt n st.A st.V).2).A (eigUpdate n st (eigSweep tol sqrt n st.A st.V).2).V := by
      rw [eA, eV]
      exact eigSweep_induction tol sqrt n (fun s => P s.A s.V) hstep st.A st.V h
    simp only [eigLoop]
    split_ifs
    · exact ⟨hs, eS⟩
    · exact ih _ _ eS hs
    · exact ⟨hs, eS⟩

/-- tolerance 0 in the rotations: the eigen loop preserves `V·sym(A)·Vᵀ` and `V·Vᵀ`, and returns `S` = the diagonal of `A` (3×3) -/
theorem eigLoop_tol0_invariant3 {sqrt : α → α} (hs : SqrtSpec sqrt) (absTol : α) (fuel numIter : Nat) (st : EigRun α)
    (hS : ∀ i, i < 3 → st.S i = st.A i i) :
    (toM 3 (eigLoop 0 sqrt 3 absTol fuel numIter st).V * symM 3 (eigLoop 0 sqrt 3 absTol fuel numIter st).A *
        (toM 3 (eigLoop 0 sqrt 3 absTol fuel numIter st).V)ᵀ = toM 3 st.V * symM 3 st.A * (toM 3 st.V)ᵀ ∧
      toM 3 (eigLoop 0 sqrt 3 absTol fuel numIter st).V * (toM 3 (eigLoop 0 sqrt 3 absTol fuel numIter st).V)ᵀ = toM 3 st.V * (toM 3 st.V)ᵀ) ∧
    ∀ i, i < 3 → (eigLoop 0 sqrt 3 absTol fuel numIter st).S i = (eigLoop 0 sqrt 3 absTol fuel numIter st).A i i := by
  apply eigLoop_induction 0 sqrt 3 (Or.inl rfl) absTol
    (fun A V => toM 3 V * symM 3 A * (toM 3 V)ᵀ = toM 3 st.V * symM 3 st.A * (toM 3 st.V)ᵀ ∧ toM 3 V * (toM 3 V)ᵀ = toM 3 st.V * (toM 3 st.V)ᵀ)
    _ fuel numIter st hS ⟨rfl, rfl⟩
  intro jk hjk s ⟨a, b⟩
  obtain ⟨h1, h2⟩ := pairs3_mem hjk
  obtain ⟨a', b'⟩ := (jacobiRotation_tol0_invariant hs jk.1 jk.2 h1 s).1 h2
  exact ⟨a'.trans a, b'.trans b⟩
theorem eigLoop_tol0_invariant4 {sqrt : α → α} (hs : SqrtSpec sqrt) (absTol : α) (fuel numIter : Nat) (st : EigRun α)
    (hS : ∀ i, i < 4 → st.S i = st.A i i) :
    (toM 4 (eigLoop 0 sqrt 4 absTol fuel numIter st).V * symM 4 (eigLoop 0 sqrt 4 absTol fuel numIter st).A *
        (toM 4 (eigLoop 0 sqrt 4 absTol fuel numIter st).V)ᵀ = toM 4 st.V * symM 4 st.A * (toM 4 st.V)ᵀ ∧
      toM 4 (eigLoop 0 sqrt 4 absTol fuel numIter st).V * (toM 4 (eigLoop 0 sqrt 4 absTol fuel numIter st).V)ᵀ = toM 4 st.V * (toM 4 st.V)ᵀ) ∧
    ∀ i, i < 4 → (eigLoop 0 sqrt 4 absTol fuel numIter st).S i = (eigLoop 0 sqrt 4 absTol fuel numIter st).A i i := by
  apply eigLoop_induction 0 sqrt 4 (Or.inr rfl) absTol
    (fun A V => toM 4 V * symM 4 A * (toM 4 V)ᵀ = toM 4 st.V * symM 4 st.A * (toM 4 st.V)ᵀ ∧ toM 4 V * (toM 4 V)ᵀ = toM 4 st.V * (toM 4 st.V)ᵀ)
    _ fuel numIter st hS ⟨rfl, rfl⟩
  intro jk hjk s ⟨a, b⟩
  obtain ⟨h1, h2⟩ := pairs4_mem hjk
  obtain ⟨a', b'⟩ := (jacobiRotation_tol0_invariant hs jk.1 jk.2 h1 s).2 h2
  exact ⟨a'.trans a, b'.trans b⟩

/-- `jacobiEigenSolver` as a whole, ANY tolerance: the returned `S` is the diagonal of the returned `A` (n = 3, 4) -/
theorem eigFull_S_eq_diag (n : Nat) (hn : n = 3 ∨ n = 4) (tol : α) (sqrt : α → α) (A : Mat α) (i : Nat) (hi : i < n) :
    (eigFull n tol sqrt A).S i = (eigFull n tol sqrt A).A i i := by
  simp only [eigFull, matOfArr_matArr, vecOfArr_vecArr]
  split_ifs
  · exact (eigLoop_induction tol sqrt n hn _ (fun _ _ => True) (fun _ _ _ _ => trivial) 21 0 ⟨A, fun i => A i i, identM⟩
      (fun _ _ => rfl) trivial).2 i hi
  · rfl

end ImathVerif.Jacobi
