import ImathVerif.Spec.GeoSpec
import Mathlib.Tactic.Ring
import Mathlib.Tactic.Linarith
import Mathlib.Tactic.FieldSimp
import Mathlib.Tactic.SplitIfs
import Mathlib.Algebra.Order.Ring.Abs
import ImathVerif.Gen.Leaf
import Mathlib.Analysis.Real.Sqrt
import Mathlib.Tactic.NormNum
/-!
# `Vec2/3/4::length()` is a Euclidean length as soon as `sqrt` is a square root

The C15 theorems take the hypothesis `LenSpec (Gen.V3.length tmin tmax sqrt)`.  Here it is DERIVED from
`SqrtSpec sqrt` for the real extracted bodies (every path of `length` / `lengthTiny`), for every value of `tmin` and `tmax`, over
any ordered field; over `ℝ` with `Real.sqrt` this gives the non-vacuity instance used by the examples of
`Props/C15.lean`.
-/
set_option linter.unusedSectionVars false
set_option linter.unusedSimpArgs false
set_option linter.unusedVariables false
set_option linter.unusedTactic false
set_option linter.unreachableTactic false
namespace ImathVerif.Geo
open ImathVerif
variable {α : Type} [Field α] [LinearOrder α] [IsStrictOrderedRing α]

private theorem sabs_abs (x : α) : sabs x = |x| := by
  unfold sabs
  split_ifs with h
  · rw [abs_of_pos h]
  · rw [abs_of_nonpos (not_lt.mp h)]

theorem scaled_len {m S q : α} {sqrt : α → α} (hs : SqrtSpec sqrt) (hm : 0 ≤ m) (hS : 0 ≤ S) (hq : m * m * S = q) :
    (m * sqrt S) ^ 2 = q ∧ 0 ≤ m * sqrt S := by
  obtain ⟨hr, hr0⟩ := hs S hS
  refine ⟨?_, mul_nonneg hm hr0⟩
  rw [← hq, mul_pow, sq, sq, hr]

set_option maxHeartbeats 4000000 in
/-- `Vec3::length()` (with its `lengthTiny` branch for tiny vectors) IS a Euclidean length as soon as `sqrt` is a
square root: the hypothesis `LenSpec (Gen.V3.length tmin tmax sqrt)` of the C15 theorems follows from `SqrtSpec sqrt`,
for every value of `tmin` and `tmax` -/
theorem V3_length_spec (tmin tmax : α) (sqrt : α → α) (hs : SqrtSpec sqrt) : LenSpec (Gen.V3.length tmin tmax sqrt) := by
  intro a
  generalize hL : Gen.V3.length tmin tmax sqrt a = L
  simp only [Gen.V3.length] at hL
  simp only [dot]
  -- the scaled (`lengthTiny`) branch is taken for tiny AND for overflowing squared lengths
  by_cases c0 : a.x * a.x + a.y * a.y + a.z * a.z < 2 * tmin
  on_goal 2 => by_cases c1 : tmax < a.x * a.x + a.y * a.y + a.z * a.z
  on_goal 3 =>
    simp only [if_neg c0, if_neg c1] at hL
    subst hL
    obtain ⟨hr, hr0⟩ := hs _ (add_nonneg (add_nonneg (mul_self_nonneg a.x) (mul_self_nonneg a.y)) (mul_self_nonneg a.z))
    exact ⟨by rw [sq, hr], hr0⟩
  on_goal 1 => simp only [if_pos c0] at hL
  on_goal 2 => simp only [if_neg c0, if_pos c1] at hL
  all_goals
    by_cases sx : 0 ≤ a.x <;> by_cases sy : 0 ≤ a.y <;> by_cases sz : 0 ≤ a.z <;>
      simp only [sx, sy, sz, if_true, if_false] at hL <;> split_ifs at hL <;> subst hL
  all_goals first
    | (refine scaled_len hs (by linarith) (add_nonneg (add_nonneg (mul_self_nonneg _) (mul_self_nonneg _)) (mul_self_nonneg _)) ?_
       try simp only [neg_eq_zero] at *
       field_simp)
    | (have hx : a.x = 0 := by linarith
       have hy : a.y = 0 := by linarith
       have hz : a.z = 0 := by linarith
       rw [hx, hy, hz]; norm_num)

theorem V2_length_spec (tmin tmax : α) (sqrt : α → α) (hs : SqrtSpec sqrt) : LenSpec2 (Gen.V2.length tmin tmax sqrt) := by
  intro a
  generalize hL : Gen.V2.length tmin tmax sqrt a = L
  simp only [Gen.V2.length, sabs_abs] at hL
  simp only [dot2]
  split_ifs at hL <;> subst hL
  all_goals first
    | (refine scaled_len hs (abs_nonneg _) (add_nonneg (mul_self_nonneg _) (mul_self_nonneg _)) ?_
       field_simp
       simp only [sq_abs])
    | (have hx : a.x = 0 := by
         apply abs_eq_zero.mp; apply le_antisymm _ (abs_nonneg _); linarith [abs_nonneg a.x, abs_nonneg a.y]
       have hy : a.y = 0 := by
         apply abs_eq_zero.mp; apply le_antisymm _ (abs_nonneg _); linarith [abs_nonneg a.x, abs_nonneg a.y]
       rw [hx, hy]; norm_num)
    | (obtain ⟨hr, hr0⟩ := hs _ (add_nonneg (mul_self_nonneg a.x) (mul_self_nonneg a.y))
       exact ⟨by rw [sq, hr], hr0⟩)

set_option maxHeartbeats 8000000 in
theorem V4_length_spec (tmin tmax : α) (sqrt : α → α) (hs : SqrtSpec sqrt) : LenSpec4 (Gen.V4.length tmin tmax sqrt) := by
  intro a
  generalize hL : Gen.V4.length tmin tmax sqrt a = L
  simp only [Gen.V4.length] at hL
  simp only [dot4]
  by_cases c0 : a.x * a.x + a.y * a.y + a.z * a.z + a.w * a.w < 2 * tmin
  on_goal 2 => by_cases c1 : tmax < a.x * a.x + a.y * a.y + a.z * a.z + a.w * a.w
  on_goal 3 =>
    simp only [if_neg c0, if_neg c1] at hL
    subst hL
    obtain ⟨hr, hr0⟩ := hs _ (add_nonneg (add_nonneg (add_nonneg (mul_self_nonneg a.x) (mul_self_nonneg a.y)) (mul_self_nonneg a.z)) (mul_self_nonneg a.w))
    exact ⟨by rw [sq, hr], hr0⟩
  on_goal 1 => simp only [if_pos c0] at hL
  on_goal 2 => simp only [if_neg c0, if_pos c1] at hL
  all_goals
    by_cases sx : 0 ≤ a.x <;> by_cases sy : 0 ≤ a.y <;> by_cases sz : 0 ≤ a.z <;> by_cases sw : 0 ≤ a.w <;>
      simp only [sx, sy, sz, sw, if_true, if_false] at hL <;> split_ifs at hL <;> subst hL
  all_goals first
    | (refine scaled_len hs (by linarith) (add_nonneg (add_nonneg (add_nonneg (mul_self_nonneg _) (mul_self_nonneg _)) (mul_self_nonneg _)) (mul_self_nonneg _)) ?_
       try simp only [neg_eq_zero] at *
       field_simp)
    | (have hx : a.x = 0 := by linarith
       have hy : a.y = 0 := by linarith
       have hz : a.z = 0 := by linarith
       have hw : a.w = 0 := by linarith
       rw [hx, hy, hz, hw]; norm_num)
/-- the real square root is a square root -/
theorem realSqrtSpec : SqrtSpec Real.sqrt := fun x hx => ⟨Real.mul_self_sqrt hx, Real.sqrt_nonneg x⟩

theorem realLenSpec (tmin tmax : ℝ) : LenSpec (Gen.V3.length tmin tmax Real.sqrt) := V3_length_spec tmin tmax Real.sqrt realSqrtSpec
theorem realLenSpec2 (tmin tmax : ℝ) : LenSpec2 (Gen.V2.length tmin tmax Real.sqrt) := V2_length_spec tmin tmax Real.sqrt realSqrtSpec
theorem realLenSpec4 (tmin tmax : ℝ) : LenSpec4 (Gen.V4.length tmin tmax Real.sqrt) := V4_length_spec tmin tmax Real.sqrt realSqrtSpec

end ImathVerif.Geo
