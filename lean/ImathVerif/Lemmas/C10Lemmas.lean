import ImathVerif.Basic.Types
import ImathVerif.Gen.C10Quat
import ImathVerif.Lemmas.C08Lemmas
import Mathlib.Tactic.Ring
import Mathlib.Tactic.Linarith
import Mathlib.Tactic.LinearCombination
import Mathlib.Tactic.FieldSimp
import Mathlib.Tactic.SplitIfs
import Mathlib.Algebra.Order.Field.Basic
import Mathlib.Tactic.NormNum
import Mathlib.Analysis.SpecialFunctions.Trigonometric.Inverse
import Mathlib.Analysis.SpecialFunctions.Complex.Arg
/-!
Helper definitions and lemmas for C10 (quaternion / matrix / axis-angle consistency).
-/
namespace ImathVerif.C10
open ImathVerif

/-- squared 4-D norm `q ^ q` -/
def normSq {α : Type} [Add α] [Mul α] (q : Quat α) : α :=
  q.r * q.r + (q.v.x * q.v.x + q.v.y * q.v.y + q.v.z * q.v.z)

/-- unit quaternion: `q.r² + q.v·q.v = 1` -/
def UnitQ {α : Type} [Add α] [Mul α] [One α] (q : Quat α) : Prop := normSq q = 1

/-- squared length of a Vec3 -/
def len2 {α : Type} [Add α] [Mul α] (a : V3 α) : α := a.x * a.x + a.y * a.y + a.z * a.z

/-- the specification of the square-root parameter used throughout (same as C08) -/
def SqrtSpec {α : Type} [Mul α] [Zero α] [LE α] (sqrt : α → α) : Prop :=
  ∀ x, 0 ≤ x → sqrt x * sqrt x = x ∧ 0 ≤ sqrt x

theorem Quat.ext' {α : Type} {a b : Quat α} (h0 : a.r = b.r) (h1 : a.v.x = b.v.x) (h2 : a.v.y = b.v.y)
    (h3 : a.v.z = b.v.z) : a = b := by
  cases a with | mk ar av => cases av; cases b with | mk br bv => cases bv; simp_all

theorem normSq_nonneg {α : Type} [Field α] [LinearOrder α] [IsStrictOrderedRing α] (q : Quat α) : 0 ≤ normSq q := by
  have h0 := mul_self_nonneg q.r; have h1 := mul_self_nonneg q.v.x
  have h2 := mul_self_nonneg q.v.y; have h3 := mul_self_nonneg q.v.z
  simp only [normSq]; linarith

/-! ### square roots of `4 w²` (extractQuat) -/

theorem sqrt_four_sq_pos {α : Type} [Field α] [LinearOrder α] [IsStrictOrderedRing α] {sqrt : α → α} (hsqrt : SqrtSpec sqrt)
    {w : α} (hw : 0 < w) (S : α) (hS : S = 4 * (w * w)) : sqrt S = 2 * w := by
  have : S = (2 * w) * (2 * w) := by rw [hS]; ring
  rw [this]; exact C08.sqrt_mul_self hsqrt (by linarith)
theorem sqrt_four_sq_neg {α : Type} [Field α] [LinearOrder α] [IsStrictOrderedRing α] {sqrt : α → α} (hsqrt : SqrtSpec sqrt)
    {w : α} (hw : w < 0) (S : α) (hS : S = 4 * (w * w)) : sqrt S = -(2 * w) := by
  have : S = (-(2 * w)) * (-(2 * w)) := by rw [hS]; ring
  rw [this]; exact C08.sqrt_mul_self hsqrt (by linarith)

theorem eq_leaf_zero {α : Type} [Field α] [LinearOrder α] [IsStrictOrderedRing α] {sqrt : α → α} (hsqrt : SqrtSpec sqrt)
    {w S : α} (h : sqrt S = 0) (hS : S = 4 * (w * w)) (hw : w ≠ 0) : False := by
  rcases lt_or_gt_of_ne hw with hp | hp
  · rw [sqrt_four_sq_neg hsqrt hp S hS] at h; linarith
  · rw [sqrt_four_sq_pos hsqrt hp S hS] at h; linarith
theorem eq_leaf_nz {α : Type} [Field α] [LinearOrder α] [IsStrictOrderedRing α] {sqrt : α → α} (hsqrt : SqrtSpec sqrt)
    {w S : α} (_h : ¬ sqrt S = 0) (hS : S = 4 * (w * w)) (hw : w ≠ 0) :
    (0 < w ∧ sqrt S = 2 * w) ∨ (w < 0 ∧ sqrt S = -(2 * w)) := by
  rcases lt_or_gt_of_ne hw with hp | hp
  · exact Or.inr ⟨hp, sqrt_four_sq_neg hsqrt hp S hS⟩
  · exact Or.inl ⟨hp, sqrt_four_sq_pos hsqrt hp S hS⟩

/-! ### lengths of non-zero vectors -/

theorem len2_ne_zero {α : Type} [Field α] [LinearOrder α] [IsStrictOrderedRing α] (a : V3 α) (ha : a ≠ ⟨0, 0, 0⟩) :
    a.x * a.x + a.y * a.y + a.z * a.z ≠ 0 := by
  intro h
  obtain ⟨hx, hy, hz⟩ := C08.sumsq3_eq_zero.mp h
  apply ha; cases a; simp_all

/-- the length of a non-zero vector: `l ≠ 0`, `l * l = a·a` -/
theorem sqrt_len2 {α : Type} [Field α] [LinearOrder α] [IsStrictOrderedRing α] {sqrt : α → α} (hsqrt : SqrtSpec sqrt)
    (a : V3 α) (ha : a ≠ ⟨0, 0, 0⟩) :
    sqrt (a.x * a.x + a.y * a.y + a.z * a.z) ≠ 0 ∧
    sqrt (a.x * a.x + a.y * a.y + a.z * a.z) * sqrt (a.x * a.x + a.y * a.y + a.z * a.z) = a.x * a.x + a.y * a.y + a.z * a.z := by
  have h0 : 0 ≤ a.x * a.x + a.y * a.y + a.z * a.z := by
    have := mul_self_nonneg a.x; have := mul_self_nonneg a.y; have := mul_self_nonneg a.z; linarith
  obtain ⟨h1, h2⟩ := hsqrt _ h0
  refine ⟨?_, h1⟩
  intro h; rw [h, mul_zero] at h1; exact len2_ne_zero a ha h1.symm

/-! ### linear combinations, unit results of `normalize` -/

/-- `k1 q1 + k2 q2` with the scalar on the right, as the code computes it -/
def lincomb {α : Type} [Add α] [Mul α] (k1 : α) (q1 : Quat α) (k2 : α) (q2 : Quat α) : Quat α :=
  ⟨q1.r * k1 + q2.r * k2, ⟨q1.v.x * k1 + q2.v.x * k2, q1.v.y * k1 + q2.v.y * k2, q1.v.z * k1 + q2.v.z * k2⟩⟩

/-- `lincomb 1 q1 0 q2 = q1`, `lincomb 0 q1 1 q2 = q2` -/
theorem lincomb_one_zero {α : Type} [Field α] (q1 q2 : Quat α) : lincomb 1 q1 0 q2 = q1 := by
  simp [lincomb]
theorem lincomb_zero_one {α : Type} [Field α] (q1 q2 : Quat α) : lincomb 0 q1 1 q2 = q2 := by
  simp [lincomb]

theorem unit_of_div {α : Type} [Field α] [LinearOrder α] [IsStrictOrderedRing α] {sqrt : α → α} (hsqrt : SqrtSpec sqrt)
    (a b c d : α) (h : ¬ sqrt (a * a + (b * b + c * c + d * d)) = 0) :
    UnitQ (⟨a / sqrt (a * a + (b * b + c * c + d * d)), ⟨b / sqrt (a * a + (b * b + c * c + d * d)),
      c / sqrt (a * a + (b * b + c * c + d * d)), d / sqrt (a * a + (b * b + c * c + d * d))⟩⟩ : Quat α) := by
  have h0 : 0 ≤ a * a + (b * b + c * c + d * d) := by
    have := mul_self_nonneg a; have := mul_self_nonneg b; have := mul_self_nonneg c; have := mul_self_nonneg d; linarith
  obtain ⟨hs, _⟩ := hsqrt _ h0
  generalize sqrt (a * a + (b * b + c * c + d * d)) = l at hs h
  simp only [UnitQ, normSq]
  field_simp
  linear_combination -hs

theorem unit_identity {α : Type} [Field α] : UnitQ (⟨1, ⟨0, 0, 0⟩⟩ : Quat α) := by simp [UnitQ, normSq]

theorem UnitQ_ite {α : Type} [Field α] {c : Prop} [Decidable c] {a b : Quat α} (ha : c → UnitQ a) (hb : ¬c → UnitQ b) :
    UnitQ (if c then a else b) := by
  split_ifs with h
  · exact ha h
  · exact hb h

theorem sabs_of_nonneg {α : Type} [Field α] [LinearOrder α] [IsStrictOrderedRing α] {a : α} (h : 0 ≤ a) : sabs a = a := by
  simp only [sabs]; split_ifs with h1
  · rfl
  · have : a = 0 := le_antisymm (not_lt.mp h1) h
    rw [this]; simp


/-! ### the real `atan2`; the 4-D angle lies in [0, π) unless q1 = -q2 -/

/-- the real two-argument arctangent `atan2 (y, x)`: the argument of `x + i y` -/
noncomputable def ratan2 (y x : ℝ) : ℝ := Complex.arg ⟨x, y⟩

theorem angle4D_real_range (q1 q2 : Quat ℝ) (hne : q1 ≠ Gen.C10.Quat.neg q2) :
    0 ≤ Gen.C10.Quat.angle4D Real.sqrt ratan2 q1 q2 ∧ Gen.C10.Quat.angle4D Real.sqrt ratan2 q1 q2 < Real.pi := by
  simp only [Gen.C10.Quat.angle4D, ratan2]
  set D := Real.sqrt ((q1.r - q2.r) * (q1.r - q2.r) + ((q1.v.x - q2.v.x) * (q1.v.x - q2.v.x) + (q1.v.y - q2.v.y) * (q1.v.y - q2.v.y) + (q1.v.z - q2.v.z) * (q1.v.z - q2.v.z))) with hD
  set S := Real.sqrt ((q1.r + q2.r) * (q1.r + q2.r) + ((q1.v.x + q2.v.x) * (q1.v.x + q2.v.x) + (q1.v.y + q2.v.y) * (q1.v.y + q2.v.y) + (q1.v.z + q2.v.z) * (q1.v.z + q2.v.z))) with hS
  have hD0 : 0 ≤ D := Real.sqrt_nonneg _
  have hS0 : 0 < S := by
    apply Real.sqrt_pos.mpr
    have h0 := mul_self_nonneg (q1.r + q2.r); have h1 := mul_self_nonneg (q1.v.x + q2.v.x)
    have h2 := mul_self_nonneg (q1.v.y + q2.v.y); have h3 := mul_self_nonneg (q1.v.z + q2.v.z)
    rcases lt_or_eq_of_le (by linarith : 0 ≤ (q1.r + q2.r) * (q1.r + q2.r) + ((q1.v.x + q2.v.x) * (q1.v.x + q2.v.x) + (q1.v.y + q2.v.y) * (q1.v.y + q2.v.y) + (q1.v.z + q2.v.z) * (q1.v.z + q2.v.z))) with h | h
    · exact h
    · exfalso; apply hne
      have e0 : q1.r + q2.r = 0 := mul_self_eq_zero.mp (by linarith)
      have e1 : q1.v.x + q2.v.x = 0 := mul_self_eq_zero.mp (by linarith)
      have e2 : q1.v.y + q2.v.y = 0 := mul_self_eq_zero.mp (by linarith)
      have e3 : q1.v.z + q2.v.z = 0 := mul_self_eq_zero.mp (by linarith)
      apply Quat.ext' <;> simp only [Gen.C10.Quat.neg] <;> linarith
  have h1 : 0 ≤ Complex.arg ⟨S, D⟩ := Complex.arg_nonneg_iff.mpr hD0
  have h2 : |Complex.arg ⟨S, D⟩| < Real.pi / 2 := Complex.abs_arg_lt_pi_div_two_iff.mpr (Or.inl hS0)
  rw [abs_of_nonneg h1] at h2
  constructor <;> linarith

/-! ### 4-D dot product of linear combinations; `sinx_over_x` off its tiny branch; `cos (angle4D) = q1 ^ q2` -/

theorem dot4_lincomb_left {α : Type} [CommRing α] (k1 k2 : α) (q1 q2 p : Quat α) :
    Gen.C10.Quat.dot4 p (lincomb k1 q1 k2 q2) = k1 * Gen.C10.Quat.dot4 p q1 + k2 * Gen.C10.Quat.dot4 p q2 := by
  simp only [Gen.C10.Quat.dot4, lincomb]; ring
theorem dot4_lincomb_right {α : Type} [CommRing α] (k1 k2 : α) (q1 q2 p : Quat α) :
    Gen.C10.Quat.dot4 (lincomb k1 q1 k2 q2) p = k1 * Gen.C10.Quat.dot4 q1 p + k2 * Gen.C10.Quat.dot4 q2 p := by
  simp only [Gen.C10.Quat.dot4, lincomb]; ring
theorem normSq_lincomb {α : Type} [CommRing α] (k1 k2 : α) (q1 q2 : Quat α) :
    normSq (lincomb k1 q1 k2 q2) = k1 * k1 * normSq q1 + k2 * k2 * normSq q2 + 2 * k1 * k2 * Gen.C10.Quat.dot4 q1 q2 := by
  simp only [Gen.C10.Quat.dot4, lincomb, normSq]; ring
theorem dot4_self {α : Type} [CommRing α] (q : Quat α) : Gen.C10.Quat.dot4 q q = normSq q := by
  unfold Gen.C10.Quat.dot4 normSq; ring
theorem dot4_comm {α : Type} [CommRing α] (p q : Quat α) : Gen.C10.Quat.dot4 p q = Gen.C10.Quat.dot4 q p := by
  simp only [Gen.C10.Quat.dot4]; ring

theorem Quat_neg_unit {α : Type} [CommRing α] (q : Quat α) (h : UnitQ q) : UnitQ (Gen.C10.Quat.neg q) := by
  simp only [UnitQ, normSq, Gen.C10.Quat.neg] at *; linear_combination h
theorem dot4_neg {α : Type} [CommRing α] (p q : Quat α) : Gen.C10.Quat.dot4 p (Gen.C10.Quat.neg q) = -Gen.C10.Quat.dot4 p q := by
  simp only [Gen.C10.Quat.dot4, Gen.C10.Quat.neg]; ring


/-- over ℝ: for unit quaternions, `cos (angle4D q1 q2) = q1 ^ q2` (also at q1 = -q2, where atan2 (2, 0) = π/2 gives cos π = -1) -/
theorem cos_angle4D_real (q1 q2 : Quat ℝ) (h1 : UnitQ q1) (h2 : UnitQ q2) :
    Real.cos (Gen.C10.Quat.angle4D Real.sqrt ratan2 q1 q2) = Gen.C10.Quat.dot4 q1 q2 := by
  simp only [UnitQ, normSq] at h1 h2
  simp only [Gen.C10.Quat.angle4D, ratan2, Gen.C10.Quat.dot4]
  set D2 := (q1.r - q2.r) * (q1.r - q2.r) + ((q1.v.x - q2.v.x) * (q1.v.x - q2.v.x) + (q1.v.y - q2.v.y) * (q1.v.y - q2.v.y) + (q1.v.z - q2.v.z) * (q1.v.z - q2.v.z)) with hD2
  set S2 := (q1.r + q2.r) * (q1.r + q2.r) + ((q1.v.x + q2.v.x) * (q1.v.x + q2.v.x) + (q1.v.y + q2.v.y) * (q1.v.y + q2.v.y) + (q1.v.z + q2.v.z) * (q1.v.z + q2.v.z)) with hS2
  have hD0 : 0 ≤ D2 := by
    have h0 := mul_self_nonneg (q1.r - q2.r); have h1 := mul_self_nonneg (q1.v.x - q2.v.x)
    have h2 := mul_self_nonneg (q1.v.y - q2.v.y); have h3 := mul_self_nonneg (q1.v.z - q2.v.z)
    linarith
  have hS0 : 0 ≤ S2 := by
    have h0 := mul_self_nonneg (q1.r + q2.r); have h1 := mul_self_nonneg (q1.v.x + q2.v.x)
    have h2 := mul_self_nonneg (q1.v.y + q2.v.y); have h3 := mul_self_nonneg (q1.v.z + q2.v.z)
    linarith
  have hsum : S2 + D2 = 4 := by simp only [hS2, hD2]; linear_combination 2 * h1 + 2 * h2
  have hS2c : S2 = 2 + 2 * (q1.r * q2.r + q1.v.x * q2.v.x + q1.v.y * q2.v.y + q1.v.z * q2.v.z) := by
    simp only [hS2]; linear_combination h1 + h2
  have hSS : Real.sqrt S2 * Real.sqrt S2 = S2 := Real.mul_self_sqrt hS0
  have hDD : Real.sqrt D2 * Real.sqrt D2 = D2 := Real.mul_self_sqrt hD0
  have hnorm : ‖(⟨Real.sqrt S2, Real.sqrt D2⟩ : ℂ)‖ = 2 := by
    rw [Complex.norm_def, Complex.normSq_apply]
    simp only [hSS, hDD, hsum]
    rw [show (4 : ℝ) = 2 * 2 by norm_num]; exact Real.sqrt_mul_self (by norm_num)
  have hne : (⟨Real.sqrt S2, Real.sqrt D2⟩ : ℂ) ≠ 0 := by
    intro h; rw [h] at hnorm; simp at hnorm
  have hc : Real.cos (Complex.arg ⟨Real.sqrt S2, Real.sqrt D2⟩) = Real.sqrt S2 / 2 := by
    rw [Complex.cos_arg hne, hnorm]
  rw [Real.cos_two_mul, hc]
  have : (Real.sqrt S2 / 2) ^ 2 = S2 / 4 := by rw [div_pow, sq, hSS]; norm_num
  rw [this, hS2c]; ring


/-- `(T)(-0.25) * (a + b)` on quaternions, as the code computes it (scalar on the right of each component) -/
def qscaleAdd {α : Type} [Add α] [Mul α] (k : α) (a b : Quat α) : Quat α :=
  ⟨(a.r + b.r) * k, ⟨(a.v.x + b.v.x) * k, (a.v.y + b.v.y) * k, (a.v.z + b.v.z) * k⟩⟩


theorem smin_eq_min {α : Type} [LinearOrder α] (a b : α) : smin a b = min a b := by
  simp only [smin]; split_ifs with h
  · exact (min_eq_right h.le).symm
  · exact (min_eq_left (not_lt.mp h)).symm

end ImathVerif.C10
