import ImathVerif.Basic.Types
import ImathVerif.Gen.C10Quat
import ImathVerif.Lemmas.C08Lemmas
import Mathlib.Tactic.Ring
import Mathlib.Tactic.Linarith
import Mathlib.Tactic.LinearCombination
import Mathlib.Tactic.FieldSimp
import Mathlib.Tactic.SplitIfs
import Mathlib.Algebra.Order.Field.Basic
/-!
Helper definitions and lemmas for C10 (quaternion / matrix / axis-angle consistency).
-/
namespace ImathVerif.C10
open ImathVerif

/-- squared 4-D norm `q ^ q` -/
def normSq {α : Type} [Add α] [Mul α] (q : Quat α) : α :=
  q.r * q.r + (q.v.x * q.v.x + q.v.y * q.v.y + q.v.z * q.v.z)

/-- unit quaternion: `q.r² + q.v·q.v = 1` -/
def UnitQ {α : Type} [Add α] [Mul α] [One α] (q : Quat α) : Prop := normSq q = 1

/-- squared length of a Vec3 -/
def len2 {α : Type} [Add α] [Mul α] (a : V3 α) : α := a.x * a.x + a.y * a.y + a.z * a.z

/-- the specification of the square-root parameter used throughout (same as C08) -/
def SqrtSpec {α : Type} [Mul α] [Zero α] [LE α] (sqrt : α → α) : Prop :=
  ∀ x, 0 ≤ x → sqrt x * sqrt x = x ∧ 0 ≤ sqrt x

theorem Quat.ext' {α : Type} {a b : Quat α} (h0 : a.r = b.r) (h1 : a.v.x = b.v.x) (h2 : a.v.y = b.v.y)
    (h3 : a.v.z = b.v.z) : a = b := by
  cases a with | mk ar av => cases av; cases b with | mk br bv => cases bv; simp_all

theorem normSq_nonneg {α : Type} [Field α] [LinearOrder α] [IsStrictOrderedRing α] (q : Quat α) : 0 ≤ normSq q := by
  have h0 := mul_self_nonneg q.r; have h1 := mul_self_nonneg q.v.x
  have h2 := mul_self_nonneg q.v.y; have h3 := mul_self_nonneg q.v.z
  simp only [normSq]; linarith

/-! ### square roots of `4 w²` (extractQuat) -/

theorem sqrt_four_sq_pos {α : Type} [Field α] [LinearOrder α] [IsStrictOrderedRing α] {sqrt : α → α} (hsqrt : SqrtSpec sqrt)
    {w : α} (hw : 0 < w) (S : α) (hS : S = 4 * (w * w)) : sqrt S = 2 * w := by
  have : S = (2 * w) * (2 * w) := by rw [hS]; ring
  rw [this]; exact C08.sqrt_mul_self hsqrt (by linarith)
theorem sqrt_four_sq_neg {α : Type} [Field α] [LinearOrder α] [IsStrictOrderedRing α] {sqrt : α → α} (hsqrt : SqrtSpec sqrt)
    {w : α} (hw : w < 0) (S : α) (hS : S = 4 * (w * w)) : sqrt S = -(2 * w) := by
  have : S = (-(2 * w)) * (-(2 * w)) := by rw [hS]; ring
  rw [this]; exact C08.sqrt_mul_self hsqrt (by linarith)

theorem eq_leaf_zero {α : Type} [Field α] [LinearOrder α] [IsStrictOrderedRing α] {sqrt : α → α} (hsqrt : SqrtSpec sqrt)
    {w S : α} (h : sqrt S = 0) (hS : S = 4 * (w * w)) (hw : w ≠ 0) : False := by
  rcases lt_or_gt_of_ne hw with hp | hp
  · rw [sqrt_four_sq_neg hsqrt hp S hS] at h; linarith
  · rw [sqrt_four_sq_pos hsqrt hp S hS] at h; linarith
theorem eq_leaf_nz {α : Type} [Field α] [LinearOrder α] [IsStrictOrderedRing α] {sqrt : α → α} (hsqrt : SqrtSpec sqrt)
    {w S : α} (_h : ¬ sqrt S = 0) (hS : S = 4 * (w * w)) (hw : w ≠ 0) :
    (0 < w ∧ sqrt S = 2 * w) ∨ (w < 0 ∧ sqrt S = -(2 * w)) := by
  rcases lt_or_gt_of_ne hw with hp | hp
  · exact Or.inr ⟨hp, sqrt_four_sq_neg hsqrt hp S hS⟩
  · exact Or.inl ⟨hp, sqrt_four_sq_pos hsqrt hp S hS⟩

/-! ### lengths of non-zero vectors -/

theorem len2_ne_zero {α : Type} [Field α] [LinearOrder α] [IsStrictOrderedRing α] (a : V3 α) (ha : a ≠ ⟨0, 0, 0⟩) :
    a.x * a.x + a.y * a.y + a.z * a.z ≠ 0 := by
  intro h
  obtain ⟨hx, hy, hz⟩ := C08.sumsq3_eq_zero.mp h
  apply ha; cases a; simp_all

/-- the length of a non-zero vector: `l ≠ 0`, `l * l = a·a` -/
theorem sqrt_len2 {α : Type} [Field α] [LinearOrder α] [IsStrictOrderedRing α] {sqrt : α → α} (hsqrt : SqrtSpec sqrt)
    (a : V3 α) (ha : a ≠ ⟨0, 0, 0⟩) :
    sqrt (a.x * a.x + a.y * a.y + a.z * a.z) ≠ 0 ∧
    sqrt (a.x * a.x + a.y * a.y + a.z * a.z) * sqrt (a.x * a.x + a.y * a.y + a.z * a.z) = a.x * a.x + a.y * a.y + a.z * a.z := by
  have h0 : 0 ≤ a.x * a.x + a.y * a.y + a.z * a.z := by
    have := mul_self_nonneg a.x; have := mul_self_nonneg a.y; have := mul_self_nonneg a.z; linarith
  obtain ⟨h1, h2⟩ := hsqrt _ h0
  refine ⟨?_, h1⟩
  intro h; rw [h, mul_zero] at h1; exact len2_ne_zero a ha h1.symm

end ImathVerif.C10
