import ImathVerif.Model.FixedArray
import ImathVerif.Spec.PyList
/-!
Index arithmetic for C19: `canonical_index`, CPython's slice normalisation against the
language-reference walk, `size_t` wrap-around.
-/
namespace ImathVerif.FixedArray
open ImathVerif

/-! ## canonical_index -/

theorem canonicalIndex_ok_iff {len : Nat} {i : Int} {k : Nat} :
    canonicalIndex len i = .ok k ↔
      (0 ≤ i ∧ i < len ∧ k = i.toNat) ∨ (i < 0 ∧ 0 ≤ i + len ∧ k = (i + len).toNat) := by
  unfold canonicalIndex
  simp only
  split <;> rename_i h1
  · split <;> rename_i h2
    · simp; omega
    · simp; omega
  · split <;> rename_i h2
    · simp; omega
    · simp; omega

theorem canonicalIndex_lt {len : Nat} {i : Int} {k : Nat} (h : canonicalIndex len i = .ok k) : k < len := by
  rcases canonicalIndex_ok_iff.1 h with ⟨a, b, c⟩ | ⟨a, b, c⟩ <;> omega

theorem canonicalIndex_error {len : Nat} {i : Int} {e : Err} (h : canonicalIndex len i = .error e) :
    e = .indexError ∧ (i ≥ len ∨ i < -(len : Int)) := by
  unfold canonicalIndex at h
  simp only at h
  split at h <;> rename_i h1
  · split at h <;> rename_i h2
    · simp at h; exact ⟨h.symm, by omega⟩
    · simp at h
  · split at h <;> rename_i h2
    · simp at h; exact ⟨h.symm, by omega⟩
    · simp at h

/-- `canonical_index` accepts exactly the indices Python accepts and yields the same position -/
theorem canonicalIndex_pylist {α : Type} (l : List α) (i : Int) :
    (match canonicalIndex l.length i with
      | .ok k => l[k]?
      | .error _ => none) = PyList.getitem l i := by
  unfold PyList.getitem
  cases h : canonicalIndex l.length i with
  | ok k =>
    rcases canonicalIndex_ok_iff.1 h with ⟨a, b, c⟩ | ⟨a, b, c⟩
    · simp [a, c]
    · have : ¬ (0 ≤ i) := by omega
      have h2 : -(l.length : Int) ≤ i := by omega
      simp [this, h2, c]
  | error e =>
    have := (canonicalIndex_error h).2
    rcases this with a | a
    · have h0 : 0 ≤ i := by omega
      have : l.length ≤ i.toNat := by omega
      simp [h0, List.getElem?_eq_none this]
    · have h0 : ¬ (0 ≤ i) := by omega
      have h1 : ¬ (-(l.length : Int) ≤ i) := by omega
      simp [h0, h1]

/-! ## size_t wrap-around -/

theorem wrap64_of_range {x : Int} (h0 : 0 ≤ x) (h1 : x < 18446744073709551616) : wrap64 x = x.toNat := by
  unfold wrap64
  rw [Int.emod_eq_of_lt h0 h1]

/-! ## the walks of the specification in closed form -/

/-- number of items of `i, i+k, ... < j` -/
def countUp (k j i : Nat) : Nat := if i < j then (j - i - 1) / k + 1 else 0

theorem countUp_step {k j i : Nat} (hk : 0 < k) (hij : i < j) : countUp k j i = countUp k j (i + k) + 1 := by
  unfold countUp
  simp only [hij, if_true]
  by_cases h2 : i + k < j
  · simp only [h2, if_true]
    have : j - i - 1 = (j - (i + k) - 1) + k := by omega
    rw [this, Nat.add_div_right _ hk]
  · simp only [h2, if_false]
    have : (j - i - 1) / k = 0 := Nat.div_eq_of_lt (by omega)
    omega

theorem walkUp_eq {k j : Nat} (hk : 0 < k) :
    ∀ (fuel i : Nat), j ≤ i + fuel →
      PyList.walkUp k j fuel i = (List.range (countUp k j i)).map (fun n => i + n * k) := by
  intro fuel
  induction fuel with
  | zero =>
    intro i h
    have : ¬ i < j := by omega
    simp [PyList.walkUp, countUp, this]
  | succ f ih =>
    intro i h
    simp only [PyList.walkUp]
    by_cases hij : i < j
    · simp only [hij, if_true]
      rw [countUp_step hk hij, List.range_succ_eq_map, List.map_cons, List.map_map, ih (i + k) (by omega)]
      simp only [Nat.zero_mul, Nat.add_zero, List.cons.injEq, true_and]
      apply List.map_congr_left
      intro n _
      simp only [Function.comp, Nat.succ_eq_add_one, Nat.add_mul, Nat.one_mul]
      omega
    · simp [hij, countUp]

/-- number of items of `i, i-k, ... > j` -/
def countDown (k : Nat) (j i : Int) : Nat := if j < i then (i - j - 1).toNat / k + 1 else 0

theorem countDown_step {k : Nat} {j i : Int} (hk : 0 < k) (hij : j < i) :
    countDown k j i = countDown k j (i - k) + 1 := by
  unfold countDown
  simp only [hij, if_true]
  by_cases h2 : j < i - k
  · simp only [h2, if_true]
    have : (i - j - 1).toNat = (i - k - j - 1).toNat + k := by omega
    rw [this, Nat.add_div_right _ hk]
  · simp only [h2, if_false]
    have : (i - j - 1).toNat / k = 0 := Nat.div_eq_of_lt (by omega)
    omega

theorem walkDown_eq {k : Nat} {j : Int} (hk : 0 < k) :
    ∀ (fuel : Nat) (i : Int), i - j ≤ fuel →
      PyList.walkDown k j fuel i = (List.range (countDown k j i)).map (fun (n : Nat) => (i - (n : Int) * (k : Int)).toNat) := by
  intro fuel
  induction fuel with
  | zero =>
    intro i h
    have : ¬ j < i := by omega
    simp [PyList.walkDown, countDown, this]
  | succ f ih =>
    intro i h
    simp only [PyList.walkDown]
    by_cases hij : j < i
    · simp only [hij, if_true]
      rw [countDown_step hk hij, List.range_succ_eq_map, List.map_cons, List.map_map,
        ih (i - k) (by omega)]
      simp only [Int.natCast_zero, Int.zero_mul, Int.sub_zero, List.cons.injEq, true_and]
      apply List.map_congr_left
      intro n _
      simp only [Function.comp, Nat.succ_eq_add_one]
      congr 1
      rw [Int.natCast_add, Int.add_mul]
      simp
      omega
    · simp [hij, countDown]

end ImathVerif.FixedArray

namespace ImathVerif.FixedArray
open ImathVerif

theorem countUp_bound {k j s i : Nat} (hi : i < countUp k j s) : s + i * k < j := by
  unfold countUp at hi
  split at hi
  · rename_i hsj
    have h1 : i ≤ (j - s - 1) / k := by omega
    have h2 : i * k ≤ (j - s - 1) / k * k := Nat.mul_le_mul_right k h1
    have h3 : (j - s - 1) / k * k ≤ j - s - 1 := Nat.div_mul_le_self _ _
    omega
  · omega

theorem countDown_bound {k : Nat} {j s : Int} {i : Nat} (hi : i < countDown k j s) :
    j < s - (i : Int) * (k : Int) := by
  unfold countDown at hi
  split at hi
  · rename_i hsj
    have h1 : i ≤ (s - j - 1).toNat / k := by omega
    have h2 : i * k ≤ (s - j - 1).toNat / k * k := Nat.mul_le_mul_right k h1
    have h3 : (s - j - 1).toNat / k * k ≤ (s - j - 1).toNat := Nat.div_mul_le_self _ _
    have h4 : ((i * k : Nat) : Int) = (i : Int) * (k : Int) := by simp
    omega
  · omega

/-! ## `PySlice_AdjustIndices` against the language reference -/

theorem adjustBound_up {n : Nat} {x k : Int} (hk : 0 < k) (d : Nat) :
    adjustBound n x k = (PyList.boundUp n (some x) d : Nat) := by
  unfold adjustBound PyList.boundUp
  have hk' : ¬ k < 0 := by omega
  simp only [hk', if_false]
  split <;> rename_i h1
  · split <;> rename_i h2 <;> omega
  · split <;> rename_i h2 <;> omega

theorem adjustBound_down {n : Nat} {x k : Int} (hk : k < 0) (d : Int) :
    adjustBound n x k = PyList.boundDown n (some x) d := by
  unfold adjustBound PyList.boundDown
  simp only [hk, if_true]
  split <;> rename_i h1
  · split <;> rename_i h2 <;> omega
  · split <;> rename_i h2 <;> omega

/-- the `Py_ssize_t` range -/
def InSsize (x : Int) : Prop := PY_SSIZE_T_MIN ≤ x ∧ x ≤ PY_SSIZE_T_MAX

theorem sliceUnpack_ok {a b c : Option Int} (hc : ∀ v, c = some v → -PY_SSIZE_T_MAX ≤ v)
    {sa so st : Int} (h : sliceUnpack a b c = .ok (sa, so, st)) :
    st = c.getD 1 ∧ st ≠ 0 ∧ sa = a.getD (if st < 0 then PY_SSIZE_T_MAX else 0) ∧
      so = b.getD (if st < 0 then PY_SSIZE_T_MIN else PY_SSIZE_T_MAX) := by
  unfold sliceUnpack at h
  cases c with
  | none =>
    simp only at h
    cases a <;> cases b <;> simp at h <;> obtain ⟨h1, h2, h3⟩ := h <;> subst h1 h2 h3 <;> simp
  | some cv =>
    have hcv := hc cv rfl
    simp only at h
    by_cases hz : cv = 0
    · simp [hz] at h
    · have hclamp : ¬ cv < -PY_SSIZE_T_MAX := by omega
      simp only [hz, if_false, hclamp] at h
      cases a <;> cases b <;> simp at h <;> obtain ⟨h1, h2, h3⟩ := h <;> subst h1 h2 h3 <;> simp [hz]

theorem sliceUnpack_error {a b c : Option Int} {e : Err} (h : sliceUnpack a b c = .error e) :
    c = some 0 ∧ e = .stepZero := by
  unfold sliceUnpack at h
  cases c with
  | none => simp at h
  | some cv =>
    simp only at h
    by_cases hz : cv = 0
    · simp [hz] at h; exact ⟨by simp [hz], h.symm⟩
    · simp [hz] at h

theorem adjust_up_start {n : Nat} {k : Int} (hk : 0 < k) (a : Option Int) :
    adjustBound n (a.getD 0) k = (PyList.boundUp n a 0 : Nat) := by
  cases a with
  | none =>
    have hk' : ¬ k < 0 := by omega
    simp only [Option.getD, adjustBound, PyList.boundUp, hk', if_false]
    split <;> rename_i h1
    · omega
    · split <;> omega
  | some x => exact adjustBound_up hk 0

theorem adjust_up_stop {n : Nat} (hn : (n : Int) ≤ PY_SSIZE_T_MAX) {k : Int} (hk : 0 < k) (b : Option Int) :
    adjustBound n (b.getD PY_SSIZE_T_MAX) k = (PyList.boundUp n b n : Nat) := by
  cases b with
  | none =>
    have hk' : ¬ k < 0 := by omega
    have : ¬ PY_SSIZE_T_MAX < 0 := by unfold PY_SSIZE_T_MAX; omega
    simp only [Option.getD, adjustBound, PyList.boundUp, hk', if_false, this]
    split <;> omega
  | some x => exact adjustBound_up hk n

theorem adjust_down_start {n : Nat} (hn : (n : Int) ≤ PY_SSIZE_T_MAX) {k : Int} (hk : k < 0) (a : Option Int) :
    adjustBound n (a.getD PY_SSIZE_T_MAX) k = PyList.boundDown n a ((n : Int) - 1) := by
  cases a with
  | none =>
    have : ¬ PY_SSIZE_T_MAX < 0 := by unfold PY_SSIZE_T_MAX; omega
    simp only [Option.getD, adjustBound, PyList.boundDown, hk, if_true, this, if_false]
    split <;> omega
  | some x => exact adjustBound_down hk _

theorem adjust_down_stop {n : Nat} (hn : (n : Int) ≤ PY_SSIZE_T_MAX) {k : Int} (hk : k < 0) (b : Option Int) :
    adjustBound n (b.getD PY_SSIZE_T_MIN) k = PyList.boundDown n b (-1) := by
  cases b with
  | none =>
    have h1 : PY_SSIZE_T_MIN < 0 := by unfold PY_SSIZE_T_MIN; omega
    have h2 : PY_SSIZE_T_MIN + (n : Int) < 0 := by
      unfold PY_SSIZE_T_MIN; unfold PY_SSIZE_T_MAX at hn; omega
    simp only [Option.getD, adjustBound, PyList.boundDown, hk, if_true, h1, h2]
  | some x => exact adjustBound_down hk _

theorem tdiv_count_up {S E : Nat} {k : Int} (hk : 0 < k) (hSE : S < E) :
    (((E : Int) - (S : Int) - 1).tdiv k + 1).toNat = (E - S - 1) / k.toNat + 1 := by
  have e3 : ((E : Int) - (S : Int) - 1) = ((E - S - 1 : Nat) : Int) := by omega
  have e4 : k = ((k.toNat : Nat) : Int) := by omega
  rw [e3]
  conv => lhs; rw [e4]
  rw [← Int.ofNat_tdiv]
  generalize (E - S - 1) / k.toNat = q
  omega

theorem tdiv_count_down {S E k : Int} (hk : k < 0) (hSE : E < S) :
    ((S - E - 1).tdiv (-k) + 1).toNat = (S - E - 1).toNat / (-k).toNat + 1 := by
  obtain ⟨m, hm⟩ : ∃ m : Nat, S - E - 1 = (m : Int) := ⟨(S - E - 1).toNat, by omega⟩
  obtain ⟨d, hd⟩ : ∃ d : Nat, -k = (d : Int) := ⟨(-k).toNat, by omega⟩
  rw [hm, hd, ← Int.ofNat_tdiv]
  simp only [Int.toNat_natCast]
  generalize m / d = q
  omega

/-- closed form of a successful `extract_slice_indices` on a slice object, in the terms of the specification -/
theorem extract_slice_form {n : Nat} (hn : (n : Int) ≤ PY_SSIZE_T_MAX) {a b c : Option Int}
    (hc : ∀ v, c = some v → -PY_SSIZE_T_MAX ≤ v) {s : SliceIdx} {minEnd minStart : Int}
    (h : extractSliceIndices n (.slice a b c) minEnd minStart = .ok s) :
    s.step = c.getD 1 ∧ s.step ≠ 0 ∧
    ((0 < s.step ∧ s.start = PyList.boundUp n a 0 ∧
        s.slicelength = countUp s.step.toNat (PyList.boundUp n b n) (PyList.boundUp n a 0)) ∨
     (s.step < 0 ∧ s.start = (PyList.boundDown n a ((n : Int) - 1)).toNat ∧
        s.slicelength = countDown (-s.step).toNat (PyList.boundDown n b (-1))
          (PyList.boundDown n a ((n : Int) - 1)))) := by
  unfold extractSliceIndices at h
  simp only at h
  cases hu : sliceUnpack a b c with
  | error e => simp [hu] at h
  | ok t =>
    obtain ⟨sa, so, st⟩ := t
    obtain ⟨h1, h2, h3, h4⟩ := sliceUnpack_ok hc hu
    simp only [hu] at h
    unfold sliceAdjust at h
    by_cases hneg : st < 0
    · simp only [hneg, if_true] at h h3 h4
      subst h3 h4
      rw [adjust_down_start hn hneg a, adjust_down_stop hn hneg b] at h
      generalize PyList.boundDown n a ((n : Int) - 1) = S at h ⊢
      generalize PyList.boundDown n b (-1) = E at h ⊢
      by_cases hSE : E < S
      · simp only [hSE, if_true] at h
        split at h
        · simp at h
        · rename_i hok
          simp only [Except.ok.injEq] at h
          subst h
          refine ⟨h1, h2, Or.inr ⟨hneg, rfl, ?_⟩⟩
          simp only [countDown, hSE, if_true]
          exact tdiv_count_down hneg hSE
      · simp only [hSE, if_false] at h
        split at h
        · simp at h
        · rename_i hok
          simp only [Except.ok.injEq] at h
          subst h
          refine ⟨h1, h2, Or.inr ⟨hneg, rfl, ?_⟩⟩
          simp [countDown, hSE]
    · have hpos : 0 < st := by omega
      simp only [hneg, if_false] at h h3 h4
      subst h3 h4
      rw [adjust_up_start hpos a, adjust_up_stop hn hpos b] at h
      generalize PyList.boundUp n a 0 = S at h ⊢
      generalize PyList.boundUp n b n = E at h ⊢
      by_cases hSE : S < E
      · have hSE' : (S : Int) < (E : Int) := by omega
        simp only [hSE', if_true] at h
        split at h
        · simp at h
        · simp only [Except.ok.injEq] at h
          subst h
          refine ⟨h1, h2, Or.inl ⟨hpos, by simp, ?_⟩⟩
          simp only [countUp, hSE, if_true]
          exact tdiv_count_up hpos hSE
      · have hSE' : ¬ (S : Int) < (E : Int) := by omega
        simp only [hSE', if_false] at h
        split at h
        · simp at h
        · simp only [Except.ok.injEq] at h
          subst h
          refine ⟨h1, h2, Or.inl ⟨hpos, by simp, ?_⟩⟩
          simp [countUp, hSE]

end ImathVerif.FixedArray

namespace ImathVerif.FixedArray
open ImathVerif

theorem boundUp_le {n : Nat} (x : Option Int) {d : Nat} (hd : d ≤ n) : PyList.boundUp n x d ≤ n := by
  unfold PyList.boundUp
  cases x with
  | none => exact hd
  | some v => simp only; split <;> omega

theorem boundDown_range {n : Nat} (x : Option Int) {d : Int} (hd : -1 ≤ d ∧ d ≤ (n : Int) - 1) :
    -1 ≤ PyList.boundDown n x d ∧ PyList.boundDown n x d ≤ (n : Int) - 1 := by
  unfold PyList.boundDown
  cases x with
  | none => exact hd
  | some v => simp only; split <;> omega

/-- positions visited by a successful `extract_slice_indices`, without wrap-around -/
theorem slice_at_form {n : Nat} (hn : (n : Int) ≤ PY_SSIZE_T_MAX) {a b c : Option Int}
    (hc : ∀ v, c = some v → -PY_SSIZE_T_MAX ≤ v) {s : SliceIdx} {minEnd minStart : Int}
    (h : extractSliceIndices n (.slice a b c) minEnd minStart = .ok s) (i : Nat) (hi : i < s.slicelength) :
    ((s.start : Int) + (i : Int) * s.step) = ((s.at i : Nat) : Int) ∧ s.at i < n := by
  obtain ⟨h1, h2, h3⟩ := extract_slice_form hn hc h
  have hn64 : (n : Int) < 18446744073709551616 := by unfold PY_SSIZE_T_MAX at hn; omega
  rcases h3 with ⟨hpos, hs, hl⟩ | ⟨hneg, hs0, hl⟩
  · rw [hl] at hi
    have hb := countUp_bound hi
    have hE := boundUp_le b (Nat.le_refl n)
    have e : (i : Int) * s.step = ((i * s.step.toNat : Nat) : Int) := by
      have : s.step = ((s.step.toNat : Nat) : Int) := by omega
      conv => lhs; rw [this]
      simp
    rw [← hs] at hb
    unfold SliceIdx.at
    generalize i * s.step.toNat = p at hb e
    generalize (i : Int) * s.step = t at e ⊢
    subst e
    rw [wrap64_of_range (by omega) (by omega)]
    omega
  · rw [hl] at hi
    have hb := countDown_bound hi
    have hE := boundDown_range b (d := -1) (n := n) (by omega)
    have hSr := boundDown_range a (d := (n : Int) - 1) (n := n) (by omega)
    have e : (i : Int) * ((-s.step).toNat : Int) = - ((i : Int) * s.step) := by
      have : ((-s.step).toNat : Int) = -s.step := by omega
      rw [this, Int.mul_neg]
    have hnn : (0 : Int) ≤ (i : Int) * ((-s.step).toNat : Int) :=
      Int.mul_nonneg (Int.natCast_nonneg _) (Int.natCast_nonneg _)
    rw [e] at hb hnn
    -- an item exists, so the normalised start is above the stop, hence non-negative
    have hS : 0 ≤ PyList.boundDown n a ((n : Int) - 1) := by
      generalize (i : Int) * s.step = t at hb hnn; omega
    have hs : (s.start : Int) = PyList.boundDown n a ((n : Int) - 1) := by rw [hs0]; omega
    rw [← hs] at hb
    unfold SliceIdx.at
    generalize (i : Int) * s.step = t at hb hnn ⊢
    rw [wrap64_of_range (by omega) (by omega)]
    omega

theorem slice_at_lt {n : Nat} (hn : (n : Int) ≤ PY_SSIZE_T_MAX) {idx : PyIdx}
    (hc : ∀ a b v, idx = .slice a b (some v) → -PY_SSIZE_T_MAX ≤ v) {s : SliceIdx} {minEnd minStart : Int}
    (h : extractSliceIndices n idx minEnd minStart = .ok s) (i : Nat) (hi : i < s.slicelength) : s.at i < n := by
  cases idx with
  | slice a b c =>
    exact (slice_at_form hn (fun v hv => hc a b v (by rw [hv])) h i hi).2
  | int j =>
    unfold extractSliceIndices at h
    simp only at h
    cases hci : canonicalIndex n j with
    | error e => simp [hci] at h
    | ok k =>
      simp only [hci, Except.ok.injEq] at h
      subst h
      simp only at hi
      have : i = 0 := by omega
      subst this
      have hk := canonicalIndex_lt hci
      have hn64 : (n : Int) < 18446744073709551616 := by unfold PY_SSIZE_T_MAX at hn; omega
      unfold SliceIdx.at
      simp only [Int.natCast_zero, Int.zero_mul, Int.add_zero]
      rw [wrap64_of_range (by omega) (by omega)]
      simpa using hk

/-- **Slice normalisation refines the language reference**: whenever the model's
    `extract_slice_indices` (CPython's `PySlice_Unpack` + `PySlice_AdjustIndices`, closed-form
    `slicelength`, `size_t` index arithmetic) succeeds on `start:stop:step`, the positions
    `start + i*step`, `i < slicelength`, are exactly the indices Python's `s[start:stop:step]` selects,
    for every length and all signs of start/stop/step. -/
theorem extract_slice_spec {n : Nat} (hn : (n : Int) ≤ PY_SSIZE_T_MAX) {a b c : Option Int}
    (hc : ∀ v, c = some v → -PY_SSIZE_T_MAX ≤ v) {s : SliceIdx} {minEnd minStart : Int}
    (h : extractSliceIndices n (.slice a b c) minEnd minStart = .ok s) :
    PyList.sliceIndices n a b c = some ((List.range s.slicelength).map s.at) := by
  obtain ⟨h1, h2, h3⟩ := extract_slice_form hn hc h
  have hat := slice_at_form hn hc h
  unfold PyList.sliceIndices
  simp only [← h1, h2, if_false]
  rcases h3 with ⟨hpos, hs, hl⟩ | ⟨hneg, hs0, hl⟩
  · simp only [hpos, if_true, Option.some.injEq]
    have hE := boundUp_le b (Nat.le_refl n)
    rw [walkUp_eq (by omega) n _ (by omega), ← hl]
    apply List.map_congr_left
    intro i hi
    have hi' : i < s.slicelength := by simpa using hi
    have := (hat i hi').1
    have e : (i : Int) * s.step = ((i * s.step.toNat : Nat) : Int) := by
      have : s.step = ((s.step.toNat : Nat) : Int) := by omega
      conv => lhs; rw [this]
      simp
    rw [e, hs] at this
    generalize i * s.step.toNat = p at this
    omega
  · have hnp : ¬ 0 < s.step := by omega
    simp only [hnp, if_false, Option.some.injEq]
    have hE := boundDown_range b (d := -1) (n := n) (by omega)
    have hSr := boundDown_range a (d := (n : Int) - 1) (n := n) (by omega)
    rw [walkDown_eq (by omega) n _ (by omega), ← hl]
    apply List.map_congr_left
    intro i hi
    have hi' : i < s.slicelength := by simpa using hi
    have := (hat i hi').1
    have e : (i : Int) * ((-s.step).toNat : Int) = - ((i : Int) * s.step) := by
      have : ((-s.step).toNat : Int) = -s.step := by omega
      rw [this, Int.mul_neg]
    have hb := countDown_bound (hl ▸ hi')
    have hnn : (0 : Int) ≤ (i : Int) * ((-s.step).toNat : Int) :=
      Int.mul_nonneg (Int.natCast_nonneg _) (Int.natCast_nonneg _)
    rw [e] at hb hnn ⊢
    have hs : (s.start : Int) = PyList.boundDown n a ((n : Int) - 1) := by
      rw [hs0]; generalize (i : Int) * s.step = t at hb hnn; omega
    rw [← hs]
    generalize (i : Int) * s.step = t at this ⊢
    omega

end ImathVerif.FixedArray

namespace ImathVerif.FixedArray
open ImathVerif

/-- CPython clamps a step below `-PY_SSIZE_T_MAX`; the result is that of the clamped step -/
theorem extract_clamp (n : Nat) (a b : Option Int) (v : Int) (hv : v < -PY_SSIZE_T_MAX) (minEnd minStart : Int) :
    extractSliceIndices n (.slice a b (some v)) minEnd minStart
      = extractSliceIndices n (.slice a b (some (-PY_SSIZE_T_MAX))) minEnd minStart := by
  have h0 : v ≠ 0 := by unfold PY_SSIZE_T_MAX at hv; omega
  have h1 : (-PY_SSIZE_T_MAX) ≠ 0 := by unfold PY_SSIZE_T_MAX; omega
  have h2 : ¬ (-PY_SSIZE_T_MAX < -PY_SSIZE_T_MAX) := by omega
  unfold extractSliceIndices sliceUnpack
  simp only [h0, h1, hv, h2, if_true, if_false]

/-- every position a successful `extract_slice_indices` yields is inside the array — any subscript at all -/
theorem slice_at_lt' {n : Nat} (hn : (n : Int) ≤ PY_SSIZE_T_MAX) {idx : PyIdx} {s : SliceIdx} {minEnd minStart : Int}
    (h : extractSliceIndices n idx minEnd minStart = .ok s) (i : Nat) (hi : i < s.slicelength) : s.at i < n := by
  cases idx with
  | int j => exact slice_at_lt hn (by intro a b v hv; cases hv) h i hi
  | slice a b c =>
    cases c with
    | none => exact slice_at_lt hn (by intro a' b' v hv; cases hv) h i hi
    | some v =>
      by_cases hv : v < -PY_SSIZE_T_MAX
      · rw [extract_clamp n a b v hv] at h
        exact slice_at_lt hn (by intro a' b' v' hv'; cases hv'; omega) h i hi
      · exact slice_at_lt hn (by intro a' b' v' hv'; cases hv'; omega) h i hi

/-- when does `extract_slice_indices` (FixedArray variant, `e < -1` test) raise on a slice object?
    Only for step 0 — and for a BACKWARD slice whose normalised start is -1 (an empty selection
    in Python: empty array, or start below `-len`). -/
theorem extract_slice_error {n : Nat} (hn : (n : Int) ≤ PY_SSIZE_T_MAX) {a b c : Option Int}
    (hc : ∀ v, c = some v → -PY_SSIZE_T_MAX ≤ v) {e : Err}
    (h : extractSliceIndices n (.slice a b c) (-1) 0 = .error e) :
    (c = some 0 ∧ e = .stepZero) ∨
    (e = .domainError ∧ c.getD 1 < 0 ∧ PyList.boundDown n a ((n : Int) - 1) = -1) := by
  unfold extractSliceIndices at h
  simp only at h
  cases hu : sliceUnpack a b c with
  | error e' =>
    simp only [hu] at h
    obtain ⟨h1, h2⟩ := sliceUnpack_error hu
    simp at h; subst h
    exact Or.inl ⟨h1, h2⟩
  | ok t =>
    obtain ⟨sa, so, st⟩ := t
    obtain ⟨h1, h2, h3, h4⟩ := sliceUnpack_ok hc hu
    simp only [hu] at h
    unfold sliceAdjust at h
    by_cases hneg : st < 0
    · simp only [hneg, if_true] at h h3 h4
      subst h3 h4
      rw [adjust_down_start hn hneg a, adjust_down_stop hn hneg b] at h
      have hE := boundDown_range b (d := -1) (n := n) (by omega)
      have hSr := boundDown_range a (d := (n : Int) - 1) (n := n) (by omega)
      generalize PyList.boundDown n a ((n : Int) - 1) = S at h hSr ⊢
      generalize PyList.boundDown n b (-1) = E at h hE ⊢
      by_cases hSE : E < S
      · simp only [hSE, if_true] at h
        have hq : 0 ≤ (S - E - 1).tdiv (-st) := Int.tdiv_nonneg (by omega) (by omega)
        split at h
        · rename_i hbad
          simp at h
          exact Or.inr ⟨h.symm, h1 ▸ hneg, by omega⟩
        · simp at h
      · simp only [hSE, if_false] at h
        split at h
        · rename_i hbad
          simp at h
          exact Or.inr ⟨h.symm, h1 ▸ hneg, by omega⟩
        · simp at h
    · have hpos : 0 < st := by omega
      simp only [hneg, if_false] at h h3 h4
      subst h3 h4
      rw [adjust_up_start hpos a, adjust_up_stop hn hpos b] at h
      generalize PyList.boundUp n a 0 = S at h ⊢
      generalize PyList.boundUp n b n = E at h ⊢
      by_cases hSE : (S : Int) < (E : Int)
      · simp only [hSE, if_true] at h
        have hq : 0 ≤ ((E : Int) - (S : Int) - 1).tdiv st := Int.tdiv_nonneg (by omega) (by omega)
        split at h
        · rename_i hbad; omega
        · simp at h
      · simp only [hSE, if_false] at h
        split at h
        · rename_i hbad; omega
        · simp at h

/-- forward slices never raise; a backward slice raises exactly in the case above -/
theorem extract_slice_forward_ok {n : Nat} (hn : (n : Int) ≤ PY_SSIZE_T_MAX) {a b : Option Int} {c : Option Int}
    (hpos : 0 < c.getD 1) : ∃ s, extractSliceIndices n (.slice a b c) (-1) 0 = .ok s := by
  cases h : extractSliceIndices n (.slice a b c) (-1) 0 with
  | ok s => exact ⟨s, rfl⟩
  | error e =>
    have hc : ∀ v, c = some v → -PY_SSIZE_T_MAX ≤ v := by
      intro v hv; subst hv; simp at hpos; unfold PY_SSIZE_T_MAX; omega
    rcases extract_slice_error hn hc h with ⟨h1, _⟩ | ⟨_, h2, _⟩
    · subst h1; simp at hpos
    · omega

end ImathVerif.FixedArray

namespace ImathVerif.FixedArray
open ImathVerif

/-- REPAIRED start test (`minStart = -1`): every slice with a non-zero step is accepted — all signs -/
theorem extract_slice_total_repaired {n : Nat} (hn : (n : Int) ≤ PY_SSIZE_T_MAX) {a b c : Option Int}
    (hc0 : c ≠ some 0) (hc : ∀ v, c = some v → -PY_SSIZE_T_MAX ≤ v) :
    ∃ s, extractSliceIndices n (.slice a b c) (-1) (-1) = .ok s := by
  unfold extractSliceIndices
  simp only
  cases hu : sliceUnpack a b c with
  | error e => exact absurd (sliceUnpack_error hu).1 hc0
  | ok t =>
    obtain ⟨sa, so, st⟩ := t
    obtain ⟨h1, h2, h3, h4⟩ := sliceUnpack_ok hc hu
    simp only
    unfold sliceAdjust
    by_cases hneg : st < 0
    · simp only [hneg, if_true] at h3 h4 ⊢
      subst h3 h4
      rw [adjust_down_start hn hneg a, adjust_down_stop hn hneg b]
      have hE := boundDown_range b (d := -1) (n := n) (by omega)
      have hSr := boundDown_range a (d := (n : Int) - 1) (n := n) (by omega)
      generalize PyList.boundDown n a ((n : Int) - 1) = S at hSr ⊢
      generalize PyList.boundDown n b (-1) = E at hE ⊢
      by_cases hSE : E < S
      · simp only [hSE, if_true]
        have hq : 0 ≤ (S - E - 1).tdiv (-st) := Int.tdiv_nonneg (by omega) (by omega)
        have : ¬ (S < -1 ∨ E < -1 ∨ (S - E - 1).tdiv (-st) + 1 < 0) := by omega
        rw [if_neg this]; exact ⟨_, rfl⟩
      · simp only [hSE, if_false]
        have : ¬ (S < -1 ∨ E < -1 ∨ (0 : Int) < 0) := by omega
        rw [if_neg this]; exact ⟨_, rfl⟩
    · have hpos : 0 < st := by omega
      simp only [hneg, if_false] at h3 h4 ⊢
      subst h3 h4
      rw [adjust_up_start hpos a, adjust_up_stop hn hpos b]
      generalize PyList.boundUp n a 0 = S
      generalize PyList.boundUp n b n = E
      by_cases hSE : (S : Int) < (E : Int)
      · simp only [hSE, if_true]
        have hq : 0 ≤ ((E : Int) - (S : Int) - 1).tdiv st := Int.tdiv_nonneg (by omega) (by omega)
        have : ¬ ((S : Int) < -1 ∨ (E : Int) < -1 ∨ ((E : Int) - (S : Int) - 1).tdiv st + 1 < 0) := by omega
        rw [if_neg this]; exact ⟨_, rfl⟩
      · simp only [hSE, if_false]
        have : ¬ ((S : Int) < -1 ∨ (E : Int) < -1 ∨ (0 : Int) < 0) := by omega
        rw [if_neg this]; exact ⟨_, rfl⟩

end ImathVerif.FixedArray

namespace ImathVerif.FixedArray
open ImathVerif

/-- The start test of the CURRENT code, `(sl > 0 && s < 0)`, and the model's `s < -1` are both false on every
    output of `PySlice_Unpack` + `PySlice_AdjustIndices`: the adjusted start is at least -1, and at least 0 as
    soon as the slice selects an item.  (So the two tests are interchangeable, and `start = (sl > 0) ? s : 0`
    differs from the model's `s.toNat` only where `start` is unused.) -/
theorem current_start_test_equiv {n : Nat} (hn : (n : Int) ≤ PY_SSIZE_T_MAX) {a b c : Option Int}
    (hc : ∀ v, c = some v → -PY_SSIZE_T_MAX ≤ v) {sa so st : Int} (hu : sliceUnpack a b c = .ok (sa, so, st)) :
    ¬ ((sliceAdjust n sa so st).1 < -1) ∧
    ¬ (0 < (sliceAdjust n sa so st).2.2 ∧ (sliceAdjust n sa so st).1 < 0) := by
  obtain ⟨h1, h2, h3, h4⟩ := sliceUnpack_ok hc hu
  unfold sliceAdjust
  by_cases hneg : st < 0
  · simp only [hneg, if_true] at h3 h4 ⊢
    subst h3 h4
    rw [adjust_down_start hn hneg a, adjust_down_stop hn hneg b]
    have hE := boundDown_range b (d := -1) (n := n) (by omega)
    have hSr := boundDown_range a (d := (n : Int) - 1) (n := n) (by omega)
    generalize PyList.boundDown n a ((n : Int) - 1) = S at hSr ⊢
    generalize PyList.boundDown n b (-1) = E at hE ⊢
    by_cases hSE : E < S
    · simp only [hSE, if_true]
      exact ⟨by omega, fun h => by omega⟩
    · simp only [hSE, if_false]
      exact ⟨by omega, fun h => by omega⟩
  · have hpos : 0 < st := by omega
    simp only [hneg, if_false] at h3 h4 ⊢
    subst h3 h4
    rw [adjust_up_start hpos a, adjust_up_stop hn hpos b]
    generalize PyList.boundUp n a 0 = S
    generalize PyList.boundUp n b n = E
    exact ⟨by omega, fun h => by omega⟩

end ImathVerif.FixedArray
