import ImathVerif.Lemmas.C12Eigen
import ImathVerif.Lemmas.C12Angles
/-!
# Lemmas for C12 — the rotation parameters COMPUTED by `jacobiRotation` (symmetric eigen solver, tolerance 0)

`eigAngles 0 sqrt cs x y z` (ImathMatrixAlgo.cpp 998-1030 / 1056-1090: `mu1 = z - x`, `mu2 = 2y`, `rho = mu1/mu2`,
`t = sign(rho)/(|rho| + sqrt(1 + rho²))`, `c = 1/sqrt(1 + t²)`, `s = t*c` (3×3) or `c*t` (4×4), `tau = s/(1 + c)`) satisfies the
hypothesis `EigDiag` of the similarity theorem; the early exit happens only for `y = 0`.  Hence every rotation of the eigen
solver with tolerance 0, parameters computed from the matrix, is an exact orthogonal similarity — for any list of index pairs.
-/
namespace ImathVerif.Jacobi
open ImathVerif.SHRT Matrix
set_option linter.unusedSectionVars false
variable {α : Type} [Field α] [LinearOrder α] [IsStrictOrderedRing α]

/-- the computed parameters diagonalise the symmetric 2×2 block `[[x, y], [y, z]]`; `none` (early exit) only when `y = 0` -/
theorem eigAngles_diag {sqrt : α → α} (hs : SqrtSpec sqrt) (cs : Bool) (x y z : α) :
    (∀ p, eigAngles 0 sqrt cs x y z = some p → EigDiag p x y z) ∧ (eigAngles 0 sqrt cs x y z = none → y = 0) := by
  simp only [eigAngles, sabs_eq_abs, abs_le_zero_mul]
  by_cases hy : 2 * y = 0
  · simp only [if_pos hy]
    exact ⟨fun p h => by simp at h, fun _ => by linarith⟩
  · simp only [if_neg hy]
    refine ⟨fun p h => ?_, fun h => by simp at h⟩
    simp only [Option.some.injEq] at h
    have ht := tlemma hs ((z - x) / (2 * y))
    set rho := (z - x) / (2 * y) with hrho
    have hteq : (if rho < 0 then (-1 : α) else 1) / (|rho| + sqrt (1 + rho * rho)) =
        (if rho < 0 then -(1 / (|rho| + sqrt (1 + rho * rho))) else 1 / (|rho| + sqrt (1 + rho * rho))) := by
      split_ifs <;> ring
    rw [hteq] at h
    set t := (if rho < 0 then -(1 / (|rho| + sqrt (1 + rho * rho))) else 1 / (|rho| + sqrt (1 + rho * rho))) with htdef
    have hu := ulemma hs t
    -- c = 1 / sqrt (1 + t²) is positive
    have h0 : 0 < 1 + t * t := by nlinarith [mul_self_nonneg t]
    obtain ⟨s0, s1⟩ := hs _ h0.le
    have hSpos : 0 < sqrt (1 + t * t) := by
      rcases lt_or_eq_of_le s0 with hh | hh
      · exact hh
      · rw [← hh] at s1; nlinarith
    set c := 1 / sqrt (1 + t * t) with hc
    have hcpos : 0 < c := by rw [hc]; positivity
    have h1c : (1 + c) ≠ 0 := by linarith
    have hcc : c * c * (1 + t * t) = 1 := hu
    have e : rho * (2 * y) = z - x := div_mul_cancel₀ _ hy
    subst h
    apply eigDiag_of
    · show (if cs = true then c * t else t * c) = t * c
      split_ifs <;> ring
    · exact hcc
    · show (if cs = true then c * t else t * c) * ((if cs = true then c * t else t * c) / (1 + c)) = 1 - c
      have : (if cs = true then c * t else t * c) = c * t := by split_ifs <;> ring
      rw [this]
      field_simp
      linear_combination hcc
    · show y * t * t + (z - x) * t - y = 0
      linear_combination y * ht - t * e

/-- the early exit leaves the (symmetric completion of the) matrix unchanged when the off-diagonal entry is already zero -/
theorem jacobiRotation_none {sqrt : α → α} (n j k : Nat) (st : EigState α)
    (h : eigAngles 0 sqrt (n == 4) (st.A j j) (st.A j k) (st.A k k) = none) (hy : st.A j k = 0) :
    (jacobiRotation 0 sqrt n j k st).2 = st := by
  simp only [jacobiRotation, h]
  cases st with
  | mk A V Z =>
    simp only [EigState.mk.injEq, and_true]
    funext i m
    split_ifs with hc
    · rw [hc.1, hc.2]; exact hy.symm
    · rfl

/-- ONE rotation of the eigen solver with tolerance 0, parameters computed from the matrix: an exact orthogonal similarity -/
theorem jacobiRotation_tol0_invariant {sqrt : α → α} (hs : SqrtSpec sqrt) (j k : Nat) (hjk : j < k) (st : EigState α) :
    (k < 3 → toM 3 (jacobiRotation 0 sqrt 3 j k st).2.V * symM 3 (jacobiRotation 0 sqrt 3 j k st).2.A * (toM 3 (jacobiRotation 0 sqrt 3 j k st).2.V)ᵀ =
        toM 3 st.V * symM 3 st.A * (toM 3 st.V)ᵀ ∧
      toM 3 (jacobiRotation 0 sqrt 3 j k st).2.V * (toM 3 (jacobiRotation 0 sqrt 3 j k st).2.V)ᵀ = toM 3 st.V * (toM 3 st.V)ᵀ) ∧
    (k < 4 → toM 4 (jacobiRotation 0 sqrt 4 j k st).2.V * symM 4 (jacobiRotation 0 sqrt 4 j k st).2.A * (toM 4 (jacobiRotation 0 sqrt 4 j k st).2.V)ᵀ =
        toM 4 st.V * symM 4 st.A * (toM 4 st.V)ᵀ ∧
      toM 4 (jacobiRotation 0 sqrt 4 j k st).2.V * (toM 4 (jacobiRotation 0 sqrt 4 j k st).2.V)ᵀ = toM 4 st.V * (toM 4 st.V)ᵀ) := by
  constructor
  · intro hk
    obtain ⟨hsome, hnone⟩ := eigAngles_diag hs ((3 : Nat) == 4) (st.A j j) (st.A j k) (st.A k k)
    cases h : eigAngles 0 sqrt ((3 : Nat) == 4) (st.A j j) (st.A j k) (st.A k k) with
    | none => rw [jacobiRotation_none 3 j k st h (hnone h)]; exact ⟨rfl, rfl⟩
    | some p =>
      have : (jacobiRotation 0 sqrt 3 j k st).2 = eigApply 3 j k p st := by simp only [jacobiRotation, h]
      rw [this]
      exact eigApply_invariant3 j k hjk hk p st (hsome p h)
  · intro hk
    obtain ⟨hsome, hnone⟩ := eigAngles_diag hs ((4 : Nat) == 4) (st.A j j) (st.A j k) (st.A k k)
    cases h : eigAngles 0 sqrt ((4 : Nat) == 4) (st.A j j) (st.A j k) (st.A k k) with
    | none => rw [jacobiRotation_none 4 j k st h (hnone h)]; exact ⟨rfl, rfl⟩
    | some p =>
      have : (jacobiRotation 0 sqrt 4 j k st).2 = eigApply 4 j k p st := by simp only [jacobiRotation, h]
      rw [this]
      exact eigApply_invariant4 j k hjk hk p st (hsome p h)

/-- a run of eigen-solver rotations with the computed parameters (tolerance 0) over a list of index pairs -/
def runEigPairs (sqrt : α → α) (n : Nat) (st : EigState α) : List (Nat × Nat) → EigState α
  | [] => st
  | jk :: rest => runEigPairs sqrt n (jacobiRotation 0 sqrt n jk.1 jk.2 st).2 rest

/-- the accumulator `Z` tracks the change of the diagonal: `A'[i][i] - A[i][i] = Z'[i] - Z[i]` for every `i`, each rotation
(so `S[i] += Z[i]; A[i][i] = S[i]` at the end of a sweep keeps `S` equal to the diagonal of the rotated matrix) -/
theorem eigApply_Z_tracks_diagonal {β : Type} [CommRing β] (n j k : Nat) (hjk : j < k) (p : EigAngles β) (st : EigState β) (i : Nat) :
    (eigApply n j k p st).A i i - st.A i i = (eigApply n j k p st).Z i - st.Z i := by
  have hne : j ≠ k := Nat.ne_of_lt hjk
  simp only [eigApply]
  by_cases hij : i = j
  · subst hij; simp
  · by_cases hik : i = k
    · subst hik; simp [hij]
    · simp [hij, hik]

end ImathVerif.Jacobi
