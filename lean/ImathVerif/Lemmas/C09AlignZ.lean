import ImathVerif.Lemmas.C09FrameLemmas
/-!
Helper lemmas for C09: `alignZAxisWithTargetDir`.  Since /repo 8e640b7 the function first divides both (zero-replaced) arguments by their
largest absolute component (`scaleMax`); everything below rests on: for `v ≠ 0`, `scaleMax v` is a POSITIVE multiple of `v`, hence has the
same normalisation, and cross products of rescaled vectors are positive multiples of the cross products of the originals.
-/
set_option linter.unusedSectionVars false
set_option linter.unreachableTactic false
set_option linter.unusedTactic false
set_option linter.unusedVariables false
namespace ImathVerif.C09
open ImathVerif Matrix

section AlignZ
variable {α : Type} [Field α] [LinearOrder α] [IsStrictOrderedRing α]

theorem smax_eq_max (a b : α) : smax a b = max a b := by
  unfold smax
  split_ifs with h
  · exact (max_eq_right h.le).symm
  · exact (max_eq_left (not_lt.mp h)).symm

theorem maxAbs_eq (v : V3 α) : maxAbs v = max (max |v.x| |v.y|) |v.z| := by
  simp only [maxAbs, smax_eq_max, sabs_eq_abs]

/-- the largest absolute component of a non-zero vector is positive -/
theorem maxAbs_pos {v : V3 α} (hv : v ≠ ⟨0, 0, 0⟩) : 0 < maxAbs v := by
  rw [maxAbs_eq]
  obtain ⟨x, y, z⟩ := v
  simp only [ne_eq, V3.mk.injEq, not_and] at hv
  by_cases hx : x = 0
  · by_cases hy : y = 0
    · exact lt_max_of_lt_right (abs_pos.mpr (hv hx hy))
    · exact lt_max_of_lt_left (lt_max_of_lt_right (abs_pos.mpr hy))
  · exact lt_max_of_lt_left (lt_max_of_lt_left (abs_pos.mpr hx))

theorem scaleMax_eq_smul (v : V3 α) : scaleMax v = smul (maxAbs v)⁻¹ v := by
  simp only [scaleMax, smul, V3.mk.injEq]; refine ⟨?_, ?_, ?_⟩ <;> ring

theorem scaleMax_ne_zero {v : V3 α} (hv : v ≠ ⟨0, 0, 0⟩) : scaleMax v ≠ ⟨0, 0, 0⟩ := by
  rw [scaleMax_eq_smul]; exact smul_ne_zero' (inv_pos.mpr (maxAbs_pos hv)).ne' hv

/-- rescaling does not change the direction -/
theorem nrm_scaleMax {len : V3 α → α} (hlen : LenSpec len) {v : V3 α} (hv : v ≠ ⟨0, 0, 0⟩) : nrm len (scaleMax v) = nrm len v := by
  rw [scaleMax_eq_smul]; exact nrm_smul_pos hlen (inv_pos.mpr (maxAbs_pos hv)) hv

/-- the effective (zero-replaced, rescaled) target / up / perpendicular chosen by `alignZAxisWithTargetDir` -/
def azTarget0 (len : V3 α → α) (t : V3 α) : V3 α := if len t = 0 then ⟨0, 0, 1⟩ else t
def azTarget (len : V3 α → α) (t : V3 α) : V3 α := scaleMax (azTarget0 len t)
/-- `t` here is the already rescaled target -/
def azUp (len : V3 α → α) (t u : V3 α) : V3 α :=
  let u1 : V3 α := scaleMax (if len u = 0 then ⟨0, 1, 0⟩ else u)
  if len (cross u1 t) = 0 then
    (if len (cross t ⟨1, 0, 0⟩) = 0 then cross t ⟨0, 0, 1⟩ else cross t ⟨1, 0, 0⟩)
  else u1

theorem alignZSpec_eq (len : V3 α → α) (t u : V3 α) :
    alignZSpec len t u =
      frameM44 (nrm len (cross (azUp len (azTarget len t) u) (azTarget len t)))
        (nrm len (cross (azTarget len t) (cross (azUp len (azTarget len t) u) (azTarget len t))))
        (nrm len (azTarget len t)) ⟨0, 0, 0⟩ := rfl

theorem azTarget0_ne_zero {len : V3 α → α} (hlen : LenSpec len) (t : V3 α) : azTarget0 len t ≠ ⟨0, 0, 0⟩ := by
  unfold azTarget0
  split_ifs with h
  · simp
  · exact fun h0 => h ((len_eq_zero_iff hlen t).mpr h0)
theorem azTarget_ne_zero {len : V3 α → α} (hlen : LenSpec len) (t : V3 α) : azTarget len t ≠ ⟨0, 0, 0⟩ :=
  scaleMax_ne_zero (azTarget0_ne_zero hlen t)
theorem nrm_azTarget {len : V3 α → α} (hlen : LenSpec len) (t : V3 α) : nrm len (azTarget len t) = nrm len (azTarget0 len t) :=
  nrm_scaleMax hlen (azTarget0_ne_zero hlen t)

/-- whatever `upDir` is, the up vector finally used is not parallel to the (non-zero) target -/
theorem azUp_cross_ne_zero {len : V3 α → α} (hlen : LenSpec len) {t : V3 α} (ht : t ≠ ⟨0, 0, 0⟩) (u : V3 α) :
    cross (azUp len t u) t ≠ ⟨0, 0, 0⟩ := by
  unfold azUp
  simp only
  split_ifs with h1 h2 h3 h4 h5
  all_goals first
    | exact fun h0 => (by assumption : ¬ len _ = 0) ((len_eq_zero_iff hlen _).mpr h0)
    | skip
  -- remaining: the two fallback choices (twice: for zero and non-zero upDir)
  all_goals
    first
    | -- `t × x̂ = 0`: t = (tx, 0, 0), up := t × ẑ
      (have h2' := (len_eq_zero_iff hlen _).mp (by assumption : len (cross t ⟨1, 0, 0⟩) = 0)
       obtain ⟨tx, ty, tz⟩ := t
       simp only [cross, V3.mk.injEq, mul_zero, mul_one, sub_zero, zero_sub, neg_eq_zero, sub_self] at h2'
       obtain ⟨-, hz, hy⟩ := h2'
       subst hz; subst hy
       have hx : tx ≠ 0 := by intro h; apply ht; simp [h]
       simp [cross, hx])
    | -- `t × x̂ ≠ 0`: up := w = t × x̂ ⟂ t, so |w × t|² = |w|²|t|² ≠ 0
      (have hw : cross t (⟨1, 0, 0⟩ : V3 α) ≠ ⟨0, 0, 0⟩ := fun h0 => (by assumption : ¬ len (cross t ⟨1, 0, 0⟩) = 0) ((len_eq_zero_iff hlen _).mpr h0)
       apply ne_zero_of_dot
       rw [lagrange, dot_cross_left, ne_eq, zero_pow two_ne_zero, sub_zero]
       exact mul_ne_zero (dot_ne_zero hw) (dot_ne_zero ht))

/-- ALL paths (zero target, zero up, parallel, generic): an orthonormal right-handed frame without translation,
whose z-row is the normalised (zero-replaced) target -/
theorem alignZSpec_isFrame {len : V3 α → α} (hlen : LenSpec len) (t u : V3 α) :
    IsFrame (alignZSpec len t u) ∧ row3 (alignZSpec len t u) = ⟨0, 0, 0⟩ ∧
      row2 (alignZSpec len t u) = nrm len (azTarget0 len t) := by
  rw [alignZSpec_eq]
  refine ⟨⟨?_, isAffine_frameM44 _ _ _ _⟩, rfl, ?_⟩
  · rw [rot3_frameM44]
    exact frame_of_perp hlen (azTarget_ne_zero hlen t) (azUp_cross_ne_zero hlen (azTarget_ne_zero hlen t) u) (dot_cross_right _ _)
  · show nrm len (azTarget len t) = _
    exact nrm_azTarget hlen t

/-- the frame built from a target `T` and an up `U` (rows `(U × T)^`, `(T × (U × T))^`, `T^`) does not change when `T`, `U` are
replaced by positive multiples -/
theorem frame_smul_smul {len : V3 α → α} (hlen : LenSpec len) {a b : α} (ha : 0 < a) (hb : 0 < b) {T U : V3 α}
    (hT : T ≠ ⟨0, 0, 0⟩) (hUT : cross U T ≠ ⟨0, 0, 0⟩) :
    frameM44 (nrm len (cross (smul b U) (smul a T))) (nrm len (cross (smul a T) (cross (smul b U) (smul a T)))) (nrm len (smul a T)) ⟨0, 0, 0⟩
      = frameM44 (nrm len (cross U T)) (nrm len (cross T (cross U T))) (nrm len T) ⟨0, 0, 0⟩ := by
  have hw : cross T (cross U T) ≠ ⟨0, 0, 0⟩ := by
    have hl : len (cross T (cross U T)) = len T * len (cross U T) := len_cross_perp hlen (dot_cross_right U T)
    intro h0
    have := (len_eq_zero_iff hlen _).mpr h0
    rw [hl] at this
    exact (mul_ne_zero (len_ne_zero hlen hT) (len_ne_zero hlen hUT)) this
  have e1 : cross (smul b U) (smul a T) = smul (b * a) (cross U T) := cross_smul_smul b a U T
  have e2 : cross (smul a T) (cross (smul b U) (smul a T)) = smul (a * (b * a)) (cross T (cross U T)) := by
    rw [e1, cross_smul_smul]
  rw [e2, e1, nrm_smul_pos hlen (mul_pos hb ha) hUT, nrm_smul_pos hlen (mul_pos ha (mul_pos hb ha)) hw, nrm_smul_pos hlen ha hT]

/-- generic inputs: the documented axes (the rescaling drops out) -/
theorem alignZSpec_main {len : V3 α → α} (hlen : LenSpec len) {t u : V3 α} (ht : t ≠ ⟨0, 0, 0⟩)
    (hut : cross u t ≠ ⟨0, 0, 0⟩) :
    alignZSpec len t u = frameM44 (nrm len (cross u t)) (nrm len (cross t (cross u t))) (nrm len t) ⟨0, 0, 0⟩ := by
  have hu : u ≠ ⟨0, 0, 0⟩ := by rintro rfl; exact hut (cross_zero_left t)
  have ha := inv_pos.mpr (maxAbs_pos ht)
  have hb := inv_pos.mpr (maxAbs_pos hu)
  have e1 : azTarget len t = smul (maxAbs t)⁻¹ t := by
    simp only [azTarget, azTarget0, if_neg (len_ne_zero hlen ht), scaleMax_eq_smul]
  have hc : cross (smul (maxAbs u)⁻¹ u) (smul (maxAbs t)⁻¹ t) ≠ ⟨0, 0, 0⟩ := by
    rw [cross_smul_smul]; exact smul_ne_zero' (mul_pos hb ha).ne' hut
  have e2 : azUp len (smul (maxAbs t)⁻¹ t) u = smul (maxAbs u)⁻¹ u := by
    simp only [azUp, if_neg (len_ne_zero hlen hu), scaleMax_eq_smul, if_neg (len_ne_zero hlen hc)]
  rw [alignZSpec_eq, e1, e2]
  exact frame_smul_smul hlen ha hb ht hut

/-- the up vector substituted when `upDir` is zero or parallel to the target (computed from the rescaled target) -/
def azFallbackUp (len : V3 α → α) (t : V3 α) : V3 α :=
  if len (cross t ⟨1, 0, 0⟩) = 0 then cross t ⟨0, 0, 1⟩ else cross t ⟨1, 0, 0⟩

theorem alignZSpec_zero_target {len : V3 α → α} (hlen : LenSpec len) (u : V3 α) :
    alignZSpec len ⟨0, 0, 0⟩ u = alignZSpec len ⟨0, 0, 1⟩ u := by
  have h0 : len (⟨0, 0, 0⟩ : V3 α) = 0 := (len_eq_zero_iff hlen _).mpr rfl
  have h1 : len (⟨0, 0, 1⟩ : V3 α) ≠ 0 := len_ne_zero hlen (by simp)
  rw [alignZSpec_eq, alignZSpec_eq]
  simp [azTarget, azTarget0, h0, h1]
theorem alignZSpec_zero_up {len : V3 α → α} (hlen : LenSpec len) (t : V3 α) :
    alignZSpec len t ⟨0, 0, 0⟩ = alignZSpec len t ⟨0, 1, 0⟩ := by
  have h0 : len (⟨0, 0, 0⟩ : V3 α) = 0 := (len_eq_zero_iff hlen _).mpr rfl
  have h1 : len (⟨0, 1, 0⟩ : V3 α) ≠ 0 := len_ne_zero hlen (by simp)
  rw [alignZSpec_eq, alignZSpec_eq]
  simp [azUp, h0, h1]

/-- the fallback up of a positive multiple of `t` is the same positive multiple of the fallback up of `t` -/
theorem azFallbackUp_smul {len : V3 α → α} (hlen : LenSpec len) {a : α} (ha : 0 < a) (t : V3 α) :
    azFallbackUp len (smul a t) = smul a (azFallbackUp len t) := by
  have hz : ∀ e : V3 α, len (cross (smul a t) e) = 0 ↔ len (cross t e) = 0 := by
    intro e
    rw [cross_smul_left, len_smul hlen ha.le]
    constructor
    · intro h; exact (mul_eq_zero.mp h).resolve_left ha.ne'
    · intro h; rw [h, mul_zero]
  unfold azFallbackUp
  by_cases h : len (cross t ⟨1, 0, 0⟩) = 0
  · rw [if_pos h, if_pos ((hz _).mpr h), cross_smul_left]
  · rw [if_neg h, if_neg (mt (hz _).mp h), cross_smul_left]

/-- `upDir` exactly parallel to the target: the result is the frame of the target with the substituted up `target × x̂`
(`target × ẑ` for a target along x), which is never parallel to the target -/
theorem alignZSpec_parallel {len : V3 α → α} (hlen : LenSpec len) {t u : V3 α} (ht : t ≠ ⟨0, 0, 0⟩) (hu : u ≠ ⟨0, 0, 0⟩)
    (hut : cross u t = ⟨0, 0, 0⟩) :
    alignZSpec len t u = alignZSpec len t (azFallbackUp len t) ∧ cross (azFallbackUp len t) t ≠ ⟨0, 0, 0⟩ := by
  have h0 : len (⟨0, 0, 0⟩ : V3 α) = 0 := (len_eq_zero_iff hlen _).mpr rfl
  have ha := inv_pos.mpr (maxAbs_pos ht)
  have hb := inv_pos.mpr (maxAbs_pos hu)
  have e1 : azTarget len t = smul (maxAbs t)⁻¹ t := by
    simp only [azTarget, azTarget0, if_neg (len_ne_zero hlen ht), scaleMax_eq_smul]
  have hts : smul (maxAbs t)⁻¹ t ≠ ⟨0, 0, 0⟩ := smul_ne_zero' ha.ne' ht
  -- the rescaled up is still parallel to the rescaled target
  have hc : cross (smul (maxAbs u)⁻¹ u) (smul (maxAbs t)⁻¹ t) = ⟨0, 0, 0⟩ := by
    rw [cross_smul_smul, hut]; simp [smul]
  have e2 : azUp len (smul (maxAbs t)⁻¹ t) u = azFallbackUp len (smul (maxAbs t)⁻¹ t) := by
    simp only [azUp, azFallbackUp, if_neg (len_ne_zero hlen hu), scaleMax_eq_smul, hc, h0, if_true]
  have hw := azUp_cross_ne_zero hlen hts u
  rw [e2, azFallbackUp_smul hlen ha, cross_smul_smul] at hw
  have hF : cross (azFallbackUp len t) t ≠ ⟨0, 0, 0⟩ := by
    intro h; apply hw; rw [h]; simp [smul]
  refine ⟨?_, hF⟩
  rw [alignZSpec_main hlen ht hF, alignZSpec_eq, e1, e2, azFallbackUp_smul hlen ha]
  exact frame_smul_smul hlen ha ha ht hF
end AlignZ
end ImathVerif.C09
