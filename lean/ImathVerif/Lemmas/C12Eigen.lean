import ImathVerif.Lemmas.C12Jacobi
/-!
# Lemmas for C12 — one rotation of the symmetric eigen solver (`jacobiRotation`) is an orthogonal similarity
-/
namespace ImathVerif.Jacobi
open Matrix
variable {α : Type} [CommRing α]

/-- symmetric completion of the upper triangle (the eigen solver reads and writes `A[i][j]`, `i ≤ j`, only) -/
def symM (n : Nat) (f : Mat α) : Matrix (Fin n) (Fin n) α :=
  Matrix.of fun a b => if a.val ≤ b.val then f a.val b.val else f b.val a.val

/-- `cc = 1 - s*tau`: the cosine that the update formulas `nu1 - s*(nu2 + tau*nu1)`, `nu2 + s*(nu1 - tau*nu2)` implement
(`tau = s/(1+c)` gives `s*tau = 1 - c`) -/
def cc (p : EigAngles α) : α := 1 - p.s * p.tau

/-- the parameters rotate the symmetric 2×2 block `[[x, y], [y, z]]` onto `diag (x - t*y, z + t*y)` -/
structure EigDiag (p : EigAngles α) (x y z : α) : Prop where
  unit : cc p * cc p + p.s * p.s = 1
  djj : cc p * cc p * x - 2 * cc p * p.s * y + p.s * p.s * z = x - p.t * y
  dkk : p.s * p.s * x + 2 * cc p * p.s * y + cc p * cc p * z = z + p.t * y
  off : cc p * p.s * (x - z) + (cc p * cc p - p.s * p.s) * y = 0

/-- from the natural description of the parameters: `s = t*c`, `c²(1+t²) = 1`, `s*tau = 1 - c`, and `t` a root of
`y t² + (z - x) t - y = 0` -/
theorem eigDiag_of {p : EigAngles α} {x y z : α} (hs : p.s = p.t * p.c) (hc : p.c * p.c * (1 + p.t * p.t) = 1)
    (htau : p.s * p.tau = 1 - p.c) (ht : y * p.t * p.t + (z - x) * p.t - y = 0) : EigDiag p x y z := by
  have hcc : cc p = p.c := by simp only [cc]; rw [htau]; ring
  refine ⟨?_, ?_, ?_, ?_⟩ <;> rw [hcc, hs]
  · linear_combination hc
  · linear_combination (p.c * p.c * p.t) * ht + (x - p.t * y) * hc
  · linear_combination (-(p.c * p.c * p.t)) * ht + (z + p.t * y) * hc
  · linear_combination (-(p.c * p.c)) * ht

theorem rotRightTau_eq (A : Mat α) (j k : Nat) (p : EigAngles α) :
    rotRightTau A j k p.s p.tau = rotRight A j k (cc p) p.s := by
  funext i m
  simp only [rotRightTau, rotRight, cc]
  split_ifs <;> ring

theorem eigApply_A3 (j k : Nat) (hjk : j < k) (hk : k < 3) (p : EigAngles α) (st : EigState α)
    (h : EigDiag p (st.A j j) (st.A j k) (st.A k k)) :
    symM 3 (eigApply 3 j k p st).A = (givens 3 j k (cc p) p.s)ᵀ * symM 3 st.A * givens 3 j k (cc p) p.s := by
  obtain ⟨_, hjj, hkk, hoff⟩ := h
  simp only [cc] at hjj hkk hoff
  interval_cases k <;> interval_cases j <;>
  · ext a b
    fin_cases a <;> fin_cases b <;>
      simp [eigApply, cc, symM, givens, Matrix.mul_apply, Fin.sum_univ_three, Matrix.transpose_apply] <;>
      first | ring1 | linear_combination -hoff | linear_combination -hjj | linear_combination -hkk

set_option maxHeartbeats 2000000 in
theorem eigApply_A4 (j k : Nat) (hjk : j < k) (hk : k < 4) (p : EigAngles α) (st : EigState α)
    (h : EigDiag p (st.A j j) (st.A j k) (st.A k k)) :
    symM 4 (eigApply 4 j k p st).A = (givens 4 j k (cc p) p.s)ᵀ * symM 4 st.A * givens 4 j k (cc p) p.s := by
  obtain ⟨_, hjj, hkk, hoff⟩ := h
  simp only [cc] at hjj hkk hoff
  interval_cases k <;> interval_cases j <;>
  · ext a b
    fin_cases a <;> fin_cases b <;>
      simp [eigApply, cc, symM, givens, Matrix.mul_apply, Fin.sum_univ_four, Matrix.transpose_apply] <;>
      first | ring1 | linear_combination -hoff | linear_combination -hjj | linear_combination -hkk

/-- one rotation of the eigen solver: `V'·sym(A')·V'ᵀ = V·sym(A)·Vᵀ` and `V'·V'ᵀ = V·Vᵀ` (3×3) -/
theorem eigApply_invariant3 (j k : Nat) (hjk : j < k) (hk : k < 3) (p : EigAngles α) (st : EigState α)
    (h : EigDiag p (st.A j j) (st.A j k) (st.A k k)) :
    toM 3 (eigApply 3 j k p st).V * symM 3 (eigApply 3 j k p st).A * (toM 3 (eigApply 3 j k p st).V)ᵀ =
      toM 3 st.V * symM 3 st.A * (toM 3 st.V)ᵀ ∧
    toM 3 (eigApply 3 j k p st).V * (toM 3 (eigApply 3 j k p st).V)ᵀ = toM 3 st.V * (toM 3 st.V)ᵀ := by
  have eV : (eigApply 3 j k p st).V = rotRight st.V j k (cc p) p.s := by
    simp only [eigApply]; exact rotRightTau_eq _ _ _ _
  rw [eV, eigApply_A3 j k hjk hk p st h, rotRight3 _ j k hjk hk]
  have hG := givens_orth3 j k hjk hk (cc p) p.s h.unit
  have := similarity (toM 3 st.V) (symM 3 st.A) (toM 3 st.V) _ _ hG hG
  exact ⟨this.1, this.2.1⟩

theorem eigApply_invariant4 (j k : Nat) (hjk : j < k) (hk : k < 4) (p : EigAngles α) (st : EigState α)
    (h : EigDiag p (st.A j j) (st.A j k) (st.A k k)) :
    toM 4 (eigApply 4 j k p st).V * symM 4 (eigApply 4 j k p st).A * (toM 4 (eigApply 4 j k p st).V)ᵀ =
      toM 4 st.V * symM 4 st.A * (toM 4 st.V)ᵀ ∧
    toM 4 (eigApply 4 j k p st).V * (toM 4 (eigApply 4 j k p st).V)ᵀ = toM 4 st.V * (toM 4 st.V)ᵀ := by
  have eV : (eigApply 4 j k p st).V = rotRight st.V j k (cc p) p.s := by
    simp only [eigApply]; exact rotRightTau_eq _ _ _ _
  rw [eV, eigApply_A4 j k hjk hk p st h, rotRight4 _ j k hjk hk]
  have hG := givens_orth4 j k hjk hk (cc p) p.s h.unit
  have := similarity (toM 4 st.V) (symM 4 st.A) (toM 4 st.V) _ _ hG hG
  exact ⟨this.1, this.2.1⟩

end ImathVerif.Jacobi
