import ImathVerif.Spec.TransformSpec
import ImathVerif.Gen.C09Frame
import Mathlib.Tactic.Ring
/-!
Helper for C09: the extracted `alignZAxisWithTargetDir` tree equals the documented case analysis (slow to elaborate, own module).
-/
set_option linter.unusedSectionVars false
set_option linter.unreachableTactic false
set_option linter.unusedTactic false
set_option linter.unusedSimpArgs false
namespace ImathVerif.C09
open ImathVerif Matrix

section AlignTree
variable {α : Type} [Field α] [LinearOrder α] [IsStrictOrderedRing α]

set_option maxHeartbeats 1600000 in
/-- the extracted 60-path tree IS the documented behaviour (no assumption on `length` needed: purely structural) -/
theorem alignZ_eq_spec (tmin : α) (sqrt : α → α) (t u : V3 α) :
    Gen.Frame.alignZAxisWithTargetDir tmin sqrt t u = alignZSpec (Gen.V3.length tmin sqrt) t u := by
  obtain ⟨tx, ty, tz⟩ := t
  obtain ⟨ux, uy, uz⟩ := u
  simp only [Gen.Frame.alignZAxisWithTargetDir, alignZSpec, nrm, cross, frameM44]
  generalize Gen.V3.length tmin sqrt = len
  simp only [mul_zero, zero_mul, mul_one, one_mul, sub_zero, zero_sub, sub_self, zero_div]
  split_ifs <;> first | rfl | (simp_all; done)

end AlignTree
end ImathVerif.C09
