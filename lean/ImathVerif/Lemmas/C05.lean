import ImathVerif.Spec.MatSpec
import Mathlib.Algebra.Quaternion
import Mathlib.LinearAlgebra.CrossProduct
import Mathlib.Tactic.Ring
/-!
# C05 helpers: interpretation of `Quat` as Mathlib's `Quaternion`, and the index-generic
hand model of the single `fastMinor` body of `Matrix33` / `Matrix44`
(`/repo/src/Imath/ImathMatrix.h`, `Matrix33<T>::fastMinor`, `Matrix44<T>::fastMinor`).

The hand models are tied to the code by the instance theorems of `Props/C05.lean`
(extracted index tuples, incl. descending and repeated ones) and, on the real code, by
`harness/corr/c05_residue.cpp`, which runs all 81 / 4096 index tuples.  The generic theorems
`fastMinor2_eq_det` / `fastMinor3_eq_det` are in `Props/C05.lean`.
-/
namespace ImathVerif
open Matrix

/-- `Quat` (r, (x, y, z)) as Mathlib's quaternion `r + x i + y j + z k` -/
def Quat.toH {α : Type} [Zero α] [One α] [Neg α] (q : Quat α) : Quaternion α := ⟨q.r, q.v.x, q.v.y, q.v.z⟩

/-- `Quat` as the 4-vector (r, x, y, z) -/
def Quat.toVec {α : Type} (q : Quat α) : Fin 4 → α := ![q.r, q.v.x, q.v.y, q.v.z]

/-- the body of `Matrix33<T>::fastMinor (r0, r1, c0, c1)`, for arbitrary indices -/
def fastMinor2 {α : Type} [Mul α] [Sub α] (A : Matrix (Fin 3) (Fin 3) α) (r0 r1 c0 c1 : Fin 3) : α :=
  A r0 c0 * A r1 c1 - A r0 c1 * A r1 c0

/-- the body of `Matrix44<T>::fastMinor (r0, r1, r2, c0, c1, c2)`, for arbitrary indices -/
def fastMinor3 {α : Type} [Mul α] [Sub α] [Add α] (A : Matrix (Fin 4) (Fin 4) α) (r0 r1 r2 c0 c1 c2 : Fin 4) : α :=
  A r0 c0 * (A r1 c1 * A r2 c2 - A r1 c2 * A r2 c1) +
  A r0 c1 * (A r1 c2 * A r2 c0 - A r1 c0 * A r2 c2) +
  A r0 c2 * (A r1 c0 * A r2 c1 - A r1 c1 * A r2 c0)

end ImathVerif
