import ImathVerif.Model.BufferProtocol
/-!
Lemmas about the `...ArrayFromBuffer` model (C19): sizes of the logical item list, and — for a C-contiguous
view — equality of the flat `memcpy` image with the logical items.
-/
namespace ImathVerif.BufferProtocol

/-- PEP 3118 invariants every exporter guarantees for the view it hands out -/
structure Src.Consistent (s : Src) : Prop where
  ndim : s.strides.length = s.shape.length
  len : s.len = prod s.shape * s.itemsize
  itemPos : 0 < s.itemsize

theorem length_flatMap_range {α : Type} (f : Nat → List α) (P : Nat) (hf : ∀ i, (f i).length = P) :
    ∀ n, ((List.range n).flatMap f).length = n * P := by
  intro n
  induction n with
  | zero => simp
  | succ n ih =>
    rw [List.range_succ, List.flatMap_append, List.length_append, ih]
    simp [hf, Nat.succ_mul]

theorem prod_cons (n : Nat) (ns : List Nat) : prod (n :: ns) = n * prod ns := rfl

theorem itemOffsets_length : ∀ (shape : List Nat) (strides : List Int), strides.length = shape.length →
    (itemOffsets shape strides).length = prod shape := by
  intro shape
  induction shape with
  | nil => intro strides _; rfl
  | cons n ns ih =>
    intro strides hl
    cases strides with
    | nil => simp at hl
    | cons st sts =>
      simp only [itemOffsets, prod_cons]
      apply length_flatMap_range
      intro i
      simp only [List.length_map]
      exact ih sts (by simpa using hl)

theorem itemAt_length {mem : List Nat} {isz : Nat} {p : Int} {b : List Nat} (h : itemAt mem isz p = some b) :
    b.length = isz := by
  unfold itemAt at h
  split at h
  · rename_i hc
    simp at h; subst h
    simp only [List.length_take, List.length_drop]
    omega
  · simp at h

theorem gather_length {mem : List Nat} {isz off : Nat} :
    ∀ (os : List Int) (b : List Nat), gather mem isz off os = some b → b.length = os.length * isz := by
  intro os
  induction os with
  | nil => intro b h; simp [gather] at h; subst h; simp
  | cons o os ih =>
    intro b h
    simp only [gather] at h
    split at h
    · rename_i b1 bs h1 h2
      simp at h; subst h
      rw [List.length_append, itemAt_length h1, ih bs h2]
      simp [Nat.succ_mul, Nat.add_comm]
    · simp at h

/-- the logical item list of a consistent view has exactly `view.len` bytes -/
theorem logicalBytes_length {s : Src} (hs : s.Consistent) {b : List Nat} (h : s.logicalBytes = some b) :
    b.length = s.len := by
  unfold Src.logicalBytes at h
  rw [gather_length _ _ h, itemOffsets_length _ _ hs.ndim, hs.len]


/-! ## a C-contiguous view: the flat image IS the logical item list -/

theorem flatMap_range_mul (n P : Nat) :
    (List.range n).flatMap (fun i => (List.range P).map (fun j => i * P + j)) = List.range (n * P) := by
  induction n with
  | zero => simp
  | succ n ih =>
    rw [List.range_succ, List.flatMap_append, ih, Nat.succ_mul, List.range_add]
    simp

theorem prod_pos_of_forall : ∀ (shape : List Nat), (∀ n ∈ shape, 0 < n) → 0 < prod shape := by
  intro shape
  induction shape with
  | nil => intro _; decide
  | cons n ns ih =>
    intro h
    rw [prod_cons]
    exact Nat.mul_pos (h n (by simp)) (ih (fun m hm => h m (by simp [hm])))

/-- `_IsCContiguous` succeeded on a view without empty dimensions: the items are at `0, itemsize, 2·itemsize, …` -/
theorem itemOffsets_contig (isz : Nat) : ∀ (shape : List Nat) (strides : List Int) (sd : Nat),
    contigFrom isz shape strides = some sd → (∀ n ∈ shape, 0 < n) →
    itemOffsets shape strides = (List.range (prod shape)).map (fun j => Int.ofNat (j * isz)) ∧ sd = isz * prod shape := by
  intro shape
  induction shape with
  | nil =>
    intro strides sd h _
    simp [contigFrom] at h
    subst h
    exact ⟨by simp [itemOffsets, prod], by simp [prod]⟩
  | cons n ns ih =>
    intro strides sd h hpos
    cases strides with
    | nil => simp [contigFrom] at h
    | cons st sts =>
      simp only [contigFrom] at h
      cases hc : contigFrom isz ns sts with
      | none => simp [hc] at h
      | some sd' =>
        simp only [hc] at h
        obtain ⟨ho, hsd⟩ := ih sts sd' hc (fun m hm => hpos m (by simp [hm]))
        have hn : 0 < n := hpos n (by simp)
        split at h
        · simp at h
        · rename_i hcond
          simp at h
          subst h
          refine ⟨?_, by rw [prod_cons, hsd]; simp [Nat.mul_comm, Nat.mul_left_comm]⟩
          simp only [itemOffsets, ho, prod_cons, List.map_map]
          by_cases h1 : n = 1
          · subst h1
            simp [List.range_succ]
          · have hst : st = (sd' : Int) := by
              by_cases hh : st = (sd' : Int)
              · exact hh
              · exact absurd ⟨by omega, hh⟩ hcond
            rw [← flatMap_range_mul n (prod ns), List.map_flatMap]
            congr 1
            funext i
            simp only [List.map_map]
            apply List.map_congr_left
            intro j _
            simp only [Function.comp, hst, hsd]
            simp only [Int.ofNat_eq_natCast]
            push_cast
            rw [Int.add_mul]
            simp [Int.mul_comm, Int.mul_left_comm]

theorem gather_consecutive (mem : List Nat) (isz off : Nat) : ∀ (k start : Nat),
    off + (start + k) * isz ≤ mem.length →
    gather mem isz off ((List.range' start k).map (fun j => Int.ofNat (j * isz)))
      = some ((mem.drop (off + start * isz)).take (k * isz)) := by
  intro k
  induction k with
  | zero => intro start _; simp [gather]
  | succ k ih =>
    intro start hb
    have hb' : off + (start + 1 + k) * isz ≤ mem.length := by
      have : start + 1 + k = start + (k + 1) := by omega
      rw [this]; exact hb
    have hle : off + start * isz + isz ≤ mem.length := by
      have : (start + (k + 1)) * isz = start * isz + isz + k * isz := by
        rw [Nat.add_mul, Nat.add_mul]; omega
      omega
    simp only [List.range'_succ, List.map_cons, gather, ih (start + 1) hb']
    have hit : itemAt mem isz ((off : Int) + Int.ofNat (start * isz)) = some ((mem.drop (off + start * isz)).take isz) := by
      unfold itemAt
      have h0 : (0 : Int) ≤ (off : Int) + Int.ofNat (start * isz) := by simp only [Int.ofNat_eq_natCast]; omega
      have h1 : ((off : Int) + Int.ofNat (start * isz)).toNat = off + start * isz := by
        simp only [Int.ofNat_eq_natCast]; omega
      rw [if_pos ⟨h0, by rw [h1]; exact hle⟩, h1]
    simp only [hit]
    congr 1
    have e1 : off + (start + 1) * isz = (off + start * isz) + isz := by rw [Nat.add_mul]; omega
    have e2 : (k + 1) * isz = isz + k * isz := by rw [Nat.add_mul]; omega
    rw [e1, e2, List.take_add, List.drop_drop]

/-- for a consistent C-contiguous view whose `len` bytes lie inside the exporter's block, `memcpy` reads exactly
    the logical items -/
theorem contiguous_flat_eq_logical {s : Src} (hs : s.Consistent) (hc : s.isCContiguous = true) {b : List Nat}
    (hf : s.flatBytes = some b) : s.logicalBytes = some b := by
  unfold Src.flatBytes at hf
  split at hf
  · rename_i hle
    simp at hf
    by_cases h0 : s.len = 0
    · -- empty view: no item at all
      have hp : prod s.shape = 0 := by
        have := hs.len; rw [h0] at this
        rcases Nat.mul_eq_zero.1 this.symm with h | h
        · exact h
        · have := hs.itemPos; omega
      have : itemOffsets s.shape s.strides = [] :=
        List.eq_nil_of_length_eq_zero (by rw [itemOffsets_length _ _ hs.ndim, hp])
      subst hf
      simp [Src.logicalBytes, this, gather, h0]
    · have hcf : (contigFrom s.itemsize s.shape s.strides).isSome = true := by
        unfold Src.isCContiguous at hc
        simpa [h0] using hc
      obtain ⟨sd, hsd⟩ := Option.isSome_iff_exists.1 hcf
      have hpos : ∀ n ∈ s.shape, 0 < n := by
        intro n hn
        rcases Nat.eq_zero_or_pos n with hz | hz
        · exfalso
          apply h0
          rw [hs.len]
          have : prod s.shape = 0 := by
            clear hsd hcf hc hle hf
            generalize s.shape = sh at hn
            induction sh with
            | nil => simp at hn
            | cons m ms ih =>
              rw [prod_cons]
              rcases List.mem_cons.1 hn with h | h
              · subst h; simp [hz]
              · simp [ih h]
          simp [this]
        · exact hz
      obtain ⟨ho, _⟩ := itemOffsets_contig s.itemsize s.shape s.strides sd hsd hpos
      unfold Src.logicalBytes
      rw [ho, List.range_eq_range']
      have := gather_consecutive s.mem s.itemsize s.off (prod s.shape) 0 (by rw [Nat.zero_add, ← hs.len]; exact hle)
      rw [this, ← hf, Nat.zero_mul, Nat.add_zero, hs.len]
  · simp at hf


/-! ## exported views: the bytes a consumer sees are the array's elements -/

theorem gather_of_nat (mem : List Nat) (isz off : Nat) : ∀ (os : List Nat),
    (∀ o ∈ os, off + o + isz ≤ mem.length) →
    gather mem isz off (os.map Int.ofNat) = some (os.flatMap (fun o => (mem.drop (off + o)).take isz)) := by
  intro os
  induction os with
  | nil => intro _; rfl
  | cons o t ih =>
    intro hin
    have ho := hin o (by simp)
    have hit : itemAt mem isz ((off : Int) + Int.ofNat o) = some ((mem.drop (off + o)).take isz) := by
      unfold itemAt
      have h0 : (0 : Int) ≤ (off : Int) + Int.ofNat o := by simp only [Int.ofNat_eq_natCast]; omega
      have h1 : ((off : Int) + Int.ofNat o).toNat = off + o := by simp only [Int.ofNat_eq_natCast]; omega
      rw [if_pos ⟨h0, by rw [h1]; exact ho⟩, h1]
    simp only [List.map_cons, gather, hit, ih (fun o' ho' => hin o' (by simp [ho'])), List.flatMap_cons]

/-- byte offsets of the items in C order, over the naturals (exported views have non-negative strides) -/
def natOffsets : List Nat → List Nat → List Nat
  | [], _ => [0]
  | _ :: _, [] => []
  | n :: ns, st :: sts => (List.range n).flatMap (fun i => (natOffsets ns sts).map (fun o => i * st + o))

theorem itemOffsets_nat : ∀ (shape strides : List Nat),
    itemOffsets shape (strides.map Int.ofNat) = (natOffsets shape strides).map Int.ofNat := by
  intro shape
  induction shape with
  | nil => intro _; rfl
  | cons n ns ih =>
    intro strides
    cases strides with
    | nil => rfl
    | cons st sts =>
      simp only [List.map_cons, itemOffsets, natOffsets, ih sts, List.map_flatMap, List.map_map]
      congr 1

theorem flatMap_pure {α β : Type} (l : List α) (f : α → β) : l.flatMap (fun i => [f i]) = l.map f := by
  induction l with
  | nil => rfl
  | cons a t ih => simp [ih]

/-- **exported contents, any dimension**: a consumer of the view `getbuffer` fills in reads, in C order, the
    `itemsize`-byte items at `off + Σ index_d · stride_d` of the array's storage -/
theorem export_contents (cfg : BufCfg) (t : ElemTy) (n stride : Nat) (mem : List Nat) (off : Nat)
    (hin : ∀ o ∈ natOffsets (apiShape t n stride) (apiStrides t stride), off + o + t.atomicSize ≤ mem.length) :
    exportBytes cfg t n stride mem off
      = some ((natOffsets (apiShape t n stride) (apiStrides t stride)).flatMap
          (fun o => (mem.drop (off + o)).take t.atomicSize)) := by
  unfold exportBytes exportView Src.logicalBytes getbuffer
  simp only
  rw [itemOffsets_nat, gather_of_nat _ _ _ _ hin]

/-- 1-D export (scalar arrays, dense or STRIDED — e.g. the component array `.y` of a vector array): one item every
    `atomicSize·width·stride` bytes -/
theorem natOffsets_1d (t : ElemTy) (hd : t.dims = 1) (n stride : Nat) :
    natOffsets (apiShape t n stride) (apiStrides t stride)
      = (List.range n).map (fun i => i * (t.atomicSize * t.width * stride)) := by
  simp only [apiShape, apiStrides, hd, Nat.sub_self, List.replicate_zero, natOffsets, List.map_cons, List.map_nil,
    Nat.add_zero]
  exact flatMap_pure _ _

/-- 2-D export (vector arrays): for every element its `width·stride` items, `atomicSize` bytes apart -/
theorem natOffsets_2d (t : ElemTy) (hd : t.dims = 2) (n stride : Nat) :
    natOffsets (apiShape t n stride) (apiStrides t stride)
      = (List.range n).flatMap (fun i => (List.range (t.width * stride)).map
          (fun j => i * (t.atomicSize * t.width * stride) + j * t.atomicSize)) := by
  simp only [apiShape, apiStrides, hd, show 2 - 1 = 1 from rfl, List.replicate_succ, List.replicate_zero, natOffsets,
    List.map_cons, List.map_nil, Nat.add_zero]
  congr 1
  funext i
  rw [flatMap_pure, List.map_map]
  rfl

end ImathVerif.BufferProtocol
