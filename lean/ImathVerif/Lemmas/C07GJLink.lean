import ImathVerif.Lemmas.GaussJordanLemmas
import ImathVerif.Gen.C07GJ
/-!
# The extracted `Matrix33::gjInverse (true)` IS the Gauss-Jordan hand model at `n = 3`

`Gen.C07.M33.gjInverseT` is the 1,312-path decision tree regenerated from `ImathMatrix.h` on every run (sign tests of the
pivot candidates, comparisons, zero tests, and at each leaf the nine entries of the result); `M33.gjInverseExc` is the hand model
`Model/GaussJordan.lean` (folds over index lists on `Vector`-backed matrices, generic in `n`), which `Props/C06.lean` proves
correct (exit ⇔ `det = 0`, otherwise a two-sided inverse).  Here: the two are THE SAME FUNCTION (`M33_gjInverseT_eq_model`), by

1. an explicit 3×3 form of the model (`run3`: the five loop iterations `fwd0 fwd1 bwd2 bwd1 bwd0` on pairs of `M33`, each a
   decision tree over the pivot search with straight-line row operations at the leaves), proved equal to the model's steps
   (`fwd0_eq … bwd0_eq`, `gjRun_eq`) through the `get` lemmas of `Lemmas/GaussJordanLemmas.lean`;
2. a walk over the extracted tree (`gen_eq_run3`): case split on every condition of the tree in program order, evaluating `run3`
   lazily along the way; at each of the 1,312 leaves both sides are syntactically the same nine expressions (`rfl`) — the model
   keeps the operand order of the C++.

No algebra is involved: an edit of the C++ that changes any operand, pivot test or exit of `gjInverse (bool)` breaks this file
(then C07GJ's failure equivalence and C06-S4's tie are gone, visibly).  ~5 min of elaboration, cached until `Gen/C07GJ.lean` changes.
-/
set_option linter.unusedSectionVars false
set_option linter.unusedSimpArgs false
set_option linter.unusedTactic false
set_option linter.unusedVariables false
open ImathVerif ImathVerif.GJ

namespace ImathVerif.C07GJLink
variable {α : Type}

/-- a 3×3 model matrix from its nine entries -/
def mk3 (x00 x01 x02 x10 x11 x12 x20 x21 x22 : α) : Mat 3 α := ⟨#v[#v[x00, x01, x02], #v[x10, x11, x12], #v[x20, x21, x22]]⟩

theorem mk3_get (x00 x01 x02 x10 x11 x12 x20 x21 x22 : α) :
    (mk3 x00 x01 x02 x10 x11 x12 x20 x21 x22).get 0 0 = x00 ∧ (mk3 x00 x01 x02 x10 x11 x12 x20 x21 x22).get 0 1 = x01 ∧
    (mk3 x00 x01 x02 x10 x11 x12 x20 x21 x22).get 0 2 = x02 ∧ (mk3 x00 x01 x02 x10 x11 x12 x20 x21 x22).get 1 0 = x10 ∧
    (mk3 x00 x01 x02 x10 x11 x12 x20 x21 x22).get 1 1 = x11 ∧ (mk3 x00 x01 x02 x10 x11 x12 x20 x21 x22).get 1 2 = x12 ∧
    (mk3 x00 x01 x02 x10 x11 x12 x20 x21 x22).get 2 0 = x20 ∧ (mk3 x00 x01 x02 x10 x11 x12 x20 x21 x22).get 2 1 = x21 ∧
    (mk3 x00 x01 x02 x10 x11 x12 x20 x21 x22).get 2 2 = x22 := ⟨rfl, rfl, rfl, rfl, rfl, rfl, rfl, rfl, rfl⟩

theorem Mat.ext3 (m m' : Mat 3 α) (h : ∀ i j, m.get i j = m'.get i j) : m = m' := by
  obtain ⟨v⟩ := m; obtain ⟨w⟩ := m'
  congr 1
  apply Vector.ext; intro i hi
  apply Vector.ext; intro j hj
  exact h ⟨i, hi⟩ ⟨j, hj⟩

theorem mk3_eta (m : Mat 3 α) :
    m = mk3 (m.get 0 0) (m.get 0 1) (m.get 0 2) (m.get 1 0) (m.get 1 1) (m.get 1 2) (m.get 2 0) (m.get 2 1) (m.get 2 2) := by
  apply Mat.ext3
  intro i j
  fin_cases i <;> fin_cases j <;> rfl


/-- an operation on an explicit matrix is an explicit matrix: compare the nine entries -/
macro "op_tac " "[" l:ident "]" : tactic =>
  `(tactic| (apply Mat.ext3; intro i j; fin_cases i <;> fin_cases j <;>
      simp [$l:ident, (mk3_get _ _ _ _ _ _ _ _ _).1, (mk3_get _ _ _ _ _ _ _ _ _).2.1, (mk3_get _ _ _ _ _ _ _ _ _).2.2.1,
        (mk3_get _ _ _ _ _ _ _ _ _).2.2.2.1, (mk3_get _ _ _ _ _ _ _ _ _).2.2.2.2.1, (mk3_get _ _ _ _ _ _ _ _ _).2.2.2.2.2.1,
        (mk3_get _ _ _ _ _ _ _ _ _).2.2.2.2.2.2.1, (mk3_get _ _ _ _ _ _ _ _ _).2.2.2.2.2.2.2.1, (mk3_get _ _ _ _ _ _ _ _ _).2.2.2.2.2.2.2.2]))

theorem swap_01 (x00 x01 x02 x10 x11 x12 x20 x21 x22 : α) : swapRows (mk3 x00 x01 x02 x10 x11 x12 x20 x21 x22) 0 1 = mk3 x10 x11 x12 x00 x01 x02 x20 x21 x22 := by
  op_tac [get_swapRows]
theorem swap_02 (x00 x01 x02 x10 x11 x12 x20 x21 x22 : α) : swapRows (mk3 x00 x01 x02 x10 x11 x12 x20 x21 x22) 0 2 = mk3 x20 x21 x22 x10 x11 x12 x00 x01 x02 := by
  op_tac [get_swapRows]
theorem swap_12 (x00 x01 x02 x10 x11 x12 x20 x21 x22 : α) : swapRows (mk3 x00 x01 x02 x10 x11 x12 x20 x21 x22) 1 2 = mk3 x00 x01 x02 x20 x21 x22 x10 x11 x12 := by
  op_tac [get_swapRows]
theorem axpy_10 [Sub α] [Mul α] (x00 x01 x02 x10 x11 x12 x20 x21 x22 f : α) : axpyRow (mk3 x00 x01 x02 x10 x11 x12 x20 x21 x22) 1 0 f = mk3 x00 x01 x02 (x10 - f * x00) (x11 - f * x01) (x12 - f * x02) x20 x21 x22 := by
  op_tac [get_axpyRow]
theorem axpy_20 [Sub α] [Mul α] (x00 x01 x02 x10 x11 x12 x20 x21 x22 f : α) : axpyRow (mk3 x00 x01 x02 x10 x11 x12 x20 x21 x22) 2 0 f = mk3 x00 x01 x02 x10 x11 x12 (x20 - f * x00) (x21 - f * x01) (x22 - f * x02) := by
  op_tac [get_axpyRow]
theorem axpy_21 [Sub α] [Mul α] (x00 x01 x02 x10 x11 x12 x20 x21 x22 f : α) : axpyRow (mk3 x00 x01 x02 x10 x11 x12 x20 x21 x22) 2 1 f = mk3 x00 x01 x02 x10 x11 x12 (x20 - f * x10) (x21 - f * x11) (x22 - f * x12) := by
  op_tac [get_axpyRow]
theorem axpy_02 [Sub α] [Mul α] (x00 x01 x02 x10 x11 x12 x20 x21 x22 f : α) : axpyRow (mk3 x00 x01 x02 x10 x11 x12 x20 x21 x22) 0 2 f = mk3 (x00 - f * x20) (x01 - f * x21) (x02 - f * x22) x10 x11 x12 x20 x21 x22 := by
  op_tac [get_axpyRow]
theorem axpy_12 [Sub α] [Mul α] (x00 x01 x02 x10 x11 x12 x20 x21 x22 f : α) : axpyRow (mk3 x00 x01 x02 x10 x11 x12 x20 x21 x22) 1 2 f = mk3 x00 x01 x02 (x10 - f * x20) (x11 - f * x21) (x12 - f * x22) x20 x21 x22 := by
  op_tac [get_axpyRow]
theorem axpy_01 [Sub α] [Mul α] (x00 x01 x02 x10 x11 x12 x20 x21 x22 f : α) : axpyRow (mk3 x00 x01 x02 x10 x11 x12 x20 x21 x22) 0 1 f = mk3 (x00 - f * x10) (x01 - f * x11) (x02 - f * x12) x10 x11 x12 x20 x21 x22 := by
  op_tac [get_axpyRow]
theorem scale_0 [Div α] (x00 x01 x02 x10 x11 x12 x20 x21 x22 f : α) : scaleRow (mk3 x00 x01 x02 x10 x11 x12 x20 x21 x22) 0 f = mk3 (x00 / f) (x01 / f) (x02 / f) x10 x11 x12 x20 x21 x22 := by
  op_tac [get_scaleRow]
theorem scale_1 [Div α] (x00 x01 x02 x10 x11 x12 x20 x21 x22 f : α) : scaleRow (mk3 x00 x01 x02 x10 x11 x12 x20 x21 x22) 1 f = mk3 x00 x01 x02 (x10 / f) (x11 / f) (x12 / f) x20 x21 x22 := by
  op_tac [get_scaleRow]
theorem scale_2 [Div α] (x00 x01 x02 x10 x11 x12 x20 x21 x22 f : α) : scaleRow (mk3 x00 x01 x02 x10 x11 x12 x20 x21 x22) 2 f = mk3 x00 x01 x02 x10 x11 x12 (x20 / f) (x21 / f) (x22 / f) := by
  op_tac [get_scaleRow]


section link
variable [Field α] [LinearOrder α] [IsStrictOrderedRing α] [BEq α] [LawfulBEq α]

theorem fwd3 : fwdIdx 3 = [0, 1] := by decide
theorem bwd3 : bwdIdx 3 = [2, 1, 0] := by decide
theorem rb0 : rowsBelow (0 : Fin 3) = [1, 2] := by decide
theorem rb1 : rowsBelow (1 : Fin 3) = [2] := by decide
theorem ra2 : rowsAbove (2 : Fin 3) = [0, 1] := by decide
theorem ra1 : rowsAbove (1 : Fin 3) = [0] := by decide
theorem ra0 : rowsAbove (0 : Fin 3) = [] := by decide

theorem toGJ_eq (a : M33 α) : a.toGJ = mk3 a.x00 a.x01 a.x02 a.x10 a.x11 a.x12 a.x20 a.x21 a.x22 := rfl
theorem identity_eq : (Mat.identity : Mat 3 α) = mk3 1 0 0 0 1 0 0 0 1 := by
  apply Mat.ext3; intro i j; fin_cases i <;> fin_cases j <;> simp [get_identity] <;> rfl
theorem ofGJ_mk3 (x00 x01 x02 x10 x11 x12 x20 x21 x22 : α) :
    M33.ofGJ (mk3 x00 x01 x02 x10 x11 x12 x20 x21 x22) = ⟨x00, x01, x02, x10, x11, x12, x20, x21, x22⟩ := rfl

def swap01 (m : M33 α) : M33 α := ⟨m.x10, m.x11, m.x12, m.x00, m.x01, m.x02, m.x20, m.x21, m.x22⟩
theorem swap01_toGJ (m : M33 α) : swapRows m.toGJ 0 1 = (swap01 m).toGJ := by rw [toGJ_eq, toGJ_eq, swap_01]; rfl
def swap02 (m : M33 α) : M33 α := ⟨m.x20, m.x21, m.x22, m.x10, m.x11, m.x12, m.x00, m.x01, m.x02⟩
theorem swap02_toGJ (m : M33 α) : swapRows m.toGJ 0 2 = (swap02 m).toGJ := by rw [toGJ_eq, toGJ_eq, swap_02]; rfl
def swap12 (m : M33 α) : M33 α := ⟨m.x00, m.x01, m.x02, m.x20, m.x21, m.x22, m.x10, m.x11, m.x12⟩
theorem swap12_toGJ (m : M33 α) : swapRows m.toGJ 1 2 = (swap12 m).toGJ := by rw [toGJ_eq, toGJ_eq, swap_12]; rfl
def axpy10 (m : M33 α) (f : α) : M33 α := ⟨m.x00, m.x01, m.x02, m.x10 - f * m.x00, m.x11 - f * m.x01, m.x12 - f * m.x02, m.x20, m.x21, m.x22⟩
theorem axpy10_toGJ (m : M33 α) (f : α) : axpyRow m.toGJ 1 0 f = (axpy10 m f).toGJ := by rw [toGJ_eq, toGJ_eq, axpy_10]; rfl
def axpy20 (m : M33 α) (f : α) : M33 α := ⟨m.x00, m.x01, m.x02, m.x10, m.x11, m.x12, m.x20 - f * m.x00, m.x21 - f * m.x01, m.x22 - f * m.x02⟩
theorem axpy20_toGJ (m : M33 α) (f : α) : axpyRow m.toGJ 2 0 f = (axpy20 m f).toGJ := by rw [toGJ_eq, toGJ_eq, axpy_20]; rfl
def axpy21 (m : M33 α) (f : α) : M33 α := ⟨m.x00, m.x01, m.x02, m.x10, m.x11, m.x12, m.x20 - f * m.x10, m.x21 - f * m.x11, m.x22 - f * m.x12⟩
theorem axpy21_toGJ (m : M33 α) (f : α) : axpyRow m.toGJ 2 1 f = (axpy21 m f).toGJ := by rw [toGJ_eq, toGJ_eq, axpy_21]; rfl
def axpy02 (m : M33 α) (f : α) : M33 α := ⟨m.x00 - f * m.x20, m.x01 - f * m.x21, m.x02 - f * m.x22, m.x10, m.x11, m.x12, m.x20, m.x21, m.x22⟩
theorem axpy02_toGJ (m : M33 α) (f : α) : axpyRow m.toGJ 0 2 f = (axpy02 m f).toGJ := by rw [toGJ_eq, toGJ_eq, axpy_02]; rfl
def axpy12 (m : M33 α) (f : α) : M33 α := ⟨m.x00, m.x01, m.x02, m.x10 - f * m.x20, m.x11 - f * m.x21, m.x12 - f * m.x22, m.x20, m.x21, m.x22⟩
theorem axpy12_toGJ (m : M33 α) (f : α) : axpyRow m.toGJ 1 2 f = (axpy12 m f).toGJ := by rw [toGJ_eq, toGJ_eq, axpy_12]; rfl
def axpy01 (m : M33 α) (f : α) : M33 α := ⟨m.x00 - f * m.x10, m.x01 - f * m.x11, m.x02 - f * m.x12, m.x10, m.x11, m.x12, m.x20, m.x21, m.x22⟩
theorem axpy01_toGJ (m : M33 α) (f : α) : axpyRow m.toGJ 0 1 f = (axpy01 m f).toGJ := by rw [toGJ_eq, toGJ_eq, axpy_01]; rfl
def scale0 (m : M33 α) (f : α) : M33 α := ⟨m.x00 / f, m.x01 / f, m.x02 / f, m.x10, m.x11, m.x12, m.x20, m.x21, m.x22⟩
theorem scale0_toGJ (m : M33 α) (f : α) : scaleRow m.toGJ 0 f = (scale0 m f).toGJ := by rw [toGJ_eq, toGJ_eq, scale_0]; rfl
def scale1 (m : M33 α) (f : α) : M33 α := ⟨m.x00, m.x01, m.x02, m.x10 / f, m.x11 / f, m.x12 / f, m.x20, m.x21, m.x22⟩
theorem scale1_toGJ (m : M33 α) (f : α) : scaleRow m.toGJ 1 f = (scale1 m f).toGJ := by rw [toGJ_eq, toGJ_eq, scale_1]; rfl
def scale2 (m : M33 α) (f : α) : M33 α := ⟨m.x00, m.x01, m.x02, m.x10, m.x11, m.x12, m.x20 / f, m.x21 / f, m.x22 / f⟩
theorem scale2_toGJ (m : M33 α) (f : α) : scaleRow m.toGJ 2 f = (scale2 m f).toGJ := by rw [toGJ_eq, toGJ_eq, scale_2]; rfl

theorem swap01_x00 (m : M33 α) : (swap01 m).x00 = m.x10 := rfl
theorem swap01_x01 (m : M33 α) : (swap01 m).x01 = m.x11 := rfl
theorem swap01_x02 (m : M33 α) : (swap01 m).x02 = m.x12 := rfl
theorem swap01_x10 (m : M33 α) : (swap01 m).x10 = m.x00 := rfl
theorem swap01_x11 (m : M33 α) : (swap01 m).x11 = m.x01 := rfl
theorem swap01_x12 (m : M33 α) : (swap01 m).x12 = m.x02 := rfl
theorem swap01_x20 (m : M33 α) : (swap01 m).x20 = m.x20 := rfl
theorem swap01_x21 (m : M33 α) : (swap01 m).x21 = m.x21 := rfl
theorem swap01_x22 (m : M33 α) : (swap01 m).x22 = m.x22 := rfl
theorem swap02_x00 (m : M33 α) : (swap02 m).x00 = m.x20 := rfl
theorem swap02_x01 (m : M33 α) : (swap02 m).x01 = m.x21 := rfl
theorem swap02_x02 (m : M33 α) : (swap02 m).x02 = m.x22 := rfl
theorem swap02_x10 (m : M33 α) : (swap02 m).x10 = m.x10 := rfl
theorem swap02_x11 (m : M33 α) : (swap02 m).x11 = m.x11 := rfl
theorem swap02_x12 (m : M33 α) : (swap02 m).x12 = m.x12 := rfl
theorem swap02_x20 (m : M33 α) : (swap02 m).x20 = m.x00 := rfl
theorem swap02_x21 (m : M33 α) : (swap02 m).x21 = m.x01 := rfl
theorem swap02_x22 (m : M33 α) : (swap02 m).x22 = m.x02 := rfl
theorem swap12_x00 (m : M33 α) : (swap12 m).x00 = m.x00 := rfl
theorem swap12_x01 (m : M33 α) : (swap12 m).x01 = m.x01 := rfl
theorem swap12_x02 (m : M33 α) : (swap12 m).x02 = m.x02 := rfl
theorem swap12_x10 (m : M33 α) : (swap12 m).x10 = m.x20 := rfl
theorem swap12_x11 (m : M33 α) : (swap12 m).x11 = m.x21 := rfl
theorem swap12_x12 (m : M33 α) : (swap12 m).x12 = m.x22 := rfl
theorem swap12_x20 (m : M33 α) : (swap12 m).x20 = m.x10 := rfl
theorem swap12_x21 (m : M33 α) : (swap12 m).x21 = m.x11 := rfl
theorem swap12_x22 (m : M33 α) : (swap12 m).x22 = m.x12 := rfl
theorem axpy10_x00 (m : M33 α) (f : α) : (axpy10 m f).x00 = m.x00 := rfl
theorem axpy10_x01 (m : M33 α) (f : α) : (axpy10 m f).x01 = m.x01 := rfl
theorem axpy10_x02 (m : M33 α) (f : α) : (axpy10 m f).x02 = m.x02 := rfl
theorem axpy10_x10 (m : M33 α) (f : α) : (axpy10 m f).x10 = m.x10 - f * m.x00 := rfl
theorem axpy10_x11 (m : M33 α) (f : α) : (axpy10 m f).x11 = m.x11 - f * m.x01 := rfl
theorem axpy10_x12 (m : M33 α) (f : α) : (axpy10 m f).x12 = m.x12 - f * m.x02 := rfl
theorem axpy10_x20 (m : M33 α) (f : α) : (axpy10 m f).x20 = m.x20 := rfl
theorem axpy10_x21 (m : M33 α) (f : α) : (axpy10 m f).x21 = m.x21 := rfl
theorem axpy10_x22 (m : M33 α) (f : α) : (axpy10 m f).x22 = m.x22 := rfl
theorem axpy20_x00 (m : M33 α) (f : α) : (axpy20 m f).x00 = m.x00 := rfl
theorem axpy20_x01 (m : M33 α) (f : α) : (axpy20 m f).x01 = m.x01 := rfl
theorem axpy20_x02 (m : M33 α) (f : α) : (axpy20 m f).x02 = m.x02 := rfl
theorem axpy20_x10 (m : M33 α) (f : α) : (axpy20 m f).x10 = m.x10 := rfl
theorem axpy20_x11 (m : M33 α) (f : α) : (axpy20 m f).x11 = m.x11 := rfl
theorem axpy20_x12 (m : M33 α) (f : α) : (axpy20 m f).x12 = m.x12 := rfl
theorem axpy20_x20 (m : M33 α) (f : α) : (axpy20 m f).x20 = m.x20 - f * m.x00 := rfl
theorem axpy20_x21 (m : M33 α) (f : α) : (axpy20 m f).x21 = m.x21 - f * m.x01 := rfl
theorem axpy20_x22 (m : M33 α) (f : α) : (axpy20 m f).x22 = m.x22 - f * m.x02 := rfl
theorem axpy21_x00 (m : M33 α) (f : α) : (axpy21 m f).x00 = m.x00 := rfl
theorem axpy21_x01 (m : M33 α) (f : α) : (axpy21 m f).x01 = m.x01 := rfl
theorem axpy21_x02 (m : M33 α) (f : α) : (axpy21 m f).x02 = m.x02 := rfl
theorem axpy21_x10 (m : M33 α) (f : α) : (axpy21 m f).x10 = m.x10 := rfl
theorem axpy21_x11 (m : M33 α) (f : α) : (axpy21 m f).x11 = m.x11 := rfl
theorem axpy21_x12 (m : M33 α) (f : α) : (axpy21 m f).x12 = m.x12 := rfl
theorem axpy21_x20 (m : M33 α) (f : α) : (axpy21 m f).x20 = m.x20 - f * m.x10 := rfl
theorem axpy21_x21 (m : M33 α) (f : α) : (axpy21 m f).x21 = m.x21 - f * m.x11 := rfl
theorem axpy21_x22 (m : M33 α) (f : α) : (axpy21 m f).x22 = m.x22 - f * m.x12 := rfl
theorem axpy02_x00 (m : M33 α) (f : α) : (axpy02 m f).x00 = m.x00 - f * m.x20 := rfl
theorem axpy02_x01 (m : M33 α) (f : α) : (axpy02 m f).x01 = m.x01 - f * m.x21 := rfl
theorem axpy02_x02 (m : M33 α) (f : α) : (axpy02 m f).x02 = m.x02 - f * m.x22 := rfl
theorem axpy02_x10 (m : M33 α) (f : α) : (axpy02 m f).x10 = m.x10 := rfl
theorem axpy02_x11 (m : M33 α) (f : α) : (axpy02 m f).x11 = m.x11 := rfl
theorem axpy02_x12 (m : M33 α) (f : α) : (axpy02 m f).x12 = m.x12 := rfl
theorem axpy02_x20 (m : M33 α) (f : α) : (axpy02 m f).x20 = m.x20 := rfl
theorem axpy02_x21 (m : M33 α) (f : α) : (axpy02 m f).x21 = m.x21 := rfl
theorem axpy02_x22 (m : M33 α) (f : α) : (axpy02 m f).x22 = m.x22 := rfl
theorem axpy12_x00 (m : M33 α) (f : α) : (axpy12 m f).x00 = m.x00 := rfl
theorem axpy12_x01 (m : M33 α) (f : α) : (axpy12 m f).x01 = m.x01 := rfl
theorem axpy12_x02 (m : M33 α) (f : α) : (axpy12 m f).x02 = m.x02 := rfl
theorem axpy12_x10 (m : M33 α) (f : α) : (axpy12 m f).x10 = m.x10 - f * m.x20 := rfl
theorem axpy12_x11 (m : M33 α) (f : α) : (axpy12 m f).x11 = m.x11 - f * m.x21 := rfl
theorem axpy12_x12 (m : M33 α) (f : α) : (axpy12 m f).x12 = m.x12 - f * m.x22 := rfl
theorem axpy12_x20 (m : M33 α) (f : α) : (axpy12 m f).x20 = m.x20 := rfl
theorem axpy12_x21 (m : M33 α) (f : α) : (axpy12 m f).x21 = m.x21 := rfl
theorem axpy12_x22 (m : M33 α) (f : α) : (axpy12 m f).x22 = m.x22 := rfl
theorem axpy01_x00 (m : M33 α) (f : α) : (axpy01 m f).x00 = m.x00 - f * m.x10 := rfl
theorem axpy01_x01 (m : M33 α) (f : α) : (axpy01 m f).x01 = m.x01 - f * m.x11 := rfl
theorem axpy01_x02 (m : M33 α) (f : α) : (axpy01 m f).x02 = m.x02 - f * m.x12 := rfl
theorem axpy01_x10 (m : M33 α) (f : α) : (axpy01 m f).x10 = m.x10 := rfl
theorem axpy01_x11 (m : M33 α) (f : α) : (axpy01 m f).x11 = m.x11 := rfl
theorem axpy01_x12 (m : M33 α) (f : α) : (axpy01 m f).x12 = m.x12 := rfl
theorem axpy01_x20 (m : M33 α) (f : α) : (axpy01 m f).x20 = m.x20 := rfl
theorem axpy01_x21 (m : M33 α) (f : α) : (axpy01 m f).x21 = m.x21 := rfl
theorem axpy01_x22 (m : M33 α) (f : α) : (axpy01 m f).x22 = m.x22 := rfl
theorem scale0_x00 (m : M33 α) (f : α) : (scale0 m f).x00 = m.x00 / f := rfl
theorem scale0_x01 (m : M33 α) (f : α) : (scale0 m f).x01 = m.x01 / f := rfl
theorem scale0_x02 (m : M33 α) (f : α) : (scale0 m f).x02 = m.x02 / f := rfl
theorem scale0_x10 (m : M33 α) (f : α) : (scale0 m f).x10 = m.x10 := rfl
theorem scale0_x11 (m : M33 α) (f : α) : (scale0 m f).x11 = m.x11 := rfl
theorem scale0_x12 (m : M33 α) (f : α) : (scale0 m f).x12 = m.x12 := rfl
theorem scale0_x20 (m : M33 α) (f : α) : (scale0 m f).x20 = m.x20 := rfl
theorem scale0_x21 (m : M33 α) (f : α) : (scale0 m f).x21 = m.x21 := rfl
theorem scale0_x22 (m : M33 α) (f : α) : (scale0 m f).x22 = m.x22 := rfl
theorem scale1_x00 (m : M33 α) (f : α) : (scale1 m f).x00 = m.x00 := rfl
theorem scale1_x01 (m : M33 α) (f : α) : (scale1 m f).x01 = m.x01 := rfl
theorem scale1_x02 (m : M33 α) (f : α) : (scale1 m f).x02 = m.x02 := rfl
theorem scale1_x10 (m : M33 α) (f : α) : (scale1 m f).x10 = m.x10 / f := rfl
theorem scale1_x11 (m : M33 α) (f : α) : (scale1 m f).x11 = m.x11 / f := rfl
theorem scale1_x12 (m : M33 α) (f : α) : (scale1 m f).x12 = m.x12 / f := rfl
theorem scale1_x20 (m : M33 α) (f : α) : (scale1 m f).x20 = m.x20 := rfl
theorem scale1_x21 (m : M33 α) (f : α) : (scale1 m f).x21 = m.x21 := rfl
theorem scale1_x22 (m : M33 α) (f : α) : (scale1 m f).x22 = m.x22 := rfl
theorem scale2_x00 (m : M33 α) (f : α) : (scale2 m f).x00 = m.x00 := rfl
theorem scale2_x01 (m : M33 α) (f : α) : (scale2 m f).x01 = m.x01 := rfl
theorem scale2_x02 (m : M33 α) (f : α) : (scale2 m f).x02 = m.x02 := rfl
theorem scale2_x10 (m : M33 α) (f : α) : (scale2 m f).x10 = m.x10 := rfl
theorem scale2_x11 (m : M33 α) (f : α) : (scale2 m f).x11 = m.x11 := rfl
theorem scale2_x12 (m : M33 α) (f : α) : (scale2 m f).x12 = m.x12 := rfl
theorem scale2_x20 (m : M33 α) (f : α) : (scale2 m f).x20 = m.x20 / f := rfl
theorem scale2_x21 (m : M33 α) (f : α) : (scale2 m f).x21 = m.x21 / f := rfl
theorem scale2_x22 (m : M33 α) (f : α) : (scale2 m f).x22 = m.x22 / f := rfl

theorem toGJ_get (m : M33 α) :
    m.toGJ.get 0 0 = m.x00 ∧ m.toGJ.get 0 1 = m.x01 ∧ m.toGJ.get 0 2 = m.x02 ∧ m.toGJ.get 1 0 = m.x10 ∧ m.toGJ.get 1 1 = m.x11 ∧
    m.toGJ.get 1 2 = m.x12 ∧ m.toGJ.get 2 0 = m.x20 ∧ m.toGJ.get 2 1 = m.x21 ∧ m.toGJ.get 2 2 = m.x22 := ⟨rfl, rfl, rfl, rfl, rfl, rfl, rfl, rfl, rfl⟩

/-- lift a pair of explicit matrices to the model's state -/
def up (p : M33 α × M33 α) : Mat 3 α × Mat 3 α := (p.1.toGJ, p.2.toGJ)

/-- eliminate column 0 below row 0 / column 1 below row 1 (straight-line code) -/
def elim0 (st : M33 α × M33 α) : M33 α × M33 α :=
  let f1 := st.2.x10 / st.2.x00
  let st1 : M33 α × M33 α := (axpy10 st.1 f1, axpy10 st.2 f1)
  let f2 := st1.2.x20 / st1.2.x00
  (axpy20 st1.1 f2, axpy20 st1.2 f2)
def elim1 (st : M33 α × M33 α) : M33 α × M33 α :=
  let f := st.2.x21 / st.2.x11
  (axpy21 st.1 f, axpy21 st.2 f)

/-- forward elimination, column 0, on explicit matrices: the statements of `forwardStep` at `n = 3`, `i = 0`, as a decision tree
over the pivot search with straight-line code at the leaves -/
def fwd0 (st : M33 α × M33 α) : Option (M33 α × M33 α) :=
  if absNeg st.2.x00 < absNeg st.2.x10 then
    if absNeg st.2.x10 < absNeg st.2.x20 then
      if absNeg st.2.x20 = 0 then none else some (elim0 (swap02 st.1, swap02 st.2))
    else
      if absNeg st.2.x10 = 0 then none else some (elim0 (swap01 st.1, swap01 st.2))
  else
    if absNeg st.2.x00 < absNeg st.2.x20 then
      if absNeg st.2.x20 = 0 then none else some (elim0 (swap02 st.1, swap02 st.2))
    else
      if absNeg st.2.x00 = 0 then none else some (elim0 st)

macro "st_simp" : tactic => `(tactic| simp only [forwardStep, backwardStep, pivotSearch, rb0, rb1, ra0, ra1, ra2, List.foldl_cons, List.foldl_nil, elimRows, elimRowsB,
    up, (toGJ_get _).1, (toGJ_get _).2.1, (toGJ_get _).2.2.1, (toGJ_get _).2.2.2.1, (toGJ_get _).2.2.2.2.1, (toGJ_get _).2.2.2.2.2.1,
    (toGJ_get _).2.2.2.2.2.2.1, (toGJ_get _).2.2.2.2.2.2.2.1, (toGJ_get _).2.2.2.2.2.2.2.2, beq_iff_eq,
    swap01_toGJ, swap02_toGJ, swap12_toGJ, axpy10_toGJ, axpy20_toGJ, axpy21_toGJ, axpy02_toGJ, axpy12_toGJ, axpy01_toGJ, scale0_toGJ, scale1_toGJ, scale2_toGJ,
    Option.map_some, Option.map_none, if_true, if_false, Fin.isValue, Fin.reduceEq, reduceIte, ite_true, ite_false])


macro "st_close" : tactic => `(tactic| all_goals (first | rfl | (exfalso; simp_all)))

theorem fwd0_eq (st : M33 α × M33 α) : forwardStep (up st) 0 = (fwd0 st).map up := by
  unfold fwd0 elim0
  st_simp
  split_ifs <;> st_simp
  st_close

/-- forward elimination, column 1 -/
def fwd1 (st : M33 α × M33 α) : Option (M33 α × M33 α) :=
  if absNeg st.2.x11 < absNeg st.2.x21 then
    if absNeg st.2.x21 = 0 then none else some (elim1 (swap12 st.1, swap12 st.2))
  else
    if absNeg st.2.x11 = 0 then none else some (elim1 st)

theorem fwd1_eq (st : M33 α × M33 α) : forwardStep (up st) 1 = (fwd1 st).map up := by
  unfold fwd1 elim1
  st_simp
  split_ifs <;> st_simp
  st_close

/-- backward substitution, rows 2, 1, 0 -/
def bwd2 (st : M33 α × M33 α) : Option (M33 α × M33 α) :=
  if st.2.x22 = 0 then none
  else
    let st1 : M33 α × M33 α := (scale2 st.1 st.2.x22, scale2 st.2 st.2.x22)
    let st2 : M33 α × M33 α := (axpy02 st1.1 st1.2.x02, axpy02 st1.2 st1.2.x02)
    some (axpy12 st2.1 st2.2.x12, axpy12 st2.2 st2.2.x12)
def bwd1 (st : M33 α × M33 α) : Option (M33 α × M33 α) :=
  if st.2.x11 = 0 then none
  else
    let st1 : M33 α × M33 α := (scale1 st.1 st.2.x11, scale1 st.2 st.2.x11)
    some (axpy01 st1.1 st1.2.x01, axpy01 st1.2 st1.2.x01)
def bwd0 (st : M33 α × M33 α) : Option (M33 α × M33 α) :=
  if st.2.x00 = 0 then none else some (scale0 st.1 st.2.x00, scale0 st.2 st.2.x00)

theorem bwd2_eq (st : M33 α × M33 α) : backwardStep (up st) 2 = (bwd2 st).map up := by
  unfold bwd2
  st_simp
  split_ifs <;> st_simp
  st_close
theorem bwd1_eq (st : M33 α × M33 α) : backwardStep (up st) 1 = (bwd1 st).map up := by
  unfold bwd1
  st_simp
  split_ifs <;> st_simp
  st_close
theorem bwd0_eq (st : M33 α × M33 α) : backwardStep (up st) 0 = (bwd0 st).map up := by
  unfold bwd0
  st_simp
  split_ifs <;> st_simp
  st_close

/-- the whole algorithm on explicit matrices -/
def run3 (a : M33 α) : Option (M33 α × M33 α) :=
  ((((fwd0 (M33.identity, a)).bind fwd1).bind bwd2).bind bwd1).bind bwd0

theorem up_init (a : M33 α) : ((Mat.identity : Mat 3 α), a.toGJ) = up (M33.identity, a) := by
  simp only [up, identity_eq]; rfl

theorem gjRun_eq (a : M33 α) : gjRun a.toGJ = (run3 a).map up := by
  unfold gjRun run3
  rw [fwd3, bwd3, up_init]
  simp only [List.foldlM_cons, List.foldlM_nil, fwd0_eq]
  cases fwd0 (M33.identity, a) with
  | none => rfl
  | some s1 =>
    simp only [Option.map_some, Option.bind_some, Option.bind_eq_bind, fwd1_eq, bind_pure]
    cases fwd1 s1 with
    | none => rfl
    | some s2 =>
      simp only [Option.map_some, Option.bind_some, Option.bind_eq_bind, bwd2_eq]
      cases bwd2 s2 with
      | none => rfl
      | some s3 =>
        simp only [Option.map_some, Option.bind_some, Option.bind_eq_bind, bwd1_eq]
        cases bwd1 s3 with
        | none => rfl
        | some s4 =>
          simp only [Option.map_some, Option.bind_some, Option.bind_eq_bind, bwd0_eq, bind_pure]

theorem ofGJ_toGJ (m : M33 α) : M33.ofGJ m.toGJ = m := rfl

/-- the model at `n = 3` is `run3` -/
theorem gjInverseExc_eq (a : M33 α) :
    M33.gjInverseExc a = match run3 a with | some p => .ok p.1 | none => .error Exc.invalidArgument := by
  unfold M33.gjInverseExc gjCore
  rw [gjRun_eq]
  cases run3 a with
  | none => rfl
  | some p => rfl
theorem gjInverse_eq (a : M33 α) :
    M33.gjInverse a = match run3 a with | some p => p.1 | none => M33.identity := by
  unfold M33.gjInverse gjCore
  rw [gjRun_eq]
  cases run3 a with
  | none => rfl
  | some p => rfl


/-- result of the explicit run as the checked form's result -/
def toExc (o : Option (M33 α × M33 α)) : Except Exc (M33 α) := match o with | some p => .ok p.1 | none => .error Exc.invalidArgument
theorem toExc_none : toExc (none : Option (M33 α × M33 α)) = .error Exc.invalidArgument := rfl
theorem toExc_some (p : M33 α × M33 α) : toExc (some p) = .ok p.1 := rfl

open Lean Elab Tactic Meta in
/-- case split on the condition of the first `if` of the goal whose condition contains no `if` itself -/
elab "ite_cases" : tactic => do
  let g ← getMainGoal
  let t ← instantiateMVars (← g.getType)
  let hasIte (e : Expr) : Bool := (e.find? fun s => s.isAppOf ``ite).isSome
  let some e := t.find? (fun s => s.isAppOfArity ``ite 5 && !(hasIte (s.getArg! 1)) && !(s.getArg! 1).hasLooseBVars)
    | throwError "no if-then-else left"
  let c := e.getArg! 1
  let (p, n) ← g.byCases c
  replaceMainGoal [p.mvarId, n.mvarId]

syntax "gsplit" : tactic
macro_rules
  | `(tactic| gsplit) => `(tactic| first
      | (ite_cases <;> (try simp (config := {maxSteps := 100000000}) only [*, if_true, if_false, ite_true, ite_false, reduceIte, absNeg, fwd0, fwd1, bwd2, bwd1, bwd0, elim0, elim1,
            swap01_x00, swap01_x01, swap01_x02, swap01_x10, swap01_x11, swap01_x12, swap01_x20, swap01_x21, swap01_x22, swap02_x00, swap02_x01, swap02_x02, swap02_x10, swap02_x11, swap02_x12, swap02_x20, swap02_x21, swap02_x22, swap12_x00, swap12_x01, swap12_x02, swap12_x10, swap12_x11, swap12_x12, swap12_x20, swap12_x21, swap12_x22,
            axpy10_x00, axpy10_x01, axpy10_x02, axpy10_x10, axpy10_x11, axpy10_x12, axpy10_x20, axpy10_x21, axpy10_x22, axpy20_x00, axpy20_x01, axpy20_x02, axpy20_x10, axpy20_x11, axpy20_x12, axpy20_x20, axpy20_x21, axpy20_x22, axpy21_x00, axpy21_x01, axpy21_x02, axpy21_x10, axpy21_x11, axpy21_x12, axpy21_x20, axpy21_x21, axpy21_x22, axpy02_x00, axpy02_x01, axpy02_x02, axpy02_x10, axpy02_x11, axpy02_x12, axpy02_x20, axpy02_x21, axpy02_x22, axpy12_x00, axpy12_x01, axpy12_x02, axpy12_x10, axpy12_x11, axpy12_x12, axpy12_x20, axpy12_x21, axpy12_x22, axpy01_x00, axpy01_x01, axpy01_x02, axpy01_x10, axpy01_x11, axpy01_x12, axpy01_x20, axpy01_x21, axpy01_x22,
            scale0_x00, scale0_x01, scale0_x02, scale0_x10, scale0_x11, scale0_x12, scale0_x20, scale0_x21, scale0_x22, scale1_x00, scale1_x01, scale1_x02, scale1_x10, scale1_x11, scale1_x12, scale1_x20, scale1_x21, scale1_x22, scale2_x00, scale2_x01, scale2_x02, scale2_x10, scale2_x11, scale2_x12, scale2_x20, scale2_x21, scale2_x22,
            Option.bind_some, Option.bind_none, toExc_none, toExc_some, not_true_eq_false, not_false_eq_true]) <;> gsplit)
      | rfl
      | contradiction)

set_option maxRecDepth 8000 in
set_option maxHeartbeats 400000000 in
theorem gen_eq_run3 (a : M33 α) : Gen.C07.M33.gjInverseT a = toExc (run3 a) := by
  simp (config := {maxSteps := 100000000}) only [run3, M33.identity]
  simp (config := {maxSteps := 100000000}) only [Gen.C07.M33.gjInverseT]
  simp (config := {maxSteps := 100000000}) only [*, if_true, if_false, ite_true, ite_false, reduceIte, absNeg, fwd0, fwd1, bwd2, bwd1, bwd0, elim0, elim1,
            swap01_x00, swap01_x01, swap01_x02, swap01_x10, swap01_x11, swap01_x12, swap01_x20, swap01_x21, swap01_x22, swap02_x00, swap02_x01, swap02_x02, swap02_x10, swap02_x11, swap02_x12, swap02_x20, swap02_x21, swap02_x22, swap12_x00, swap12_x01, swap12_x02, swap12_x10, swap12_x11, swap12_x12, swap12_x20, swap12_x21, swap12_x22,
            axpy10_x00, axpy10_x01, axpy10_x02, axpy10_x10, axpy10_x11, axpy10_x12, axpy10_x20, axpy10_x21, axpy10_x22, axpy20_x00, axpy20_x01, axpy20_x02, axpy20_x10, axpy20_x11, axpy20_x12, axpy20_x20, axpy20_x21, axpy20_x22, axpy21_x00, axpy21_x01, axpy21_x02, axpy21_x10, axpy21_x11, axpy21_x12, axpy21_x20, axpy21_x21, axpy21_x22, axpy02_x00, axpy02_x01, axpy02_x02, axpy02_x10, axpy02_x11, axpy02_x12, axpy02_x20, axpy02_x21, axpy02_x22, axpy12_x00, axpy12_x01, axpy12_x02, axpy12_x10, axpy12_x11, axpy12_x12, axpy12_x20, axpy12_x21, axpy12_x22, axpy01_x00, axpy01_x01, axpy01_x02, axpy01_x10, axpy01_x11, axpy01_x12, axpy01_x20, axpy01_x21, axpy01_x22,
            scale0_x00, scale0_x01, scale0_x02, scale0_x10, scale0_x11, scale0_x12, scale0_x20, scale0_x21, scale0_x22, scale1_x00, scale1_x01, scale1_x02, scale1_x10, scale1_x11, scale1_x12, scale1_x20, scale1_x21, scale1_x22, scale2_x00, scale2_x01, scale2_x02, scale2_x10, scale2_x11, scale2_x12, scale2_x20, scale2_x21, scale2_x22,
            Option.bind_some, Option.bind_none, toExc_none, toExc_some, not_true_eq_false, not_false_eq_true]
  gsplit

/-- the extracted checked form is the model's checked form -/
theorem M33_gjInverseT_eq_model (a : M33 α) : Gen.C07.M33.gjInverseT a = M33.gjInverseExc a := by
  rw [gen_eq_run3, gjInverseExc_eq]
  cases run3 a <;> rfl
end link

end ImathVerif.C07GJLink
