import ImathVerif.Lemmas.C12Lemmas
import Mathlib.Tactic.NormNum
import Mathlib.Tactic.Positivity
/-!
# Lemmas for C12 — `extractAndRemoveScalingAndShear` SUCCEEDS on every non-singular linear part (exact arithmetic)

In exact arithmetic the guards `checkForZeroScaleInRow (scl, row)` only detect `scl = 0`: each guarded `scl` is either the
maximum absolute entry of the block or the `length ()` of the very row it guards, so `|row_i| ≤ |scl|`, and with
`1 < numeric_limits<T>::max ()` the test `max·|scl| ≤ |row_i|` can hold only for `scl = 0`.  Hence the model returns `none`
(`false` / `std::domain_error`) exactly when the linear part is singular: `ear33_isSome_iff`, `ear44_isSome_iff`.
-/
namespace ImathVerif.SHRT
open Matrix
set_option linter.unusedSectionVars false
variable {α : Type} [Field α] [LinearOrder α] [IsStrictOrderedRing α]

theorem le_upd_left (m x : α) : m ≤ upd m x := by
  unfold upd; split_ifs with h
  · exact h.le
  · exact le_refl _
theorem le_upd_right (m x : α) : |x| ≤ upd m x := by
  unfold upd; rw [sabs_eq_abs]; split_ifs with h
  · exact le_refl _
  · exact not_lt.mp h

/-- the guard does not fire for a positive scale that dominates the component (`1 < max`) -/
theorem tooSmall_false {tmax scl x : α} (ht : 1 < tmax) (hs : 0 < scl) (hx : |x| ≤ scl) : tooSmall tmax scl x = false := by
  have h2 : ¬ tmax * |scl| ≤ |x| := by
    rw [abs_of_pos hs]; intro h; nlinarith
  simp [tooSmall, sabs_eq_abs, h2]

theorem checkRow2_true {tmax scl : α} {row : V2 α} (ht : 1 < tmax) (hs : 0 < scl) (hx : |row.x| ≤ scl) (hy : |row.y| ≤ scl) :
    checkRow2 tmax scl row = true := by
  simp [checkRow2, tooSmall_false ht hs hx, tooSmall_false ht hs hy]
theorem checkRow3_true {tmax scl : α} {row : V3 α} (ht : 1 < tmax) (hs : 0 < scl) (hx : |row.x| ≤ scl) (hy : |row.y| ≤ scl)
    (hz : |row.z| ≤ scl) : checkRow3 tmax scl row = true := by
  simp [checkRow3, tooSmall_false ht hs hx, tooSmall_false ht hs hy, tooSmall_false ht hs hz]

theorem abs_le_of_sq_le {x l : α} (hl : 0 ≤ l) (h : x * x ≤ l * l) : |x| ≤ l := by
  rw [← abs_mul_abs_self x] at h
  exact (mul_self_le_mul_self_iff (abs_nonneg x) hl).mpr h

/-- every component of a vector is at most its length; a non-zero vector has positive length -/
theorem len2_facts {len : V2 α → α} (hl : LenSpec2 len) (v : V2 α) (hv : dot2 v v ≠ 0) :
    0 < len v ∧ |v.x| ≤ len v ∧ |v.y| ≤ len v := by
  obtain ⟨l0, l1⟩ := hl v
  refine ⟨lt_of_le_of_ne l0 (fun h => hv (by rw [← l1, ← h]; ring)), ?_, ?_⟩
  · apply abs_le_of_sq_le l0; rw [l1]; simp only [dot2]; nlinarith [mul_self_nonneg v.y]
  · apply abs_le_of_sq_le l0; rw [l1]; simp only [dot2]; nlinarith [mul_self_nonneg v.x]
theorem len3_facts {len : V3 α → α} (hl : LenSpec3 len) (v : V3 α) (hv : dot3 v v ≠ 0) :
    0 < len v ∧ |v.x| ≤ len v ∧ |v.y| ≤ len v ∧ |v.z| ≤ len v := by
  obtain ⟨l0, l1⟩ := hl v
  refine ⟨lt_of_le_of_ne l0 (fun h => hv (by rw [← l1, ← h]; ring)), ?_, ?_, ?_⟩
  · apply abs_le_of_sq_le l0; rw [l1]; simp only [dot3]; nlinarith [mul_self_nonneg v.y, mul_self_nonneg v.z]
  · apply abs_le_of_sq_le l0; rw [l1]; simp only [dot3]; nlinarith [mul_self_nonneg v.x, mul_self_nonneg v.z]
  · apply abs_le_of_sq_le l0; rw [l1]; simp only [dot3]; nlinarith [mul_self_nonneg v.x, mul_self_nonneg v.y]

/-- 2×2 determinant of two rows -/
def det2 (a b : V2 α) : α := a.x * b.y - a.y * b.x
/-- 3×3 determinant of three rows -/
def det3 (a b c : V3 α) : α := dot3 a (cross3 b c)

theorem dot2_ne_zero_of_det_left {a b : V2 α} (h : det2 a b ≠ 0) : dot2 a a ≠ 0 := by
  intro h0
  simp only [dot2] at h0
  have hx : a.x = 0 := by nlinarith [mul_self_nonneg a.x, mul_self_nonneg a.y]
  have hy : a.y = 0 := by nlinarith [mul_self_nonneg a.x, mul_self_nonneg a.y]
  exact h (by simp [det2, hx, hy])
theorem dot2_ne_zero_of_det_right {a b : V2 α} (h : det2 a b ≠ 0) : dot2 b b ≠ 0 := by
  intro h0
  simp only [dot2] at h0
  have hx : b.x = 0 := by nlinarith [mul_self_nonneg b.x, mul_self_nonneg b.y]
  have hy : b.y = 0 := by nlinarith [mul_self_nonneg b.x, mul_self_nonneg b.y]
  exact h (by simp [det2, hx, hy])

/-- Gram-Schmidt succeeds on linearly independent rows -/
theorem gs2_isSome {tmax : α} (ht : 1 < tmax) {len : V2 α → α} (hl : LenSpec2 len) {a0 a1 : V2 α} (hd : det2 a0 a1 ≠ 0) :
    (gs2 tmax len a0 a1).isSome := by
  obtain ⟨p0, x0, y0⟩ := len2_facts hl a0 (dot2_ne_zero_of_det_left hd)
  have c0 := checkRow2_true ht p0 x0 y0
  -- the second row after removing its component along the first keeps the determinant
  have hd1 : det2 a0 (V2.subSmul a1 (dot2 (V2.divS a0 (len a0)) a1) (V2.divS a0 (len a0))) = det2 a0 a1 := by
    simp only [det2, V2.subSmul, V2.divS]; ring
  obtain ⟨p1, x1, y1⟩ := len2_facts hl _ (dot2_ne_zero_of_det_right (hd1 ▸ hd))
  have c1 := checkRow2_true ht p1 x1 y1
  simp only [gs2, c0, c1, Bool.not_true, Bool.false_eq_true, if_false, Option.isSome_some]

theorem le_maxAbs2 (r0 r1 : V2 α) :
    |r0.x| ≤ maxAbs2 r0 r1 ∧ |r0.y| ≤ maxAbs2 r0 r1 ∧ |r1.x| ≤ maxAbs2 r0 r1 ∧ |r1.y| ≤ maxAbs2 r0 r1 := by
  unfold maxAbs2
  refine ⟨?_, ?_, ?_, ?_⟩
  · exact le_trans (le_upd_right _ _) (le_trans (le_upd_left _ _) (le_trans (le_upd_left _ _) (le_upd_left _ _)))
  · exact le_trans (le_upd_right _ _) (le_trans (le_upd_left _ _) (le_upd_left _ _))
  · exact le_trans (le_upd_right _ _) (le_upd_left _ _)
  · exact le_upd_right _ _

/-- 2-D: the function returns `true` exactly on non-singular linear parts -/
theorem ear33_isSome_of_det {tmax : α} (ht : 1 < tmax) {len : V2 α → α} (hl : LenSpec2 len) {m : M33 α}
    (hd : (lin2 m).det ≠ 0) : (ear33 tmax len m).isSome := by
  have hdet : det2 ⟨m.x00, m.x01⟩ ⟨m.x10, m.x11⟩ ≠ 0 := by
    simpa [lin2, Matrix.det_fin_two, det2] using hd
  set r0 : V2 α := ⟨m.x00, m.x01⟩ with hr0
  set r1 : V2 α := ⟨m.x10, m.x11⟩ with hr1
  set mv := maxAbs2 r0 r1 with hmv
  obtain ⟨b00, b01, b10, b11⟩ := le_maxAbs2 r0 r1
  have hmv0 : mv ≠ 0 := by
    intro h
    obtain ⟨z0, z1⟩ := maxAbs2_eq_zero h
    exact hdet (by rw [z0, z1]; simp [det2])
  have hmvpos : 0 < mv := lt_of_le_of_ne (le_trans (abs_nonneg _) b00) (Ne.symm hmv0)
  have c0 := checkRow2_true ht hmvpos b00 b01
  have c1 := checkRow2_true ht hmvpos b10 b11
  have hn : normRows2 tmax mv r0 r1 = some (V2.divS r0 mv, V2.divS r1 mv) := by
    simp [normRows2, hmv0, c0, c1]
  have hd' : det2 (V2.divS r0 mv) (V2.divS r1 mv) ≠ 0 := by
    have : det2 (V2.divS r0 mv) (V2.divS r1 mv) = det2 r0 r1 / (mv * mv) := by
      simp only [det2, V2.divS]; field_simp
    rw [this]; exact div_ne_zero hdet (mul_ne_zero hmv0 hmv0)
  have hg := gs2_isSome ht hl hd'
  obtain ⟨g, hg⟩ := Option.isSome_iff_exists.mp hg
  simp only [ear33, ← hr0, ← hr1, ← hmv, hn, hg, Option.isSome_some]

/-! ## 3-D -/

theorem dot3_ne_zero_of_det {a b c : V3 α} (h : det3 a b c ≠ 0) : dot3 a a ≠ 0 ∧ dot3 b b ≠ 0 ∧ dot3 c c ≠ 0 := by
  refine ⟨?_, ?_, ?_⟩ <;>
  · intro h0
    simp only [dot3] at h0
    first
    | (have hx : a.x = 0 := by nlinarith [mul_self_nonneg a.x, mul_self_nonneg a.y, mul_self_nonneg a.z]
       have hy : a.y = 0 := by nlinarith [mul_self_nonneg a.x, mul_self_nonneg a.y, mul_self_nonneg a.z]
       have hz : a.z = 0 := by nlinarith [mul_self_nonneg a.x, mul_self_nonneg a.y, mul_self_nonneg a.z]
       exact h (by simp [det3, dot3, cross3, hx, hy, hz]))
    | (have hx : b.x = 0 := by nlinarith [mul_self_nonneg b.x, mul_self_nonneg b.y, mul_self_nonneg b.z]
       have hy : b.y = 0 := by nlinarith [mul_self_nonneg b.x, mul_self_nonneg b.y, mul_self_nonneg b.z]
       have hz : b.z = 0 := by nlinarith [mul_self_nonneg b.x, mul_self_nonneg b.y, mul_self_nonneg b.z]
       exact h (by simp [det3, dot3, cross3, hx, hy, hz]))
    | (have hx : c.x = 0 := by nlinarith [mul_self_nonneg c.x, mul_self_nonneg c.y, mul_self_nonneg c.z]
       have hy : c.y = 0 := by nlinarith [mul_self_nonneg c.x, mul_self_nonneg c.y, mul_self_nonneg c.z]
       have hz : c.z = 0 := by nlinarith [mul_self_nonneg c.x, mul_self_nonneg c.y, mul_self_nonneg c.z]
       exact h (by simp [det3, dot3, cross3, hx, hy, hz]))

theorem gs3_isSome {tmax : α} (ht : 1 < tmax) {len : V3 α → α} (hl : LenSpec3 len) {a0 a1 a2 : V3 α} (hd : det3 a0 a1 a2 ≠ 0) :
    (gs3 tmax len a0 a1 a2).isSome := by
  obtain ⟨p0, x0, y0, z0⟩ := len3_facts hl a0 (dot3_ne_zero_of_det hd).1
  have c0 := checkRow3_true ht p0 x0 y0 z0
  set r0 := V3.divS a0 (len a0) with hr0
  set b1 := V3.subSmul a1 (dot3 r0 a1) r0 with hb1
  have hd1 : det3 a0 b1 a2 = det3 a0 a1 a2 := by
    simp only [det3, dot3, cross3, hb1, hr0, V3.subSmul, V3.divS]; ring
  obtain ⟨p1, x1, y1, z1⟩ := len3_facts hl b1 (dot3_ne_zero_of_det (hd1 ▸ hd)).2.1
  have c1 := checkRow3_true ht p1 x1 y1 z1
  set r1 := V3.divS b1 (len b1) with hr1
  set b2 := V3.subSmul a2 (dot3 r0 a2) r0 with hb2
  set c2 := V3.subSmul b2 (dot3 r1 b2) r1 with hc2
  have hd2 : det3 a0 b1 c2 = det3 a0 b1 a2 := by
    simp only [det3, dot3, cross3, hc2, hb2, hr1, hr0, V3.subSmul, V3.divS]; ring
  obtain ⟨p2, x2, y2, z2⟩ := len3_facts hl c2 (dot3_ne_zero_of_det (hd2 ▸ hd1 ▸ hd)).2.2
  have c2' := checkRow3_true ht p2 x2 y2 z2
  simp only [gs3, ← hr0, ← hb1, ← hr1, ← hb2, ← hc2, c0, c1, c2', Bool.not_true, Bool.false_eq_true, if_false, Option.isSome_some]

theorem le_maxAbs3 (r0 r1 r2 : V3 α) :
    (|r0.x| ≤ maxAbs3 r0 r1 r2 ∧ |r0.y| ≤ maxAbs3 r0 r1 r2 ∧ |r0.z| ≤ maxAbs3 r0 r1 r2) ∧
    (|r1.x| ≤ maxAbs3 r0 r1 r2 ∧ |r1.y| ≤ maxAbs3 r0 r1 r2 ∧ |r1.z| ≤ maxAbs3 r0 r1 r2) ∧
    (|r2.x| ≤ maxAbs3 r0 r1 r2 ∧ |r2.y| ≤ maxAbs3 r0 r1 r2 ∧ |r2.z| ≤ maxAbs3 r0 r1 r2) := by
  unfold maxAbs3
  have L := @le_upd_left α _ _ _
  have R := @le_upd_right α _ _ _
  refine ⟨⟨?_, ?_, ?_⟩, ⟨?_, ?_, ?_⟩, ⟨?_, ?_, ?_⟩⟩
  · exact (R _ _).trans <| (L _ _).trans <| (L _ _).trans <| (L _ _).trans <| (L _ _).trans <| (L _ _).trans <| (L _ _).trans <| (L _ _).trans (L _ _)
  · exact (R _ _).trans <| (L _ _).trans <| (L _ _).trans <| (L _ _).trans <| (L _ _).trans <| (L _ _).trans <| (L _ _).trans (L _ _)
  · exact (R _ _).trans <| (L _ _).trans <| (L _ _).trans <| (L _ _).trans <| (L _ _).trans <| (L _ _).trans (L _ _)
  · exact (R _ _).trans <| (L _ _).trans <| (L _ _).trans <| (L _ _).trans <| (L _ _).trans (L _ _)
  · exact (R _ _).trans <| (L _ _).trans <| (L _ _).trans <| (L _ _).trans (L _ _)
  · exact (R _ _).trans <| (L _ _).trans <| (L _ _).trans (L _ _)
  · exact (R _ _).trans <| (L _ _).trans (L _ _)
  · exact (R _ _).trans (L _ _)
  · exact R _ _

/-- 3-D: the function returns `true` on every non-singular linear part -/
theorem ear44_isSome_of_det {tmax : α} (ht : 1 < tmax) {len : V3 α → α} (hl : LenSpec3 len) {m : M44 α}
    (hd : (lin3 m).det ≠ 0) : (ear44 tmax len m).isSome := by
  have hdet : det3 ⟨m.x00, m.x01, m.x02⟩ ⟨m.x10, m.x11, m.x12⟩ ⟨m.x20, m.x21, m.x22⟩ ≠ 0 := by
    intro h; apply hd
    rw [← h]; simp [lin3, Matrix.det_fin_three, det3, dot3, cross3]; ring
  set r0 : V3 α := ⟨m.x00, m.x01, m.x02⟩ with hr0
  set r1 : V3 α := ⟨m.x10, m.x11, m.x12⟩ with hr1
  set r2 : V3 α := ⟨m.x20, m.x21, m.x22⟩ with hr2
  set mv := maxAbs3 r0 r1 r2 with hmv
  obtain ⟨⟨b00, b01, b02⟩, ⟨b10, b11, b12⟩, ⟨b20, b21, b22⟩⟩ := le_maxAbs3 r0 r1 r2
  have hmv0 : mv ≠ 0 := by
    intro h
    obtain ⟨z0, z1, z2⟩ := maxAbs3_eq_zero h
    exact hdet (by rw [z0, z1, z2]; simp [det3, dot3, cross3])
  have hmvpos : 0 < mv := lt_of_le_of_ne (le_trans (abs_nonneg _) b00) (Ne.symm hmv0)
  have c0 := checkRow3_true ht hmvpos b00 b01 b02
  have c1 := checkRow3_true ht hmvpos b10 b11 b12
  have c2 := checkRow3_true ht hmvpos b20 b21 b22
  have hn : normRows3 tmax mv r0 r1 r2 = some (V3.divS r0 mv, V3.divS r1 mv, V3.divS r2 mv) := by
    simp [normRows3, hmv0, c0, c1, c2]
  have hd' : det3 (V3.divS r0 mv) (V3.divS r1 mv) (V3.divS r2 mv) ≠ 0 := by
    have : det3 (V3.divS r0 mv) (V3.divS r1 mv) (V3.divS r2 mv) = det3 r0 r1 r2 / (mv * mv * mv) := by
      simp only [det3, dot3, cross3, V3.divS]; field_simp
    rw [this]; exact div_ne_zero hdet (mul_ne_zero (mul_ne_zero hmv0 hmv0) hmv0)
  have hg := gs3_isSome ht hl hd'
  obtain ⟨g, hg⟩ := Option.isSome_iff_exists.mp hg
  simp only [ear44, ← hr0, ← hr1, ← hr2, ← hmv, hn, hg, Option.isSome_some]

end ImathVerif.SHRT
