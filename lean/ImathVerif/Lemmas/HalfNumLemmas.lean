import ImathVerif.Props.C03Preds
import ImathVerif.Enum.C03.All
import ImathVerif.Model.HalfFunction
/-!
Helper lemmas for Props/C03.lean: structural facts about the classification
predicates, the `halfFunction` table loop, and the bridge between the literal
model of the C++ domain test (`float(a) < float(b)` on `h2f` bit patterns) and
the order of the denoted values.
-/
namespace ImathVerif.Half
open ImathVerif ImathVerif.Enum.C03

theorem not_nan_of_inf (h : Nat) (hi : isInfinity h = true) : isNan h = false := by
  unfold isInfinity at hi
  unfold isNan
  cases h1 : (exponent h == 31) <;> cases h2 : (mantissa h == 0) <;> simp_all

theorem not_inf_nan_of_finite (h : Nat) (hf : isFinite h = true) : isNan h = false ∧ isInfinity h = false := by
  unfold isFinite at hf
  unfold isNan isInfinity
  have : exponent h < 31 := by simpa using hf
  have h1 : (exponent h == 31) = false := by
    cases h1 : (exponent h == 31)
    · rfl
    · have : exponent h = 31 := by simpa using h1
      omega
  simp [h1]

theorem finite_of_not_inf_nan (h : Nat) (hi : isInfinity h = false) (hn : isNan h = false) : isFinite h = true := by
  unfold isInfinity at hi
  unfold isNan at hn
  unfold isFinite
  have hle : exponent h ≤ 31 := by
    unfold exponent
    have : (h >>> 10) &&& 0x1f = (h >>> 10) % 32 := Nat.and_two_pow_sub_one_eq_mod (h >>> 10) 5
    omega
  cases h1 : (exponent h == 31)
  · have : exponent h ≠ 31 := by simpa using h1
    have : exponent h < 31 := by omega
    simpa using this
  · cases h2 : (mantissa h == 0) <;> simp_all

/-- the private accessors as arithmetic: `exponent()` is bits 10-14, `mantissa()` bits 0-9 -/
theorem exponent_eq (x : Nat) : exponent x = x / 1024 % 32 := by
  unfold exponent
  rw [Nat.shiftRight_eq_div_pow]
  exact Nat.and_two_pow_sub_one_eq_mod (x / 2 ^ 10) 5

theorem mantissa_eq (x : Nat) : mantissa x = x % 1024 := by
  unfold mantissa
  exact Nat.and_two_pow_sub_one_eq_mod x 10

end ImathVerif.Half

namespace ImathVerif.HalfFunction
open ImathVerif ImathVerif.Half ImathVerif.Enum.C03

/-! ### the constructor loop -/

theorem fillLoop_size {T : Type} (p : Params T) : ∀ (k : Nat) (lut : Array T),
    (fillLoop p k lut).size = lut.size + k := by
  intro k
  induction k with
  | zero => intro lut; rfl
  | succ k ih =>
    intro lut
    simp only [fillLoop]
    rw [ih, Array.size_push]; omega

theorem fillLoop_get {T : Type} (p : Params T) : ∀ (k : Nat) (lut : Array T) (i : Nat)
    (hi : i < (fillLoop p k lut).size),
    (fillLoop p k lut)[i] = if h : i < lut.size then lut[i] else entry p i := by
  intro k
  induction k with
  | zero =>
    intro lut i hi
    have : i < lut.size := hi
    simp [fillLoop, this]
  | succ k ih =>
    intro lut i hi
    simp only [fillLoop] at hi ⊢
    rw [ih (lut.push (entry p lut.size)) i hi]
    by_cases h1 : i < lut.size
    · have h2 : i < (lut.push (entry p lut.size)).size := by rw [Array.size_push]; omega
      rw [dif_pos h2, dif_pos h1, Array.getElem_push, dif_pos h1]
    · by_cases h3 : i = lut.size
      · have h2 : i < (lut.push (entry p lut.size)).size := by rw [Array.size_push]; omega
        rw [dif_pos h2, dif_neg h1, Array.getElem_push, dif_neg h1, h3]
      · have h2 : ¬ i < (lut.push (entry p lut.size)).size := by rw [Array.size_push]; omega
        rw [dif_neg h2, dif_neg h1]

theorem lut_size {T : Type} (p : Params T) : (lutFill p).size = 65536 := by
  unfold lutFill; rw [fillLoop_size]; simp

theorem lut_get {T : Type} (p : Params T) (h : Nat) (hh : h < 65536) :
    (lutFill p)[h]'(by have := lut_size p; omega) = entry p h := by
  unfold lutFill
  rw [fillLoop_get]
  exact dif_neg (by simp)

attribute [local irreducible] lutFill in
theorem apply_eq {T : Type} [Inhabited T] (p : Params T) (h : Nat) (hh : h < 65536) :
    apply p h = entry p h := by
  unfold apply
  have hs : h < (lutFill p).size := by have := lut_size p; omega
  exact (getElem!_pos (lutFill p) h hs).trans (lut_get p h hh)

/-! ### `float(a) < float(b)` is the order of the values -/

theorem strictMono_of_step (g : Nat → Nat) (N : Nat) (hs : ∀ m, m < N → g m < g (m + 1)) :
    ∀ b a, a < b → b ≤ N → g a < g b := by
  intro b
  induction b with
  | zero => intro a hab; omega
  | succ b ih =>
    intro a hab hb
    by_cases h : a = b
    · subst h; exact hs a (by omega)
    · have h1 := ih a (by omega) (by omega)
      have h2 := hs b (by omega)
      omega

theorem lt_iff_of_strictMono (g : Nat → Nat) (N : Nat) (hm : ∀ b a, a < b → b ≤ N → g a < g b)
    (a b : Nat) (ha : a ≤ N) (hb : b ≤ N) : g a < g b ↔ a < b := by
  constructor
  · intro h
    by_cases h1 : a < b
    · exact h1
    · by_cases h2 : a = b
      · subst h2; omega
      · have := hm a b (by omega) ha; omega
  · intro h; exact hm b a h hb

theorem step_facts (m : Nat) (hm : m < 32768) :
    (m < 0x7fff → hval m < hval (m + 1) ∧ h2f m < h2f (m + 1)) ∧ h2f m < 2147483648 := by
  have hs : StepSpec m := of_decide_eq_true (p_step_all m (by omega))
  have e : mag m = m := by unfold mag; omega
  unfold StepSpec at hs
  rw [e] at hs
  exact ⟨hs.1, hs.2.1⟩

theorem hval_mono : ∀ b a, a < b → b ≤ 0x7fff → hval a < hval b :=
  strictMono_of_step hval 0x7fff (fun m hm => ((step_facts m (by omega)).1 hm).1)

theorem h2f_mono : ∀ b a, a < b → b ≤ 0x7fff → h2f a < h2f b :=
  strictMono_of_step h2f 0x7fff (fun m hm => ((step_facts m (by omega)).1 hm).2)

theorem h2f_split (h : Nat) (hh : h < 65536) :
    h2f h = h2f (mag h) + 2147483648 * (h / 32768) ∧ h2f (mag h) < 2147483648 := by
  have hs : StepSpec h := of_decide_eq_true (p_step_all h hh)
  exact ⟨hs.2.2, hs.2.1⟩

theorem f32IsNan_h2f (h : Nat) (hh : h < 65536) : f32IsNan (h2f h) = isNan h := by
  obtain ⟨e, hlt⟩ := h2f_split h hh
  have hc : Class32Spec h := of_decide_eq_true (p_class32_all h hh)
  have hn := hc.2.2.2.2.1
  unfold f32exp f32man at hn
  have hs : h / 32768 = 0 ∨ h / 32768 = 1 := by omega
  unfold f32IsNan
  cases hnan : isNan h
  · have : ¬ ((h2f h / 8388608) % 256 = 255 ∧ h2f h % 8388608 ≠ 0) := by
      intro hcon; have := hn.2 hcon; simp [hnan] at this
    have : ¬ (h2f h % 2147483648 > 0x7f800000) := by omega
    simpa using this
  · have := hn.1 hnan
    have : h2f h % 2147483648 > 0x7f800000 := by omega
    simpa using this

theorem halfLt_iff_value' : ∀ a b, a < 65536 → b < 65536 →
    (isNan a = false → isNan b = false → (halfLt a b = true ↔ sval a < sval b)) ∧
    (isNan a = true ∨ isNan b = true → halfLt a b = false) := by
  intro a b ha hb
  have na := f32IsNan_h2f a ha
  have nb := f32IsNan_h2f b hb
  constructor
  · intro hna hnb
    obtain ⟨ea, la⟩ := h2f_split a ha
    obtain ⟨eb, lb⟩ := h2f_split b hb
    have hma : mag a ≤ 0x7fff := by unfold mag; omega
    have hmb : mag b ≤ 0x7fff := by unfold mag; omega
    have i1 := lt_iff_of_strictMono hval 0x7fff hval_mono (mag a) (mag b) hma hmb
    have i2 := lt_iff_of_strictMono hval 0x7fff hval_mono (mag b) (mag a) hmb hma
    have j1 := lt_iff_of_strictMono h2f 0x7fff h2f_mono (mag a) (mag b) hma hmb
    have j2 := lt_iff_of_strictMono h2f 0x7fff h2f_mono (mag b) (mag a) hmb hma
    -- zero magnitudes: both scales vanish exactly at mag = 0
    have z1 : hval 0 = 0 := by decide
    have z2 : h2f 0 = 0 := by decide
    have za1 := lt_iff_of_strictMono hval 0x7fff hval_mono 0 (mag a) (by omega) hma
    have za2 := lt_iff_of_strictMono h2f 0x7fff h2f_mono 0 (mag a) (by omega) hma
    have zb1 := lt_iff_of_strictMono hval 0x7fff hval_mono 0 (mag b) (by omega) hmb
    have zb2 := lt_iff_of_strictMono h2f 0x7fff h2f_mono 0 (mag b) (by omega) hmb
    rw [z1] at za1 zb1
    rw [z2] at za2 zb2
    unfold halfLt f32Lt
    rw [na, nb, hna, hnb]
    simp only [Bool.not_false, Bool.true_and, decide_eq_true_eq]
    unfold f32Key sval
    split <;> split <;> split <;> split <;> omega
  · intro hn
    unfold halfLt f32Lt
    rw [na, nb]
    rcases hn with hn | hn <;> simp [hn]

end ImathVerif.HalfFunction
