import ImathVerif.Spec.BoxSpec
import Mathlib.Tactic.Order
import Mathlib.Tactic.SplitIfs
import Mathlib.Tactic.Tauto
import Mathlib.Order.MinMax
import Mathlib.Logic.Basic
/-!
# Helper lemmas for C13 (Box / Interval as point sets)

Shape-independent facts (bridges `smin/smax/sclamp` ↔ `min/max`, Bool `if`-chains,
per-axis interval facts) and the tactics used by `Props/C13.lean`.
-/
namespace ImathVerif.C13
open ImathVerif
variable {α : Type}

/-! ## tactics -/

/-- split one condition and reduce every `if` on it (keeps big extracted trees tractable:
`split_ifs` exceeds simp's step limit on the 256-path generic `extendBy`) -/
macro "casesplit " h:ident " : " c:term : tactic =>
  `(tactic| by_cases $h : $c <;> (try simp (config := {maxSteps := 4000000}) only [$h:ident, if_true, if_false]))

/-- linear-order goals possibly under conjunctions / negated disjunctions -/
macro "bord" : tactic =>
  `(tactic| ((try simp only [not_or, not_and, not_lt, not_le] at *) <;> (repeat' apply And.intro) <;> order))

/-! ## Bool `if` chains emitted by the extractor -/

theorem ite_false_iff {p : Prop} [Decidable p] (x : Bool) :
    ((if p then x else false) = true) ↔ (p ∧ x = true) := by
  by_cases h : p <;> simp [h]
theorem ite_true_iff {p : Prop} [Decidable p] (x : Bool) :
    ((if p then true else x) = true) ↔ (p ∨ x = true) := by
  by_cases h : p <;> simp [h]
theorem ite_false'_iff {p : Prop} [Decidable p] (x : Bool) :
    ((if p then false else x) = true) ↔ (¬ p ∧ x = true) := by
  by_cases h : p <;> simp [h]
theorem ite_true'_iff {p : Prop} [Decidable p] (x : Bool) :
    ((if p then x else true) = true) ↔ (p → x = true) := by
  by_cases h : p <;> simp [h]

/-! ## `std::min`, `std::max`, the clip step -/

section
variable [LinearOrder α]

theorem smin_eq_min (a b : α) : smin a b = min a b := by
  unfold smin; rw [min_def]; split_ifs <;> order
theorem smax_eq_max (a b : α) : smax a b = max a b := by
  unfold smax; rw [max_def]; split_ifs <;> order

/-- `sclamp a l h` (the per-axis step of `clip`) lands in a non-inverted interval -/
theorem sclamp_mem (a l h : α) (hlh : l ≤ h) : l ≤ sclamp a l h ∧ sclamp a l h ≤ h := by
  unfold sclamp; split_ifs <;> bord
theorem sclamp_fixed (a l h : α) (h1 : l ≤ a) (h2 : a ≤ h) : sclamp a l h = a := by
  unfold sclamp; split_ifs <;> first | rfl | (exfalso; order)
/-- the clipped coordinate lies between the point and any coordinate of the interval -/
theorem sclamp_between (a l h q : α) (h1 : l ≤ q) (h2 : q ≤ h) :
    (a ≤ sclamp a l h ∧ sclamp a l h ≤ q) ∨ (q ≤ sclamp a l h ∧ sclamp a l h ≤ a) := by
  unfold sclamp; split_ifs <;> rcases le_total a q with h | h <;> first | (left; bord) | (right; bord)

end
end ImathVerif.C13
