import ImathVerif.Lemmas.FixedArrayInplace
import ImathVerif.Model.FixedArray2D
/-!
Stores into a two-dimensional index space (FixedArray2D: `nested[j][i]`, FixedMatrix: `nested[i][j]`) refine nested-list
assignment (C19).  Generic part: an injective grid of cells, one store, and a loop rule for any abstraction.
-/
namespace ImathVerif.FixedArray
open ImathVerif

/-- a rectangular index space laid out in one buffer: `cell o i` is the position of element (outer `o`, inner `i`) -/
structure Grid where
  buf : Nat
  nOuter : Nat
  nInner : Nat
  cell : Nat → Nat → Nat

def Grid.toNested (h : Heap) (g : Grid) : List (List Int) :=
  (List.range g.nOuter).map (fun o => (List.range g.nInner).map (fun i => cellAt h g.buf (g.cell o i)))

structure Grid.WF (sh : List Nat) (g : Grid) : Prop where
  inBuf : ∃ n, sh[g.buf]? = some n ∧ ∀ o i, o < g.nOuter → i < g.nInner → g.cell o i < n
  inj : ∀ o i o' i', o < g.nOuter → i < g.nInner → o' < g.nOuter → i' < g.nInner →
    g.cell o i = g.cell o' i' → o = o' ∧ i = i'

theorem Grid.WF.rd {h : Heap} {g : Grid} (w : g.WF (shape h)) {o i : Nat} (ho : o < g.nOuter) (hi : i < g.nInner) :
    h.rd g.buf (g.cell o i) = .ok (cellAt h g.buf (g.cell o i)) := by
  obtain ⟨n, hn, hp⟩ := w.inBuf
  exact rd_cellAt hn (hp o i ho hi)

/-- **one store = `L[o][i] = x`** -/
theorem Grid.WF.store {h : Heap} {g : Grid} (w : g.WF (shape h)) {o i : Nat} (ho : o < g.nOuter) (hi : i < g.nInner)
    (x : Int) :
    ∃ h', h.wr g.buf (g.cell o i) x = .ok h' ∧ shape h' = shape h ∧ Frame g.buf h h' ∧
      g.toNested h' = PyList.set2 (g.toNested h) o i x := by
  obtain ⟨n, hn, hp⟩ := w.inBuf
  have hlt := hp o i ho hi
  rw [shape_getElem?] at hn
  cases hbuf : h[g.buf]? with
  | none => simp [hbuf] at hn
  | some buf =>
    simp [hbuf] at hn
    subst hn
    have hwr := wr_of_lt x hbuf hlt
    refine ⟨_, hwr, wr_shape hwr, wr_frame hwr, ?_⟩
    unfold PyList.set2
    apply List.ext_getElem
    · simp [Grid.toNested]
    · intro o' h1 h2
      have ho' : o' < g.nOuter := by simpa [Grid.toNested] using h1
      simp only [Grid.toNested, List.getElem_map, List.getElem_range, List.getElem_set]
      by_cases hoo : o = o'
      · subst hoo
        simp only [if_true]
        have hrow : ((List.range g.nOuter).map (fun o => (List.range g.nInner).map (fun i => cellAt h g.buf (g.cell o i)))).getD o []
            = (List.range g.nInner).map (fun i => cellAt h g.buf (g.cell o i)) := by
          simp [List.getD_eq_getElem?_getD, ho]
        rw [hrow]
        apply List.ext_getElem
        · simp
        · intro i' h3 h4
          have hi' : i' < g.nInner := by simpa using h3
          simp only [List.getElem_map, List.getElem_range, List.getElem_set]
          by_cases hii : i = i'
          · subst hii
            simp only [if_true]
            exact cellAt_wr_same hwr
          · simp only [hii, if_false]
            apply cellAt_wr hwr
            right
            intro he
            exact hii ((w.inj o i' o i ho hi' ho hi he).2).symm
      · simp only [hoo, if_false]
        apply List.ext_getElem
        · simp
        · intro i' h3 h4
          have hi' : i' < g.nInner := by simpa using h3
          simp only [List.getElem_map, List.getElem_range]
          apply cellAt_wr hwr
          right
          intro he
          exact hoo ((w.inj o' i' o i ho' hi' ho hi he).1).symm

theorem Grid.WF.of_shape {sh : List Nat} {g : Grid} (w : g.WF sh) {h : Heap} (hh : shape h = sh) : g.WF (shape h) := hh ▸ w

/-- **loop rule for an abstraction**: if every iteration, under the invariant, succeeds, keeps the invariant and acts as
    `F i` on the abstraction, the loop acts as the fold of `F` -/
theorem forLoop_abs {β : Type} (abs : Heap → β) (Inv : Heap → Prop) (body : Nat → Heap → Except Err Heap)
    (F : Nat → β → β) : ∀ (n i0 : Nat),
    (∀ i h, i0 ≤ i → i < i0 + n → Inv h → ∃ h', body i h = .ok h' ∧ Inv h' ∧ abs h' = F i (abs h)) →
    ∀ h, Inv h → ∃ h', forLoop body n i0 h = .ok h' ∧ Inv h' ∧
      abs h' = (List.range' i0 n).foldl (fun b i => F i b) (abs h) := by
  intro n
  induction n with
  | zero => intro i0 _ h hi; exact ⟨h, rfl, hi, by simp⟩
  | succ n ih =>
    intro i0 hstep h hi
    obtain ⟨h1, hb, hi1, ha1⟩ := hstep i0 h (Nat.le_refl _) (by omega) hi
    obtain ⟨h2, hl, hi2, ha2⟩ := ih (i0 + 1) (fun i h' h1' h2' => hstep i h' (by omega) (by omega)) h1 hi1
    refine ⟨h2, by simp [forLoop, hb, hl], hi2, ?_⟩
    rw [ha2, ha1, List.range'_succ, List.foldl_cons]

theorem foldl_congr_mem {α β : Type} (f g : β → α → β) : ∀ (l : List α) (b : β),
    (∀ a ∈ l, ∀ b, f b a = g b a) → l.foldl f b = l.foldl g b := by
  intro l
  induction l with
  | nil => intro _ _; rfl
  | cons a t ih =>
    intro b hfg
    simp only [List.foldl_cons]
    rw [hfg a (by simp) b]
    exact ih _ (fun a' ha' b' => hfg a' (by simp [ha']) b')

/-- the invariant every write loop on a grid keeps: same shape, only the grid's buffer changes -/
def GInv (g : Grid) (h : Heap) (h1 : Heap) : Prop := shape h1 = shape h ∧ Frame g.buf h h1

theorem GInv.refl (g : Grid) (h : Heap) : GInv g h h := ⟨rfl, Frame.refl _ _⟩

theorem GInv.step {g : Grid} {h h1 h2 : Heap} (i1 : GInv g h h1) (hs : shape h2 = shape h1) (hf : Frame g.buf h1 h2) :
    GInv g h h2 := ⟨hs.trans i1.1, i1.2.trans hf⟩

/-- **a nested write loop `for b < nb: for a < na: cell(qo b a, qi b a) = val b a`** (values fixed beforehand, e.g. read
    from another allocation) refines the same two nested loops of `L[o][i] = x` -/
theorem grid_loop2_refines {g : Grid} {h : Heap} (w : g.WF (shape h)) (qo qi : Nat → Nat → Nat) (val : Nat → Nat → Int)
    (c : Nat → Nat → Bool) (nb na : Nat)
    (hq : ∀ b a, b < nb → a < na → c b a = true → qo b a < g.nOuter ∧ qi b a < g.nInner)
    (body : Nat → Nat → Heap → Except Err Heap)
    (hbody : ∀ b a h1, b < nb → a < na → GInv g h h1 →
      body b a h1 = if c b a then h1.wr g.buf (g.cell (qo b a) (qi b a)) (val b a) else .ok h1) :
    ∃ h', FixedArray2D.forLoop2 body nb na h = .ok h' ∧ GInv g h h' ∧
      g.toNested h' = (List.range nb).foldl (fun L b =>
        (List.range na).foldl (fun L a => if c b a then PyList.set2 L (qo b a) (qi b a) (val b a) else L) L) (g.toNested h) := by
  unfold FixedArray2D.forLoop2
  have houter := forLoop_abs (fun h1 => g.toNested h1) (GInv g h)
    (fun b h1 => forLoop (fun a h2 => body b a h2) na 0 h1)
    (fun b L => (List.range na).foldl (fun L a => if c b a then PyList.set2 L (qo b a) (qi b a) (val b a) else L) L)
    nb 0
    (fun b h1 hb0 hb hi1 => by
      have hbn : b < nb := by omega
      have hinner := forLoop_abs (fun h2 => g.toNested h2) (GInv g h) (fun a h2 => body b a h2)
        (fun a L => if c b a then PyList.set2 L (qo b a) (qi b a) (val b a) else L) na 0
        (fun a h2 _ ha hi2 => by
          have han : a < na := by omega
          rw [hbody b a h2 hbn han hi2]
          by_cases hc : c b a = true
          · simp only [hc, if_true]
            obtain ⟨ho, hi⟩ := hq b a hbn han hc
            obtain ⟨h3, hw, hs, hf, ht⟩ := (w.of_shape hi2.1).store ho hi (val b a)
            exact ⟨h3, hw, hi2.step hs hf, ht⟩
          · simp only [hc, Bool.false_eq_true, if_false]
            exact ⟨h2, rfl, hi2, rfl⟩) h1 hi1
      obtain ⟨h3, hl, hi3, ht⟩ := hinner
      exact ⟨h3, hl, hi3, by rw [ht, List.range_eq_range']⟩)
    h (GInv.refl g h)
  obtain ⟨h', hl, hi', ht⟩ := houter
  exact ⟨h', hl, hi', by rw [ht]; simp only [List.range_eq_range']⟩


/-- positions a subscript selects, as a list -/
def SliceIdx.positions (s : SliceIdx) : List Nat := (List.range s.slicelength).map s.at

theorem SliceIdx.positions_length (s : SliceIdx) : s.positions.length = s.slicelength := by simp [SliceIdx.positions]

theorem SliceIdx.positions_getD (s : SliceIdx) {a : Nat} (ha : a < s.slicelength) : s.positions.getD a 0 = s.at a := by
  simp [SliceIdx.positions, List.getD_eq_getElem?_getD, ha]

theorem assign2D_positions {α : Type} (L : List (List α)) (so si : SliceIdx) (val : Nat → Nat → α) :
    (List.range so.slicelength).foldl (fun L b =>
      (List.range si.slicelength).foldl (fun L a => PyList.set2 L (so.at b) (si.at a) (val b a)) L) L
    = PyList.assign2D L so.positions si.positions val := by
  unfold PyList.assign2D
  rw [SliceIdx.positions_length, SliceIdx.positions_length]
  apply foldl_congr_mem
  intro b hb L1
  have hb' : b < so.slicelength := by simpa using hb
  apply foldl_congr_mem
  intro a ha L2
  have ha' : a < si.slicelength := by simpa using ha
  rw [SliceIdx.positions_getD so hb', SliceIdx.positions_getD si ha']

theorem assign2DInnerFirst_positions {α : Type} (L : List (List α)) (so si : SliceIdx) (val : Nat → Nat → α) :
    (List.range si.slicelength).foldl (fun L a =>
      (List.range so.slicelength).foldl (fun L b => PyList.set2 L (so.at b) (si.at a) (val b a)) L) L
    = PyList.assign2DInnerFirst L so.positions si.positions val := by
  unfold PyList.assign2DInnerFirst
  rw [SliceIdx.positions_length, SliceIdx.positions_length]
  apply foldl_congr_mem
  intro a ha L1
  have ha' : a < si.slicelength := by simpa using ha
  apply foldl_congr_mem
  intro b hb L2
  have hb' : b < so.slicelength := by simpa using hb
  rw [SliceIdx.positions_getD so hb', SliceIdx.positions_getD si ha']

end ImathVerif.FixedArray
