import ImathVerif.Spec.RayBoxSpec
import Mathlib.Algebra.Order.Ring.Abs
import Mathlib.Tactic.Linarith
import Mathlib.Tactic.Ring
import Mathlib.Tactic.FieldSimp
import Mathlib.Tactic.Positivity
import Mathlib.Tactic.SplitIfs
import Mathlib.Tactic.NormNum
/-!
# Lemmas for C14 (ray/line vs. box)

* `inSlab_pos/neg/zero`: THE per-axis slab lemma — for one axis the parameters
  `t` with `lo ≤ p + t·d ≤ hi` form the interval `[(lo-p)/d, (hi-p)/d]` (`d > 0`),
  the reversed one (`d < 0`), or all/none (`d = 0`).
* `feAxis` / `isAxis`: the generic per-axis block; `feX_eq … isZ_eq` show by `rfl`
  that each of the six written-out axis sections of the model is an instance.
* `feAxis_step` / `isAxis_step`: one block intersects the running interval
  `[tFrontMax, tBackMin]` with the block's effective parameter set (`feEff`/`isEff`,
  which spell out what the block does when its overflow guard fails).
* `fe_run_master` / `is_run_master`: three blocks in sequence.

The predicates the `_guardpath` theorems are stated with (`inSlab`, `feEff`, `isEff`, `feEff3`,
`isEff3`) live in `Spec/RayBoxSpec.lean`.
-/
set_option linter.unusedSectionVars false
namespace ImathVerif.RayBox
variable {α : Type} [Field α] [LinearOrder α] [IsStrictOrderedRing α]

theorem iabs_eq_abs (a : α) : iabs a = |a| := by
  unfold iabs
  split_ifs with h
  · exact (abs_of_pos h).symm
  · exact (abs_of_nonpos (not_lt.mp h)).symm

theorem inSlab_pos {p d lo hi t : α} (hd : 0 < d) :
    inSlab p d lo hi t ↔ (lo - p) / d ≤ t ∧ t ≤ (hi - p) / d := by
  unfold inSlab
  rw [div_le_iff₀ hd, le_div_iff₀ hd]
  constructor <;> rintro ⟨h1, h2⟩ <;> constructor <;> linarith

theorem inSlab_neg {p d lo hi t : α} (hd : d < 0) :
    inSlab p d lo hi t ↔ (hi - p) / d ≤ t ∧ t ≤ (lo - p) / d := by
  unfold inSlab
  rw [div_le_iff_of_neg hd, le_div_iff_of_neg hd]
  constructor <;> rintro ⟨h1, h2⟩ <;> constructor <;> linarith

theorem inSlab_zero {p lo hi t : α} : inSlab p 0 lo hi t ↔ lo ≤ p ∧ p ≤ hi := by
  unfold inSlab; simp

/-- Generic per-axis block of `findEntryAndExitPoints`. -/
def feAxis (T p d lo hi : α) (mk : α → α → V3 α) (s : FEState α) : Option (FEState α) :=
  if d >= 0 then
    let d1 := hi - p
    let d2 := lo - p
    if d > 1 ∨ (iabs d1 < T * d ∧ iabs d2 < T * d) then
      let t1 := d1 / d
      let t2 := d2 / d
      let s1 : FEState α :=
        if s.tBackMin > t1 then { s with tBackMin := t1, exit := mk t1 hi } else s
      let s2 : FEState α :=
        if s1.tFrontMax < t2 then { s1 with tFrontMax := t2, entry := mk t2 lo } else s1
      some s2
    else if p < lo ∨ p > hi then none
    else some s
  else
    let d1 := lo - p
    let d2 := hi - p
    if d < -1 ∨ (iabs d1 < -T * d ∧ iabs d2 < -T * d) then
      let t1 := d1 / d
      let t2 := d2 / d
      let s1 : FEState α :=
        if s.tBackMin > t1 then { s with tBackMin := t1, exit := mk t1 lo } else s
      let s2 : FEState α :=
        if s1.tFrontMax < t2 then { s1 with tFrontMax := t2, entry := mk t2 hi } else s1
      some s2
    else if p < lo ∨ p > hi then none
    else some s

theorem feX_eq (T : α) (r : Line3 α) (b : Box3 α) (s : FEState α) :
    feX T r b s = feAxis T r.pos.x r.dir.x b.min.x b.max.x
      (fun t f => ⟨f, clamp (r.pos.y + t * r.dir.y) b.min.y b.max.y,
                      clamp (r.pos.z + t * r.dir.z) b.min.z b.max.z⟩) s := rfl

theorem feY_eq (T : α) (r : Line3 α) (b : Box3 α) (s : FEState α) :
    feY T r b s = feAxis T r.pos.y r.dir.y b.min.y b.max.y
      (fun t f => ⟨clamp (r.pos.x + t * r.dir.x) b.min.x b.max.x, f,
                      clamp (r.pos.z + t * r.dir.z) b.min.z b.max.z⟩) s := rfl

theorem feZ_eq (T : α) (r : Line3 α) (b : Box3 α) (s : FEState α) :
    feZ T r b s = feAxis T r.pos.z r.dir.z b.min.z b.max.z
      (fun t f => ⟨clamp (r.pos.x + t * r.dir.x) b.min.x b.max.x,
                   clamp (r.pos.y + t * r.dir.y) b.min.y b.max.y, f⟩) s := rfl

theorem feGuard_nonneg {T p d lo hi : α} (hd : 0 ≤ d) :
    (d > 1 ∨ (iabs (hi - p) < T * d ∧ iabs (lo - p) < T * d)) ↔ CodeGuard T p d lo hi := by
  simp only [CodeGuard, iabs_eq_abs, abs_of_nonneg hd, gt_iff_lt]

theorem feGuard_neg {T p d lo hi : α} (hd : d < 0) :
    (d < -1 ∨ (iabs (lo - p) < -T * d ∧ iabs (hi - p) < -T * d)) ↔ CodeGuard T p d lo hi := by
  simp only [CodeGuard, iabs_eq_abs, abs_of_neg hd]
  constructor
  · rintro (h | ⟨h1, h2⟩)
    · left; linarith
    · right; constructor <;> nlinarith
  · rintro (h | ⟨h1, h2⟩)
    · left; linarith
    · right; constructor <;> nlinarith

theorem not_codeGuard_zero {T p lo hi : α} : ¬ CodeGuard T p 0 lo hi := by
  simp only [CodeGuard, abs_zero, mul_zero]
  rintro (h | ⟨h, _⟩)
  · exact absurd h (by norm_num)
  · exact absurd h (not_lt.mpr (abs_nonneg _))

/-- Update record for a reported point: unchanged, or rewritten at parameter
`t'` on a face `f` of this axis with `p + t' * d = f`. -/
def Upd (p d lo hi : α) (mk : α → α → V3 α) (t t' : α) (q q' : V3 α) : Prop :=
  (t' = t ∧ q' = q) ∨ ∃ f, (f = lo ∨ f = hi) ∧ p + t' * d = f ∧ q' = mk t' f

theorem feAxis_step {T p d lo hi : α} (mk : α → α → V3 α) (s : FEState α) :
    match feAxis T p d lo hi mk s with
    | none => ∀ t, ¬ feEff T p d lo hi t
    | some s' =>
        (∀ t, (s'.tFrontMax ≤ t ∧ t ≤ s'.tBackMin) ↔
              ((s.tFrontMax ≤ t ∧ t ≤ s.tBackMin) ∧ feEff T p d lo hi t)) ∧
        Upd p d lo hi mk s.tFrontMax s'.tFrontMax s.entry s'.entry ∧
        Upd p d lo hi mk s.tBackMin s'.tBackMin s.exit s'.exit := by
  unfold feAxis
  by_cases hd : d ≥ 0
  · rw [if_pos hd]
    simp only []
    by_cases hg : d > 1 ∨ (iabs (hi - p) < T * d ∧ iabs (lo - p) < T * d)
    · rw [if_pos hg]
      have hcg := (feGuard_nonneg hd).mp hg
      have hd0 : 0 < d := by
        rcases lt_or_eq_of_le hd with h | h
        · exact h
        · exact absurd (h ▸ hcg) not_codeGuard_zero
      have hdne : d ≠ 0 := ne_of_gt hd0
      have e1 : p + (hi - p) / d * d = hi := by field_simp; ring
      have e2 : p + (lo - p) / d * d = lo := by field_simp; ring
      simp only [feEff, hcg, not_true_eq_false, true_imp_iff, false_imp_iff, and_true, inSlab_pos hd0]
      refine ⟨?_, ?_, ?_⟩
      · intro t
        split_ifs <;> (try dsimp only) <;> constructor
        all_goals first
          | (rintro ⟨⟨h1, h2⟩, h3, h4⟩; refine ⟨?_, ?_⟩ <;> linarith)
          | (rintro ⟨h1, h2⟩; refine ⟨⟨?_, ?_⟩, ?_, ?_⟩ <;> linarith)
      · split_ifs
        all_goals first
          | exact Or.inl ⟨rfl, rfl⟩
          | exact Or.inr ⟨lo, Or.inl rfl, e2, rfl⟩
      · split_ifs
        all_goals first
          | exact Or.inl ⟨rfl, rfl⟩
          | exact Or.inr ⟨hi, Or.inr rfl, e1, rfl⟩
    · rw [if_neg hg]
      have hcg : ¬ CodeGuard T p d lo hi := fun h => hg ((feGuard_nonneg hd).mpr h)
      by_cases ho : p < lo ∨ p > hi
      · rw [if_pos ho]
        intro t h
        have := h.2 hcg
        rcases ho with ho | ho
        · exact absurd this.1 (not_le.mpr ho)
        · exact absurd this.2 (not_le.mpr ho)
      · rw [if_neg ho]
        have hin : lo ≤ p ∧ p ≤ hi := by
          constructor
          · exact not_lt.mp (fun h => ho (Or.inl h))
          · exact not_lt.mp (fun h => ho (Or.inr h))
        refine ⟨?_, Or.inl ⟨rfl, rfl⟩, Or.inl ⟨rfl, rfl⟩⟩
        intro t
        simp only [feEff, hcg, false_imp_iff, not_false_eq_true, true_imp_iff, hin, and_true]
  · rw [if_neg hd]
    have hd0 : d < 0 := not_le.mp hd
    simp only []
    by_cases hg : d < -1 ∨ (iabs (lo - p) < -T * d ∧ iabs (hi - p) < -T * d)
    · rw [if_pos hg]
      have hcg := (feGuard_neg hd0).mp hg
      have hdne : d ≠ 0 := ne_of_lt hd0
      have e1 : p + (hi - p) / d * d = hi := by field_simp; ring
      have e2 : p + (lo - p) / d * d = lo := by field_simp; ring
      simp only [feEff, hcg, not_true_eq_false, true_imp_iff, false_imp_iff, and_true, inSlab_neg hd0]
      refine ⟨?_, ?_, ?_⟩
      · intro t
        split_ifs <;> (try dsimp only) <;> constructor
        all_goals first
          | (rintro ⟨⟨h1, h2⟩, h3, h4⟩; refine ⟨?_, ?_⟩ <;> linarith)
          | (rintro ⟨h1, h2⟩; refine ⟨⟨?_, ?_⟩, ?_, ?_⟩ <;> linarith)
      · split_ifs
        all_goals first
          | exact Or.inl ⟨rfl, rfl⟩
          | exact Or.inr ⟨hi, Or.inr rfl, e1, rfl⟩
      · split_ifs
        all_goals first
          | exact Or.inl ⟨rfl, rfl⟩
          | exact Or.inr ⟨lo, Or.inl rfl, e2, rfl⟩
    · rw [if_neg hg]
      have hcg : ¬ CodeGuard T p d lo hi := fun h => hg ((feGuard_neg hd0).mpr h)
      by_cases ho : p < lo ∨ p > hi
      · rw [if_pos ho]
        intro t h
        have := h.2 hcg
        rcases ho with ho | ho
        · exact absurd this.1 (not_le.mpr ho)
        · exact absurd this.2 (not_le.mpr ho)
      · rw [if_neg ho]
        have hin : lo ≤ p ∧ p ≤ hi := by
          constructor
          · exact not_lt.mp (fun h => ho (Or.inl h))
          · exact not_lt.mp (fun h => ho (Or.inr h))
        refine ⟨?_, Or.inl ⟨rfl, rfl⟩, Or.inl ⟨rfl, rfl⟩⟩
        intro t
        simp only [feEff, hcg, false_imp_iff, not_false_eq_true, true_imp_iff, hin, and_true]

theorem isEmpty_iff (b : Box3 α) : b.isEmpty = true ↔ b.Empty := by
  simp [Box3.isEmpty, Box3.Empty, or_assoc]

theorem isEmpty_false {b : Box3 α} (h : ¬ b.Empty) : b.isEmpty = false := by
  cases hb : b.isEmpty
  · rfl
  · exact absurd ((isEmpty_iff b).mp hb) h

theorem not_empty_iff (b : Box3 α) :
    ¬ b.Empty ↔ b.min.x ≤ b.max.x ∧ b.min.y ≤ b.max.y ∧ b.min.z ≤ b.max.z := by
  simp [Box3.Empty, not_or, not_lt]

theorem clamp_of_mem {a l h : α} (h1 : l ≤ a) (h2 : a ≤ h) : clamp a l h = a := by
  unfold clamp
  rw [if_neg (not_lt.mpr h1), if_neg (not_lt.mpr h2)]

/-- The point of the line at parameter `t`, clamped to the box per coordinate. -/
def clampPt (r : Line3 α) (b : Box3 α) (t : α) : V3 α :=
  ⟨clamp (r.pos.x + t * r.dir.x) b.min.x b.max.x,
   clamp (r.pos.y + t * r.dir.y) b.min.y b.max.y,
   clamp (r.pos.z + t * r.dir.z) b.min.z b.max.z⟩

theorem clampPt_of_mem {r : Line3 α} {b : Box3 α} {t : α} (h : mem (pointAt r t) b) :
    clampPt r b t = pointAt r t := by
  obtain ⟨⟨h1, h2⟩, ⟨h3, h4⟩, h5, h6⟩ := h
  simp only [pointAt] at h1 h2 h3 h4 h5 h6
  simp only [clampPt, pointAt, clamp_of_mem h1 h2, clamp_of_mem h3 h4, clamp_of_mem h5 h6]

/-- A reported point: the clamped point at its parameter, lying on a face plane. -/
def Reported (r : Line3 α) (b : Box3 α) (t : α) (q : V3 α) : Prop :=
  q = clampPt r b t ∧ onSurface q b

def mkX (r : Line3 α) (b : Box3 α) : α → α → V3 α := fun t f =>
  ⟨f, clamp (r.pos.y + t * r.dir.y) b.min.y b.max.y, clamp (r.pos.z + t * r.dir.z) b.min.z b.max.z⟩
def mkY (r : Line3 α) (b : Box3 α) : α → α → V3 α := fun t f =>
  ⟨clamp (r.pos.x + t * r.dir.x) b.min.x b.max.x, f, clamp (r.pos.z + t * r.dir.z) b.min.z b.max.z⟩
def mkZ (r : Line3 α) (b : Box3 α) : α → α → V3 α := fun t f =>
  ⟨clamp (r.pos.x + t * r.dir.x) b.min.x b.max.x, clamp (r.pos.y + t * r.dir.y) b.min.y b.max.y, f⟩

theorem mkX_spec {r : Line3 α} {b : Box3 α} (hlh : b.min.x ≤ b.max.x) {t f : α}
    (hf : f = b.min.x ∨ f = b.max.x) (he : r.pos.x + t * r.dir.x = f) : Reported r b t (mkX r b t f) := by
  have hc : clamp (r.pos.x + t * r.dir.x) b.min.x b.max.x = f := by
    rw [he]; rcases hf with h | h <;> rw [h]
    · exact clamp_of_mem (le_refl _) hlh
    · exact clamp_of_mem hlh (le_refl _)
  refine ⟨by simp only [mkX, clampPt, hc], ?_⟩
  rcases hf with h | h
  · exact Or.inl h
  · exact Or.inr (Or.inl h)

theorem mkY_spec {r : Line3 α} {b : Box3 α} (hlh : b.min.y ≤ b.max.y) {t f : α}
    (hf : f = b.min.y ∨ f = b.max.y) (he : r.pos.y + t * r.dir.y = f) : Reported r b t (mkY r b t f) := by
  have hc : clamp (r.pos.y + t * r.dir.y) b.min.y b.max.y = f := by
    rw [he]; rcases hf with h | h <;> rw [h]
    · exact clamp_of_mem (le_refl _) hlh
    · exact clamp_of_mem hlh (le_refl _)
  refine ⟨by simp only [mkY, clampPt, hc], ?_⟩
  rcases hf with h | h
  · exact Or.inr (Or.inr (Or.inl h))
  · exact Or.inr (Or.inr (Or.inr (Or.inl h)))

theorem mkZ_spec {r : Line3 α} {b : Box3 α} (hlh : b.min.z ≤ b.max.z) {t f : α}
    (hf : f = b.min.z ∨ f = b.max.z) (he : r.pos.z + t * r.dir.z = f) : Reported r b t (mkZ r b t f) := by
  have hc : clamp (r.pos.z + t * r.dir.z) b.min.z b.max.z = f := by
    rw [he]; rcases hf with h | h <;> rw [h]
    · exact clamp_of_mem (le_refl _) hlh
    · exact clamp_of_mem hlh (le_refl _)
  refine ⟨by simp only [mkZ, clampPt, hc], ?_⟩
  rcases hf with h | h
  · exact Or.inr (Or.inr (Or.inr (Or.inr (Or.inl h))))
  · exact Or.inr (Or.inr (Or.inr (Or.inr (Or.inr h))))

theorem upd_reported {r : Line3 α} {b : Box3 α} {p d lo hi : α} {mk : α → α → V3 α}
    (hmk : ∀ t f, (f = lo ∨ f = hi) → p + t * d = f → Reported r b t (mk t f))
    {t t' : α} {q q' : V3 α} (hu : Upd p d lo hi mk t t' q q') (c : α → Prop)
    (h : c t → Reported r b t q) : c t' → Reported r b t' q' := by
  rcases hu with ⟨h1, h2⟩ | ⟨f, hf, he, hq⟩
  · rw [h1, h2]; exact h
  · intro _; rw [hq]; exact hmk t' f hf he


/-- The three axis blocks in sequence, over the generic block. -/
def feRun (T : α) (r : Line3 α) (b : Box3 α) (s0 : FEState α) : Bool × V3 α × V3 α :=
  match feAxis T r.pos.x r.dir.x b.min.x b.max.x (mkX r b) s0 with
  | none => (false, s0.entry, s0.exit)
  | some s1 =>
    match feAxis T r.pos.y r.dir.y b.min.y b.max.y (mkY r b) s1 with
    | none => (false, s1.entry, s1.exit)
    | some s2 =>
      match feAxis T r.pos.z r.dir.z b.min.z b.max.z (mkZ r b) s2 with
      | none => (false, s2.entry, s2.exit)
      | some s3 => (decide (s3.tFrontMax <= s3.tBackMin), s3.entry, s3.exit)

theorem fe_eq_run {T : α} {r : Line3 α} {b : Box3 α} (hne : ¬ b.Empty) (e x : V3 α) :
    findEntryAndExitPoints T r b e x = feRun T r b ⟨-T, T, e, x⟩ := by
  unfold findEntryAndExitPoints
  rw [isEmpty_false hne]
  rfl

theorem fe_empty {T : α} {r : Line3 α} {b : Box3 α} (he : b.Empty) (e x : V3 α) :
    findEntryAndExitPoints T r b e x = (false, e, x) := by
  unfold findEntryAndExitPoints
  rw [(isEmpty_iff b).mpr he]
  rfl

/-- Master lemma for `findEntryAndExitPoints` on a non-empty box, no guard hypotheses. -/
theorem fe_run_master {T : α} {r : Line3 α} {b : Box3 α} (hne : ¬ b.Empty) (s0 : FEState α)
    (hF : s0.tFrontMax = -T) (hB : s0.tBackMin = T) :
    ((feRun T r b s0).1 = true ↔ ∃ t, (-T ≤ t ∧ t ≤ T) ∧ feEff3 T r b t) ∧
    ((feRun T r b s0).1 = true → ∃ F B, F ≤ B ∧
      (∀ t, (F ≤ t ∧ t ≤ B) ↔ ((-T ≤ t ∧ t ≤ T) ∧ feEff3 T r b t)) ∧
      (-T < F → Reported r b F (feRun T r b s0).2.1) ∧
      (B < T → Reported r b B (feRun T r b s0).2.2)) := by
  obtain ⟨hx, hy, hz⟩ := (not_empty_iff b).mp hne
  have stepx := feAxis_step (T := T) (p := r.pos.x) (d := r.dir.x) (lo := b.min.x) (hi := b.max.x) (mkX r b) s0
  unfold feRun
  cases h1 : feAxis T r.pos.x r.dir.x b.min.x b.max.x (mkX r b) s0 with
  | none =>
    rw [h1] at stepx
    refine ⟨⟨fun h => absurd h (by simp), ?_⟩, fun h => absurd h (by simp)⟩
    rintro ⟨t, _, h, _⟩
    exact absurd h (stepx t)
  | some s1 =>
    rw [h1] at stepx
    dsimp only
    obtain ⟨ix, ux, vx⟩ := stepx
    have stepy := feAxis_step (T := T) (p := r.pos.y) (d := r.dir.y) (lo := b.min.y) (hi := b.max.y) (mkY r b) s1
    cases h2 : feAxis T r.pos.y r.dir.y b.min.y b.max.y (mkY r b) s1 with
    | none =>
      rw [h2] at stepy
      refine ⟨⟨fun h => absurd h (by simp), ?_⟩, fun h => absurd h (by simp)⟩
      rintro ⟨t, _, _, h, _⟩
      exact absurd h (stepy t)
    | some s2 =>
      rw [h2] at stepy
      dsimp only
      obtain ⟨iy, uy, vy⟩ := stepy
      have stepz := feAxis_step (T := T) (p := r.pos.z) (d := r.dir.z) (lo := b.min.z) (hi := b.max.z) (mkZ r b) s2
      cases h3 : feAxis T r.pos.z r.dir.z b.min.z b.max.z (mkZ r b) s2 with
      | none =>
        rw [h3] at stepz
        refine ⟨⟨fun h => absurd h (by simp), ?_⟩, fun h => absurd h (by simp)⟩
        rintro ⟨t, _, _, _, h⟩
        exact absurd h (stepz t)
      | some s3 =>
        rw [h3] at stepz
        dsimp only
        obtain ⟨iz, uz, vz⟩ := stepz
        simp only [decide_eq_true_eq]
        have inv : ∀ t, (s3.tFrontMax ≤ t ∧ t ≤ s3.tBackMin) ↔ ((-T ≤ t ∧ t ≤ T) ∧ feEff3 T r b t) := by
          intro t
          rw [iz t, iy t, ix t, hF, hB]
          simp only [feEff3]
          tauto
        have e0 : -T < s0.tFrontMax → Reported r b s0.tFrontMax s0.entry := fun h => absurd h (by rw [hF]; exact lt_irrefl _)
        have x0 : s0.tBackMin < T → Reported r b s0.tBackMin s0.exit := fun h => absurd h (by rw [hB]; exact lt_irrefl _)
        have e1 := upd_reported (fun t f => mkX_spec hx) ux (fun t => -T < t) e0
        have e2 := upd_reported (fun t f => mkY_spec hy) uy (fun t => -T < t) e1
        have e3 := upd_reported (fun t f => mkZ_spec hz) uz (fun t => -T < t) e2
        have x1 := upd_reported (fun t f => mkX_spec hx) vx (fun t => t < T) x0
        have x2 := upd_reported (fun t f => mkY_spec hy) vy (fun t => t < T) x1
        have x3 := upd_reported (fun t f => mkZ_spec hz) vz (fun t => t < T) x2
        refine ⟨⟨fun h => ⟨s3.tFrontMax, (inv _).mp ⟨le_refl _, h⟩⟩, ?_⟩, fun h => ⟨_, _, h, inv, e3, x3⟩⟩
        rintro ⟨t, ht⟩
        have := (inv t).mpr ht
        exact le_trans this.1 this.2


/-! ## intersects -/

/-- Generic per-axis block of `intersects`. -/
def isAxis (T p d lo hi : α) (mk : α → α → V3 α) (s : ISState α) : Option (ISState α) :=
  if d > 0 then
    if p > hi then none
    else
      let dd := hi - p
      let s1 : ISState α :=
        if d > 1 ∨ dd < T * d then
          let t := dd / d
          if s.tBackMin > t then { s with tBackMin := t } else s
        else s
      if p <= lo then
        let dd := lo - p
        let t := if d > 1 ∨ dd < T * d then dd / d else T
        if s1.tFrontMax < t then some { s1 with tFrontMax := t, ip := mk t lo }
        else some s1
      else some s1
  else if d < 0 then
    if p < lo then none
    else
      let dd := lo - p
      let s1 : ISState α :=
        if d < -1 ∨ dd > T * d then
          let t := dd / d
          if s.tBackMin > t then { s with tBackMin := t } else s
        else s
      if p >= hi then
        let dd := hi - p
        let t := if d < -1 ∨ dd > T * d then dd / d else T
        if s1.tFrontMax < t then some { s1 with tFrontMax := t, ip := mk t hi }
        else some s1
      else some s1
  else
    if p < lo ∨ p > hi then none else some s

theorem isX_eq (T : α) (r : Line3 α) (b : Box3 α) (s : ISState α) :
    isX T r b s = isAxis T r.pos.x r.dir.x b.min.x b.max.x (mkX r b) s := rfl
theorem isY_eq (T : α) (r : Line3 α) (b : Box3 α) (s : ISState α) :
    isY T r b s = isAxis T r.pos.y r.dir.y b.min.y b.max.y (mkY r b) s := rfl
theorem isZ_eq (T : α) (r : Line3 α) (b : Box3 α) (s : ISState α) :
    isZ T r b s = isAxis T r.pos.z r.dir.z b.min.z b.max.z (mkZ r b) s := rfl

/-- Update record for `ip`; the face equation holds when the guard passed. -/
def IUpd (g : Prop) (p d lo hi : α) (mk : α → α → V3 α) (t t' : α) (q q' : V3 α) : Prop :=
  (t' = t ∧ q' = q) ∨ ∃ f, (f = lo ∨ f = hi) ∧ (g → p + t' * d = f) ∧ q' = mk t' f


def bUpd (s : ISState α) (g : Prop) [Decidable g] (t : α) : ISState α :=
  if g then (if s.tBackMin > t then { s with tBackMin := t } else s) else s

def fUpd (s : ISState α) (c : Prop) [Decidable c] (t : α) (q : V3 α) : ISState α :=
  if c then (if s.tFrontMax < t then { s with tFrontMax := t, ip := q } else s) else s

theorem bUpd_spec (s : ISState α) (g : Prop) [Decidable g] (t : α) :
    (bUpd s g t).tFrontMax = s.tFrontMax ∧ (bUpd s g t).ip = s.ip ∧
    (∀ u, u ≤ (bUpd s g t).tBackMin ↔ (u ≤ s.tBackMin ∧ (g → u ≤ t))) ∧
    (bUpd s g t).tBackMin ≤ s.tBackMin ∧ (0 ≤ s.tBackMin → 0 ≤ t → 0 ≤ (bUpd s g t).tBackMin) := by
  unfold bUpd
  split_ifs with h1 h2
  · refine ⟨rfl, rfl, fun u => ⟨fun h => ⟨by dsimp only at h; linarith, fun _ => h⟩, fun h => h.2 h1⟩, le_of_lt h2, fun _ h => h⟩
  · refine ⟨rfl, rfl, fun u => ⟨fun h => ⟨h, fun _ => by linarith⟩, fun h => h.1⟩, le_refl _, fun h _ => h⟩
  · exact ⟨rfl, rfl, fun u => ⟨fun h => ⟨h, fun g => absurd g h1⟩, fun h => h.1⟩, le_refl _, fun h _ => h⟩

theorem fUpd_spec (s : ISState α) (c : Prop) [Decidable c] (t : α) (q : V3 α) :
    (fUpd s c t q).tBackMin = s.tBackMin ∧
    (∀ u, (fUpd s c t q).tFrontMax ≤ u ↔ (s.tFrontMax ≤ u ∧ (c → t ≤ u))) ∧
    (((fUpd s c t q).tFrontMax = s.tFrontMax ∧ (fUpd s c t q).ip = s.ip) ∨
      (c ∧ (fUpd s c t q).tFrontMax = t ∧ (fUpd s c t q).ip = q)) := by
  unfold fUpd
  split_ifs with h1 h2
  · refine ⟨rfl, fun u => ⟨fun h => ⟨by dsimp only at h; linarith, fun _ => h⟩, fun h => h.2 h1⟩, Or.inr ⟨h1, rfl, rfl⟩⟩
  · refine ⟨rfl, fun u => ⟨fun h => ⟨h, fun _ => by linarith⟩, fun h => h.1⟩, Or.inl ⟨rfl, rfl⟩⟩
  · exact ⟨rfl, fun u => ⟨fun h => ⟨h, fun g => absurd g h1⟩, fun h => h.1⟩, Or.inl ⟨rfl, rfl⟩⟩

theorem isAxis_pos {T p d lo hi : α} (mk : α → α → V3 α) (s : ISState α) (hd : 0 < d) (hp : p ≤ hi) :
    isAxis T p d lo hi mk s =
      some (fUpd (bUpd s (d > 1 ∨ hi - p < T * d) ((hi - p) / d)) (p ≤ lo)
        (if d > 1 ∨ lo - p < T * d then (lo - p) / d else T)
        (mk (if d > 1 ∨ lo - p < T * d then (lo - p) / d else T) lo)) := by
  unfold isAxis fUpd bUpd
  rw [if_pos hd, if_neg (not_lt.mpr hp)]
  dsimp only
  split_ifs <;> rfl

theorem isAxis_neg {T p d lo hi : α} (mk : α → α → V3 α) (s : ISState α) (hd : d < 0) (hp : lo ≤ p) :
    isAxis T p d lo hi mk s =
      some (fUpd (bUpd s (d < -1 ∨ lo - p > T * d) ((lo - p) / d)) (p ≥ hi)
        (if d < -1 ∨ hi - p > T * d then (hi - p) / d else T)
        (mk (if d < -1 ∨ hi - p > T * d then (hi - p) / d else T) hi)) := by
  unfold isAxis fUpd bUpd
  rw [if_neg (not_lt.mpr (le_of_lt hd)), if_pos hd, if_neg (not_lt.mpr hp)]
  dsimp only
  split_ifs <;> rfl

theorem codeGuard_pos {T p d lo hi : α} (hd : 0 < d) (h : d = 0 ∨ CodeGuard T p d lo hi) :
    (d > 1 ∨ hi - p < T * d) ∧ (d > 1 ∨ lo - p < T * d) := by
  rcases h with h | h
  · exact absurd h (ne_of_gt hd)
  · unfold CodeGuard at h
    rw [abs_of_pos hd] at h
    rcases h with h | ⟨h1, h2⟩
    · exact ⟨Or.inl h, Or.inl h⟩
    · exact ⟨Or.inr (lt_of_le_of_lt (le_abs_self _) h1), Or.inr (lt_of_le_of_lt (le_abs_self _) h2)⟩

theorem codeGuard_neg {T p d lo hi : α} (hd : d < 0) (h : d = 0 ∨ CodeGuard T p d lo hi) :
    (d < -1 ∨ lo - p > T * d) ∧ (d < -1 ∨ hi - p > T * d) := by
  rcases h with h | h
  · exact absurd h (ne_of_lt hd)
  · unfold CodeGuard at h
    rw [abs_of_neg hd] at h
    rcases h with h | ⟨h1, h2⟩
    · exact ⟨Or.inl (by linarith), Or.inl (by linarith)⟩
    · have a1 := neg_abs_le (hi - p)
      have a2 := neg_abs_le (lo - p)
      exact ⟨Or.inr (by nlinarith), Or.inr (by nlinarith)⟩

theorem isAxis_step {T p d lo hi : α} (mk : α → α → V3 α) (s : ISState α) :
    match isAxis T p d lo hi mk s with
    | none => ∀ t, ¬ isEff T p d lo hi t
    | some s' =>
        (∀ t, (s'.tFrontMax ≤ t ∧ t ≤ s'.tBackMin) ↔
              ((s.tFrontMax ≤ t ∧ t ≤ s.tBackMin) ∧ isEff T p d lo hi t)) ∧
        s'.tBackMin ≤ s.tBackMin ∧ (0 ≤ s.tBackMin → 0 ≤ s'.tBackMin) ∧
        IUpd (d = 0 ∨ CodeGuard T p d lo hi) p d lo hi mk s.tFrontMax s'.tFrontMax s.ip s'.ip := by
  rcases lt_trichotomy d 0 with hd | hd | hd
  · -- d < 0
    have hnp : ¬ d > 0 := not_lt.mpr (le_of_lt hd)
    have hdne : d ≠ 0 := ne_of_lt hd
    have E : ∀ t, isEff T p d lo hi t ↔ (lo ≤ p ∧ ((d < -1 ∨ lo - p > T * d) → t ≤ (lo - p) / d) ∧
            (hi ≤ p → (if d < -1 ∨ hi - p > T * d then (hi - p) / d else T) ≤ t)) := by
      intro t
      unfold isEff
      constructor
      · intro h; exact h.2.1 hd
      · intro h; exact ⟨fun h' => absurd h' hnp, fun _ => h, fun h' => absurd h' hdne⟩
    by_cases ho : p < lo
    · have : isAxis T p d lo hi mk s = none := by
        unfold isAxis; rw [if_neg hnp, if_pos hd, if_pos ho]
      rw [this]
      intro t h
      exact absurd ((E t).mp h).1 (not_le.mpr ho)
    · have hlo : lo ≤ p := not_lt.mp ho
      rw [isAxis_neg mk s hd hlo]
      have hfar : 0 ≤ (lo - p) / d := div_nonneg_of_nonpos (by linarith) (le_of_lt hd)
      obtain ⟨b1, b2, b3, b4, b5⟩ := bUpd_spec s (d < -1 ∨ lo - p > T * d) ((lo - p) / d)
      obtain ⟨f1, f2, f3⟩ := fUpd_spec (bUpd s (d < -1 ∨ lo - p > T * d) ((lo - p) / d)) (p ≥ hi)
        (if d < -1 ∨ hi - p > T * d then (hi - p) / d else T)
        (mk (if d < -1 ∨ hi - p > T * d then (hi - p) / d else T) hi)
      dsimp only
      refine ⟨?_, ?_, ?_, ?_⟩
      · intro t
        rw [E t, f2 t, f1, b3 t, b1]
        simp only [ge_iff_le]
        tauto
      · rw [f1]; exact b4
      · intro h; rw [f1]; exact b5 h hfar
      · rcases f3 with ⟨h1, h2⟩ | ⟨hc, h1, h2⟩
        · exact Or.inl ⟨by rw [h1, b1], by rw [h2, b2]⟩
        · refine Or.inr ⟨hi, Or.inr rfl, ?_, by rw [h2, h1]⟩
          intro hg
          rw [h1, if_pos (codeGuard_neg hd hg).2]
          field_simp
          ring
  · -- d = 0
    subst hd
    have E : ∀ t, isEff T p 0 lo hi t ↔ (lo ≤ p ∧ p ≤ hi) := by
      intro t
      unfold isEff
      constructor
      · intro h; exact h.2.2 rfl
      · intro h; exact ⟨fun h' => absurd h' (lt_irrefl _), fun h' => absurd h' (lt_irrefl _), fun _ => h⟩
    unfold isAxis
    rw [if_neg (lt_irrefl _), if_neg (lt_irrefl _)]
    by_cases ho : p < lo ∨ p > hi
    · rw [if_pos ho]
      intro t h
      have := (E t).mp h
      rcases ho with ho | ho
      · exact absurd this.1 (not_le.mpr ho)
      · exact absurd this.2 (not_le.mpr ho)
    · rw [if_neg ho]
      have hin : lo ≤ p ∧ p ≤ hi :=
        ⟨not_lt.mp (fun h => ho (Or.inl h)), not_lt.mp (fun h => ho (Or.inr h))⟩
      refine ⟨fun t => ?_, le_refl _, fun h => h, Or.inl ⟨rfl, rfl⟩⟩
      rw [E t]
      simp only [hin, and_true]
  · -- 0 < d
    have hdne : d ≠ 0 := ne_of_gt hd
    have E : ∀ t, isEff T p d lo hi t ↔ (p ≤ hi ∧ ((d > 1 ∨ hi - p < T * d) → t ≤ (hi - p) / d) ∧
            (p ≤ lo → (if d > 1 ∨ lo - p < T * d then (lo - p) / d else T) ≤ t)) := by
      intro t
      unfold isEff
      constructor
      · intro h; exact h.1 hd
      · intro h; exact ⟨fun _ => h, fun h' => absurd h' (not_lt.mpr (le_of_lt hd)), fun h' => absurd h' hdne⟩
    by_cases ho : p > hi
    · have : isAxis T p d lo hi mk s = none := by
        unfold isAxis; rw [if_pos hd, if_pos ho]
      rw [this]
      intro t h
      exact absurd ((E t).mp h).1 (not_le.mpr ho)
    · have hhi : p ≤ hi := not_lt.mp ho
      rw [isAxis_pos mk s hd hhi]
      have hfar : 0 ≤ (hi - p) / d := div_nonneg (by linarith) (le_of_lt hd)
      obtain ⟨b1, b2, b3, b4, b5⟩ := bUpd_spec s (d > 1 ∨ hi - p < T * d) ((hi - p) / d)
      obtain ⟨f1, f2, f3⟩ := fUpd_spec (bUpd s (d > 1 ∨ hi - p < T * d) ((hi - p) / d)) (p ≤ lo)
        (if d > 1 ∨ lo - p < T * d then (lo - p) / d else T)
        (mk (if d > 1 ∨ lo - p < T * d then (lo - p) / d else T) lo)
      dsimp only
      refine ⟨?_, ?_, ?_, ?_⟩
      · intro t
        rw [E t, f2 t, f1, b3 t, b1]
        tauto
      · rw [f1]; exact b4
      · intro h; rw [f1]; exact b5 h hfar
      · rcases f3 with ⟨h1, h2⟩ | ⟨hc, h1, h2⟩
        · exact Or.inl ⟨by rw [h1, b1], by rw [h2, b2]⟩
        · refine Or.inr ⟨lo, Or.inl rfl, ?_, by rw [h2, h1]⟩
          intro hg
          rw [h1, if_pos (codeGuard_pos hd hg).2]
          field_simp
          ring

theorem iupd_reported {r : Line3 α} {b : Box3 α} {g : Prop} {p d lo hi : α} {mk : α → α → V3 α}
    (hmk : ∀ t f, (f = lo ∨ f = hi) → p + t * d = f → Reported r b t (mk t f)) (hg : g)
    {t t' : α} {q q' : V3 α} (hu : IUpd g p d lo hi mk t t' q q') (c : α → Prop)
    (h : c t → Reported r b t q) : c t' → Reported r b t' q' := by
  rcases hu with ⟨h1, h2⟩ | ⟨f, hf, he, hq⟩
  · rw [h1, h2]; exact h
  · intro _; rw [hq]; exact hmk t' f hf (he hg)

def isRun (T : α) (r : Line3 α) (b : Box3 α) (s0 : ISState α) : Bool × V3 α :=
  match isAxis T r.pos.x r.dir.x b.min.x b.max.x (mkX r b) s0 with
  | none => (false, s0.ip)
  | some s1 =>
    match isAxis T r.pos.y r.dir.y b.min.y b.max.y (mkY r b) s1 with
    | none => (false, s1.ip)
    | some s2 =>
      match isAxis T r.pos.z r.dir.z b.min.z b.max.z (mkZ r b) s2 with
      | none => (false, s2.ip)
      | some s3 => (decide (s3.tFrontMax <= s3.tBackMin), s3.ip)

theorem containsPt_iff (b : Box3 α) (p : V3 α) : b.containsPt p = true ↔ mem p b := by
  simp [Box3.containsPt, mem, and_assoc]

theorem is_empty {T : α} {r : Line3 α} {b : Box3 α} (he : b.Empty) (ip : V3 α) :
    intersects T b r ip = (false, ip) := by
  unfold intersects
  rw [(isEmpty_iff b).mpr he]
  rfl

theorem is_inside {T : α} {r : Line3 α} {b : Box3 α} (hne : ¬ b.Empty) (hin : mem r.pos b) (ip : V3 α) :
    intersects T b r ip = (true, r.pos) := by
  unfold intersects
  rw [isEmpty_false hne, (containsPt_iff b r.pos).mpr hin]
  rfl

theorem is_eq_run {T : α} {r : Line3 α} {b : Box3 α} (hne : ¬ b.Empty) (hout : ¬ mem r.pos b) (ip : V3 α) :
    intersects T b r ip = isRun T r b ⟨-1, T, ip⟩ := by
  have hc : b.containsPt r.pos = false := by
    cases h : b.containsPt r.pos
    · rfl
    · exact absurd ((containsPt_iff b r.pos).mp h) hout
  unfold intersects
  rw [isEmpty_false hne, hc]
  rfl

theorem is_run_master {T : α} {r : Line3 α} {b : Box3 α} (hne : ¬ b.Empty) (s0 : ISState α)
    (hF : s0.tFrontMax = -1) (hB : s0.tBackMin = T) (hT : 0 ≤ T) :
    ((isRun T r b s0).1 = true ↔ ∃ t, (0 ≤ t ∧ t ≤ T) ∧ isEff3 T r b t) ∧
    ((isRun T r b s0).1 = true → ∃ F B, F ≤ B ∧ 0 ≤ B ∧ B ≤ T ∧
      (∀ t, (F ≤ t ∧ t ≤ B) ↔ ((-1 ≤ t ∧ t ≤ T) ∧ isEff3 T r b t)) ∧
      (CodeGuardsOK T r b → 0 ≤ F → Reported r b F (isRun T r b s0).2)) := by
  obtain ⟨hx, hy, hz⟩ := (not_empty_iff b).mp hne
  have stepx := isAxis_step (T := T) (p := r.pos.x) (d := r.dir.x) (lo := b.min.x) (hi := b.max.x) (mkX r b) s0
  unfold isRun
  cases h1 : isAxis T r.pos.x r.dir.x b.min.x b.max.x (mkX r b) s0 with
  | none =>
    rw [h1] at stepx
    refine ⟨⟨fun h => absurd h (by simp), ?_⟩, fun h => absurd h (by simp)⟩
    rintro ⟨t, _, h, _⟩
    exact absurd h (stepx t)
  | some s1 =>
    rw [h1] at stepx
    dsimp only
    obtain ⟨ix, bx, nx, ux⟩ := stepx
    have stepy := isAxis_step (T := T) (p := r.pos.y) (d := r.dir.y) (lo := b.min.y) (hi := b.max.y) (mkY r b) s1
    cases h2 : isAxis T r.pos.y r.dir.y b.min.y b.max.y (mkY r b) s1 with
    | none =>
      rw [h2] at stepy
      refine ⟨⟨fun h => absurd h (by simp), ?_⟩, fun h => absurd h (by simp)⟩
      rintro ⟨t, _, _, h, _⟩
      exact absurd h (stepy t)
    | some s2 =>
      rw [h2] at stepy
      dsimp only
      obtain ⟨iy, by', ny, uy⟩ := stepy
      have stepz := isAxis_step (T := T) (p := r.pos.z) (d := r.dir.z) (lo := b.min.z) (hi := b.max.z) (mkZ r b) s2
      cases h3 : isAxis T r.pos.z r.dir.z b.min.z b.max.z (mkZ r b) s2 with
      | none =>
        rw [h3] at stepz
        refine ⟨⟨fun h => absurd h (by simp), ?_⟩, fun h => absurd h (by simp)⟩
        rintro ⟨t, _, _, _, h⟩
        exact absurd h (stepz t)
      | some s3 =>
        rw [h3] at stepz
        dsimp only
        obtain ⟨iz, bz, nz, uz⟩ := stepz
        simp only [decide_eq_true_eq]
        have inv : ∀ t, (s3.tFrontMax ≤ t ∧ t ≤ s3.tBackMin) ↔ ((-1 ≤ t ∧ t ≤ T) ∧ isEff3 T r b t) := by
          intro t
          rw [iz t, iy t, ix t, hF, hB]
          simp only [isEff3]
          tauto
        have hB3 : s3.tBackMin ≤ T := by rw [← hB]; exact le_trans bz (le_trans by' bx)
        have hB0 : 0 ≤ s3.tBackMin := nz (ny (nx (by rw [hB]; exact hT)))
        refine ⟨⟨fun h => ?_, ?_⟩, fun h => ⟨_, _, h, hB0, hB3, inv, ?_⟩⟩
        · refine ⟨max s3.tFrontMax 0, ⟨le_max_right _ _, le_trans (max_le h hB0) hB3⟩, ?_⟩
          have := (inv (max s3.tFrontMax 0)).mp ⟨le_max_left _ _, max_le h hB0⟩
          exact this.2
        · rintro ⟨t, ⟨h0, hT'⟩, he⟩
          have := (inv t).mpr ⟨⟨by linarith, hT'⟩, he⟩
          exact le_trans this.1 this.2
        · rintro ⟨gx, gy, gz⟩
          have e0 : 0 ≤ s0.tFrontMax → Reported r b s0.tFrontMax s0.ip :=
            fun h => absurd h (by rw [hF]; norm_num)
          have e1 := iupd_reported (fun t f => mkX_spec hx) gx ux (fun t => 0 ≤ t) e0
          have e2 := iupd_reported (fun t f => mkY_spec hy) gy uy (fun t => 0 ≤ t) e1
          exact iupd_reported (fun t f => mkZ_spec hz) gz uz (fun t => 0 ≤ t) e2

/-! ### Relating the coded contribution to the exact slab -/

theorem isEff_of_inSlab {T p d lo hi t : α} (h0 : 0 ≤ t)
    (h : inSlab p d lo hi t) : isEff T p d lo hi t := by
  refine ⟨fun hd => ?_, fun hd => ?_, fun hd => ?_⟩
  · have hs := (inSlab_pos hd).mp h
    have h1 : p ≤ hi := by have := h.2; nlinarith
    refine ⟨h1, fun _ => hs.2, fun _ => ?_⟩
    split_ifs with hg
    · exact hs.1
    · have : T * d ≤ lo - p := not_lt.mp (fun h' => hg (Or.inr h'))
      have : T ≤ (lo - p) / d := by rw [le_div_iff₀ hd]; exact this
      linarith [hs.1]
  · have hs := (inSlab_neg hd).mp h
    have h1 : lo ≤ p := by have := h.1; nlinarith
    refine ⟨h1, fun _ => hs.2, fun _ => ?_⟩
    split_ifs with hg
    · exact hs.1
    · have : hi - p ≤ T * d := not_lt.mp (fun h' => hg (Or.inr h'))
      have : T ≤ (hi - p) / d := by rw [le_div_iff_of_neg hd]; exact this
      linarith [hs.1]
  · subst hd; exact inSlab_zero.mp h

theorem isEff_iff_inSlab {T p d lo hi t : α} (h0 : 0 ≤ t)
    (hg : d = 0 ∨ CodeGuard T p d lo hi) : isEff T p d lo hi t ↔ inSlab p d lo hi t := by
  rcases lt_trichotomy d 0 with hd | hd | hd
  · obtain ⟨g1, g2⟩ := codeGuard_neg hd hg
    rw [inSlab_neg hd]
    constructor
    · intro h
      obtain ⟨h1, h2, h3⟩ := h.2.1 hd
      refine ⟨?_, h2 g1⟩
      by_cases hp : hi ≤ p
      · have := h3 hp; rwa [if_pos g2] at this
      · have : (hi - p) / d < 0 := div_neg_of_pos_of_neg (by linarith [not_le.mp hp]) hd
        linarith
    · intro h
      refine ⟨fun h' => absurd h' (not_lt.mpr (le_of_lt hd)), fun _ => ⟨?_, fun _ => h.2, fun _ => ?_⟩,
        fun h' => absurd h' (ne_of_lt hd)⟩
      · have : 0 ≤ (lo - p) / d := le_trans h0 h.2
        by_contra hc
        have : (lo - p) / d < 0 := div_neg_of_pos_of_neg (by linarith [not_le.mp hc]) hd
        linarith
      · rw [if_pos g2]; exact h.1
  · subst hd
    rw [inSlab_zero]
    exact ⟨fun h => h.2.2 rfl, fun h => ⟨fun h' => absurd h' (lt_irrefl _), fun h' => absurd h' (lt_irrefl _), fun _ => h⟩⟩
  · obtain ⟨g1, g2⟩ := codeGuard_pos hd hg
    rw [inSlab_pos hd]
    constructor
    · intro h
      obtain ⟨h1, h2, h3⟩ := h.1 hd
      refine ⟨?_, h2 g1⟩
      by_cases hp : p ≤ lo
      · have := h3 hp; rwa [if_pos g2] at this
      · have : (lo - p) / d < 0 := div_neg_of_neg_of_pos (by linarith [not_le.mp hp]) hd
        linarith
    · intro h
      refine ⟨fun _ => ⟨?_, fun _ => h.2, fun _ => ?_⟩, fun h' => absurd h' (not_lt.mpr (le_of_lt hd)),
        fun h' => absurd h' (ne_of_gt hd)⟩
      · have : 0 ≤ (hi - p) / d := le_trans h0 h.2
        by_contra hc
        have : (hi - p) / d < 0 := div_neg_of_neg_of_pos (by linarith [not_le.mp hc]) hd
        linarith
      · rw [if_pos g2]; exact h.1

theorem feEff_iff_inSlab {T p d lo hi t : α}
    (hg : d = 0 ∨ CodeGuard T p d lo hi) : feEff T p d lo hi t ↔ inSlab p d lo hi t := by
  rcases hg with hg | hg
  · subst hg
    simp only [feEff, not_codeGuard_zero, false_imp_iff, not_false_eq_true, true_imp_iff, true_and, inSlab_zero]
  · simp only [feEff, hg, true_imp_iff, not_true_eq_false, false_imp_iff, and_true]

theorem mem_pointAt_iff (r : Line3 α) (b : Box3 α) (t : α) :
    mem (pointAt r t) b ↔ inSlab r.pos.x r.dir.x b.min.x b.max.x t ∧
      inSlab r.pos.y r.dir.y b.min.y b.max.y t ∧ inSlab r.pos.z r.dir.z b.min.z b.max.z t := by
  simp only [mem, pointAt, inSlab]

theorem pointAt_zero (r : Line3 α) : pointAt r 0 = r.pos := by
  simp [pointAt]

/-- Strict guard on a non-zero axis confines the slab parameters to `(-T, T)`. -/
theorem strictGuard_window {T p d lo hi t : α} (hd : d ≠ 0) (hg : StrictGuard T p d lo hi)
    (h : inSlab p d lo hi t) : -T < t ∧ t < T := by
  obtain ⟨g1, g2⟩ := hg
  have hdp : 0 < |d| := abs_pos.mpr hd
  have h1 := abs_lt.mp g1
  have h2 := abs_lt.mp g2
  have : |t * d| < T * |d| := abs_lt.mpr ⟨by linarith [h.1], by linarith [h.2]⟩
  rw [abs_mul] at this
  have := lt_of_mul_lt_mul_right this (le_of_lt hdp)
  exact abs_lt.mp this

theorem strictGuard_codeGuard {T p d lo hi : α} (hg : StrictGuard T p d lo hi) : CodeGuard T p d lo hi :=
  Or.inr hg

theorem axisOK_codeGuard {T p d lo hi : α} (hg : AxisOK T p d lo hi) : d = 0 ∨ CodeGuard T p d lo hi :=
  hg.imp id strictGuard_codeGuard

/-- The first disjunct of the written guard, `|dir| > 1`, does not by itself
bound the quotient; it does when the differences `face - pos` are themselves at
most `TMAX` in magnitude (in floating point: when the subtraction does not
overflow).  Then the written guard implies the strict one. -/
theorem strictGuard_of_codeGuard {T p d lo hi : α} (hT : 0 < T) (hg : CodeGuard T p d lo hi)
    (h1 : |hi - p| ≤ T) (h2 : |lo - p| ≤ T) : StrictGuard T p d lo hi := by
  rcases hg with hg | hg
  · have : T < T * |d| := by nlinarith
    exact ⟨lt_of_le_of_lt h1 this, lt_of_le_of_lt h2 this⟩
  · exact hg

/-! ## From the coded sets to box membership -/

theorem feEff3_iff_mem {T : α} {r : Line3 α} {b : Box3 α} (hg : CodeGuardsOK T r b) (t : α) :
    feEff3 T r b t ↔ mem (pointAt r t) b := by
  rw [mem_pointAt_iff]
  unfold feEff3
  rw [feEff_iff_inSlab hg.1, feEff_iff_inSlab hg.2.1, feEff_iff_inSlab hg.2.2]

theorem isEff3_iff_mem {T : α} {r : Line3 α} {b : Box3 α} (hg : CodeGuardsOK T r b) {t : α} (h0 : 0 ≤ t) :
    isEff3 T r b t ↔ mem (pointAt r t) b := by
  rw [mem_pointAt_iff]
  unfold isEff3
  rw [isEff_iff_inSlab h0 hg.1, isEff_iff_inSlab h0 hg.2.1, isEff_iff_inSlab h0 hg.2.2]

theorem guardsOK_code {T : α} {r : Line3 α} {b : Box3 α} (hg : GuardsOK T r b) : CodeGuardsOK T r b :=
  ⟨axisOK_codeGuard hg.1, axisOK_codeGuard hg.2.1, axisOK_codeGuard hg.2.2⟩

/-- Under `GuardsOK` any parameter of a point of the box is inside `[-T, T]`
(or the direction is zero and the parameter is irrelevant). -/
theorem window_free {T : α} {r : Line3 α} {b : Box3 α} (hg : GuardsOK T r b) {t : α}
    (hm : mem (pointAt r t) b) :
    (-T < t ∧ t < T) ∨ (r.dir.x = 0 ∧ r.dir.y = 0 ∧ r.dir.z = 0) := by
  obtain ⟨mx, my, mz⟩ := (mem_pointAt_iff r b t).mp hm
  obtain ⟨gx, gy, gz⟩ := hg
  rcases gx with gx | gx
  · rcases gy with gy | gy
    · rcases gz with gz | gz
      · exact Or.inr ⟨gx, gy, gz⟩
      · have hd : r.dir.z ≠ 0 := by
          intro h; have := gz.1; rw [h, abs_zero, mul_zero] at this
          exact absurd this (not_lt.mpr (abs_nonneg _))
        exact Or.inl (strictGuard_window hd gz mz)
    · have hd : r.dir.y ≠ 0 := by
        intro h; have := gy.1; rw [h, abs_zero, mul_zero] at this
        exact absurd this (not_lt.mpr (abs_nonneg _))
      exact Or.inl (strictGuard_window hd gy my)
  · have hd : r.dir.x ≠ 0 := by
      intro h; have := gx.1; rw [h, abs_zero, mul_zero] at this
      exact absurd this (not_lt.mpr (abs_nonneg _))
    exact Or.inl (strictGuard_window hd gx mx)

theorem mem_pointAt_of_dir_zero {r : Line3 α} {b : Box3 α} {t : α}
    (h : r.dir.x = 0 ∧ r.dir.y = 0 ∧ r.dir.z = 0) (hm : mem (pointAt r t) b) (u : α) :
    mem (pointAt r u) b := by
  simpa [mem, pointAt, h.1, h.2.1, h.2.2] using hm

end ImathVerif.RayBox
