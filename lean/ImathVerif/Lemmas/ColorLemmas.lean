import ImathVerif.Model.ColorAlgo
import ImathVerif.Lemmas.FunLemmas
import Mathlib.Data.Rat.Floor
import Mathlib.Algebra.Order.Floor.Ring
import Mathlib.Tactic.Linarith
import Mathlib.Tactic.Ring
import Mathlib.Tactic.FieldSimp
import Mathlib.Tactic.LinearCombination
import Mathlib.Tactic.IntervalCases
/-!
Lemmas for C17, part 3: ImathColorAlgo.
-/
set_option linter.unusedSectionVars false
set_option linter.unusedSimpArgs false
set_option linter.unusedVariables false
namespace ImathVerif.ColorAlgo
section
variable {α : Type} [Field α] [LinearOrder α] [IsStrictOrderedRing α]

/-- modelling assumption: `int (std::floor (y))` is the exact floor -/
def IsFloor (fl : α → Int) : Prop := ∀ y : α, ((fl y : Int) : α) ≤ y ∧ y < ((fl y : Int) : α) + 1

theorem floor_eq_of {fl : α → Int} (hfl : IsFloor fl) (y : α) (k : Int)
    (h1 : (k : α) ≤ y) (h2 : y < (k : α) + 1) : fl y = k := by
  obtain ⟨a, b⟩ := hfl y
  have c1 : ((fl y : Int) : α) < ((k + 1 : Int) : α) := by push_cast; linarith
  have c2 : ((k : Int) : α) < ((fl y + 1 : Int) : α) := by push_cast; linarith
  have d1 := Int.cast_lt.mp c1
  have d2 := Int.cast_lt.mp c2
  omega

/-! Vec3 and Color4 copies agree; alpha is passed through -/
theorem hsv2rgbC4_eq_V3 (fl : α → Int) (c : C4 α) :
    hsv2rgbC4 fl c = ⟨(hsv2rgbV3 fl ⟨c.r, c.g, c.b⟩).x, (hsv2rgbV3 fl ⟨c.r, c.g, c.b⟩).y,
      (hsv2rgbV3 fl ⟨c.r, c.g, c.b⟩).z, c.a⟩ := by
  unfold hsv2rgbC4 hsv2rgbV3
  simp only []
  split <;> rfl

theorem rgb2hsvC4_eq_V3 (c : C4 α) :
    rgb2hsvC4 c = ⟨(rgb2hsvV3 ⟨c.r, c.g, c.b⟩).x, (rgb2hsvV3 ⟨c.r, c.g, c.b⟩).y,
      (rgb2hsvV3 ⟨c.r, c.g, c.b⟩).z, c.a⟩ := by
  unfold rgb2hsvC4 rgb2hsvV3
  simp only []
  generalize (if c.r > c.g then (if c.r > c.b then c.r else c.b) else (if c.g > c.b then c.g else c.b)) = M
  generalize (if c.r < c.g then (if c.r < c.b then c.r else c.b) else (if c.g < c.b then c.g else c.b)) = m
  split_ifs <;> rfl

theorem max3_eq (x y z : α) :
    (if x > y then (if x > z then x else z) else (if y > z then y else z)) = max x (max y z) := by
  split_ifs with h1 h2 h2
  · rw [max_eq_left]; exact max_le h1.le h2.le
  · have h2' : x ≤ z := not_lt.mp h2
    rw [max_eq_right (le_trans h1.le h2'), max_eq_right h2']
  · have h1' : x ≤ y := not_lt.mp h1
    rw [max_eq_left h2.le, max_eq_right h1']
  · have h1' : x ≤ y := not_lt.mp h1
    have h2' : y ≤ z := not_lt.mp h2
    rw [max_eq_right h2', max_eq_right (le_trans h1' h2')]

theorem min3_eq (x y z : α) :
    (if x < y then (if x < z then x else z) else (if y < z then y else z)) = min x (min y z) := by
  split_ifs with h1 h2 h2
  · rw [min_eq_left]; exact le_min h1.le h2.le
  · have h2' : z ≤ x := not_lt.mp h2
    rw [min_eq_right (le_trans h2' h1.le), min_eq_right h2']
  · have h1' : y ≤ x := not_lt.mp h1
    rw [min_eq_left h2.le, min_eq_right h1']
  · have h1' : y ≤ x := not_lt.mp h1
    have h2' : z ≤ y := not_lt.mp h2
    rw [min_eq_right h2', min_eq_right (le_trans h2' h1')]

/-- the `switch (i)` of `hsv2rgb_d` -/
def sextant (k : Int) (v p q t : α) : V3 α :=
  match k with
  | 0 => ⟨v, t, p⟩
  | 1 => ⟨q, v, p⟩
  | 2 => ⟨p, v, t⟩
  | 3 => ⟨p, q, v⟩
  | 4 => ⟨t, p, v⟩
  | 5 => ⟨v, p, q⟩
  | _ => ⟨0, 0, 0⟩

/-- `hsv2rgb_d` in sextant `k` (0 ≤ k ≤ 5): k ≤ 6·hue < k+1 -/
theorem hsv2rgbV3_sextant {fl : α → Int} (hfl : IsFloor fl) (h s v : α) (k : Int)
    (hk0 : 0 ≤ k) (hk5 : k ≤ 5) (h1 : (k : α) ≤ h * 6) (h2 : h * 6 < (k : α) + 1) :
    hsv2rgbV3 fl ⟨h, s, v⟩ =
      sextant k v (v * (1 - s)) (v * (1 - (s * (h * 6 - (k : α))))) (v * (1 - (s * (1 - (h * 6 - (k : α)))))) := by
  have hne : h ≠ 1 := by
    intro h0; rw [h0] at h2
    have : (k : α) ≤ 5 := by exact_mod_cast hk5
    linarith
  unfold hsv2rgbV3
  simp only [beq_iff_eq, hne, if_false]
  rw [floor_eq_of hfl (h * 6) k h1 h2]
  interval_cases k <;> rfl

/-- hue-wrap convention: hue = 1 is treated as hue = 0 -/
theorem hsv2rgbV3_hue_one (fl : α → Int) (s v : α) :
    hsv2rgbV3 fl ⟨1, s, v⟩ = hsv2rgbV3 fl ⟨0, s, v⟩ := by
  unfold hsv2rgbV3
  simp

/-- grey axis: saturation 0 gives (v, v, v) for every hue in [0, 1] -/
theorem hsv2rgbV3_grey {fl : α → Int} (hfl : IsFloor fl) (h v : α) (h0 : 0 ≤ h) (h1 : h ≤ 1) :
    hsv2rgbV3 fl ⟨h, 0, v⟩ = ⟨v, v, v⟩ := by
  rcases h1.lt_or_eq with hlt | heq
  · have hb := hfl (h * 6)
    set k := fl (h * 6) with hk
    have hk0 : 0 ≤ k := by
      have : ((-1 : Int) : α) < (k : α) := by push_cast; linarith [hb.2]
      have := Int.cast_lt.mp this; omega
    have hk5 : k ≤ 5 := by
      have : (k : α) < ((6 : Int) : α) := by push_cast; linarith [hb.1]
      have := Int.cast_lt.mp this; omega
    rw [hsv2rgbV3_sextant hfl h 0 v k hk0 hk5 hb.1 hb.2]
    interval_cases k <;> simp [sextant]
  · rw [heq, hsv2rgbV3_hue_one]
    rw [hsv2rgbV3_sextant hfl 0 0 v 0 (le_refl _) (by norm_num) (by simp) (by simp)]
    simp [sextant]

/-- grey axis / black: rgb2hsv of (v, v, v) is (0, 0, v) -/
theorem rgb2hsvV3_grey (v : α) : rgb2hsvV3 ⟨v, v, v⟩ = ⟨0, 0, v⟩ := by
  unfold rgb2hsvV3
  by_cases hv : v = 0 <;> simp [hv]

/-- `rgb2hsv_d` off the grey axis, in terms of M = max, m = min -/
theorem rgb2hsvV3_eval (x y z M m : α) (hMdef : max x (max y z) = M) (hmdef : min x (min y z) = m)
    (hM0 : M ≠ 0) (hMm : M ≠ m) :
    rgb2hsvV3 ⟨x, y, z⟩ =
      ⟨(if (if x = M then (y - z) / (M - m) else if y = M then 2 + (z - x) / (M - m)
              else 4 + (x - y) / (M - m)) / 6 < 0
        then (if x = M then (y - z) / (M - m) else if y = M then 2 + (z - x) / (M - m)
              else 4 + (x - y) / (M - m)) / 6 + 1
        else (if x = M then (y - z) / (M - m) else if y = M then 2 + (z - x) / (M - m)
              else 4 + (x - y) / (M - m)) / 6),
       (M - m) / M, M⟩ := by
  have hsat : (M - m) / M ≠ 0 := div_ne_zero (sub_ne_zero.mpr hMm) hM0
  unfold rgb2hsvV3
  simp only []
  rw [max3_eq, min3_eq, hMdef, hmdef]
  simp only [bne_iff_ne, ne_eq, hM0, not_false_eq_true, if_true, hsat, beq_iff_eq]

/-- `hsv2rgb_d` at hue (k+f)/6, saturation (M-m)/M, value M -/
theorem hsv2rgbV3_leaf {fl : α → Int} (hfl : IsFloor fl) (M m f : α) (k : Int) (hM : M ≠ 0)
    (hk0 : 0 ≤ k) (hk5 : k ≤ 5) (hf0 : 0 ≤ f) (hf1 : f < 1) :
    hsv2rgbV3 fl ⟨((k : α) + f) / 6, (M - m) / M, M⟩ =
      sextant k M m (M - (M - m) * f) (m + (M - m) * f) := by
  have e : ((k : α) + f) / 6 * 6 = (k : α) + f := by field_simp
  rw [hsv2rgbV3_sextant hfl _ _ _ k hk0 hk5 (by rw [e]; linarith) (by rw [e]; linarith), e]
  congr 1
  · field_simp; ring
  · field_simp; ring
  · field_simp; ring

/-- hsv2rgb ∘ rgb2hsv = id on every colour with non-negative components (in particular the unit cube) -/
theorem hsv2rgb_rgb2hsv_V3 {fl : α → Int} (hfl : IsFloor fl) (x y z : α)
    (hx : 0 ≤ x) (hy : 0 ≤ y) (hz : 0 ≤ z) :
    hsv2rgbV3 fl (rgb2hsvV3 ⟨x, y, z⟩) = ⟨x, y, z⟩ := by
  by_cases hgrey : x = y ∧ y = z
  · obtain ⟨h1, h2⟩ := hgrey
    subst h1; subst h2
    rw [rgb2hsvV3_grey, hsv2rgbV3_grey hfl 0 x (le_refl _) (by norm_num)]
  -- off the grey axis: M > m ≥ 0
  set M := max x (max y z) with hMdef
  set m := min x (min y z) with hmdef
  have hxM : x ≤ M := le_max_left _ _
  have hyM : y ≤ M := le_trans (le_max_left _ _) (le_max_right _ _)
  have hzM : z ≤ M := le_trans (le_max_right _ _) (le_max_right _ _)
  have hmx : m ≤ x := min_le_left _ _
  have hmy : m ≤ y := le_trans (min_le_right _ _) (min_le_left _ _)
  have hmz : m ≤ z := le_trans (min_le_right _ _) (min_le_right _ _)
  have hm0 : 0 ≤ m := le_min hx (le_min hy hz)
  have hMm : M ≠ m := by
    intro h
    apply hgrey
    constructor <;> linarith
  have hlt : m < M := lt_of_le_of_ne (le_trans hmx hxM) (Ne.symm hMm)
  have hMpos : 0 < M := lt_of_le_of_lt hm0 hlt
  have hM0 : M ≠ 0 := hMpos.ne'
  have hr : 0 < M - m := sub_pos.mpr hlt
  have hr0 : M - m ≠ 0 := hr.ne'
  rw [rgb2hsvV3_eval x y z M m rfl rfl hM0 hMm]
  by_cases c1 : x = M
  · rw [if_pos c1]
    have hmin : m = min y z := by
      rw [hmdef]; exact min_eq_right (le_trans (min_le_left _ _) (by rw [c1]; exact hyM))
    by_cases c2 : z ≤ y
    · have hmz' : m = z := by rw [hmin]; exact min_eq_right c2
      have hnn : ¬ ((y - z) / (M - m) / 6 < 0) := by
        rw [not_lt]; apply div_nonneg (div_nonneg (by linarith) hr.le) (by norm_num)
      rw [if_neg hnn]
      by_cases c3 : y = M
      · -- h = 1, sextant 1 with f = 0
        have e : (y - z) / (M - m) / 6 = (((1 : Int) : α) + 0) / 6 := by
          rw [c3, hmz', div_self (by rw [← hmz']; exact hr0)]; push_cast; ring
        rw [e, hsv2rgbV3_leaf hfl M m 0 1 hM0 (by norm_num) (by norm_num) (le_refl _) (by norm_num)]
        simp only [sextant, mul_zero, sub_zero, V3.mk.injEq]
        exact ⟨c1.symm, c3.symm, hmz'⟩
      · have hyl : y < M := lt_of_le_of_ne hyM c3
        have e : (y - z) / (M - m) / 6 = (((0 : Int) : α) + (y - z) / (M - m)) / 6 := by push_cast; ring
        rw [e, hsv2rgbV3_leaf hfl M m ((y - z) / (M - m)) 0 hM0 (le_refl _) (by norm_num)
          (div_nonneg (by linarith) hr.le) (by rw [div_lt_one hr]; linarith)]
        simp only [sextant, V3.mk.injEq]
        refine ⟨c1.symm, ?_, hmz'⟩
        rw [mul_div_cancel₀ _ hr0]; linarith
    · have c2' : y < z := not_le.mp c2
      have hmy' : m = y := by rw [hmin]; exact min_eq_left c2'.le
      have hneg : (y - z) / (M - m) / 6 < 0 := by
        apply div_neg_of_neg_of_pos (div_neg_of_neg_of_pos (by linarith) hr) (by norm_num)
      rw [if_pos hneg]
      have e : (y - z) / (M - m) / 6 + 1 = (((5 : Int) : α) + ((y - z) / (M - m) + 1)) / 6 := by
        push_cast; ring
      have hf0 : 0 ≤ (y - z) / (M - m) + 1 := by
        have : -1 ≤ (y - z) / (M - m) := by rw [le_div_iff₀ hr]; linarith
        linarith
      have hf1 : (y - z) / (M - m) + 1 < 1 := by
        have : (y - z) / (M - m) < 0 := div_neg_of_neg_of_pos (by linarith) hr
        linarith
      rw [e, hsv2rgbV3_leaf hfl M m _ 5 hM0 (by norm_num) (le_refl _) hf0 hf1]
      simp only [sextant, V3.mk.injEq]
      refine ⟨c1.symm, hmy', ?_⟩
      rw [mul_add, mul_div_cancel₀ _ hr0]; linarith
  · have hxl : x < M := lt_of_le_of_ne hxM c1
    rw [if_neg c1]
    by_cases c2 : y = M
    · rw [if_pos c2]
      have hmin : m = min x z := by
        rw [hmdef]
        rcases le_total x z with h | h
        · rw [min_eq_left h, min_eq_left]; exact le_min (le_trans hxM (by rw [c2])) h
        · rw [min_eq_right h, min_eq_right]
          · exact min_eq_right (by rw [c2]; exact hzM)
          · exact le_trans (min_le_right _ _) h
      by_cases c3 : x ≤ z
      · have hmx' : m = x := by rw [hmin]; exact min_eq_left c3
        have hnn : ¬ ((2 + (z - x) / (M - m)) / 6 < 0) := by
          rw [not_lt]; apply div_nonneg (add_nonneg (by norm_num) (div_nonneg (by linarith) hr.le)) (by norm_num)
        rw [if_neg hnn]
        by_cases c4 : z = M
        · have e : (2 + (z - x) / (M - m)) / 6 = (((3 : Int) : α) + 0) / 6 := by
            rw [c4, hmx', div_self (by rw [← hmx']; exact hr0)]; push_cast; ring
          rw [e, hsv2rgbV3_leaf hfl M m 0 3 hM0 (by norm_num) (by norm_num) (le_refl _) (by norm_num)]
          simp only [sextant, mul_zero, sub_zero, V3.mk.injEq]
          exact ⟨hmx', c2.symm, c4.symm⟩
        · have hzl : z < M := lt_of_le_of_ne hzM c4
          have e : (2 + (z - x) / (M - m)) / 6 = (((2 : Int) : α) + (z - x) / (M - m)) / 6 := by push_cast; ring
          rw [e, hsv2rgbV3_leaf hfl M m ((z - x) / (M - m)) 2 hM0 (by norm_num) (by norm_num)
            (div_nonneg (by linarith) hr.le) (by rw [div_lt_one hr]; linarith)]
          simp only [sextant, V3.mk.injEq]
          refine ⟨hmx', c2.symm, ?_⟩
          rw [mul_div_cancel₀ _ hr0]; linarith
      · have c3' : z < x := not_le.mp c3
        have hmz' : m = z := by rw [hmin]; exact min_eq_right c3'.le
        have hgt : -1 < (z - x) / (M - m) := by rw [lt_div_iff₀ hr]; linarith
        have hlt0 : (z - x) / (M - m) < 0 := div_neg_of_neg_of_pos (by linarith) hr
        have hnn : ¬ ((2 + (z - x) / (M - m)) / 6 < 0) := by
          rw [not_lt]; apply div_nonneg (by linarith) (by norm_num)
        rw [if_neg hnn]
        have e : (2 + (z - x) / (M - m)) / 6 = (((1 : Int) : α) + ((z - x) / (M - m) + 1)) / 6 := by push_cast; ring
        rw [e, hsv2rgbV3_leaf hfl M m _ 1 hM0 (by norm_num) (by norm_num) (by linarith) (by linarith)]
        simp only [sextant, V3.mk.injEq]
        refine ⟨?_, c2.symm, hmz'⟩
        rw [mul_add, mul_div_cancel₀ _ hr0]; linarith
    · have hyl : y < M := lt_of_le_of_ne hyM c2
      rw [if_neg c2]
      have hzM' : z = M := by
        rcases max_choice x (max y z) with h | h
        · exact absurd (hMdef.trans h).symm c1
        · rcases max_choice y z with h' | h'
          · exact absurd (hMdef.trans (h.trans h')).symm c2
          · exact (hMdef.trans (h.trans h')).symm
      have hmin : m = min x y := by
        rw [hmdef]
        rcases le_total x y with h | h
        · rw [min_eq_left h, min_eq_left]; exact le_min h (by rw [hzM']; exact hxM)
        · rw [min_eq_right h, min_eq_right]
          · exact min_eq_left (by rw [hzM']; exact hyM)
          · exact le_trans (min_le_left _ _) h
      by_cases c3 : y ≤ x
      · have hmy' : m = y := by rw [hmin]; exact min_eq_right c3
        have hnn : ¬ ((4 + (x - y) / (M - m)) / 6 < 0) := by
          rw [not_lt]; apply div_nonneg (add_nonneg (by norm_num) (div_nonneg (by linarith) hr.le)) (by norm_num)
        rw [if_neg hnn]
        have e : (4 + (x - y) / (M - m)) / 6 = (((4 : Int) : α) + (x - y) / (M - m)) / 6 := by push_cast; ring
        rw [e, hsv2rgbV3_leaf hfl M m ((x - y) / (M - m)) 4 hM0 (by norm_num) (by norm_num)
          (div_nonneg (by linarith) hr.le) (by rw [div_lt_one hr]; linarith)]
        simp only [sextant, V3.mk.injEq]
        refine ⟨?_, hmy', hzM'.symm⟩
        rw [mul_div_cancel₀ _ hr0]; linarith
      · have c3' : x < y := not_le.mp c3
        have hmx' : m = x := by rw [hmin]; exact min_eq_left c3'.le
        have hgt : -1 < (x - y) / (M - m) := by rw [lt_div_iff₀ hr]; linarith
        have hlt0 : (x - y) / (M - m) < 0 := div_neg_of_neg_of_pos (by linarith) hr
        have hnn : ¬ ((4 + (x - y) / (M - m)) / 6 < 0) := by
          rw [not_lt]; apply div_nonneg (by linarith) (by norm_num)
        rw [if_neg hnn]
        have e : (4 + (x - y) / (M - m)) / 6 = (((3 : Int) : α) + ((x - y) / (M - m) + 1)) / 6 := by push_cast; ring
        rw [e, hsv2rgbV3_leaf hfl M m _ 3 hM0 (by norm_num) (by norm_num) (by linarith) (by linarith)]
        simp only [sextant, V3.mk.injEq]
        refine ⟨hmx', ?_, hzM'.symm⟩
        rw [mul_add, mul_div_cancel₀ _ hr0]; linarith

/-- rgb2hsv ∘ hsv2rgb = id for 0 ≤ hue < 1, saturation > 0, value > 0 (conventions for the
excluded boundary: `hsv2rgbV3_hue_one` (hue 1 ≡ hue 0), `hsv2rgbV3_grey` + `rgb2hsvV3_grey`
(saturation 0 or value 0 ↦ hue 0, saturation 0)). -/
theorem rgb2hsv_hsv2rgb_V3 {fl : α → Int} (hfl : IsFloor fl) (h s v : α)
    (hh0 : 0 ≤ h) (hh1 : h < 1) (hs : 0 < s) (hv : 0 < v) :
    rgb2hsvV3 (hsv2rgbV3 fl ⟨h, s, v⟩) = ⟨h, s, v⟩ := by
  have hb := hfl (h * 6)
  set k := fl (h * 6) with hk
  have hk0 : 0 ≤ k := by
    have : ((-1 : Int) : α) < (k : α) := by push_cast; linarith [hb.2]
    have := Int.cast_lt.mp this; omega
  have hk5 : k ≤ 5 := by
    have : (k : α) < ((6 : Int) : α) := by push_cast; linarith [hb.1]
    have := Int.cast_lt.mp this; omega
  rw [hsv2rgbV3_sextant hfl h s v k hk0 hk5 hb.1 hb.2]
  set f := h * 6 - (k : α) with hf
  have hf0 : 0 ≤ f := by linarith [hb.1]
  have hf1 : f < 1 := by linarith [hb.2]
  have hh : h = ((k : α) + f) / 6 := by rw [hf]; ring
  set p := v * (1 - s) with hp
  set q := v * (1 - s * f) with hq
  set t := v * (1 - s * (1 - f)) with ht
  have hvs : 0 < v * s := mul_pos hv hs
  have hpv : p < v := by rw [hp]; nlinarith
  have hvp : v - p = v * s := by rw [hp]; ring
  have hvp0 : v - p ≠ 0 := by rw [hvp]; exact hvs.ne'
  have hpt : p ≤ t := by rw [hp, ht]; nlinarith
  have htv : t < v := by rw [ht]; nlinarith
  have hpq : p < q := by rw [hp, hq]; nlinarith
  have hqv : q ≤ v := by rw [hq]; nlinarith
  have hsat : (v - p) / v = s := by rw [hvp]; field_simp
  have htp : (t - p) / (v - p) = f := by rw [hvp, ht, hp]; field_simp; ring
  have hpq' : (p - q) / (v - p) = f - 1 := by rw [hvp, hq, hp]; field_simp; ring
  have hone : (v - p) / (v - p) = 1 := div_self hvp0
  have hv0 : v ≠ 0 := hv.ne'
  have hvpne : v ≠ p := hpv.ne'
  interval_cases k
  · -- ⟨v, t, p⟩
    simp only [sextant]
    rw [rgb2hsvV3_eval v t p v p (by rw [max_eq_left (max_le htv.le hpv.le)])
      (by rw [min_eq_right hpt, min_eq_right hpv.le]) hv0 hvpne, hsat]
    simp only [if_true, htp]
    rw [if_neg (by rw [not_lt]; positivity), hh]; push_cast; ring_nf
  · simp only [sextant]
    rw [rgb2hsvV3_eval q v p v p (by rw [max_eq_left hpv.le, max_eq_right hqv])
      (by rw [min_eq_right hpv.le, min_eq_right hpq.le]) hv0 hvpne, hsat]
    by_cases hq1 : q = v
    · have hf00 : f = 0 := by
        have : v * (s * f) = 0 := by rw [hq] at hq1; linear_combination -hq1
        rcases mul_eq_zero.mp this with h' | h'
        · exact absurd h' hv0
        · rcases mul_eq_zero.mp h' with h'' | h''
          · exact absurd h'' hs.ne'
          · exact h''
      simp only [hq1, if_true, hone]
      rw [if_neg (by norm_num), hh, hf00]; push_cast; ring_nf
    · simp only [hq1, if_false, if_true, hpq']
      rw [if_neg (by rw [not_lt]; apply div_nonneg (by linarith) (by norm_num)), hh]; push_cast; ring_nf
  · simp only [sextant]
    rw [rgb2hsvV3_eval p v t v p (by rw [max_eq_left htv.le, max_eq_right hpv.le])
      (by rw [min_eq_left (le_min hpv.le hpt)]) hv0 hvpne, hsat]
    simp only [hvpne.symm, if_false, if_true, htp]
    rw [if_neg (by rw [not_lt]; apply div_nonneg (by linarith) (by norm_num)), hh]; push_cast; ring_nf
  · simp only [sextant]
    rw [rgb2hsvV3_eval p q v v p (by rw [max_eq_right hqv, max_eq_right hpv.le])
      (by rw [min_eq_left (le_min hpq.le hpv.le)]) hv0 hvpne, hsat]
    by_cases hq1 : q = v
    · have hf00 : f = 0 := by
        have : v * (s * f) = 0 := by rw [hq] at hq1; linear_combination -hq1
        rcases mul_eq_zero.mp this with h' | h'
        · exact absurd h' hv0
        · rcases mul_eq_zero.mp h' with h'' | h''
          · exact absurd h'' hs.ne'
          · exact h''
      simp only [hvpne.symm, if_false, hq1, if_true, hone]
      rw [if_neg (by norm_num), hh, hf00]; push_cast; ring_nf
    · simp only [hvpne.symm, if_false, hq1, hpq']
      rw [if_neg (by rw [not_lt]; apply div_nonneg (by linarith) (by norm_num)), hh]; push_cast; ring_nf
  · simp only [sextant]
    rw [rgb2hsvV3_eval t p v v p (by rw [max_eq_right hpv.le, max_eq_right htv.le])
      (by rw [min_eq_left hpv.le, min_eq_right hpt]) hv0 hvpne, hsat]
    simp only [htv.ne, hvpne.symm, if_false, htp]
    rw [if_neg (by rw [not_lt]; apply div_nonneg (by linarith) (by norm_num)), hh]; push_cast; ring_nf
  · simp only [sextant]
    rw [rgb2hsvV3_eval v p q v p (by rw [max_eq_left (max_le hpv.le hqv)])
      (by rw [min_eq_left hpq.le, min_eq_right hpv.le]) hv0 hvpne, hsat]
    simp only [if_true, hpq']
    rw [if_pos (by apply div_neg_of_neg_of_pos (by linarith) (by norm_num)), hh]; push_cast; ring_nf
end

section
variable {α : Type} [Field α] [LinearOrder α] [IsStrictOrderedRing α]

/-- Color4 round trips follow from the Vec3 ones; alpha is untouched -/
theorem hsv2rgb_rgb2hsv_C4 {fl : α → Int} (hfl : IsFloor fl) (c : C4 α)
    (hr : 0 ≤ c.r) (hg : 0 ≤ c.g) (hb : 0 ≤ c.b) : hsv2rgbC4 fl (rgb2hsvC4 c) = c := by
  rw [hsv2rgbC4_eq_V3, rgb2hsvC4_eq_V3]
  simp only []
  rw [show (⟨(rgb2hsvV3 ⟨c.r, c.g, c.b⟩).x, (rgb2hsvV3 ⟨c.r, c.g, c.b⟩).y, (rgb2hsvV3 ⟨c.r, c.g, c.b⟩).z⟩ : V3 α)
    = rgb2hsvV3 ⟨c.r, c.g, c.b⟩ from rfl, hsv2rgb_rgb2hsv_V3 hfl _ _ _ hr hg hb]

theorem rgb2hsv_hsv2rgb_C4 {fl : α → Int} (hfl : IsFloor fl) (c : C4 α)
    (hh0 : 0 ≤ c.r) (hh1 : c.r < 1) (hs : 0 < c.g) (hv : 0 < c.b) : rgb2hsvC4 (hsv2rgbC4 fl c) = c := by
  rw [rgb2hsvC4_eq_V3, hsv2rgbC4_eq_V3]
  simp only []
  rw [show (⟨(hsv2rgbV3 fl ⟨c.r, c.g, c.b⟩).x, (hsv2rgbV3 fl ⟨c.r, c.g, c.b⟩).y, (hsv2rgbV3 fl ⟨c.r, c.g, c.b⟩).z⟩ : V3 α)
    = hsv2rgbV3 fl ⟨c.r, c.g, c.b⟩ from rfl, rgb2hsv_hsv2rgb_V3 hfl _ _ _ hh0 hh1 hs hv]

/-! integer element types -/

/-- the Vec3 and Color4 integer wrappers agree on r, g, b when both scale the same way -/
theorem rgb2hsvC4I_eq_V3I (si : Int → α) (so : α → Int) (c : C4 Int) :
    rgb2hsvC4I si so c = ⟨(rgb2hsvV3I si so ⟨c.r, c.g, c.b⟩).x, (rgb2hsvV3I si so ⟨c.r, c.g, c.b⟩).y,
      (rgb2hsvV3I si so ⟨c.r, c.g, c.b⟩).z, so (si c.a)⟩ := by
  unfold rgb2hsvC4I rgb2hsvV3I
  simp only []
  rw [rgb2hsvC4_eq_V3]

theorem hsv2rgbC4I_eq_V3I (fl : α → Int) (si : Int → α) (so : α → Int) (c : C4 Int) :
    hsv2rgbC4I fl si so c = ⟨(hsv2rgbV3I fl si so ⟨c.r, c.g, c.b⟩).x, (hsv2rgbV3I fl si so ⟨c.r, c.g, c.b⟩).y,
      (hsv2rgbV3I fl si so ⟨c.r, c.g, c.b⟩).z, so (si c.a)⟩ := by
  unfold hsv2rgbC4I hsv2rgbV3I
  simp only []
  rw [hsv2rgbC4_eq_V3]

/-- scaling by the type maximum and back is the identity in exact arithmetic, PROVIDED the
divisor and the multiplier are the same number (`float (max) = double (max) = max`) -/
theorem scale_roundtrip (toT : α → Int) (hT : ∀ n : Int, toT (n : α) = n) (M : α) (hM : M ≠ 0) (a : Int) :
    toT ((a : α) / M * M) = a := by
  rw [div_mul_cancel₀ _ hM, hT]

/-- alpha passes through the Color4 integer wrappers when `float (max) = max` exactly -/
theorem rgb2hsvC4I_alpha (toT : α → Int) (hT : ∀ n : Int, toT (n : α) = n) (M : α) (hM : M ≠ 0) (c : C4 Int) :
    (rgb2hsvC4I (fun n => (n : α) / M) (fun x => toT (x * M)) c).a = c.a := by
  rw [rgb2hsvC4I_eq_V3I]; exact scale_roundtrip toT hT M hM c.a

theorem hsv2rgbC4I_alpha (fl : α → Int) (toT : α → Int) (hT : ∀ n : Int, toT (n : α) = n) (M : α) (hM : M ≠ 0)
    (c : C4 Int) :
    (hsv2rgbC4I fl (fun n => (n : α) / M) (fun x => toT (x * M)) c).a = c.a := by
  rw [hsv2rgbC4I_eq_V3I]; exact scale_roundtrip toT hT M hM c.a
end

/-- the former defect `Color4<int>` (the wrappers divided by `float (INT_MAX) = 2^31` and multiplied
by `INT_MAX`, so alpha 5 came back as 4): with `double (INT_MAX) = INT_MAX` alpha is preserved -/
theorem rgb2hsvC4I_int_alpha_fixed (r g b a : Int) :
    (rgb2hsvC4I (α := ℚ) (fun n => (n : ℚ) / 2147483647) (fun x => ⌊x * 2147483647⌋) ⟨r, g, b, a⟩).a = a :=
  rgb2hsvC4I_alpha (α := ℚ) Int.floor Int.floor_intCast 2147483647 (by norm_num) ⟨r, g, b, a⟩

/-- why the divisor matters: dividing by 2^31 and multiplying by 2^31 - 1 loses one -/
theorem scale_mismatch_loses_one : ⌊((5 : Int) : ℚ) / 2147483648 * 2147483647⌋ = 4 := by
  rw [Int.floor_eq_iff]; norm_num

section
variable {α : Type} [Field α] [LinearOrder α] [IsStrictOrderedRing α]
/-- exact-arithmetic version of one packed channel: `(PackedColor) ((k * (1/255)) * 255) = k` -/
theorem packed_channel_exact (toU : α → Nat) (hU : ∀ n : Nat, toU (n : α) = n) (k : Nat) :
    toU (((k : α) * (1 / 255)) * 255) = k := by
  have : ((k : α) * (1 / 255)) * 255 = (k : α) := by field_simp
  rw [this, hU]

theorem rgb2packed_packed2rgb_exact_C4 (toU : α → Nat) (hU : ∀ n : Nat, toU (n : α) = n) (p : Nat) :
    rgb2packedC4 toU (packed2rgbC4 (α := α) p) =
      (p &&& 0xFF) ||| u32 (((p &&& 0xFF00) >>> 8) <<< 8) ||| u32 (((p &&& 0xFF0000) >>> 16) <<< 16) |||
        u32 (((p &&& 0xFF000000) >>> 24) <<< 24) := by
  unfold rgb2packedC4 packed2rgbC4
  simp only [packed_channel_exact toU hU]

theorem rgb2packed_packed2rgb_exact_V3 (toU : α → Nat) (hU : ∀ n : Nat, toU (n : α) = n) (p : Nat) :
    rgb2packedV3 toU (packed2rgbV3 (α := α) p) =
      (p &&& 0xFF) ||| u32 (((p &&& 0xFF00) >>> 8) <<< 8) ||| u32 (((p &&& 0xFF0000) >>> 16) <<< 16) |||
        0xFF000000 := by
  unfold rgb2packedV3 packed2rgbV3
  simp only [packed_channel_exact toU hU]
end


open ImathVerif.Fun in
/-- reassembling the four byte fields gives the word back -/
theorem bytes_reassemble (p : Nat) (hp : p < 4294967296) :
    (p &&& 0xFF) ||| u32 (((p &&& 0xFF00) >>> 8) <<< 8) ||| u32 (((p &&& 0xFF0000) >>> 16) <<< 16) |||
        u32 (((p &&& 0xFF000000) >>> 24) <<< 24) = p := by
  have e0 : p &&& 0xFF = p % 256 := by
    have := and_field p 0 8; simpa using this
  have e1 : p &&& 0xFF00 = (p / 256 % 256) * 256 := by
    have := and_field p 8 8; simpa using this
  have e2 : p &&& 0xFF0000 = (p / 65536 % 256) * 65536 := by
    have := and_field p 16 8; simpa using this
  have e3 : p &&& 0xFF000000 = (p / 16777216 % 256) * 16777216 := by
    have := and_field p 24 8; simpa using this
  rw [e0, e1, e2, e3]
  simp only [Nat.shiftRight_eq_div_pow, Nat.shiftLeft_eq, u32]
  have c0 : p % 256 < 2 ^ 8 := by omega
  have s1 : p / 256 % 256 * 256 / 2 ^ 8 * 2 ^ 8 % 4294967296 = (p / 256 % 256) <<< 8 := by
    rw [Nat.shiftLeft_eq]; omega
  have s2 : p / 65536 % 256 * 65536 / 2 ^ 16 * 2 ^ 16 % 4294967296 = (p / 65536 % 256) <<< 16 := by
    rw [Nat.shiftLeft_eq]
    have hc : p / 65536 % 256 < 256 := Nat.mod_lt _ (by decide)
    generalize p / 65536 % 256 = c at hc ⊢
    rw [show (2:Nat) ^ 16 = 65536 from rfl, Nat.mul_div_cancel _ (by decide), Nat.mod_eq_of_lt (by omega)]
  have s3 : p / 16777216 % 256 * 16777216 / 2 ^ 24 * 2 ^ 24 % 4294967296 = (p / 16777216 % 256) <<< 24 := by
    rw [Nat.shiftLeft_eq]
    have hc : p / 16777216 % 256 < 256 := Nat.mod_lt _ (by decide)
    generalize p / 16777216 % 256 = c at hc ⊢
    rw [show (2:Nat) ^ 24 = 16777216 from rfl, Nat.mul_div_cancel _ (by decide), Nat.mod_eq_of_lt (by omega)]
  rw [s1, s2, s3]
  rw [Nat.or_comm (p % 256), ← Nat.shiftLeft_add_eq_or_of_lt c0]
  have c1 : (p / 256 % 256) <<< 8 + p % 256 < 2 ^ 16 := by rw [Nat.shiftLeft_eq]; omega
  rw [Nat.or_comm _ ((p / 65536 % 256) <<< 16), ← Nat.shiftLeft_add_eq_or_of_lt c1]
  have c2 : (p / 65536 % 256) <<< 16 + ((p / 256 % 256) <<< 8 + p % 256) < 2 ^ 24 := by
    simp only [Nat.shiftLeft_eq]; omega
  rw [Nat.or_comm _ ((p / 16777216 % 256) <<< 24), ← Nat.shiftLeft_add_eq_or_of_lt c2]
  simp only [Nat.shiftLeft_eq]; omega

open ImathVerif.Fun in
theorem bytes_reassemble_V3 (p : Nat) (hp : p < 4294967296) (h : p / 16777216 = 255) :
    (p &&& 0xFF) ||| u32 (((p &&& 0xFF00) >>> 8) <<< 8) ||| u32 (((p &&& 0xFF0000) >>> 16) <<< 16) |||
        0xFF000000 = p := by
  have e3 : u32 (((p &&& 0xFF000000) >>> 24) <<< 24) = 0xFF000000 := by
    have := and_field p 24 8
    have e : p &&& 0xFF000000 = (p / 16777216 % 256) * 16777216 := by simpa using this
    rw [e, h]; decide
  have := bytes_reassemble p hp
  rw [e3] at this
  exact this

/-! ### ranges ("with hsv in [0,1]") -/
section Ranges
variable {α : Type} [Field α] [LinearOrder α] [IsStrictOrderedRing α]

/-- `rgb2hsv_d` maps the unit cube into [0,1) × [0,1] × [0,1] -/
theorem rgb2hsvV3_range (x y z : α) (hx0 : 0 ≤ x) (hx1 : x ≤ 1) (hy0 : 0 ≤ y) (hy1 : y ≤ 1) (hz0 : 0 ≤ z) (hz1 : z ≤ 1) :
    0 ≤ (rgb2hsvV3 ⟨x, y, z⟩).x ∧ (rgb2hsvV3 ⟨x, y, z⟩).x < 1 ∧
    0 ≤ (rgb2hsvV3 ⟨x, y, z⟩).y ∧ (rgb2hsvV3 ⟨x, y, z⟩).y ≤ 1 ∧
    0 ≤ (rgb2hsvV3 ⟨x, y, z⟩).z ∧ (rgb2hsvV3 ⟨x, y, z⟩).z ≤ 1 := by
  have hxM : x ≤ max x (max y z) := le_max_left _ _
  have hyM : y ≤ max x (max y z) := le_trans (le_max_left _ _) (le_max_right _ _)
  have hzM : z ≤ max x (max y z) := le_trans (le_max_right _ _) (le_max_right _ _)
  have hmx : min x (min y z) ≤ x := min_le_left _ _
  have hmy : min x (min y z) ≤ y := le_trans (min_le_right _ _) (min_le_left _ _)
  have hmz : min x (min y z) ≤ z := le_trans (min_le_right _ _) (min_le_right _ _)
  have hM1 : max x (max y z) ≤ 1 := max_le hx1 (max_le hy1 hz1)
  have hm0 : 0 ≤ min x (min y z) := le_min hx0 (le_min hy0 hz0)
  generalize hMd : max x (max y z) = M at *
  generalize hmd : min x (min y z) = m at *
  have hmM : m ≤ M := le_trans hmx hxM
  have hM0' : 0 ≤ M := le_trans hx0 hxM
  by_cases hM0 : M = 0
  · have : rgb2hsvV3 ⟨x, y, z⟩ = ⟨0, 0, M⟩ := by
      unfold rgb2hsvV3; simp only []; rw [max3_eq, min3_eq, hMd, hmd]; simp [hM0]
    rw [this]; simp [hM0]
  · by_cases hMm : M = m
    · have : rgb2hsvV3 ⟨x, y, z⟩ = ⟨0, 0, M⟩ := by
        unfold rgb2hsvV3; simp only []; rw [max3_eq, min3_eq, hMd, hmd]; simp [hM0, hMm]
      rw [this]; simp [hM0', hM1]
    · rw [rgb2hsvV3_eval x y z M m hMd hmd hM0 hMm]
      have hr : 0 < M - m := sub_pos.mpr (lt_of_le_of_ne hmM (Ne.symm hMm))
      have hMpos : 0 < M := lt_of_le_of_ne hM0' (Ne.symm hM0)
      have hH : -1 ≤ (if x = M then (y - z) / (M - m) else if y = M then 2 + (z - x) / (M - m)
              else 4 + (x - y) / (M - m)) ∧
          (if x = M then (y - z) / (M - m) else if y = M then 2 + (z - x) / (M - m)
              else 4 + (x - y) / (M - m)) ≤ 5 := by
        have b1 : ∀ u v : α, m ≤ u → u ≤ M → m ≤ v → v ≤ M → -1 ≤ (u - v) / (M - m) ∧ (u - v) / (M - m) ≤ 1 := by
          intro u v h1 h2 h3 h4
          constructor
          · rw [le_div_iff₀ hr]; linarith
          · rw [div_le_one hr]; linarith
        split_ifs
        · have := b1 y z hmy hyM hmz hzM; constructor <;> linarith
        · have := b1 z x hmz hzM hmx hxM; constructor <;> linarith
        · have := b1 x y hmx hxM hmy hyM; constructor <;> linarith
      generalize (if x = M then (y - z) / (M - m) else if y = M then 2 + (z - x) / (M - m)
              else 4 + (x - y) / (M - m)) = H at hH ⊢
      obtain ⟨hH1, hH2⟩ := hH
      simp only []
      refine ⟨?_, ?_, ?_, ?_, hM0', hM1⟩
      · split_ifs with hneg <;> linarith
      · split_ifs with hneg <;> linarith
      · exact div_nonneg hr.le hM0'
      · rw [div_le_one hMpos]; linarith

/-- `hsv2rgb_d` maps [0,1]³ into the unit cube -/
theorem hsv2rgbV3_range {fl : α → Int} (hfl : IsFloor fl) (h s v : α) (hh0 : 0 ≤ h) (hh1 : h ≤ 1)
    (hs0 : 0 ≤ s) (hs1 : s ≤ 1) (hv0 : 0 ≤ v) (hv1 : v ≤ 1) :
    0 ≤ (hsv2rgbV3 fl ⟨h, s, v⟩).x ∧ (hsv2rgbV3 fl ⟨h, s, v⟩).x ≤ 1 ∧
    0 ≤ (hsv2rgbV3 fl ⟨h, s, v⟩).y ∧ (hsv2rgbV3 fl ⟨h, s, v⟩).y ≤ 1 ∧
    0 ≤ (hsv2rgbV3 fl ⟨h, s, v⟩).z ∧ (hsv2rgbV3 fl ⟨h, s, v⟩).z ≤ 1 := by
  have key : ∀ h' : α, 0 ≤ h' → h' < 1 →
      0 ≤ (hsv2rgbV3 fl ⟨h', s, v⟩).x ∧ (hsv2rgbV3 fl ⟨h', s, v⟩).x ≤ 1 ∧
      0 ≤ (hsv2rgbV3 fl ⟨h', s, v⟩).y ∧ (hsv2rgbV3 fl ⟨h', s, v⟩).y ≤ 1 ∧
      0 ≤ (hsv2rgbV3 fl ⟨h', s, v⟩).z ∧ (hsv2rgbV3 fl ⟨h', s, v⟩).z ≤ 1 := by
    intro h' h0 h1
    have hb := hfl (h' * 6)
    set k := fl (h' * 6) with hk
    have hk0 : 0 ≤ k := by
      have : ((-1 : Int) : α) < (k : α) := by push_cast; linarith [hb.2]
      have := Int.cast_lt.mp this; omega
    have hk5 : k ≤ 5 := by
      have : (k : α) < ((6 : Int) : α) := by push_cast; linarith [hb.1]
      have := Int.cast_lt.mp this; omega
    rw [hsv2rgbV3_sextant hfl h' s v k hk0 hk5 hb.1 hb.2]
    set f := h' * 6 - (k : α) with hf
    have hf0 : 0 ≤ f := by linarith [hb.1]
    have hf1 : f ≤ 1 := by linarith [hb.2]
    have hsf0 : 0 ≤ s * f := mul_nonneg hs0 hf0
    have hsf1 : s * f ≤ 1 := by nlinarith
    have hsg0 : 0 ≤ s * (1 - f) := mul_nonneg hs0 (by linarith)
    have hsg1 : s * (1 - f) ≤ 1 := by nlinarith
    have hp0 : 0 ≤ v * (1 - s) := mul_nonneg hv0 (by linarith)
    have hp1 : v * (1 - s) ≤ 1 := by nlinarith
    have hq0 : 0 ≤ v * (1 - s * f) := mul_nonneg hv0 (by linarith)
    have hq1 : v * (1 - s * f) ≤ 1 := by nlinarith
    have ht0 : 0 ≤ v * (1 - s * (1 - f)) := mul_nonneg hv0 (by linarith)
    have ht1 : v * (1 - s * (1 - f)) ≤ 1 := by nlinarith
    interval_cases k <;> simp only [sextant] <;> exact ⟨by assumption, by assumption, by assumption, by assumption, by assumption, by assumption⟩
  rcases hh1.lt_or_eq with hlt | heq
  · exact key h hh0 hlt
  · rw [heq, hsv2rgbV3_hue_one]; exact key 0 (le_refl _) (by norm_num)
end Ranges
end ImathVerif.ColorAlgo
