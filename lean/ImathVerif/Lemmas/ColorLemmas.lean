import ImathVerif.Model.ColorAlgo
import Mathlib.Algebra.Order.Floor.Ring
import Mathlib.Tactic.Linarith
import Mathlib.Tactic.Ring
import Mathlib.Tactic.FieldSimp
import Mathlib.Tactic.LinearCombination
import Mathlib.Tactic.IntervalCases
/-!
Lemmas for C17, part 3: ImathColorAlgo.
-/
set_option linter.unusedSectionVars false
set_option linter.unusedSimpArgs false
set_option linter.unusedVariables false
namespace ImathVerif.ColorAlgo
section
variable {α : Type} [Field α] [LinearOrder α] [IsStrictOrderedRing α]

/-- modelling assumption: `int (std::floor (y))` is the exact floor -/
def IsFloor (fl : α → Int) : Prop := ∀ y : α, ((fl y : Int) : α) ≤ y ∧ y < ((fl y : Int) : α) + 1

theorem floor_eq_of {fl : α → Int} (hfl : IsFloor fl) (y : α) (k : Int)
    (h1 : (k : α) ≤ y) (h2 : y < (k : α) + 1) : fl y = k := by
  obtain ⟨a, b⟩ := hfl y
  have c1 : ((fl y : Int) : α) < ((k + 1 : Int) : α) := by push_cast; linarith
  have c2 : ((k : Int) : α) < ((fl y + 1 : Int) : α) := by push_cast; linarith
  have d1 := Int.cast_lt.mp c1
  have d2 := Int.cast_lt.mp c2
  omega

/-! Vec3 and Color4 copies agree; alpha is passed through -/
theorem hsv2rgbC4_eq_V3 (fl : α → Int) (c : C4 α) :
    hsv2rgbC4 fl c = ⟨(hsv2rgbV3 fl ⟨c.r, c.g, c.b⟩).x, (hsv2rgbV3 fl ⟨c.r, c.g, c.b⟩).y,
      (hsv2rgbV3 fl ⟨c.r, c.g, c.b⟩).z, c.a⟩ := by
  unfold hsv2rgbC4 hsv2rgbV3
  simp only []
  split <;> rfl

theorem rgb2hsvC4_eq_V3 (c : C4 α) :
    rgb2hsvC4 c = ⟨(rgb2hsvV3 ⟨c.r, c.g, c.b⟩).x, (rgb2hsvV3 ⟨c.r, c.g, c.b⟩).y,
      (rgb2hsvV3 ⟨c.r, c.g, c.b⟩).z, c.a⟩ := by
  unfold rgb2hsvC4 rgb2hsvV3
  simp only []
  generalize (if c.r > c.g then (if c.r > c.b then c.r else c.b) else (if c.g > c.b then c.g else c.b)) = M
  generalize (if c.r < c.g then (if c.r < c.b then c.r else c.b) else (if c.g < c.b then c.g else c.b)) = m
  split_ifs <;> rfl

theorem max3_eq (x y z : α) :
    (if x > y then (if x > z then x else z) else (if y > z then y else z)) = max x (max y z) := by
  split_ifs with h1 h2 h2
  · rw [max_eq_left]; exact max_le h1.le h2.le
  · have h2' : x ≤ z := not_lt.mp h2
    rw [max_eq_right (le_trans h1.le h2'), max_eq_right h2']
  · have h1' : x ≤ y := not_lt.mp h1
    rw [max_eq_left h2.le, max_eq_right h1']
  · have h1' : x ≤ y := not_lt.mp h1
    have h2' : y ≤ z := not_lt.mp h2
    rw [max_eq_right h2', max_eq_right (le_trans h1' h2')]

theorem min3_eq (x y z : α) :
    (if x < y then (if x < z then x else z) else (if y < z then y else z)) = min x (min y z) := by
  split_ifs with h1 h2 h2
  · rw [min_eq_left]; exact le_min h1.le h2.le
  · have h2' : z ≤ x := not_lt.mp h2
    rw [min_eq_right (le_trans h2' h1.le), min_eq_right h2']
  · have h1' : y ≤ x := not_lt.mp h1
    rw [min_eq_left h2.le, min_eq_right h1']
  · have h1' : y ≤ x := not_lt.mp h1
    have h2' : z ≤ y := not_lt.mp h2
    rw [min_eq_right h2', min_eq_right (le_trans h2' h1')]
end
end ImathVerif.ColorAlgo
