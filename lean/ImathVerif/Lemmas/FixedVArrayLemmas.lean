import ImathVerif.Model.FixedVArray
import ImathVerif.Lemmas.FixedArrayInv
/-!
`FixedVArray` against nested Python lists (C19, clause "FixedVArray selects the same elements as nested lists").
-/
namespace ImathVerif.FixedVArray
open ImathVerif ImathVerif.FixedArray

/-- number of rows of every allocation -/
def vshape (h : VHeap) : List Nat := h.map List.length

/-- a view is well formed: its allocation exists, every item it addresses lies in it -/
structure VView.WF (sh : List Nat) (v : VView) : Prop where
  lenOk : (v.length : Int) ≤ PY_SSIZE_T_MAX
  inBuf : ∃ n, sh[v.buf]? = some n ∧
    match v.indices with
    | none => v.length ≤ n
    | some idx => idx.length = v.length ∧ (∀ r ∈ idx, r < n) ∧ idx.Pairwise (· < ·)

def rowAt (h : VHeap) (b p : Nat) : List Int := ((h[b]?.getD [])[p]?).getD []

/-- `_indices[i]`, or `i` for an unmasked array -/
def VView.slotOf (v : VView) (i : Nat) : Nat :=
  match v.indices with
  | some idx => idx.getD i 0
  | none => i

/-- what Python sees: `[list(va[i]) for i in range(len(va))]` -/
def VView.toNested (h : VHeap) (v : VView) : List (List Int) :=
  (List.range v.length).map (fun i => rowAt h v.buf (v.slotOf i))

theorem VView.toNested_length (h : VHeap) (v : VView) : (v.toNested h).length = v.length := by
  simp [VView.toNested]

theorem VView.toNested_getElem? (h : VHeap) (v : VView) (i : Nat) (hi : i < v.length) :
    (v.toNested h)[i]? = some (rowAt h v.buf (v.slotOf i)) := by
  simp [VView.toNested, hi]

theorem VView.WF.slot {sh : List Nat} {v : VView} (w : v.WF sh) {i : Nat} (hi : i < v.length) :
    v.slot i = .ok (v.slotOf i) ∧ ∃ n, sh[v.buf]? = some n ∧ v.slotOf i < n := by
  obtain ⟨n, hn, hm⟩ := w.inBuf
  unfold VView.slot VView.slotOf
  cases hidx : v.indices with
  | none =>
    simp only [hidx] at hm ⊢
    exact ⟨trivial, n, hn, by omega⟩
  | some idx =>
    simp only [hidx] at hm ⊢
    have hil : i < idx.length := by omega
    refine ⟨by simp [List.getElem?_eq_getElem hil, List.getD_eq_getElem?_getD], n, hn, ?_⟩
    apply hm.2.1
    simp [List.getD_eq_getElem?_getD, List.getElem?_eq_getElem hil]

theorem vshape_getElem? (h : VHeap) (b : Nat) : (vshape h)[b]? = (h[b]?).map List.length := by
  simp [vshape]

theorem rd_rowAt {h : VHeap} {b p n : Nat} (hb : (vshape h)[b]? = some n) (hp : p < n) :
    h.rd b p = .ok (rowAt h b p) := by
  rw [vshape_getElem?] at hb
  cases hrows : h[b]? with
  | none => simp [hrows] at hb
  | some rows =>
    simp [hrows] at hb
    subst hb
    simp [VHeap.rd, rowAt, hrows, List.getElem?_eq_getElem hp]

/-- reading item `i < len` never leaves the allocation -/
theorem VView.WF.getItem {h : VHeap} {v : VView} (w : v.WF (vshape h)) {i : Nat} (hi : i < v.length) :
    v.getItem h i = .ok (rowAt h v.buf (v.slotOf i)) := by
  obtain ⟨hs, n, hn, hlt⟩ := w.slot hi
  unfold VView.getItem
  rw [hs]
  exact rd_rowAt hn hlt

/-- **`va[i]` for an int `i` of any sign**: the row `nested[i]`, `IndexError` in exactly the same cases -/
theorem getRow_refines {h : VHeap} {v : VView} (w : v.WF (vshape h)) (i : Int) :
    getRow h v i = (match PyList.getitem (v.toNested h) i with
      | some r => .ok r
      | none => .error .indexError) := by
  have hspec := canonicalIndex_pylist (v.toNested h) i
  rw [VView.toNested_length] at hspec
  unfold getRow rowSlot
  cases hc : canonicalIndex v.length i with
  | ok k =>
    simp only [hc] at hspec ⊢
    have hk := canonicalIndex_lt hc
    obtain ⟨hs, n, hn, hlt⟩ := w.slot hk
    rw [hs]
    simp only
    rw [rd_rowAt hn hlt, ← hspec, VView.toNested_getElem? h v k hk]
  | error e =>
    simp only [hc] at hspec ⊢
    rw [← hspec, (canonicalIndex_error hc).1]

/-- `va.size[i]`: `len(nested[i])` -/
theorem sizeGet_refines {h : VHeap} {v : VView} (w : v.WF (vshape h)) (i : Int) :
    sizeGet h v i = (match PyList.getitem (v.toNested h) i with
      | some r => .ok r.length
      | none => .error .indexError) := by
  unfold sizeGet
  rw [getRow_refines w i]
  cases PyList.getitem (v.toNested h) i <;> rfl

theorem vshape_append (h : VHeap) (rows : List (List Int)) : vshape (h ++ [rows]) = vshape h ++ [rows.length] := by
  simp [vshape]

theorem allocV_WF (h : VHeap) (rows : List (List Int)) (hl : (rows.length : Int) ≤ PY_SSIZE_T_MAX) :
    (allocV h rows).2.WF (vshape (allocV h rows).1) ∧ (allocV h rows).2.toNested (allocV h rows).1 = rows := by
  constructor
  · refine ⟨hl, rows.length, ?_, ?_⟩
    · simp [allocV, vshape]
    · simp [allocV]
  · simp only [allocV, VView.toNested, VView.slotOf, rowAt]
    apply List.ext_getElem?
    intro i
    by_cases hi : i < rows.length
    · simp [hi]
    · simp [hi]

/-- **`va[start:stop:step]`** whenever the subscript is accepted — every FORWARD slice is
    (`varray_forward_slices_accepted`): a fresh variable array holding copies of `nested[start:stop:step]` -/
theorem getsliceV_refines {h : VHeap} {v : VView} (w : v.WF (vshape h)) {a b c : Option Int}
    (hc : ∀ x, c = some x → -PY_SSIZE_T_MAX ≤ x) {h' : VHeap} {f : VView}
    (hr : getsliceV h v (.slice a b c) = .ok (h', f)) :
    PyList.getslice (v.toNested h) a b c = some (f.toNested h') ∧ f.WF (vshape h') ∧ f.writable = true ∧
      f.indices = none ∧ f.buf = h.length ∧ (∃ rows, h' = h ++ [rows]) := by
  unfold getsliceV extractV at hr
  cases hs : extractSliceIndices v.length (.slice a b c) (-1) 0 with
  | error e => simp [hs] at hr
  | ok s =>
    simp only [hs] at hr
    have hat : ∀ i, i < s.slicelength → s.at i < v.length := fun i hi => slice_at_lt' w.lenOk hs i hi
    have hspec := extract_slice_spec w.lenOk hc hs
    have hread : mapE (v.readSliceRow h s) (List.range s.slicelength)
        = .ok ((List.range s.slicelength).map (fun i => rowAt h v.buf (v.slotOf (s.at i)))) := by
      apply mapE_ok_of_forall
      intro i hi
      have hi' : i < s.slicelength := by simpa using hi
      have := w.getItem (hat i hi')
      simpa [VView.readSliceRow, VView.sliceSlot, VView.getItem] using this
    rw [hread] at hr
    simp only [Except.ok.injEq] at hr
    have hlen : (((List.range s.slicelength).map (fun i => rowAt h v.buf (v.slotOf (s.at i)))).length : Int)
        ≤ PY_SSIZE_T_MAX := by
      have h1 := slicelength_le w.lenOk hs
      have := w.lenOk
      simp only [List.length_map, List.length_range]
      omega
    have hA := allocV_WF h _ hlen
    rw [hr] at hA
    simp only at hA
    refine ⟨?_, hA.1, ?_, ?_, ?_, ?_⟩
    · unfold PyList.getslice
      rw [VView.toNested_length, hspec, hA.2]
      simp only [Option.map_some, Option.some.injEq]
      apply pick_range_map
      · intro i hi; rw [VView.toNested_length]; exact hat i hi
      · intro i hi; exact VView.toNested_getElem? h v _ (hat i hi)
    · have := congrArg (fun p => p.2.writable) hr; simpa [allocV] using this.symm
    · have := congrArg (fun p => p.2.indices) hr; simpa [allocV] using this.symm
    · have := congrArg (fun p => p.2.buf) hr; simpa [allocV] using this.symm
    · have := congrArg (fun p => p.1) hr; exact ⟨_, by simpa [allocV] using this.symm⟩

/-- **`va[mask]`** on an unmasked array: a reference — same allocation, same writability — to the selected items -/
theorem getmaskV_refines {h : VHeap} {v : VView} (w : v.WF (vshape h)) (hun : v.indices = none) (bits : List Int)
    (hlen : v.length = bits.length) :
    ∃ m, getmaskV v bits = .ok m ∧ m.toNested h = PyList.select (v.toNested h) bits ∧ m.WF (vshape h) ∧
      m.buf = v.buf ∧ m.writable = v.writable := by
  have hm : v.isMasked = false := by simp [VView.isMasked, hun]
  refine ⟨⟨v.buf, (maskIndices bits).length, v.writable, some (maskIndices bits), v.length⟩,
    by simp [getmaskV, hm, hlen], ?_, ?_, rfl, rfl⟩
  · unfold PyList.select
    rw [← maskIndices_eq_spec]
    rw [pick_map_of_lt (v.toNested h) (maskIndices bits) (fun j => rowAt h v.buf j)]
    · simp only [VView.toNested, VView.slotOf]
      exact map_getD_range (maskIndices bits) 0 (fun r => rowAt h v.buf r)
    · intro j hj
      have hjl : j < v.length := by have := maskIndices_mem hj; omega
      rw [VView.toNested_getElem? h v j hjl]
      simp [VView.slotOf, hun]
  · obtain ⟨n, hn, hp⟩ := w.inBuf
    simp only [hun] at hp
    refine ⟨?_, n, hn, ?_⟩
    · have h1 : (maskIndices bits).length ≤ bits.length := by
        unfold maskIndices
        have := List.length_filter_le (fun i => bits[i]! != 0) (List.range bits.length)
        simpa using this
      have := w.lenOk
      simp only
      omega
    · simp only
      exact ⟨trivial, fun r hr => by have := maskIndices_mem hr; omega, maskIndices_pairwise _⟩

/-- every write through a read-only variable array (or a reference / copy derived from one, which inherits
    `_writable`) raises and leaves every row as it was -/
theorem varray_readonly (h : VHeap) (v d : VView) (idx : PyIdx) (bits data sizes : List Int) (k : Nat)
    (hw : v.writable = false) :
    setRow h v idx data = (h, some .readOnly) ∧ setRowMask h v bits data = (h, some .readOnly) ∧
    setVec h v idx d = (h, some .readOnly) ∧ setVecMask h v bits d = (h, some .readOnly) ∧
    setSize h v idx k = (h, some .readOnly) ∧ setSizeMask h v bits k = (h, some .readOnly) ∧
    setSizeVec h v idx sizes = (h, some .readOnly) ∧ setSizeVecMask h v bits sizes = (h, some .readOnly) ∧
    (∀ i j x r, getRow h v i = .ok r → setElem h v i j x = .error .readOnly) := by
  refine ⟨by simp [setRow, hw], by simp [setRowMask, hw], by simp [setVec, hw], by simp [setVecMask, hw],
    by simp [setSize, hw], by simp [setSizeMask, hw], by simp [setSizeVec, hw], by simp [setSizeVecMask, hw], ?_⟩
  intro i j x r hr
  unfold getRow at hr
  unfold setElem
  cases hs : rowSlot v i with
  | error e => simp [hs] at hr
  | ok p =>
    simp only [hs] at hr ⊢
    simp [hr, hw]

end ImathVerif.FixedVArray
