import ImathVerif.Spec.Rand48Spec
/-!
Helper lemmas for C18 (core Lean only): the bit operations of the model turned
into `+ * / %` (then `omega`), exactness of the `- 1` subtraction on the bit
model, one-call refinement.
-/
namespace ImathVerif.Rand48
open ImathVerif.Rand48.Spec
set_option exponentiation.threshold 2000

/-- `a <<< i ||| b = a * 2^i + b` when `b < 2^i` -/
theorem shl_or (a b i : Nat) (h : b < 2 ^ i) : (a <<< i) ||| b = a * 2 ^ i + b := by
  rw [← Nat.shiftLeft_add_eq_or_of_lt h, Nat.shiftLeft_eq]

/-- the three limbs assembled with `<<` and `|` are the packed 48-bit value -/
theorem or_pack (s : St) (h : s.wf) : (s.s2 <<< 32) ||| (s.s1 <<< 16) ||| s.s0 = pack s := by
  obtain ⟨h0, h1, h2⟩ := h
  rw [Nat.or_assoc, shl_or s.s1 s.s0 16 (by omega), shl_or s.s2 _ 32 (by omega)]
  unfold pack; omega

theorem pack_lt (s : St) (h : s.wf) : pack s < 281474976710656 := by
  obtain ⟨h0, h1, h2⟩ := h; unfold pack; omega

theorem lcg_lt (X : Nat) : lcg X < 281474976710656 := by unfold lcg; omega

/-- rand48Next is one LCG step on the packed value and keeps limbs in range -/
theorem next_pack (s : St) (h : s.wf) : pack (rand48Next s) = lcg (pack s) ∧ (rand48Next s).wf := by
  simp only [rand48Next, or_pack s h, lcg]
  generalize 0x5deece66d * pack s + 0xb = y
  simp only [pack, St.wf, u64, u16, Nat.shiftRight_eq_div_pow]
  omega

/-- the value nrand48 assembles from the limbs is the packed value shifted right by 17 -/
theorem nrand_val (s : St) (h : s.wf) : (s.s2 <<< 15) ||| (s.s1 >>> 1) = pack s >>> 17 := by
  obtain ⟨h0, h1, h2⟩ := h
  rw [shl_or _ _ 15 (by simp only [Nat.shiftRight_eq_div_pow]; omega)]
  simp only [pack, Nat.shiftRight_eq_div_pow]; omega

/-- the pattern erand48 assembles: exponent 0x3ff, the 48 bits, the top 4 bits again -/
theorem erand_packed (s : St) (h : s.wf) :
    erand48Packed s = 0x3ff * 4503599627370496 + erandNum (pack s) := by
  obtain ⟨h0, h1, h2⟩ := h
  unfold erand48Packed erandNum
  rw [Nat.or_assoc, Nat.or_assoc, Nat.or_assoc,
    shl_or s.s0 _ 4 (by simp only [Nat.shiftRight_eq_div_pow]; omega),
    shl_or s.s1 _ 20 (by simp only [Nat.shiftRight_eq_div_pow]; omega),
    shl_or s.s2 _ 36 (by simp only [Nat.shiftRight_eq_div_pow]; omega),
    shl_or 0x3ff _ 52 (by simp only [Nat.shiftRight_eq_div_pow]; omega)]
  simp only [pack, Nat.shiftRight_eq_div_pow]; omega

theorem erandNum_bounds (X : Nat) (h : X < 281474976710656) :
    erandNum X < 4503599627370496 ∧ 16 * X ≤ erandNum X ∧ erandNum X < 16 * X + 16 := by
  simp only [erandNum, Nat.shiftRight_eq_div_pow]; omega

/-! ### the `- 1` subtraction is exact -/

/-- encoding `m / 2^p` (`2^k ≤ m < 2^(k+1)`, `m < 2^p`) as a normal number:
the significand `m * 2^(p-k)` lies in `[2^p, 2^(p+1))`, and scaling it by
`2^(c+k)` gives `m * 2^(c+p)` -/
theorem enc_core (p c m k : Nat) (h1 : 2 ^ k ≤ m) (h2 : m < 2 ^ (k + 1)) (hm : m < 2 ^ p) :
    k < p ∧ 2 ^ p ≤ m * 2 ^ (p - k) ∧ m * 2 ^ (p - k) < 2 ^ (p + 1) ∧
    (m * 2 ^ (p - k)) * 2 ^ (c + k) = m * 2 ^ (c + p) := by
  have hk : k < p := (Nat.pow_lt_pow_iff_right (by decide : 1 < 2)).mp (Nat.lt_of_le_of_lt h1 hm)
  have e1 : 2 ^ k * 2 ^ (p - k) = 2 ^ p := by rw [← Nat.pow_add]; congr 1; omega
  have e2 : 2 ^ (k + 1) * 2 ^ (p - k) = 2 ^ (p + 1) := by rw [← Nat.pow_add]; congr 1; omega
  refine ⟨hk, ?_, ?_, ?_⟩
  · rw [← e1]; exact Nat.mul_le_mul_right _ h1
  · rw [← e2]; exact Nat.mul_lt_mul_of_pos_right h2 (Nat.pow_pos (by decide))
  · rw [Nat.mul_assoc, ← Nat.pow_add]; congr 2; omega

/-- `dblOfFrac52 m` is a finite double below 1.0 denoting exactly `m / 2^52`
(`dblVal1074` is the value times `2^1074`; `2^1074 / 2^52 = 2^1022`) -/
theorem dblOfFrac52_val (m : Nat) (hm : m < 4503599627370496) :
    dblVal1074 (dblOfFrac52 m) = m * 2 ^ 1022 ∧ dblOfFrac52 m < 0x3ff0000000000000 := by
  unfold dblOfFrac52
  split
  · subst m; exact ⟨by rw [Nat.zero_mul]; decide, by decide⟩
  · rename_i h0
    have hk1 : 2 ^ Nat.log2 m ≤ m := Nat.log2_self_le h0
    have hk2 : m < 2 ^ (Nat.log2 m + 1) := Nat.lt_log2_self
    simp only []
    generalize Nat.log2 m = k at *
    obtain ⟨hk, b1, b2, e⟩ := enc_core 52 970 m k hk1 hk2 (by omega)
    rw [Nat.shiftLeft_eq m, shl_or _ _ 52 (Nat.mod_lt _ (by decide))]
    generalize m * 2 ^ (52 - k) = t at *
    have he : ((971 + k) * 2 ^ 52 + t % 4503599627370496) / 4503599627370496 % 2048 = 971 + k := by omega
    have hm' : ((971 + k) * 2 ^ 52 + t % 4503599627370496) % 4503599627370496 = t - 4503599627370496 := by omega
    refine ⟨?_, by omega⟩
    unfold dblVal1074
    simp only [he, hm']
    rw [if_neg (by omega)]
    have : 4503599627370496 + (t - 4503599627370496) = t := by omega
    rw [this, show 971 + k - 1 = 970 + k by omega, e]

/-- `fltOfFrac23 m` is a finite float below 1.0f denoting exactly `m / 2^23`
(`fltVal149` is the value times `2^149`; `2^149 / 2^23 = 2^126`) -/
theorem fltOfFrac23_val (m : Nat) (hm : m < 8388608) :
    fltVal149 (fltOfFrac23 m) = m * 2 ^ 126 ∧ fltOfFrac23 m < 0x3f800000 := by
  unfold fltOfFrac23
  split
  · subst m; exact ⟨by rw [Nat.zero_mul]; decide, by decide⟩
  · rename_i h0
    have hk1 : 2 ^ Nat.log2 m ≤ m := Nat.log2_self_le h0
    have hk2 : m < 2 ^ (Nat.log2 m + 1) := Nat.lt_log2_self
    simp only []
    generalize Nat.log2 m = k at *
    obtain ⟨hk, b1, b2, e⟩ := enc_core 23 103 m k hk1 hk2 (by omega)
    rw [Nat.shiftLeft_eq m, shl_or _ _ 23 (Nat.mod_lt _ (by decide))]
    generalize m * 2 ^ (23 - k) = t at *
    have he : ((104 + k) * 2 ^ 23 + t % 8388608) / 8388608 % 256 = 104 + k := by omega
    have hm' : ((104 + k) * 2 ^ 23 + t % 8388608) % 8388608 = t - 8388608 := by omega
    refine ⟨?_, by omega⟩
    unfold fltVal149
    simp only [he, hm']
    rw [if_neg (by omega)]
    have : 8388608 + (t - 8388608) = t := by omega
    rw [this, show 104 + k - 1 = 103 + k by omega, e]

/-- value of a double in [1,2): exponent field 0x3ff, fraction `m` -/
theorem dblVal_one_plus (m : Nat) (hm : m < 4503599627370496) :
    dblVal1074 (0x3ff * 4503599627370496 + m) = (4503599627370496 + m) * 2 ^ 1022 := by
  have he : (0x3ff * 4503599627370496 + m) / 4503599627370496 % 2048 = 1023 := by omega
  have hm' : (0x3ff * 4503599627370496 + m) % 4503599627370496 = m := by omega
  unfold dblVal1074
  simp only [he, hm']
  rfl

/-- value of a float in [1,2): exponent field 0x7f, fraction `m` -/
theorem fltVal_one_plus (m : Nat) (hm : m < 8388608) :
    fltVal149 (0x7f * 8388608 + m) = (8388608 + m) * 2 ^ 126 := by
  have he : (0x7f * 8388608 + m) / 8388608 % 256 = 127 := by omega
  have hm' : (0x7f * 8388608 + m) % 8388608 = m := by omega
  unfold fltVal149
  simp only [he, hm']
  rfl

/-! ### seeding -/

theorem srand_pack (seed : Nat) : pack (srand48 seed) = srandX seed ∧ (srand48 seed).wf := by
  simp only [srand48, srandX, pack, St.wf, u16, Nat.shiftRight_eq_div_pow]; omega

theorem and_ffff (t : Nat) : t &&& 0xFFFF = t % 65536 := Nat.and_two_pow_sub_one_eq_mod t 16

theorem r48Init_pack (seed : Nat) : pack (r48Init seed) = r48InitX seed ∧ (r48Init seed).wf := by
  simp only [r48Init, r48InitX, u64]
  generalize seed * 0xa5a573a5 % 18446744073709551616 ^^^ 0x5a5a5a5a = t
  simp only [and_ffff, pack, St.wf, u16, Nat.shiftRight_eq_div_pow]; omega

/-! ### one call -/

theorem nrand48_eq (s : St) (h : s.wf) :
    (nrand48 s).1 = nrandOut (lcg (pack s)) ∧ pack (nrand48 s).2 = lcg (pack s) ∧ (nrand48 s).2.wf := by
  obtain ⟨hp, hw⟩ := next_pack s h
  simp only [nrand48, nrandOut]
  exact ⟨by rw [nrand_val _ hw, hp], hp, hw⟩

theorem erand48_eq (s : St) (h : s.wf) :
    (erand48 s).1 = dblOfFrac52 (erandNum (lcg (pack s))) ∧ pack (erand48 s).2 = lcg (pack s) ∧
    (erand48 s).2.wf := by
  obtain ⟨hp, hw⟩ := next_pack s h
  have hb := (erandNum_bounds _ (lcg_lt (pack s))).1
  simp only [erand48, dblMinusOne]
  refine ⟨?_, hp, hw⟩
  rw [erand_packed _ hw, hp]
  congr 1; omega

theorem r48Nextb_eq (s : St) (h : s.wf) :
    (r48Nextb s).1 = decide (nrandOut (lcg (pack s)) % 2 = 1) ∧ (r48Nextb s).2 = (nrand48 s).2 := by
  obtain ⟨h1, _, _⟩ := nrand48_eq s h
  simp only [r48Nextb, h1, Nat.and_one_is_mod]
  refine ⟨?_, trivial⟩
  rcases Nat.mod_two_eq_zero_or_one (nrandOut (lcg (pack s))) with hr | hr <;> rw [hr] <;> decide

/-- one call of the model = one call of the specification, under the abstraction `pack`.
(`w` is destructured first: a definitional-equality check between `w.stat` and a
projection of `step ..` would make the kernel compare `r48Init seed` with `w.user`
by unfolding `^^^`/`&&&` on open terms.) -/
theorem step_refines (w : World) (hu : w.user.wf) (hs : w.stat.wf) (op : Op) :
    (step w op).1 = (sstep (absW w) op).1 ∧ absW (step w op).2 = (sstep (absW w) op).2 ∧
    (step w op).2.user.wf ∧ (step w op).2.stat.wf := by
  obtain ⟨u, st⟩ := w
  simp only at hu hs
  obtain ⟨n1, n2, n3⟩ := nrand48_eq u hu
  obtain ⟨e1, e2, e3⟩ := erand48_eq u hu
  obtain ⟨m1, m2, m3⟩ := nrand48_eq st hs
  obtain ⟨f1, f2, f3⟩ := erand48_eq st hs
  obtain ⟨b1, b2⟩ := r48Nextb_eq u hu
  cases op with
  | nrand48 => simp only [step, sstep, absW, n1, n2]; exact ⟨trivial, trivial, n3, hs⟩
  | erand48 => simp only [step, sstep, absW, e1, e2]; exact ⟨trivial, trivial, e3, hs⟩
  | lrand48 => simp only [step, sstep, absW, m1, m2]; exact ⟨trivial, trivial, hu, m3⟩
  | drand48 => simp only [step, sstep, absW, f1, f2]; exact ⟨trivial, trivial, hu, f3⟩
  | srand48 seed =>
    simp only [step, sstep, absW, (srand_pack seed).1]; exact ⟨trivial, trivial, hu, (srand_pack seed).2⟩
  | r48init seed =>
    simp only [step, sstep, absW, (r48Init_pack seed).1]; exact ⟨trivial, trivial, (r48Init_pack seed).2, hs⟩
  | r48nextb => simp only [step, sstep, absW, b1, b2, n2]; exact ⟨rfl, trivial, n3, hs⟩
  | r48nexti => simp only [step, sstep, absW, r48Nexti, n1, n2]; exact ⟨trivial, trivial, n3, hs⟩
  | r48nextf => simp only [step, sstep, absW, r48Nextf, e1, e2]; exact ⟨trivial, trivial, e3, hs⟩

/-- traces: the fold of the model and of the specification stay related -/
theorem foldl_refines (ops : List Op) : ∀ (w : World) (outs : List Out), w.user.wf → w.stat.wf →
    absW (ops.foldl runStep (w, outs)).1 = (ops.foldl srunStep (absW w, outs)).1 ∧
    (ops.foldl runStep (w, outs)).2 = (ops.foldl srunStep (absW w, outs)).2 ∧
    (ops.foldl runStep (w, outs)).1.user.wf ∧ (ops.foldl runStep (w, outs)).1.stat.wf := by
  induction ops with
  | nil => intro w outs hu hs; exact ⟨rfl, rfl, hu, hs⟩
  | cons op ops ih =>
    intro w outs hu hs
    obtain ⟨s1, s2, s3, s4⟩ := step_refines w hu hs op
    have := ih (step w op).2 (outs ++ [(step w op).1]) s3 s4
    simp only [List.foldl_cons, runStep, srunStep]
    rw [← s1, ← s2]
    exact this

/-! ### counting LCG steps on the specification side -/

theorem lcgIter_succ' (n X : Nat) : lcgIter (n + 1) X = lcg (lcgIter n X) := by
  induction n generalizing X with
  | zero => rfl
  | succ n ih => rw [lcgIter, ih (lcg X)]; rfl

theorem sfoldl_counts (ops : List Op) (hns : ∀ op ∈ ops, Op.seeds op = false) :
    ∀ (W : SWorld) (outs : List Out),
    (ops.foldl srunStep (W, outs)).1.user = lcgIter (ops.countP Op.onUser) W.user ∧
    (ops.foldl srunStep (W, outs)).1.stat = lcgIter (ops.countP Op.onStat) W.stat := by
  induction ops with
  | nil => intro W outs; exact ⟨rfl, rfl⟩
  | cons op ops ih =>
    intro W outs
    have h1 := hns op (List.mem_cons_self)
    have ih' := ih (fun o ho => hns o (List.mem_cons_of_mem _ ho)) (sstep W op).2 (outs ++ [(sstep W op).1])
    simp only [List.foldl_cons, srunStep, List.countP_cons]
    rw [ih'.1, ih'.2]
    cases op <;> simp_all [sstep, Op.onUser, Op.onStat, Op.seeds, lcgIter]

/-! ### Rand32 -/

theorem and_ffffffff (t : Nat) : t &&& 0xffffffff = t % 4294967296 := Nat.and_two_pow_sub_one_eq_mod t 32
theorem and_7fffff (t : Nat) : t &&& 0x7fffff = t % 8388608 := Nat.and_two_pow_sub_one_eq_mod t 23

theorem and_bit31 (t : Nat) : ((t &&& 2147483648) != 0) = decide (t / 2147483648 % 2 = 1) := by
  have h1 : (t &&& 2 ^ 31) >>> 31 = (t >>> 31) &&& (2 ^ 31 >>> 31) := Nat.shiftRight_and_distrib
  have h2 : (t &&& 2 ^ 31) % 2 ^ 31 = (t % 2 ^ 31) &&& (2 ^ 31 % 2 ^ 31) := Nat.and_mod_two_pow
  rw [show (2:Nat) ^ 31 >>> 31 = 1 by decide, Nat.and_one_is_mod] at h1
  rw [show (2:Nat) ^ 31 % 2 ^ 31 = 0 by decide, Nat.and_zero] at h2
  simp only [Nat.shiftRight_eq_div_pow] at h1
  rw [show (2147483648 : Nat) = 2 ^ 31 by rfl]
  generalize t &&& 2 ^ 31 = x at *
  by_cases hr : t / 2 ^ 31 % 2 = 1
  · have : x ≠ 0 := by omega
    simp [hr, this]
  · have : x = 0 := by omega
    simp [hr, this]

theorem r32Next_low (st : Nat) : r32Next st % 4294967296 = lcg32 (st % 4294967296) := by
  simp only [r32Next, lcg32, u64]; omega

theorem r32Next_lt (st : Nat) : r32Next st < 18446744073709551616 := by
  simp only [r32Next, u64]; omega

theorem r32NextfPacked_eq (st : Nat) : r32NextfPacked st = 0x7f * 8388608 + st % 8388608 := by
  unfold r32NextfPacked
  rw [and_7fffff, show (0x3f800000 : Nat) = 0x7f <<< 23 by rfl, shl_or _ _ 23 (Nat.mod_lt _ (by decide))]
  simp only [u32]; omega

end ImathVerif.Rand48
