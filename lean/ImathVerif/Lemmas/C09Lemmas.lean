import ImathVerif.Spec.MatSpec
import ImathVerif.Spec.TransformSpec
import Mathlib.Tactic.Ring
import Mathlib.Tactic.FinCases
import Mathlib.Tactic.SplitIfs
import Mathlib.Tactic.FieldSimp
import Mathlib.Tactic.Linarith
import Mathlib.Tactic.LinearCombination
import Mathlib.Tactic.Positivity
import Mathlib.LinearAlgebra.Matrix.NonsingularInverse
/-!
Helper lemmas for C09 (transform builders and frame builders).
-/
set_option linter.unusedSectionVars false
set_option linter.unreachableTactic false
set_option linter.unusedTactic false
namespace ImathVerif.C09
open ImathVerif Matrix

/-! ## rotations -/
section Rot
variable {α : Type} [CommRing α]

theorem IsRot.mul {A B : Matrix (Fin 3) (Fin 3) α} (hA : IsRot A) (hB : IsRot B) : IsRot (A * B) := by
  refine ⟨?_, by rw [Matrix.det_mul, hA.2, hB.2, one_mul]⟩
  rw [Matrix.transpose_mul, Matrix.mul_assoc, ← Matrix.mul_assoc B, hB.1, Matrix.one_mul, hA.1]

theorem IsRot.transpose {A : Matrix (Fin 3) (Fin 3) α} (hA : IsRot A) : IsRot Aᵀ := by
  refine ⟨?_, by rw [Matrix.det_transpose, hA.2]⟩
  rw [Matrix.transpose_transpose]
  exact mul_eq_one_comm.mp hA.1

theorem IsRot.one : IsRot (1 : Matrix (Fin 3) (Fin 3) α) := by
  refine ⟨by simp, by simp⟩

/-- rows `r0 r1 r2` with `r0, r1` orthonormal and `r2 = r0 × r1` form a rotation -/
theorem isRot_rows3 {r0 r1 r2 : V3 α} (h00 : dot r0 r0 = 1) (h11 : dot r1 r1 = 1) (h01 : dot r0 r1 = 0)
    (h2 : r2 = cross r0 r1) : IsRot (rows3 r0 r1 r2) := by
  subst h2
  obtain ⟨a, b, c⟩ := r0
  obtain ⟨d, e, f⟩ := r1
  simp only [dot] at h00 h11 h01
  constructor
  · ext i j
    fin_cases i <;> fin_cases j <;>
      simp [rows3, cross, Matrix.mul_apply, Fin.sum_univ_three] <;>
      first
        | ring1
        | linear_combination h00
        | linear_combination h01
        | linear_combination h11
        | linear_combination (d * d + e * e + f * f) * h00 + h11 - (a * d + b * e + c * f) * h01
  · simp [rows3, cross, Matrix.det_fin_three]
    linear_combination (d * d + e * e + f * f) * h00 + h11 - (a * d + b * e + c * f) * h01

theorem rot3_frameM44 (r0 r1 r2 p : V3 α) : rot3 (frameM44 r0 r1 r2 p) = rows3 r0 r1 r2 := rfl
theorem isAffine_frameM44 (r0 r1 r2 p : V3 α) : IsAffine (frameM44 r0 r1 r2 p) := ⟨rfl, rfl, rfl, rfl⟩

/-- 3×3 block of a product when the left factor is affine -/
theorem rot3_mul {a b c : M44 α} (ha : a.x03 = 0 ∧ a.x13 = 0 ∧ a.x23 = 0) (h : c.toMat = a.toMat * b.toMat) :
    rot3 c = rot3 a * rot3 b := by
  obtain ⟨h0, h1, h2⟩ := ha
  have e := fun i j => congrFun (congrFun h i) j
  ext i j
  fin_cases i <;> fin_cases j <;>
    simp [rot3, Matrix.mul_apply, Fin.sum_univ_three]
  · have := e 0 0; simp [M44.toMat, Matrix.mul_apply, Fin.sum_univ_four, h0] at this; exact this
  · have := e 0 1; simp [M44.toMat, Matrix.mul_apply, Fin.sum_univ_four, h0] at this; exact this
  · have := e 0 2; simp [M44.toMat, Matrix.mul_apply, Fin.sum_univ_four, h0] at this; exact this
  · have := e 1 0; simp [M44.toMat, Matrix.mul_apply, Fin.sum_univ_four, h1] at this; exact this
  · have := e 1 1; simp [M44.toMat, Matrix.mul_apply, Fin.sum_univ_four, h1] at this; exact this
  · have := e 1 2; simp [M44.toMat, Matrix.mul_apply, Fin.sum_univ_four, h1] at this; exact this
  · have := e 2 0; simp [M44.toMat, Matrix.mul_apply, Fin.sum_univ_four, h2] at this; exact this
  · have := e 2 1; simp [M44.toMat, Matrix.mul_apply, Fin.sum_univ_four, h2] at this; exact this
  · have := e 2 2; simp [M44.toMat, Matrix.mul_apply, Fin.sum_univ_four, h2] at this; exact this

def rx3 (s c : α) : Matrix (Fin 3) (Fin 3) α := !![1, 0, 0; 0, c, s; 0, -s, c]
def ry3 (s c : α) : Matrix (Fin 3) (Fin 3) α := !![c, 0, -s; 0, 1, 0; s, 0, c]
def rz3 (s c : α) : Matrix (Fin 3) (Fin 3) α := !![c, s, 0; -s, c, 0; 0, 0, 1]

theorem isRot_rx3 {s c : α} (h : s ^ 2 + c ^ 2 = 1) : IsRot (rx3 s c) := by
  constructor
  · ext i j; fin_cases i <;> fin_cases j <;> simp [rx3, Matrix.mul_apply, Fin.sum_univ_three] <;> first | ring1 | linear_combination h
  · simp [rx3, Matrix.det_fin_three]; linear_combination h
theorem isRot_ry3 {s c : α} (h : s ^ 2 + c ^ 2 = 1) : IsRot (ry3 s c) := by
  constructor
  · ext i j; fin_cases i <;> fin_cases j <;> simp [ry3, Matrix.mul_apply, Fin.sum_univ_three] <;> first | ring1 | linear_combination h
  · simp [ry3, Matrix.det_fin_three]; linear_combination h
theorem isRot_rz3 {s c : α} (h : s ^ 2 + c ^ 2 = 1) : IsRot (rz3 s c) := by
  constructor
  · ext i j; fin_cases i <;> fin_cases j <;> simp [rz3, Matrix.mul_apply, Fin.sum_univ_three] <;> first | ring1 | linear_combination h
  · simp [rz3, Matrix.det_fin_three]; linear_combination h

end Rot

/-! ## lengths and normalisation -/
section Len
variable {α : Type} [Field α] [LinearOrder α] [IsStrictOrderedRing α]

theorem dot_self_nonneg (v : V3 α) : 0 ≤ dot v v := by
  unfold dot; nlinarith [mul_self_nonneg v.x, mul_self_nonneg v.y, mul_self_nonneg v.z]

theorem dot_self_eq_zero {v : V3 α} : dot v v = 0 ↔ v = ⟨0, 0, 0⟩ := by
  obtain ⟨x, y, z⟩ := v
  simp only [dot, V3.mk.injEq]
  constructor
  · intro h
    have hx : x * x = 0 := by nlinarith [mul_self_nonneg x, mul_self_nonneg y, mul_self_nonneg z]
    have hy : y * y = 0 := by nlinarith [mul_self_nonneg x, mul_self_nonneg y, mul_self_nonneg z]
    have hz : z * z = 0 := by nlinarith [mul_self_nonneg x, mul_self_nonneg y, mul_self_nonneg z]
    exact ⟨mul_self_eq_zero.mp hx, mul_self_eq_zero.mp hy, mul_self_eq_zero.mp hz⟩
  · rintro ⟨rfl, rfl, rfl⟩; ring

theorem len_eq_zero_iff {len : V3 α → α} (hlen : LenSpec len) (v : V3 α) : len v = 0 ↔ v = ⟨0, 0, 0⟩ := by
  rw [← dot_self_eq_zero, ← (hlen v).1]
  exact (pow_eq_zero_iff (two_ne_zero)).symm

theorem len_sq {len : V3 α → α} (hlen : LenSpec len) (v : V3 α) : len v * len v = dot v v := by
  rw [← (hlen v).1]; ring

/-- a vector of squared norm 1 has length 1 -/
theorem len_eq_one {len : V3 α → α} (hlen : LenSpec len) {v : V3 α} (h : dot v v = 1) : len v = 1 := by
  have h1 := (hlen v).1
  have h2 := (hlen v).2
  rw [h] at h1
  nlinarith [sq_nonneg (len v - 1), sq_nonneg (len v + 1)]

theorem nrm_of_ne {len : V3 α → α} {v : V3 α} (h : len v ≠ 0) :
    nrm len v = ⟨v.x / len v, v.y / len v, v.z / len v⟩ := by
  simp [nrm, h]

theorem nrm_unit {len : V3 α → α} (hlen : LenSpec len) {v : V3 α} (h : len v ≠ 0) : dot (nrm len v) (nrm len v) = 1 := by
  rw [nrm_of_ne h]
  have h2 := len_sq hlen v
  simp only [dot] at h2 ⊢
  field_simp
  first | linear_combination h2 | linear_combination -h2

theorem nrm_unit' {len : V3 α → α} (hlen : LenSpec len) {v : V3 α} (h : v ≠ ⟨0, 0, 0⟩) : dot (nrm len v) (nrm len v) = 1 :=
  nrm_unit hlen (mt (len_eq_zero_iff hlen v).mp h)

end Len

/-! ## axis/angle rotation -/
section AxisAngle
variable {α : Type} [CommRing α]

/-- the axis/angle matrix of a UNIT axis is a rotation (cofactors found with a computer-algebra system, checked by `ring`) -/
theorem isRot_axisAngle {s c : α} {u : V3 α} (hu : dot u u = 1) (hs : s ^ 2 + c ^ 2 = 1) :
    IsRot (rows3 (aaRow0 s c u) (aaRow1 s c u) (aaRow2 s c u)) := by
  obtain ⟨x, y, z⟩ := u
  simp only [dot] at hu
  apply isRot_rows3
  · simp only [dot, aaRow0]
    linear_combination ((c - 1) * (c * x ^ 2 - c - x ^ 2 - 1)) * hu + (y ^ 2 + z ^ 2) * hs
  · simp only [dot, aaRow1]
    linear_combination (c ^ 2 * y ^ 2 - 2 * c * y ^ 2 + s ^ 2 + y ^ 2) * hu + (-(y - 1) * (y + 1)) * hs
  · simp only [dot, aaRow0, aaRow1]
    linear_combination (x * y * (c - 1) ^ 2) * hu + (-x * y) * hs
  · simp only [cross, aaRow0, aaRow1, aaRow2, V3.mk.injEq]
    refine ⟨?_, ?_, ?_⟩
    · linear_combination (s * y * (c - 1)) * hu + (-x * z) * hs
    · linear_combination (-s * x * (c - 1)) * hu + (-y * z) * hs
    · linear_combination (c * (c - 1)) * hu + (-z ^ 2) * hs

/-- the rows are Rodrigues' formula applied to the coordinate directions: `p * R = rodrigues s c u p` -/
theorem axisAngle_apply (s c : α) (u p : V3 α) :
    vadd (vadd (smul p.x (aaRow0 s c u)) (smul p.y (aaRow1 s c u))) (smul p.z (aaRow2 s c u)) = rodrigues s c u p := by
  simp only [vadd, smul, aaRow0, aaRow1, aaRow2, rodrigues, cross, dot, V3.mk.injEq]
  refine ⟨?_, ?_, ?_⟩ <;> ring

/-- a unit axis is fixed by its rotation -/
theorem rodrigues_axis {s c : α} {u : V3 α} (hu : dot u u = 1) : rodrigues s c u u = u := by
  obtain ⟨x, y, z⟩ := u
  simp only [dot] at hu
  simp only [vadd, smul, rodrigues, cross, dot, V3.mk.injEq]
  refine ⟨?_, ?_, ?_⟩
  · linear_combination ((1 - c) * x) * hu
  · linear_combination ((1 - c) * y) * hu
  · linear_combination ((1 - c) * z) * hu

end AxisAngle

section AxisAngleGen
variable {α : Type} [Field α] [LinearOrder α] [IsStrictOrderedRing α]

theorem axisAngleM44_isFrame {len : V3 α → α} (hlen : LenSpec len) {s c : α} (hs : s ^ 2 + c ^ 2 = 1) {axis : V3 α} (h : len axis ≠ 0) :
    IsFrame (axisAngleM44 len s c axis) ∧ row3 (axisAngleM44 len s c axis) = ⟨0, 0, 0⟩ :=
  ⟨⟨isRot_axisAngle (nrm_unit hlen h) hs, isAffine_frameM44 _ _ _ _⟩, rfl⟩

end AxisAngleGen
/-! ## vector algebra and the core frame lemma -/
section VecAlg
variable {α : Type} [CommRing α]
theorem V3.ext' {a b : V3 α} (hx : a.x = b.x) (hy : a.y = b.y) (hz : a.z = b.z) : a = b := by
  cases a; cases b; simp_all
theorem dot_comm' (a b : V3 α) : dot a b = dot b a := by simp only [dot]; ring
theorem cross_smul_smul (k m : α) (a b : V3 α) : cross (smul k a) (smul m b) = smul (k * m) (cross a b) := by
  simp only [cross, smul, V3.mk.injEq]; refine ⟨?_, ?_, ?_⟩ <;> ring
theorem dot_smul_smul (k m : α) (a b : V3 α) : dot (smul k a) (smul m b) = k * m * dot a b := by
  simp only [dot, smul]; ring
theorem dot_cross_left (a b : V3 α) : dot (cross a b) a = 0 := by simp only [dot, cross]; ring
theorem dot_cross_right (a b : V3 α) : dot (cross a b) b = 0 := by simp only [dot, cross]; ring
theorem dot_left_cross (a b : V3 α) : dot a (cross a b) = 0 := by simp only [dot, cross]; ring
theorem dot_right_cross (a b : V3 α) : dot b (cross a b) = 0 := by simp only [dot, cross]; ring
/-- Lagrange's identity -/
theorem lagrange (a b : V3 α) : dot (cross a b) (cross a b) = dot a a * dot b b - dot a b ^ 2 := by
  simp only [dot, cross]; ring
/-- `p × (t × p) = (p·p) t − (p·t) p` -/
theorem cross_cross_self (t p : V3 α) : cross p (cross t p) = vsub (smul (dot p p) t) (smul (dot p t) p) := by
  simp only [cross, vsub, smul, dot, V3.mk.injEq]; refine ⟨?_, ?_, ?_⟩ <;> ring
end VecAlg

section Frames
variable {α : Type} [Field α] [LinearOrder α] [IsStrictOrderedRing α]

theorem nrm_eq_smul {len : V3 α → α} {v : V3 α} (h : len v ≠ 0) : nrm len v = smul (len v)⁻¹ v := by
  rw [nrm_of_ne h]; simp only [smul, V3.mk.injEq]; refine ⟨?_, ?_, ?_⟩ <;> ring

theorem len_ne_zero {len : V3 α → α} (hlen : LenSpec len) {v : V3 α} (h : v ≠ ⟨0, 0, 0⟩) : len v ≠ 0 :=
  mt (len_eq_zero_iff hlen v).mp h
theorem ne_zero_of_dot {v : V3 α} (h : dot v v ≠ 0) : v ≠ ⟨0, 0, 0⟩ := mt dot_self_eq_zero.mpr h
theorem dot_ne_zero {v : V3 α} (h : v ≠ ⟨0, 0, 0⟩) : dot v v ≠ 0 := mt dot_self_eq_zero.mp h

/-- non-negative numbers with equal squares are equal -/
theorem eq_of_sq_eq {x y : α} (hx : 0 ≤ x) (hy : 0 ≤ y) (h : x * x = y * y) : x = y := by
  nlinarith [mul_self_nonneg (x - y), mul_nonneg hx hy]

/-- the length of `t × p` when `p ⟂ t` -/
theorem len_cross_perp {len : V3 α → α} (hlen : LenSpec len) {t p : V3 α} (hpt : dot p t = 0) :
    len (cross t p) = len t * len p := by
  apply eq_of_sq_eq (hlen _).2 (mul_nonneg (hlen _).2 (hlen _).2)
  rw [len_sq hlen, lagrange, dot_comm' t p, hpt]
  have h1 := len_sq hlen t; have h2 := len_sq hlen p
  linear_combination (-(len p * len p)) * h1 - dot t t * h2

/-- core of every frame builder: for `t ≠ 0`, `p ≠ 0`, `p ⟂ t`, the rows `p̂`, `(t × p)^`, `t̂` are a rotation -/
theorem frame_of_perp {len : V3 α → α} (hlen : LenSpec len) {t p : V3 α} (ht : t ≠ ⟨0, 0, 0⟩) (hp : p ≠ ⟨0, 0, 0⟩)
    (hpt : dot p t = 0) : IsRot (rows3 (nrm len p) (nrm len (cross t p)) (nrm len t)) := by
  have ha := len_ne_zero hlen ht
  have hb := len_ne_zero hlen hp
  have hu := len_cross_perp hlen hpt
  have hc : len (cross t p) ≠ 0 := by rw [hu]; exact mul_ne_zero ha hb
  apply isRot_rows3 (nrm_unit hlen hb) (nrm_unit hlen hc)
  · rw [nrm_eq_smul hb, nrm_eq_smul hc, dot_smul_smul, dot_right_cross, mul_zero]
  · rw [nrm_eq_smul hb, nrm_eq_smul hc, nrm_eq_smul ha, cross_smul_smul, cross_cross_self, hpt, hu, ← len_sq hlen p]
    apply V3.ext' <;> simp only [smul, vsub] <;> field_simp <;> ring

end Frames
section CrossZero
variable {α : Type} [Field α] [LinearOrder α] [IsStrictOrderedRing α]
theorem cross_zero_left (t : V3 α) : cross (⟨0, 0, 0⟩ : V3 α) t = ⟨0, 0, 0⟩ := by simp [cross]
end CrossZero
/- the lemmas about `alignZAxisWithTargetDir` are in `Lemmas/C09AlignZ.lean` -/
end ImathVerif.C09
