import ImathVerif.Spec.TransformSpec
import ImathVerif.Gen.C09Next
import Mathlib.Tactic.Ring
import Mathlib.Tactic.FinCases
/-!
Helper lemmas for C09: the extracted `nextFrame` tree as Mathlib matrices (slow to elaborate, hence its own module).
-/
set_option linter.unusedSectionVars false
set_option linter.unreachableTactic false
set_option linter.unusedTactic false
set_option linter.unusedVariables false
set_option linter.unusedSimpArgs false
namespace ImathVerif.C09
open ImathVerif Matrix

section Next
variable {α : Type} [Field α] [LinearOrder α] [IsStrictOrderedRing α]

/-- the transform `nextFrame` multiplies onto the previous frame (from the right: applied AFTER `Mi`) -/
def nextFrameStep (tmin : α) (sqrt sin cos acos : α → α) (pi pj ti tj : V3 α) : Matrix (Fin 4) (Fin 4) α :=
  let len := Gen.V3.length tmin sqrt
  let fi : V3 α := ⟨ti.x / len ti, ti.y / len ti, ti.z / len ti⟩
  let fj : V3 α := ⟨tj.x / len tj, tj.y / len tj, tj.z / len tj⟩
  let d0 := dot fi fj
  let d := if 1 < d0 then 1 else if d0 < -1 then -1 else d0
  if ¬ len ti = 0 ∧ ¬ len tj = 0 ∧ ¬ len (cross fi fj) = 0 ∧ ¬ acos d = 0 then
    transMat (vneg pi) * (axisAngleM44 len (sin (acos d)) (cos (acos d)) (cross fi fj)).toMat * transMat pj
  else transMat (vsub pj pi)

set_option maxHeartbeats 4000000 in
/-- the extracted 13-path tree, as Mathlib matrices: `Mi * step` (slow: about four minutes) -/
theorem nextFrame_toMat (tmin : α) (sqrt sin cos acos : α → α) (Mi : M44 α) (pi pj ti tj : V3 α) :
    (Gen.Frame.nextFrame tmin sqrt sin cos acos Mi pi pj ti tj).1.toMat
      = Mi.toMat * nextFrameStep tmin sqrt sin cos acos pi pj ti tj := by
  obtain ⟨ix, iy, iz⟩ := pi
  obtain ⟨jx, jy, jz⟩ := pj
  obtain ⟨ax, ay, az⟩ := ti
  obtain ⟨bx, by', bz⟩ := tj
  simp only [Gen.Frame.nextFrame, nextFrameStep, dot, cross]
  split_ifs
  all_goals first
    | (exfalso; simp_all; done)
    | (ext i j; fin_cases i <;> fin_cases j <;>
        simp [axisAngleM44, frameM44, aaRow0, aaRow1, aaRow2, nrm, transMat, M44.toMat, Matrix.mul_apply, Fin.sum_univ_four, vneg, vsub, *] <;> ring)

end Next
end ImathVerif.C09
