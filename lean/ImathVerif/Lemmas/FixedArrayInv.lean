import ImathVerif.Lemmas.FixedArrayWrite
/-!
The global invariant of the C19 state machine: every Python object reachable from `State.empty` through the 16
statements is a DENSE array (`off = 0`, `stride = 1`) or a masked reference of one, well formed w.r.t. the heap's
shape; under it no statement ever touches a cell outside its buffer (`Err.oob` is unreachable).
-/
namespace ImathVerif.FixedArray
open ImathVerif

/-! ## index facts without the step hypothesis -/

theorem slicelength_le_of_form {n : Nat} (hn : (n : Int) ≤ PY_SSIZE_T_MAX) {a b c : Option Int}
    (hc : ∀ v, c = some v → -PY_SSIZE_T_MAX ≤ v) {s : SliceIdx} {minEnd minStart : Int}
    (hs : extractSliceIndices n (.slice a b c) minEnd minStart = .ok s) : s.slicelength ≤ n := by
  obtain ⟨h1, h2, h3⟩ := extract_slice_form hn hc hs
  rcases h3 with ⟨hpos, hst, hl⟩ | ⟨hneg, hst, hl⟩
  · rw [hl]; unfold countUp
    have hE := boundUp_le (n := n) b (Nat.le_refl _)
    split
    · have : (PyList.boundUp n b n - PyList.boundUp n a 0 - 1) / s.step.toNat
          ≤ (PyList.boundUp n b n - PyList.boundUp n a 0 - 1) := Nat.div_le_self _ _
      omega
    · omega
  · rw [hl]; unfold countDown
    have hE := boundDown_range (n := n) b (d := -1) (by omega)
    have hSr := boundDown_range (n := n) a (d := (n : Int) - 1) (by omega)
    split
    · have : (PyList.boundDown n a ((n : Int) - 1) - PyList.boundDown n b (-1) - 1).toNat / (-s.step).toNat
          ≤ (PyList.boundDown n a ((n : Int) - 1) - PyList.boundDown n b (-1) - 1).toNat := Nat.div_le_self _ _
      omega
    · omega

/-- the number of selected positions never exceeds the length — any subscript at all -/
theorem slicelength_le {n : Nat} (hn : (n : Int) ≤ PY_SSIZE_T_MAX) {idx : PyIdx} {s : SliceIdx} {minEnd minStart : Int}
    (hs : extractSliceIndices n idx minEnd minStart = .ok s) : s.slicelength ≤ n := by
  cases idx with
  | int j =>
    unfold extractSliceIndices at hs
    cases hc : canonicalIndex n j with
    | error e => simp [hc] at hs
    | ok k =>
      simp [hc] at hs
      subst hs
      have := canonicalIndex_lt hc
      simp only
      omega
  | slice a b c =>
    cases c with
    | none => exact slicelength_le_of_form hn (by intro v hv; cases hv) hs
    | some v =>
      by_cases hv : v < -PY_SSIZE_T_MAX
      · rw [extract_clamp n a b v hv] at hs
        exact slicelength_le_of_form hn (by intro v' hv'; cases hv'; omega) hs
      · exact slicelength_le_of_form hn (by intro v' hv'; cases hv'; omega) hs

/-- errors of `extract_slice_indices` are Python exceptions, never an out-of-buffer access -/
theorem extract_error_ne_oob {n : Nat} {idx : PyIdx} {minEnd minStart : Int} {e : Err}
    (h : extractSliceIndices n idx minEnd minStart = .error e) : e ≠ .oob := by
  unfold extractSliceIndices at h
  cases idx with
  | int j =>
    simp only at h
    cases hc : canonicalIndex n j with
    | error e' =>
      simp [hc] at h; subst h
      rw [(canonicalIndex_error hc).1]; decide
    | ok k => simp [hc] at h
  | slice a b c =>
    simp only at h
    cases hu : sliceUnpack a b c with
    | error e' =>
      simp [hu] at h; subst h
      rw [(sliceUnpack_error hu).2]; decide
    | ok t =>
      obtain ⟨sa, so, st⟩ := t
      simp only [hu] at h
      split at h
      · simp at h; subst h; decide
      · simp at h


/-! ## loops over well-formed views never fail -/

theorem forLoop_total {sh : List Nat} (body : Nat → Heap → Except Err Heap) (n i0 : Nat)
    (hbody : ∀ i h, i0 ≤ i → i < i0 + n → shape h = sh → ∃ h', body i h = .ok h' ∧ shape h' = sh)
    (h : Heap) (hh : shape h = sh) : ∃ h', forLoop body n i0 h = .ok h' ∧ shape h' = sh :=
  forLoop_ok' (fun h => shape h = sh) body n i0 hbody h hh

theorem View.WF.wr_ok {h : Heap} {v : View} (w : v.WF (shape h)) {q : Nat} (hq : q < v.length) (x : Int) :
    ∃ h', h.wr v.buf (v.cellPos q) x = .ok h' ∧ shape h' = shape h :=
  let ⟨h', a, b, _⟩ := w.toList_store hq x
  ⟨h', a, b⟩

theorem View.WF.of_shape {sh : List Nat} {v : View} (w : v.WF sh) {h : Heap} (hh : shape h = sh) : v.WF (shape h) := hh ▸ w

theorem cellPos_unmasked {v : View} (hun : v.indices = none) (i : Nat) : v.cellPos i = v.pos i := by
  simp [View.cellPos, View.rawOf, hun]

/-- `a[idx] = x` cannot leave the buffer -/
theorem setitemScalar_no_oob {h : Heap} {v : View} (w : v.WF (shape h)) {idx : PyIdx} {x : Int} {ms : Int} {e : Err}
    (hr : setitemScalar h v idx x ms = .error e) : e ≠ .oob := by
  unfold setitemScalar at hr
  split at hr
  · simp at hr; subst hr; decide
  · cases hs : extractSliceIndices v.length idx (-1) ms with
    | error e' => simp [hs] at hr; subst hr; exact extract_error_ne_oob hs
    | ok s =>
      simp only [hs] at hr
      have hat : ∀ i, i < s.slicelength → s.at i < v.length := fun i hi => slice_at_lt' w.lenOk hs i hi
      obtain ⟨h', hl, _⟩ := forLoop_total (sh := shape h) (v.writeSliceElem s x) s.slicelength 0
        (fun i h1 _ hi hsh => by
          rw [w.writeSliceElem_eq (hat i (by omega)) x h1]
          have := (w.of_shape hsh).wr_ok (hat i (by omega)) x
          rw [hsh] at this; exact this) h rfl
      rw [hl] at hr; simp at hr

theorem matchDimension_error {v : View} {n : Nat} {strict : Bool} {e : Err}
    (h : matchDimension v n strict = .error e) : e = .dimMismatch := by
  unfold matchDimension at h
  by_cases h1 : v.length = n
  · simp [h1] at h
  · cases strict <;> cases hm : v.isMasked <;> by_cases h2 : v.unmaskedLength = n <;>
      simp [h1, hm, h2] at h <;> exact h.symm

theorem matchDimension_ok {v : View} {n : Nat} {strict : Bool} {len : Nat}
    (h : matchDimension v n strict = .ok len) :
    len = v.length ∧ (v.length = n ∨ (strict = false ∧ v.isMasked = true ∧ v.unmaskedLength = n)) := by
  unfold matchDimension at h
  by_cases h1 : v.length = n
  · simp [h1] at h; exact ⟨by omega, Or.inl h1⟩
  · simp only [h1, if_false] at h
    cases strict with
    | true => simp at h
    | false =>
      cases hm : v.isMasked with
      | false => simp [hm] at h
      | true =>
        by_cases h2 : v.unmaskedLength = n
        · simp [hm, h2] at h; exact ⟨h.symm, Or.inr ⟨rfl, rfl, h2⟩⟩
        · simp [hm, h2] at h

/-- `a[mask] = x` (current code: the mask of a masked reference is not looked at) cannot leave the buffer -/
theorem setitemScalarMask_no_oob {h : Heap} {v mask : View} (w : v.WF (shape h)) (wm : mask.WF (shape h)) {x : Int} {e : Err}
    (hr : setitemScalarMask h v mask x false = .error e) : e ≠ .oob := by
  unfold setitemScalarMask at hr
  split at hr
  · simp at hr; subst hr; decide
  · cases hmd : matchDimension v mask.length false with
    | error e' =>
      simp [hmd] at hr; subst hr
      rw [matchDimension_error hmd]; decide
    | ok len =>
      simp only [hmd] at hr
      obtain ⟨hlen, hcase⟩ := matchDimension_ok hmd
      subst hlen
      by_cases hm : v.isMasked = true
      · simp only [hm, if_true, Bool.false_eq_true, false_and, if_false] at hr
        obtain ⟨h', hl, _⟩ := forLoop_total (sh := shape h) (v.writeRaw x) v.length 0
          (fun i h1 _ hi hsh => by
            unfold View.writeRaw
            rw [w.rawPtrIndex (by omega) hm]
            have := (w.of_shape hsh).wr_ok (q := i) (by omega) x
            rw [hsh] at this; exact this) h rfl
        rw [hl] at hr; simp at hr
      · have hm' : v.isMasked = false := by simpa using hm
        have hun : v.indices = none := by
          unfold View.isMasked at hm'
          cases hi : v.indices with
          | none => rfl
          | some idx => simp [hi] at hm'
        simp only [hm', Bool.false_eq_true, if_false] at hr
        have hml : mask.length = v.length := by
          rcases hcase with hh | ⟨_, hh, _⟩
          · exact hh.symm
          · rw [hm'] at hh; cases hh
        obtain ⟨h', hl, _⟩ := forLoop_total (sh := shape h) (v.writeIfMask mask x) v.length 0
          (fun i h1 _ hi hsh => by
            unfold View.writeIfMask
            rw [(wm.of_shape hsh).get (by omega)]
            simp only
            split
            · have := (w.of_shape hsh).wr_ok (q := i) (by omega) x
              rw [cellPos_unmasked hun, hsh] at this; exact this
            · exact ⟨h1, rfl, hsh⟩) h rfl
        rw [hl] at hr; simp at hr

/-- `a[idx] = b` cannot leave the buffers -/
theorem setitemVector_no_oob {h : Heap} {v data : View} (w : v.WF (shape h)) (wd : data.WF (shape h)) {idx : PyIdx}
    {ms : Int} {e : Err} (hr : setitemVector h v idx data ms = .error e) : e ≠ .oob := by
  unfold setitemVector at hr
  split at hr
  · simp at hr; subst hr; decide
  · cases hs : extractSliceIndices v.length idx (-1) ms with
    | error e' => simp [hs] at hr; subst hr; exact extract_error_ne_oob hs
    | ok s =>
      simp only [hs] at hr
      split at hr
      · simp at hr; subst hr; decide
      · rename_i hdl
        have hdl' : data.length = s.slicelength := by
          by_cases hh : data.length = s.slicelength
          · exact hh
          · exact absurd hh hdl
        have hat : ∀ i, i < s.slicelength → s.at i < v.length := fun i hi => slice_at_lt' w.lenOk hs i hi
        obtain ⟨h', hl, _⟩ := forLoop_total (sh := shape h) (v.writeSliceFrom s data) s.slicelength 0
          (fun i h1 _ hi hsh => by
            unfold View.writeSliceFrom
            rw [(wd.of_shape hsh).get (by omega)]
            simp only
            rw [w.writeSliceElem_eq (hat i (by omega)) _ h1]
            have := (w.of_shape hsh).wr_ok (hat i (by omega)) (cellAt h1 data.buf (data.cellPos i))
            rw [hsh] at this; exact this) h rfl
        rw [hl] at hr; simp at hr


/-! ## accessor classes -/

/-- `acc` is the accessor object built from array `a` -/
def AccOf (a : View) (acc : WAccess) : Prop :=
  (a.indices = none ∧ acc = .direct ⟨a.buf, a.off, a.stride⟩) ∨
  (∃ idx, a.indices = some idx ∧ acc = .masked ⟨a.buf, a.off, a.stride, idx⟩)

theorem argAccess_cases (a : View) : (∃ acc, argAccess a = .ok acc ∧ AccOf a acc) := by
  unfold argAccess ReadOnlyMaskedAccess.mk' ReadOnlyDirectAccess.mk' View.isMasked AccOf
  cases hi : a.indices with
  | none => simp
  | some idx => simp

theorem selfAccess_cases (cfg : Cfg) (a : View) :
    (∃ acc, selfAccess cfg a = .ok acc ∧ AccOf a acc) ∨ selfAccess cfg a = .error .readOnly := by
  unfold selfAccess WritableMaskedAccess.mk' WritableDirectAccess.mk' ReadOnlyMaskedAccess.mk' ReadOnlyDirectAccess.mk'
    View.isMasked AccOf
  cases hi : a.indices with
  | none => cases hw : a.writable <;> simp
  | some idx => cases hw : a.writable <;> cases hc : cfg.maskedAccessThrows <;> simp

theorem maskedAccess_cases (cfg : Cfg) (a : View) (hm : a.isMasked = true) :
    (∃ acc, WritableMaskedAccess.mk' cfg a = .ok acc ∧ AccOf a (.masked acc)) ∨
      WritableMaskedAccess.mk' cfg a = .error .readOnly := by
  unfold WritableMaskedAccess.mk' ReadOnlyMaskedAccess.mk' AccOf
  unfold View.isMasked at hm
  cases hi : a.indices with
  | none => simp [hi] at hm
  | some idx => cases hw : a.writable <;> cases hc : cfg.maskedAccessThrows <;> simp

/-- an accessor addresses exactly the cells of its array -/
theorem AccOf.get_set {sh : List Nat} {a : View} {acc : WAccess} (w : a.WF sh) (ho : AccOf a acc) {i : Nat}
    (hi : i < a.length) (h : Heap) :
    acc.get h i = h.rd a.buf (a.cellPos i) ∧ ∀ x, acc.set h i x = h.wr a.buf (a.cellPos i) x := by
  rcases ho with ⟨hn, rfl⟩ | ⟨idx, hs, rfl⟩
  · simp [WAccess.get, WAccess.set, DirectAccess.get, DirectAccess.set, DirectAccess.pos, View.cellPos, View.rawOf,
      View.pos, hn]
  · obtain ⟨n, _, hm⟩ := w.inBuf
    simp only [hs] at hm
    have hil : i < idx.length := by omega
    simp [WAccess.get, WAccess.set, MaskedAccess.get, MaskedAccess.set, MaskedAccess.pos, View.cellPos, View.rawOf,
      View.pos, hs, List.getElem?_eq_getElem hil, List.getD_eq_getElem?_getD]

theorem rd_ok_of_WF {h : Heap} {v : View} (w : v.WF (shape h)) {i : Nat} (hi : i < v.length) :
    h.rd v.buf (v.cellPos i) = .ok (cellAt h v.buf (v.cellPos i)) := by
  obtain ⟨n, hn, hp⟩ := w.cellPos_lt hi
  exact rd_cellAt hn hp

/-- `a += x` cannot leave the buffer -/
theorem iaddScalar_no_oob {cfg : Cfg} {h : Heap} {a : View} (w : a.WF (shape h)) {x : Int} {e : Err}
    (hr : iaddScalar cfg h a x = .error e) : e ≠ .oob := by
  unfold iaddScalar at hr
  simp only at hr
  rcases selfAccess_cases cfg a with ⟨acc, hacc, ho⟩ | herr
  · simp only [hacc] at hr
    obtain ⟨h', hl, _⟩ := forLoop_total (sh := shape h) (acc.addScalar x) a.length 0
      (fun i h1 _ hi hsh => by
        have hi' : i < a.length := by omega
        unfold WAccess.addScalar
        obtain ⟨hg, hset⟩ := ho.get_set w hi' h1
        rw [hg, rd_ok_of_WF (w.of_shape hsh) hi']
        simp only [hset]
        have := (w.of_shape hsh).wr_ok hi' (cellAt h1 a.buf (a.cellPos i) + x)
        rw [hsh] at this; exact this) h rfl
    rw [hl] at hr; simp at hr
  · simp [herr] at hr; subst hr; decide

/-- `a += b` cannot leave the buffers (both kernels: element-wise, and the masked one that reads `b[raw_ptr_index(i)]`) -/
theorem iaddVector_no_oob {cfg : Cfg} {h : Heap} {a b : View} (w : a.WF (shape h)) (wb : b.WF (shape h)) {e : Err}
    (hr : iaddVector cfg h a b = .error e) : e ≠ .oob := by
  unfold iaddVector at hr
  cases hmd : matchDimension a b.length false with
  | error e' => simp [hmd] at hr; subst hr; rw [matchDimension_error hmd]; decide
  | ok len =>
    simp only [hmd] at hr
    obtain ⟨hlen, hcase⟩ := matchDimension_ok hmd
    subst hlen
    obtain ⟨bacc, hbacc, hob⟩ := argAccess_cases b
    by_cases hbr : a.isMasked = true ∧ b.length = a.unmaskedLength
    · simp only [hbr, and_self, if_true] at hr
      rcases maskedAccess_cases cfg a hbr.1 with ⟨acc, hacc, ho⟩ | herr
      · simp only [hacc, hbacc] at hr
        obtain ⟨h', hl, _⟩ := forLoop_total (sh := shape h) (acc.addFromRaw a bacc) a.length 0
          (fun i h1 _ hi hsh => by
            have hi' : i < a.length := by omega
            unfold MaskedAccess.addFromRaw
            rw [w.rawPtrIndex hi' hbr.1]
            simp only
            obtain ⟨hg, hset⟩ := ho.get_set w hi' h1
            simp only [WAccess.get, WAccess.set] at hg hset
            rw [hg, rd_ok_of_WF (w.of_shape hsh) hi']
            simp only
            -- `raw_ptr_index(i) < unmaskedLength = len(b)`
            have hri : a.rawOf i < b.length := by
              obtain ⟨n, _, hm⟩ := w.inBuf
              have hmsk := hbr.1
              unfold View.isMasked at hmsk
              cases hidx : a.indices with
              | none => simp [hidx] at hmsk
              | some idx =>
                simp only [hidx] at hm
                obtain ⟨h1', h2', _, _⟩ := hm
                have : i < idx.length := by omega
                rw [hbr.2]
                apply h2'
                simp [View.rawOf, hidx, List.getD_eq_getElem?_getD, List.getElem?_eq_getElem this]
            rw [(hob.get_set wb hri h1).1, rd_ok_of_WF (wb.of_shape hsh) hri]
            simp only [hset]
            have := (w.of_shape hsh).wr_ok hi' (cellAt h1 a.buf (a.cellPos i) + cellAt h1 b.buf (b.cellPos (a.rawOf i)))
            rw [hsh] at this; exact this) h rfl
        rw [hl] at hr; simp at hr
      · simp [herr] at hr; subst hr; decide
    · simp only [hbr, if_false] at hr
      have hbl : b.length = a.length := by
        rcases hcase with hh | ⟨_, hm, hu⟩
        · exact hh.symm
        · exact absurd ⟨hm, hu.symm⟩ hbr
      rcases selfAccess_cases cfg a with ⟨acc, hacc, ho⟩ | herr
      · simp only [hacc, hbacc] at hr
        obtain ⟨h', hl, _⟩ := forLoop_total (sh := shape h) (acc.addFrom bacc) a.length 0
          (fun i h1 _ hi hsh => by
            have hi' : i < a.length := by omega
            have hib : i < b.length := by omega
            unfold WAccess.addFrom
            obtain ⟨hg, hset⟩ := ho.get_set w hi' h1
            rw [hg, rd_ok_of_WF (w.of_shape hsh) hi']
            simp only
            rw [(hob.get_set wb hib h1).1, rd_ok_of_WF (wb.of_shape hsh) hib]
            simp only [hset]
            have := (w.of_shape hsh).wr_ok hi' (cellAt h1 a.buf (a.cellPos i) + cellAt h1 b.buf (b.cellPos i))
            rw [hsh] at this; exact this) h rfl
        rw [hl] at hr; simp at hr
      · simp [herr] at hr; subst hr; decide


/-! ## `a[mask] = data`, packed branch: needs the LAYOUT of the views (a shifted alias could change the mask under the loop) -/

/-- a dense array (`off = 0`, `stride = 1`) or a masked reference of one -/
structure View.Dense (v : View) : Prop where
  off0 : v.off = 0
  stride1 : v.stride = 1

/-- the view addresses ONE component (`off < stride`) of `stride`-cell elements that lie whole inside its allocation:
    dense arrays (`stride = 1`), vector arrays (`off = 0`, `stride = w`), their component arrays (`off = k < w`) and masked
    references of all of these -/
structure View.Lay (sh : List Nat) (v : View) : Prop where
  offLt : v.off < v.stride
  whole : ∃ n, sh[v.buf]? = some n ∧
    ∀ i, i < (match v.indices with | none => v.length | some _ => v.unmaskedLength) → i * v.stride + v.stride ≤ n

theorem pairwise_lt_ge_index (l : List Nat) (hp : l.Pairwise (· < ·)) : ∀ j (hj : j < l.length), j ≤ l[j] := by
  rw [List.pairwise_iff_getElem] at hp
  intro j
  induction j with
  | zero => intro _; exact Nat.zero_le _
  | succ j ih =>
    intro hj
    have h1 := ih (by omega)
    have h2 := hp j (j + 1) (by omega) hj (by omega)
    omega

/-- the raw index of virtual element `j` is at least `j` (mask indices are strictly increasing) -/
theorem View.WF.rawOf_ge {sh : List Nat} {m : View} (wm : m.WF sh) {j : Nat} (hj : j < m.length) : j ≤ m.rawOf j := by
  unfold View.rawOf
  obtain ⟨n, _, hm⟩ := wm.inBuf
  cases hidx : m.indices with
  | none => simp
  | some idx =>
    simp only [hidx] at hm
    obtain ⟨h1, _, _, hpw⟩ := hm
    have hjl : j < idx.length := by omega
    have := pairwise_lt_ge_index idx hpw j hjl
    simp only [List.getD_eq_getElem?_getD, List.getElem?_eq_getElem hjl, Option.getD_some]
    omega

/-- two cells `a + x·w`, `b + y·w` with `a, b < w` coincide only for `x = y` (and `a = b`) -/
theorem cell_eq_imp {a b x y w : Nat} (ha : a < w) (hb : b < w) (h : a + x * w = b + y * w) : x = y := by
  have h1 : (a + x * w) / w = x := by
    rw [Nat.add_mul_div_right _ _ (by omega), Nat.div_eq_of_lt ha]; omega
  have h2 : (b + y * w) / w = y := by
    rw [Nat.add_mul_div_right _ _ (by omega), Nat.div_eq_of_lt hb]; omega
  rw [← h1, ← h2, h]

/-- a store changes one cell -/
theorem cellAt_wr {h h1 : Heap} {b p : Nat} {x : Int} (hw : h.wr b p x = .ok h1) (b' p' : Nat)
    (hne : b' ≠ b ∨ p' ≠ p) : cellAt h1 b' p' = cellAt h b' p' := by
  obtain ⟨buf, hb, hp, rfl⟩ := wr_ok_iff.1 hw
  by_cases hbb : b' = b
  · subst hbb
    rw [cellAt_set_same hb]
    have : ¬ (p = p') := fun he => by rcases hne with h | h; exact h rfl; exact h he.symm
    simp [this]
  · exact cellAt_other (by simp [Ne.symm hbb]) p'

theorem packLoop_total {v mask data : View} {sh : List Nat} (w : v.WF sh) (wm : mask.WF sh) (wd : data.WF sh)
    (hun : v.indices = none) (hvo : v.off < v.stride) (hmo : mask.off < mask.stride)
    (hst : mask.buf = v.buf → mask.stride = v.stride) (hml : mask.length = v.length) :
    ∀ (n i di : Nat) (h : Heap), shape h = sh → i + n = v.length →
      di + ((List.range' i n).filter (fun j => cellAt h mask.buf (mask.cellPos j) != 0)).length = data.length →
      ∃ h', packLoop v mask data n i di h = .ok h' ∧ shape h' = sh := by
  intro n
  induction n with
  | zero => intro i di h hsh _ _; exact ⟨h, rfl, hsh⟩
  | succ n ih =>
    intro i di h hsh hin hcnt
    have hi : i < v.length := by omega
    have him : i < mask.length := by omega
    simp only [packLoop]
    rw [(wm.of_shape hsh).get him]
    simp only
    rw [List.range'_succ, List.filter_cons] at hcnt
    by_cases hbit : (cellAt h mask.buf (mask.cellPos i) != 0) = true
    · simp only [hbit, if_true, List.length_cons] at hcnt ⊢
      have hdi : di < data.length := by omega
      rw [(wd.of_shape hsh).get hdi]
      simp only
      have hcp : v.pos i = v.cellPos i := (cellPos_unmasked hun i).symm
      obtain ⟨h1, hw1, hs1⟩ := (w.of_shape hsh).wr_ok hi (cellAt h data.buf (data.cellPos di))
      rw [hcp, hw1]
      simp only
      apply ih (i + 1) (di + 1) h1 (hs1.trans hsh) (by omega)
      -- the mask cells still to be read are untouched by the store at element `i`
      have hsame : (List.range' (i + 1) n).filter (fun j => cellAt h1 mask.buf (mask.cellPos j) != 0)
          = (List.range' (i + 1) n).filter (fun j => cellAt h mask.buf (mask.cellPos j) != 0) := by
        apply List.filter_congr
        intro j hj
        have hj' := List.mem_range'_1.1 hj
        have hjm : j < mask.length := by omega
        have hge := wm.rawOf_ge hjm
        by_cases hb : mask.buf = v.buf
        · have hne : mask.cellPos j ≠ v.cellPos i := by
            intro he
            have hvi : v.cellPos i = v.off + i * v.stride := by simp [View.cellPos, View.rawOf, View.pos, hun]
            have hmj : mask.cellPos j = mask.off + mask.rawOf j * v.stride := by
              simp [View.cellPos, View.pos, hst hb]
            rw [hvi, hmj] at he
            have := cell_eq_imp (by rw [← hst hb]; exact hmo) hvo he
            omega
          rw [cellAt_wr hw1 mask.buf (mask.cellPos j) (Or.inr hne)]
        · rw [cellAt_wr hw1 mask.buf (mask.cellPos j) (Or.inl hb)]
      rw [hsame]; omega
    · simp only [hbit, Bool.false_eq_true, if_false] at hcnt ⊢
      exact ih (i + 1) di h hsh (by omega) (by omega)

/-- `a[mask] = b` (both branches) cannot leave the buffers when target and mask address components (`off < stride`) of
    element grids with the SAME stride whenever they share an allocation — which all objects reachable from Python do -/
theorem setitemVectorMask_no_oob {h : Heap} {v mask data : View} (w : v.WF (shape h)) (wm : mask.WF (shape h))
    (wd : data.WF (shape h)) (hvo : v.off < v.stride) (hmo : mask.off < mask.stride)
    (hst : mask.buf = v.buf → mask.stride = v.stride) {e : Err}
    (hr : setitemVectorMask h v mask data = .error e) : e ≠ .oob := by
  unfold setitemVectorMask at hr
  split at hr
  · simp at hr; subst hr; decide
  · by_cases hm : v.isMasked = true
    · simp [hm] at hr; subst hr; decide
    · have hm' : v.isMasked = false := by simpa using hm
      have hun : v.indices = none := by
        unfold View.isMasked at hm'
        cases hi : v.indices with
        | none => rfl
        | some idx => simp [hi] at hm'
      simp only [hm', Bool.false_eq_true, if_false] at hr
      cases hmd : matchDimension v mask.length with
      | error e' => simp [hmd] at hr; subst hr; rw [matchDimension_error hmd]; decide
      | ok len =>
        simp only [hmd] at hr
        obtain ⟨hlen, hcase⟩ := matchDimension_ok hmd
        subst hlen
        have hml : mask.length = v.length := by
          rcases hcase with hh | ⟨hh, _, _⟩
          · exact hh.symm
          · cases hh
        by_cases hdl : data.length = v.length
        · simp only [hdl, if_true] at hr
          obtain ⟨h', hl, _⟩ := forLoop_total (sh := shape h) (v.writeIfMaskFrom mask data) v.length 0
            (fun i h1 _ hi hsh => by
              unfold View.writeIfMaskFrom
              rw [(wm.of_shape hsh).get (by omega)]
              simp only
              split
              · rw [(wd.of_shape hsh).get (by omega)]
                simp only
                have := (w.of_shape hsh).wr_ok (q := i) (by omega) (cellAt h1 data.buf (data.cellPos i))
                rw [cellPos_unmasked hun, hsh] at this; exact this
              · exact ⟨h1, rfl, hsh⟩) h rfl
          rw [hl] at hr; simp at hr
        · simp only [hdl, if_false] at hr
          have hcm : countMask h mask v.length = .ok ((mask.toList h).filter (· != 0)).length := by
            unfold countMask
            rw [← hml, wm.readAll]
          simp only [hcm] at hr
          split at hr
          · simp at hr; subst hr; decide
          · rename_i hdc
            have hdc' : data.length = ((mask.toList h).filter (· != 0)).length := by
              by_cases hh : data.length = ((mask.toList h).filter (· != 0)).length
              · exact hh
              · exact absurd hh hdc
            obtain ⟨h', hl, _⟩ := packLoop_total w wm wd hun hvo hmo hst hml v.length 0 0 h rfl (by omega) (by
              rw [hdc', Nat.zero_add, ← List.range_eq_range', ← hml]
              simp only [View.toList, List.filter_map, List.length_map]
              rfl)
            rw [hl] at hr; simp at hr

/-! ## operations that create arrays -/

theorem alloc_Dense (h : Heap) (vals : List Int) : (alloc h vals).2.Dense := ⟨rfl, rfl⟩

/-- what a successful creating operation establishes: a fresh allocation appended, the new view on it well formed and laid out -/
def FreshGood (h : Heap) (r : Heap × View) : Prop :=
  (∃ vals, r.1 = h ++ [vals]) ∧ r.2.WF (shape r.1) ∧ r.2.Lay (shape r.1) ∧ r.2.buf = h.length

theorem alloc_Lay (h : Heap) (vals : List Int) : (alloc h vals).2.Lay (shape (alloc h vals).1) := by
  refine ⟨by simp [alloc], vals.length, by simp [alloc, shape], ?_⟩
  simp only [alloc]
  intro i hi
  omega

theorem alloc_FreshGood (h : Heap) (vals : List Int) (hl : (vals.length : Int) ≤ PY_SSIZE_T_MAX) :
    FreshGood h (alloc h vals) := ⟨⟨vals, rfl⟩, (alloc_WF h vals hl).1, alloc_Lay h vals, rfl⟩

/-- a result that IS `alloc h vals` -/
theorem FreshGood_of_eq {h : Heap} {vals : List Int} {r : Heap × View} (hr : alloc h vals = r) (w : r.2.WF (shape r.1)) :
    FreshGood h r := by
  subst hr
  exact ⟨⟨vals, rfl⟩, w, alloc_Lay h vals, rfl⟩

theorem mapE_error_of_forall_ok {ι α : Type} (f : ι → Except Err α) (g : ι → α) (l : List ι)
    (hf : ∀ i ∈ l, f i = .ok (g i)) {e : Err} (h : mapE f l = .error e) : False := by
  rw [mapE_ok_of_forall f g l hf] at h; cases h

/-- `a[idx]` as a slice: never out of bounds; the result is a fresh dense well-formed array -/
theorem getslice_good {h : Heap} {v : View} (w : v.WF (shape h)) (idx : PyIdx) (ms : Int) :
    (∀ e, getslice h v idx ms = .error e → e ≠ .oob) ∧ (∀ r, getslice h v idx ms = .ok r → FreshGood h r) := by
  unfold getslice
  cases hs : extractSliceIndices v.length idx (-1) ms with
  | error e' =>
    refine ⟨fun e he => ?_, fun r hr => (by simp at hr)⟩
    simp at he; subst he; exact extract_error_ne_oob hs
  | ok s =>
    have hread : mapE (v.readSliceElem h s) (List.range s.slicelength)
        = .ok ((List.range s.slicelength).map (fun i => cellAt h v.buf (v.cellPos (s.at i)))) := by
      apply mapE_ok_of_forall
      intro i hi
      exact w.readSliceElem (slice_at_lt' w.lenOk hs i (by simpa using hi))
    simp only [hread]
    refine ⟨fun e he => (by simp at he), fun r hr => ?_⟩
    simp at hr; subst hr
    apply alloc_FreshGood
    have := slicelength_le w.lenOk hs
    have := w.lenOk
    simp only [List.length_map, List.length_range]
    omega

/-- `a[mask]`: never out of bounds; the reference is well formed, laid out like its source (same allocation, offset and
    stride) and inherits `_writable` -/
theorem getsliceMask_good {h : Heap} {f mask : View} (wf : f.WF (shape h)) (wm : mask.WF (shape h))
    (lf : f.Lay (shape h)) :
    (∀ e, getsliceMask h f mask = .error e → e ≠ .oob) ∧
    (∀ m, getsliceMask h f mask = .ok m → m.WF (shape h) ∧ m.Lay (shape h) ∧ m.buf = f.buf ∧ m.stride = f.stride) := by
  by_cases hm : f.isMasked = true
  · unfold getsliceMask
    simp only [hm, if_true]
    exact ⟨fun e he => (by simp at he; subst he; decide), fun m hr => (by simp at hr)⟩
  · have hm' : f.isMasked = false := by simpa using hm
    have hun : f.indices = none := by
      unfold View.isMasked at hm'
      cases hi : f.indices with
      | none => rfl
      | some idx => simp [hi] at hm'
    by_cases hlen : f.length = mask.length
    · obtain ⟨m, hok, _, hwf, _, _, hmi⟩ := getsliceMask_refines wf wm hun hlen
      have hi := getsliceMask_inherits hok
      have hul : m.unmaskedLength = f.length := by
        unfold getsliceMask at hok
        simp only [hm', Bool.false_eq_true, if_false, matchDimension, hlen, if_true] at hok
        split at hok
        · simp at hok
        · simp at hok; rw [← hok]; exact hlen.symm
      rw [hok]
      refine ⟨fun e he => (by cases he), fun m' hr => ?_⟩
      simp at hr; subst hr
      refine ⟨hwf, ⟨by rw [hi.2.2.1, hi.2.2.2]; exact lf.offLt, ?_⟩, hi.1, hi.2.2.2⟩
      obtain ⟨n, hn, hw⟩ := lf.whole
      simp only [hun] at hw
      refine ⟨n, by rw [hi.1]; exact hn, ?_⟩
      simp only [hmi, hul, hi.2.2.2]
      exact hw
    · have : getsliceMask h f mask = .error .dimMismatch := by
        simp [getsliceMask, hm', matchDimension, hlen]
      rw [this]
      exact ⟨fun e he => (by simp at he; subst he; decide), fun m hr => (by cases hr)⟩

/-- converting constructor (current code): a dense copy -/
theorem convert_good {h : Heap} {v : View} (w : v.WF (shape h)) :
    ∃ r, convert Cfg.current h v = .ok r ∧ FreshGood h r := by
  have hl : ((v.toList h).length : Int) ≤ PY_SSIZE_T_MAX := by rw [View.toList_length]; exact w.lenOk
  refine ⟨alloc h (v.toList h), ?_, alloc_FreshGood h _ hl⟩
  unfold convert
  simp [w.readAll, Cfg.current]

/-- **`a.ifelse(choice, x)`** with a scalar alternative (const read, the current code): a fresh array
    `[a[i] if choice[i] else x]` -/
theorem ifelseScalar_refines {h : Heap} {v choice : View} (w : v.WF (shape h)) (wc : choice.WF (shape h))
    (hl1 : choice.length = v.length) (x : Int) :
    ∃ h' f, ifelseScalar h v choice x = .ok (h', f) ∧
      f.toList h' = PyList.ifelse (choice.toList h) (v.toList h) (List.replicate v.length x) ∧
      f.WF (shape h') ∧ f.buf = h.length ∧ (∃ vals, h' = h ++ [vals]) := by
  let g : Nat → Int := fun i => if cellAt h choice.buf (choice.cellPos i) != 0 then cellAt h v.buf (v.cellPos i) else x
  have hread : mapE (v.chooseScalar h choice x true) (List.range v.length) = .ok ((List.range v.length).map g) := by
    apply mapE_ok_of_forall
    intro i hi
    have hi' : i < v.length := by simpa using hi
    simp only [View.chooseScalar, wc.get (by omega : i < choice.length), if_true, w.get hi', g]
    split <;> rfl
  have hlen : (((List.range v.length).map g).length : Int) ≤ PY_SSIZE_T_MAX := by simpa using w.lenOk
  have hA := alloc_WF h _ hlen
  refine ⟨_, _, ?_, ?_, hA.1, rfl, ⟨_, rfl⟩⟩
  · unfold ifelseScalar
    simp only [matchDimension, hl1, if_true, hread]
  · rw [hA.2, ifelse_getElem (n := v.length) (by rw [View.toList_length, hl1]) (View.toList_length h v) (by simp)]
    apply List.map_congr_left
    intro i hi
    have hi' : i < v.length := by simpa using hi
    simp [g, getElem!_def, View.toList_getElem? h v i hi', View.toList_getElem? h choice i (by omega), hi']

theorem ifelseVector_good {h : Heap} {v c o : View} (w : v.WF (shape h)) (wc : c.WF (shape h)) (wo : o.WF (shape h)) :
    (∀ e, ifelseVector h v c o = .error e → e ≠ .oob) ∧ (∀ r, ifelseVector h v c o = .ok r → FreshGood h r) := by
  by_cases hl1 : c.length = v.length
  · by_cases hl2 : o.length = v.length
    · obtain ⟨h', f, hok, _, hwf, hbuf, hv⟩ := ifelseVector_refines w wc wo (cr := true) (Or.inl rfl) hl1 hl2
      rw [hok]
      refine ⟨fun e he => (by cases he), fun r hr => ?_⟩
      simp at hr; subst hr
      unfold ifelseVector at hok
      simp only [matchDimension, hl1, hl2, if_true] at hok
      split at hok
      · simp at hok
      · simp at hok; exact FreshGood_of_eq hok hwf
    · have : ifelseVector h v c o = .error .dimMismatch := by
        have hne : ¬ v.length = o.length := fun hh => hl2 hh.symm
        simp [ifelseVector, matchDimension, hl1, hne]
      rw [this]
      exact ⟨fun e he => (by simp at he; subst he; decide), fun r hr => (by cases hr)⟩
  · have : ifelseVector h v c o = .error .dimMismatch := by
      have hne : ¬ v.length = c.length := fun hh => hl1 hh.symm
      simp [ifelseVector, matchDimension, hne]
    rw [this]
    exact ⟨fun e he => (by simp at he; subst he; decide), fun r hr => (by cases hr)⟩

theorem ifelseScalar_good {h : Heap} {v c : View} (w : v.WF (shape h)) (wc : c.WF (shape h)) (x : Int) :
    (∀ e, ifelseScalar h v c x = .error e → e ≠ .oob) ∧ (∀ r, ifelseScalar h v c x = .ok r → FreshGood h r) := by
  by_cases hl1 : c.length = v.length
  · obtain ⟨h', f, hok, _, hwf, hbuf, hv⟩ := ifelseScalar_refines w wc hl1 x
    rw [hok]
    refine ⟨fun e he => (by cases he), fun r hr => ?_⟩
    simp at hr; subst hr
    unfold ifelseScalar at hok
    simp only [matchDimension, hl1, if_true] at hok
    split at hok
    · simp at hok
    · simp at hok; exact FreshGood_of_eq hok hwf
  · have : ifelseScalar h v c x = .error .dimMismatch := by
      have hne : ¬ v.length = c.length := fun hh => hl1 hh.symm
      simp [ifelseScalar, matchDimension, hne]
    rw [this]
    exact ⟨fun e he => (by simp at he; subst he; decide), fun r hr => (by cases hr)⟩

/-- a vector array filled component by component: whole elements, offset 0, stride `w` -/
theorem allocWide_FreshGood (h : Heap) (w : Nat) (cells : List Int) (hw : 0 < w) (hdvd : w ∣ cells.length)
    (hl : ((cells.length / w : Nat) : Int) ≤ PY_SSIZE_T_MAX) : FreshGood h (allocWide h w cells) := by
  obtain ⟨n, hn⟩ := hdvd
  have hlen : cells.length / w = n := by rw [hn]; exact Nat.mul_div_cancel_left n hw
  have hcell : ∀ i, i < n → i * w + w ≤ cells.length := by
    intro i hi
    rw [hn]
    have : (i + 1) * w ≤ n * w := Nat.mul_le_mul_right w (by omega)
    rw [Nat.add_mul, Nat.one_mul] at this
    rw [Nat.mul_comm w n]; exact this
  refine ⟨⟨cells, rfl⟩, ⟨by simp only [allocWide, hlen]; rw [hlen] at hl; exact hl, by simp [allocWide, hw], cells.length,
    by simp [allocWide, shape], ?_⟩, ⟨by simp [allocWide, hw], cells.length, by simp [allocWide, shape], ?_⟩, rfl⟩
  · simp only [allocWide, hlen]
    intro i hi
    have := hcell i hi
    simp only [View.pos, Nat.zero_add]
    omega
  · simp only [allocWide, hlen]
    exact hcell

/-- the component array (current getters: the mask is kept) of component `k < stride` of a vector array (`off = 0`) -/
theorem compView_good {sh : List Nat} {a : View} (w : a.WF sh) (la : a.Lay sh) {k : Nat} (h0 : a.off = 0) (hk : k < a.stride) :
    ∃ c, compView true a k = .ok c ∧ c.WF sh ∧ c.Lay sh ∧ c.buf = a.buf ∧ c.stride = a.stride ∧ c.writable = a.writable := by
  refine ⟨{ a with off := a.off + k }, by simp [compView], ?_, ?_, rfl, rfl, rfl⟩
  · obtain ⟨n, hn, hwh⟩ := la.whole
    obtain ⟨n', hn', hm⟩ := w.inBuf
    have hnn : n' = n := by rw [hn] at hn'; exact (Option.some.inj hn').symm
    subst hnn
    refine ⟨w.lenOk, w.stridePos, n', hn, ?_⟩
    cases hidx : a.indices with
    | none =>
      simp only [hidx] at hwh ⊢
      intro i hi
      have := hwh i hi
      simp only [View.pos, h0]
      omega
    | some idx =>
      simp only [hidx] at hwh hm ⊢
      refine ⟨hm.1, hm.2.1, fun j hj => ?_, hm.2.2.2⟩
      have := hwh j hj
      simp only [View.pos, h0]
      omega
  · exact ⟨by simp only [h0]; omega, la.whole⟩

/-! ## the invariant of the state machine -/

/-- every Python object is well formed and addresses one component of whole elements; objects on the same allocation
    agree on the element stride -/
def StateOK (s : State) : Prop :=
  (∀ v ∈ s.env, v.WF (shape s.heap) ∧ v.Lay (shape s.heap)) ∧
  (∀ v ∈ s.env, ∀ v' ∈ s.env, v.buf = v'.buf → v.stride = v'.stride)

/-- side conditions on a statement — what Python's typing enforces: an allocation request fits `Py_ssize_t`; a vector array
    is filled with whole elements; `.x` / `.y` … is taken of a VECTOR array (`off = 0`) and names one of its components -/
def OpOK (s : State) : Op → Prop
  | .alloc vals => (vals.length : Int) ≤ PY_SSIZE_T_MAX
  | .allocWide w cells => 0 < w ∧ w ∣ cells.length ∧ ((cells.length / w : Nat) : Int) ≤ PY_SSIZE_T_MAX
  | .comp v k => ∀ a, s.env[v]? = some a → a.off = 0 ∧ k < a.stride
  | _ => True

theorem StateOK.empty : StateOK State.empty :=
  ⟨by intro v hv; simp [State.empty] at hv, by intro v hv; simp [State.empty] at hv⟩

theorem view_ok {s : State} (hs : StateOK s) {v : Nat} {a : View} (h : s.view v = .ok a) :
    a.WF (shape s.heap) ∧ a.Lay (shape s.heap) ∧ a ∈ s.env := by
  unfold State.view at h
  split at h
  · rename_i x hx
    simp at h; subst h
    have hm := List.mem_of_getElem? hx
    exact ⟨(hs.1 _ hm).1, (hs.1 _ hm).2, hm⟩
  · simp at h

theorem view_error {s : State} {v : Nat} {e : Err} (h : s.view v = .error e) : e ≠ .oob := by
  unfold State.view at h
  split at h
  · simp at h
  · simp at h; subst h; decide

theorem view_ne_oob (s : State) (v : Nat) : s.view v ≠ .error .oob := fun h => view_error h rfl

theorem View.Lay.of_shape_eq {sh sh' : List Nat} {v : View} (l : v.Lay sh) (h : sh' = sh) : v.Lay sh' := h ▸ l

theorem View.Lay.append {sh : List Nat} {v : View} (l : v.Lay sh) (k : Nat) : v.Lay (sh ++ [k]) := by
  obtain ⟨n, hn, hw⟩ := l.whole
  refine ⟨l.offLt, n, ?_, hw⟩
  have : v.buf < sh.length := (List.getElem?_eq_some_iff.1 hn).1
  simp [List.getElem?_append_left this, hn]

theorem withHeap_inv {s : State} (hs : StateOK s) {r : Except Err Heap}
    (hok : ∀ h', r = .ok h' → shape h' = shape s.heap) (herr : ∀ e, r = .error e → e ≠ .oob) :
    StateOK (s.withHeap r).1 ∧ (s.withHeap r).2 ≠ .error .oob := by
  cases r with
  | error e =>
    refine ⟨hs, ?_⟩
    simp only [State.withHeap]
    intro hh; exact herr e rfl (by simpa using hh)
  | ok h' =>
    refine ⟨⟨?_, hs.2⟩, by simp [State.withHeap]⟩
    intro v hv
    simp only [State.withHeap] at hv ⊢
    rw [hok h' rfl]
    exact hs.1 v hv

/-- adding an object on an EXISTING allocation `b` whose objects already have its stride -/
theorem push_same_inv {s : State} (hs : StateOK s) {f a : View} (ha : a ∈ s.env)
    (hf : f.WF (shape s.heap) ∧ f.Lay (shape s.heap)) (hb : f.buf = a.buf) (hst : f.stride = a.stride) :
    StateOK (s.push s.heap f).1 ∧ (s.push s.heap f).2 ≠ .error .oob := by
  refine ⟨⟨?_, ?_⟩, by simp [State.push]⟩
  · intro v hv
    simp only [State.push, List.mem_append, List.mem_singleton] at hv ⊢
    rcases hv with h | h
    · exact hs.1 v h
    · subst h; exact hf
  · intro v hv v' hv' hbb
    simp only [State.push, List.mem_append, List.mem_singleton] at hv hv'
    rcases hv with h | h <;> rcases hv' with h' | h'
    · exact hs.2 v h v' h' hbb
    · subst h'; rw [hst]; exact hs.2 v h a ha (by rw [hbb, hb])
    · subst h; rw [hst]; exact hs.2 a ha v' h' (by rw [← hb, hbb])
    · subst h; subst h'; rfl

theorem withNew_inv {s : State} (hs : StateOK s) {r : Except Err (Heap × View)}
    (hok : ∀ x, r = .ok x → FreshGood s.heap x) (herr : ∀ e, r = .error e → e ≠ .oob) :
    StateOK (s.withNew r).1 ∧ (s.withNew r).2 ≠ .error .oob := by
  cases r with
  | error e =>
    refine ⟨hs, ?_⟩
    simp only [State.withNew]
    intro hh; exact herr e rfl (by simpa using hh)
  | ok x =>
    obtain ⟨h', f⟩ := x
    obtain ⟨⟨vals, hv⟩, hwf, hlay, hbuf⟩ := hok _ rfl
    simp only at hv hwf hlay hbuf
    simp only [State.withNew]
    subst hv
    have hold : ∀ v ∈ s.env, v.buf < s.heap.length := by
      intro v hvm
      obtain ⟨n, hn, _⟩ := (hs.1 v hvm).1.inBuf
      have := (List.getElem?_eq_some_iff.1 hn).1
      simpa [shape] using this
    refine ⟨⟨?_, ?_⟩, by simp [State.push]⟩
    · intro v hvm
      simp only [State.push, List.mem_append, List.mem_singleton] at hvm ⊢
      rcases hvm with h | h
      · rw [shape_append]
        exact ⟨(hs.1 v h).1.append _, (hs.1 v h).2.append _⟩
      · subst h; exact ⟨hwf, hlay⟩
    · intro v hvm v' hvm' hbb
      simp only [State.push, List.mem_append, List.mem_singleton] at hvm hvm'
      rcases hvm with h | h <;> rcases hvm' with h' | h'
      · exact hs.2 v h v' h' hbb
      · subst h'; have := hold v h; omega
      · subst h; have := hold v' h'; omega
      · subst h; subst h'; rfl

theorem same_inv {s : State} (hs : StateOK s) {r : Res} (hr : r ≠ .error .oob) :
    StateOK ((s, r) : State × Res).1 ∧ ((s, r) : State × Res).2 ≠ .error .oob := ⟨hs, hr⟩

/-- **One statement, any statement (current code): the invariant is preserved and no access leaves a buffer.** -/
theorem step_inv (s : State) (hs : StateOK s) (op : Op) (hop : OpOK s op) :
    StateOK (step Cfg.current s op).1 ∧ (step Cfg.current s op).2 ≠ .error .oob := by
  cases op with
  | alloc vals =>
    simp only [step]
    exact withNew_inv hs (r := .ok (alloc s.heap vals))
      (fun x hx => by simp at hx; subst hx; exact alloc_FreshGood _ _ hop) (fun e he => by cases he)
  | allocWide w cells =>
    simp only [step]
    exact withNew_inv hs (r := .ok (allocWide s.heap w cells))
      (fun x hx => by simp at hx; subst hx; exact allocWide_FreshGood _ _ _ hop.1 hop.2.1 hop.2.2) (fun e he => by cases he)
  | comp v k =>
    simp only [step]
    split
    · rename_i a ha
      obtain ⟨wa, la, hmem⟩ := view_ok hs ha
      have hidx : s.env[v]? = some a := by
        unfold State.view at ha
        split at ha
        · rename_i x hx; simp at ha; subst ha; exact hx
        · simp at ha
      obtain ⟨h0, hk⟩ := hop a hidx
      obtain ⟨c, hc, wc, lc, hb, hst, _⟩ := compView_good wa la h0 hk
      simp only [Cfg.current, hc]
      exact push_same_inv hs hmem ⟨wc, lc⟩ hb hst
    · exact same_inv hs (fun hh => by simp at hh; subst hh; exact view_ne_oob s _ (by assumption))
  | len v =>
    simp only [step]
    split
    · exact same_inv hs (by simp)
    · exact same_inv hs (fun hh => by simp at hh; subst hh; exact view_ne_oob s _ (by assumption))
  | getitem v i =>
    simp only [step]
    split
    · rename_i a ha
      have w := (view_ok hs ha).1
      split
      · exact same_inv hs (by simp)
      · rename_i e he
        refine same_inv hs ?_
        rw [getitem_refines w i] at he
        split at he
        · cases he
        · simp at he; subst he; simp
    · exact same_inv hs (fun hh => by simp at hh; subst hh; exact view_ne_oob s _ (by assumption))
  | getslice v idx =>
    simp only [step]
    split
    · rename_i a ha
      have g := getslice_good (view_ok hs ha).1 idx Cfg.current.minStart
      exact withNew_inv hs g.2 g.1
    · exact same_inv hs (fun hh => by simp at hh; subst hh; exact view_ne_oob s _ (by assumption))
  | getmask v m =>
    simp only [step]
    split
    · rename_i a mk ha hm
      obtain ⟨wa, la, hmem⟩ := view_ok hs ha
      have g := getsliceMask_good wa (view_ok hs hm).1 la
      split
      · rename_i f hf
        obtain ⟨g1, g2, g3, g4⟩ := g.2 f hf
        exact push_same_inv hs hmem ⟨g1, g2⟩ g3 g4
      · rename_i e he
        exact same_inv hs (fun hh => g.1 e he (by simpa using hh))
    · exact same_inv hs (fun hh => by simp at hh; subst hh; exact view_ne_oob s _ (by assumption))
    · exact same_inv hs (fun hh => by simp at hh; subst hh; exact view_ne_oob s _ (by assumption))
  | copy v =>
    simp only [step]
    split
    · rename_i a ha
      obtain ⟨wa, la, hmem⟩ := view_ok hs ha
      exact push_same_inv hs hmem ⟨wa, la⟩ rfl rfl
    · exact same_inv hs (fun hh => by simp at hh; subst hh; exact view_ne_oob s _ (by assumption))
  | convert v =>
    simp only [step]
    split
    · rename_i a ha
      obtain ⟨r, hr, hg⟩ := convert_good (view_ok hs ha).1
      rw [hr]
      exact withNew_inv hs (fun x hx => by simp at hx; subst hx; exact hg) (fun e he => by cases he)
    · exact same_inv hs (fun hh => by simp at hh; subst hh; exact view_ne_oob s _ (by assumption))
  | setScalar v idx x =>
    simp only [step]
    split
    · rename_i a ha
      exact withHeap_inv hs (fun h' hr => (setitemScalar_mutates hr).shape)
        (fun e he => setitemScalar_no_oob (view_ok hs ha).1 he)
    · exact same_inv hs (fun hh => by simp at hh; subst hh; exact view_ne_oob s _ (by assumption))
  | setScalarMask v m x =>
    simp only [step]
    split
    · rename_i a mk ha hm
      exact withHeap_inv hs (fun h' hr => (setitemScalarMask_mutates hr).shape)
        (fun e he => setitemScalarMask_no_oob (view_ok hs ha).1 (view_ok hs hm).1 he)
    · exact same_inv hs (fun hh => by simp at hh; subst hh; exact view_ne_oob s _ (by assumption))
    · exact same_inv hs (fun hh => by simp at hh; subst hh; exact view_ne_oob s _ (by assumption))
  | setVector v idx d =>
    simp only [step]
    split
    · rename_i a da ha hd
      exact withHeap_inv hs (fun h' hr => (setitemVector_mutates hr).shape)
        (fun e he => setitemVector_no_oob (view_ok hs ha).1 (view_ok hs hd).1 he)
    · exact same_inv hs (fun hh => by simp at hh; subst hh; exact view_ne_oob s _ (by assumption))
    · exact same_inv hs (fun hh => by simp at hh; subst hh; exact view_ne_oob s _ (by assumption))
  | setVectorMask v m d =>
    simp only [step]
    split
    · rename_i a mk da ha hm hd
      obtain ⟨wa, la, hma⟩ := view_ok hs ha
      obtain ⟨wm, lm, hmm⟩ := view_ok hs hm
      exact withHeap_inv hs (fun h' hr => (setitemVectorMask_mutates hr).shape)
        (fun e he => setitemVectorMask_no_oob wa wm (view_ok hs hd).1 la.offLt lm.offLt
          (fun hb => hs.2 mk hmm a hma hb) he)
    · exact same_inv hs (fun hh => by simp at hh; subst hh; exact view_ne_oob s _ (by assumption))
    · exact same_inv hs (fun hh => by simp at hh; subst hh; exact view_ne_oob s _ (by assumption))
    · exact same_inv hs (fun hh => by simp at hh; subst hh; exact view_ne_oob s _ (by assumption))
  | ifelseScalar v c x =>
    simp only [step]
    split
    · rename_i a ch ha hc
      have g := ifelseScalar_good (view_ok hs ha).1 (view_ok hs hc).1 x
      exact withNew_inv hs g.2 g.1
    · exact same_inv hs (fun hh => by simp at hh; subst hh; exact view_ne_oob s _ (by assumption))
    · exact same_inv hs (fun hh => by simp at hh; subst hh; exact view_ne_oob s _ (by assumption))
  | ifelseVector v c o =>
    simp only [step]
    split
    · rename_i a ch ot ha hc ho
      have g := ifelseVector_good (view_ok hs ha).1 (view_ok hs hc).1 (view_ok hs ho).1
      exact withNew_inv hs g.2 g.1
    · exact same_inv hs (fun hh => by simp at hh; subst hh; exact view_ne_oob s _ (by assumption))
    · exact same_inv hs (fun hh => by simp at hh; subst hh; exact view_ne_oob s _ (by assumption))
    · exact same_inv hs (fun hh => by simp at hh; subst hh; exact view_ne_oob s _ (by assumption))
  | makeReadOnly v =>
    simp only [step]
    split
    · rename_i a ha
      obtain ⟨wa, la, hmem⟩ := view_ok hs ha
      have hnew : ({ a with writable := false } : View).WF (shape s.heap) ∧ ({ a with writable := false } : View).Lay (shape s.heap) :=
        ⟨⟨wa.lenOk, wa.stridePos, wa.inBuf⟩, ⟨la.offLt, la.whole⟩⟩
      refine ⟨⟨?_, ?_⟩, by simp⟩
      · intro w hw
        simp only at hw ⊢
        rcases List.mem_or_eq_of_mem_set hw with h | h
        · exact hs.1 w h
        · subst h; exact hnew
      · intro w hw w' hw' hbb
        simp only at hw hw'
        rcases List.mem_or_eq_of_mem_set hw with h | h <;> rcases List.mem_or_eq_of_mem_set hw' with h' | h'
        · exact hs.2 w h w' h' hbb
        · subst h'; exact hs.2 w h a hmem hbb
        · subst h; exact hs.2 a hmem w' h' hbb
        · subst h; subst h'; rfl
    · exact same_inv hs (fun hh => by simp at hh; subst hh; exact view_ne_oob s _ (by assumption))
  | iaddScalar v x =>
    simp only [step]
    split
    · rename_i a ha
      exact withHeap_inv hs (fun h' hr => (iaddScalar_mutates hr).2.2)
        (fun e he => iaddScalar_no_oob (view_ok hs ha).1 he)
    · exact same_inv hs (fun hh => by simp at hh; subst hh; exact view_ne_oob s _ (by assumption))
  | iaddVector v d =>
    simp only [step]
    split
    · rename_i a da ha hd
      exact withHeap_inv hs (fun h' hr => (iaddVector_mutates hr).2.2)
        (fun e he => iaddVector_no_oob (view_ok hs ha).1 (view_ok hs hd).1 he)
    · exact same_inv hs (fun hh => by simp at hh; subst hh; exact view_ne_oob s _ (by assumption))
    · exact same_inv hs (fun hh => by simp at hh; subst hh; exact view_ne_oob s _ (by assumption))

/-- the side conditions along a program, each evaluated in the state its statement runs in -/
def OpsOK : State → List Op → Prop
  | _, [] => True
  | s, op :: ops => OpOK s op ∧ OpsOK (step Cfg.current s op).1 ops

/-- **No program ever touches a cell outside a buffer**, and the invariant holds in every reachable state. -/
theorem run_inv : ∀ (ops : List Op) (s : State), StateOK s → OpsOK s ops →
    StateOK (exec Cfg.current s ops) ∧ ∀ r ∈ (run Cfg.current s ops).2, r ≠ .error .oob := by
  intro ops
  induction ops with
  | nil => intro s hs _; exact ⟨hs, by simp [run]⟩
  | cons op ops ih =>
    intro s hs hops
    obtain ⟨h1, h2⟩ := step_inv s hs op hops.1
    obtain ⟨h3, h4⟩ := ih (step Cfg.current s op).1 h1 hops.2
    refine ⟨by simpa only [exec] using h3, ?_⟩
    intro r hr
    simp only [run, List.mem_cons] at hr
    rcases hr with h | h
    · subst h; exact h2
    · exact h4 r h

end ImathVerif.FixedArray
