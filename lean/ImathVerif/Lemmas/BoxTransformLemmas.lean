import ImathVerif.Model.BoxTransform
import ImathVerif.Lemmas.C13Shapes
import Mathlib.Algebra.Order.Field.Basic
import Mathlib.Algebra.Order.Ring.Abs
import Mathlib.Tactic.Linarith
import Mathlib.Tactic.Ring
import Mathlib.Tactic.FieldSimp
/-!
# Lemmas about the Arvo box transform (C13, H-route model `Model/BoxTransform.lean`)

Per output axis the Arvo loop accumulates `m[3][i] + Σ_j min(m[j][i]·lo_j, m[j][i]·hi_j)` (resp. `max`).
By a sign split on each matrix entry this bounds `m[3][i] + Σ_j m[j][i]·t_j` for every `t` in the box
(convexity per axis), and the bound is attained at a corner — so the result is the least box
containing the images of the eight corners.
-/
set_option linter.unusedVariables false
set_option linter.unusedSimpArgs false
set_option linter.unusedSectionVars false
namespace ImathVerif.BoxTransform
open ImathVerif ImathVerif.C13

variable {α : Type}

/-- the affine image of a point: `p.x*m[0][i] + p.y*m[1][i] + p.z*m[2][i] + m[3][i]` on output axis `i`
(the numerators of `Vec3 * Matrix44`) -/
def affCoord [Add α] [Mul α] (m3 m0 m1 m2 : α) (p : V3 α) : α := p.x * m0 + p.y * m1 + p.z * m2 + m3

def affImg [Add α] [Mul α] (m : M44 α) (p : V3 α) : V3 α :=
  ⟨affCoord m.x30 m.x00 m.x10 m.x20 p, affCoord m.x31 m.x01 m.x11 m.x21 p, affCoord m.x32 m.x02 m.x12 m.x22 p⟩

section ring
variable [CommRing α] [LinearOrder α] [IsStrictOrderedRing α]

theorem arvoStep_eq (acc : α × α) (a lo hi : α) :
    arvoStep acc a lo hi = (acc.1 + min (a * lo) (a * hi), acc.2 + max (a * lo) (a * hi)) := by
  unfold arvoStep
  by_cases h : a * lo < a * hi
  · simp only [if_pos h, min_eq_left (le_of_lt h), max_eq_right (le_of_lt h)]
  · simp only [if_neg h, min_eq_right (not_lt.1 h), max_eq_left (not_lt.1 h)]

/-- convexity on one axis: `a·t` lies between `a·lo` and `a·hi` (sign split on `a`) -/
theorem mul_between (a lo hi t : α) (h1 : lo ≤ t) (h2 : t ≤ hi) :
    min (a * lo) (a * hi) ≤ a * t ∧ a * t ≤ max (a * lo) (a * hi) := by
  rcases le_total 0 a with ha | ha
  · exact ⟨le_trans (min_le_left _ _) (mul_le_mul_of_nonneg_left h1 ha),
      le_trans (mul_le_mul_of_nonneg_left h2 ha) (le_max_right _ _)⟩
  · exact ⟨le_trans (min_le_right _ _) (mul_le_mul_of_nonpos_left h2 ha),
      le_trans (mul_le_mul_of_nonpos_left h1 ha) (le_max_left _ _)⟩

/-- the bound is attained at one of the two ends -/
theorem min_mul_attained (a lo hi : α) : ∃ t, (t = lo ∨ t = hi) ∧ a * t = min (a * lo) (a * hi) := by
  rcases le_total (a * lo) (a * hi) with h | h
  · exact ⟨lo, Or.inl rfl, (min_eq_left h).symm⟩
  · exact ⟨hi, Or.inr rfl, (min_eq_right h).symm⟩
theorem max_mul_attained (a lo hi : α) : ∃ t, (t = lo ∨ t = hi) ∧ a * t = max (a * lo) (a * hi) := by
  rcases le_total (a * lo) (a * hi) with h | h
  · exact ⟨hi, Or.inr rfl, (max_eq_right h).symm⟩
  · exact ⟨lo, Or.inl rfl, (max_eq_left h).symm⟩

theorem arvoAxis_eq (m3 m0 m1 m2 : α) (b : Box3 α) :
    arvoAxis m3 m0 m1 m2 b =
      (m3 + min (m0 * b.min.x) (m0 * b.max.x) + min (m1 * b.min.y) (m1 * b.max.y) + min (m2 * b.min.z) (m2 * b.max.z),
       m3 + max (m0 * b.min.x) (m0 * b.max.x) + max (m1 * b.min.y) (m1 * b.max.y) + max (m2 * b.min.z) (m2 * b.max.z)) := by
  simp only [arvoAxis, arvoStep_eq]

/-- every point of the box maps between the two accumulated bounds -/
theorem arvoAxis_contains (m3 m0 m1 m2 : α) (b : Box3 α) (p : V3 α) (hp : Box3.Mem p b) :
    (arvoAxis m3 m0 m1 m2 b).1 ≤ affCoord m3 m0 m1 m2 p ∧ affCoord m3 m0 m1 m2 p ≤ (arvoAxis m3 m0 m1 m2 b).2 := by
  obtain ⟨⟨x1, x2⟩, ⟨y1, y2⟩, ⟨z1, z2⟩⟩ := hp
  have hx := mul_between m0 _ _ _ x1 x2
  have hy := mul_between m1 _ _ _ y1 y2
  have hz := mul_between m2 _ _ _ z1 z2
  rw [arvoAxis_eq]; unfold affCoord
  constructor <;> simp only <;> nlinarith [hx.1, hx.2, hy.1, hy.2, hz.1, hz.2]

theorem corner_mem (b : Box3 α) (x y z : α) (hx : x = b.min.x ∨ x = b.max.x) (hy : y = b.min.y ∨ y = b.max.y)
    (hz : z = b.min.z ∨ z = b.max.z) : (⟨x, y, z⟩ : V3 α) ∈ corners b := by
  rcases hx with rfl | rfl <;> rcases hy with rfl | rfl <;> rcases hz with rfl | rfl <;> simp [corners]

/-- ... and each bound is the image of a corner -/
theorem arvoAxis_min_attained (m3 m0 m1 m2 : α) (b : Box3 α) :
    ∃ c ∈ corners b, affCoord m3 m0 m1 m2 c = (arvoAxis m3 m0 m1 m2 b).1 := by
  obtain ⟨x, hx, ex⟩ := min_mul_attained m0 b.min.x b.max.x
  obtain ⟨y, hy, ey⟩ := min_mul_attained m1 b.min.y b.max.y
  obtain ⟨z, hz, ez⟩ := min_mul_attained m2 b.min.z b.max.z
  refine ⟨⟨x, y, z⟩, corner_mem b x y z hx hy hz, ?_⟩
  rw [arvoAxis_eq]; unfold affCoord; simp only; rw [← ex, ← ey, ← ez]; ring

theorem arvoAxis_max_attained (m3 m0 m1 m2 : α) (b : Box3 α) :
    ∃ c ∈ corners b, affCoord m3 m0 m1 m2 c = (arvoAxis m3 m0 m1 m2 b).2 := by
  obtain ⟨x, hx, ex⟩ := max_mul_attained m0 b.min.x b.max.x
  obtain ⟨y, hy, ey⟩ := max_mul_attained m1 b.min.y b.max.y
  obtain ⟨z, hz, ez⟩ := max_mul_attained m2 b.min.z b.max.z
  refine ⟨⟨x, y, z⟩, corner_mem b x y z hx hy hz, ?_⟩
  rw [arvoAxis_eq]; unfold affCoord; simp only; rw [← ex, ← ey, ← ez]; ring

/-- the image of every point of the box lies in the Arvo result -/
theorem arvo_contains (b : Box3 α) (m : M44 α) (p : V3 α) (hp : Box3.Mem p b) : Box3.Mem (affImg m p) (arvo b m) := by
  unfold arvo affImg Box3.Mem
  exact ⟨arvoAxis_contains _ _ _ _ b p hp, arvoAxis_contains _ _ _ _ b p hp, arvoAxis_contains _ _ _ _ b p hp⟩

theorem corners_mem_box (b : Box3 α) (hb : ¬ Box3.Inverted b) : ∀ c ∈ corners b, Box3.Mem c b := by
  simp only [Box3.Inverted, not_or, not_lt] at hb
  obtain ⟨h1, h2, h3⟩ := hb
  intro c hc
  simp only [corners, List.mem_cons, List.not_mem_nil, or_false] at hc
  rcases hc with rfl | rfl | rfl | rfl | rfl | rfl | rfl | rfl <;>
    exact ⟨⟨by first | exact le_refl _ | exact h1, by first | exact le_refl _ | exact h1⟩,
      ⟨by first | exact le_refl _ | exact h2, by first | exact le_refl _ | exact h2⟩,
      ⟨by first | exact le_refl _ | exact h3, by first | exact le_refl _ | exact h3⟩⟩

theorem arvo_not_inverted (b : Box3 α) (m : M44 α) (hb : ¬ Box3.Inverted b) : ¬ Box3.Inverted (arvo b m) := by
  have hmin : Box3.Mem b.min b := by
    simp only [Box3.Inverted, not_or, not_lt] at hb
    exact ⟨⟨le_refl _, hb.1⟩, ⟨le_refl _, hb.2.1⟩, ⟨le_refl _, hb.2.2⟩⟩
  have h := arvo_contains b m b.min hmin
  rw [← Box3.isEmptySet_iff]
  exact fun he => he _ h

/-- TIGHT: the Arvo result is the least box containing the images of the eight corners -/
theorem arvo_tight (b : Box3 α) (m : M44 α) (hb : ¬ Box3.Inverted b) (c' : Box3 α) :
    Box3.Subset (arvo b m) c' ↔ ∀ c ∈ corners b, Box3.Mem (affImg m c) c' := by
  constructor
  · intro h c hc
    exact h _ (arvo_contains b m c (corners_mem_box b hb c hc))
  · intro h
    rw [Box3.subset_iff _ _ (arvo_not_inverted b m hb)]
    obtain ⟨c1, hc1, e1⟩ := arvoAxis_min_attained m.x30 m.x00 m.x10 m.x20 b
    obtain ⟨c2, hc2, e2⟩ := arvoAxis_max_attained m.x30 m.x00 m.x10 m.x20 b
    obtain ⟨c3, hc3, e3⟩ := arvoAxis_min_attained m.x31 m.x01 m.x11 m.x21 b
    obtain ⟨c4, hc4, e4⟩ := arvoAxis_max_attained m.x31 m.x01 m.x11 m.x21 b
    obtain ⟨c5, hc5, e5⟩ := arvoAxis_min_attained m.x32 m.x02 m.x12 m.x22 b
    obtain ⟨c6, hc6, e6⟩ := arvoAxis_max_attained m.x32 m.x02 m.x12 m.x22 b
    have g1 := h c1 hc1; have g2 := h c2 hc2; have g3 := h c3 hc3
    have g4 := h c4 hc4; have g5 := h c5 hc5; have g6 := h c6 hc6
    simp only [Box3.Mem, affImg] at g1 g2 g3 g4 g5 g6
    simp only [arvo]
    refine ⟨⟨?_, ?_⟩, ⟨?_, ?_⟩, ⟨?_, ?_⟩⟩
    · rw [← e1]; exact g1.1.1
    · rw [← e2]; exact g2.1.2
    · rw [← e3]; exact g3.2.1.1
    · rw [← e4]; exact g4.2.1.2
    · rw [← e5]; exact g5.2.2.1
    · rw [← e6]; exact g6.2.2.2

/-- an affine function that is `≥ 0` at the eight corners is `≥ 0` on the whole box (its minimum over the box is
attained at a corner) -/
theorem affCoord_nonneg_of_corners (m3 m0 m1 m2 : α) (b : Box3 α)
    (h : ∀ c ∈ corners b, 0 ≤ affCoord m3 m0 m1 m2 c) (p : V3 α) (hp : Box3.Mem p b) : 0 ≤ affCoord m3 m0 m1 m2 p := by
  obtain ⟨c, hc, e⟩ := arvoAxis_min_attained m3 m0 m1 m2 b
  exact le_trans (e ▸ h c hc) (arvoAxis_contains m3 m0 m1 m2 b p hp).1

/-- ... and one that is `> 0` at the eight corners is `> 0` on the whole box -/
theorem affCoord_pos_of_corners (m3 m0 m1 m2 : α) (b : Box3 α)
    (h : ∀ c ∈ corners b, 0 < affCoord m3 m0 m1 m2 c) (p : V3 α) (hp : Box3.Mem p b) : 0 < affCoord m3 m0 m1 m2 p := by
  obtain ⟨c, hc, e⟩ := arvoAxis_min_attained m3 m0 m1 m2 b
  exact lt_of_lt_of_le (e ▸ h c hc) (arvoAxis_contains m3 m0 m1 m2 b p hp).1

theorem Box3.eq_of_subset_subset (a c : Box3 α) (ha : ¬ Box3.Inverted a) (hc : ¬ Box3.Inverted c)
    (h1 : Box3.Subset a c) (h2 : Box3.Subset c a) : a = c := by
  rw [Box3.subset_iff _ _ ha] at h1
  rw [Box3.subset_iff _ _ hc] at h2
  obtain ⟨⟨a1, a2, a3⟩, ⟨a4, a5, a6⟩⟩ := a
  obtain ⟨⟨c1, c2, c3⟩, ⟨c4, c5, c6⟩⟩ := c
  simp only [Box3.mk.injEq, V3.mk.injEq] at *
  refine ⟨⟨?_, ?_, ?_⟩, ⟨?_, ?_, ?_⟩⟩ <;> apply le_antisymm <;> tauto

end ring

end ImathVerif.BoxTransform
