import ImathVerif.Model.RayBoxOracle
import ImathVerif.Lemmas.RayBoxLemmas
/-!
# Correctness of the exact interval oracle (`Model/RayBoxOracle.lean`)

`Sem o P`: the optional interval `o` denotes exactly the parameter set `P` — `none` means `P`
is empty, `some i` means `i` is a non-empty interval whose members are exactly the `t` with `P t`.
`sem_slab` (one axis), `sem_inter` / `sem_oInter` (intersection), hence `sem_lineIval`,
`sem_rayIval`; `sem_isSome`, `sem_lo_least`, `sem_hi_greatest` read hit/miss and the end points off.
-/
set_option linter.unusedSectionVars false
namespace ImathVerif.RayBox
variable {α : Type} [Field α] [LinearOrder α] [IsStrictOrderedRing α]

theorem omin_eq (a b : α) : omin a b = min a b := by
  unfold omin; split_ifs with h
  · exact (min_eq_left h).symm
  · exact (min_eq_right (le_of_lt (not_le.mp h))).symm

theorem omax_eq (a b : α) : omax a b = max a b := by
  unfold omax; split_ifs with h
  · exact (max_eq_right h).symm
  · exact (max_eq_left (le_of_lt (not_le.mp h))).symm

def Ival.Mem (i : Ival α) (t : α) : Prop := (i.loInf = true ∨ i.lo ≤ t) ∧ (i.hiInf = true ∨ t ≤ i.hi)

/-- non-empty -/
def Ival.Valid (i : Ival α) : Prop := i.loInf = true ∨ i.hiInf = true ∨ i.lo ≤ i.hi

def Sem (o : Option (Ival α)) (P : α → Prop) : Prop :=
  match o with
  | none => ∀ t, ¬ P t
  | some i => i.Valid ∧ ∀ t, i.Mem t ↔ P t

theorem Sem.congr {o : Option (Ival α)} {P Q : α → Prop} (h : Sem o P) (hpq : ∀ t, P t ↔ Q t) : Sem o Q := by
  cases o with
  | none => exact fun t hq => h t ((hpq t).mpr hq)
  | some i => exact ⟨h.1, fun t => (h.2 t).trans (hpq t)⟩

theorem valid_nonempty {i : Ival α} (h : i.Valid) : ∃ t, i.Mem t := by
  obtain ⟨a, l, c, u⟩ := i
  cases a <;> cases c <;> simp only [Ival.Valid, Ival.Mem, Bool.false_eq_true, false_or, true_or, or_true] at h ⊢
  · exact ⟨l, le_refl _, h⟩
  · exact ⟨l, le_refl _, trivial⟩
  · exact ⟨u, trivial, le_refl _⟩
  · exact ⟨0, trivial, trivial⟩

theorem sem_isSome {o : Option (Ival α)} {P : α → Prop} (h : Sem o P) : o.isSome = true ↔ ∃ t, P t := by
  cases o with
  | none => simp only [Option.isSome_none, Bool.false_eq_true, false_iff]; rintro ⟨t, ht⟩; exact h t ht
  | some i =>
    simp only [Option.isSome_some, true_iff]
    obtain ⟨t, ht⟩ := valid_nonempty h.1
    exact ⟨t, (h.2 t).mp ht⟩

/-- a finite lower end is the least member -/
theorem sem_lo_least {i : Ival α} {P : α → Prop} (h : Sem (some i) P) (hl : i.loInf = false) :
    P i.lo ∧ ∀ t, P t → i.lo ≤ t := by
  obtain ⟨hv, hm⟩ := h
  refine ⟨(hm _).mp ⟨Or.inr (le_refl _), ?_⟩, fun t ht => ?_⟩
  · rcases hv with hv | hv | hv
    · rw [hl] at hv; exact absurd hv (by simp)
    · exact Or.inl hv
    · exact Or.inr hv
  · rcases ((hm t).mpr ht).1 with h1 | h1
    · rw [hl] at h1; exact absurd h1 (by simp)
    · exact h1

theorem sem_hi_greatest {i : Ival α} {P : α → Prop} (h : Sem (some i) P) (hl : i.hiInf = false) :
    P i.hi ∧ ∀ t, P t → t ≤ i.hi := by
  obtain ⟨hv, hm⟩ := h
  refine ⟨(hm _).mp ⟨?_, Or.inr (le_refl _)⟩, fun t ht => ?_⟩
  · rcases hv with hv | hv | hv
    · exact Or.inl hv
    · rw [hl] at hv; exact absurd hv (by simp)
    · exact Or.inr hv
  · rcases ((hm t).mpr ht).2 with h1 | h1
    · rw [hl] at h1; exact absurd h1 (by simp)
    · exact h1

theorem sem_slab (p d lo hi : α) : Sem (slab p d lo hi) (inSlab p d lo hi) := by
  unfold slab
  by_cases h1 : hi < lo
  · rw [if_pos h1]
    intro t ht
    exact absurd (le_trans ht.1 ht.2) (not_le.mpr h1)
  · rw [if_neg h1]
    have hlh : lo ≤ hi := not_lt.mp h1
    by_cases hd : d = 0
    · rw [if_pos hd]
      subst hd
      by_cases hin : lo ≤ p ∧ p ≤ hi
      · rw [if_pos hin]
        refine ⟨Or.inl rfl, fun t => ?_⟩
        simp only [Ival.Mem, Ival.all, true_or, and_self, true_iff]
        exact inSlab_zero.mpr hin
      · rw [if_neg hin]
        intro t ht
        exact hin (inSlab_zero.mp ht)
    · rw [if_neg hd]
      dsimp only
      rw [omin_eq, omax_eq]
      rcases lt_or_gt_of_ne hd with hneg | hpos
      · have hab : (hi - p) / d ≤ (lo - p) / d := by
          rw [div_le_div_right_of_neg hneg]; linarith
        rw [min_eq_right hab, max_eq_left hab]
        refine ⟨Or.inr (Or.inr hab), fun t => ?_⟩
        simp only [Ival.Mem, Bool.false_eq_true, false_or]
        exact (inSlab_neg hneg).symm
      · have hab : (lo - p) / d ≤ (hi - p) / d := by
          rw [div_le_div_iff_of_pos_right hpos]; linarith
        rw [min_eq_left hab, max_eq_right hab]
        refine ⟨Or.inr (Or.inr hab), fun t => ?_⟩
        simp only [Ival.Mem, Bool.false_eq_true, false_or]
        exact (inSlab_pos hpos).symm

theorem lo_inter (a b : Bool) (l1 l2 t : α) :
    ((a && b) = true ∨ (if a = true then l2 else if b = true then l1 else max l1 l2) ≤ t) ↔
      ((a = true ∨ l1 ≤ t) ∧ (b = true ∨ l2 ≤ t)) := by
  cases a <;> cases b <;> simp

theorem hi_inter (c d : Bool) (u1 u2 t : α) :
    ((c && d) = true ∨ t ≤ (if c = true then u2 else if d = true then u1 else min u1 u2)) ↔
      ((c = true ∨ t ≤ u1) ∧ (d = true ∨ t ≤ u2)) := by
  cases c <;> cases d <;> simp

theorem sem_mk (li hi' : Bool) (L H : α) (P : α → Prop)
    (hP : ∀ t, P t ↔ ((li = true ∨ L ≤ t) ∧ (hi' = true ∨ t ≤ H))) :
    Sem (if li = false ∧ hi' = false ∧ H < L then none else some ⟨li, L, hi', H⟩) P := by
  by_cases hE : li = false ∧ hi' = false ∧ H < L
  · rw [if_pos hE]
    intro t ht
    obtain ⟨h1, h2⟩ := (hP t).mp ht
    obtain ⟨e1, e2, e3⟩ := hE
    rw [e1] at h1; rw [e2] at h2
    simp only [Bool.false_eq_true, false_or] at h1 h2
    exact absurd (le_trans h1 h2) (not_le.mpr e3)
  · rw [if_neg hE]
    refine ⟨?_, fun t => (hP t).symm⟩
    cases li <;> cases hi' <;> simp only [Ival.Valid, Bool.false_eq_true, false_or, true_or, or_true]
    exact not_lt.mp (fun h => hE ⟨rfl, rfl, h⟩)

theorem sem_inter (i j : Ival α) : Sem (i.inter j) (fun t => i.Mem t ∧ j.Mem t) := by
  obtain ⟨a, l1, c, u1⟩ := i
  obtain ⟨b, l2, d, u2⟩ := j
  unfold Ival.inter
  dsimp only
  simp only [omin_eq, omax_eq]
  refine sem_mk _ _ _ _ _ (fun t => ?_)
  rw [lo_inter, hi_inter]
  simp only [Ival.Mem]
  tauto

theorem sem_oInter {a b : Option (Ival α)} {P Q : α → Prop} (ha : Sem a P) (hb : Sem b Q) :
    Sem (oInter a b) (fun t => P t ∧ Q t) := by
  cases a with
  | none => exact fun t ht => ha t ht.1
  | some i =>
    cases b with
    | none => exact fun t ht => hb t ht.2
    | some j =>
      exact (sem_inter i j).congr (fun t => by rw [ha.2 t, hb.2 t])

theorem sem_lineIval (r : Line3 α) (b : Box3 α) : Sem (lineIval r b) (fun t => mem (pointAt r t) b) := by
  unfold lineIval
  refine (sem_oInter (sem_oInter (sem_slab _ _ _ _) (sem_slab _ _ _ _)) (sem_slab _ _ _ _)).congr (fun t => ?_)
  rw [mem_pointAt_iff, and_assoc]

theorem sem_rayIval (r : Line3 α) (b : Box3 α) :
    Sem (rayIval r b) (fun t => 0 ≤ t ∧ mem (pointAt r t) b) := by
  unfold rayIval
  have hray : Sem (some (⟨false, 0, true, 0⟩ : Ival α)) (fun t => 0 ≤ t) :=
    ⟨Or.inr (Or.inl rfl), fun t => by simp [Ival.Mem]⟩
  exact (sem_oInter (sem_lineIval r b) hray).congr (fun t => and_comm)

/-- an interval all of whose members are `≥ 0` has a finite lower end `≥ 0` -/
theorem sem_lo_finite_of_nonneg {i : Ival α} {P : α → Prop} (h : Sem (some i) P) (hp : ∀ t, P t → 0 ≤ t) :
    i.loInf = false ∧ 0 ≤ i.lo := by
  have hfin : i.loInf = false := by
    by_contra hc
    have hl : i.loInf = true := by cases hh : i.loInf <;> simp_all
    have : i.Mem (min i.hi (-1)) := ⟨Or.inl hl, Or.inr (min_le_left _ _)⟩
    have := hp _ ((h.2 _).mp this)
    have h2 : min i.hi (-1) ≤ (-1 : α) := min_le_right _ _
    linarith
  exact ⟨hfin, hp _ (sem_lo_least h hfin).1⟩

theorem ptAt_eq (r : Line3 α) (t : α) : ptAt r t = pointAt r t := rfl

end ImathVerif.RayBox
