import ImathVerif.Lemmas.C08Lemmas
/-!
# C08 lemmas — what a correct normalisation result is

`IsNormalizedN sqrt a r` collects everything C08 demands of the result `r` of normalising a non-zero
vector `a` in exact arithmetic: the norm `n = sqrt (a·a)` is positive, `rᵢ = aᵢ / n`, `r·r = 1`,
`rᵢ * n = aᵢ` (same ratio) and `rᵢ` has the sign of `aᵢ`.  `isNormalizedN_div` shows that the vector of
quotients has all of these properties; the property file shows that each of the six C++ forms returns that
vector.  Exact arithmetic only — rounding is measured by the residue harness (level: partial).
-/
namespace ImathVerif.C08
open ImathVerif

section
variable {α : Type} [Field α] [LinearOrder α] [IsStrictOrderedRing α] {sqrt : α → α}

/-- `v · v` -/
def dotSelf2 (a : V2 α) : α := a.x * a.x + a.y * a.y
def dotSelf3 (a : V3 α) : α := a.x * a.x + a.y * a.y + a.z * a.z
def dotSelf4 (a : V4 α) : α := a.x * a.x + a.y * a.y + a.z * a.z + a.w * a.w

theorem dotSelf2_nonneg (a : V2 α) : 0 ≤ dotSelf2 a := add_nonneg (mul_self_nonneg _) (mul_self_nonneg _)
theorem dotSelf3_nonneg (a : V3 α) : 0 ≤ dotSelf3 a :=
  add_nonneg (add_nonneg (mul_self_nonneg _) (mul_self_nonneg _)) (mul_self_nonneg _)
theorem dotSelf4_nonneg (a : V4 α) : 0 ≤ dotSelf4 a :=
  add_nonneg (add_nonneg (add_nonneg (mul_self_nonneg _) (mul_self_nonneg _)) (mul_self_nonneg _)) (mul_self_nonneg _)

theorem dotSelf2_eq_zero (a : V2 α) : dotSelf2 a = 0 ↔ a = ⟨0, 0⟩ := by
  obtain ⟨x, y⟩ := a
  simp only [dotSelf2, sumsq2_eq_zero, V2.mk.injEq]
theorem dotSelf3_eq_zero (a : V3 α) : dotSelf3 a = 0 ↔ a = ⟨0, 0, 0⟩ := by
  obtain ⟨x, y, z⟩ := a
  simp only [dotSelf3, sumsq3_eq_zero, V3.mk.injEq]
theorem dotSelf4_eq_zero (a : V4 α) : dotSelf4 a = 0 ↔ a = ⟨0, 0, 0, 0⟩ := by
  obtain ⟨x, y, z, w⟩ := a
  simp only [dotSelf4, sumsq4_eq_zero, V4.mk.injEq]

theorem norm2_pos (hsqrt : ∀ x, 0 ≤ x → sqrt x * sqrt x = x ∧ 0 ≤ sqrt x) {a : V2 α} (ha : a ≠ ⟨0, 0⟩) :
    0 < sqrt (dotSelf2 a) :=
  sqrt_pos_of_pos hsqrt (lt_of_le_of_ne' (dotSelf2_nonneg a) (fun h => ha ((dotSelf2_eq_zero a).1 h)))
theorem norm3_pos (hsqrt : ∀ x, 0 ≤ x → sqrt x * sqrt x = x ∧ 0 ≤ sqrt x) {a : V3 α} (ha : a ≠ ⟨0, 0, 0⟩) :
    0 < sqrt (dotSelf3 a) :=
  sqrt_pos_of_pos hsqrt (lt_of_le_of_ne' (dotSelf3_nonneg a) (fun h => ha ((dotSelf3_eq_zero a).1 h)))
theorem norm4_pos (hsqrt : ∀ x, 0 ≤ x → sqrt x * sqrt x = x ∧ 0 ≤ sqrt x) {a : V4 α} (ha : a ≠ ⟨0, 0, 0, 0⟩) :
    0 < sqrt (dotSelf4 a) :=
  sqrt_pos_of_pos hsqrt (lt_of_le_of_ne' (dotSelf4_nonneg a) (fun h => ha ((dotSelf4_eq_zero a).1 h)))

/-- `q = p / n` with `n > 0` has the sign of `p` -/
def SameSign (q p : α) : Prop := (0 < q ↔ 0 < p) ∧ (q < 0 ↔ p < 0) ∧ (q = 0 ↔ p = 0)

theorem sameSign_div (p : α) {n : α} (hn : 0 < n) : SameSign (p / n) p :=
  ⟨div_pos_iff_of_pos_right hn, by rw [div_lt_iff₀ hn, zero_mul], by rw [div_eq_iff hn.ne', zero_mul]⟩

/-- what C08 demands (exact arithmetic) of the result `r` of normalising a non-zero `a` -/
structure IsNormalized2 (sqrt : α → α) (a r : V2 α) : Prop where
  norm_pos : 0 < sqrt (dotSelf2 a)
  eq : r = ⟨a.x / sqrt (dotSelf2 a), a.y / sqrt (dotSelf2 a)⟩
  unit : dotSelf2 r = 1
  ratio : r.x * sqrt (dotSelf2 a) = a.x ∧ r.y * sqrt (dotSelf2 a) = a.y
  sign : SameSign r.x a.x ∧ SameSign r.y a.y

structure IsNormalized3 (sqrt : α → α) (a r : V3 α) : Prop where
  norm_pos : 0 < sqrt (dotSelf3 a)
  eq : r = ⟨a.x / sqrt (dotSelf3 a), a.y / sqrt (dotSelf3 a), a.z / sqrt (dotSelf3 a)⟩
  unit : dotSelf3 r = 1
  ratio : r.x * sqrt (dotSelf3 a) = a.x ∧ r.y * sqrt (dotSelf3 a) = a.y ∧ r.z * sqrt (dotSelf3 a) = a.z
  sign : SameSign r.x a.x ∧ SameSign r.y a.y ∧ SameSign r.z a.z

structure IsNormalized4 (sqrt : α → α) (a r : V4 α) : Prop where
  norm_pos : 0 < sqrt (dotSelf4 a)
  eq : r = ⟨a.x / sqrt (dotSelf4 a), a.y / sqrt (dotSelf4 a), a.z / sqrt (dotSelf4 a), a.w / sqrt (dotSelf4 a)⟩
  unit : dotSelf4 r = 1
  ratio : r.x * sqrt (dotSelf4 a) = a.x ∧ r.y * sqrt (dotSelf4 a) = a.y ∧ r.z * sqrt (dotSelf4 a) = a.z ∧
    r.w * sqrt (dotSelf4 a) = a.w
  sign : SameSign r.x a.x ∧ SameSign r.y a.y ∧ SameSign r.z a.z ∧ SameSign r.w a.w

theorem isNormalized2_div (hsqrt : ∀ x, 0 ≤ x → sqrt x * sqrt x = x ∧ 0 ≤ sqrt x) {a : V2 α} (ha : a ≠ ⟨0, 0⟩) :
    IsNormalized2 sqrt a ⟨a.x / sqrt (dotSelf2 a), a.y / sqrt (dotSelf2 a)⟩ := by
  have hn := norm2_pos hsqrt ha
  have hnn := (hsqrt _ (dotSelf2_nonneg a)).1
  refine ⟨hn, rfl, ?_, ⟨div_mul_cancel₀ _ hn.ne', div_mul_cancel₀ _ hn.ne'⟩, ⟨sameSign_div _ hn, sameSign_div _ hn⟩⟩
  simp only [dotSelf2] at hnn hn ⊢
  generalize sqrt (a.x * a.x + a.y * a.y) = n at hnn hn ⊢
  have h : a.x / n * (a.x / n) + a.y / n * (a.y / n) = (a.x * a.x + a.y * a.y) / (n * n) := by ring
  rw [h, ← hnn]; exact div_self (mul_self_ne_zero.2 hn.ne')

theorem isNormalized3_div (hsqrt : ∀ x, 0 ≤ x → sqrt x * sqrt x = x ∧ 0 ≤ sqrt x) {a : V3 α} (ha : a ≠ ⟨0, 0, 0⟩) :
    IsNormalized3 sqrt a ⟨a.x / sqrt (dotSelf3 a), a.y / sqrt (dotSelf3 a), a.z / sqrt (dotSelf3 a)⟩ := by
  have hn := norm3_pos hsqrt ha
  have hnn := (hsqrt _ (dotSelf3_nonneg a)).1
  refine ⟨hn, rfl, ?_, ⟨div_mul_cancel₀ _ hn.ne', div_mul_cancel₀ _ hn.ne', div_mul_cancel₀ _ hn.ne'⟩,
    ⟨sameSign_div _ hn, sameSign_div _ hn, sameSign_div _ hn⟩⟩
  simp only [dotSelf3] at hnn hn ⊢
  generalize sqrt (a.x * a.x + a.y * a.y + a.z * a.z) = n at hnn hn ⊢
  have h : a.x / n * (a.x / n) + a.y / n * (a.y / n) + a.z / n * (a.z / n) = (a.x * a.x + a.y * a.y + a.z * a.z) / (n * n) := by ring
  rw [h, ← hnn]; exact div_self (mul_self_ne_zero.2 hn.ne')

theorem isNormalized4_div (hsqrt : ∀ x, 0 ≤ x → sqrt x * sqrt x = x ∧ 0 ≤ sqrt x) {a : V4 α} (ha : a ≠ ⟨0, 0, 0, 0⟩) :
    IsNormalized4 sqrt a
      ⟨a.x / sqrt (dotSelf4 a), a.y / sqrt (dotSelf4 a), a.z / sqrt (dotSelf4 a), a.w / sqrt (dotSelf4 a)⟩ := by
  have hn := norm4_pos hsqrt ha
  have hnn := (hsqrt _ (dotSelf4_nonneg a)).1
  refine ⟨hn, rfl, ?_,
    ⟨div_mul_cancel₀ _ hn.ne', div_mul_cancel₀ _ hn.ne', div_mul_cancel₀ _ hn.ne', div_mul_cancel₀ _ hn.ne'⟩,
    ⟨sameSign_div _ hn, sameSign_div _ hn, sameSign_div _ hn, sameSign_div _ hn⟩⟩
  simp only [dotSelf4] at hnn hn ⊢
  generalize sqrt (a.x * a.x + a.y * a.y + a.z * a.z + a.w * a.w) = n at hnn hn ⊢
  have h : a.x / n * (a.x / n) + a.y / n * (a.y / n) + a.z / n * (a.z / n) + a.w / n * (a.w / n) = (a.x * a.x + a.y * a.y + a.z * a.z + a.w * a.w) / (n * n) := by ring
  rw [h, ← hnn]; exact div_self (mul_self_ne_zero.2 hn.ne')

/-- `sqrt 1 = 1` -/
theorem sqrt_one (hsqrt : ∀ x, 0 ≤ x → sqrt x * sqrt x = x ∧ 0 ≤ sqrt x) : sqrt 1 = 1 :=
  sqrt_unique hsqrt zero_le_one (mul_one 1)

end
end ImathVerif.C08
