import ImathVerif.Lemmas.C09Quat
/-!
Helper lemmas for C09: the OBTUSE arm of `rotationMatrix (from, to)` — `Quat::setRotation` splits the rotation at the half-way vector
`h0 = (f0 + t0)^` and returns the Hamilton product `q₁ q₂` of `q₁ = setRotationInternal (f0, h0)`, `q₂ = setRotationInternal (h0, t0)`.
Shown here: its matrix carries `f0` onto `t0`.

* `qapply q p`: the row vector `p` times the matrix `Quat::toMatrix44` writes for `q` (rows `qRow0..2`);
* `qhom q p = (r² − v·v) p + 2 (v·p) v + 2 r (v × p)`: the homogeneous form `q p q̄`; equal to `qapply` for UNIT `q` (`qapply_eq_qhom`) and
  multiplicative for ALL quaternions as a polynomial identity (`qhom_mul`: the matrix of `a b` applies `b` FIRST, then `a`);
* both half rotations have their vector part along `f0 × t0`, hence commute (`qmul_comm_of_parallel`), so
  `f0 ↦ (q₁ q₂) = (q₂ q₁)`: first `q₁` takes `f0` to `h0`, then `q₂` takes `h0` to `t0`.
-/
set_option linter.unusedSectionVars false
set_option linter.unreachableTactic false
set_option linter.unusedTactic false
set_option linter.unusedVariables false
set_option linter.unusedSimpArgs false
namespace ImathVerif.C09
open ImathVerif Matrix

section Split
variable {α : Type} [Field α] [LinearOrder α] [IsStrictOrderedRing α]

/-- row vector `p` times the 3×3 block of `Quat::toMatrix44 ()` -/
def qapply (q : Quat α) (p : V3 α) : V3 α :=
  vadd (vadd (smul p.x (qRow0 q)) (smul p.y (qRow1 q))) (smul p.z (qRow2 q))

/-- `q p q̄` for an arbitrary (not necessarily unit) quaternion -/
def qhom (q : Quat α) (p : V3 α) : V3 α :=
  vadd (vadd (smul (q.r * q.r - dot q.v q.v) p) (smul (2 * dot q.v p) q.v)) (smul (2 * q.r) (cross q.v p))

theorem vecMul_quatM44 (q : Quat α) (p : V3 α) : p.toVec ᵥ* rot3 (quatM44 q) = (qapply q p).toVec := by
  unfold quatM44 qapply
  rw [rot3_frameM44, vecMul_rows3]

/-- for a UNIT quaternion the matrix `toMatrix44` writes acts as `p ↦ q p q̄` -/
theorem qapply_eq_qhom {q : Quat α} (hq : q.r * q.r + dot q.v q.v = 1) (p : V3 α) : qapply q p = qhom q p := by
  obtain ⟨w, x, y, z⟩ := q
  obtain ⟨p1, p2, p3⟩ := p
  simp only [dot] at hq
  simp only [qapply, qhom, vadd, smul, qRow0, qRow1, qRow2, dot, cross, V3.mk.injEq]
  refine ⟨?_, ?_, ?_⟩
  · linear_combination (-p1) * hq
  · linear_combination (-p2) * hq
  · linear_combination (-p3) * hq

/-- `p ↦ q p q̄` is multiplicative — a polynomial identity, valid for ALL quaternions: the product `a b` applies `b` first -/
theorem qhom_mul (a b : Quat α) (p : V3 α) : qhom (qmul a b) p = qhom a (qhom b p) := by
  obtain ⟨a0, a1, a2, a3⟩ := a
  obtain ⟨b0, b1, b2, b3⟩ := b
  obtain ⟨p1, p2, p3⟩ := p
  simp only [qhom, qmul, vadd, smul, dot, cross, V3.mk.injEq]
  refine ⟨?_, ?_, ?_⟩ <;> ring

/-- quaternions whose vector parts are multiples of one vector commute -/
theorem qmul_comm_of_parallel {a b : Quat α} (w : V3 α) (ka kb : α) (ha : a.v = smul ka w) (hb : b.v = smul kb w) :
    qmul a b = qmul b a := by
  obtain ⟨a0, av⟩ := a
  obtain ⟨b0, bv⟩ := b
  obtain ⟨w1, w2, w3⟩ := w
  simp only at ha hb
  subst ha hb
  simp only [qmul, smul, Quat.mk.injEq, V3.mk.injEq]
  refine ⟨?_, ?_, ?_, ?_⟩ <;> ring

theorem cross_vadd_self_right (a b : V3 α) : cross a (vadd a b) = cross a b := by
  simp only [cross, vadd, V3.mk.injEq]; refine ⟨?_, ?_, ?_⟩ <;> ring
theorem cross_vadd_self_left (a b : V3 α) : cross (vadd a b) b = cross a b := by
  simp only [cross, vadd, V3.mk.injEq]; refine ⟨?_, ?_, ?_⟩ <;> ring

/-- `setRotationInternal (f, t)` at the level of vectors: unit, takes `f` to `t`, vector part `(f × t) / |f + t|` -/
theorem qInternal_apply {len : V3 α → α} (hlen : LenSpec len) {f t : V3 α} (hf : dot f f = 1) (ht : dot t t = 1)
    (hs : vadd f t ≠ ⟨0, 0, 0⟩) :
    qapply (qInternal len f t) f = t ∧ (qInternal len f t).v = smul (len (vadd f t))⁻¹ (cross f t) := by
  have hl := len_ne_zero hlen hs
  have hh := nrm_unit hlen hl
  constructor
  · show vadd (vadd (smul f.x (qRow0 ⟨dot f _, cross f _⟩)) (smul f.y (qRow1 ⟨dot f _, cross f _⟩))) (smul f.z (qRow2 ⟨dot f _, cross f _⟩)) = _
    rw [quat_fh_apply hf hh, halfTurn_bisector hlen hf ht hs]
  · show cross f (nrm len (vadd f t)) = _
    rw [nrm_eq_smul hl, cross_smul_right, cross_vadd_self_right]

/-- THE SPLIT PATH: for unit `f`, `t` with `f + t ≠ 0` and `h = (f + t)^`, the product `setRotationInternal (f, h) · setRotationInternal (h, t)`
is a unit quaternion whose matrix takes the row vector `f` to `t` -/
theorem qSplit_spec {len : V3 α → α} (hlen : LenSpec len) {f t : V3 α} (hf : dot f f = 1) (ht : dot t t = 1)
    (hs : vadd f t ≠ ⟨0, 0, 0⟩) :
    let h := nrm len (vadd f t)
    let q := qmul (qInternal len f h) (qInternal len h t)
    q.r * q.r + dot q.v q.v = 1 ∧ qapply q f = t := by
  intro h q
  have hls := len_ne_zero hlen hs
  have hps := len_pos hlen hs
  have huh : dot h h = 1 := nrm_unit hlen hls
  have hss : dot (vadd f t) (vadd f t) = 2 * (1 + dot f t) := by
    have : dot (vadd f t) (vadd f t) = dot f f + 2 * dot f t + dot t t := by simp only [dot, vadd]; ring
    rw [this, hf, ht]; ring
  have hpos : 0 < 1 + dot f t := by
    have := lt_of_le_of_ne (dot_self_nonneg (vadd f t)) (Ne.symm (dot_ne_zero hs))
    rw [hss] at this; linarith
  have hfh : -1 < dot f h := by
    show -1 < dot f (nrm len (vadd f t))
    rw [nrm_eq_smul hls, dot_smul_right]
    have : dot f (vadd f t) = dot f f + dot f t := by simp only [dot, vadd]; ring
    rw [this, hf]
    have := mul_pos (inv_pos.mpr hps) hpos
    linarith
  have hht : -1 < dot h t := by
    show -1 < dot (nrm len (vadd f t)) t
    rw [nrm_eq_smul hls, dot_smul_left]
    have : dot (vadd f t) t = dot f t + dot t t := by simp only [dot, vadd]; ring
    rw [this, ht]
    have := mul_pos (inv_pos.mpr hps) hpos
    linarith
  have hs1 := vadd_ne_zero_of_dot hf huh hfh
  have hs2 := vadd_ne_zero_of_dot huh ht hht
  have u1 := (qInternal_spec hlen hf huh hs1).1
  have u2 := (qInternal_spec hlen huh ht hs2).1
  obtain ⟨a1, v1⟩ := qInternal_apply hlen hf huh hs1
  obtain ⟨a2, v2⟩ := qInternal_apply hlen huh ht hs2
  have hu : q.r * q.r + dot q.v q.v = 1 := quat_mul_unit u1 u2
  refine ⟨hu, ?_⟩
  -- both vector parts are multiples of `f × t`
  have w1 : (qInternal len f h).v = smul ((len (vadd f h))⁻¹ * (len (vadd f t))⁻¹) (cross f t) := by
    rw [v1]
    show smul _ (cross f (nrm len (vadd f t))) = _
    rw [nrm_eq_smul hls, cross_smul_right, cross_vadd_self_right, smul_smul']
  have w2 : (qInternal len h t).v = smul ((len (vadd h t))⁻¹ * (len (vadd f t))⁻¹) (cross f t) := by
    rw [v2]
    show smul _ (cross (nrm len (vadd f t)) t) = _
    rw [nrm_eq_smul hls, cross_smul_left, cross_vadd_self_left, smul_smul']
  have hcomm : q = qmul (qInternal len h t) (qInternal len f h) := qmul_comm_of_parallel (cross f t) _ _ w1 w2
  rw [qapply_eq_qhom hu, hcomm, qhom_mul, ← qapply_eq_qhom u1, a1, ← qapply_eq_qhom u2, a2]

/-- angle > π/2 and `|from^ + to^|² > (8ε)²`: the product of the two half rotations is an orthonormal right-handed frame without
translation AND carries `from^` onto `to^` -/
theorem rotationMatrixSpec_obtuse_carries {len : V3 α → α} (hlen : LenSpec len) (teps : α) {fromDir toDir : V3 α}
    (hf : fromDir ≠ ⟨0, 0, 0⟩) (ht : toDir ≠ ⟨0, 0, 0⟩) (hd : dot (nrm len fromDir) (nrm len toDir) < 0)
    (hbig : (8 * teps) * (8 * teps) < dot (vadd (nrm len fromDir) (nrm len toDir)) (vadd (nrm len fromDir) (nrm len toDir))) :
    IsFrame (rotationMatrixSpec len teps fromDir toDir) ∧
      row3 (rotationMatrixSpec len teps fromDir toDir) = ⟨0, 0, 0⟩ ∧
      (nrm len fromDir).toVec ᵥ* rot3 (rotationMatrixSpec len teps fromDir toDir) = (nrm len toDir).toVec := by
  have huf := nrm_unit' hlen hf
  have hut := nrm_unit' hlen ht
  have hopp : vadd (nrm len fromDir) (nrm len toDir) ≠ ⟨0, 0, 0⟩ := by
    apply ne_zero_of_dot
    have := lt_of_le_of_lt (mul_self_nonneg (8 * teps)) hbig
    exact this.ne'
  have hls := len_ne_zero hlen hopp
  have huh := nrm_unit hlen hls
  have hh : ¬ dot (nrm len (vadd (nrm len fromDir) (nrm len toDir))) (nrm len (vadd (nrm len fromDir) (nrm len toDir))) = 0 := by
    rw [huh]; exact one_ne_zero
  have e : quatSetRotationSpec len teps fromDir toDir =
      qmul (qInternal len (nrm len fromDir) (nrm len (vadd (nrm len fromDir) (nrm len toDir))))
        (qInternal len (nrm len (vadd (nrm len fromDir) (nrm len toDir))) (nrm len toDir)) := by
    simp only [quatSetRotationSpec, if_neg (not_le.mpr hd), if_pos hbig, if_neg hh]
  obtain ⟨hu, hc⟩ := qSplit_spec hlen huf hut hopp
  unfold rotationMatrixSpec
  rw [e]
  refine ⟨(quatM44_isFrame hu).1, (quatM44_isFrame hu).2, ?_⟩
  rw [vecMul_quatM44, hc]

/-! small facts used by the non-vacuity examples of `Props/C09Quat.lean` and by `rotationMatrix_carries` -/
theorem dot_nrm_nrm {len : V3 α → α} (hlen : LenSpec len) {f t : V3 α} (hf : f ≠ ⟨0, 0, 0⟩) (ht : t ≠ ⟨0, 0, 0⟩) :
    dot (nrm len f) (nrm len t) = (len f)⁻¹ * (len t)⁻¹ * dot f t := by
  rw [nrm_eq_smul (len_ne_zero hlen hf), nrm_eq_smul (len_ne_zero hlen ht), dot_smul_smul]

/-- the sign of `from^ · to^` is the sign of `from · to` -/
theorem dot_nrm_nrm_neg {len : V3 α → α} (hlen : LenSpec len) {f t : V3 α} (hf : f ≠ ⟨0, 0, 0⟩) (ht : t ≠ ⟨0, 0, 0⟩)
    (h : dot f t < 0) : dot (nrm len f) (nrm len t) < 0 := by
  rw [dot_nrm_nrm hlen hf ht]
  exact mul_neg_of_pos_of_neg (mul_pos (inv_pos.mpr (len_pos hlen hf)) (inv_pos.mpr (len_pos hlen ht))) h
theorem dot_nrm_nrm_nonneg {len : V3 α → α} (hlen : LenSpec len) {f t : V3 α} (hf : f ≠ ⟨0, 0, 0⟩) (ht : t ≠ ⟨0, 0, 0⟩)
    (h : 0 ≤ dot f t) : 0 ≤ dot (nrm len f) (nrm len t) := by
  rw [dot_nrm_nrm hlen hf ht]
  exact mul_nonneg (mul_pos (inv_pos.mpr (len_pos hlen hf)) (inv_pos.mpr (len_pos hlen ht))).le h

/-- `|a + b|² = 2 (1 + a·b)` for unit vectors -/
theorem dot_vadd_unit {a b : V3 α} (ha : dot a a = 1) (hb : dot b b = 1) : dot (vadd a b) (vadd a b) = 2 * (1 + dot a b) := by
  have : dot (vadd a b) (vadd a b) = dot a a + 2 * dot a b + dot b b := by simp only [dot, vadd]; ring
  rw [this, ha, hb]; ring

/-- `|(−a) − b|² = |a + b|²` -/
theorem dot_vsub_vneg (a b : V3 α) : dot (vsub (vneg a) b) (vsub (vneg a) b) = dot (vadd a b) (vadd a b) := by
  simp only [dot, vsub, vneg, vadd]; ring

/-- non-parallel directions are not opposite: `from^ + to^ ≠ 0`, i.e. `0 < |from^ + to^|²` -/
theorem vadd_nrm_pos_of_cross {len : V3 α → α} (hlen : LenSpec len) {f t : V3 α} (hf : f ≠ ⟨0, 0, 0⟩) (ht : t ≠ ⟨0, 0, 0⟩)
    (hc : cross f t ≠ ⟨0, 0, 0⟩) : 0 < dot (vadd (nrm len f) (nrm len t)) (vadd (nrm len f) (nrm len t)) := by
  apply lt_of_le_of_ne (dot_self_nonneg _)
  intro h0
  have hz := dot_self_eq_zero.mp h0.symm
  apply hc
  have hlf := len_ne_zero hlen hf
  have hlt := len_ne_zero hlen ht
  rw [nrm_eq_smul hlf, nrm_eq_smul hlt] at hz
  obtain ⟨f1, f2, f3⟩ := f
  obtain ⟨t1, t2, t3⟩ := t
  simp only [vadd, smul, V3.mk.injEq] at hz
  obtain ⟨h1, h2, h3⟩ := hz
  generalize len ⟨f1, f2, f3⟩ = a at *
  generalize len ⟨t1, t2, t3⟩ = b at *
  have e1 : f1 = -(a * b⁻¹ * t1) := by field_simp at h1 ⊢; linear_combination h1
  have e2 : f2 = -(a * b⁻¹ * t2) := by field_simp at h2 ⊢; linear_combination h2
  have e3 : f3 = -(a * b⁻¹ * t3) := by field_simp at h3 ⊢; linear_combination h3
  simp only [cross, V3.mk.injEq]
  rw [e1, e2, e3]
  refine ⟨?_, ?_, ?_⟩ <;> ring

end Split
end ImathVerif.C09
