import ImathVerif.Lemmas.C13Lemmas
/-!
# Per-shape helper lemmas for C13 (Interval, Box<Vec2>, Box<Vec3>, generic Box<Vec4>)

Written once per shape with the axis list substituted (scaffold: tools/scaffold/gen_c13_lemmas.py;
this file is an ordinary source file).  All statements are over an arbitrary `LinearOrder`.
-/
set_option linter.unusedTactic false
set_option linter.unreachableTactic false
set_option linter.unusedVariables false
set_option linter.unusedSimpArgs false
set_option linter.unnecessarySeqFocus false
namespace ImathVerif.C13
open ImathVerif
variable {α : Type}

/-! ## Interval -/

section Interval_order
variable [LinearOrder α]

theorem Interval.isEmptySet_iff (b : Interval α) : Interval.IsEmptySet b ↔ Interval.Inverted b := by
  constructor
  · intro h; by_contra hn
    simp only [Interval.Inverted, not_or, not_lt] at hn
    have hn0 := hn
    exact h b.min ⟨le_refl _, hn0⟩
  · rintro h p ⟨q0a, q0b⟩
    simp only [Interval.Inverted] at h; order

theorem Interval.subset_iff (a c : Interval α) (ha : ¬ Interval.Inverted a) :
    Interval.Subset a c ↔ (c.min ≤ a.min ∧ a.max ≤ c.max) := by
  simp only [Interval.Inverted, not_or, not_lt] at ha
  have hn0 := ha
  constructor
  · intro h
    have h1 := h a.min ⟨le_refl _, hn0⟩
    have h2 := h a.max ⟨hn0, le_refl _⟩
    simp only [Interval.Mem] at h1 h2
    bord
  · rintro ⟨h0a, h0b⟩ p ⟨q0a, q0b⟩
    simp only [Interval.Mem]; bord

theorem Interval.subset_of_inverted (a c : Interval α) (ha : Interval.Inverted a) : Interval.Subset a c :=
  fun p hp => absurd hp ((Interval.isEmptySet_iff a).2 ha p)

theorem Interval.canonEmpty_inverted (tmax tlowest : α) (h : tlowest < tmax) :
    Interval.Inverted (Interval.canonEmpty tmax tlowest) := h

theorem Interval.canonEmpty_isEmptySet (tmax tlowest : α) (h : tlowest < tmax) :
    Interval.IsEmptySet (Interval.canonEmpty tmax tlowest) :=
  (Interval.isEmptySet_iff _).2 (Interval.canonEmpty_inverted tmax tlowest h)

theorem Interval.canonInfinite_mem (tmax tlowest : α) (hr : ∀ x : α, tlowest ≤ x ∧ x ≤ tmax) (p : α) :
    Interval.Mem p (Interval.canonInfinite tmax tlowest) :=
  hr _

theorem Interval.point_subset_iff (p : α) (c : Interval α) : Interval.Subset ⟨p, p⟩ c ↔ Interval.Mem p c := by
  constructor
  · intro h; exact h p ⟨le_refl _, le_refl _⟩
  · rintro ⟨h0a, h0b⟩ q ⟨q0a, q0b⟩
    simp only [Interval.Mem]; bord

theorem Interval.mem_point_iff (p q : α) : Interval.Mem q (⟨p, p⟩ : Interval α) ↔ q = p := by
  constructor
  · rintro ⟨h0a, h0b⟩
    order
  · rintro rfl; exact ⟨le_refl _, le_refl _⟩

/-- normal form of both `extendBy` overloads: per axis `min := min(min, lo)`, `max := max(max, hi)` -/
def Interval.ext (b : Interval α) (lo hi : α) : Interval α :=
  ⟨min b.min lo, max b.max hi⟩

theorem Interval.ext_s (b : Interval α) (lo hi : α) : Interval.ext b lo hi =
    ⟨smin b.min lo, smax b.max hi⟩ := by
  simp only [Interval.ext, smin_eq_min, smax_eq_max]

/-- extending a non-inverted box by a non-inverted range is their least upper bound -/
theorem Interval.ext_subset_iff (b c : Interval α) (lo hi : α) (hb : ¬ Interval.Inverted b) (h0 : lo ≤ hi) :
    Interval.Subset (Interval.ext b lo hi) c ↔ Interval.Subset b c ∧ Interval.Subset ⟨lo, hi⟩ c := by
  have hb' := hb
  simp only [Interval.Inverted, not_or, not_lt] at hb'
  have he : ¬ Interval.Inverted (Interval.ext b lo hi) := by
    simp only [Interval.Inverted, Interval.ext, not_or, not_lt]; bord
  have ho : ¬ Interval.Inverted (⟨lo, hi⟩ : Interval α) := by
    simp only [Interval.Inverted, not_or, not_lt]; exact h0
  rw [Interval.subset_iff _ _ he, Interval.subset_iff _ _ hb, Interval.subset_iff _ _ ho]
  simp only [Interval.ext, le_min_iff, max_le_iff]
  tauto

theorem Interval.ext_not_inverted (b : Interval α) (lo hi : α) (hb : ¬ Interval.Inverted b) :
    ¬ Interval.Inverted (Interval.ext b lo hi) := by
  simp only [Interval.Inverted, Interval.ext, not_or, not_lt] at *; bord

/-- every point of `b` and every point of the range is in the extended box (any `b`) -/
theorem Interval.subset_ext (b : Interval α) (lo hi : α) : Interval.Subset b (Interval.ext b lo hi) ∧ Interval.Subset ⟨lo, hi⟩ (Interval.ext b lo hi) := by
  constructor <;> rintro p ⟨q0a, q0b⟩ <;> simp only [Interval.Mem, Interval.ext, min_le_iff, le_max_iff] <;> bord

theorem Interval.ext_canonEmpty (tmax tlowest : α) (hr : ∀ x : α, tlowest ≤ x ∧ x ≤ tmax) (lo hi : α) :
    Interval.ext (Interval.canonEmpty tmax tlowest) lo hi = ⟨lo, hi⟩ := by
  simp only [Interval.ext, Interval.canonEmpty, min_eq_right (hr _).2, max_eq_right (hr _).1]

theorem Interval.ext_by_canonEmpty (tmax tlowest : α) (hr : ∀ x : α, tlowest ≤ x ∧ x ≤ tmax) (b : Interval α) :
    Interval.ext b (Interval.canonEmpty tmax tlowest).min (Interval.canonEmpty tmax tlowest).max = b := by
  simp only [Interval.ext, Interval.canonEmpty, min_eq_left (hr _).2, max_eq_left (hr _).1]

/-- one `extendBy` call -/
def Interval.stepN (b : Interval α) : Interval.Arg α → Interval α
  | .pt p => Interval.ext b p p
  | .bx o => Interval.ext b o.min o.max

/-- a sequence of `extendBy` calls, in order -/
def Interval.extendAllN (b : Interval α) (args : List (Interval.Arg α)) : Interval α := args.foldl Interval.stepN b

theorem Interval.stepN_spec (tmax tlowest : α) (hlt : tlowest < tmax) (hr : ∀ x : α, tlowest ≤ x ∧ x ≤ tmax)
    (b : Interval α) (hb : Interval.Canon tmax tlowest b) (a : Interval.Arg α) (ha : a.Ok tmax tlowest) :
    Interval.Canon tmax tlowest (Interval.stepN b a) ∧ ∀ c, Interval.Subset (Interval.stepN b a) c ↔ Interval.Subset b c ∧ a.Within c := by
  have hce : ∀ c, Interval.Subset (Interval.canonEmpty tmax tlowest) c :=
    fun c => Interval.subset_of_inverted _ c (Interval.canonEmpty_inverted tmax tlowest hlt)
  cases a with
  | pt p =>
    simp only [Interval.stepN, Interval.Arg.Within]
    rcases hb with hb | rfl
    · refine ⟨Or.inl (Interval.ext_not_inverted b p p hb), fun c => ?_⟩
      rw [Interval.ext_subset_iff b c p p hb (le_refl _), Interval.point_subset_iff]
    · rw [Interval.ext_canonEmpty tmax tlowest hr]
      refine ⟨Or.inl ?_, fun c => ?_⟩
      · simp only [Interval.Inverted, not_or, not_lt]; bord
      · rw [Interval.point_subset_iff]; exact ⟨fun h => ⟨hce c, h⟩, fun h => h.2⟩
  | bx o =>
    simp only [Interval.stepN, Interval.Arg.Within]
    simp only [Interval.Arg.Ok] at ha
    rcases hb with hb | rfl
    · rcases ha with ho | rfl
      · refine ⟨Or.inl (Interval.ext_not_inverted b _ _ hb), fun c => ?_⟩
        have ho' := ho
        simp only [Interval.Inverted, not_or, not_lt] at ho'
        have hn0 := ho'
        exact Interval.ext_subset_iff b c o.min o.max hb hn0
      · rw [Interval.ext_by_canonEmpty tmax tlowest hr]
        exact ⟨Or.inl hb, fun c => ⟨fun h => ⟨h, hce c⟩, fun h => h.1⟩⟩
    · rw [Interval.ext_canonEmpty tmax tlowest hr]
      exact ⟨ha, fun c => ⟨fun h => ⟨hce c, h⟩, fun h => h.2⟩⟩

theorem Interval.extendAllN_spec (tmax tlowest : α) (hlt : tlowest < tmax) (hr : ∀ x : α, tlowest ≤ x ∧ x ≤ tmax)
    (args : List (Interval.Arg α)) : ∀ (b : Interval α), Interval.Canon tmax tlowest b → (∀ a ∈ args, a.Ok tmax tlowest) →
    Interval.Canon tmax tlowest (Interval.extendAllN b args) ∧
      ∀ c, Interval.Subset (Interval.extendAllN b args) c ↔ Interval.Subset b c ∧ ∀ a ∈ args, a.Within c := by
  induction args with
  | nil => intro b hb _; exact ⟨hb, fun c => by simp [Interval.extendAllN]⟩
  | cons a rest ih =>
    intro b hb hargs
    have hs := Interval.stepN_spec tmax tlowest hlt hr b hb a (hargs a (List.mem_cons_self ..))
    have := ih (Interval.stepN b a) hs.1 (fun x hx => hargs x (List.mem_cons_of_mem _ hx))
    refine ⟨this.1, fun c => ?_⟩
    have h2 := this.2 c
    simp only [Interval.extendAllN, List.foldl_cons, List.mem_cons, forall_eq_or_imp] at h2 ⊢
    rw [h2, hs.2 c, and_assoc]

theorem Interval.not_inverted_of_mem (p : α) (a : Interval α) (h : Interval.Mem p a) : ¬ Interval.Inverted a :=
  fun hi => (Interval.isEmptySet_iff a).2 hi p h

theorem Interval.common_of_axes (a b : Interval α) (ha : ¬ Interval.Inverted a) (hb : ¬ Interval.Inverted b)
    (h : (b.min ≤ a.max ∧ a.min ≤ b.max)) :
    ∃ p, Interval.Mem p a ∧ Interval.Mem p b := by
  simp only [Interval.Inverted, not_or, not_lt] at ha hb
  refine ⟨max a.min b.min, ?_, ?_⟩ <;> simp only [Interval.Mem, le_max_iff, max_le_iff] <;> bord

/-- normal form of `clip` / `closestPointInBox`: per axis `(p < min) ? min : (p > max) ? max : p` -/
def Interval.clipN (p : α) (b : Interval α) : α := sclamp p b.min b.max

theorem Interval.clipN_mem (p : α) (b : Interval α) (hb : ¬ Interval.Inverted b) : Interval.Mem (Interval.clipN p b) b := by
  simp only [Interval.Inverted, not_or, not_lt] at hb
  have hn0 := hb
  exact sclamp_mem _ _ _ hn0

theorem Interval.clipN_fixed (p : α) (b : Interval α) (hp : Interval.Mem p b) : Interval.clipN p b = p := by
  obtain ⟨q0a, q0b⟩ := hp
  simp only [Interval.clipN, sclamp_fixed _ _ _ q0a q0b]

end Interval_order

/-! ## Box2 -/

section Box2_order
variable [LinearOrder α]

theorem Box2.isEmptySet_iff (b : Box2 α) : Box2.IsEmptySet b ↔ Box2.Inverted b := by
  constructor
  · intro h; by_contra hn
    simp only [Box2.Inverted, not_or, not_lt] at hn
    obtain ⟨hn0, hn1⟩ := hn
    exact h b.min ⟨⟨le_refl _, hn0⟩, ⟨le_refl _, hn1⟩⟩
  · rintro h p ⟨⟨q0a, q0b⟩, ⟨q1a, q1b⟩⟩
    rcases h with h | h <;> order

theorem Box2.subset_iff (a c : Box2 α) (ha : ¬ Box2.Inverted a) :
    Box2.Subset a c ↔ (c.min.x ≤ a.min.x ∧ a.max.x ≤ c.max.x) ∧ (c.min.y ≤ a.min.y ∧ a.max.y ≤ c.max.y) := by
  simp only [Box2.Inverted, not_or, not_lt] at ha
  obtain ⟨hn0, hn1⟩ := ha
  constructor
  · intro h
    have h1 := h a.min ⟨⟨le_refl _, hn0⟩, ⟨le_refl _, hn1⟩⟩
    have h2 := h a.max ⟨⟨hn0, le_refl _⟩, ⟨hn1, le_refl _⟩⟩
    simp only [Box2.Mem] at h1 h2
    bord
  · rintro ⟨⟨h0a, h0b⟩, ⟨h1a, h1b⟩⟩ p ⟨⟨q0a, q0b⟩, ⟨q1a, q1b⟩⟩
    simp only [Box2.Mem]; bord

theorem Box2.subset_of_inverted (a c : Box2 α) (ha : Box2.Inverted a) : Box2.Subset a c :=
  fun p hp => absurd hp ((Box2.isEmptySet_iff a).2 ha p)

theorem Box2.canonEmpty_inverted (tmax tlowest : α) (h : tlowest < tmax) :
    Box2.Inverted (Box2.canonEmpty tmax tlowest) := Or.inl h

theorem Box2.canonEmpty_isEmptySet (tmax tlowest : α) (h : tlowest < tmax) :
    Box2.IsEmptySet (Box2.canonEmpty tmax tlowest) :=
  (Box2.isEmptySet_iff _).2 (Box2.canonEmpty_inverted tmax tlowest h)

theorem Box2.canonInfinite_mem (tmax tlowest : α) (hr : ∀ x : α, tlowest ≤ x ∧ x ≤ tmax) (p : V2 α) :
    Box2.Mem p (Box2.canonInfinite tmax tlowest) :=
  ⟨hr _, hr _⟩

theorem Box2.point_subset_iff (p : V2 α) (c : Box2 α) : Box2.Subset ⟨p, p⟩ c ↔ Box2.Mem p c := by
  constructor
  · intro h; exact h p ⟨⟨le_refl _, le_refl _⟩, ⟨le_refl _, le_refl _⟩⟩
  · rintro ⟨⟨h0a, h0b⟩, ⟨h1a, h1b⟩⟩ q ⟨⟨q0a, q0b⟩, ⟨q1a, q1b⟩⟩
    simp only [Box2.Mem]; bord

theorem Box2.mem_point_iff (p q : V2 α) : Box2.Mem q (⟨p, p⟩ : Box2 α) ↔ q = p := by
  constructor
  · rintro ⟨⟨h0a, h0b⟩, ⟨h1a, h1b⟩⟩
    obtain ⟨p0, p1⟩ := p; obtain ⟨q0, q1⟩ := q
    simp only [V2.mk.injEq]; bord
  · rintro rfl; exact ⟨⟨le_refl _, le_refl _⟩, ⟨le_refl _, le_refl _⟩⟩

/-- normal form of both `extendBy` overloads: per axis `min := min(min, lo)`, `max := max(max, hi)` -/
def Box2.ext (b : Box2 α) (lo hi : V2 α) : Box2 α :=
  ⟨⟨min b.min.x lo.x, min b.min.y lo.y⟩, ⟨max b.max.x hi.x, max b.max.y hi.y⟩⟩

theorem Box2.ext_s (b : Box2 α) (lo hi : V2 α) : Box2.ext b lo hi =
    ⟨⟨smin b.min.x lo.x, smin b.min.y lo.y⟩, ⟨smax b.max.x hi.x, smax b.max.y hi.y⟩⟩ := by
  simp only [Box2.ext, smin_eq_min, smax_eq_max]

/-- extending a non-inverted box by a non-inverted range is their least upper bound -/
theorem Box2.ext_subset_iff (b c : Box2 α) (lo hi : V2 α) (hb : ¬ Box2.Inverted b) (h0 : lo.x ≤ hi.x) (h1 : lo.y ≤ hi.y) :
    Box2.Subset (Box2.ext b lo hi) c ↔ Box2.Subset b c ∧ Box2.Subset ⟨lo, hi⟩ c := by
  have hb' := hb
  simp only [Box2.Inverted, not_or, not_lt] at hb'
  have he : ¬ Box2.Inverted (Box2.ext b lo hi) := by
    simp only [Box2.Inverted, Box2.ext, not_or, not_lt]; bord
  have ho : ¬ Box2.Inverted (⟨lo, hi⟩ : Box2 α) := by
    simp only [Box2.Inverted, not_or, not_lt]; exact ⟨h0, h1⟩
  rw [Box2.subset_iff _ _ he, Box2.subset_iff _ _ hb, Box2.subset_iff _ _ ho]
  simp only [Box2.ext, le_min_iff, max_le_iff]
  tauto

theorem Box2.ext_not_inverted (b : Box2 α) (lo hi : V2 α) (hb : ¬ Box2.Inverted b) :
    ¬ Box2.Inverted (Box2.ext b lo hi) := by
  simp only [Box2.Inverted, Box2.ext, not_or, not_lt] at *; bord

/-- every point of `b` and every point of the range is in the extended box (any `b`) -/
theorem Box2.subset_ext (b : Box2 α) (lo hi : V2 α) : Box2.Subset b (Box2.ext b lo hi) ∧ Box2.Subset ⟨lo, hi⟩ (Box2.ext b lo hi) := by
  constructor <;> rintro p ⟨⟨q0a, q0b⟩, ⟨q1a, q1b⟩⟩ <;> simp only [Box2.Mem, Box2.ext, min_le_iff, le_max_iff] <;> bord

theorem Box2.ext_canonEmpty (tmax tlowest : α) (hr : ∀ x : α, tlowest ≤ x ∧ x ≤ tmax) (lo hi : V2 α) :
    Box2.ext (Box2.canonEmpty tmax tlowest) lo hi = ⟨lo, hi⟩ := by
  simp only [Box2.ext, Box2.canonEmpty, min_eq_right (hr _).2, max_eq_right (hr _).1]

theorem Box2.ext_by_canonEmpty (tmax tlowest : α) (hr : ∀ x : α, tlowest ≤ x ∧ x ≤ tmax) (b : Box2 α) :
    Box2.ext b (Box2.canonEmpty tmax tlowest).min (Box2.canonEmpty tmax tlowest).max = b := by
  simp only [Box2.ext, Box2.canonEmpty, min_eq_left (hr _).2, max_eq_left (hr _).1]

/-- one `extendBy` call -/
def Box2.stepN (b : Box2 α) : Box2.Arg α → Box2 α
  | .pt p => Box2.ext b p p
  | .bx o => Box2.ext b o.min o.max

/-- a sequence of `extendBy` calls, in order -/
def Box2.extendAllN (b : Box2 α) (args : List (Box2.Arg α)) : Box2 α := args.foldl Box2.stepN b

theorem Box2.stepN_spec (tmax tlowest : α) (hlt : tlowest < tmax) (hr : ∀ x : α, tlowest ≤ x ∧ x ≤ tmax)
    (b : Box2 α) (hb : Box2.Canon tmax tlowest b) (a : Box2.Arg α) (ha : a.Ok tmax tlowest) :
    Box2.Canon tmax tlowest (Box2.stepN b a) ∧ ∀ c, Box2.Subset (Box2.stepN b a) c ↔ Box2.Subset b c ∧ a.Within c := by
  have hce : ∀ c, Box2.Subset (Box2.canonEmpty tmax tlowest) c :=
    fun c => Box2.subset_of_inverted _ c (Box2.canonEmpty_inverted tmax tlowest hlt)
  cases a with
  | pt p =>
    simp only [Box2.stepN, Box2.Arg.Within]
    rcases hb with hb | rfl
    · refine ⟨Or.inl (Box2.ext_not_inverted b p p hb), fun c => ?_⟩
      rw [Box2.ext_subset_iff b c p p hb (le_refl _) (le_refl _), Box2.point_subset_iff]
    · rw [Box2.ext_canonEmpty tmax tlowest hr]
      refine ⟨Or.inl ?_, fun c => ?_⟩
      · simp only [Box2.Inverted, not_or, not_lt]; bord
      · rw [Box2.point_subset_iff]; exact ⟨fun h => ⟨hce c, h⟩, fun h => h.2⟩
  | bx o =>
    simp only [Box2.stepN, Box2.Arg.Within]
    simp only [Box2.Arg.Ok] at ha
    rcases hb with hb | rfl
    · rcases ha with ho | rfl
      · refine ⟨Or.inl (Box2.ext_not_inverted b _ _ hb), fun c => ?_⟩
        have ho' := ho
        simp only [Box2.Inverted, not_or, not_lt] at ho'
        obtain ⟨hn0, hn1⟩ := ho'
        exact Box2.ext_subset_iff b c o.min o.max hb hn0 hn1
      · rw [Box2.ext_by_canonEmpty tmax tlowest hr]
        exact ⟨Or.inl hb, fun c => ⟨fun h => ⟨h, hce c⟩, fun h => h.1⟩⟩
    · rw [Box2.ext_canonEmpty tmax tlowest hr]
      exact ⟨ha, fun c => ⟨fun h => ⟨hce c, h⟩, fun h => h.2⟩⟩

theorem Box2.extendAllN_spec (tmax tlowest : α) (hlt : tlowest < tmax) (hr : ∀ x : α, tlowest ≤ x ∧ x ≤ tmax)
    (args : List (Box2.Arg α)) : ∀ (b : Box2 α), Box2.Canon tmax tlowest b → (∀ a ∈ args, a.Ok tmax tlowest) →
    Box2.Canon tmax tlowest (Box2.extendAllN b args) ∧
      ∀ c, Box2.Subset (Box2.extendAllN b args) c ↔ Box2.Subset b c ∧ ∀ a ∈ args, a.Within c := by
  induction args with
  | nil => intro b hb _; exact ⟨hb, fun c => by simp [Box2.extendAllN]⟩
  | cons a rest ih =>
    intro b hb hargs
    have hs := Box2.stepN_spec tmax tlowest hlt hr b hb a (hargs a (List.mem_cons_self ..))
    have := ih (Box2.stepN b a) hs.1 (fun x hx => hargs x (List.mem_cons_of_mem _ hx))
    refine ⟨this.1, fun c => ?_⟩
    have h2 := this.2 c
    simp only [Box2.extendAllN, List.foldl_cons, List.mem_cons, forall_eq_or_imp] at h2 ⊢
    rw [h2, hs.2 c, and_assoc]

theorem Box2.not_inverted_of_mem (p : V2 α) (a : Box2 α) (h : Box2.Mem p a) : ¬ Box2.Inverted a :=
  fun hi => (Box2.isEmptySet_iff a).2 hi p h

theorem Box2.common_of_axes (a b : Box2 α) (ha : ¬ Box2.Inverted a) (hb : ¬ Box2.Inverted b)
    (h : (b.min.x ≤ a.max.x ∧ a.min.x ≤ b.max.x) ∧ (b.min.y ≤ a.max.y ∧ a.min.y ≤ b.max.y)) :
    ∃ p, Box2.Mem p a ∧ Box2.Mem p b := by
  simp only [Box2.Inverted, not_or, not_lt] at ha hb
  refine ⟨⟨max a.min.x b.min.x, max a.min.y b.min.y⟩, ?_, ?_⟩ <;> simp only [Box2.Mem, le_max_iff, max_le_iff] <;> bord

/-- normal form of `clip` / `closestPointInBox`: per axis `(p < min) ? min : (p > max) ? max : p` -/
def Box2.clipN (p : V2 α) (b : Box2 α) : V2 α := ⟨sclamp p.x b.min.x b.max.x, sclamp p.y b.min.y b.max.y⟩

theorem Box2.clipN_mem (p : V2 α) (b : Box2 α) (hb : ¬ Box2.Inverted b) : Box2.Mem (Box2.clipN p b) b := by
  simp only [Box2.Inverted, not_or, not_lt] at hb
  obtain ⟨hn0, hn1⟩ := hb
  exact ⟨sclamp_mem _ _ _ hn0, sclamp_mem _ _ _ hn1⟩

theorem Box2.clipN_fixed (p : V2 α) (b : Box2 α) (hp : Box2.Mem p b) : Box2.clipN p b = p := by
  obtain ⟨⟨q0a, q0b⟩, ⟨q1a, q1b⟩⟩ := hp
  simp only [Box2.clipN, sclamp_fixed _ _ _ q0a q0b, sclamp_fixed _ _ _ q1a q1b]

end Box2_order

/-! ## Box3 -/

section Box3_order
variable [LinearOrder α]

theorem Box3.isEmptySet_iff (b : Box3 α) : Box3.IsEmptySet b ↔ Box3.Inverted b := by
  constructor
  · intro h; by_contra hn
    simp only [Box3.Inverted, not_or, not_lt] at hn
    obtain ⟨hn0, hn1, hn2⟩ := hn
    exact h b.min ⟨⟨le_refl _, hn0⟩, ⟨le_refl _, hn1⟩, ⟨le_refl _, hn2⟩⟩
  · rintro h p ⟨⟨q0a, q0b⟩, ⟨q1a, q1b⟩, ⟨q2a, q2b⟩⟩
    rcases h with h | h | h <;> order

theorem Box3.subset_iff (a c : Box3 α) (ha : ¬ Box3.Inverted a) :
    Box3.Subset a c ↔ (c.min.x ≤ a.min.x ∧ a.max.x ≤ c.max.x) ∧ (c.min.y ≤ a.min.y ∧ a.max.y ≤ c.max.y) ∧ (c.min.z ≤ a.min.z ∧ a.max.z ≤ c.max.z) := by
  simp only [Box3.Inverted, not_or, not_lt] at ha
  obtain ⟨hn0, hn1, hn2⟩ := ha
  constructor
  · intro h
    have h1 := h a.min ⟨⟨le_refl _, hn0⟩, ⟨le_refl _, hn1⟩, ⟨le_refl _, hn2⟩⟩
    have h2 := h a.max ⟨⟨hn0, le_refl _⟩, ⟨hn1, le_refl _⟩, ⟨hn2, le_refl _⟩⟩
    simp only [Box3.Mem] at h1 h2
    bord
  · rintro ⟨⟨h0a, h0b⟩, ⟨h1a, h1b⟩, ⟨h2a, h2b⟩⟩ p ⟨⟨q0a, q0b⟩, ⟨q1a, q1b⟩, ⟨q2a, q2b⟩⟩
    simp only [Box3.Mem]; bord

theorem Box3.subset_of_inverted (a c : Box3 α) (ha : Box3.Inverted a) : Box3.Subset a c :=
  fun p hp => absurd hp ((Box3.isEmptySet_iff a).2 ha p)

theorem Box3.canonEmpty_inverted (tmax tlowest : α) (h : tlowest < tmax) :
    Box3.Inverted (Box3.canonEmpty tmax tlowest) := Or.inl h

theorem Box3.canonEmpty_isEmptySet (tmax tlowest : α) (h : tlowest < tmax) :
    Box3.IsEmptySet (Box3.canonEmpty tmax tlowest) :=
  (Box3.isEmptySet_iff _).2 (Box3.canonEmpty_inverted tmax tlowest h)

theorem Box3.canonInfinite_mem (tmax tlowest : α) (hr : ∀ x : α, tlowest ≤ x ∧ x ≤ tmax) (p : V3 α) :
    Box3.Mem p (Box3.canonInfinite tmax tlowest) :=
  ⟨hr _, hr _, hr _⟩

theorem Box3.point_subset_iff (p : V3 α) (c : Box3 α) : Box3.Subset ⟨p, p⟩ c ↔ Box3.Mem p c := by
  constructor
  · intro h; exact h p ⟨⟨le_refl _, le_refl _⟩, ⟨le_refl _, le_refl _⟩, ⟨le_refl _, le_refl _⟩⟩
  · rintro ⟨⟨h0a, h0b⟩, ⟨h1a, h1b⟩, ⟨h2a, h2b⟩⟩ q ⟨⟨q0a, q0b⟩, ⟨q1a, q1b⟩, ⟨q2a, q2b⟩⟩
    simp only [Box3.Mem]; bord

theorem Box3.mem_point_iff (p q : V3 α) : Box3.Mem q (⟨p, p⟩ : Box3 α) ↔ q = p := by
  constructor
  · rintro ⟨⟨h0a, h0b⟩, ⟨h1a, h1b⟩, ⟨h2a, h2b⟩⟩
    obtain ⟨p0, p1, p2⟩ := p; obtain ⟨q0, q1, q2⟩ := q
    simp only [V3.mk.injEq]; bord
  · rintro rfl; exact ⟨⟨le_refl _, le_refl _⟩, ⟨le_refl _, le_refl _⟩, ⟨le_refl _, le_refl _⟩⟩

/-- normal form of both `extendBy` overloads: per axis `min := min(min, lo)`, `max := max(max, hi)` -/
def Box3.ext (b : Box3 α) (lo hi : V3 α) : Box3 α :=
  ⟨⟨min b.min.x lo.x, min b.min.y lo.y, min b.min.z lo.z⟩, ⟨max b.max.x hi.x, max b.max.y hi.y, max b.max.z hi.z⟩⟩

theorem Box3.ext_s (b : Box3 α) (lo hi : V3 α) : Box3.ext b lo hi =
    ⟨⟨smin b.min.x lo.x, smin b.min.y lo.y, smin b.min.z lo.z⟩, ⟨smax b.max.x hi.x, smax b.max.y hi.y, smax b.max.z hi.z⟩⟩ := by
  simp only [Box3.ext, smin_eq_min, smax_eq_max]

/-- extending a non-inverted box by a non-inverted range is their least upper bound -/
theorem Box3.ext_subset_iff (b c : Box3 α) (lo hi : V3 α) (hb : ¬ Box3.Inverted b) (h0 : lo.x ≤ hi.x) (h1 : lo.y ≤ hi.y) (h2 : lo.z ≤ hi.z) :
    Box3.Subset (Box3.ext b lo hi) c ↔ Box3.Subset b c ∧ Box3.Subset ⟨lo, hi⟩ c := by
  have hb' := hb
  simp only [Box3.Inverted, not_or, not_lt] at hb'
  have he : ¬ Box3.Inverted (Box3.ext b lo hi) := by
    simp only [Box3.Inverted, Box3.ext, not_or, not_lt]; bord
  have ho : ¬ Box3.Inverted (⟨lo, hi⟩ : Box3 α) := by
    simp only [Box3.Inverted, not_or, not_lt]; exact ⟨h0, h1, h2⟩
  rw [Box3.subset_iff _ _ he, Box3.subset_iff _ _ hb, Box3.subset_iff _ _ ho]
  simp only [Box3.ext, le_min_iff, max_le_iff]
  tauto

theorem Box3.ext_not_inverted (b : Box3 α) (lo hi : V3 α) (hb : ¬ Box3.Inverted b) :
    ¬ Box3.Inverted (Box3.ext b lo hi) := by
  simp only [Box3.Inverted, Box3.ext, not_or, not_lt] at *; bord

/-- every point of `b` and every point of the range is in the extended box (any `b`) -/
theorem Box3.subset_ext (b : Box3 α) (lo hi : V3 α) : Box3.Subset b (Box3.ext b lo hi) ∧ Box3.Subset ⟨lo, hi⟩ (Box3.ext b lo hi) := by
  constructor <;> rintro p ⟨⟨q0a, q0b⟩, ⟨q1a, q1b⟩, ⟨q2a, q2b⟩⟩ <;> simp only [Box3.Mem, Box3.ext, min_le_iff, le_max_iff] <;> bord

theorem Box3.ext_canonEmpty (tmax tlowest : α) (hr : ∀ x : α, tlowest ≤ x ∧ x ≤ tmax) (lo hi : V3 α) :
    Box3.ext (Box3.canonEmpty tmax tlowest) lo hi = ⟨lo, hi⟩ := by
  simp only [Box3.ext, Box3.canonEmpty, min_eq_right (hr _).2, max_eq_right (hr _).1]

theorem Box3.ext_by_canonEmpty (tmax tlowest : α) (hr : ∀ x : α, tlowest ≤ x ∧ x ≤ tmax) (b : Box3 α) :
    Box3.ext b (Box3.canonEmpty tmax tlowest).min (Box3.canonEmpty tmax tlowest).max = b := by
  simp only [Box3.ext, Box3.canonEmpty, min_eq_left (hr _).2, max_eq_left (hr _).1]

/-- one `extendBy` call -/
def Box3.stepN (b : Box3 α) : Box3.Arg α → Box3 α
  | .pt p => Box3.ext b p p
  | .bx o => Box3.ext b o.min o.max

/-- a sequence of `extendBy` calls, in order -/
def Box3.extendAllN (b : Box3 α) (args : List (Box3.Arg α)) : Box3 α := args.foldl Box3.stepN b

theorem Box3.stepN_spec (tmax tlowest : α) (hlt : tlowest < tmax) (hr : ∀ x : α, tlowest ≤ x ∧ x ≤ tmax)
    (b : Box3 α) (hb : Box3.Canon tmax tlowest b) (a : Box3.Arg α) (ha : a.Ok tmax tlowest) :
    Box3.Canon tmax tlowest (Box3.stepN b a) ∧ ∀ c, Box3.Subset (Box3.stepN b a) c ↔ Box3.Subset b c ∧ a.Within c := by
  have hce : ∀ c, Box3.Subset (Box3.canonEmpty tmax tlowest) c :=
    fun c => Box3.subset_of_inverted _ c (Box3.canonEmpty_inverted tmax tlowest hlt)
  cases a with
  | pt p =>
    simp only [Box3.stepN, Box3.Arg.Within]
    rcases hb with hb | rfl
    · refine ⟨Or.inl (Box3.ext_not_inverted b p p hb), fun c => ?_⟩
      rw [Box3.ext_subset_iff b c p p hb (le_refl _) (le_refl _) (le_refl _), Box3.point_subset_iff]
    · rw [Box3.ext_canonEmpty tmax tlowest hr]
      refine ⟨Or.inl ?_, fun c => ?_⟩
      · simp only [Box3.Inverted, not_or, not_lt]; bord
      · rw [Box3.point_subset_iff]; exact ⟨fun h => ⟨hce c, h⟩, fun h => h.2⟩
  | bx o =>
    simp only [Box3.stepN, Box3.Arg.Within]
    simp only [Box3.Arg.Ok] at ha
    rcases hb with hb | rfl
    · rcases ha with ho | rfl
      · refine ⟨Or.inl (Box3.ext_not_inverted b _ _ hb), fun c => ?_⟩
        have ho' := ho
        simp only [Box3.Inverted, not_or, not_lt] at ho'
        obtain ⟨hn0, hn1, hn2⟩ := ho'
        exact Box3.ext_subset_iff b c o.min o.max hb hn0 hn1 hn2
      · rw [Box3.ext_by_canonEmpty tmax tlowest hr]
        exact ⟨Or.inl hb, fun c => ⟨fun h => ⟨h, hce c⟩, fun h => h.1⟩⟩
    · rw [Box3.ext_canonEmpty tmax tlowest hr]
      exact ⟨ha, fun c => ⟨fun h => ⟨hce c, h⟩, fun h => h.2⟩⟩

theorem Box3.extendAllN_spec (tmax tlowest : α) (hlt : tlowest < tmax) (hr : ∀ x : α, tlowest ≤ x ∧ x ≤ tmax)
    (args : List (Box3.Arg α)) : ∀ (b : Box3 α), Box3.Canon tmax tlowest b → (∀ a ∈ args, a.Ok tmax tlowest) →
    Box3.Canon tmax tlowest (Box3.extendAllN b args) ∧
      ∀ c, Box3.Subset (Box3.extendAllN b args) c ↔ Box3.Subset b c ∧ ∀ a ∈ args, a.Within c := by
  induction args with
  | nil => intro b hb _; exact ⟨hb, fun c => by simp [Box3.extendAllN]⟩
  | cons a rest ih =>
    intro b hb hargs
    have hs := Box3.stepN_spec tmax tlowest hlt hr b hb a (hargs a (List.mem_cons_self ..))
    have := ih (Box3.stepN b a) hs.1 (fun x hx => hargs x (List.mem_cons_of_mem _ hx))
    refine ⟨this.1, fun c => ?_⟩
    have h2 := this.2 c
    simp only [Box3.extendAllN, List.foldl_cons, List.mem_cons, forall_eq_or_imp] at h2 ⊢
    rw [h2, hs.2 c, and_assoc]

/-! ### range-relative variants (audit C13 W1): only the coordinates actually ADDED must lie within the type bounds.
`∀ x, tlowest ≤ x ∧ x ≤ tmax` is unsatisfiable over an ordered field; these versions are the ones used for the transforms. -/

theorem inR_min {a b lo hi : α} (ha : lo ≤ a ∧ a ≤ hi) (hb : lo ≤ b ∧ b ≤ hi) : lo ≤ min a b ∧ min a b ≤ hi :=
  ⟨le_min ha.1 hb.1, le_trans (min_le_left _ _) ha.2⟩
theorem inR_max {a b lo hi : α} (ha : lo ≤ a ∧ a ≤ hi) (hb : lo ≤ b ∧ b ≤ hi) : lo ≤ max a b ∧ max a b ≤ hi :=
  ⟨le_trans ha.1 (le_max_left _ _), max_le ha.2 hb.2⟩

theorem Box3.ext_inRange (tmax tlowest : α) (b : Box3 α) (lo hi : V3 α)
    (h1 : V3.InRange tmax tlowest b.min) (h2 : V3.InRange tmax tlowest b.max)
    (h3 : V3.InRange tmax tlowest lo) (h4 : V3.InRange tmax tlowest hi) :
    V3.InRange tmax tlowest (Box3.ext b lo hi).min ∧ V3.InRange tmax tlowest (Box3.ext b lo hi).max :=
  ⟨⟨inR_min h1.1 h3.1, inR_min h1.2.1 h3.2.1, inR_min h1.2.2 h3.2.2⟩,
   ⟨inR_max h2.1 h4.1, inR_max h2.2.1 h4.2.1, inR_max h2.2.2 h4.2.2⟩⟩

theorem Box3.ext_canonEmptyR (tmax tlowest : α) (lo hi : V3 α) (hlo : V3.InRange tmax tlowest lo)
    (hhi : V3.InRange tmax tlowest hi) : Box3.ext (Box3.canonEmpty tmax tlowest) lo hi = ⟨lo, hi⟩ := by
  simp only [Box3.ext, Box3.canonEmpty, min_eq_right hlo.1.2, min_eq_right hlo.2.1.2, min_eq_right hlo.2.2.2,
    max_eq_right hhi.1.1, max_eq_right hhi.2.1.1, max_eq_right hhi.2.2.1]

theorem Box3.ext_by_canonEmptyR (tmax tlowest : α) (b : Box3 α) (h1 : V3.InRange tmax tlowest b.min)
    (h2 : V3.InRange tmax tlowest b.max) :
    Box3.ext b (Box3.canonEmpty tmax tlowest).min (Box3.canonEmpty tmax tlowest).max = b := by
  simp only [Box3.ext, Box3.canonEmpty, min_eq_left h1.1.2, min_eq_left h1.2.1.2, min_eq_left h1.2.2.2,
    max_eq_left h2.1.1, max_eq_left h2.2.1.1, max_eq_left h2.2.2.1]

theorem Box3.canonR_canon (tmax tlowest : α) (b : Box3 α) (h : Box3.CanonR tmax tlowest b) : Box3.Canon tmax tlowest b :=
  h.elim (fun h => Or.inl h.1) Or.inr

theorem Box3.stepN_specR (tmax tlowest : α) (hlt : tlowest < tmax)
    (b : Box3 α) (hb : Box3.CanonR tmax tlowest b) (a : Box3.Arg α) (ha : a.OkR tmax tlowest) :
    Box3.CanonR tmax tlowest (Box3.stepN b a) ∧ ∀ c, Box3.Subset (Box3.stepN b a) c ↔ Box3.Subset b c ∧ a.Within c := by
  have hce : ∀ c, Box3.Subset (Box3.canonEmpty tmax tlowest) c :=
    fun c => Box3.subset_of_inverted _ c (Box3.canonEmpty_inverted tmax tlowest hlt)
  cases a with
  | pt p =>
    simp only [Box3.stepN, Box3.Arg.Within]
    simp only [Box3.Arg.OkR] at ha
    rcases hb with ⟨hb, hmin, hmax⟩ | rfl
    · refine ⟨Or.inl ⟨Box3.ext_not_inverted b p p hb, Box3.ext_inRange tmax tlowest b p p hmin hmax ha ha⟩, fun c => ?_⟩
      rw [Box3.ext_subset_iff b c p p hb (le_refl _) (le_refl _) (le_refl _), Box3.point_subset_iff]
    · rw [Box3.ext_canonEmptyR tmax tlowest p p ha ha]
      refine ⟨Or.inl ⟨?_, ha, ha⟩, fun c => ?_⟩
      · simp only [Box3.Inverted, not_or, not_lt]; exact ⟨le_refl _, le_refl _, le_refl _⟩
      · rw [Box3.point_subset_iff]; exact ⟨fun h => ⟨hce c, h⟩, fun h => h.2⟩
  | bx o =>
    simp only [Box3.stepN, Box3.Arg.Within]
    simp only [Box3.Arg.OkR] at ha
    rcases hb with ⟨hb, hmin, hmax⟩ | rfl
    · rcases ha with ⟨ho, homin, homax⟩ | rfl
      · refine ⟨Or.inl ⟨Box3.ext_not_inverted b _ _ hb, Box3.ext_inRange tmax tlowest b _ _ hmin hmax homin homax⟩, fun c => ?_⟩
        have ho' := ho
        simp only [Box3.Inverted, not_or, not_lt] at ho'
        obtain ⟨hn0, hn1, hn2⟩ := ho'
        exact Box3.ext_subset_iff b c o.min o.max hb hn0 hn1 hn2
      · rw [Box3.ext_by_canonEmptyR tmax tlowest b hmin hmax]
        exact ⟨Or.inl ⟨hb, hmin, hmax⟩, fun c => ⟨fun h => ⟨h, hce c⟩, fun h => h.1⟩⟩
    · rcases ha with ⟨ho, homin, homax⟩ | rfl
      · rw [Box3.ext_canonEmptyR tmax tlowest _ _ homin homax]
        exact ⟨Or.inl ⟨ho, homin, homax⟩, fun c => ⟨fun h => ⟨hce c, h⟩, fun h => h.2⟩⟩
      · have e : Box3.ext (Box3.canonEmpty tmax tlowest) (Box3.canonEmpty tmax tlowest).min (Box3.canonEmpty tmax tlowest).max
            = Box3.canonEmpty tmax tlowest := by
          simp only [Box3.ext, Box3.canonEmpty, min_self, max_self]
        rw [e]
        exact ⟨Or.inr rfl, fun c => ⟨fun h => ⟨h, h⟩, fun h => h.1⟩⟩

/-- a sequence of `extendBy` calls whose arguments lie within the type bounds, from a box within the type bounds:
the result is the least box containing the start box and every argument (NO hypothesis on the whole type) -/
theorem Box3.extendAllN_specR (tmax tlowest : α) (hlt : tlowest < tmax)
    (args : List (Box3.Arg α)) : ∀ (b : Box3 α), Box3.CanonR tmax tlowest b → (∀ a ∈ args, a.OkR tmax tlowest) →
    Box3.CanonR tmax tlowest (Box3.extendAllN b args) ∧
      ∀ c, Box3.Subset (Box3.extendAllN b args) c ↔ Box3.Subset b c ∧ ∀ a ∈ args, a.Within c := by
  induction args with
  | nil => intro b hb _; exact ⟨hb, fun c => by simp [Box3.extendAllN]⟩
  | cons a rest ih =>
    intro b hb hargs
    have hs := Box3.stepN_specR tmax tlowest hlt b hb a (hargs a (List.mem_cons_self ..))
    have := ih (Box3.stepN b a) hs.1 (fun x hx => hargs x (List.mem_cons_of_mem _ hx))
    refine ⟨this.1, fun c => ?_⟩
    have h2 := this.2 c
    simp only [Box3.extendAllN, List.foldl_cons, List.mem_cons, forall_eq_or_imp] at h2 ⊢
    rw [h2, hs.2 c, and_assoc]

theorem Box3.not_inverted_of_mem (p : V3 α) (a : Box3 α) (h : Box3.Mem p a) : ¬ Box3.Inverted a :=
  fun hi => (Box3.isEmptySet_iff a).2 hi p h

theorem Box3.common_of_axes (a b : Box3 α) (ha : ¬ Box3.Inverted a) (hb : ¬ Box3.Inverted b)
    (h : (b.min.x ≤ a.max.x ∧ a.min.x ≤ b.max.x) ∧ (b.min.y ≤ a.max.y ∧ a.min.y ≤ b.max.y) ∧ (b.min.z ≤ a.max.z ∧ a.min.z ≤ b.max.z)) :
    ∃ p, Box3.Mem p a ∧ Box3.Mem p b := by
  simp only [Box3.Inverted, not_or, not_lt] at ha hb
  refine ⟨⟨max a.min.x b.min.x, max a.min.y b.min.y, max a.min.z b.min.z⟩, ?_, ?_⟩ <;> simp only [Box3.Mem, le_max_iff, max_le_iff] <;> bord

/-- normal form of `clip` / `closestPointInBox`: per axis `(p < min) ? min : (p > max) ? max : p` -/
def Box3.clipN (p : V3 α) (b : Box3 α) : V3 α := ⟨sclamp p.x b.min.x b.max.x, sclamp p.y b.min.y b.max.y, sclamp p.z b.min.z b.max.z⟩

theorem Box3.clipN_mem (p : V3 α) (b : Box3 α) (hb : ¬ Box3.Inverted b) : Box3.Mem (Box3.clipN p b) b := by
  simp only [Box3.Inverted, not_or, not_lt] at hb
  obtain ⟨hn0, hn1, hn2⟩ := hb
  exact ⟨sclamp_mem _ _ _ hn0, sclamp_mem _ _ _ hn1, sclamp_mem _ _ _ hn2⟩

theorem Box3.clipN_fixed (p : V3 α) (b : Box3 α) (hp : Box3.Mem p b) : Box3.clipN p b = p := by
  obtain ⟨⟨q0a, q0b⟩, ⟨q1a, q1b⟩, ⟨q2a, q2b⟩⟩ := hp
  simp only [Box3.clipN, sclamp_fixed _ _ _ q0a q0b, sclamp_fixed _ _ _ q1a q1b, sclamp_fixed _ _ _ q2a q2b]

end Box3_order

/-! ## Box4 -/

section Box4_order
variable [LinearOrder α]

theorem Box4.isEmptySet_iff (b : Box4 α) : Box4.IsEmptySet b ↔ Box4.Inverted b := by
  constructor
  · intro h; by_contra hn
    simp only [Box4.Inverted, not_or, not_lt] at hn
    obtain ⟨hn0, hn1, hn2, hn3⟩ := hn
    exact h b.min ⟨⟨le_refl _, hn0⟩, ⟨le_refl _, hn1⟩, ⟨le_refl _, hn2⟩, ⟨le_refl _, hn3⟩⟩
  · rintro h p ⟨⟨q0a, q0b⟩, ⟨q1a, q1b⟩, ⟨q2a, q2b⟩, ⟨q3a, q3b⟩⟩
    rcases h with h | h | h | h <;> order

theorem Box4.subset_iff (a c : Box4 α) (ha : ¬ Box4.Inverted a) :
    Box4.Subset a c ↔ (c.min.x ≤ a.min.x ∧ a.max.x ≤ c.max.x) ∧ (c.min.y ≤ a.min.y ∧ a.max.y ≤ c.max.y) ∧ (c.min.z ≤ a.min.z ∧ a.max.z ≤ c.max.z) ∧ (c.min.w ≤ a.min.w ∧ a.max.w ≤ c.max.w) := by
  simp only [Box4.Inverted, not_or, not_lt] at ha
  obtain ⟨hn0, hn1, hn2, hn3⟩ := ha
  constructor
  · intro h
    have h1 := h a.min ⟨⟨le_refl _, hn0⟩, ⟨le_refl _, hn1⟩, ⟨le_refl _, hn2⟩, ⟨le_refl _, hn3⟩⟩
    have h2 := h a.max ⟨⟨hn0, le_refl _⟩, ⟨hn1, le_refl _⟩, ⟨hn2, le_refl _⟩, ⟨hn3, le_refl _⟩⟩
    simp only [Box4.Mem] at h1 h2
    bord
  · rintro ⟨⟨h0a, h0b⟩, ⟨h1a, h1b⟩, ⟨h2a, h2b⟩, ⟨h3a, h3b⟩⟩ p ⟨⟨q0a, q0b⟩, ⟨q1a, q1b⟩, ⟨q2a, q2b⟩, ⟨q3a, q3b⟩⟩
    simp only [Box4.Mem]; bord

theorem Box4.subset_of_inverted (a c : Box4 α) (ha : Box4.Inverted a) : Box4.Subset a c :=
  fun p hp => absurd hp ((Box4.isEmptySet_iff a).2 ha p)

theorem Box4.canonEmpty_inverted (tmax tlowest : α) (h : tlowest < tmax) :
    Box4.Inverted (Box4.canonEmpty tmax tlowest) := Or.inl h

theorem Box4.canonEmpty_isEmptySet (tmax tlowest : α) (h : tlowest < tmax) :
    Box4.IsEmptySet (Box4.canonEmpty tmax tlowest) :=
  (Box4.isEmptySet_iff _).2 (Box4.canonEmpty_inverted tmax tlowest h)

theorem Box4.canonInfinite_mem (tmax tlowest : α) (hr : ∀ x : α, tlowest ≤ x ∧ x ≤ tmax) (p : V4 α) :
    Box4.Mem p (Box4.canonInfinite tmax tlowest) :=
  ⟨hr _, hr _, hr _, hr _⟩

theorem Box4.point_subset_iff (p : V4 α) (c : Box4 α) : Box4.Subset ⟨p, p⟩ c ↔ Box4.Mem p c := by
  constructor
  · intro h; exact h p ⟨⟨le_refl _, le_refl _⟩, ⟨le_refl _, le_refl _⟩, ⟨le_refl _, le_refl _⟩, ⟨le_refl _, le_refl _⟩⟩
  · rintro ⟨⟨h0a, h0b⟩, ⟨h1a, h1b⟩, ⟨h2a, h2b⟩, ⟨h3a, h3b⟩⟩ q ⟨⟨q0a, q0b⟩, ⟨q1a, q1b⟩, ⟨q2a, q2b⟩, ⟨q3a, q3b⟩⟩
    simp only [Box4.Mem]; bord

theorem Box4.mem_point_iff (p q : V4 α) : Box4.Mem q (⟨p, p⟩ : Box4 α) ↔ q = p := by
  constructor
  · rintro ⟨⟨h0a, h0b⟩, ⟨h1a, h1b⟩, ⟨h2a, h2b⟩, ⟨h3a, h3b⟩⟩
    obtain ⟨p0, p1, p2, p3⟩ := p; obtain ⟨q0, q1, q2, q3⟩ := q
    simp only [V4.mk.injEq]; bord
  · rintro rfl; exact ⟨⟨le_refl _, le_refl _⟩, ⟨le_refl _, le_refl _⟩, ⟨le_refl _, le_refl _⟩, ⟨le_refl _, le_refl _⟩⟩

/-- normal form of both `extendBy` overloads: per axis `min := min(min, lo)`, `max := max(max, hi)` -/
def Box4.ext (b : Box4 α) (lo hi : V4 α) : Box4 α :=
  ⟨⟨min b.min.x lo.x, min b.min.y lo.y, min b.min.z lo.z, min b.min.w lo.w⟩, ⟨max b.max.x hi.x, max b.max.y hi.y, max b.max.z hi.z, max b.max.w hi.w⟩⟩

theorem Box4.ext_s (b : Box4 α) (lo hi : V4 α) : Box4.ext b lo hi =
    ⟨⟨smin b.min.x lo.x, smin b.min.y lo.y, smin b.min.z lo.z, smin b.min.w lo.w⟩, ⟨smax b.max.x hi.x, smax b.max.y hi.y, smax b.max.z hi.z, smax b.max.w hi.w⟩⟩ := by
  simp only [Box4.ext, smin_eq_min, smax_eq_max]

/-- extending a non-inverted box by a non-inverted range is their least upper bound -/
theorem Box4.ext_subset_iff (b c : Box4 α) (lo hi : V4 α) (hb : ¬ Box4.Inverted b) (h0 : lo.x ≤ hi.x) (h1 : lo.y ≤ hi.y) (h2 : lo.z ≤ hi.z) (h3 : lo.w ≤ hi.w) :
    Box4.Subset (Box4.ext b lo hi) c ↔ Box4.Subset b c ∧ Box4.Subset ⟨lo, hi⟩ c := by
  have hb' := hb
  simp only [Box4.Inverted, not_or, not_lt] at hb'
  have he : ¬ Box4.Inverted (Box4.ext b lo hi) := by
    simp only [Box4.Inverted, Box4.ext, not_or, not_lt]; bord
  have ho : ¬ Box4.Inverted (⟨lo, hi⟩ : Box4 α) := by
    simp only [Box4.Inverted, not_or, not_lt]; exact ⟨h0, h1, h2, h3⟩
  rw [Box4.subset_iff _ _ he, Box4.subset_iff _ _ hb, Box4.subset_iff _ _ ho]
  simp only [Box4.ext, le_min_iff, max_le_iff]
  tauto

theorem Box4.ext_not_inverted (b : Box4 α) (lo hi : V4 α) (hb : ¬ Box4.Inverted b) :
    ¬ Box4.Inverted (Box4.ext b lo hi) := by
  simp only [Box4.Inverted, Box4.ext, not_or, not_lt] at *; bord

/-- every point of `b` and every point of the range is in the extended box (any `b`) -/
theorem Box4.subset_ext (b : Box4 α) (lo hi : V4 α) : Box4.Subset b (Box4.ext b lo hi) ∧ Box4.Subset ⟨lo, hi⟩ (Box4.ext b lo hi) := by
  constructor <;> rintro p ⟨⟨q0a, q0b⟩, ⟨q1a, q1b⟩, ⟨q2a, q2b⟩, ⟨q3a, q3b⟩⟩ <;> simp only [Box4.Mem, Box4.ext, min_le_iff, le_max_iff] <;> bord

theorem Box4.ext_canonEmpty (tmax tlowest : α) (hr : ∀ x : α, tlowest ≤ x ∧ x ≤ tmax) (lo hi : V4 α) :
    Box4.ext (Box4.canonEmpty tmax tlowest) lo hi = ⟨lo, hi⟩ := by
  simp only [Box4.ext, Box4.canonEmpty, min_eq_right (hr _).2, max_eq_right (hr _).1]

theorem Box4.ext_by_canonEmpty (tmax tlowest : α) (hr : ∀ x : α, tlowest ≤ x ∧ x ≤ tmax) (b : Box4 α) :
    Box4.ext b (Box4.canonEmpty tmax tlowest).min (Box4.canonEmpty tmax tlowest).max = b := by
  simp only [Box4.ext, Box4.canonEmpty, min_eq_left (hr _).2, max_eq_left (hr _).1]

/-- one `extendBy` call -/
def Box4.stepN (b : Box4 α) : Box4.Arg α → Box4 α
  | .pt p => Box4.ext b p p
  | .bx o => Box4.ext b o.min o.max

/-- a sequence of `extendBy` calls, in order -/
def Box4.extendAllN (b : Box4 α) (args : List (Box4.Arg α)) : Box4 α := args.foldl Box4.stepN b

theorem Box4.stepN_spec (tmax tlowest : α) (hlt : tlowest < tmax) (hr : ∀ x : α, tlowest ≤ x ∧ x ≤ tmax)
    (b : Box4 α) (hb : Box4.Canon tmax tlowest b) (a : Box4.Arg α) (ha : a.Ok tmax tlowest) :
    Box4.Canon tmax tlowest (Box4.stepN b a) ∧ ∀ c, Box4.Subset (Box4.stepN b a) c ↔ Box4.Subset b c ∧ a.Within c := by
  have hce : ∀ c, Box4.Subset (Box4.canonEmpty tmax tlowest) c :=
    fun c => Box4.subset_of_inverted _ c (Box4.canonEmpty_inverted tmax tlowest hlt)
  cases a with
  | pt p =>
    simp only [Box4.stepN, Box4.Arg.Within]
    rcases hb with hb | rfl
    · refine ⟨Or.inl (Box4.ext_not_inverted b p p hb), fun c => ?_⟩
      rw [Box4.ext_subset_iff b c p p hb (le_refl _) (le_refl _) (le_refl _) (le_refl _), Box4.point_subset_iff]
    · rw [Box4.ext_canonEmpty tmax tlowest hr]
      refine ⟨Or.inl ?_, fun c => ?_⟩
      · simp only [Box4.Inverted, not_or, not_lt]; bord
      · rw [Box4.point_subset_iff]; exact ⟨fun h => ⟨hce c, h⟩, fun h => h.2⟩
  | bx o =>
    simp only [Box4.stepN, Box4.Arg.Within]
    simp only [Box4.Arg.Ok] at ha
    rcases hb with hb | rfl
    · rcases ha with ho | rfl
      · refine ⟨Or.inl (Box4.ext_not_inverted b _ _ hb), fun c => ?_⟩
        have ho' := ho
        simp only [Box4.Inverted, not_or, not_lt] at ho'
        obtain ⟨hn0, hn1, hn2, hn3⟩ := ho'
        exact Box4.ext_subset_iff b c o.min o.max hb hn0 hn1 hn2 hn3
      · rw [Box4.ext_by_canonEmpty tmax tlowest hr]
        exact ⟨Or.inl hb, fun c => ⟨fun h => ⟨h, hce c⟩, fun h => h.1⟩⟩
    · rw [Box4.ext_canonEmpty tmax tlowest hr]
      exact ⟨ha, fun c => ⟨fun h => ⟨hce c, h⟩, fun h => h.2⟩⟩

theorem Box4.extendAllN_spec (tmax tlowest : α) (hlt : tlowest < tmax) (hr : ∀ x : α, tlowest ≤ x ∧ x ≤ tmax)
    (args : List (Box4.Arg α)) : ∀ (b : Box4 α), Box4.Canon tmax tlowest b → (∀ a ∈ args, a.Ok tmax tlowest) →
    Box4.Canon tmax tlowest (Box4.extendAllN b args) ∧
      ∀ c, Box4.Subset (Box4.extendAllN b args) c ↔ Box4.Subset b c ∧ ∀ a ∈ args, a.Within c := by
  induction args with
  | nil => intro b hb _; exact ⟨hb, fun c => by simp [Box4.extendAllN]⟩
  | cons a rest ih =>
    intro b hb hargs
    have hs := Box4.stepN_spec tmax tlowest hlt hr b hb a (hargs a (List.mem_cons_self ..))
    have := ih (Box4.stepN b a) hs.1 (fun x hx => hargs x (List.mem_cons_of_mem _ hx))
    refine ⟨this.1, fun c => ?_⟩
    have h2 := this.2 c
    simp only [Box4.extendAllN, List.foldl_cons, List.mem_cons, forall_eq_or_imp] at h2 ⊢
    rw [h2, hs.2 c, and_assoc]

theorem Box4.not_inverted_of_mem (p : V4 α) (a : Box4 α) (h : Box4.Mem p a) : ¬ Box4.Inverted a :=
  fun hi => (Box4.isEmptySet_iff a).2 hi p h

theorem Box4.common_of_axes (a b : Box4 α) (ha : ¬ Box4.Inverted a) (hb : ¬ Box4.Inverted b)
    (h : (b.min.x ≤ a.max.x ∧ a.min.x ≤ b.max.x) ∧ (b.min.y ≤ a.max.y ∧ a.min.y ≤ b.max.y) ∧ (b.min.z ≤ a.max.z ∧ a.min.z ≤ b.max.z) ∧ (b.min.w ≤ a.max.w ∧ a.min.w ≤ b.max.w)) :
    ∃ p, Box4.Mem p a ∧ Box4.Mem p b := by
  simp only [Box4.Inverted, not_or, not_lt] at ha hb
  refine ⟨⟨max a.min.x b.min.x, max a.min.y b.min.y, max a.min.z b.min.z, max a.min.w b.min.w⟩, ?_, ?_⟩ <;> simp only [Box4.Mem, le_max_iff, max_le_iff] <;> bord

/-- normal form of `clip` / `closestPointInBox`: per axis `(p < min) ? min : (p > max) ? max : p` -/
def Box4.clipN (p : V4 α) (b : Box4 α) : V4 α := ⟨sclamp p.x b.min.x b.max.x, sclamp p.y b.min.y b.max.y, sclamp p.z b.min.z b.max.z, sclamp p.w b.min.w b.max.w⟩

theorem Box4.clipN_mem (p : V4 α) (b : Box4 α) (hb : ¬ Box4.Inverted b) : Box4.Mem (Box4.clipN p b) b := by
  simp only [Box4.Inverted, not_or, not_lt] at hb
  obtain ⟨hn0, hn1, hn2, hn3⟩ := hb
  exact ⟨sclamp_mem _ _ _ hn0, sclamp_mem _ _ _ hn1, sclamp_mem _ _ _ hn2, sclamp_mem _ _ _ hn3⟩

theorem Box4.clipN_fixed (p : V4 α) (b : Box4 α) (hp : Box4.Mem p b) : Box4.clipN p b = p := by
  obtain ⟨⟨q0a, q0b⟩, ⟨q1a, q1b⟩, ⟨q2a, q2b⟩, ⟨q3a, q3b⟩⟩ := hp
  simp only [Box4.clipN, sclamp_fixed _ _ _ q0a q0b, sclamp_fixed _ _ _ q1a q1b, sclamp_fixed _ _ _ q2a q2b, sclamp_fixed _ _ _ q3a q3b]

end Box4_order

end ImathVerif.C13
