import ImathVerif.Lemmas.GridWrite
import ImathVerif.Lemmas.FixedArray2DLemmas
/-!
FixedMatrix row / slice writes refine nested-list assignment (C19).
-/
namespace ImathVerif.FixedArray2D
open ImathVerif ImathVerif.FixedArray

/-- distinct `(i, j)` inside the matrix are distinct cells (true for every matrix made from Python) -/
def MatView.Injective (m : MatView) : Prop :=
  ∀ i j i' j', i < m.rows → j < m.cols → i' < m.rows → j' < m.cols → m.pos i j = m.pos i' j' → i = i' ∧ j = j'

theorem allocMat_Injective (h : Heap) (r c : Nat) (vals : List Int) : (allocMat h r c vals).2.Injective := by
  intro i j i' j' hi hj hi' hj' he
  simp only [allocMat, MatView.pos] at hi hj hi' hj' he
  simp only [Nat.mul_one, Nat.zero_add] at he
  have h1 : (i * c + j) / c = i := by
    rw [Nat.mul_comm, Nat.mul_add_div (by omega), Nat.div_eq_of_lt hj]; omega
  have h2 : (i' * c + j') / c = i' := by
    rw [Nat.mul_comm, Nat.mul_add_div (by omega), Nat.div_eq_of_lt hj']; omega
  have hii : i = i' := by rw [← h1, ← h2, he]
  subst hii
  exact ⟨rfl, by omega⟩

def MatView.grid (m : MatView) : Grid := ⟨m.buf, m.rows, m.cols, m.pos⟩

theorem MatView.grid_toNested (h : Heap) (m : MatView) : m.grid.toNested h = m.toNested h := rfl

theorem MatView.grid_WF {sh : List Nat} {m : MatView} (w : m.WF sh) (hinj : m.Injective) : m.grid.WF sh :=
  ⟨w.inBuf, hinj⟩

/-- the rows a subscript selects: `rowOf b` for `b < n`, all inside the matrix -/
structure RowSel (m : MatView) (ms : MatSlice) (n : Nat) (rowOf : Nat → Nat) : Prop where
  len : ms.slicelength.toNat = n
  nonneg : 0 ≤ ms.slicelength
  row : ∀ b, b < n → ms.row b = .ok (rowOf b)
  lt : ∀ b, b < n → rowOf b < m.rows

/-- an int subscript of any sign selects one row -/
theorem rowSel_int {m : MatView} {i : Int} {k : Nat} (hk : canonicalIndex m.rows i = .ok k) :
    ∃ ms, extractMat m.rows (.int i) = .ok ms ∧ RowSel m ms 1 (fun _ => k) := by
  refine ⟨⟨k, 1, 1⟩, by simp [extractMat, hk], rfl, by simp, ?_, fun _ _ => canonicalIndex_lt hk⟩
  intro b hb
  have : b = 0 := by omega
  subst this
  simp [MatSlice.row]

theorem adjustBound_ge (n : Nat) (x st : Int) : -1 ≤ adjustBound n x st := by
  unfold adjustBound
  split
  · simp only
    split
    · split <;> omega
    · omega
  · split
    · split <;> omega
    · omega

theorem adjustBound_neg_one {n : Nat} {x st : Int} (h : adjustBound n x st = -1) : st < 0 := by
  unfold adjustBound at h
  split at h
  · simp only at h
    split at h
    · split at h
      · assumption
      · omega
    · omega
  · split at h
    · split at h <;> omega
    · omega

/-- the adjusted start is `-1` only for an empty selection -/
theorem sliceAdjust_start_nonneg {n : Nat} {sa so st : Int} (hpos : 0 < (sliceAdjust n sa so st).2.2) :
    0 ≤ (sliceAdjust n sa so st).1 := by
  have hge := adjustBound_ge n sa st
  have hge2 := adjustBound_ge n so st
  have hfst : (sliceAdjust n sa so st).1 = adjustBound n sa st := rfl
  by_cases hneg : 0 ≤ adjustBound n sa st
  · omega
  · exfalso
    have hm1 : adjustBound n sa st = -1 := by omega
    have hst := adjustBound_neg_one hm1
    unfold sliceAdjust at hpos
    simp only [hst, if_true, hm1] at hpos
    split at hpos <;> omega

/-- a slice (any signs) selects exactly the rows of the language reference's walk (`extract_slice_indices` of
    FixedMatrix performs no validity test; none is needed) -/
theorem rowSel_slice {m : MatView} (hn : (m.rows : Int) ≤ PY_SSIZE_T_MAX) {a b c : Option Int}
    (hc : ∀ v, c = some v → -PY_SSIZE_T_MAX ≤ v) {ms : MatSlice} (hm : extractMat m.rows (.slice a b c) = .ok ms) :
    ∃ s : SliceIdx, extractSliceIndices m.rows (.slice a b c) = .ok s ∧ RowSel m ms s.slicelength s.at := by
  have hc0 : c ≠ some 0 := by
    intro h0
    unfold extractMat at hm
    simp [h0, sliceUnpack] at hm
  obtain ⟨s, hs⟩ := extract_slice_total_repaired hn (a := a) (b := b) hc0 hc
  refine ⟨s, hs, ?_⟩
  have hform := fun i hi => slice_at_form hn hc hs i hi
  unfold extractMat at hm
  unfold extractSliceIndices at hs
  cases hu : sliceUnpack a b c with
  | error e => simp [hu] at hm
  | ok t =>
    obtain ⟨sa, so, st⟩ := t
    simp only [hu] at hm hs
    split at hs
    · simp at hs
    · rename_i hcond
      simp only [Except.ok.injEq] at hm hs
      subst hm
      subst hs
      simp only at hform ⊢
      refine ⟨rfl, by simp only; omega, ?_, fun i hi => (hform i hi).2⟩
      intro i hi
      have h1 := (hform i hi).1
      -- an item exists, so the adjusted start is not -1
      have hi' : i < ((sliceAdjust m.rows sa so st).2.2).toNat := hi
      have hstart : 0 ≤ (sliceAdjust m.rows sa so st).1 := sliceAdjust_start_nonneg (by omega)
      unfold MatSlice.row
      simp only
      have hnat : (((sliceAdjust m.rows sa so st).1.toNat : Nat) : Int) = (sliceAdjust m.rows sa so st).1 := by omega
      rw [hnat] at h1
      rw [h1]
      simp


theorem MatView.toNested_getD (h : Heap) (m : MatView) {i j : Nat} (hi : i < m.rows) (hj : j < m.cols) :
    ((m.toNested h).getD i []).getD j 0 = cellAt h m.buf (m.pos i j) := by
  simp [MatView.toNested, List.getD_eq_getElem?_getD, hi, hj]

theorem assign2D_rows {α : Type} (L : List (List α)) (n nc : Nat) (rowOf : Nat → Nat) (val : Nat → Nat → α) :
    (List.range n).foldl (fun L b => (List.range nc).foldl (fun L a => PyList.set2 L (rowOf b) a (val b a)) L) L
    = PyList.assign2D L ((List.range n).map rowOf) (List.range nc) val := by
  unfold PyList.assign2D
  simp only [List.length_map, List.length_range]
  apply foldl_congr_mem
  intro b hb L1
  have hb' : b < n := by simpa using hb
  apply foldl_congr_mem
  intro a ha L2
  have ha' : a < nc := by simpa using ha
  simp [List.getD_eq_getElem?_getD, hb', ha']

/-- generic matrix write loop: `for b < n: for j < cols: m[rowOf b][j] = val b j` -/
theorem matLoop_refines {h : Heap} {m : MatView} (w : m.WF (shape h)) (hinj : m.Injective) {ms : MatSlice} {n : Nat}
    {rowOf : Nat → Nat} (hsel : RowSel m ms n rowOf) (val : Nat → Nat → Int)
    (body : Nat → Nat → Heap → Except Err Heap)
    (hbody : ∀ b j h1, b < n → j < m.cols → GInv m.grid h h1 →
      body b j h1 = (match ms.row b with
        | .error e => .error e
        | .ok r => m.set h1 r j (val b j))) :
    ∃ h', forLoop2 body ms.slicelength.toNat m.cols h = .ok h' ∧ shape h' = shape h ∧ Frame m.buf h h' ∧
      m.toNested h' = PyList.assign2D (m.toNested h) ((List.range n).map rowOf) (List.range m.cols) val := by
  obtain ⟨h', hl, hinv, ht⟩ := grid_loop2_refines (g := m.grid) (MatView.grid_WF w hinj)
    (fun b _ => rowOf b) (fun _ a => a) val (fun _ _ => true) n m.cols
    (fun b a hb ha _ => ⟨hsel.lt b hb, ha⟩) body
    (fun b a h1 hb ha hi1 => by
      rw [hbody b a h1 hb ha hi1, hsel.row b hb]
      simp [MatView.set, MatView.grid])
  refine ⟨h', by rw [hsel.len]; exact hl, hinv.1, hinv.2, ?_⟩
  rw [← MatView.grid_toNested, ht, MatView.grid_toNested]
  simp only [if_true]
  exact assign2D_rows _ n m.cols rowOf val

/-- **`m[idx] = x`**: every element of every selected row becomes `x` -/
theorem setitemScalarMat_refines {h : Heap} {m : MatView} (w : m.WF (shape h)) (hinj : m.Injective) {idx : PyIdx}
    {ms : MatSlice} (hm : extractMat m.rows idx = .ok ms) {n : Nat} {rowOf : Nat → Nat} (hsel : RowSel m ms n rowOf)
    (x : Int) :
    ∃ h', setitemScalarMat h m idx x = .ok h' ∧ shape h' = shape h ∧ Frame m.buf h h' ∧
      m.toNested h' = PyList.assign2D (m.toNested h) ((List.range n).map rowOf) (List.range m.cols) (fun _ _ => x) := by
  obtain ⟨h', hl, hs, hf, ht⟩ := matLoop_refines w hinj hsel (fun _ _ => x) _ (fun b j h1 _ _ _ => rfl)
  exact ⟨h', by unfold setitemScalarMat; simp only [hm]; exact hl, hs, hf, ht⟩

/-- **`m[idx] = row`** for a 1-D right-hand side of `cols` elements in another allocation: every selected row becomes `row` -/
theorem setitemVectorMat_refines {h : Heap} {m : MatView} {data : View} (w : m.WF (shape h)) (hinj : m.Injective)
    (wd : data.WF (shape h)) (hne : data.buf ≠ m.buf) {idx : PyIdx} {ms : MatSlice}
    (hm : extractMat m.rows idx = .ok ms) {n : Nat} {rowOf : Nat → Nat} (hsel : RowSel m ms n rowOf)
    (hdl : data.length = m.cols) :
    ∃ h', setitemVectorMat h m idx data = .ok h' ∧ shape h' = shape h ∧ Frame m.buf h h' ∧
      m.toNested h' = PyList.assign2D (m.toNested h) ((List.range n).map rowOf) (List.range m.cols)
        (fun _ j => (data.toList h).getD j 0) := by
  obtain ⟨h', hl, hs, hf, ht⟩ := matLoop_refines w hinj hsel (fun _ j => cellAt h data.buf (data.cellPos j))
    (fun i j h1 => match ms.row i with
      | .error e => .error e
      | .ok r => match data.get h1 j with
        | .error e => .error e
        | .ok x => m.set h1 r j x)
    (fun b j h1 hb hj hi1 => by
      have hd : data.get h1 j = .ok (cellAt h data.buf (data.cellPos j)) := by
        rw [View.get_congr (hi1.2.2 _ hne)]
        exact wd.get (by omega)
      simp only [hd])
  refine ⟨h', ?_, hs, hf, ?_⟩
  · unfold setitemVectorMat
    have : ¬ (data.length ≠ m.cols) := by simp [hdl]
    simp only [hm, this, if_false]
    exact hl
  · rw [ht]
    unfold PyList.assign2D
    apply foldl_congr_mem
    intro b _ L1
    apply foldl_congr_mem
    intro a ha L2
    have ha' : a < m.cols := by simpa using ha
    have := View.toList_getElem? h data a (by omega)
    simp [List.getD_eq_getElem?_getD, this, ha']

/-- **`m[idx] = other`** for a matrix right-hand side (another allocation; as many rows as selected, same columns):
    `nested[rows[b]][j] = other[b][j]` -/
theorem setitemMatrixMat_refines {h : Heap} {m data : MatView} (w : m.WF (shape h)) (hinj : m.Injective)
    (wd : data.WF (shape h)) (hne : data.buf ≠ m.buf) {idx : PyIdx} {ms : MatSlice}
    (hm : extractMat m.rows idx = .ok ms) {n : Nat} {rowOf : Nat → Nat} (hsel : RowSel m ms n rowOf)
    (hdr : data.rows = n) (hdc : data.cols = m.cols) :
    ∃ h', setitemMatrixMat h m idx data = .ok h' ∧ shape h' = shape h ∧ Frame m.buf h h' ∧
      m.toNested h' = PyList.assign2D (m.toNested h) ((List.range n).map rowOf) (List.range m.cols)
        (fun b j => ((data.toNested h).getD b []).getD j 0) := by
  obtain ⟨nb, hnb, hpb⟩ := wd.inBuf
  obtain ⟨h', hl, hs, hf, ht⟩ := matLoop_refines w hinj hsel (fun b j => cellAt h data.buf (data.pos b j))
    (fun i j h1 => match ms.row i with
      | .error e => .error e
      | .ok r => match data.get h1 i j with
        | .error e => .error e
        | .ok x => m.set h1 r j x)
    (fun b j h1 hb hj hi1 => by
      have hd : data.get h1 b j = .ok (cellAt h data.buf (data.pos b j)) := by
        unfold MatView.get
        rw [rd_congr (hi1.2.2 _ hne)]
        exact rd_cellAt hnb (hpb b j (by omega) (by omega))
      simp only [hd])
  refine ⟨h', ?_, hs, hf, ?_⟩
  · unfold setitemMatrixMat
    have : ¬ ((data.rows : Int) ≠ ms.slicelength ∨ data.cols ≠ m.cols) := by
      have h1 := hsel.len
      have h2 := hsel.nonneg
      intro hh
      rcases hh with hh | hh
      · apply hh; omega
      · exact hh hdc
    simp only [hm, this, if_false]
    exact hl
  · rw [ht]
    unfold PyList.assign2D
    simp only [List.length_map, List.length_range]
    apply foldl_congr_mem
    intro b hb L1
    have hb' : b < n := by simpa using hb
    apply foldl_congr_mem
    intro a ha L2
    have ha' : a < m.cols := by simpa using ha
    have hget := MatView.toNested_getD h data (i := b) (j := a) (by omega) (by omega)
    simp only [hget]

end ImathVerif.FixedArray2D
