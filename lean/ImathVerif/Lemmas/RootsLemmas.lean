import ImathVerif.Model.Roots
import Mathlib.Tactic.Linarith
import Mathlib.Tactic.Ring
import Mathlib.Tactic.FieldSimp
import Mathlib.Tactic.Positivity
import Mathlib.Tactic.LinearCombination
/-!
Lemmas for C17, part 2: ImathRoots.h.
-/
set_option linter.unusedSectionVars false
set_option linter.unusedSimpArgs false
set_option linter.unusedVariables false
namespace ImathVerif.Roots

section
variable {α : Type} [Add α] [Sub α] [Mul α] [Div α] [Neg α] [LT α] [DecidableLT α] [BEq α]
  [OfNat α 0] [OfNat α 1] [OfNat α 2] [OfNat α 3] [OfNat α 4] [OfNat α 27]
/-- the monolithic transcription and the named branch bodies are the same text -/
theorem solveNormalizedCubic_cases (F : CubicFns α) (r s t : α) :
    solveNormalizedCubic F r s t =
      if cubicD r s t == 0 && cubicP r s / 3 == 0 then (1, [-r / 3, -r / 3, -r / 3])
      else if cubicD r s t > 0 then cubicReal F r s t
      else cubicComplex F r s t := rfl
end

section
variable {α : Type} [Field α] [LinearOrder α] [IsStrictOrderedRing α]

theorem solveLinear_spec (a b : α) :
    (a ≠ 0 → solveLinear a b = (1, [-b / a]) ∧ a * (-b / a) + b = 0 ∧ ∀ x, a * x + b = 0 → x = -b / a) ∧
    (a = 0 → b ≠ 0 → solveLinear a b = (0, []) ∧ ∀ x, a * x + b ≠ 0) ∧
    (a = 0 → b = 0 → solveLinear a b = (-1, []) ∧ ∀ x, a * x + b = 0) := by
  refine ⟨fun ha => ⟨?_, ?_, ?_⟩, fun ha hb => ⟨?_, ?_⟩, fun ha hb => ⟨?_, ?_⟩⟩
  · simp [solveLinear, ha]
  · field_simp; ring
  · intro x hx; field_simp; linarith
  · simp [solveLinear, ha, hb]
  · intro x; subst ha; simpa using hb
  · simp [solveLinear, ha, hb]
  · intro x; subst ha; subst hb; ring

/-- the `q` of the numerically stable form -/
def stableQ (sqrt : α → α) (a b c : α) : α :=
  -(b + (if b > 0 then 1 else -1) * sqrt (b * b - 4 * a * c)) / 2

theorem stableQ_facts (sqrt : α → α) (a b c : α)
    (hD : 0 < b * b - 4 * a * c)
    (hs : sqrt (b * b - 4 * a * c) * sqrt (b * b - 4 * a * c) = b * b - 4 * a * c ∧ 0 ≤ sqrt (b * b - 4 * a * c)) :
    stableQ sqrt a b c ≠ 0 ∧
    stableQ sqrt a b c * stableQ sqrt a b c + b * stableQ sqrt a b c + a * c = 0 := by
  obtain ⟨hs1, hs2⟩ := hs
  set s := sqrt (b * b - 4 * a * c) with hsdef
  have hspos : 0 < s := by
    rcases hs2.lt_or_eq with h | h
    · exact h
    · rw [← h] at hs1; linarith
  unfold stableQ
  rw [← hsdef]
  constructor
  · split_ifs with hb
    · have : 0 < b + 1 * s := by linarith
      intro h; have : b + 1 * s = 0 := by linarith
      linarith
    · have hb' : b ≤ 0 := not_lt.mp hb
      intro h; have : b + (-1) * s = 0 := by linarith
      linarith
  · split_ifs with hb
    · linear_combination (1/4 : α) * hs1
    · linear_combination (1/4 : α) * hs1

theorem solveQuadratic_two (sqrt : α → α) (a b c : α) (ha : a ≠ 0)
    (hD : 0 < b * b - 4 * a * c)
    (hs : sqrt (b * b - 4 * a * c) * sqrt (b * b - 4 * a * c) = b * b - 4 * a * c ∧ 0 ≤ sqrt (b * b - 4 * a * c)) :
    ∃ x0 x1, solveQuadratic sqrt a b c = (2, [x0, x1]) ∧
      stableQ sqrt a b c ≠ 0 ∧ x0 = stableQ sqrt a b c / a ∧ x1 = c / stableQ sqrt a b c ∧
      a * x0 * x0 + b * x0 + c = 0 ∧ a * x1 * x1 + b * x1 + c = 0 ∧ x0 ≠ x1 ∧
      ∀ x, a * x * x + b * x + c = 0 → x = x0 ∨ x = x1 := by
  obtain ⟨hq0, hq⟩ := stableQ_facts sqrt a b c hD hs
  refine ⟨stableQ sqrt a b c / a, c / stableQ sqrt a b c, ?_, hq0, rfl, rfl, ?_, ?_, ?_, ?_⟩
  · unfold solveQuadratic
    simp only [beq_iff_eq, ha, if_false, gt_iff_lt, hD, if_true]
    rfl
  · set q := stableQ sqrt a b c
    field_simp
    linear_combination hq
  · set q := stableQ sqrt a b c
    field_simp
    linear_combination c * hq
  · set q := stableQ sqrt a b c
    intro h
    have h1 : q * q = a * c := by
      field_simp at h; linear_combination h
    -- then D = b² - 4ac = b² - 4 q², and q² + b q + q² = 0 → q (2q + b) = 0 → b = -2q → D = 0
    have h2 : q * (2 * q + b) = 0 := by linear_combination hq + h1
    have h3 : 2 * q + b = 0 := by
      rcases mul_eq_zero.mp h2 with h | h
      · exact absurd h hq0
      · exact h
    have : b * b - 4 * a * c = 0 := by linear_combination (b - 2 * q) * h3 + 4 * h1
    linarith
  · set q := stableQ sqrt a b c
    intro x hx
    have hfac : (a * x - q) * (q * x - c) = 0 := by linear_combination q * hx - x * hq
    rcases mul_eq_zero.mp hfac with h | h
    · left; field_simp; linear_combination h
    · right; field_simp; linear_combination h

theorem solveQuadratic_one (sqrt : α → α) (a b c : α) (ha : a ≠ 0) (hD : b * b - 4 * a * c = 0) :
    solveQuadratic sqrt a b c = (1, [-b / (2 * a)]) ∧
      a * (-b / (2 * a)) * (-b / (2 * a)) + b * (-b / (2 * a)) + c = 0 ∧
      ∀ x, a * x * x + b * x + c = 0 → x = -b / (2 * a) := by
  refine ⟨?_, ?_, ?_⟩
  · unfold solveQuadratic
    simp [ha, hD]
  · field_simp; linear_combination (-1 : α) * hD
  · intro x hx
    have h : (2 * a * x + b) * (2 * a * x + b) = 0 := by linear_combination 4 * a * hx + hD
    have h2 : 2 * a * x + b = 0 := by
      rcases mul_eq_zero.mp h with h | h <;> exact h
    field_simp; linear_combination h2

theorem solveQuadratic_none (sqrt : α → α) (a b c : α) (ha : a ≠ 0) (hD : b * b - 4 * a * c < 0) :
    solveQuadratic sqrt a b c = (0, []) ∧ ∀ x, a * x * x + b * x + c ≠ 0 := by
  refine ⟨?_, ?_⟩
  · unfold solveQuadratic
    have h1 : ¬ (b * b - 4 * a * c > 0) := not_lt.mpr hD.le
    simp [ha, h1, hD.ne]
  · intro x hx
    have h : (2 * a * x + b) * (2 * a * x + b) = b * b - 4 * a * c := by linear_combination 4 * a * hx
    have := mul_self_nonneg (2 * a * x + b)
    linarith

theorem solveQuadratic_delegates (sqrt : α → α) (b c : α) :
    solveQuadratic sqrt 0 b c = solveLinear b c := by
  unfold solveQuadratic; simp

theorem solveCubic_delegates (F : CubicFns α) (a b c d : α) :
    (a = 0 → solveCubic F a b c d = solveQuadratic F.sqrt b c d) ∧
    (a ≠ 0 → solveCubic F a b c d = solveNormalizedCubic F (b / a) (c / a) (d / a)) := by
  unfold solveCubic
  constructor <;> intro h <;> simp [h]

/-- a root of the normalised cubic is a root of the general one -/
theorem normalized_root (a b c d x : α) (ha : a ≠ 0)
    (h : x * x * x + (b / a) * (x * x) + (c / a) * x + d / a = 0) :
    a * (x * x * x) + b * (x * x) + c * x + d = 0 := by
  field_simp at h
  linear_combination h

/-- depressed-cubic substitution: with `y = x + r/3`, x³ + r x² + s x + t = y³ + p y + q -/
theorem depressed (r s t y : α) :
    (y - r / 3) * (y - r / 3) * (y - r / 3) + r * ((y - r / 3) * (y - r / 3)) + s * (y - r / 3) + t =
      y * y * y + cubicP r s * y + cubicQ r s t := by
  unfold cubicP cubicQ; ring

/-- with the cancellation-free sign choice the cube-root argument never vanishes -/
theorem cardanoA_ne_zero (F : CubicFns α) (r s t : α) (hD : 0 < cubicD r s t)
    (hs : F.sqrt (cubicD r s t) * F.sqrt (cubicD r s t) = cubicD r s t ∧ 0 ≤ F.sqrt (cubicD r s t)) :
    cardanoA F r s t ≠ 0 := by
  obtain ⟨hs1, hs2⟩ := hs
  have hSpos : 0 < F.sqrt (cubicD r s t) := by
    rcases hs2.lt_or_eq with h1 | h1
    · exact h1
    · rw [← h1] at hs1; linarith
  unfold cardanoA
  split_ifs with hq
  · intro h; linarith
  · have hq' : cubicQ r s t ≤ 0 := not_lt.mp hq
    intro h; linarith

theorem realRoot_cube (F : CubicFns α) (a : α)
    (hcs : (F.copysign1 a = 1 ∨ F.copysign1 a = -1) ∧ 0 ≤ F.copysign1 a * a)
    (hpow : F.pow (F.copysign1 a * a) (1 / 3) * F.pow (F.copysign1 a * a) (1 / 3) *
      F.pow (F.copysign1 a * a) (1 / 3) = F.copysign1 a * a) :
    realRoot F a 3 * realRoot F a 3 * realRoot F a 3 = a := by
  unfold realRoot
  obtain ⟨h1, h2⟩ := hcs
  rcases h1 with h | h
  · rw [h] at hpow ⊢
    linear_combination hpow
  · rw [h] at hpow ⊢
    linear_combination -hpow

/-- Cardano, D > 0, the value returned is ALWAYS a root -/
theorem solveNormalizedCubic_real (F : CubicFns α) (r s t : α) (hD : 0 < cubicD r s t)
    (hs : F.sqrt (cubicD r s t) * F.sqrt (cubicD r s t) = cubicD r s t ∧ 0 ≤ F.sqrt (cubicD r s t))
    (hcs : (F.copysign1 (cardanoA F r s t) = 1 ∨ F.copysign1 (cardanoA F r s t) = -1) ∧
      0 ≤ F.copysign1 (cardanoA F r s t) * cardanoA F r s t)
    (hpow : F.pow (F.copysign1 (cardanoA F r s t) * cardanoA F r s t) (1 / 3) *
        F.pow (F.copysign1 (cardanoA F r s t) * cardanoA F r s t) (1 / 3) *
        F.pow (F.copysign1 (cardanoA F r s t) * cardanoA F r s t) (1 / 3) =
      F.copysign1 (cardanoA F r s t) * cardanoA F r s t) :
    ∃ x, solveNormalizedCubic F r s t = (1, [x]) ∧ x * x * x + r * (x * x) + s * x + t = 0 := by
  have hA := cardanoA_ne_zero F r s t hD hs
  have hu3 := realRoot_cube F (cardanoA F r s t) hcs hpow
  set u := realRoot F (cardanoA F r s t) 3 with hu
  have hu0 : u ≠ 0 := by
    intro h; rw [h] at hu3; apply hA; linear_combination -hu3
  refine ⟨u + -(cubicP r s) / (3 * u) - r / 3, ?_, ?_⟩
  · rw [solveNormalizedCubic_cases, if_neg (by simp [hD.ne']), if_pos hD]
    rfl
  · have hdep := depressed r s t (u + -(cubicP r s) / (3 * u))
    have : (u + -(cubicP r s) / (3 * u) - r / 3) * (u + -(cubicP r s) / (3 * u) - r / 3) * (u + -(cubicP r s) / (3 * u) - r / 3) +
        r * ((u + -(cubicP r s) / (3 * u) - r / 3) * (u + -(cubicP r s) / (3 * u) - r / 3)) +
        s * (u + -(cubicP r s) / (3 * u) - r / 3) + t = 0 := by
      rw [hdep]
      obtain ⟨hs1, hs2⟩ := hs
      have hDdef : cubicD r s t = cubicP r s / 3 * (cubicP r s / 3) * (cubicP r s / 3) +
          cubicQ r s t / 2 * (cubicQ r s t / 2) := rfl
      have hres : cardanoA F r s t * cardanoA F r s t + cubicQ r s t * cardanoA F r s t -
          cubicP r s / 3 * (cubicP r s / 3) * (cubicP r s / 3) = 0 := by
        unfold cardanoA
        have hs1' := hs1.trans hDdef
        split_ifs <;> linear_combination hs1'
      set q := cubicQ r s t
      set p := cubicP r s
      set A := cardanoA F r s t
      have hy : (u + -p / (3 * u)) * (u + -p / (3 * u)) * (u + -p / (3 * u)) + p * (u + -p / (3 * u)) + q
          = (u * u * u * (u * u * u) + q * (u * u * u) - p / 3 * (p / 3) * (p / 3)) / (u * u * u) := by
        field_simp; ring
      rw [hy, hu3, hres, zero_div]
    linear_combination this


theorem cube_inj (n m : α) (h : n * n * n = m * m * m) : n = m := by
  by_contra hne
  have h1 : (n - m) * (n * n + n * m + m * m) = 0 := by linear_combination h
  rcases mul_eq_zero.mp h1 with h2 | h2
  · exact hne (by linear_combination h2)
  · have h3 : (2 * n + m) * (2 * n + m) + 3 * (m * m) = 0 := by linear_combination 4 * h2
    have hm : m * m = 0 := by nlinarith [mul_self_nonneg (2 * n + m), mul_self_nonneg m]
    have hm0 : m = 0 := by rcases mul_eq_zero.mp hm with h | h <;> exact h
    have hn : n * n = 0 := by rw [hm0] at h2; linear_combination h2
    have hn0 : n = 0 := by rcases mul_eq_zero.mp hn with h | h <;> exact h
    exact hne (by rw [hn0, hm0])

/-- D = 0 ∧ p = 0: triple root -r/3 -/
theorem solveNormalizedCubic_triple (F : CubicFns α) (r s t : α)
    (hD : cubicD r s t = 0) (hp : cubicP r s / 3 = 0) :
    solveNormalizedCubic F r s t = (1, [-r / 3, -r / 3, -r / 3]) ∧
    (-r / 3) * (-r / 3) * (-r / 3) + r * ((-r / 3) * (-r / 3)) + s * (-r / 3) + t = 0 ∧
    ∀ x, x * x * x + r * (x * x) + s * x + t = 0 → x = -r / 3 := by
  have hp0 : cubicP r s = 0 := by linarith
  have hq0 : cubicQ r s t = 0 := by
    have hDdef : cubicD r s t = cubicP r s / 3 * (cubicP r s / 3) * (cubicP r s / 3) +
          cubicQ r s t / 2 * (cubicQ r s t / 2) := rfl
    rw [hDdef, hp0] at hD
    have : cubicQ r s t * cubicQ r s t = 0 := by linear_combination 4 * hD
    rcases mul_eq_zero.mp this with h | h <;> exact h
  refine ⟨?_, ?_, ?_⟩
  · rw [solveNormalizedCubic_cases, if_pos (by simp [hD, hp])]
  · have := depressed r s t 0
    rw [hp0, hq0] at this
    have e : (0 : α) - r / 3 = -r / 3 := by ring
    rw [e] at this
    rw [this]; ring
  · intro x hx
    have := depressed r s t (x + r / 3)
    rw [hp0, hq0] at this
    have e : x + r / 3 - r / 3 = x := by ring
    rw [e, hx] at this
    have h3 : (x + r / 3) * (x + r / 3) * (x + r / 3) = 0 * 0 * 0 := by linear_combination -this
    have := cube_inj _ _ h3
    linear_combination this

/-- the former defect input x³ + 1 = 0 (r = s = 0, t = 1; p = 0, q = 1 > 0): the cube-root
argument is now -q/2 - sqrt D = -1, u = -1, v = 0, and the root -1 is returned -/
theorem cubic_former_defect_fixed (F : CubicFns α)
    (hs : F.sqrt (1 / 4) = 1 / 2) (hcs : F.copysign1 (-1) = -1) (hpow : F.pow 1 (1 / 3) = 1) :
    cardanoA F 0 0 1 = -1 ∧ solveNormalizedCubic F 0 0 1 = (1, [-1]) ∧
    (-1 : α) * (-1) * (-1) + 0 * ((-1) * (-1)) + 0 * (-1) + 1 = 0 := by
  have hD : cubicD (0 : α) 0 1 = 1 / 4 := by unfold cubicD cubicP cubicQ; norm_num
  have hq : cubicQ (0 : α) 0 1 = 1 := by unfold cubicQ; norm_num
  have hp : cubicP (0 : α) 0 = 0 := by unfold cubicP; norm_num
  have hA : cardanoA F 0 0 1 = -1 := by
    unfold cardanoA; rw [hD, hs, hq, if_pos (by norm_num)]; norm_num
  have hu : realRoot F (cardanoA F 0 0 1) 3 = -1 := by
    rw [hA]; unfold realRoot; simp only [hcs]; norm_num [hpow]
  refine ⟨hA, ?_, by norm_num⟩
  rw [solveNormalizedCubic_cases, if_neg (by rw [hD]; norm_num), if_pos (by rw [hD]; norm_num)]
  unfold cubicReal
  simp only [hu, hp]; norm_num

/-- Cardano, D ≤ 0 (complex intermediates): every value written is a root, given that the
library's complex square root of the real `D ≤ 0` is `(0, w)` with `w² = -D`, that the complex
cube root `u` returned by `pow` cubes to its argument, and that the literal `sqrt3` squares to 3. -/
theorem cubicComplex_roots (F : CubicFns α) (r s t : α) (w : α)
    (hD : cubicD r s t ≤ 0) (hnt : ¬ (cubicD r s t = 0 ∧ cubicP r s / 3 = 0))
    (hcsqrt : F.csqrt (cubicD r s t, 0) = (0, w) ∧ w * w = -cubicD r s t)
    (hcube : cmul (cmul (cubicU F r s t) (cubicU F r s t)) (cubicU F r s t) = (-(cubicQ r s t) / 2, w))
    (h3 : F.sqrt3 * F.sqrt3 = 3) :
    ∃ x0 x1 x2, (cubicComplex F r s t = (2, [x0, x1]) ∨ cubicComplex F r s t = (3, [x0, x1, x2])) ∧
      (cubicComplex F r s t = (2, [x0, x1]) ↔ cubicD r s t = 0) ∧
      x0 * x0 * x0 + r * (x0 * x0) + s * x0 + t = 0 ∧
      x1 * x1 * x1 + r * (x1 * x1) + s * x1 + t = 0 ∧
      x2 * x2 * x2 + r * (x2 * x2) + s * x2 + t = 0 := by
  obtain ⟨_, hw⟩ := hcsqrt
  set u := cubicU F r s t with hu
  obtain ⟨a, b⟩ := u
  set p := cubicP r s with hpdef
  set q := cubicQ r s t with hqdef
  have hDdef : cubicD r s t = p / 3 * (p / 3) * (p / 3) + q / 2 * (q / 2) := rfl
  simp only [cmul, Prod.mk.injEq] at hcube
  obtain ⟨hre, him⟩ := hcube
  -- |u|^6 = |z|^2 = -(p/3)^3
  have hn3 : (a * a + b * b) * (a * a + b * b) * (a * a + b * b) = (-(p / 3)) * (-(p / 3)) * (-(p / 3)) := by
    have : (a * a + b * b) * (a * a + b * b) * (a * a + b * b) =
        ((a * a - b * b) * a - (a * b + b * a) * b) * ((a * a - b * b) * a - (a * b + b * a) * b) +
        ((a * a - b * b) * b + (a * b + b * a) * a) * ((a * a - b * b) * b + (a * b + b * a) * a) := by ring
    rw [this, hre, him, hw, hDdef]; ring
  have hn : a * a + b * b = -(p / 3) := cube_inj _ _ hn3
  have hp3 : p / 3 ≠ 0 := by
    intro h0
    apply hnt
    refine ⟨?_, h0⟩
    have : cubicD r s t = q / 2 * (q / 2) := by rw [hDdef, h0]; ring
    have h2 := mul_self_nonneg (q / 2)
    linarith
  have hnpos : a * a + b * b ≠ 0 := by rw [hn]; exact neg_ne_zero.mpr hp3
  -- v = conj u
  have hv : sdivc (-p) (smul 3 (a, b)) = (a, -b) := by
    simp only [sdivc, smul, Prod.mk.injEq]
    have hp : -p = 3 * (a * a + b * b) := by linear_combination -3 * hn
    have hN : (a * 3 * (a * 3) + b * 3 * (b * 3) : α) ≠ 0 := by
      have : (a * 3 * (a * 3) + b * 3 * (b * 3) : α) = 9 * (a * a + b * b) := by ring
      rw [this]; exact mul_ne_zero (by norm_num) hnpos
    constructor
    · rw [hp, div_eq_iff hN]; ring
    · rw [hp, div_eq_iff hN]; ring
  have hy0 : (cadd (a, b) (a, -b)).1 = 2 * a := by simp only [cadd]; ring
  have hy1 : (cadd (cdivs (cneg (cadd (a, b) (a, -b))) 2) (cmul (cdivs (csub (a, b) (a, -b)) 2) (0, F.sqrt3))).1
      = -a - b * F.sqrt3 := by simp only [cadd, cdivs, cneg, csub, cmul]; ring
  have hy2 : (csub (cdivs (cneg (cadd (a, b) (a, -b))) 2) (cmul (cdivs (csub (a, b) (a, -b)) 2) (0, F.sqrt3))).1
      = -a + b * F.sqrt3 := by simp only [cadd, cdivs, cneg, csub, cmul]; ring
  have hpn : p = -3 * (a * a + b * b) := by linear_combination 3 * hn
  have hqa : q = -2 * (a * a * a - 3 * a * b * b) := by linear_combination 2 * hre
  have root0 : (2 * a) * (2 * a) * (2 * a) + p * (2 * a) + q = 0 := by rw [hpn, hqa]; ring
  have root1 : (-a - b * F.sqrt3) * (-a - b * F.sqrt3) * (-a - b * F.sqrt3) + p * (-a - b * F.sqrt3) + q = 0 := by
    rw [hpn, hqa]; linear_combination (-3 * a * b * b - b * b * b * F.sqrt3) * h3
  have root2 : (-a + b * F.sqrt3) * (-a + b * F.sqrt3) * (-a + b * F.sqrt3) + p * (-a + b * F.sqrt3) + q = 0 := by
    rw [hpn, hqa]; linear_combination (-3 * a * b * b + b * b * b * F.sqrt3) * h3
  have hv' : sdivc (-(cubicP r s)) (smul 3 (a, b)) = (a, -b) := hv
  have hform : cubicComplex F r s t =
      if cubicD r s t == 0 then (2, [2 * a - r / 3, -a - b * F.sqrt3 - r / 3])
      else (3, [2 * a - r / 3, -a - b * F.sqrt3 - r / 3, -a + b * F.sqrt3 - r / 3]) := by
    unfold cubicComplex
    simp only [← hu, hv', hy0, hy1, hy2]
  refine ⟨2 * a - r / 3, -a - b * F.sqrt3 - r / 3, -a + b * F.sqrt3 - r / 3, ?_, ?_, ?_, ?_, ?_⟩
  · rw [hform]
    by_cases h0 : cubicD r s t = 0
    · left; simp [h0]
    · right; simp [h0]
  · rw [hform]
    by_cases h0 : cubicD r s t = 0
    · simp [h0]
    · simp [h0]
  · have := depressed r s t (2 * a); rw [← hpdef, ← hqdef] at this; linear_combination this + root0
  · have := depressed r s t (-a - b * F.sqrt3); rw [← hpdef, ← hqdef] at this; linear_combination this + root1
  · have := depressed r s t (-a + b * F.sqrt3); rw [← hpdef, ← hqdef] at this; linear_combination this + root2
end
/-! ### root COUNTS of the cubic: D > 0 one real root, D < 0 three distinct, D = 0 ≠ p two distinct -/
section Counts
variable {α : Type} [Field α] [LinearOrder α] [IsStrictOrderedRing α]

/-- D > 0: a real root is THE real root.  (-108 D is the discriminant; modulo f (x) = 0 it factors as
f'(x)² · disc (f / (X - x)), so the quadratic cofactor has negative discriminant.) -/
theorem cubic_unique_root (r s t x y : α) (hD : 0 < cubicD r s t)
    (hx : x * x * x + r * (x * x) + s * x + t = 0) (hy : y * y * y + r * (y * y) + s * y + t = 0) : y = x := by
  by_contra hne
  have hxy : y - x ≠ 0 := sub_ne_zero.mpr hne
  have hg : y * y + (x + r) * y + (x * x + r * x + s) = 0 := by
    have : (y - x) * (y * y + (x + r) * y + (x * x + r * x + s)) = 0 := by linear_combination hy - hx
    exact (mul_eq_zero.mp this).resolve_left hxy
  have ht : t = -(x * x * x) - r * (x * x) - s * x := by linear_combination hx
  have hdisc : -108 * cubicD r s t =
      (3 * x * x + 2 * r * x + s) ^ 2 * ((x + r) ^ 2 - 4 * (x * x + r * x + s)) := by
    subst ht; unfold cubicD cubicP cubicQ; ring
  have hneg : (x + r) ^ 2 - 4 * (x * x + r * x + s) < 0 := by
    by_contra h
    have h' := not_lt.mp h
    have : 0 ≤ (3 * x * x + 2 * r * x + s) ^ 2 * ((x + r) ^ 2 - 4 * (x * x + r * x + s)) :=
      mul_nonneg (sq_nonneg _) h'
    linarith
  have hsq : (x + r) ^ 2 - 4 * (x * x + r * x + s) = (2 * y + x + r) ^ 2 := by linear_combination -4 * hg
  have := sq_nonneg (2 * y + x + r)
  linarith

/-- the shape of the D ≤ 0 arm: with u = (a, b) the complex cube root the library returned, v = -p/(3u) is its
conjugate, p = -3 |u|², q = -2 Re (u³), and the values written are 2a - r/3, -a ∓ b·sqrt3 - r/3 -/
theorem cubicComplex_form (F : CubicFns α) (r s t : α) (w : α)
    (hD : cubicD r s t ≤ 0) (hnt : ¬ (cubicD r s t = 0 ∧ cubicP r s / 3 = 0))
    (hcsqrt : F.csqrt (cubicD r s t, 0) = (0, w) ∧ w * w = -cubicD r s t)
    (hcube : cmul (cmul (cubicU F r s t) (cubicU F r s t)) (cubicU F r s t) = (-(cubicQ r s t) / 2, w)) :
    ∃ a b, cubicU F r s t = (a, b) ∧ cubicP r s = -3 * (a * a + b * b) ∧
      cubicQ r s t = -2 * (a * a * a - 3 * a * b * b) ∧ a * a + b * b ≠ 0 ∧
      cubicD r s t = -(b * b * ((3 * a * a - b * b) * (3 * a * a - b * b))) ∧
      cubicComplex F r s t =
        if cubicD r s t == 0 then (2, [2 * a - r / 3, -a - b * F.sqrt3 - r / 3])
        else (3, [2 * a - r / 3, -a - b * F.sqrt3 - r / 3, -a + b * F.sqrt3 - r / 3]) := by
  obtain ⟨_, hw⟩ := hcsqrt
  set u := cubicU F r s t with hu
  obtain ⟨a, b⟩ := u
  set p := cubicP r s with hpdef
  set q := cubicQ r s t with hqdef
  have hDdef : cubicD r s t = p / 3 * (p / 3) * (p / 3) + q / 2 * (q / 2) := rfl
  simp only [cmul, Prod.mk.injEq] at hcube
  obtain ⟨hre, him⟩ := hcube
  have hn3 : (a * a + b * b) * (a * a + b * b) * (a * a + b * b) = (-(p / 3)) * (-(p / 3)) * (-(p / 3)) := by
    have : (a * a + b * b) * (a * a + b * b) * (a * a + b * b) =
        ((a * a - b * b) * a - (a * b + b * a) * b) * ((a * a - b * b) * a - (a * b + b * a) * b) +
        ((a * a - b * b) * b + (a * b + b * a) * a) * ((a * a - b * b) * b + (a * b + b * a) * a) := by ring
    rw [this, hre, him, hw, hDdef]; ring
  have hn : a * a + b * b = -(p / 3) := cube_inj _ _ hn3
  have hp3 : p / 3 ≠ 0 := by
    intro h0
    apply hnt
    refine ⟨?_, h0⟩
    have : cubicD r s t = q / 2 * (q / 2) := by rw [hDdef, h0]; ring
    have h2 := mul_self_nonneg (q / 2)
    linarith
  have hnpos : a * a + b * b ≠ 0 := by rw [hn]; exact neg_ne_zero.mpr hp3
  have hv : sdivc (-p) (smul 3 (a, b)) = (a, -b) := by
    simp only [sdivc, smul, Prod.mk.injEq]
    have hp : -p = 3 * (a * a + b * b) := by linear_combination -3 * hn
    have hN : (a * 3 * (a * 3) + b * 3 * (b * 3) : α) ≠ 0 := by
      have : (a * 3 * (a * 3) + b * 3 * (b * 3) : α) = 9 * (a * a + b * b) := by ring
      rw [this]; exact mul_ne_zero (by norm_num) hnpos
    constructor
    · rw [hp, div_eq_iff hN]; ring
    · rw [hp, div_eq_iff hN]; ring
  have hy0 : (cadd (a, b) (a, -b)).1 = 2 * a := by simp only [cadd]; ring
  have hy1 : (cadd (cdivs (cneg (cadd (a, b) (a, -b))) 2) (cmul (cdivs (csub (a, b) (a, -b)) 2) (0, F.sqrt3))).1
      = -a - b * F.sqrt3 := by simp only [cadd, cdivs, cneg, csub, cmul]; ring
  have hy2 : (csub (cdivs (cneg (cadd (a, b) (a, -b))) 2) (cmul (cdivs (csub (a, b) (a, -b)) 2) (0, F.sqrt3))).1
      = -a + b * F.sqrt3 := by simp only [cadd, cdivs, cneg, csub, cmul]; ring
  have hpn : p = -3 * (a * a + b * b) := by linear_combination 3 * hn
  have hqa : q = -2 * (a * a * a - 3 * a * b * b) := by linear_combination 2 * hre
  have hv' : sdivc (-(cubicP r s)) (smul 3 (a, b)) = (a, -b) := hv
  refine ⟨a, b, rfl, hpn, hqa, hnpos, ?_, ?_⟩
  · rw [hDdef, hpn, hqa]; ring
  · unfold cubicComplex
    simp only [← hu, hv', hy0, hy1, hy2]

/-- D < 0: three values are written, pairwise DISTINCT, and they are ALL the real roots -/
theorem solveNormalizedCubic_three (F : CubicFns α) (r s t : α) (w : α)
    (hD : cubicD r s t < 0)
    (hcsqrt : F.csqrt (cubicD r s t, 0) = (0, w) ∧ w * w = -cubicD r s t)
    (hcube : cmul (cmul (cubicU F r s t) (cubicU F r s t)) (cubicU F r s t) = (-(cubicQ r s t) / 2, w))
    (h3 : F.sqrt3 * F.sqrt3 = 3) :
    ∃ x0 x1 x2, solveNormalizedCubic F r s t = (3, [x0, x1, x2]) ∧ x0 ≠ x1 ∧ x1 ≠ x2 ∧ x0 ≠ x2 ∧
      (∀ y, y * y * y + r * (y * y) + s * y + t = (y - x0) * (y - x1) * (y - x2)) ∧
      (∀ y, y * y * y + r * (y * y) + s * y + t = 0 ↔ y = x0 ∨ y = x1 ∨ y = x2) := by
  have hnt : ¬ (cubicD r s t = 0 ∧ cubicP r s / 3 = 0) := fun h => hD.ne h.1
  obtain ⟨a, b, hu, hp, hq, hn, hDab, hform⟩ := cubicComplex_form F r s t w hD.le hnt hcsqrt hcube
  have hb : b ≠ 0 := by
    intro hb; rw [hb] at hDab; rw [hDab] at hD; simp at hD
  have hk : 3 * a * a - b * b ≠ 0 := by
    intro hk; rw [hk] at hDab; rw [hDab] at hD; simp at hD
  have hS : F.sqrt3 ≠ 0 := by intro h; rw [h] at h3; norm_num at h3
  have hprod : (3 * a + b * F.sqrt3) * (3 * a - b * F.sqrt3) = 3 * (3 * a * a - b * b) := by
    linear_combination (-(b * b)) * h3
  have hprod0 : (3 * a + b * F.sqrt3) * (3 * a - b * F.sqrt3) ≠ 0 := by
    rw [hprod]; exact mul_ne_zero (by norm_num) hk
  have hfac : ∀ y, y * y * y + r * (y * y) + s * y + t =
      (y - (2 * a - r / 3)) * (y - (-a - b * F.sqrt3 - r / 3)) * (y - (-a + b * F.sqrt3 - r / 3)) := by
    intro y
    have hdep := depressed r s t (y + r / 3)
    rw [hp, hq] at hdep
    have e : y + r / 3 - r / 3 = y := by ring
    rw [e] at hdep
    rw [hdep]
    linear_combination ((y + r / 3 - 2 * a) * (b * b)) * h3
  refine ⟨2 * a - r / 3, -a - b * F.sqrt3 - r / 3, -a + b * F.sqrt3 - r / 3, ?_, ?_, ?_, ?_, hfac, ?_⟩
  · rw [solveNormalizedCubic_cases, if_neg (by simp [hD.ne]), if_neg (not_lt.mpr hD.le), hform]
    simp [hD.ne]
  · intro h
    apply hprod0
    have : 3 * a + b * F.sqrt3 = 0 := by linear_combination h
    rw [this, zero_mul]
  · intro h
    have : b * F.sqrt3 = 0 := by linear_combination (-1 / 2 : α) * h
    rcases mul_eq_zero.mp this with h' | h'
    · exact hb h'
    · exact hS h'
  · intro h
    apply hprod0
    have : 3 * a - b * F.sqrt3 = 0 := by linear_combination h
    rw [this, mul_zero]
  · intro y
    rw [hfac y]
    constructor
    · intro h
      rcases mul_eq_zero.mp h with h1 | h1
      · rcases mul_eq_zero.mp h1 with h2 | h2
        · left; linear_combination h2
        · right; left; linear_combination h2
      · right; right; linear_combination h1
    · rintro (h | h | h) <;> rw [h] <;> ring

/-- D = 0, p ≠ 0 (a double root and a simple one): two values are written; they are DISTINCT and ALL the real roots,
provided the library's complex cube root is the principal one (first quadrant, closed: `0 ≤ Re u`, `0 ≤ Im u`; the
other cube roots would make the code write the double root twice) and the literal `sqrt3` is positive -/
theorem solveNormalizedCubic_two (F : CubicFns α) (r s t : α) (w : α)
    (hD : cubicD r s t = 0) (hp0 : cubicP r s / 3 ≠ 0)
    (hcsqrt : F.csqrt (cubicD r s t, 0) = (0, w) ∧ w * w = -cubicD r s t)
    (hcube : cmul (cmul (cubicU F r s t) (cubicU F r s t)) (cubicU F r s t) = (-(cubicQ r s t) / 2, w))
    (h3 : F.sqrt3 * F.sqrt3 = 3) (h3pos : 0 < F.sqrt3)
    (hprinc : 0 ≤ (cubicU F r s t).1 ∧ 0 ≤ (cubicU F r s t).2) :
    ∃ x0 x1, solveNormalizedCubic F r s t = (2, [x0, x1]) ∧ x0 ≠ x1 ∧
      (∀ y, y * y * y + r * (y * y) + s * y + t = 0 ↔ y = x0 ∨ y = x1) := by
  have hnt : ¬ (cubicD r s t = 0 ∧ cubicP r s / 3 = 0) := fun h => hp0 h.2
  obtain ⟨a, b, hu, hp, hq, hn, hDab, hform⟩ := cubicComplex_form F r s t w hD.le hnt hcsqrt hcube
  rw [hu] at hprinc
  obtain ⟨ha0, hb0⟩ := hprinc
  simp only at ha0 hb0
  have hprod : (3 * a + b * F.sqrt3) * (3 * a - b * F.sqrt3) = 3 * (3 * a * a - b * b) := by
    linear_combination (-(b * b)) * h3
  have hsum : 3 * a + b * F.sqrt3 ≠ 0 := by
    intro h
    have h1 : 0 ≤ b * F.sqrt3 := mul_nonneg hb0 h3pos.le
    have ha : a = 0 := by linarith
    have hb : b * F.sqrt3 = 0 := by linarith
    have hb' : b = 0 := by
      rcases mul_eq_zero.mp hb with h' | h'
      · exact h'
      · exact absurd h' h3pos.ne'
    apply hn; rw [ha, hb']; ring
  have hzero : b * b * ((3 * a * a - b * b) * (3 * a * a - b * b)) = 0 := by
    have := hDab; rw [hD] at this; linear_combination this
  -- the third Cardano value coincides with one of the two written ones
  have hthird : -a + b * F.sqrt3 - r / 3 = -a - b * F.sqrt3 - r / 3 ∨ -a + b * F.sqrt3 - r / 3 = 2 * a - r / 3 := by
    rcases mul_eq_zero.mp hzero with hb | hk
    · left
      have : b = 0 := by rcases mul_eq_zero.mp hb with h | h <;> exact h
      rw [this]; ring
    · right
      have hk' : 3 * a * a - b * b = 0 := by rcases mul_eq_zero.mp hk with h | h <;> exact h
      have : (3 * a + b * F.sqrt3) * (3 * a - b * F.sqrt3) = 0 := by rw [hprod, hk']; ring
      have h2 : 3 * a - b * F.sqrt3 = 0 := (mul_eq_zero.mp this).resolve_left hsum
      linear_combination -h2
  have hfac : ∀ y, y * y * y + r * (y * y) + s * y + t =
      (y - (2 * a - r / 3)) * (y - (-a - b * F.sqrt3 - r / 3)) * (y - (-a + b * F.sqrt3 - r / 3)) := by
    intro y
    have hdep := depressed r s t (y + r / 3)
    rw [hp, hq] at hdep
    have e : y + r / 3 - r / 3 = y := by ring
    rw [e] at hdep
    rw [hdep]
    linear_combination ((y + r / 3 - 2 * a) * (b * b)) * h3
  refine ⟨2 * a - r / 3, -a - b * F.sqrt3 - r / 3, ?_, ?_, ?_⟩
  · rw [solveNormalizedCubic_cases, if_neg (by simp [hp0]), if_neg (by rw [hD]; exact lt_irrefl 0), hform]
    simp [hD]
  · intro h
    apply hsum
    linear_combination h
  · intro y
    rw [hfac y]
    constructor
    · intro h
      rcases mul_eq_zero.mp h with h1 | h1
      · rcases mul_eq_zero.mp h1 with h2 | h2
        · left; linear_combination h2
        · right; linear_combination h2
      · rcases hthird with h3' | h3'
        · right; rw [← h3']; linear_combination h1
        · left; rw [← h3']; linear_combination h1
    · rintro (h | h) <;> rw [h] <;> ring
/-- the D ≤ 0 arm for ANY value S of the literal `sqrt3` (no `S * S = 3`): the first value written is an exact root, the
other two have the residuals -(3a ± bS)·b²·(S² - 3); the three values always sum to -r -/
theorem cubicComplex_residuals (F : CubicFns α) (r s t : α) (w : α)
    (hD : cubicD r s t ≤ 0) (hnt : ¬ (cubicD r s t = 0 ∧ cubicP r s / 3 = 0))
    (hcsqrt : F.csqrt (cubicD r s t, 0) = (0, w) ∧ w * w = -cubicD r s t)
    (hcube : cmul (cmul (cubicU F r s t) (cubicU F r s t)) (cubicU F r s t) = (-(cubicQ r s t) / 2, w)) :
    ∃ a b x0 x1 x2, cubicU F r s t = (a, b) ∧
      x0 = 2 * a - r / 3 ∧ x1 = -a - b * F.sqrt3 - r / 3 ∧ x2 = -a + b * F.sqrt3 - r / 3 ∧
      cubicComplex F r s t = (if cubicD r s t == 0 then (2, [x0, x1]) else (3, [x0, x1, x2])) ∧
      x0 * x0 * x0 + r * (x0 * x0) + s * x0 + t = 0 ∧
      x1 * x1 * x1 + r * (x1 * x1) + s * x1 + t = -((3 * a + b * F.sqrt3) * (b * b) * (F.sqrt3 * F.sqrt3 - 3)) ∧
      x2 * x2 * x2 + r * (x2 * x2) + s * x2 + t = -((3 * a - b * F.sqrt3) * (b * b) * (F.sqrt3 * F.sqrt3 - 3)) ∧
      x0 + x1 + x2 = -r ∧ x0 - x1 = 3 * a + b * F.sqrt3 ∧ x0 - x2 = 3 * a - b * F.sqrt3 ∧
      x1 - x2 = -(2 * b * F.sqrt3) ∧
      cubicD r s t = -(b * b * ((3 * a * a - b * b) * (3 * a * a - b * b))) := by
  obtain ⟨a, b, hu, hp, hq, hn, hDab, hform⟩ := cubicComplex_form F r s t w hD hnt hcsqrt hcube
  refine ⟨a, b, 2 * a - r / 3, -a - b * F.sqrt3 - r / 3, -a + b * F.sqrt3 - r / 3, hu, rfl, rfl, rfl, hform,
    ?_, ?_, ?_, by ring, by ring, by ring, by ring, hDab⟩
  · have := depressed r s t (2 * a); rw [hp, hq] at this; linear_combination this
  · have := depressed r s t (-a - b * F.sqrt3); rw [hp, hq] at this; linear_combination this
  · have := depressed r s t (-a + b * F.sqrt3); rw [hp, hq] at this; linear_combination this
end Counts

/-! ### vocabulary of the T-route tie (Props/C17.lean `gen_solve…`; also imported by the check's failing-input search) -/
section Link
variable {α : Type} [Field α]
/-- the C++ solvers write their roots into `x[0..2]`, which the extraction entry initialises with 0 and returns whole:
`(count, x[0], x[1], x[2])` of a hand-model result `(count, slots written)` -/
def slots1 (r : Int × List α) : Int × α := (r.1, r.2.getD 0 0)
def slots2 (r : Int × List α) : Int × α × α := (r.1, r.2.getD 0 0, r.2.getD 1 0)
def slots3 (r : Int × List α) : Int × α × α × α := (r.1, r.2.getD 0 0, r.2.getD 1 0, r.2.getD 2 0)

/-- the library functions that are parameters of the extracted solvers, in the hand model's vocabulary; `sqrt3` is the
literal `T (1.73205080756887729352744634150587)` of the source as a binary fraction -/
def genF (sqrt : α → α) (pow copysign : α → α → α) (cpow : α → α → α → α × α) (csqrt : α → α → α × α) : CubicFns α :=
  ⟨sqrt, copysign 1, pow, fun z => csqrt z.1 z.2, fun z y => cpow z.1 z.2 y, (3900231685776981 : α) / 2251799813685248⟩
end Link
end ImathVerif.Roots
