import ImathVerif.Lemmas.RayBoxLemmas
/-!
# Lemmas for C14: where the reported points lie, WITHOUT guard hypotheses

Every assignment of `ip` / `entry` / `exit` in the code has the shape
`(face, clamp …, clamp …)` (in the slot order of the axis), so an assigned point is
in the closed box and on one of its faces no matter which guard passed or which
`TMAX` substitution happened.  What remains is to show *that an assignment happened*:

* `intersects`, origin outside, result `true`: some axis has the origin outside its
  slab; that axis' front block runs with a parameter `≥ 0 > -1 = tFrontMax₀`, so
  `tFrontMax` left its initial value, and it can only leave it by an assignment
  (`is_run_pts`).
* `findEntryAndExitPoints`: NOT always — `feAxis_fail`: a block whose guard fails and
  whose origin coordinate is inside the slab changes nothing; if that happens on all
  three axes the function returns `true` and the out-parameters are never written
  (`fe_unwritten`).
-/
set_option linter.unusedSectionVars false
namespace ImathVerif.RayBox
variable {α : Type} [Field α] [LinearOrder α] [IsStrictOrderedRing α]

theorem clamp_bounds {a l h : α} (hlh : l ≤ h) : l ≤ clamp a l h ∧ clamp a l h ≤ h := by
  unfold clamp
  split_ifs with h1 h2
  · exact ⟨le_refl _, hlh⟩
  · exact ⟨hlh, le_refl _⟩
  · exact ⟨not_lt.mp h1, not_lt.mp h2⟩

/-- In the closed box and on one of its faces. -/
def Good (q : V3 α) (b : Box3 α) : Prop := mem q b ∧ onSurface q b

theorem face_bounds {f lo hi : α} (hlh : lo ≤ hi) (hf : f = lo ∨ f = hi) : lo ≤ f ∧ f ≤ hi := by
  rcases hf with h | h <;> rw [h]
  · exact ⟨le_refl _, hlh⟩
  · exact ⟨hlh, le_refl _⟩

theorem mkX_good {r : Line3 α} {b : Box3 α} (hne : ¬ b.Empty) (t : α) {f : α}
    (hf : f = b.min.x ∨ f = b.max.x) : Good (mkX r b t f) b := by
  obtain ⟨hx, hy, hz⟩ := (not_empty_iff b).mp hne
  refine ⟨⟨face_bounds hx hf, clamp_bounds hy, clamp_bounds hz⟩, ?_⟩
  rcases hf with h | h
  · exact Or.inl h
  · exact Or.inr (Or.inl h)

theorem mkY_good {r : Line3 α} {b : Box3 α} (hne : ¬ b.Empty) (t : α) {f : α}
    (hf : f = b.min.y ∨ f = b.max.y) : Good (mkY r b t f) b := by
  obtain ⟨hx, hy, hz⟩ := (not_empty_iff b).mp hne
  refine ⟨⟨clamp_bounds hx, face_bounds hy hf, clamp_bounds hz⟩, ?_⟩
  rcases hf with h | h
  · exact Or.inr (Or.inr (Or.inl h))
  · exact Or.inr (Or.inr (Or.inr (Or.inl h)))

theorem mkZ_good {r : Line3 α} {b : Box3 α} (hne : ¬ b.Empty) (t : α) {f : α}
    (hf : f = b.min.z ∨ f = b.max.z) : Good (mkZ r b t f) b := by
  obtain ⟨hx, hy, hz⟩ := (not_empty_iff b).mp hne
  refine ⟨⟨clamp_bounds hx, clamp_bounds hy, face_bounds hz hf⟩, ?_⟩
  rcases hf with h | h
  · exact Or.inr (Or.inr (Or.inr (Or.inr (Or.inl h))))
  · exact Or.inr (Or.inr (Or.inr (Or.inr (Or.inr h))))

theorem clampPt_mem {r : Line3 α} {b : Box3 α} (hne : ¬ b.Empty) (t : α) : mem (clampPt r b t) b := by
  obtain ⟨hx, hy, hz⟩ := (not_empty_iff b).mp hne
  exact ⟨clamp_bounds hx, clamp_bounds hy, clamp_bounds hz⟩

/-! ## intersects: one block, what happens to `tFrontMax` and `ip` (no guard hypothesis) -/

theorem isAxis_pts {T p d lo hi : α} (mk : α → α → V3 α) (s : ISState α) (hT : 0 ≤ T) :
    match isAxis T p d lo hi mk s with
    | none => True
    | some s' =>
        ((s'.tFrontMax = s.tFrontMax ∧ s'.ip = s.ip) ∨
          ∃ f, (f = lo ∨ f = hi) ∧ s'.ip = mk s'.tFrontMax f) ∧
        s.tFrontMax ≤ s'.tFrontMax ∧ ((p < lo ∨ hi < p) → 0 ≤ s'.tFrontMax) := by
  rcases lt_trichotomy d 0 with hd | hd | hd
  · -- d < 0
    by_cases ho : p < lo
    · have : isAxis T p d lo hi mk s = none := by
        unfold isAxis; rw [if_neg (not_lt.mpr (le_of_lt hd)), if_pos hd, if_pos ho]
      rw [this]; trivial
    · have hlo : lo ≤ p := not_lt.mp ho
      rw [isAxis_neg mk s hd hlo]
      obtain ⟨b1, b2, _, _, _⟩ := bUpd_spec s (d < -1 ∨ lo - p > T * d) ((lo - p) / d)
      obtain ⟨_, f2, f3⟩ := fUpd_spec (bUpd s (d < -1 ∨ lo - p > T * d) ((lo - p) / d)) (p ≥ hi)
        (if d < -1 ∨ hi - p > T * d then (hi - p) / d else T)
        (mk (if d < -1 ∨ hi - p > T * d then (hi - p) / d else T) hi)
      dsimp only
      have hmono := (f2 _).mp (le_refl _)
      refine ⟨?_, by rw [← b1]; exact hmono.1, ?_⟩
      · rcases f3 with ⟨h1, h2⟩ | ⟨_, h1, h2⟩
        · exact Or.inl ⟨by rw [h1, b1], by rw [h2, b2]⟩
        · exact Or.inr ⟨hi, Or.inr rfl, by rw [h2, h1]⟩
      · rintro (h | h)
        · exact absurd h ho
        · have ht : 0 ≤ (if d < -1 ∨ hi - p > T * d then (hi - p) / d else T) := by
            split_ifs
            · exact div_nonneg_of_nonpos (by linarith) (le_of_lt hd)
            · exact hT
          exact le_trans ht (hmono.2 (le_of_lt h))
  · -- d = 0
    subst hd
    unfold isAxis
    rw [if_neg (lt_irrefl _), if_neg (lt_irrefl _)]
    by_cases ho : p < lo ∨ p > hi
    · rw [if_pos ho]; trivial
    · rw [if_neg ho]
      exact ⟨Or.inl ⟨rfl, rfl⟩, le_refl _, fun h => absurd h ho⟩
  · -- 0 < d
    by_cases ho : p > hi
    · have : isAxis T p d lo hi mk s = none := by
        unfold isAxis; rw [if_pos hd, if_pos ho]
      rw [this]; trivial
    · have hhi : p ≤ hi := not_lt.mp ho
      rw [isAxis_pos mk s hd hhi]
      obtain ⟨b1, b2, _, _, _⟩ := bUpd_spec s (d > 1 ∨ hi - p < T * d) ((hi - p) / d)
      obtain ⟨_, f2, f3⟩ := fUpd_spec (bUpd s (d > 1 ∨ hi - p < T * d) ((hi - p) / d)) (p ≤ lo)
        (if d > 1 ∨ lo - p < T * d then (lo - p) / d else T)
        (mk (if d > 1 ∨ lo - p < T * d then (lo - p) / d else T) lo)
      dsimp only
      have hmono := (f2 _).mp (le_refl _)
      refine ⟨?_, by rw [← b1]; exact hmono.1, ?_⟩
      · rcases f3 with ⟨h1, h2⟩ | ⟨_, h1, h2⟩
        · exact Or.inl ⟨by rw [h1, b1], by rw [h2, b2]⟩
        · exact Or.inr ⟨lo, Or.inl rfl, by rw [h2, h1]⟩
      · rintro (h | h)
        · have ht : 0 ≤ (if d > 1 ∨ lo - p < T * d then (lo - p) / d else T) := by
            split_ifs
            · exact div_nonneg (by linarith) (le_of_lt hd)
            · exact hT
          exact le_trans ht (hmono.2 (le_of_lt h))
        · exact absurd h ho

/-- Running invariant for `ip`: still untouched, or in the box and on a face. -/
def IpInv (b : Box3 α) (s : ISState α) : Prop := s.tFrontMax = -1 ∨ Good s.ip b

theorem ipInv_step {b : Box3 α} {lo hi : α} {mk : α → α → V3 α} {s s' : ISState α}
    (hmk : ∀ t f, (f = lo ∨ f = hi) → Good (mk t f) b)
    (hu : (s'.tFrontMax = s.tFrontMax ∧ s'.ip = s.ip) ∨ ∃ f, (f = lo ∨ f = hi) ∧ s'.ip = mk s'.tFrontMax f)
    (h : IpInv b s) : IpInv b s' := by
  rcases hu with ⟨h1, h2⟩ | ⟨f, hf, hq⟩
  · rcases h with h | h
    · exact Or.inl (by rw [h1, h])
    · exact Or.inr (by rw [h2]; exact h)
  · exact Or.inr (by rw [hq]; exact hmk _ f hf)

/-- `intersects`, origin outside the box, result `true`: `ip` was assigned, hence lies
in the box and on a face — whatever the guards did. -/
theorem is_run_pts {T : α} {r : Line3 α} {b : Box3 α} (hne : ¬ b.Empty) (hT : 0 ≤ T) (s0 : ISState α)
    (hF : s0.tFrontMax = -1) (hout : ¬ mem r.pos b) (h : (isRun T r b s0).1 = true) :
    Good (isRun T r b s0).2 b := by
  have stepx := isAxis_pts (T := T) (p := r.pos.x) (d := r.dir.x) (lo := b.min.x) (hi := b.max.x) (mkX r b) s0 hT
  unfold isRun at h ⊢
  cases h1 : isAxis T r.pos.x r.dir.x b.min.x b.max.x (mkX r b) s0 with
  | none => rw [h1] at h; exact absurd h (by simp)
  | some s1 =>
    rw [h1] at stepx h
    dsimp only at stepx h ⊢
    obtain ⟨ux, mx, ox⟩ := stepx
    have stepy := isAxis_pts (T := T) (p := r.pos.y) (d := r.dir.y) (lo := b.min.y) (hi := b.max.y) (mkY r b) s1 hT
    cases h2 : isAxis T r.pos.y r.dir.y b.min.y b.max.y (mkY r b) s1 with
    | none => rw [h2] at h; exact absurd h (by simp)
    | some s2 =>
      rw [h2] at stepy h
      dsimp only at stepy h ⊢
      obtain ⟨uy, my, oy⟩ := stepy
      have stepz := isAxis_pts (T := T) (p := r.pos.z) (d := r.dir.z) (lo := b.min.z) (hi := b.max.z) (mkZ r b) s2 hT
      cases h3 : isAxis T r.pos.z r.dir.z b.min.z b.max.z (mkZ r b) s2 with
      | none => rw [h3] at h; exact absurd h (by simp)
      | some s3 =>
        rw [h3] at stepz
        dsimp only at stepz ⊢
        obtain ⟨uz, mz, oz⟩ := stepz
        have i0 : IpInv b s0 := Or.inl hF
        have i1 := ipInv_step (fun t f hf => mkX_good (r := r) hne t hf) ux i0
        have i2 := ipInv_step (fun t f hf => mkY_good (r := r) hne t hf) uy i1
        have i3 := ipInv_step (fun t f hf => mkZ_good (r := r) hne t hf) uz i2
        have h0 : 0 ≤ s3.tFrontMax := by
          by_contra hc
          apply hout
          have nx : ¬ (r.pos.x < b.min.x ∨ b.max.x < r.pos.x) := fun hh =>
            hc (le_trans (le_trans (ox hh) my) mz)
          have ny : ¬ (r.pos.y < b.min.y ∨ b.max.y < r.pos.y) := fun hh => hc (le_trans (oy hh) mz)
          have nz : ¬ (r.pos.z < b.min.z ∨ b.max.z < r.pos.z) := fun hh => hc (oz hh)
          rw [not_or, not_lt, not_lt] at nx ny nz
          exact ⟨nx, ny, nz⟩
        rcases i3 with hh | hh
        · rw [hh] at h0; exact absurd h0 (by norm_num)
        · exact hh

/-! ## findEntryAndExitPoints: the block that does nothing -/

/-- A block whose guard fails (this includes `d = 0`) with the origin coordinate inside the
slab leaves the state unchanged. -/
theorem feAxis_fail {T p d lo hi : α} (mk : α → α → V3 α) (s : FEState α)
    (hcg : ¬ CodeGuard T p d lo hi) (h1 : lo ≤ p) (h2 : p ≤ hi) : feAxis T p d lo hi mk s = some s := by
  have ho : ¬ (p < lo ∨ p > hi) := by
    rintro (h | h)
    · exact absurd h (not_lt.mpr h1)
    · exact absurd h (not_lt.mpr h2)
  unfold feAxis
  by_cases hd : d ≥ 0
  · rw [if_pos hd]
    dsimp only
    rw [if_neg (fun h => hcg ((feGuard_nonneg hd).mp h)), if_neg ho]
  · rw [if_neg hd]
    dsimp only
    rw [if_neg (fun h => hcg ((feGuard_neg (not_le.mp hd)).mp h)), if_neg ho]

/-- All three blocks do nothing: `true` is returned and `entry`, `exit` are never written. -/
theorem fe_unwritten {T : α} {r : Line3 α} {b : Box3 α} (hne : ¬ b.Empty) (hT : 0 ≤ T)
    (hx : ¬ CodeGuard T r.pos.x r.dir.x b.min.x b.max.x)
    (hy : ¬ CodeGuard T r.pos.y r.dir.y b.min.y b.max.y)
    (hz : ¬ CodeGuard T r.pos.z r.dir.z b.min.z b.max.z)
    (hin : mem r.pos b) (e x : V3 α) : findEntryAndExitPoints T r b e x = (true, e, x) := by
  obtain ⟨⟨x1, x2⟩, ⟨y1, y2⟩, z1, z2⟩ := hin
  rw [fe_eq_run hne]
  unfold feRun
  rw [feAxis_fail _ _ hx x1 x2]
  dsimp only
  rw [feAxis_fail _ _ hy y1 y2]
  dsimp only
  rw [feAxis_fail _ _ hz z1 z2]
  dsimp only
  rw [decide_eq_true (by linarith : -T ≤ T)]

end ImathVerif.RayBox
