import ImathVerif.Lemmas.C09Lemmas
/-!
Helper lemmas for C09, second part: computeLocalFrame, firstFrame / nextFrame / lastFrame,
rotationMatrixWithUpDir, rotationMatrix.
-/
set_option linter.unusedSectionVars false
set_option linter.unreachableTactic false
set_option linter.unusedTactic false
set_option linter.unusedVariables false
namespace ImathVerif.C09
open ImathVerif Matrix

section More
variable {α : Type} [Field α] [LinearOrder α] [IsStrictOrderedRing α]

/-- `Vec3::normalize()` (in place): unchanged when the length is zero -/
def nrmIP (len : V3 α → α) (v : V3 α) : V3 α := if len v = 0 then v else ⟨v.x / len v, v.y / len v, v.z / len v⟩

theorem nrmIP_eq_nrm {len : V3 α → α} (hlen : LenSpec len) (v : V3 α) : nrmIP len v = nrm len v := by
  unfold nrmIP nrm
  split_ifs with h
  · exact (len_eq_zero_iff hlen v).mp h
  · rfl

theorem smul_ne_zero' {k : α} {v : V3 α} (hk : k ≠ 0) (hv : v ≠ ⟨0, 0, 0⟩) : smul k v ≠ ⟨0, 0, 0⟩ := by
  obtain ⟨x, y, z⟩ := v
  simp only [smul, ne_eq, V3.mk.injEq, mul_eq_zero, hk, false_or] at hv ⊢
  exact hv
theorem cross_smul_right (k : α) (a b : V3 α) : cross a (smul k b) = smul k (cross a b) := by
  simp only [cross, smul, V3.mk.injEq]; refine ⟨?_, ?_, ?_⟩ <;> ring
theorem cross_smul_left (k : α) (a b : V3 α) : cross (smul k a) b = smul k (cross a b) := by
  simp only [cross, smul, V3.mk.injEq]; refine ⟨?_, ?_, ?_⟩ <;> ring
theorem dot_smul_right (k : α) (a b : V3 α) : dot a (smul k b) = k * dot a b := by
  simp only [dot, smul]; ring
theorem dot_smul_left (k : α) (a b : V3 α) : dot (smul k a) b = k * dot a b := by
  simp only [dot, smul]; ring
theorem smul_smul' (k m : α) (a : V3 α) : smul k (smul m a) = smul (k * m) a := by
  simp only [smul, V3.mk.injEq]; refine ⟨?_, ?_, ?_⟩ <;> ring
theorem one_smul' (a : V3 α) : smul 1 a = a := by
  obtain ⟨x, y, z⟩ := a; simp [smul]

theorem len_pos {len : V3 α → α} (hlen : LenSpec len) {v : V3 α} (h : v ≠ ⟨0, 0, 0⟩) : 0 < len v :=
  lt_of_le_of_ne (hlen v).2 (Ne.symm (len_ne_zero hlen h))

/-- length is positively homogeneous -/
theorem len_smul {len : V3 α → α} (hlen : LenSpec len) {k : α} (hk : 0 ≤ k) (v : V3 α) : len (smul k v) = k * len v := by
  apply eq_of_sq_eq (hlen _).2 (mul_nonneg hk (hlen _).2)
  rw [len_sq hlen, dot_smul_smul]
  have := len_sq hlen v
  linear_combination (-(k * k)) * this

/-- normalising a positive multiple gives the same unit vector -/
theorem nrm_smul_pos {len : V3 α → α} (hlen : LenSpec len) {k : α} (hk : 0 < k) {v : V3 α} (hv : v ≠ ⟨0, 0, 0⟩) :
    nrm len (smul k v) = nrm len v := by
  have h1 := len_ne_zero hlen hv
  have h2 : len (smul k v) ≠ 0 := len_ne_zero hlen (smul_ne_zero' hk.ne' hv)
  rw [nrm_eq_smul h2, nrm_eq_smul h1, len_smul hlen hk.le, smul_smul']
  congr 1
  field_simp

/-- a unit vector is its own normalisation -/
theorem nrm_of_unit {len : V3 α → α} (hlen : LenSpec len) {v : V3 α} (h : dot v v = 1) : nrm len v = v := by
  have h1 := len_eq_one hlen h
  rw [nrm_eq_smul (by rw [h1]; exact one_ne_zero), h1, inv_one, one_smul']

/-! ### computeLocalFrame -/

def computeLocalFrameSpec (len : V3 α → α) (p xDir normal : V3 α) : M44 α :=
  let x := nrmIP len xDir
  let y := nrmIP len (cross normal x)
  let z := nrmIP len (cross x y)
  frameM44 x y z p

theorem computeLocalFrame_eq_spec (tmin : α) (sqrt : α → α) (p xDir normal : V3 α) :
    Gen.Frame.computeLocalFrame tmin sqrt p xDir normal = computeLocalFrameSpec (Gen.V3.length tmin sqrt) p xDir normal := by
  obtain ⟨px, py, pz⟩ := p
  obtain ⟨xx, xy, xz⟩ := xDir
  obtain ⟨nx, ny, nz⟩ := normal
  simp only [Gen.Frame.computeLocalFrame, computeLocalFrameSpec, nrmIP, cross, frameM44]
  generalize Gen.V3.length tmin sqrt = len
  split_ifs <;> first | rfl | simp_all

/-- `xDir ≠ 0`, `normal ∦ xDir`: orthonormal right-handed frame at `p`, x-axis along `xDir`, y-axis ⟂ `normal`;
and the z-axis is along `normal` when `normal ⟂ xDir` (documented) -/
theorem computeLocalFrameSpec_frame {len : V3 α → α} (hlen : LenSpec len) (p : V3 α) {xDir normal : V3 α}
    (hx : xDir ≠ ⟨0, 0, 0⟩) (hn : cross normal xDir ≠ ⟨0, 0, 0⟩) :
    IsFrame (computeLocalFrameSpec len p xDir normal) ∧ row3 (computeLocalFrameSpec len p xDir normal) = p ∧
      row0 (computeLocalFrameSpec len p xDir normal) = nrm len xDir ∧
      row1 (computeLocalFrameSpec len p xDir normal) = nrm len (cross normal xDir) ∧
      row2 (computeLocalFrameSpec len p xDir normal) = cross (nrm len xDir) (nrm len (cross normal xDir)) ∧
      (dot xDir normal = 0 → row2 (computeLocalFrameSpec len p xDir normal) = nrm len normal) := by
  have hlx := len_ne_zero hlen hx
  have hpx := len_pos hlen hx
  have hux := nrm_unit hlen hlx
  -- w = normal × x̂ is a positive multiple of normal × xDir
  have hw : cross normal (nrm len xDir) = smul (len xDir)⁻¹ (cross normal xDir) := by
    rw [nrm_eq_smul hlx, cross_smul_right]
  have hy : nrm len (cross normal (nrm len xDir)) = nrm len (cross normal xDir) := by
    rw [hw]; exact nrm_smul_pos hlen (inv_pos.mpr hpx) hn
  have hln := len_ne_zero hlen hn
  have huy := nrm_unit hlen hln
  have hxy : dot (nrm len xDir) (nrm len (cross normal xDir)) = 0 := by
    rw [nrm_eq_smul hlx, nrm_eq_smul hln, dot_smul_smul, dot_right_cross, mul_zero]
  have hv : dot (cross (nrm len xDir) (nrm len (cross normal xDir))) (cross (nrm len xDir) (nrm len (cross normal xDir))) = 1 := by
    rw [lagrange, hux, huy, hxy]; ring
  have hz : nrm len (cross (nrm len xDir) (nrm len (cross normal xDir))) = cross (nrm len xDir) (nrm len (cross normal xDir)) :=
    nrm_of_unit hlen hv
  have e : computeLocalFrameSpec len p xDir normal =
      frameM44 (nrm len xDir) (nrm len (cross normal xDir)) (cross (nrm len xDir) (nrm len (cross normal xDir))) p := by
    simp only [computeLocalFrameSpec, nrmIP_eq_nrm hlen, hy, hz]
  rw [e]
  refine ⟨⟨?_, isAffine_frameM44 _ _ _ _⟩, rfl, rfl, rfl, rfl, ?_⟩
  · rw [rot3_frameM44]; exact isRot_rows3 hux huy hxy rfl
  · intro hperp
    show cross (nrm len xDir) (nrm len (cross normal xDir)) = nrm len normal
    have hn0 : normal ≠ ⟨0, 0, 0⟩ := by rintro rfl; exact hn (cross_zero_left _)
    have hlnn := len_ne_zero hlen hn0
    have hlc : len (cross normal xDir) = len normal * len xDir := len_cross_perp hlen hperp
    rw [nrm_eq_smul hlx, nrm_eq_smul hln, nrm_eq_smul hlnn, cross_smul_smul, hlc]
    have hcc : cross xDir (cross normal xDir) = vsub (smul (dot xDir xDir) normal) (smul (dot xDir normal) xDir) :=
      cross_cross_self normal xDir
    rw [hcc, hperp, ← len_sq hlen xDir]
    apply V3.ext' <;> simp only [smul, vsub] <;> field_simp <;> ring

end More
end ImathVerif.C09
