import ImathVerif.Lemmas.C09Lemmas
/-!
Helper lemmas for C09, second part: computeLocalFrame, firstFrame / nextFrame / lastFrame,
rotationMatrixWithUpDir, rotationMatrix.
-/
set_option linter.unusedSectionVars false
set_option linter.unreachableTactic false
set_option linter.unusedTactic false
set_option linter.unusedVariables false
namespace ImathVerif.C09
open ImathVerif Matrix

section More
variable {α : Type} [Field α] [LinearOrder α] [IsStrictOrderedRing α]

theorem nrmIP_eq_nrm {len : V3 α → α} (hlen : LenSpec len) (v : V3 α) : nrmIP len v = nrm len v := by
  unfold nrmIP nrm
  split_ifs with h
  · exact (len_eq_zero_iff hlen v).mp h
  · rfl

theorem smul_ne_zero' {k : α} {v : V3 α} (hk : k ≠ 0) (hv : v ≠ ⟨0, 0, 0⟩) : smul k v ≠ ⟨0, 0, 0⟩ := by
  obtain ⟨x, y, z⟩ := v
  simp only [smul, ne_eq, V3.mk.injEq, mul_eq_zero, hk, false_or] at hv ⊢
  exact hv
theorem cross_smul_right (k : α) (a b : V3 α) : cross a (smul k b) = smul k (cross a b) := by
  simp only [cross, smul, V3.mk.injEq]; refine ⟨?_, ?_, ?_⟩ <;> ring
theorem cross_smul_left (k : α) (a b : V3 α) : cross (smul k a) b = smul k (cross a b) := by
  simp only [cross, smul, V3.mk.injEq]; refine ⟨?_, ?_, ?_⟩ <;> ring
theorem dot_smul_right (k : α) (a b : V3 α) : dot a (smul k b) = k * dot a b := by
  simp only [dot, smul]; ring
theorem dot_smul_left (k : α) (a b : V3 α) : dot (smul k a) b = k * dot a b := by
  simp only [dot, smul]; ring
theorem smul_smul' (k m : α) (a : V3 α) : smul k (smul m a) = smul (k * m) a := by
  simp only [smul, V3.mk.injEq]; refine ⟨?_, ?_, ?_⟩ <;> ring
theorem one_smul' (a : V3 α) : smul 1 a = a := by
  obtain ⟨x, y, z⟩ := a; simp [smul]

theorem len_pos {len : V3 α → α} (hlen : LenSpec len) {v : V3 α} (h : v ≠ ⟨0, 0, 0⟩) : 0 < len v :=
  lt_of_le_of_ne (hlen v).2 (Ne.symm (len_ne_zero hlen h))

/-- length is positively homogeneous -/
theorem len_smul {len : V3 α → α} (hlen : LenSpec len) {k : α} (hk : 0 ≤ k) (v : V3 α) : len (smul k v) = k * len v := by
  apply eq_of_sq_eq (hlen _).2 (mul_nonneg hk (hlen _).2)
  rw [len_sq hlen, dot_smul_smul]
  have := len_sq hlen v
  linear_combination (-(k * k)) * this

/-- normalising a positive multiple gives the same unit vector -/
theorem nrm_smul_pos {len : V3 α → α} (hlen : LenSpec len) {k : α} (hk : 0 < k) {v : V3 α} (hv : v ≠ ⟨0, 0, 0⟩) :
    nrm len (smul k v) = nrm len v := by
  have h1 := len_ne_zero hlen hv
  have h2 : len (smul k v) ≠ 0 := len_ne_zero hlen (smul_ne_zero' hk.ne' hv)
  rw [nrm_eq_smul h2, nrm_eq_smul h1, len_smul hlen hk.le, smul_smul']
  congr 1
  field_simp

/-- a unit vector is its own normalisation -/
theorem nrm_of_unit {len : V3 α → α} (hlen : LenSpec len) {v : V3 α} (h : dot v v = 1) : nrm len v = v := by
  have h1 := len_eq_one hlen h
  rw [nrm_eq_smul (by rw [h1]; exact one_ne_zero), h1, inv_one, one_smul']

/-! ### computeLocalFrame -/

/-- `xDir ≠ 0`, `normal ∦ xDir`: orthonormal right-handed frame at `p`, x-axis along `xDir`, y-axis ⟂ `normal`;
and the z-axis is along `normal` when `normal ⟂ xDir` (documented) -/
theorem computeLocalFrameSpec_frame {len : V3 α → α} (hlen : LenSpec len) (p : V3 α) {xDir normal : V3 α}
    (hx : xDir ≠ ⟨0, 0, 0⟩) (hn : cross normal xDir ≠ ⟨0, 0, 0⟩) :
    IsFrame (computeLocalFrameSpec len p xDir normal) ∧ row3 (computeLocalFrameSpec len p xDir normal) = p ∧
      row0 (computeLocalFrameSpec len p xDir normal) = nrm len xDir ∧
      row1 (computeLocalFrameSpec len p xDir normal) = nrm len (cross normal xDir) ∧
      row2 (computeLocalFrameSpec len p xDir normal) = cross (nrm len xDir) (nrm len (cross normal xDir)) ∧
      (dot xDir normal = 0 → row2 (computeLocalFrameSpec len p xDir normal) = nrm len normal) := by
  have hlx := len_ne_zero hlen hx
  have hpx := len_pos hlen hx
  have hux := nrm_unit hlen hlx
  -- w = normal × x̂ is a positive multiple of normal × xDir
  have hw : cross normal (nrm len xDir) = smul (len xDir)⁻¹ (cross normal xDir) := by
    rw [nrm_eq_smul hlx, cross_smul_right]
  have hy : nrm len (cross normal (nrm len xDir)) = nrm len (cross normal xDir) := by
    rw [hw]; exact nrm_smul_pos hlen (inv_pos.mpr hpx) hn
  have hln := len_ne_zero hlen hn
  have huy := nrm_unit hlen hln
  have hxy : dot (nrm len xDir) (nrm len (cross normal xDir)) = 0 := by
    rw [nrm_eq_smul hlx, nrm_eq_smul hln, dot_smul_smul, dot_right_cross, mul_zero]
  have hv : dot (cross (nrm len xDir) (nrm len (cross normal xDir))) (cross (nrm len xDir) (nrm len (cross normal xDir))) = 1 := by
    rw [lagrange, hux, huy, hxy]; ring
  have hz : nrm len (cross (nrm len xDir) (nrm len (cross normal xDir))) = cross (nrm len xDir) (nrm len (cross normal xDir)) :=
    nrm_of_unit hlen hv
  have e : computeLocalFrameSpec len p xDir normal =
      frameM44 (nrm len xDir) (nrm len (cross normal xDir)) (cross (nrm len xDir) (nrm len (cross normal xDir))) p := by
    simp only [computeLocalFrameSpec, nrmIP_eq_nrm hlen, hy, hz]
  rw [e]
  refine ⟨⟨?_, isAffine_frameM44 _ _ _ _⟩, rfl, rfl, rfl, rfl, ?_⟩
  · rw [rot3_frameM44]; exact isRot_rows3 hux huy hxy rfl
  · intro hperp
    show cross (nrm len xDir) (nrm len (cross normal xDir)) = nrm len normal
    have hn0 : normal ≠ ⟨0, 0, 0⟩ := by rintro rfl; exact hn (cross_zero_left _)
    have hlnn := len_ne_zero hlen hn0
    have hlc : len (cross normal xDir) = len normal * len xDir := len_cross_perp hlen hperp
    rw [nrm_eq_smul hlx, nrm_eq_smul hln, nrm_eq_smul hlnn, cross_smul_smul, hlc]
    have hcc : cross xDir (cross normal xDir) = vsub (smul (dot xDir xDir) normal) (smul (dot xDir normal) xDir) :=
      cross_cross_self normal xDir
    rw [hcc, hperp, ← len_sq hlen xDir]
    apply V3.ext' <;> simp only [smul, vsub] <;> field_simp <;> ring

/-! ### firstFrame -/

theorem sabs_eq_abs (x : α) : sabs x = |x| := by
  unfold sabs
  split_ifs with h
  · rw [abs_of_pos h]
  · rw [abs_of_nonpos (not_lt.mp h)]

/-- frame with unit tangent `t`, unit normal `n ⟂ t`, binormal `t × n` -/
theorem isRot_tnb {t n : V3 α} (ht : dot t t = 1) (hn : dot n n = 1) (htn : dot t n = 0) :
    IsRot (rows3 t n (cross t n)) := isRot_rows3 ht hn htn rfl

/-- non-collinear points: tangent along `pj − pi`, normal ⟂ tangent in the plane normal direction `t × (pk − pi)`,
binormal `t × n`, origin `pi` -/
theorem firstFrameSpec_main {len : V3 α → α} (hlen : LenSpec len) {pi pj pk : V3 α}
    (hd : vsub pj pi ≠ ⟨0, 0, 0⟩) (hc : cross (vsub pj pi) (vsub pk pi) ≠ ⟨0, 0, 0⟩) :
    ∃ M, firstFrameSpec len pi pj pk = .ok M ∧ IsFrame M ∧ row3 M = pi ∧ row0 M = nrm len (vsub pj pi) ∧
      row1 M = nrm len (cross (vsub pj pi) (vsub pk pi)) ∧ row2 M = cross (row0 M) (row1 M) := by
  have hld := len_ne_zero hlen hd
  have hpd := len_pos hlen hd
  have ht : (⟨(vsub pj pi).x / len (vsub pj pi), (vsub pj pi).y / len (vsub pj pi), (vsub pj pi).z / len (vsub pj pi)⟩ : V3 α)
      = nrm len (vsub pj pi) := (nrm_of_ne hld).symm
  have hut := nrm_unit hlen hld
  have hw : cross (nrm len (vsub pj pi)) (vsub pk pi) = smul (len (vsub pj pi))⁻¹ (cross (vsub pj pi) (vsub pk pi)) := by
    rw [nrm_eq_smul hld, cross_smul_left]
  have hn : nrm len (cross (nrm len (vsub pj pi)) (vsub pk pi)) = nrm len (cross (vsub pj pi) (vsub pk pi)) := by
    rw [hw]; exact nrm_smul_pos hlen (inv_pos.mpr hpd) hc
  have hlc := len_ne_zero hlen hc
  have hun := nrm_unit hlen hlc
  have hl1 : len (nrm len (cross (vsub pj pi) (vsub pk pi))) ≠ 0 := by
    rw [len_eq_one hlen hun]; exact one_ne_zero
  have htn : dot (nrm len (vsub pj pi)) (nrm len (cross (vsub pj pi) (vsub pk pi))) = 0 := by
    rw [nrm_eq_smul hld, nrm_eq_smul hlc, dot_smul_smul, dot_left_cross, mul_zero]
  refine ⟨frameM44 (nrm len (vsub pj pi)) (nrm len (cross (vsub pj pi) (vsub pk pi)))
      (cross (nrm len (vsub pj pi)) (nrm len (cross (vsub pj pi) (vsub pk pi)))) pi, ?_, ?_, rfl, rfl, rfl, rfl⟩
  · simp only [firstFrameSpec, if_neg hld, ht, nrmIP_eq_nrm hlen, hn, if_neg hl1]
  · refine ⟨?_, isAffine_frameM44 _ _ _ _⟩
    rw [rot3_frameM44]; exact isRot_tnb hut hun htn

/-- the fallback axis is never parallel to a unit tangent -/
theorem cross_ffAxis_ne_zero {t : V3 α} (ht : dot t t = 1) : cross t (ffAxis t) ≠ ⟨0, 0, 0⟩ := by
  obtain ⟨x, y, z⟩ := t
  simp only [dot] at ht
  unfold ffAxis
  simp only [sabs_eq_abs]
  split_ifs with h1 h2 h3
  · -- ẑ, |x| < |y|
    have : y ≠ 0 := by intro h; rw [h, abs_zero] at h1; exact absurd h1 (not_lt.mpr (abs_nonneg x))
    simp [cross, this]
  · -- x̂, |x| < |y|
    have : y ≠ 0 := by intro h; rw [h, abs_zero] at h1; exact absurd h1 (not_lt.mpr (abs_nonneg x))
    simp [cross, this]
  · -- ẑ, |z| < |y|
    have : y ≠ 0 := by intro h; rw [h, abs_zero] at h3; exact absurd h3 (not_lt.mpr (abs_nonneg z))
    simp [cross, this]
  · -- ŷ: |y| ≤ |x| and |y| ≤ |z|; if x = z = 0 then y = 0, contradicting |t| = 1
    simp only [cross, ne_eq, V3.mk.injEq, mul_zero, mul_one, sub_zero, zero_sub, neg_eq_zero, sub_self, not_and]
    intro hz _ hx
    have hy : y = 0 := by
      have := not_lt.mp h1
      rw [hx, abs_zero] at this
      exact abs_eq_zero.mp (le_antisymm this (abs_nonneg y))
    rw [hx, hy, hz] at ht
    norm_num at ht

/-- collinear points (documented: "an arbitrary twist value will be chosen"): still an orthonormal right-handed frame
at `pi` with the tangent along `pj − pi` -/
theorem firstFrameSpec_collinear {len : V3 α → α} (hlen : LenSpec len) {pi pj pk : V3 α}
    (hd : vsub pj pi ≠ ⟨0, 0, 0⟩) (hc : cross (vsub pj pi) (vsub pk pi) = ⟨0, 0, 0⟩) :
    ∃ M, firstFrameSpec len pi pj pk = .ok M ∧ IsFrame M ∧ row3 M = pi ∧ row0 M = nrm len (vsub pj pi) ∧
      row1 M = nrm len (cross (nrm len (vsub pj pi)) (ffAxis (nrm len (vsub pj pi)))) ∧ row2 M = cross (row0 M) (row1 M) := by
  have hld := len_ne_zero hlen hd
  have ht : (⟨(vsub pj pi).x / len (vsub pj pi), (vsub pj pi).y / len (vsub pj pi), (vsub pj pi).z / len (vsub pj pi)⟩ : V3 α)
      = nrm len (vsub pj pi) := (nrm_of_ne hld).symm
  have hut := nrm_unit hlen hld
  have h0 : len (⟨0, 0, 0⟩ : V3 α) = 0 := (len_eq_zero_iff hlen _).mpr rfl
  have hw : cross (nrm len (vsub pj pi)) (vsub pk pi) = ⟨0, 0, 0⟩ := by
    rw [nrm_eq_smul hld, cross_smul_left, hc]; simp [smul]
  have hn0 : nrm len (⟨0, 0, 0⟩ : V3 α) = ⟨0, 0, 0⟩ := by simp [nrm, h0]
  have hf := cross_ffAxis_ne_zero hut
  have hlf := len_ne_zero hlen hf
  have hun := nrm_unit hlen hlf
  have htn : dot (nrm len (vsub pj pi)) (nrm len (cross (nrm len (vsub pj pi)) (ffAxis (nrm len (vsub pj pi))))) = 0 := by
    rw [nrm_eq_smul hlf, dot_smul_right, dot_left_cross, mul_zero]
  refine ⟨frameM44 (nrm len (vsub pj pi)) (nrm len (cross (nrm len (vsub pj pi)) (ffAxis (nrm len (vsub pj pi)))))
      (cross (nrm len (vsub pj pi)) (nrm len (cross (nrm len (vsub pj pi)) (ffAxis (nrm len (vsub pj pi)))))) pi,
      ?_, ?_, rfl, rfl, rfl, rfl⟩
  · simp only [firstFrameSpec, if_neg hld, ht, nrmIP_eq_nrm hlen, hw, hn0, h0, if_true]
  · refine ⟨?_, isAffine_frameM44 _ _ _ _⟩
    rw [rot3_frameM44]; exact isRot_tnb hut hun htn

/-! ### rotationMatrixWithUpDir -/

/-- 3×3 block and affine part of `Aᵀ * B` for frames `A`, `B` without translation -/
theorem isFrame_transpose_mul {a b c : M44 α} (ha : IsFrame a) (ha3 : row3 a = ⟨0, 0, 0⟩) (hb : IsFrame b) (hb3 : row3 b = ⟨0, 0, 0⟩)
    (h : c.toMat = a.toMatᵀ * b.toMat) :
    IsFrame c ∧ row3 c = ⟨0, 0, 0⟩ ∧ rot3 c = (rot3 a)ᵀ * rot3 b := by
  obtain ⟨hra, ha0, ha1, ha2, ha33⟩ := ha
  obtain ⟨hrb, hb0, hb1, hb2, hb33⟩ := hb
  simp only [row3, V3.mk.injEq] at ha3 hb3
  obtain ⟨ha30, ha31, ha32⟩ := ha3
  obtain ⟨hb30, hb31, hb32⟩ := hb3
  have e := fun i j => congrFun (congrFun h i) j
  have e00 := e 0 0; have e01 := e 0 1; have e02 := e 0 2; have e03 := e 0 3
  have e10 := e 1 0; have e11 := e 1 1; have e12 := e 1 2; have e13 := e 1 3
  have e20 := e 2 0; have e21 := e 2 1; have e22 := e 2 2; have e23 := e 2 3
  have e30 := e 3 0; have e31 := e 3 1; have e32 := e 3 2; have e33 := e 3 3
  simp [M44.toMat, Matrix.mul_apply, Fin.sum_univ_four, ha0, ha1, ha2, ha33, hb0, hb1, hb2, hb33, ha30, ha31, ha32, hb30, hb31, hb32]
    at e00 e01 e02 e03 e10 e11 e12 e13 e20 e21 e22 e23 e30 e31 e32 e33
  have hr : rot3 c = (rot3 a)ᵀ * rot3 b := by
    ext i j; fin_cases i <;> fin_cases j <;>
      simp [rot3, Matrix.mul_apply, Fin.sum_univ_three, e00, e01, e02, e10, e11, e12, e20, e21, e22]
  refine ⟨⟨?_, e03, e13, e23, e33⟩, ?_, hr⟩
  · rw [hr]; exact hra.transpose.mul hrb
  · simp [row3, e30, e31, e32]

/-- a rotation whose third row is `n` sends the row vector `n` to `ẑ` when applied transposed -/
theorem vecMul_transpose_row2 {R : Matrix (Fin 3) (Fin 3) α} (hR : IsRot R) :
    (fun j => R 2 j) ᵥ* Rᵀ = ![0, 0, 1] := by
  have h := hR.1
  have e := fun i j => congrFun (congrFun h i) j
  ext j
  fin_cases j
  · have := e 2 0; simp [Matrix.mul_apply, Fin.sum_univ_three] at this
    simp [Matrix.vecMul, dotProduct, Fin.sum_univ_three]; linear_combination this
  · have := e 2 1; simp [Matrix.mul_apply, Fin.sum_univ_three] at this
    simp [Matrix.vecMul, dotProduct, Fin.sum_univ_three]; linear_combination this
  · have := e 2 2; simp [Matrix.mul_apply, Fin.sum_univ_three] at this
    simp [Matrix.vecMul, dotProduct, Fin.sum_univ_three]; linear_combination this

end More
end ImathVerif.C09
