import ImathVerif.Basic.Types
import Mathlib.Tactic.SplitIfs
import Mathlib.Tactic.Ring
import Mathlib.Tactic.Linarith
import Mathlib.Tactic.FieldSimp
import Mathlib.Tactic.Tauto
import Mathlib.Tactic.LinearCombination
import Mathlib.Tactic.NormNum
import Mathlib.Algebra.Order.Field.Basic
import Mathlib.Algebra.Order.Ring.Abs
/-!
# Helper lemmas for C07 (checked / unchecked pairs)

* `unexc d e`, `errIs k e`, `okOpt e`, `flagOpt r`: total maps out of `Except Exc β` (resp. out of a
  `Bool`-flagged result) that can be pushed through the extracted `if`-trees with `apply_ite`, so that the
  two members of a pair are compared leaf by leaf in time linear in the tree (no case split);
* the overflow guards `|d| < 1 ∧ tmax·|d| ≤ |n|` (`guardGe`) and `|d| < 1 ∧ tmax·|d| < |n|` (`guardGt`)
  characterised through the exact quotient `n / d` over an ordered field.
-/
set_option linter.unusedSectionVars false
namespace ImathVerif.C07
open ImathVerif

/-- the value of a checked form, `d` when it throws -/
def unexc {β : Type} (d : β) : Except Exc β → β
  | .ok y => y
  | .error _ => d
@[simp] theorem unexc_ok {β : Type} (d y : β) : unexc d (.ok y : Except Exc β) = y := rfl
@[simp] theorem unexc_error {β : Type} (d : β) (k : Exc) : unexc d (.error k : Except Exc β) = d := rfl

/-- every exception a checked form can throw is of kind `k` -/
def errIs {β : Type} (k : Exc) : Except Exc β → Bool
  | .ok _ => true
  | .error e => decide (e = k)
@[simp] theorem errIs_ok {β : Type} (k : Exc) (y : β) : errIs k (.ok y : Except Exc β) = true := rfl
@[simp] theorem errIs_error {β : Type} (k e : Exc) : errIs k (.error e : Except Exc β) = decide (e = k) := rfl

/-- the checked form throws (any kind) -/
def errB {β : Type} : Except Exc β → Bool
  | .ok _ => false
  | .error _ => true
@[simp] theorem errB_ok {β : Type} (y : β) : errB (.ok y : Except Exc β) = false := rfl
@[simp] theorem errB_error {β : Type} (e : Exc) : errB (.error e : Except Exc β) = true := rfl

/-- a checked form whose only exception kind is `k0` throws `k` iff `k = k0` and it throws at all -/
theorem error_iff_of_errIs {β : Type} {k0 : Exc} {e : Except Exc β} (h : errIs k0 e = true) (k : Exc) :
    e = .error k ↔ (k = k0 ∧ errB e = true) := by
  cases e with
  | ok y => simp
  | error e' =>
    have : e' = k0 := by simpa using h
    subst this
    simp [eq_comm]

theorem bool_iff_of_eq_decide {b : Bool} {p : Prop} [Decidable p] (h : b = decide p) : b = true ↔ p := by
  rw [h]; exact decide_eq_true_iff

/-- the returned value of a checked form, if any -/
def okOpt {β : Type} : Except Exc β → Option β
  | .ok y => some y
  | .error _ => none
@[simp] theorem okOpt_ok {β : Type} (y : β) : okOpt (.ok y : Except Exc β) = some y := rfl
@[simp] theorem okOpt_error {β : Type} (k : Exc) : okOpt (.error k : Except Exc β) = none := rfl

/-- a `bool`-returning unchecked form: the result when the flag is `true`, nothing when it is `false` -/
def flagOpt {β : Type} (r : Bool × β) : Option (Bool × β) := if r.1 then some r else none
@[simp] theorem flagOpt_true {β : Type} (y : β) : flagOpt (true, y) = some (true, y) := rfl
@[simp] theorem flagOpt_false {β : Type} (y : β) : flagOpt (false, y) = none := rfl

theorem unexc_ok_imp {β : Type} {d z : β} {e : Except Exc β} (h : unexc d e = z) (y : β) (he : e = .ok y) : z = y := by
  subst he; exact h.symm

/-- with the unchecked value itself as the default: every returning leaf of the checked form equals it -/
theorem unexc_self_ok {β : Type} {z : β} {e : Except Exc β} (h : unexc z e = z) (y : β) (he : e = .ok y) : z = y :=
  unexc_ok_imp h y he

theorem unexc_error_imp {β : Type} {d z : β} {e : Except Exc β} (h : unexc d e = z) (k : Exc) (he : e = .error k) :
    z = d := by
  subst he; exact h.symm

theorem errIs_imp {β : Type} {k : Exc} {e : Except Exc β} (h : errIs k e = true) (k' : Exc) (he : e = .error k') :
    k' = k := by
  subst he; simpa using h

theorem okOpt_flag_ok {β : Type} {e : Except Exc (Bool × β)} {r : Bool × β} (h : okOpt e = flagOpt r)
    (y : Bool × β) (he : e = .ok y) : r = y ∧ y.1 = true := by
  subst he
  rcases r with ⟨b, v⟩
  cases b <;> simp [flagOpt] at h
  exact ⟨h.symm, by rw [h]⟩

theorem okOpt_flag_error {β : Type} {e : Except Exc (Bool × β)} {r : Bool × β} (h : okOpt e = flagOpt r) :
    (∃ k, e = .error k) ↔ r.1 = false := by
  rcases r with ⟨b, v⟩
  cases e with
  | error k => cases b <;> simp [flagOpt] at h ⊢
  | ok y => cases b <;> simp [flagOpt] at h ⊢

theorem except_cases {β : Type} (e : Except Exc β) : (∃ y, e = .ok y) ∨ (∃ k, e = .error k) := by
  cases e with
  | error k => exact Or.inr ⟨k, rfl⟩
  | ok y => exact Or.inl ⟨y, rfl⟩

/-! collapsing the guard chains of the extracted trees (`if g₁ then if g₂ then … x … else y else y`) -/
theorem ite_and_collapse {β : Type} (p q : Prop) [Decidable p] [Decidable q] (x y : β) :
    (if p then (if q then x else y) else y) = if p ∧ q then x else y := by
  by_cases hp : p <;> by_cases hq : q <;> simp [hp, hq]

theorem ite_or_collapse {β : Type} (p q : Prop) [Decidable p] [Decidable q] (x y : β) :
    (if p then x else if q then x else y) = if p ∨ q then x else y := by
  by_cases hp : p <;> by_cases hq : q <;> simp [hp, hq]

/-- `(p && q) || g` as it appears after the inner chain has been collapsed -/
theorem ite_guard_collapse {β : Type} (p q g : Prop) [Decidable p] [Decidable q] [Decidable g] (x y : β) :
    (if p then (if q ∨ g then x else y) else (if g then x else y)) = if (p ∧ q) ∨ g then x else y := by
  by_cases hp : p <;> by_cases hq : q <;> by_cases hg : g <;> simp [hp, hq, hg]

theorem ite_ok_err_error_iff {β : Type} (p : Prop) [Decidable p] (v : β) (e k : Exc) :
    ((if p then (.ok v : Except Exc β) else .error e) = .error k) ↔ (¬ p ∧ k = e) := by
  by_cases hp : p <;> simp [hp, eq_comm]

theorem ite_ok_err_ok_iff {β : Type} (p : Prop) [Decidable p] (v y : β) (e : Exc) :
    ((if p then (.ok v : Except Exc β) else .error e) = .ok y) ↔ (p ∧ v = y) := by
  by_cases hp : p <;> simp [hp]

theorem ite_err_ok_error_iff {β : Type} (p : Prop) [Decidable p] (v : β) (e k : Exc) :
    ((if p then .error e else (.ok v : Except Exc β)) = .error k) ↔ (p ∧ k = e) := by
  by_cases hp : p <;> simp [hp, eq_comm]

section field
variable {α : Type} [Field α] [LinearOrder α] [IsStrictOrderedRing α]

theorem sabs_eq_abs (x : α) : sabs x = |x| := by
  unfold sabs
  split_ifs with h
  · rw [abs_of_pos h]
  · rw [abs_of_nonpos (not_lt.mp h)]

/-- `x <= -m || x >= m` is `|x| >= m` -/
theorem le_neg_or_le_iff (m x : α) : (x ≤ -m ∨ m ≤ x) ↔ m ≤ |x| := by
  rw [le_abs]
  constructor
  · rintro (h | h)
    · right; linarith
    · left; exact h
  · rintro (h | h)
    · right; exact h
    · left; linarith

/-- `abs (d) < 1 && abs (n) >= max * abs (d)` (Vec3 (Vec4, InfException), checkForZeroScaleInRow; the complement
of the `return` condition of screenRadiusExc / worldRadiusExc is the `≤ 1` variant `guardGe'`) -/
abbrev guardGe (tmax n d : α) : Prop := |d| < 1 ∧ tmax * |d| ≤ |n|
/-- `!(abs (d) > 1 || abs (n) < max * abs (d))` -/
abbrev guardGe' (tmax n d : α) : Prop := |d| ≤ 1 ∧ tmax * |d| ≤ |n|
/-- `abs (d) < 1 && abs (n) > max * abs (d)` (all Frustum guards) -/
abbrev guardGt (tmax n d : α) : Prop := |d| < 1 ∧ tmax * |d| < |n|


theorem le_abs_div_iff (tmax n d : α) (hd : d ≠ 0) : tmax ≤ |n / d| ↔ tmax * |d| ≤ |n| := by
  rw [abs_div, le_div_iff₀ (abs_pos.mpr hd)]

theorem lt_abs_div_iff (tmax n d : α) (hd : d ≠ 0) : tmax < |n / d| ↔ tmax * |d| < |n| := by
  rw [abs_div, lt_div_iff₀ (abs_pos.mpr hd)]

/-- the `>=` guard fires exactly when the divisor is small and either it is zero or the EXACT quotient's magnitude
is at least `tmax` (not representable) -/
theorem guardGe_iff (tmax n d : α) : guardGe tmax n d ↔ |d| < 1 ∧ (d = 0 ∨ tmax ≤ |n / d|) := by
  unfold guardGe
  by_cases hd : d = 0
  · subst hd; simp
  · simp [hd, le_abs_div_iff tmax n d hd]

theorem guardGe'_iff (tmax n d : α) : guardGe' tmax n d ↔ |d| ≤ 1 ∧ (d = 0 ∨ tmax ≤ |n / d|) := by
  unfold guardGe'
  by_cases hd : d = 0
  · subst hd; simp
  · simp [hd, le_abs_div_iff tmax n d hd]

/-- the `>` guard fires exactly when the divisor is small and either the quotient is `nonzero / 0` or the EXACT
quotient's magnitude exceeds `tmax`; note that `0 / 0` does NOT fire -/
theorem guardGt_iff (tmax n d : α) : guardGt tmax n d ↔ |d| < 1 ∧ ((d = 0 ∧ n ≠ 0) ∨ (d ≠ 0 ∧ tmax < |n / d|)) := by
  unfold guardGt
  by_cases hd : d = 0
  · subst hd; simp
  · simp [hd, lt_abs_div_iff tmax n d hd]

/-- no guard fires when the divisor's magnitude is at least 1, and then the quotient is no larger than the numerator -/
theorem abs_div_le_of_one_le (n d : α) (hd : 1 ≤ |d|) : |n / d| ≤ |n| := by
  rw [abs_div]
  exact div_le_self (abs_nonneg n) hd

theorem not_guardGe_of_one_le (tmax n d : α) (hd : 1 ≤ |d|) : ¬ guardGe tmax n d := fun h => absurd h.1 (not_lt.mpr hd)
theorem not_guardGt_of_one_le (tmax n d : α) (hd : 1 ≤ |d|) : ¬ guardGt tmax n d := fun h => absurd h.1 (not_lt.mpr hd)
theorem not_guardGe'_of_one_lt (tmax n d : α) (hd : 1 < |d|) : ¬ guardGe' tmax n d := fun h => absurd h.1 (not_le.mpr hd)

/-- a quotient in range never trips a guard -/
theorem not_guardGe_of_lt (tmax n d : α) (hd : d ≠ 0) (hq : |n / d| < tmax) : ¬ guardGe tmax n d := by
  intro h
  rcases (guardGe_iff tmax n d).mp h with ⟨_, h0 | h1⟩
  · exact hd h0
  · exact absurd hq (not_lt.mpr h1)
theorem not_guardGe'_of_lt (tmax n d : α) (hd : d ≠ 0) (hq : |n / d| < tmax) : ¬ guardGe' tmax n d := by
  intro h
  rcases (guardGe'_iff tmax n d).mp h with ⟨_, h0 | h1⟩
  · exact hd h0
  · exact absurd hq (not_lt.mpr h1)
theorem not_guardGt_of_le (tmax n d : α) (hd : d ≠ 0) (hq : |n / d| ≤ tmax) : ¬ guardGt tmax n d := by
  intro h
  rcases (guardGt_iff tmax n d).mp h with ⟨_, ⟨h0, _⟩ | ⟨_, h1⟩⟩
  · exact hd h0
  · exact absurd hq (not_le.mpr h1)

/-- the singular-matrix guard `abs (r) / min > abs (s)` of `inverse`: it FAILS exactly when `r = 0` or the exact
entry `s / r` of the inverse has magnitude at least `1 / tmin` -/
theorem inv_guard_fails_iff (tmin r s : α) (ht : 0 < tmin) : ¬ (|s| < |r| / tmin) ↔ (r = 0 ∨ 1 / tmin ≤ |s / r|) := by
  by_cases hr : r = 0
  · subst hr; simp [not_lt, abs_nonneg]
  · have hpos : 0 < |r| := abs_pos.mpr hr
    simp only [hr, false_or, not_lt, abs_div]
    rw [div_le_iff₀ ht, div_le_div_iff₀ ht hpos, one_mul]

/-- `1 / tmin ≥ tmax / 4` for the IEEE formats (`tmax · tmin ≤ 4`): the guard fails only within a factor four of the maximum -/
theorem quarter_max_le (tmin tmax x : α) (ht : 0 < tmin) (h4 : tmax * tmin ≤ 4) (hx : 1 / tmin ≤ x) : tmax / 4 ≤ x := by
  refine le_trans ?_ hx
  rw [div_le_div_iff₀ (by norm_num) ht]
  linarith

end field
end ImathVerif.C07
