import ImathVerif.Lemmas.C09NextFrame
/-!
Helper lemmas for C09: `rotationMatrix(from, to) = Quat::setRotation(from, to).toMatrix44()`.
-/
set_option linter.unusedSectionVars false
set_option linter.unreachableTactic false
set_option linter.unusedTactic false
set_option linter.unusedVariables false
set_option linter.unusedSimpArgs false
namespace ImathVerif.C09
open ImathVerif Matrix

section QuatRot
variable {α : Type} [Field α] [LinearOrder α] [IsStrictOrderedRing α]

/-- a UNIT quaternion gives a rotation matrix -/
theorem isRot_quat {q : Quat α} (hq : q.r * q.r + dot q.v q.v = 1) : IsRot (rows3 (qRow0 q) (qRow1 q) (qRow2 q)) := by
  obtain ⟨w, x, y, z⟩ := q
  simp only [dot] at hq
  apply isRot_rows3
  · simp only [dot, qRow0]; linear_combination (4 * (y ^ 2 + z ^ 2)) * hq
  · simp only [dot, qRow1]; linear_combination (4 * (x ^ 2 + z ^ 2)) * hq
  · simp only [dot, qRow0, qRow1]; linear_combination (-4 * x * y) * hq
  · simp only [cross, qRow0, qRow1, qRow2, V3.mk.injEq]
    refine ⟨?_, ?_, ?_⟩
    · linear_combination (-4 * x * z) * hq
    · linear_combination (-4 * y * z) * hq
    · linear_combination (-4 * z ^ 2) * hq

/-- half-turn about the unit vector `h` -/
def halfTurn (h p : V3 α) : V3 α := vsub (smul (2 * dot h p) h) p

/-- for unit `f`, `h` the quaternion `(f·h, f × h)` sends the row vector `f` to its mirror image through `h` -/
theorem quat_fh_apply {f h : V3 α} (hf : dot f f = 1) (hh : dot h h = 1) :
    vadd (vadd (smul f.x (qRow0 ⟨dot f h, cross f h⟩)) (smul f.y (qRow1 ⟨dot f h, cross f h⟩))) (smul f.z (qRow2 ⟨dot f h, cross f h⟩))
      = halfTurn h f := by
  obtain ⟨f1, f2, f3⟩ := f
  obtain ⟨h1, h2, h3⟩ := h
  simp only [dot] at hf hh
  simp only [vadd, smul, qRow0, qRow1, qRow2, halfTurn, vsub, dot, cross, V3.mk.injEq]
  refine ⟨?_, ?_, ?_⟩
  · linear_combination (-2 * (f1 * h2 ^ 2 + f1 * h3 ^ 2 - f2 * h1 * h2 - f3 * h1 * h3)) * hf + (-2 * f1) * hh
  · linear_combination (2 * (f1 * h1 * h2 - f2 * h1 ^ 2 - f2 * h3 ^ 2 + f3 * h2 * h3)) * hf + (-2 * f2) * hh
  · linear_combination (2 * (f1 * h1 * h3 + f2 * h2 * h3 - f3 * h1 ^ 2 - f3 * h2 ^ 2)) * hf + (-2 * f3) * hh

/-- `(f·h, f × h)` is a unit quaternion for unit `f`, `h` -/
theorem quat_fh_unit {f h : V3 α} (hf : dot f f = 1) (hh : dot h h = 1) :
    dot f h * dot f h + dot (cross f h) (cross f h) = 1 := by
  rw [lagrange, hf, hh]; ring

/-- the bisector: for unit `f`, `t` with `f + t ≠ 0`, the half-turn about `(f + t)^` takes `f` to `t` -/
theorem halfTurn_bisector {len : V3 α → α} (hlen : LenSpec len) {f t : V3 α} (hf : dot f f = 1) (ht : dot t t = 1)
    (hs : vadd f t ≠ ⟨0, 0, 0⟩) : halfTurn (nrm len (vadd f t)) f = t := by
  have hl := len_ne_zero hlen hs
  have h2 := len_sq hlen (vadd f t)
  rw [nrm_of_ne hl]
  generalize len (vadd f t) = L at hl h2 ⊢
  obtain ⟨f1, f2, f3⟩ := f
  obtain ⟨t1, t2, t3⟩ := t
  simp only [dot, vadd] at hf ht h2
  simp only [halfTurn, vsub, smul, dot, vadd, V3.mk.injEq]
  refine ⟨?_, ?_, ?_⟩
  · field_simp
    linear_combination (f1 + t1) * hf - (f1 + t1) * ht - (f1 + t1) * h2
  · field_simp
    linear_combination (f2 + t2) * hf - (f2 + t2) * ht - (f2 + t2) * h2
  · field_simp
    linear_combination (f3 + t3) * hf - (f3 + t3) * ht - (f3 + t3) * h2


/-- the Hamilton product of unit quaternions is a unit quaternion -/
theorem quat_mul_unit {a b : Quat α} (ha : a.r * a.r + dot a.v a.v = 1) (hb : b.r * b.r + dot b.v b.v = 1) :
    (qmul a b).r * (qmul a b).r + dot (qmul a b).v (qmul a b).v = 1 := by
  obtain ⟨a0, a1, a2, a3⟩ := a
  obtain ⟨b0, b1, b2, b3⟩ := b
  simp only [dot] at ha hb
  simp only [qmul, dot]
  linear_combination (b0 * b0 + (b1 * b1 + b2 * b2 + b3 * b3)) * ha + hb

/-- matrix of a unit quaternion: frame without translation -/
theorem quatM44_isFrame {q : Quat α} (hq : q.r * q.r + dot q.v q.v = 1) :
    IsFrame (quatM44 q) ∧ row3 (quatM44 q) = ⟨0, 0, 0⟩ := by
  unfold quatM44
  exact ⟨⟨isRot_quat hq, isAffine_frameM44 _ _ _ _⟩, rfl⟩

/-- `f + t ≠ 0` for unit vectors with `f·t > −1` -/
theorem vadd_ne_zero_of_dot {f t : V3 α} (hf : dot f f = 1) (ht : dot t t = 1) (hd : -1 < dot f t) :
    vadd f t ≠ ⟨0, 0, 0⟩ := by
  apply ne_zero_of_dot
  have : dot (vadd f t) (vadd f t) = dot f f + 2 * dot f t + dot t t := by simp only [dot, vadd]; ring
  rw [this, hf, ht]
  intro h; linarith

/-- `setRotationInternal(f, t)` for unit `f`, `t` with `f + t ≠ 0`: a unit quaternion whose matrix takes `f` to `t` -/
theorem qInternal_spec {len : V3 α → α} (hlen : LenSpec len) {f t : V3 α} (hf : dot f f = 1) (ht : dot t t = 1)
    (hs : vadd f t ≠ ⟨0, 0, 0⟩) :
    (qInternal len f t).r * (qInternal len f t).r + dot (qInternal len f t).v (qInternal len f t).v = 1 ∧
      f.toVec ᵥ* rot3 (quatM44 (qInternal len f t)) = t.toVec := by
  have hh := nrm_unit hlen (len_ne_zero hlen hs)
  refine ⟨quat_fh_unit hf hh, ?_⟩
  unfold quatM44
  rw [rot3_frameM44, vecMul_rows3]
  show (vadd (vadd (smul f.x (qRow0 ⟨dot f _, cross f _⟩)) (smul f.y (qRow1 ⟨dot f _, cross f _⟩))) (smul f.z (qRow2 ⟨dot f _, cross f _⟩))).toVec = _
  rw [quat_fh_apply hf hh, halfTurn_bisector hlen hf ht hs]

/-- angle ≤ π/2 (`from^ · to^ ≥ 0`): orthonormal right-handed, takes the direction of `from` to the direction of `to` -/
theorem rotationMatrixSpec_acute {len : V3 α → α} (hlen : LenSpec len) (teps : α) {fromDir toDir : V3 α}
    (hf : fromDir ≠ ⟨0, 0, 0⟩) (ht : toDir ≠ ⟨0, 0, 0⟩) (hd : 0 ≤ dot (nrm len fromDir) (nrm len toDir)) :
    IsFrame (rotationMatrixSpec len teps fromDir toDir) ∧
      row3 (rotationMatrixSpec len teps fromDir toDir) = ⟨0, 0, 0⟩ ∧
      (nrm len fromDir).toVec ᵥ* rot3 (rotationMatrixSpec len teps fromDir toDir) = (nrm len toDir).toVec := by
  have huf := nrm_unit' hlen hf
  have hut := nrm_unit' hlen ht
  have hs := vadd_ne_zero_of_dot huf hut (by linarith)
  have e : quatSetRotationSpec len teps fromDir toDir = qInternal len (nrm len fromDir) (nrm len toDir) := by
    simp only [quatSetRotationSpec, if_pos hd]
  unfold rotationMatrixSpec
  rw [e]
  obtain ⟨h1, h2⟩ := qInternal_spec hlen huf hut hs
  exact ⟨(quatM44_isFrame h1).1, (quatM44_isFrame h1).2, h2⟩

/-- the axis used for exactly opposite directions is a unit vector perpendicular to `f0` -/
theorem qOppositeAxis_spec {len : V3 α → α} (hlen : LenSpec len) {f : V3 α} (hf : dot f f = 1) :
    dot (qOppositeAxis len f) (qOppositeAxis len f) = 1 ∧ dot (qOppositeAxis len f) f = 0 := by
  obtain ⟨x, y, z⟩ := f
  simp only [dot] at hf
  have key : ∀ e : V3 α, cross ⟨x, y, z⟩ e ≠ ⟨0, 0, 0⟩ →
      dot (nrm len (cross ⟨x, y, z⟩ e)) (nrm len (cross ⟨x, y, z⟩ e)) = 1 ∧ dot (nrm len (cross ⟨x, y, z⟩ e)) ⟨x, y, z⟩ = 0 := by
    intro e he
    have hl := len_ne_zero hlen he
    refine ⟨nrm_unit hlen hl, ?_⟩
    rw [nrm_eq_smul hl, dot_smul_left, dot_cross_left, mul_zero]
  unfold qOppositeAxis
  split_ifs with h1 h2
  · apply key
    simp only [cross, ne_eq, V3.mk.injEq, mul_zero, mul_one, sub_zero, zero_sub, neg_eq_zero, sub_self, true_and, not_and]
    intro hz hy
    rw [hz, hy] at hf h1
    nlinarith [h1.1, mul_self_nonneg x]
  · apply key
    simp only [cross, ne_eq, V3.mk.injEq, mul_zero, mul_one, sub_zero, zero_sub, neg_eq_zero, sub_self, and_true, not_and]
    intro hz _ hx
    rw [hz, hx] at hf h2
    nlinarith [h2, mul_self_nonneg y]
  · apply key
    simp only [cross, ne_eq, V3.mk.injEq, mul_zero, mul_one, sub_zero, zero_sub, neg_eq_zero, sub_self, and_true, not_and]
    intro hy hx
    rw [hy, hx] at hf h2
    nlinarith [not_le.mp h2, mul_self_nonneg z]

/-- matrix of the pure quaternion `(0, v)`, `|v| = 1`: half-turn about `v` -/
theorem quat_pure_apply {v : V3 α} (hv : dot v v = 1) (p : V3 α) :
    vadd (vadd (smul p.x (qRow0 ⟨0, v⟩)) (smul p.y (qRow1 ⟨0, v⟩))) (smul p.z (qRow2 ⟨0, v⟩)) = halfTurn v p := by
  obtain ⟨p1, p2, p3⟩ := p
  obtain ⟨x, y, z⟩ := v
  simp only [dot] at hv
  simp only [vadd, smul, qRow0, qRow1, qRow2, halfTurn, vsub, dot, V3.mk.injEq]
  refine ⟨?_, ?_, ?_⟩
  · linear_combination (-2 * p1) * hv
  · linear_combination (-2 * p2) * hv
  · linear_combination (-2 * p3) * hv

/-- directions opposite to within `|from^ + to^|² ≤ (8ε)²` (in particular exactly opposite): a half-turn about an axis perpendicular to
`from`; it takes `from^` to `−from^` -/
theorem rotationMatrixSpec_nearOpposite {len : V3 α → α} (hlen : LenSpec len) (teps : α) {fromDir toDir : V3 α}
    (hf : fromDir ≠ ⟨0, 0, 0⟩) (ht : toDir ≠ ⟨0, 0, 0⟩) (hd : dot (nrm len fromDir) (nrm len toDir) < 0)
    (hopp : dot (vadd (nrm len fromDir) (nrm len toDir)) (vadd (nrm len fromDir) (nrm len toDir)) ≤ (8 * teps) * (8 * teps)) :
    IsFrame (rotationMatrixSpec len teps fromDir toDir) ∧
      row3 (rotationMatrixSpec len teps fromDir toDir) = ⟨0, 0, 0⟩ ∧
      (nrm len fromDir).toVec ᵥ* rot3 (rotationMatrixSpec len teps fromDir toDir)
        = (vneg (nrm len fromDir)).toVec := by
  have huf := nrm_unit' hlen hf
  have e : quatSetRotationSpec len teps fromDir toDir = ⟨0, qOppositeAxis len (nrm len fromDir)⟩ := by
    simp only [quatSetRotationSpec, if_neg (not_le.mpr hd), if_neg (not_lt.mpr hopp)]
    simp [dot]
  obtain ⟨hv1, hv2⟩ := qOppositeAxis_spec hlen huf
  have hq : (⟨0, qOppositeAxis len (nrm len fromDir)⟩ : Quat α).r * (⟨0, qOppositeAxis len (nrm len fromDir)⟩ : Quat α).r
      + dot (⟨0, qOppositeAxis len (nrm len fromDir)⟩ : Quat α).v (⟨0, qOppositeAxis len (nrm len fromDir)⟩ : Quat α).v = 1 := by
    simp [hv1]
  unfold rotationMatrixSpec
  rw [e]
  refine ⟨(quatM44_isFrame hq).1, (quatM44_isFrame hq).2, ?_⟩
  unfold quatM44
  rw [rot3_frameM44, vecMul_rows3, quat_pure_apply hv1]
  simp only [halfTurn, hv2, mul_zero]
  congr 1
  generalize nrm len fromDir = f
  obtain ⟨f1, f2, f3⟩ := f
  simp [vsub, smul, vneg]

/-- exactly opposite directions: `−from^ = to^`, so the half-turn takes `from^` to `to^` -/
theorem rotationMatrixSpec_opposite {len : V3 α → α} (hlen : LenSpec len) (teps : α) {fromDir toDir : V3 α}
    (hf : fromDir ≠ ⟨0, 0, 0⟩) (ht : toDir ≠ ⟨0, 0, 0⟩) (hopp : vadd (nrm len fromDir) (nrm len toDir) = ⟨0, 0, 0⟩) :
    IsFrame (rotationMatrixSpec len teps fromDir toDir) ∧
      row3 (rotationMatrixSpec len teps fromDir toDir) = ⟨0, 0, 0⟩ ∧
      (nrm len fromDir).toVec ᵥ* rot3 (rotationMatrixSpec len teps fromDir toDir) = (nrm len toDir).toVec := by
  have huf := nrm_unit' hlen hf
  have hneg : nrm len toDir = vneg (nrm len fromDir) := by
    generalize nrm len fromDir = f at hopp ⊢
    generalize nrm len toDir = t at hopp ⊢
    obtain ⟨f1, f2, f3⟩ := f
    obtain ⟨t1, t2, t3⟩ := t
    simp only [vadd, V3.mk.injEq] at hopp
    simp only [vneg, V3.mk.injEq]
    exact ⟨by linarith [hopp.1], by linarith [hopp.2.1], by linarith [hopp.2.2]⟩
  have hd : dot (nrm len fromDir) (nrm len toDir) < 0 := by
    rw [hneg]
    have : dot (nrm len fromDir) (vneg (nrm len fromDir)) = - dot (nrm len fromDir) (nrm len fromDir) := by
      simp only [dot, vneg]; ring
    rw [this, huf]; norm_num
  have hle : dot (vadd (nrm len fromDir) (nrm len toDir)) (vadd (nrm len fromDir) (nrm len toDir)) ≤ (8 * teps) * (8 * teps) := by
    rw [hopp]
    have : dot (⟨0, 0, 0⟩ : V3 α) ⟨0, 0, 0⟩ = 0 := by simp [dot]
    rw [this]; exact mul_self_nonneg _
  have := rotationMatrixSpec_nearOpposite hlen teps hf ht hd hle
  rw [hneg]; exact this

/-- angle > π/2 and `|from^ + to^|² > (8ε)²`: product of two half-angle rotations — proved here: orthonormal right-handed -/
theorem rotationMatrixSpec_obtuse {len : V3 α → α} (hlen : LenSpec len) (teps : α) {fromDir toDir : V3 α}
    (hf : fromDir ≠ ⟨0, 0, 0⟩) (ht : toDir ≠ ⟨0, 0, 0⟩) (hd : dot (nrm len fromDir) (nrm len toDir) < 0)
    (hbig : (8 * teps) * (8 * teps) < dot (vadd (nrm len fromDir) (nrm len toDir)) (vadd (nrm len fromDir) (nrm len toDir))) :
    IsFrame (rotationMatrixSpec len teps fromDir toDir) ∧
      row3 (rotationMatrixSpec len teps fromDir toDir) = ⟨0, 0, 0⟩ := by
  have huf := nrm_unit' hlen hf
  have hut := nrm_unit' hlen ht
  have hopp : vadd (nrm len fromDir) (nrm len toDir) ≠ ⟨0, 0, 0⟩ := by
    apply ne_zero_of_dot
    have := lt_of_le_of_lt (mul_self_nonneg (8 * teps)) hbig
    exact this.ne'
  have hls := len_ne_zero hlen hopp
  have hps := len_pos hlen hopp
  have huh := nrm_unit hlen hls
  have hh : ¬ dot (nrm len (vadd (nrm len fromDir) (nrm len toDir))) (nrm len (vadd (nrm len fromDir) (nrm len toDir))) = 0 := by
    rw [huh]; exact one_ne_zero
  have e : quatSetRotationSpec len teps fromDir toDir =
      qmul (qInternal len (nrm len fromDir) (nrm len (vadd (nrm len fromDir) (nrm len toDir))))
        (qInternal len (nrm len (vadd (nrm len fromDir) (nrm len toDir))) (nrm len toDir)) := by
    simp only [quatSetRotationSpec, if_neg (not_le.mpr hd), if_pos hbig, if_neg hh]
  have hss : dot (vadd (nrm len fromDir) (nrm len toDir)) (vadd (nrm len fromDir) (nrm len toDir))
      = 2 * (1 + dot (nrm len fromDir) (nrm len toDir)) := by
    have : dot (vadd (nrm len fromDir) (nrm len toDir)) (vadd (nrm len fromDir) (nrm len toDir))
        = dot (nrm len fromDir) (nrm len fromDir) + 2 * dot (nrm len fromDir) (nrm len toDir) + dot (nrm len toDir) (nrm len toDir) := by
      simp only [dot, vadd]; ring
    rw [this, huf, hut]; ring
  have hpos : 0 < 1 + dot (nrm len fromDir) (nrm len toDir) := by
    have := lt_of_le_of_ne (dot_self_nonneg (vadd (nrm len fromDir) (nrm len toDir))) (Ne.symm (dot_ne_zero hopp))
    rw [hss] at this; linarith
  have hfh : -1 < dot (nrm len fromDir) (nrm len (vadd (nrm len fromDir) (nrm len toDir))) := by
    rw [nrm_eq_smul hls, dot_smul_right]
    have : dot (nrm len fromDir) (vadd (nrm len fromDir) (nrm len toDir))
        = dot (nrm len fromDir) (nrm len fromDir) + dot (nrm len fromDir) (nrm len toDir) := by simp only [dot, vadd]; ring
    rw [this, huf]
    have := mul_pos (inv_pos.mpr hps) hpos
    linarith
  have hht : -1 < dot (nrm len (vadd (nrm len fromDir) (nrm len toDir))) (nrm len toDir) := by
    rw [nrm_eq_smul hls, dot_smul_left]
    have : dot (vadd (nrm len fromDir) (nrm len toDir)) (nrm len toDir)
        = dot (nrm len fromDir) (nrm len toDir) + dot (nrm len toDir) (nrm len toDir) := by simp only [dot, vadd]; ring
    rw [this, hut]
    have := mul_pos (inv_pos.mpr hps) hpos
    linarith
  have q1 := (qInternal_spec hlen huf huh (vadd_ne_zero_of_dot huf huh hfh)).1
  have q2 := (qInternal_spec hlen huh hut (vadd_ne_zero_of_dot huh hut hht)).1
  unfold rotationMatrixSpec
  rw [e]
  exact quatM44_isFrame (quat_mul_unit q1 q2)

end QuatRot
end ImathVerif.C09
