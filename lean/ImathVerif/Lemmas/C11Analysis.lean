import ImathVerif.Lemmas.C11Lemmas
import Mathlib.Analysis.SpecialFunctions.Complex.Arg
import Mathlib.Analysis.SpecialFunctions.Trigonometric.Basic
import Mathlib.Algebra.Order.Floor.Ring
import Mathlib.Tactic.SplitIfs
import Mathlib.Tactic.Positivity
import ImathVerif.Lemmas.C08Lemmas
import Mathlib.Analysis.SpecialFunctions.Sqrt
/-!
C11, analytic part: the real functions satisfy the hypotheses of the algebraic theorems
(non-vacuity), the hand model of `angleMod` lands in `[-π, π]` and is congruent mod 2π, and the
two-argument arctangent on ℝ.
-/
set_option autoImplicit false
set_option linter.unusedSectionVars false
set_option linter.unusedSimpArgs false
namespace ImathVerif.Euler
open ImathVerif Real

/-! ## the real sine and cosine satisfy every hypothesis used in Props/C11.lean -/

theorem real_hsc : ∀ x : ℝ, Real.sin x ^ 2 + Real.cos x ^ 2 = 1 := Real.sin_sq_add_cos_sq
theorem real_hodd : ∀ x : ℝ, Real.sin (-x) = -Real.sin x := Real.sin_neg
theorem real_heven : ∀ x : ℝ, Real.cos (-x) = Real.cos x := Real.cos_neg
theorem real_hsin2 : ∀ x : ℝ, Real.sin x = 2 * Real.sin (x * (1 / 2)) * Real.cos (x * (1 / 2)) := by
  intro x
  rw [← Real.sin_two_mul]; congr 1; ring
theorem real_hcos2 : ∀ x : ℝ, Real.cos x = Real.cos (x * (1 / 2)) ^ 2 - Real.sin (x * (1 / 2)) ^ 2 := by
  intro x
  have h := Real.cos_sq_add_sin_sq (x * (1 / 2))
  have h2 := Real.cos_two_mul (x * (1 / 2))
  rw [show 2 * (x * (1 / 2)) = x by ring] at h2
  rw [h2]; nlinarith [h]
theorem real_hsp : ∀ x : ℝ, Real.sin (π + x) = -Real.sin x := fun x => by rw [add_comm]; exact Real.sin_add_pi x
theorem real_hcp : ∀ x : ℝ, Real.cos (π + x) = -Real.cos x := fun x => by rw [add_comm]; exact Real.cos_add_pi x
theorem real_hsm : ∀ x : ℝ, Real.sin (π - x) = Real.sin x := Real.sin_pi_sub
theorem real_hcm : ∀ x : ℝ, Real.cos (π - x) = -Real.cos x := Real.cos_pi_sub

/-! ## `angleMod` (hand model, Model/EulerOrder.lean) -/

section angleMod
variable {α : Type} [Field α] [LinearOrder α] [IsStrictOrderedRing α] [FloorRing α]

/-- what `trunc` has to be: rounding toward zero -/
def IsTrunc (trunc : α → Int) : Prop := ∀ y : α, (0 ≤ y → trunc y = ⌊y⌋) ∧ (y < 0 → trunc y = ⌈y⌉)

/-- round toward zero on a floor ring -/
def truncF (y : α) : Int := if y < 0 then ⌈y⌉ else ⌊y⌋

theorem truncF_isTrunc : IsTrunc (truncF (α := α)) := by
  intro y; constructor
  · intro h; simp [truncF, not_lt.mpr h]
  · intro h; simp [truncF, h]

/-- the driver's `ratTrunc` is rounding toward zero -/
theorem ratTrunc_isTrunc : IsTrunc (α := ℚ) Model.Euler.ratTrunc := by
  intro y; constructor
  · intro h
    simp only [Model.Euler.ratTrunc, not_lt.mpr h, if_false]; rfl
  · intro h
    simp only [Model.Euler.ratTrunc, h, if_true]
    rw [show (-y).floor = ⌊-y⌋ from rfl, Int.floor_neg, neg_neg]

/-- `fmod (x, m)` lies strictly between `-m` and `m`, with the sign of `x`, and differs from `x`
    by an integer multiple of `m` -/
theorem fmod_bounds (trunc : α → Int) (ht : IsTrunc trunc) (x m : α) (hm : 0 < m) :
    -m < Model.Euler.fmod trunc x m ∧ Model.Euler.fmod trunc x m < m
    ∧ Model.Euler.fmod trunc x m = x - m * (trunc (x / m) : α) := by
  refine ⟨?_, ?_, rfl⟩
  · simp only [Model.Euler.fmod]
    rcases lt_or_ge (x / m) 0 with h | h
    · rw [(ht _).2 h]
      have := Int.ceil_lt_add_one (x / m)
      have h2 : (⌈x / m⌉ : α) < x / m + 1 := this
      have : m * (⌈x / m⌉ : α) < m * (x / m + 1) := by exact mul_lt_mul_of_pos_left h2 hm
      have e : m * (x / m + 1) = x + m := by field_simp
      linarith
    · rw [(ht _).1 h]
      have h2 : ((⌊x / m⌋ : Int) : α) ≤ x / m := Int.floor_le _
      have : m * (⌊x / m⌋ : α) ≤ m * (x / m) := by exact mul_le_mul_of_nonneg_left h2 hm.le
      have e : m * (x / m) = x := by field_simp
      have hx : 0 ≤ x := by
        have := mul_nonneg hm.le h
        rwa [e] at this
      linarith
  · simp only [Model.Euler.fmod]
    rcases lt_or_ge (x / m) 0 with h | h
    · rw [(ht _).2 h]
      have h2 : x / m ≤ (⌈x / m⌉ : α) := Int.le_ceil _
      have : m * (x / m) ≤ m * (⌈x / m⌉ : α) := by exact mul_le_mul_of_nonneg_left h2 hm.le
      have e : m * (x / m) = x := by field_simp
      have hx : x < 0 := by
        have := mul_neg_of_pos_of_neg hm h
        rwa [e] at this
      linarith
    · rw [(ht _).1 h]
      have h2 : x / m < (⌊x / m⌋ : α) + 1 := Int.lt_floor_add_one _
      have : m * (x / m) < m * ((⌊x / m⌋ : α) + 1) := by exact mul_lt_mul_of_pos_left h2 hm
      have e : m * (x / m) = x := by field_simp
      linarith

/-- `angleMod` returns a value in `[-pi, pi]` -/
theorem angleMod_range (trunc : α → Int) (ht : IsTrunc trunc) (pi x : α) (hpi : 0 < pi) :
    -pi ≤ Model.Euler.angleMod trunc pi x ∧ Model.Euler.angleMod trunc pi x ≤ pi := by
  have hb := fmod_bounds trunc ht x (2 * pi) (by linarith)
  simp only [Model.Euler.angleMod]
  split_ifs <;> constructor <;> linarith [hb.1, hb.2.1]

/-- `angleMod x` is congruent to `x` modulo `2·pi` -/
theorem angleMod_congr (trunc : α → Int) (pi x : α) :
    ∃ k : ℤ, Model.Euler.angleMod trunc pi x = x + (k : α) * (2 * pi) := by
  obtain ⟨k0, hk0⟩ : ∃ k : ℤ, Model.Euler.fmod trunc x (2 * pi) = x + (k : α) * (2 * pi) :=
    ⟨-trunc (x / (2 * pi)), by simp only [Model.Euler.fmod]; push_cast; ring⟩
  simp only [Model.Euler.angleMod]
  generalize Model.Euler.fmod trunc x (2 * pi) = r at hk0 ⊢
  by_cases h1 : r < -pi
  · simp only [h1, if_true]
    by_cases h2 : pi < r + 2 * pi
    · simp only [h2, if_true]; exact ⟨k0, by rw [hk0]; ring⟩
    · simp only [h2, if_false]; exact ⟨k0 + 1, by rw [hk0]; push_cast; ring⟩
  · simp only [h1, if_false]
    by_cases h2 : pi < r
    · simp only [h2, if_true]; exact ⟨k0 - 1, by rw [hk0]; push_cast; ring⟩
    · simp only [h2, if_false]; exact ⟨k0, hk0⟩

end angleMod

/-- the model of `angleMod` over ℝ with the true π satisfies the hypotheses `hmodS`, `hmodC`, `hrange`
    of the `makeNear` / `nearestRotation` theorems for the real sine and cosine -/
theorem real_angleMod_hyps :
    (∀ t d : ℝ, Real.sin (t + Model.Euler.angleMod truncF π d) = Real.sin (t + d))
    ∧ (∀ t d : ℝ, Real.cos (t + Model.Euler.angleMod truncF π d) = Real.cos (t + d))
    ∧ (∀ d : ℝ, -π ≤ Model.Euler.angleMod truncF π d ∧ Model.Euler.angleMod truncF π d ≤ π) := by
  refine ⟨?_, ?_, fun d => angleMod_range truncF truncF_isTrunc π d Real.pi_pos⟩
  · intro t d
    obtain ⟨k, hk⟩ := angleMod_congr truncF π d
    rw [hk, ← add_assoc, Real.sin_add_int_mul_two_pi]
  · intro t d
    obtain ⟨k, hk⟩ := angleMod_congr truncF π d
    rw [hk, ← add_assoc, Real.cos_add_int_mul_two_pi]

/-! ## functions for which the double `M_PI` (`mpi`) IS the half period

`nearestRotation` adds the double `M_PI`, not π.  The hypotheses of the `makeNear` /
`nearestRotation` theorems are satisfied exactly by the sine and cosine rescaled so that `mpi` is
their half period (so the theorems are not vacuous); for the true `Real.sin` they hold up to
|M_PI − π| ≈ 1.2e-16 (measured residue). -/

noncomputable def sinM (x : ℝ) : ℝ := Real.sin (x * (π / mpi))
noncomputable def cosM (x : ℝ) : ℝ := Real.cos (x * (π / mpi))

theorem mpi_pos : (0 : ℝ) < mpi := by unfold mpi; positivity

theorem mpi_scale (x : ℝ) : (mpi + x) * (π / mpi) = π + x * (π / mpi) := by
  have := mpi_pos.ne'
  field_simp
theorem mpi_scale' (x : ℝ) : (mpi - x) * (π / mpi) = π - x * (π / mpi) := by
  have := mpi_pos.ne'
  field_simp

theorem sinM_cosM_hyps :
    (∀ x, sinM x ^ 2 + cosM x ^ 2 = 1) ∧ (∀ x, sinM (-x) = -sinM x) ∧ (∀ x, cosM (-x) = cosM x)
    ∧ (∀ x, sinM (mpi + x) = -sinM x) ∧ (∀ x, cosM (mpi + x) = -cosM x)
    ∧ (∀ x, sinM (mpi - x) = sinM x) ∧ (∀ x, cosM (mpi - x) = -cosM x) := by
  refine ⟨fun x => Real.sin_sq_add_cos_sq _, fun x => ?_, fun x => ?_, fun x => ?_, fun x => ?_, fun x => ?_, fun x => ?_⟩
  · simp only [sinM, neg_mul, Real.sin_neg]
  · simp only [cosM, neg_mul, Real.cos_neg]
  · simp only [sinM, mpi_scale, real_hsp]
  · simp only [cosM, mpi_scale, real_hcp]
  · simp only [sinM, mpi_scale', real_hsm]
  · simp only [cosM, mpi_scale', real_hcm]

theorem sinM_cosM_angleMod_hyps :
    (∀ t d : ℝ, sinM (t + Model.Euler.angleMod truncF mpi d) = sinM (t + d))
    ∧ (∀ t d : ℝ, cosM (t + Model.Euler.angleMod truncF mpi d) = cosM (t + d))
    ∧ (∀ d : ℝ, -mpi ≤ Model.Euler.angleMod truncF mpi d ∧ Model.Euler.angleMod truncF mpi d ≤ mpi) := by
  have hne := mpi_pos.ne'
  refine ⟨?_, ?_, fun d => angleMod_range truncF truncF_isTrunc mpi d mpi_pos⟩
  · intro t d
    obtain ⟨k, hk⟩ := angleMod_congr truncF (mpi : ℝ) d
    simp only [sinM, hk]
    rw [show (t + (d + (k : ℝ) * (2 * mpi))) * (π / mpi) = (t + d) * (π / mpi) + (k : ℝ) * (2 * π) by field_simp; ring,
      Real.sin_add_int_mul_two_pi]
  · intro t d
    obtain ⟨k, hk⟩ := angleMod_congr truncF (mpi : ℝ) d
    simp only [cosM, hk]
    rw [show (t + (d + (k : ℝ) * (2 * mpi))) * (π / mpi) = (t + d) * (π / mpi) + (k : ℝ) * (2 * π) by field_simp; ring,
      Real.cos_add_int_mul_two_pi]

/-! ## two-argument arctangent and the inverse direction `extract (toMatrix33 a) = a`

Over ℝ with `Real.sin`, `Real.cos`, `Real.sqrt` and `atan2R y x = arg (x + i y)`, on the OPEN principal
range of each order: first and last angle in (-π, π); middle angle in (-π/2, π/2) for the non-repeated
orders, in (0, π) for the parity-even and (-π, 0) for the parity-odd repeated-axis orders (away from
gimbal lock).  The per-order theorems are in Props/C11.lean (section 8). -/

/-- two-argument arctangent on ℝ: the argument of `x + i y` -/
noncomputable def atan2R (y x : ℝ) : ℝ := Complex.arg ⟨x, y⟩

theorem atan2R_polar (r θ : ℝ) (hr : 0 < r) (hθ : θ ∈ Set.Ioc (-π) π) :
    atan2R (r * Real.sin θ) (r * Real.cos θ) = θ := by
  unfold atan2R
  have : (⟨r * Real.cos θ, r * Real.sin θ⟩ : ℂ) = (r : ℂ) * (Complex.cos θ + Complex.sin θ * Complex.I) := by
    apply Complex.ext <;> simp [Complex.cos_ofReal_re, Complex.sin_ofReal_re, Complex.cos_ofReal_im, Complex.sin_ofReal_im]
  rw [this]
  exact Complex.arg_mul_cos_add_sin_mul_I hr hθ

/-- `atan2 (A, B) = θ` when `(B, A) = r (cos θ, sin θ)` with `r > 0`, `θ ∈ (-π, π]` -/
theorem atan2R_eq {A B : ℝ} (r θ : ℝ) (hr : 0 < r) (hθ : θ ∈ Set.Ioc (-π) π)
    (hA : A = r * Real.sin θ) (hB : B = r * Real.cos θ) : atan2R A B = θ := by
  rw [hA, hB]; exact atan2R_polar r θ hr hθ

/-- `atan2 (A, B) = -θ` when `(B, A) = r (cos θ, -sin θ)` with `r > 0`, `θ ∈ [-π, π)` -/
theorem atan2R_eq_neg {A B : ℝ} (r θ : ℝ) (hr : 0 < r) (hθ : θ ∈ Set.Ico (-π) π)
    (hA : A = -(r * Real.sin θ)) (hB : B = r * Real.cos θ) : atan2R A B = -θ := by
  apply atan2R_eq r (-θ) hr
  · constructor <;> [linarith [hθ.2]; linarith [hθ.1]]
  · rw [hA, Real.sin_neg]; ring
  · rw [hB, Real.cos_neg]

theorem sqrt_eq_of_sq {u c : ℝ} (hc : 0 ≤ c) (hu : u = c ^ 2) : √u = c := by rw [hu]; exact Real.sqrt_sq hc

theorem Ioo_sub_Ioc {y : ℝ} (hy : y ∈ Set.Ioo (-(π / 2)) (π / 2)) : y ∈ Set.Ioc (-π) π :=
  ⟨by linarith [hy.1, Real.pi_pos], by linarith [hy.2, Real.pi_pos]⟩
theorem Ioo_sub_Ico {y : ℝ} (hy : y ∈ Set.Ioo (-(π / 2)) (π / 2)) : y ∈ Set.Ico (-π) π :=
  ⟨by linarith [hy.1, Real.pi_pos], by linarith [hy.2, Real.pi_pos]⟩

theorem real_hsqrt : ∀ x : ℝ, 0 ≤ x → Real.sqrt x * Real.sqrt x = x ∧ 0 ≤ Real.sqrt x :=
  fun x hx => ⟨Real.mul_self_sqrt hx, Real.sqrt_nonneg x⟩

/-- `Vec3::length()` of a vector whose squares sum to 1 -/
theorem V3_length_unit (tmin tmax : ℝ) (v : V3 ℝ) (h : v.x * v.x + v.y * v.y + v.z * v.z = 1) :
    Gen.V3.length tmin tmax Real.sqrt v = 1 := by
  rw [C08.V3_length_eq tmin tmax real_hsqrt v, h, Real.sqrt_one]

theorem V2_length_unit (tmin tmax : ℝ) (v : V2 ℝ) (h : v.x * v.x + v.y * v.y = 1) :
    Gen.V2.length tmin tmax Real.sqrt v = 1 := by
  rw [C08.V2_length_eq tmin tmax real_hsqrt v, h, Real.sqrt_one]

end ImathVerif.Euler
