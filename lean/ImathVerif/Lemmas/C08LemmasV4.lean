import ImathVerif.Lemmas.C08Lemmas
/-!
# C08 lemmas — `Vec4::length()` (513-path tree) is the Euclidean norm

Separate module so that this tree elaborates in parallel with the Vec2/Vec3 ones (≈ 50 s).
Same scheme as `Lemmas/C08Lemmas.lean`: peel the `if`s one at a time, close each of the 513 leaves with
`scaled_div` (scaled branch, `0 < m` from the path conditions), `zero4` (all components forced to 0) or `ring`
(direct branch).  Exact arithmetic only; rounding is measured by the residue harness (level: partial).
-/
namespace ImathVerif.C08
open ImathVerif

section
variable {α : Type} [Field α] [LinearOrder α] [IsStrictOrderedRing α] {sqrt : α → α}

set_option maxHeartbeats 8000000 in
/-- `Vec4<T>::length()` (real body, `lengthTiny` inlined, 513 paths) is `sqrt (x² + y² + z² + w²)` for EVERY
vector and all limits `tmin`, `tmax`. -/
theorem V4_length_eq (tmin tmax : α) (hsqrt : ∀ x, 0 ≤ x → sqrt x * sqrt x = x ∧ 0 ≤ sqrt x) (a : V4 α) :
    Gen.V4.length tmin tmax sqrt a = sqrt (a.x * a.x + a.y * a.y + a.z * a.z + a.w * a.w) := by
  obtain ⟨x, y, z, w⟩ := a
  simp (config := { maxSteps := 10000000 }) only [Gen.V4.length]
  have hS0 : 0 ≤ x * x + y * y + z * z + w * w :=
    add_nonneg (add_nonneg (add_nonneg (mul_self_nonneg _) (mul_self_nonneg _)) (mul_self_nonneg _)) (mul_self_nonneg _)
  repeat' (refine ite_eq_of ?_ ?_ <;> intro _)
  all_goals first
    | (refine congrArg sqrt ?_; ring)
    | (refine zero4 hsqrt (x := x) (y := y) (z := z) (w := w) (le_antisymm (by linarith) (by linarith))
        (le_antisymm (by linarith) (by linarith)) (le_antisymm (by linarith) (by linarith))
        (le_antisymm (by linarith) (by linarith)) (by ring))
    | (refine scaled_div hsqrt (lt_of_le_of_ne' (by linarith) (by assumption)) hS0 (by ring))

theorem V4_length_sq (tmin tmax : α) (hsqrt : ∀ x, 0 ≤ x → sqrt x * sqrt x = x ∧ 0 ≤ sqrt x) (a : V4 α) :
    Gen.V4.length tmin tmax sqrt a * Gen.V4.length tmin tmax sqrt a = a.x * a.x + a.y * a.y + a.z * a.z + a.w * a.w ∧
      0 ≤ Gen.V4.length tmin tmax sqrt a := by
  rw [V4_length_eq tmin tmax hsqrt a]
  exact hsqrt _ (add_nonneg (add_nonneg (add_nonneg (mul_self_nonneg _) (mul_self_nonneg _)) (mul_self_nonneg _))
    (mul_self_nonneg _))

end
end ImathVerif.C08
