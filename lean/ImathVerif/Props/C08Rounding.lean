import ImathVerif.Gen.C08
import Mathlib.Analysis.Real.Sqrt
import Mathlib.Tactic.Linarith
import Mathlib.Tactic.Positivity
import Mathlib.Tactic.NormNum
/-!
# C08 — one PROVED rounding statement: the direct branch of `Vec2::length()` (audit r2 S5)

Everything C08 says about floating-point accuracy is MEASURED (harness/corr/c08_residue.cpp).  This file proves the simplest case, so that
one of the measured bounds is also a derived number: in the standard model of rounding WITHOUT underflow and overflow
(`|fl t - t| ≤ u·|t|` for every real `t`, `0 ≤ u ≤ 1`), the EXTRACTED `Gen.V2.length` — instantiated at the type `Fl M` of reals in which
every `+`, `*`, `/` and the square root are followed by a rounding `fl` — returns, on its direct branch,
`fl (sqrt (fl (fl (x*x) + fl (y*y))))`, and that value is within `(2u + u²)·√(x²+y²)` of `√(x²+y²)`.

* The tie to the code is the regenerated definition itself: `Gen.V2.length` only needs `Add Mul Div Neg LT DecidableEq OfNat`, so it can be
  run over `Fl M`; which operations are performed, in which order, is read off the extracted tree by `simp only [Gen.V2.length]`
  (`V2_length_direct_eq`).  The hypotheses `h1 h2` are the two guards of the code, evaluated in `Fl M` exactly as the code evaluates them.
* In ulps: `ulp(w) > u·w` for a normal `w` (with `u = 2^-p` the unit roundoff), so the error is below `(2 + u)` ulps of the true norm — the
  measured clean-tree maximum of the class `direct` is 1.6-1.75 ulps and its bound 2.8 (calibration + 1).
* NOT covered: underflow of the squares (that is what the guard `dot < 2*min` and the scaled branch are for: measured), overflow, the
  scaled branch, N = 3, 4, and the fact that IEEE arithmetic satisfies the model on normal numbers (standard; assumed, not proved here).
-/
namespace ImathVerif.C08
open ImathVerif

/-- the standard model: a rounding function with relative error at most `u` on every real (no underflow, no overflow) -/
structure RoundModel where
  fl : ℝ → ℝ
  u : ℝ
  u_nonneg : 0 ≤ u
  u_le_one : u ≤ 1
  rel : ∀ t : ℝ, |fl t - t| ≤ u * |t|

/-- reals on which every arithmetic operation is followed by the rounding of the model -/
structure Fl (M : RoundModel) where
  v : ℝ

namespace Fl
variable {M : RoundModel}
noncomputable instance : Add (Fl M) := ⟨fun a b => ⟨M.fl (a.v + b.v)⟩⟩
noncomputable instance : Mul (Fl M) := ⟨fun a b => ⟨M.fl (a.v * b.v)⟩⟩
noncomputable instance : Div (Fl M) := ⟨fun a b => ⟨M.fl (a.v / b.v)⟩⟩
instance : Neg (Fl M) := ⟨fun a => ⟨-a.v⟩⟩                       -- negation is exact
instance : LT (Fl M) := ⟨fun a b => a.v < b.v⟩
noncomputable instance : DecidableLT (Fl M) := fun _ _ => Classical.propDecidable _
noncomputable instance : DecidableEq (Fl M) := fun _ _ => Classical.propDecidable _
instance : OfNat (Fl M) 0 := ⟨⟨0⟩⟩
instance : OfNat (Fl M) 2 := ⟨⟨2⟩⟩
/-- the rounded square root -/
noncomputable def sqrt (a : Fl M) : Fl M := ⟨M.fl (Real.sqrt a.v)⟩
end Fl

/-- a rounded non-negative number lies between `(1-u)·t` and `(1+u)·t` -/
theorem RoundModel.bounds (M : RoundModel) {t : ℝ} (ht : 0 ≤ t) : (1 - M.u) * t ≤ M.fl t ∧ M.fl t ≤ (1 + M.u) * t := by
  have h := M.rel t
  rw [abs_of_nonneg ht, abs_le] at h
  constructor <;> nlinarith [h.1, h.2]

/-- pure real analysis: `fl (sqrt (fl (fl (x*x) + fl (y*y))))` is within `(2u + u²)·√(x²+y²)` of `√(x²+y²)` -/
theorem direct2_rounding (M : RoundModel) (x y : ℝ) :
    |M.fl (Real.sqrt (M.fl (M.fl (x * x) + M.fl (y * y)))) - Real.sqrt (x * x + y * y)| ≤
      (2 * M.u + M.u ^ 2) * Real.sqrt (x * x + y * y) := by
  have hu0 := M.u_nonneg
  have hu1 := M.u_le_one
  have hx : 0 ≤ x * x := mul_self_nonneg x
  have hy : 0 ≤ y * y := mul_self_nonneg y
  have hS : 0 ≤ x * x + y * y := add_nonneg hx hy
  obtain ⟨a1, a2⟩ := M.bounds hx
  obtain ⟨b1, b2⟩ := M.bounds hy
  have ha0 : 0 ≤ M.fl (x * x) := le_trans (mul_nonneg (by linarith) hx) a1
  have hb0 : 0 ≤ M.fl (y * y) := le_trans (mul_nonneg (by linarith) hy) b1
  have hab0 : 0 ≤ M.fl (x * x) + M.fl (y * y) := add_nonneg ha0 hb0
  obtain ⟨s1, s2⟩ := M.bounds hab0
  set S := x * x + y * y with hSdef
  set s := M.fl (M.fl (x * x) + M.fl (y * y)) with hsdef
  set w := Real.sqrt S with hwdef
  have hw0 : 0 ≤ w := Real.sqrt_nonneg S
  have hww : w * w = S := Real.mul_self_sqrt hS
  -- the rounded dot lies between (1-u)²·S and (1+u)²·S
  have hs_lo : (1 - M.u) ^ 2 * S ≤ s := by nlinarith [mul_nonneg (by linarith : (0 : ℝ) ≤ 1 - M.u) hx, mul_nonneg (by linarith : (0 : ℝ) ≤ 1 - M.u) hy]
  have hs_hi : s ≤ (1 + M.u) ^ 2 * S := by nlinarith [mul_nonneg (by linarith : (0 : ℝ) ≤ 1 + M.u) hx, mul_nonneg (by linarith : (0 : ℝ) ≤ 1 + M.u) hy]
  have hs0 : 0 ≤ s := le_trans (mul_nonneg (sq_nonneg _) hS) hs_lo
  -- so its square root lies between (1-u)·w and (1+u)·w
  have ht_hi : Real.sqrt s ≤ (1 + M.u) * w := by
    rw [Real.sqrt_le_left (by positivity)]
    calc s ≤ (1 + M.u) ^ 2 * S := hs_hi
      _ = ((1 + M.u) * w) ^ 2 := by rw [← hww]; ring
  have ht_lo : (1 - M.u) * w ≤ Real.sqrt s := by
    apply Real.le_sqrt_of_sq_le
    calc ((1 - M.u) * w) ^ 2 = (1 - M.u) ^ 2 * S := by rw [← hww]; ring
      _ ≤ s := hs_lo
  have ht0 : 0 ≤ Real.sqrt s := Real.sqrt_nonneg s
  obtain ⟨r1, r2⟩ := M.bounds ht0
  rw [abs_le]
  constructor <;> nlinarith [mul_nonneg hu0 hw0, mul_nonneg (mul_nonneg hu0 hu0) hw0, mul_nonneg (by linarith : (0 : ℝ) ≤ 1 - M.u) hw0]

/-- what the EXTRACTED `Vec2::length()` computes over rounded reals when both guards are false: read off the regenerated tree -/
theorem V2_length_direct_eq (M : RoundModel) (tmin tmax : Fl M) (a b : Fl M)
    (h1 : ¬ (a * a + b * b < 2 * tmin)) (h2 : ¬ (tmax < a * a + b * b)) :
    Gen.V2.length tmin tmax Fl.sqrt ⟨a, b⟩ = Fl.sqrt (a * a + b * b) := by
  simp only [Gen.V2.length]
  rw [if_neg h1, if_neg h2]

/-- PROVED accuracy of the direct branch of `Vec2::length()` in the standard model: relative error at most `2u + u²`
(i.e. less than `2 + u` ulps of the true norm) -/
theorem V2_length_direct_rounded (M : RoundModel) (tmin tmax : Fl M) (x y : ℝ)
    (h1 : ¬ ((⟨x⟩ * ⟨x⟩ + ⟨y⟩ * ⟨y⟩ : Fl M) < 2 * tmin)) (h2 : ¬ (tmax < (⟨x⟩ * ⟨x⟩ + ⟨y⟩ * ⟨y⟩ : Fl M))) :
    |(Gen.V2.length tmin tmax Fl.sqrt ⟨⟨x⟩, ⟨y⟩⟩).v - Real.sqrt (x * x + y * y)| ≤
      (2 * M.u + M.u ^ 2) * Real.sqrt (x * x + y * y) := by
  rw [V2_length_direct_eq M tmin tmax ⟨x⟩ ⟨y⟩ h1 h2]
  exact direct2_rounding M x y

/-! ## non-vacuity: a model with a genuine rounding error, and a vector on the direct branch -/

/-- a model that really rounds: `fl t = t·(1 + 1/1024)`, `u = 1/1024` -/
noncomputable def exampleModel : RoundModel where
  fl t := t * (1 + 1 / 1024)
  u := 1 / 1024
  u_nonneg := by norm_num
  u_le_one := by norm_num
  rel t := by
    have : t * (1 + 1 / 1024) - t = 1 / 1024 * t := by ring
    rw [this, abs_mul, abs_of_pos (by norm_num : (0 : ℝ) < 1 / 1024)]

/-- (3,4) with `tmin = 1`, `tmax = 1000` is on the direct branch of the extracted code run over that model (both guards false) -/
example : ¬ ((⟨3⟩ * ⟨3⟩ + ⟨4⟩ * ⟨4⟩ : Fl exampleModel) < 2 * ⟨1⟩) ∧ ¬ ((⟨1000⟩ : Fl exampleModel) < (⟨3⟩ * ⟨3⟩ + ⟨4⟩ * ⟨4⟩ : Fl exampleModel)) := by
  constructor
  · change ¬ (exampleModel.fl (exampleModel.fl (3 * 3) + exampleModel.fl (4 * 4)) < exampleModel.fl (2 * 1))
    simp only [exampleModel]; norm_num
  · change ¬ ((1000 : ℝ) < exampleModel.fl (exampleModel.fl (3 * 3) + exampleModel.fl (4 * 4)))
    simp only [exampleModel]; norm_num

end ImathVerif.C08
