import ImathVerif.Basic.Maps
import ImathVerif.Gen.C04Vec
import ImathVerif.Gen.C04Color
import ImathVerif.Gen.C04Shear
import ImathVerif.Gen.C04Quat
import ImathVerif.Gen.C04Mat
import Mathlib.Tactic.SplitIfs
import Mathlib.Logic.Basic
import Mathlib.Algebra.Order.Ring.Abs
/-!
# C04 — aggregates are component-wise: operators, equality, accessors, layout

`Gen.*` are the definitions regenerated from the C++ templates on every run
(T = Sym path extraction, validated at all seven element types).  Each theorem
says that an operator spelling computes, in every slot, exactly the scalar
operation on the corresponding slots (`zip`/`map`), that equality depends on
every slot, and that accessors / constructors / interop address the slots in
declaration order (matrices row-major).  The statements hold for ANY scalar
type with the operations involved (no algebraic laws are used), which is why
they cover the integer element types and half as well as float/double.
-/
namespace ImathVerif.C04
open ImathVerif

theorem ite_false_iff {p : Prop} [Decidable p] (x : Bool) :
    ((if p then x else false) = true) ↔ (p ∧ x = true) := by
  by_cases h : p <;> simp [h]

theorem ite_true_iff {p : Prop} [Decidable p] (x : Bool) :
    ((if p then x else true) = true) ↔ (p → x = true) := by
  by_cases h : p <;> simp [h]

/-- closes `Gen.X.eq a b = true ↔ a = b`, the `≠` form and the approximate-equality forms:
the extracted short-circuit chain of `if`s is a conjunction over all slots -/
macro "eqtac " f:ident : tactic =>
  `(tactic| simp only [$f:ident, ite_false_iff, ite_true_iff, V2.mk.injEq, V3.mk.injEq, V4.mk.injEq, C4.mk.injEq,
      Shear6.mk.injEq, M22.mk.injEq, M33.mk.injEq, M44.mk.injEq, Quat.mk.injEq, V2.All₂, V3.All₂, V4.All₂, C4.All₂,
      Shear6.All₂, M22.All₂, M33.All₂, M44.All₂, and_true, ne_eq, not_and, Bool.false_eq_true, and_assoc])

theorem V2_add {α : Type} [Add α] (a b : V2 α) :
    Gen.V2.add a b = V2.zip (· + ·) a b := rfl

theorem V2_addAssign {α : Type} [Add α] (a b : V2 α) :
    Gen.V2.addAssign a b = V2.zip (· + ·) a b := rfl

theorem V2_sub {α : Type} [Sub α] (a b : V2 α) :
    Gen.V2.sub a b = V2.zip (· - ·) a b := rfl

theorem V2_subAssign {α : Type} [Sub α] (a b : V2 α) :
    Gen.V2.subAssign a b = V2.zip (· - ·) a b := rfl

theorem V2_neg {α : Type} [Neg α] (a : V2 α) :
    Gen.V2.neg a = V2.map (- ·) a := rfl

theorem V2_negate {α : Type} [Neg α] (a : V2 α) :
    Gen.V2.negate a = V2.map (- ·) a := rfl

theorem V2_mul {α : Type} [Mul α] (a b : V2 α) :
    Gen.V2.mul a b = V2.zip (· * ·) a b := rfl

theorem V2_mulAssign {α : Type} [Mul α] (a b : V2 α) :
    Gen.V2.mulAssign a b = V2.zip (· * ·) a b := rfl

theorem V2_div {α : Type} [Div α] (a b : V2 α) :
    Gen.V2.div a b = V2.zip (· / ·) a b := rfl

theorem V2_divAssign {α : Type} [Div α] (a b : V2 α) :
    Gen.V2.divAssign a b = V2.zip (· / ·) a b := rfl

theorem V2_mulS {α : Type} [Mul α] (a : V2 α) (s : α) :
    Gen.V2.mulS a s = V2.map (· * s) a := rfl

theorem V2_mulSAssign {α : Type} [Mul α] (a : V2 α) (s : α) :
    Gen.V2.mulSAssign a s = V2.map (· * s) a := rfl

theorem V2_smul {α : Type} [Mul α] (s : α) (a : V2 α) :
    Gen.V2.smul s a = V2.map (s * ·) a := rfl

theorem V2_divS {α : Type} [Div α] (a : V2 α) (s : α) :
    Gen.V2.divS a s = V2.map (· / s) a := rfl

theorem V2_divSAssign {α : Type} [Div α] (a : V2 α) (s : α) :
    Gen.V2.divSAssign a s = V2.map (· / s) a := rfl

theorem V2_eq {α : Type} [DecidableEq α] (a b : V2 α) :
    Gen.V2.eq a b = true ↔ a = b := by
  cases a; cases b; eqtac Gen.V2.eq

theorem V2_ne {α : Type} [DecidableEq α] (a b : V2 α) :
    Gen.V2.ne a b = true ↔ a ≠ b := by
  cases a; cases b; eqtac Gen.V2.ne

theorem V2_equalWithAbsError {α : Type} [Sub α] [LT α] [LE α] [DecidableLT α] [DecidableLE α] (a b : V2 α) (e : α) :
    Gen.V2.equalWithAbsError a b e = true ↔ V2.All₂ (fun x y => sabsdiff x y ≤ e) a b := by
  eqtac Gen.V2.equalWithAbsError

theorem V2_equalWithRelError {α : Type} [Sub α] [Mul α] [Neg α] [OfNat α 0] [LT α] [LE α] [DecidableLT α] [DecidableLE α] (a b : V2 α) (e : α) :
    Gen.V2.equalWithRelError a b e = true ↔ V2.All₂ (fun x y => sabsdiff x y ≤ e * sabs x) a b := by
  eqtac Gen.V2.equalWithRelError

theorem V2_indexAll {α : Type} (a : V2 α) :
    Gen.V2.indexAll a = a := rfl

theorem V2_setIndexAll {α : Type} (a b : V2 α) :
    Gen.V2.setIndexAll a b = b := rfl

theorem V2_getValuePtr {α : Type} (a : V2 α) :
    Gen.V2.getValuePtr a = a := rfl

theorem V2_convertCtor {α : Type} (a : V2 α) :
    Gen.V2.convertCtor a = a := rfl

theorem V2_setValueV {α : Type} (a b : V2 α) :
    Gen.V2.setValueV a b = b := rfl

theorem V2_getValueV {α : Type} (a : V2 α) :
    Gen.V2.getValueV a = a := rfl

theorem V3_add {α : Type} [Add α] (a b : V3 α) :
    Gen.V3.add a b = V3.zip (· + ·) a b := rfl

theorem V3_addAssign {α : Type} [Add α] (a b : V3 α) :
    Gen.V3.addAssign a b = V3.zip (· + ·) a b := rfl

theorem V3_sub {α : Type} [Sub α] (a b : V3 α) :
    Gen.V3.sub a b = V3.zip (· - ·) a b := rfl

theorem V3_subAssign {α : Type} [Sub α] (a b : V3 α) :
    Gen.V3.subAssign a b = V3.zip (· - ·) a b := rfl

theorem V3_neg {α : Type} [Neg α] (a : V3 α) :
    Gen.V3.neg a = V3.map (- ·) a := rfl

theorem V3_negate {α : Type} [Neg α] (a : V3 α) :
    Gen.V3.negate a = V3.map (- ·) a := rfl

theorem V3_mul {α : Type} [Mul α] (a b : V3 α) :
    Gen.V3.mul a b = V3.zip (· * ·) a b := rfl

theorem V3_mulAssign {α : Type} [Mul α] (a b : V3 α) :
    Gen.V3.mulAssign a b = V3.zip (· * ·) a b := rfl

theorem V3_div {α : Type} [Div α] (a b : V3 α) :
    Gen.V3.div a b = V3.zip (· / ·) a b := rfl

theorem V3_divAssign {α : Type} [Div α] (a b : V3 α) :
    Gen.V3.divAssign a b = V3.zip (· / ·) a b := rfl

theorem V3_mulS {α : Type} [Mul α] (a : V3 α) (s : α) :
    Gen.V3.mulS a s = V3.map (· * s) a := rfl

theorem V3_mulSAssign {α : Type} [Mul α] (a : V3 α) (s : α) :
    Gen.V3.mulSAssign a s = V3.map (· * s) a := rfl

theorem V3_smul {α : Type} [Mul α] (s : α) (a : V3 α) :
    Gen.V3.smul s a = V3.map (s * ·) a := rfl

theorem V3_divS {α : Type} [Div α] (a : V3 α) (s : α) :
    Gen.V3.divS a s = V3.map (· / s) a := rfl

theorem V3_divSAssign {α : Type} [Div α] (a : V3 α) (s : α) :
    Gen.V3.divSAssign a s = V3.map (· / s) a := rfl

theorem V3_eq {α : Type} [DecidableEq α] (a b : V3 α) :
    Gen.V3.eq a b = true ↔ a = b := by
  cases a; cases b; eqtac Gen.V3.eq

theorem V3_ne {α : Type} [DecidableEq α] (a b : V3 α) :
    Gen.V3.ne a b = true ↔ a ≠ b := by
  cases a; cases b; eqtac Gen.V3.ne

theorem V3_equalWithAbsError {α : Type} [Sub α] [LT α] [LE α] [DecidableLT α] [DecidableLE α] (a b : V3 α) (e : α) :
    Gen.V3.equalWithAbsError a b e = true ↔ V3.All₂ (fun x y => sabsdiff x y ≤ e) a b := by
  eqtac Gen.V3.equalWithAbsError

theorem V3_equalWithRelError {α : Type} [Sub α] [Mul α] [Neg α] [OfNat α 0] [LT α] [LE α] [DecidableLT α] [DecidableLE α] (a b : V3 α) (e : α) :
    Gen.V3.equalWithRelError a b e = true ↔ V3.All₂ (fun x y => sabsdiff x y ≤ e * sabs x) a b := by
  eqtac Gen.V3.equalWithRelError

theorem V3_indexAll {α : Type} (a : V3 α) :
    Gen.V3.indexAll a = a := rfl

theorem V3_setIndexAll {α : Type} (a b : V3 α) :
    Gen.V3.setIndexAll a b = b := rfl

theorem V3_getValuePtr {α : Type} (a : V3 α) :
    Gen.V3.getValuePtr a = a := rfl

theorem V3_convertCtor {α : Type} (a : V3 α) :
    Gen.V3.convertCtor a = a := rfl

theorem V3_setValueV {α : Type} (a b : V3 α) :
    Gen.V3.setValueV a b = b := rfl

theorem V3_getValueV {α : Type} (a : V3 α) :
    Gen.V3.getValueV a = a := rfl

theorem V4_add {α : Type} [Add α] (a b : V4 α) :
    Gen.V4.add a b = V4.zip (· + ·) a b := rfl

theorem V4_addAssign {α : Type} [Add α] (a b : V4 α) :
    Gen.V4.addAssign a b = V4.zip (· + ·) a b := rfl

theorem V4_sub {α : Type} [Sub α] (a b : V4 α) :
    Gen.V4.sub a b = V4.zip (· - ·) a b := rfl

theorem V4_subAssign {α : Type} [Sub α] (a b : V4 α) :
    Gen.V4.subAssign a b = V4.zip (· - ·) a b := rfl

theorem V4_neg {α : Type} [Neg α] (a : V4 α) :
    Gen.V4.neg a = V4.map (- ·) a := rfl

theorem V4_negate {α : Type} [Neg α] (a : V4 α) :
    Gen.V4.negate a = V4.map (- ·) a := rfl

theorem V4_mul {α : Type} [Mul α] (a b : V4 α) :
    Gen.V4.mul a b = V4.zip (· * ·) a b := rfl

theorem V4_mulAssign {α : Type} [Mul α] (a b : V4 α) :
    Gen.V4.mulAssign a b = V4.zip (· * ·) a b := rfl

theorem V4_div {α : Type} [Div α] (a b : V4 α) :
    Gen.V4.div a b = V4.zip (· / ·) a b := rfl

theorem V4_divAssign {α : Type} [Div α] (a b : V4 α) :
    Gen.V4.divAssign a b = V4.zip (· / ·) a b := rfl

theorem V4_mulS {α : Type} [Mul α] (a : V4 α) (s : α) :
    Gen.V4.mulS a s = V4.map (· * s) a := rfl

theorem V4_mulSAssign {α : Type} [Mul α] (a : V4 α) (s : α) :
    Gen.V4.mulSAssign a s = V4.map (· * s) a := rfl

theorem V4_smul {α : Type} [Mul α] (s : α) (a : V4 α) :
    Gen.V4.smul s a = V4.map (s * ·) a := rfl

theorem V4_divS {α : Type} [Div α] (a : V4 α) (s : α) :
    Gen.V4.divS a s = V4.map (· / s) a := rfl

theorem V4_divSAssign {α : Type} [Div α] (a : V4 α) (s : α) :
    Gen.V4.divSAssign a s = V4.map (· / s) a := rfl

theorem V4_eq {α : Type} [DecidableEq α] (a b : V4 α) :
    Gen.V4.eq a b = true ↔ a = b := by
  cases a; cases b; eqtac Gen.V4.eq

theorem V4_ne {α : Type} [DecidableEq α] (a b : V4 α) :
    Gen.V4.ne a b = true ↔ a ≠ b := by
  cases a; cases b; eqtac Gen.V4.ne

theorem V4_equalWithAbsError {α : Type} [Sub α] [LT α] [LE α] [DecidableLT α] [DecidableLE α] (a b : V4 α) (e : α) :
    Gen.V4.equalWithAbsError a b e = true ↔ V4.All₂ (fun x y => sabsdiff x y ≤ e) a b := by
  eqtac Gen.V4.equalWithAbsError

theorem V4_equalWithRelError {α : Type} [Sub α] [Mul α] [Neg α] [OfNat α 0] [LT α] [LE α] [DecidableLT α] [DecidableLE α] (a b : V4 α) (e : α) :
    Gen.V4.equalWithRelError a b e = true ↔ V4.All₂ (fun x y => sabsdiff x y ≤ e * sabs x) a b := by
  eqtac Gen.V4.equalWithRelError

theorem V4_indexAll {α : Type} (a : V4 α) :
    Gen.V4.indexAll a = a := rfl

theorem V4_setIndexAll {α : Type} (a b : V4 α) :
    Gen.V4.setIndexAll a b = b := rfl

theorem V4_getValuePtr {α : Type} (a : V4 α) :
    Gen.V4.getValuePtr a = a := rfl

theorem V4_convertCtor {α : Type} (a : V4 α) :
    Gen.V4.convertCtor a = a := rfl

theorem V4_setValueV {α : Type} (a b : V4 α) :
    Gen.V4.setValueV a b = b := rfl

theorem V4_getValueV {α : Type} (a : V4 α) :
    Gen.V4.getValueV a = a := rfl

theorem V2_setValueS {α : Type} (a b : V2 α) :
    Gen.V2.setValueS a b = b := rfl

theorem V3_setValueS {α : Type} (a b : V3 α) :
    Gen.V3.setValueS a b = b := rfl

theorem V4_setValueS {α : Type} (a b : V4 α) :
    Gen.V4.setValueS a b = b := rfl

theorem V2_getValueS {α : Type} (a : V2 α) :
    Gen.V2.getValueS a = a := rfl

theorem V3_getValueS {α : Type} (a : V3 α) :
    Gen.V3.getValueS a = a := rfl

theorem V4_getValueS {α : Type} (a : V4 α) :
    Gen.V4.getValueS a = a := rfl

theorem V2_ctorScalar {α : Type} (s : α) :
    Gen.V2.ctorScalar s = V2.const s := rfl

theorem V3_ctorScalar {α : Type} (s : α) :
    Gen.V3.ctorScalar s = V3.const s := rfl

theorem V4_ctorScalar {α : Type} (s : α) :
    Gen.V4.ctorScalar s = V4.const s := rfl



theorem V2_interopXY {α : Type} (a : V2 α) :
    Gen.V2.interopXY a = (a, a) := rfl

theorem V3_interopXYZ {α : Type} (a : V3 α) :
    Gen.V3.interopXYZ a = (a, a) := rfl

theorem V4_interopXYZW {α : Type} (a : V4 α) :
    Gen.V4.interopXYZW a = (a, a) := rfl

theorem V2_interopSub {α : Type} (a : V2 α) :
    Gen.V2.interopSub a = (a, a) := rfl

theorem V3_interopSub {α : Type} (a : V3 α) :
    Gen.V3.interopSub a = (a, a) := rfl

theorem V4_interopSub {α : Type} (a : V4 α) :
    Gen.V4.interopSub a = (a, a) := rfl

theorem C3_add {α : Type} [Add α] (a b : V3 α) :
    Gen.C3.add a b = V3.zip (· + ·) a b := rfl

theorem C3_addAssign {α : Type} [Add α] (a b : V3 α) :
    Gen.C3.addAssign a b = V3.zip (· + ·) a b := rfl

theorem C3_sub {α : Type} [Sub α] (a b : V3 α) :
    Gen.C3.sub a b = V3.zip (· - ·) a b := rfl

theorem C3_subAssign {α : Type} [Sub α] (a b : V3 α) :
    Gen.C3.subAssign a b = V3.zip (· - ·) a b := rfl

theorem C3_neg {α : Type} [Neg α] (a : V3 α) :
    Gen.C3.neg a = V3.map (- ·) a := rfl

theorem C3_negate {α : Type} [Neg α] (a : V3 α) :
    Gen.C3.negate a = V3.map (- ·) a := rfl

theorem C3_mul {α : Type} [Mul α] (a b : V3 α) :
    Gen.C3.mul a b = V3.zip (· * ·) a b := rfl

theorem C3_mulAssign {α : Type} [Mul α] (a b : V3 α) :
    Gen.C3.mulAssign a b = V3.zip (· * ·) a b := rfl

theorem C3_div {α : Type} [Div α] (a b : V3 α) :
    Gen.C3.div a b = V3.zip (· / ·) a b := rfl

theorem C3_divAssign {α : Type} [Div α] (a b : V3 α) :
    Gen.C3.divAssign a b = V3.zip (· / ·) a b := rfl

theorem C3_mulS {α : Type} [Mul α] (a : V3 α) (s : α) :
    Gen.C3.mulS a s = V3.map (· * s) a := rfl

theorem C3_mulSAssign {α : Type} [Mul α] (a : V3 α) (s : α) :
    Gen.C3.mulSAssign a s = V3.map (· * s) a := rfl

theorem C3_smul {α : Type} [Mul α] (s : α) (a : V3 α) :
    Gen.C3.smul s a = V3.map (s * ·) a := rfl

theorem C3_divS {α : Type} [Div α] (a : V3 α) (s : α) :
    Gen.C3.divS a s = V3.map (· / s) a := rfl

theorem C3_divSAssign {α : Type} [Div α] (a : V3 α) (s : α) :
    Gen.C3.divSAssign a s = V3.map (· / s) a := rfl

theorem C4_add {α : Type} [Add α] (a b : C4 α) :
    Gen.C4.add a b = C4.zip (· + ·) a b := rfl

theorem C4_addAssign {α : Type} [Add α] (a b : C4 α) :
    Gen.C4.addAssign a b = C4.zip (· + ·) a b := rfl

theorem C4_sub {α : Type} [Sub α] (a b : C4 α) :
    Gen.C4.sub a b = C4.zip (· - ·) a b := rfl

theorem C4_subAssign {α : Type} [Sub α] (a b : C4 α) :
    Gen.C4.subAssign a b = C4.zip (· - ·) a b := rfl

theorem C4_neg {α : Type} [Neg α] (a : C4 α) :
    Gen.C4.neg a = C4.map (- ·) a := rfl

theorem C4_negate {α : Type} [Neg α] (a : C4 α) :
    Gen.C4.negate a = C4.map (- ·) a := rfl

theorem C4_mul {α : Type} [Mul α] (a b : C4 α) :
    Gen.C4.mul a b = C4.zip (· * ·) a b := rfl

theorem C4_mulAssign {α : Type} [Mul α] (a b : C4 α) :
    Gen.C4.mulAssign a b = C4.zip (· * ·) a b := rfl

theorem C4_div {α : Type} [Div α] (a b : C4 α) :
    Gen.C4.div a b = C4.zip (· / ·) a b := rfl

theorem C4_divAssign {α : Type} [Div α] (a b : C4 α) :
    Gen.C4.divAssign a b = C4.zip (· / ·) a b := rfl

theorem C4_mulS {α : Type} [Mul α] (a : C4 α) (s : α) :
    Gen.C4.mulS a s = C4.map (· * s) a := rfl

theorem C4_mulSAssign {α : Type} [Mul α] (a : C4 α) (s : α) :
    Gen.C4.mulSAssign a s = C4.map (· * s) a := rfl

theorem C4_smul {α : Type} [Mul α] (s : α) (a : C4 α) :
    Gen.C4.smul s a = C4.map (s * ·) a := rfl

theorem C4_divS {α : Type} [Div α] (a : C4 α) (s : α) :
    Gen.C4.divS a s = C4.map (· / s) a := rfl

theorem C4_divSAssign {α : Type} [Div α] (a : C4 α) (s : α) :
    Gen.C4.divSAssign a s = C4.map (· / s) a := rfl

theorem C4_eq {α : Type} [DecidableEq α] (a b : C4 α) :
    Gen.C4.eq a b = true ↔ a = b := by
  cases a; cases b; eqtac Gen.C4.eq

theorem C4_ne {α : Type} [DecidableEq α] (a b : C4 α) :
    Gen.C4.ne a b = true ↔ a ≠ b := by
  cases a; cases b; eqtac Gen.C4.ne

theorem C4_indexAll {α : Type} (a : C4 α) :
    Gen.C4.indexAll a = a := rfl

theorem C4_setIndexAll {α : Type} (a b : C4 α) :
    Gen.C4.setIndexAll a b = b := rfl

theorem C4_getValuePtr {α : Type} (a : C4 α) :
    Gen.C4.getValuePtr a = a := rfl

theorem C4_convertCtor {α : Type} (a : C4 α) :
    Gen.C4.convertCtor a = a := rfl

theorem C4_setValueV {α : Type} (a b : C4 α) :
    Gen.C4.setValueV a b = b := rfl

theorem C4_getValueV {α : Type} (a : C4 α) :
    Gen.C4.getValueV a = a := rfl

theorem C4_setValueS {α : Type} (a b : C4 α) :
    Gen.C4.setValueS a b = b := rfl

theorem C4_getValueS {α : Type} (a : C4 α) :
    Gen.C4.getValueS a = a := rfl


theorem C3_ctorScalar {α : Type} (s : α) :
    Gen.C3.ctorScalar s = V3.const s := rfl

theorem C4_ctorScalar {α : Type} (s : α) :
    Gen.C4.ctorScalar s = C4.const s := rfl

theorem Shear6_add {α : Type} [Add α] (a b : Shear6 α) :
    Gen.Shear6.add a b = Shear6.zip (· + ·) a b := rfl

theorem Shear6_addAssign {α : Type} [Add α] (a b : Shear6 α) :
    Gen.Shear6.addAssign a b = Shear6.zip (· + ·) a b := rfl

theorem Shear6_sub {α : Type} [Sub α] (a b : Shear6 α) :
    Gen.Shear6.sub a b = Shear6.zip (· - ·) a b := rfl

theorem Shear6_subAssign {α : Type} [Sub α] (a b : Shear6 α) :
    Gen.Shear6.subAssign a b = Shear6.zip (· - ·) a b := rfl

theorem Shear6_neg {α : Type} [Neg α] (a : Shear6 α) :
    Gen.Shear6.neg a = Shear6.map (- ·) a := rfl

theorem Shear6_negate {α : Type} [Neg α] (a : Shear6 α) :
    Gen.Shear6.negate a = Shear6.map (- ·) a := rfl

theorem Shear6_mul {α : Type} [Mul α] (a b : Shear6 α) :
    Gen.Shear6.mul a b = Shear6.zip (· * ·) a b := rfl

theorem Shear6_mulAssign {α : Type} [Mul α] (a b : Shear6 α) :
    Gen.Shear6.mulAssign a b = Shear6.zip (· * ·) a b := rfl

theorem Shear6_div {α : Type} [Div α] (a b : Shear6 α) :
    Gen.Shear6.div a b = Shear6.zip (· / ·) a b := rfl

theorem Shear6_divAssign {α : Type} [Div α] (a b : Shear6 α) :
    Gen.Shear6.divAssign a b = Shear6.zip (· / ·) a b := rfl

theorem Shear6_mulS {α : Type} [Mul α] (a : Shear6 α) (s : α) :
    Gen.Shear6.mulS a s = Shear6.map (· * s) a := rfl

theorem Shear6_mulSAssign {α : Type} [Mul α] (a : Shear6 α) (s : α) :
    Gen.Shear6.mulSAssign a s = Shear6.map (· * s) a := rfl

theorem Shear6_smul {α : Type} [Mul α] (s : α) (a : Shear6 α) :
    Gen.Shear6.smul s a = Shear6.map (s * ·) a := rfl

theorem Shear6_divS {α : Type} [Div α] (a : Shear6 α) (s : α) :
    Gen.Shear6.divS a s = Shear6.map (· / s) a := rfl

theorem Shear6_divSAssign {α : Type} [Div α] (a : Shear6 α) (s : α) :
    Gen.Shear6.divSAssign a s = Shear6.map (· / s) a := rfl

theorem Shear6_eq {α : Type} [DecidableEq α] (a b : Shear6 α) :
    Gen.Shear6.eq a b = true ↔ a = b := by
  cases a; cases b; eqtac Gen.Shear6.eq

theorem Shear6_ne {α : Type} [DecidableEq α] (a b : Shear6 α) :
    Gen.Shear6.ne a b = true ↔ a ≠ b := by
  cases a; cases b; eqtac Gen.Shear6.ne

theorem Shear6_equalWithAbsError {α : Type} [Sub α] [LT α] [LE α] [DecidableLT α] [DecidableLE α] (a b : Shear6 α) (e : α) :
    Gen.Shear6.equalWithAbsError a b e = true ↔ Shear6.All₂ (fun x y => sabsdiff x y ≤ e) a b := by
  eqtac Gen.Shear6.equalWithAbsError

theorem Shear6_equalWithRelError {α : Type} [Sub α] [Mul α] [Neg α] [OfNat α 0] [LT α] [LE α] [DecidableLT α] [DecidableLE α] (a b : Shear6 α) (e : α) :
    Gen.Shear6.equalWithRelError a b e = true ↔ Shear6.All₂ (fun x y => sabsdiff x y ≤ e * sabs x) a b := by
  eqtac Gen.Shear6.equalWithRelError

theorem Shear6_indexAll {α : Type} (a : Shear6 α) :
    Gen.Shear6.indexAll a = a := rfl

theorem Shear6_setIndexAll {α : Type} (a b : Shear6 α) :
    Gen.Shear6.setIndexAll a b = b := rfl

theorem Shear6_getValuePtr {α : Type} (a : Shear6 α) :
    Gen.Shear6.getValuePtr a = a := rfl

theorem Shear6_convertCtor {α : Type} (a : Shear6 α) :
    Gen.Shear6.convertCtor a = a := rfl

theorem Shear6_setValueV {α : Type} (a b : Shear6 α) :
    Gen.Shear6.setValueV a b = b := rfl

theorem Shear6_getValueV {α : Type} (a : Shear6 α) :
    Gen.Shear6.getValueV a = a := rfl

theorem Shear6_setValueS {α : Type} (a b : Shear6 α) :
    Gen.Shear6.setValueS a b = b := rfl

theorem Shear6_getValueS {α : Type} (a : Shear6 α) :
    Gen.Shear6.getValueS a = a := rfl



theorem Quat_add {α : Type} [Add α] (a b : Quat α) :
    Gen.Quat.add a b = Quat.zip (· + ·) a b := rfl

theorem Quat_addAssign {α : Type} [Add α] (a b : Quat α) :
    Gen.Quat.addAssign a b = Quat.zip (· + ·) a b := rfl

theorem Quat_sub {α : Type} [Sub α] (a b : Quat α) :
    Gen.Quat.sub a b = Quat.zip (· - ·) a b := rfl

theorem Quat_subAssign {α : Type} [Sub α] (a b : Quat α) :
    Gen.Quat.subAssign a b = Quat.zip (· - ·) a b := rfl

theorem Quat_neg {α : Type} [Neg α] (a : Quat α) :
    Gen.Quat.neg a = Quat.map (- ·) a := rfl

theorem Quat_mulS {α : Type} [Mul α] (a : Quat α) (s : α) :
    Gen.Quat.mulS a s = Quat.map (· * s) a := rfl

theorem Quat_mulSAssign {α : Type} [Mul α] (a : Quat α) (s : α) :
    Gen.Quat.mulSAssign a s = Quat.map (· * s) a := rfl

theorem Quat_smul {α : Type} [Mul α] (s : α) (a : Quat α) :
    Gen.Quat.smul s a = Quat.map (· * s) a := rfl

theorem Quat_divS {α : Type} [Div α] (a : Quat α) (s : α) :
    Gen.Quat.divS a s = Quat.map (· / s) a := rfl

theorem Quat_divSAssign {α : Type} [Div α] (a : Quat α) (s : α) :
    Gen.Quat.divSAssign a s = Quat.map (· / s) a := rfl

theorem Quat_eq {α : Type} [DecidableEq α] (a b : Quat α) :
    Gen.Quat.eq a b = true ↔ a = b := by
  obtain ⟨ar, ⟨ax, ay, az⟩⟩ := a; obtain ⟨br, ⟨bx, by', bz⟩⟩ := b
  eqtac Gen.Quat.eq

theorem Quat_ne {α : Type} [DecidableEq α] (a b : Quat α) :
    Gen.Quat.ne a b = true ↔ a ≠ b := by
  obtain ⟨ar, ⟨ax, ay, az⟩⟩ := a; obtain ⟨br, ⟨bx, by', bz⟩⟩ := b
  eqtac Gen.Quat.ne

theorem Quat_indexAll {α : Type} (a : Quat α) :
    Gen.Quat.indexAll a = a := rfl

theorem Quat_setIndexAll {α : Type} (a b : Quat α) :
    Gen.Quat.setIndexAll a b = b := rfl

theorem Quat_convertCtor {α : Type} (a : Quat α) :
    Gen.Quat.convertCtor a = a := rfl

theorem Quat_ctor4 {α : Type} (a : Quat α) :
    Gen.Quat.ctor4 a = a := rfl

theorem Quat_ctorSV {α : Type} (a : Quat α) :
    Gen.Quat.ctorSV a = a := rfl

theorem M22_add {α : Type} [Add α] (a b : M22 α) :
    Gen.M22.add a b = M22.zip (· + ·) a b := rfl

theorem M22_addAssign {α : Type} [Add α] (a b : M22 α) :
    Gen.M22.addAssign a b = M22.zip (· + ·) a b := rfl

theorem M22_sub {α : Type} [Sub α] (a b : M22 α) :
    Gen.M22.sub a b = M22.zip (· - ·) a b := rfl

theorem M22_subAssign {α : Type} [Sub α] (a b : M22 α) :
    Gen.M22.subAssign a b = M22.zip (· - ·) a b := rfl

theorem M22_neg {α : Type} [Neg α] (a : M22 α) :
    Gen.M22.neg a = M22.map (- ·) a := rfl

theorem M22_negate {α : Type} [Neg α] (a : M22 α) :
    Gen.M22.negate a = M22.map (- ·) a := rfl

theorem M22_addSAssign {α : Type} [Add α] (a : M22 α) (s : α) :
    Gen.M22.addSAssign a s = M22.map (· + s) a := rfl

theorem M22_subSAssign {α : Type} [Sub α] (a : M22 α) (s : α) :
    Gen.M22.subSAssign a s = M22.map (· - s) a := rfl

theorem M22_mulS {α : Type} [Mul α] (a : M22 α) (s : α) :
    Gen.M22.mulS a s = M22.map (· * s) a := rfl

theorem M22_mulSAssign {α : Type} [Mul α] (a : M22 α) (s : α) :
    Gen.M22.mulSAssign a s = M22.map (· * s) a := rfl

theorem M22_smul {α : Type} [Mul α] (s : α) (a : M22 α) :
    Gen.M22.smul s a = M22.map (· * s) a := rfl

theorem M22_divS {α : Type} [Div α] (a : M22 α) (s : α) :
    Gen.M22.divS a s = M22.map (· / s) a := rfl

theorem M22_divSAssign {α : Type} [Div α] (a : M22 α) (s : α) :
    Gen.M22.divSAssign a s = M22.map (· / s) a := rfl

theorem M22_eq {α : Type} [DecidableEq α] (a b : M22 α) :
    Gen.M22.eq a b = true ↔ a = b := by
  cases a; cases b; eqtac Gen.M22.eq

theorem M22_ne {α : Type} [DecidableEq α] (a b : M22 α) :
    Gen.M22.ne a b = true ↔ a ≠ b := by
  cases a; cases b; eqtac Gen.M22.ne

theorem M22_equalWithAbsError {α : Type} [Sub α] [LT α] [LE α] [DecidableLT α] [DecidableLE α] (a b : M22 α) (e : α) :
    Gen.M22.equalWithAbsError a b e = true ↔ M22.All₂ (fun x y => sabsdiff x y ≤ e) a b := by
  eqtac Gen.M22.equalWithAbsError

theorem M22_equalWithRelError {α : Type} [Sub α] [Mul α] [Neg α] [OfNat α 0] [LT α] [LE α] [DecidableLT α] [DecidableLE α] (a b : M22 α) (e : α) :
    Gen.M22.equalWithRelError a b e = true ↔ M22.All₂ (fun x y => sabsdiff x y ≤ e * sabs x) a b := by
  eqtac Gen.M22.equalWithRelError

theorem M22_indexAll {α : Type} (a : M22 α) :
    Gen.M22.indexAll a = a := rfl

theorem M22_setIndexAll {α : Type} (a b : M22 α) :
    Gen.M22.setIndexAll a b = b := rfl

theorem M22_getValuePtr {α : Type} (a : M22 α) :
    Gen.M22.getValuePtr a = a := rfl

theorem M22_convertCtor {α : Type} (a : M22 α) :
    Gen.M22.convertCtor a = a := rfl

theorem M22_setValueM {α : Type} (a b : M22 α) :
    Gen.M22.setValueM a b = b := rfl

theorem M22_getValueM {α : Type} (a : M22 α) :
    Gen.M22.getValueM a = a := rfl

theorem M22_assignScalar {α : Type} (a : M22 α) (s : α) :
    Gen.M22.assignScalar a s = M22.const s := rfl

theorem M22_ctorScalar {α : Type} (s : α) :
    Gen.M22.ctorScalar s = M22.const s := rfl

theorem M22_ctorArray {α : Type} (a : M22 α) :
    Gen.M22.ctorArray a = a := rfl

theorem M22_interopSub2 {α : Type} (a : M22 α) :
    Gen.M22.interopSub2 a = (a, a) := rfl

theorem M33_add {α : Type} [Add α] (a b : M33 α) :
    Gen.M33.add a b = M33.zip (· + ·) a b := rfl

theorem M33_addAssign {α : Type} [Add α] (a b : M33 α) :
    Gen.M33.addAssign a b = M33.zip (· + ·) a b := rfl

theorem M33_sub {α : Type} [Sub α] (a b : M33 α) :
    Gen.M33.sub a b = M33.zip (· - ·) a b := rfl

theorem M33_subAssign {α : Type} [Sub α] (a b : M33 α) :
    Gen.M33.subAssign a b = M33.zip (· - ·) a b := rfl

theorem M33_neg {α : Type} [Neg α] (a : M33 α) :
    Gen.M33.neg a = M33.map (- ·) a := rfl

theorem M33_negate {α : Type} [Neg α] (a : M33 α) :
    Gen.M33.negate a = M33.map (- ·) a := rfl

theorem M33_addSAssign {α : Type} [Add α] (a : M33 α) (s : α) :
    Gen.M33.addSAssign a s = M33.map (· + s) a := rfl

theorem M33_subSAssign {α : Type} [Sub α] (a : M33 α) (s : α) :
    Gen.M33.subSAssign a s = M33.map (· - s) a := rfl

theorem M33_mulS {α : Type} [Mul α] (a : M33 α) (s : α) :
    Gen.M33.mulS a s = M33.map (· * s) a := rfl

theorem M33_mulSAssign {α : Type} [Mul α] (a : M33 α) (s : α) :
    Gen.M33.mulSAssign a s = M33.map (· * s) a := rfl

theorem M33_smul {α : Type} [Mul α] (s : α) (a : M33 α) :
    Gen.M33.smul s a = M33.map (· * s) a := rfl

theorem M33_divS {α : Type} [Div α] (a : M33 α) (s : α) :
    Gen.M33.divS a s = M33.map (· / s) a := rfl

theorem M33_divSAssign {α : Type} [Div α] (a : M33 α) (s : α) :
    Gen.M33.divSAssign a s = M33.map (· / s) a := rfl

theorem M33_eq {α : Type} [DecidableEq α] (a b : M33 α) :
    Gen.M33.eq a b = true ↔ a = b := by
  cases a; cases b; eqtac Gen.M33.eq

theorem M33_ne {α : Type} [DecidableEq α] (a b : M33 α) :
    Gen.M33.ne a b = true ↔ a ≠ b := by
  cases a; cases b; eqtac Gen.M33.ne

theorem M33_equalWithAbsError {α : Type} [Sub α] [LT α] [LE α] [DecidableLT α] [DecidableLE α] (a b : M33 α) (e : α) :
    Gen.M33.equalWithAbsError a b e = true ↔ M33.All₂ (fun x y => sabsdiff x y ≤ e) a b := by
  eqtac Gen.M33.equalWithAbsError

theorem M33_equalWithRelError {α : Type} [Sub α] [Mul α] [Neg α] [OfNat α 0] [LT α] [LE α] [DecidableLT α] [DecidableLE α] (a b : M33 α) (e : α) :
    Gen.M33.equalWithRelError a b e = true ↔ M33.All₂ (fun x y => sabsdiff x y ≤ e * sabs x) a b := by
  eqtac Gen.M33.equalWithRelError

theorem M33_indexAll {α : Type} (a : M33 α) :
    Gen.M33.indexAll a = a := rfl

theorem M33_setIndexAll {α : Type} (a b : M33 α) :
    Gen.M33.setIndexAll a b = b := rfl

theorem M33_getValuePtr {α : Type} (a : M33 α) :
    Gen.M33.getValuePtr a = a := rfl

theorem M33_convertCtor {α : Type} (a : M33 α) :
    Gen.M33.convertCtor a = a := rfl

theorem M33_setValueM {α : Type} (a b : M33 α) :
    Gen.M33.setValueM a b = b := rfl

theorem M33_getValueM {α : Type} (a : M33 α) :
    Gen.M33.getValueM a = a := rfl

theorem M33_assignScalar {α : Type} (a : M33 α) (s : α) :
    Gen.M33.assignScalar a s = M33.const s := rfl

theorem M33_ctorScalar {α : Type} (s : α) :
    Gen.M33.ctorScalar s = M33.const s := rfl

theorem M33_ctorArray {α : Type} (a : M33 α) :
    Gen.M33.ctorArray a = a := rfl

theorem M33_interopSub2 {α : Type} (a : M33 α) :
    Gen.M33.interopSub2 a = (a, a) := rfl

theorem M44_add {α : Type} [Add α] (a b : M44 α) :
    Gen.M44.add a b = M44.zip (· + ·) a b := rfl

theorem M44_addAssign {α : Type} [Add α] (a b : M44 α) :
    Gen.M44.addAssign a b = M44.zip (· + ·) a b := rfl

theorem M44_sub {α : Type} [Sub α] (a b : M44 α) :
    Gen.M44.sub a b = M44.zip (· - ·) a b := rfl

theorem M44_subAssign {α : Type} [Sub α] (a b : M44 α) :
    Gen.M44.subAssign a b = M44.zip (· - ·) a b := rfl

theorem M44_neg {α : Type} [Neg α] (a : M44 α) :
    Gen.M44.neg a = M44.map (- ·) a := rfl

theorem M44_negate {α : Type} [Neg α] (a : M44 α) :
    Gen.M44.negate a = M44.map (- ·) a := rfl

theorem M44_addSAssign {α : Type} [Add α] (a : M44 α) (s : α) :
    Gen.M44.addSAssign a s = M44.map (· + s) a := rfl

theorem M44_subSAssign {α : Type} [Sub α] (a : M44 α) (s : α) :
    Gen.M44.subSAssign a s = M44.map (· - s) a := rfl

theorem M44_mulS {α : Type} [Mul α] (a : M44 α) (s : α) :
    Gen.M44.mulS a s = M44.map (· * s) a := rfl

theorem M44_mulSAssign {α : Type} [Mul α] (a : M44 α) (s : α) :
    Gen.M44.mulSAssign a s = M44.map (· * s) a := rfl

theorem M44_smul {α : Type} [Mul α] (s : α) (a : M44 α) :
    Gen.M44.smul s a = M44.map (· * s) a := rfl

theorem M44_divS {α : Type} [Div α] (a : M44 α) (s : α) :
    Gen.M44.divS a s = M44.map (· / s) a := rfl

theorem M44_divSAssign {α : Type} [Div α] (a : M44 α) (s : α) :
    Gen.M44.divSAssign a s = M44.map (· / s) a := rfl

theorem M44_eq {α : Type} [DecidableEq α] (a b : M44 α) :
    Gen.M44.eq a b = true ↔ a = b := by
  cases a; cases b; eqtac Gen.M44.eq

theorem M44_ne {α : Type} [DecidableEq α] (a b : M44 α) :
    Gen.M44.ne a b = true ↔ a ≠ b := by
  cases a; cases b; eqtac Gen.M44.ne

theorem M44_equalWithAbsError {α : Type} [Sub α] [LT α] [LE α] [DecidableLT α] [DecidableLE α] (a b : M44 α) (e : α) :
    Gen.M44.equalWithAbsError a b e = true ↔ M44.All₂ (fun x y => sabsdiff x y ≤ e) a b := by
  eqtac Gen.M44.equalWithAbsError

theorem M44_equalWithRelError {α : Type} [Sub α] [Mul α] [Neg α] [OfNat α 0] [LT α] [LE α] [DecidableLT α] [DecidableLE α] (a b : M44 α) (e : α) :
    Gen.M44.equalWithRelError a b e = true ↔ M44.All₂ (fun x y => sabsdiff x y ≤ e * sabs x) a b := by
  eqtac Gen.M44.equalWithRelError

theorem M44_indexAll {α : Type} (a : M44 α) :
    Gen.M44.indexAll a = a := rfl

theorem M44_setIndexAll {α : Type} (a b : M44 α) :
    Gen.M44.setIndexAll a b = b := rfl

theorem M44_getValuePtr {α : Type} (a : M44 α) :
    Gen.M44.getValuePtr a = a := rfl

theorem M44_convertCtor {α : Type} (a : M44 α) :
    Gen.M44.convertCtor a = a := rfl

theorem M44_setValueM {α : Type} (a b : M44 α) :
    Gen.M44.setValueM a b = b := rfl

theorem M44_getValueM {α : Type} (a : M44 α) :
    Gen.M44.getValueM a = a := rfl

theorem M44_assignScalar {α : Type} (a : M44 α) (s : α) :
    Gen.M44.assignScalar a s = M44.const s := rfl

theorem M44_ctorScalar {α : Type} (s : α) :
    Gen.M44.ctorScalar s = M44.const s := rfl

theorem M44_ctorArray {α : Type} (a : M44 α) :
    Gen.M44.ctorArray a = a := rfl

theorem M44_interopSub2 {α : Type} (a : M44 α) :
    Gen.M44.interopSub2 a = (a, a) := rfl

theorem M22_ctorElems {α : Type} (a : M22 α) :
    Gen.M22.ctorElems a = a := rfl

theorem M33_ctorElems {α : Type} (a : M33 α) :
    Gen.M33.ctorElems a = a := rfl

theorem M44_ctorElems {α : Type} (a : M44 α) :
    Gen.M44.ctorElems a = a := rfl
theorem V4_fromV3 {α : Type} [OfNat α 1] (a : V3 α) :
    Gen.V4.fromV3 a = ⟨a.x, a.y, a.z, 1⟩ := rfl

theorem C3_fromV3 {α : Type} (a : V3 α) :
    Gen.C3.fromV3 a = a := rfl

theorem Shear6_fromV3 {α : Type} [OfNat α 0] (a : V3 α) :
    Gen.Shear6.fromV3 a = (⟨a.x, a.y, a.z, 0, 0, 0⟩, ⟨a.x, a.y, a.z, 0, 0, 0⟩) := rfl

theorem Shear6_ctor3 {α : Type} [OfNat α 0] (a : V3 α) :
    Gen.Shear6.ctor3 a = ⟨a.x, a.y, a.z, 0, 0, 0⟩ := rfl

/-! ## Conversions between element types: the cast is visible

`Gen.X.narrow*` are extracted with a second scalar type (`β`, the element type of the other aggregate); every
conversion `T (v.x)` / `S (x)` / implicit conversion in the templates is recorded as an application of the parameter
`cast : β → α`.  The theorems say that each converting constructor, `setValue`, `getValue` (and `setTheMatrix`)
overload applies the scalar cast exactly once to every slot, slot `i` to slot `i` (matrices row-major), and that no
slot of the overwritten object survives.  They hold for ANY function `cast`, in particular for the truncating /
rounding / wrapping `static_cast`s double→float, float→half, double→int, int→unsigned char at which translator
validation compares them with the real instantiations. -/

theorem V2_narrowCtor {α β : Type} (cast : β → α) (a : V2 β) :
    Gen.V2.narrowCtor cast a = V2.map cast a := rfl

theorem V2_narrowSetValueV {α β : Type} (cast : β → α) (a : V2 α) (b : V2 β) :
    Gen.V2.narrowSetValueV cast a b = V2.map cast b := rfl

theorem V2_narrowGetValueV {α β : Type} (cast : β → α) (a : V2 β) (b : V2 α) :
    Gen.V2.narrowGetValueV cast a b = V2.map cast a := rfl

theorem V2_narrowSetValueS {α β : Type} (cast : β → α) (a : V2 α) (b : V2 β) :
    Gen.V2.narrowSetValueS cast a b = V2.map cast b := rfl

theorem V2_narrowGetValueS {α β : Type} (cast : β → α) (a : V2 β) (b : V2 α) :
    Gen.V2.narrowGetValueS cast a b = V2.map cast a := rfl

theorem V3_narrowCtor {α β : Type} (cast : β → α) (a : V3 β) :
    Gen.V3.narrowCtor cast a = V3.map cast a := rfl

theorem V3_narrowSetValueV {α β : Type} (cast : β → α) (a : V3 α) (b : V3 β) :
    Gen.V3.narrowSetValueV cast a b = V3.map cast b := rfl

theorem V3_narrowGetValueV {α β : Type} (cast : β → α) (a : V3 β) (b : V3 α) :
    Gen.V3.narrowGetValueV cast a b = V3.map cast a := rfl

theorem V3_narrowSetValueS {α β : Type} (cast : β → α) (a : V3 α) (b : V3 β) :
    Gen.V3.narrowSetValueS cast a b = V3.map cast b := rfl

theorem V3_narrowGetValueS {α β : Type} (cast : β → α) (a : V3 β) (b : V3 α) :
    Gen.V3.narrowGetValueS cast a b = V3.map cast a := rfl

theorem V4_narrowCtor {α β : Type} (cast : β → α) (a : V4 β) :
    Gen.V4.narrowCtor cast a = V4.map cast a := rfl

theorem V4_narrowSetValueV {α β : Type} (cast : β → α) (a : V4 α) (b : V4 β) :
    Gen.V4.narrowSetValueV cast a b = V4.map cast b := rfl

theorem V4_narrowGetValueV {α β : Type} (cast : β → α) (a : V4 β) (b : V4 α) :
    Gen.V4.narrowGetValueV cast a b = V4.map cast a := rfl

theorem V4_narrowSetValueS {α β : Type} (cast : β → α) (a : V4 α) (b : V4 β) :
    Gen.V4.narrowSetValueS cast a b = V4.map cast b := rfl

theorem V4_narrowGetValueS {α β : Type} (cast : β → α) (a : V4 β) (b : V4 α) :
    Gen.V4.narrowGetValueS cast a b = V4.map cast a := rfl

theorem C4_narrowCtor {α β : Type} (cast : β → α) (a : C4 β) :
    Gen.C4.narrowCtor cast a = C4.map cast a := rfl

theorem C4_narrowSetValueV {α β : Type} (cast : β → α) (a : C4 α) (b : C4 β) :
    Gen.C4.narrowSetValueV cast a b = C4.map cast b := rfl

theorem C4_narrowGetValueV {α β : Type} (cast : β → α) (a : C4 β) (b : C4 α) :
    Gen.C4.narrowGetValueV cast a b = C4.map cast a := rfl

theorem C4_narrowSetValueS {α β : Type} (cast : β → α) (a : C4 α) (b : C4 β) :
    Gen.C4.narrowSetValueS cast a b = C4.map cast b := rfl

theorem C4_narrowGetValueS {α β : Type} (cast : β → α) (a : C4 β) (b : C4 α) :
    Gen.C4.narrowGetValueS cast a b = C4.map cast a := rfl

theorem Shear6_narrowCtor {α β : Type} (cast : β → α) (a : Shear6 β) :
    Gen.Shear6.narrowCtor cast a = Shear6.map cast a := rfl

theorem Shear6_narrowSetValueV {α β : Type} (cast : β → α) (a : Shear6 α) (b : Shear6 β) :
    Gen.Shear6.narrowSetValueV cast a b = Shear6.map cast b := rfl

theorem Shear6_narrowGetValueV {α β : Type} (cast : β → α) (a : Shear6 β) (b : Shear6 α) :
    Gen.Shear6.narrowGetValueV cast a b = Shear6.map cast a := rfl

theorem Shear6_narrowSetValueS {α β : Type} (cast : β → α) (a : Shear6 α) (b : Shear6 β) :
    Gen.Shear6.narrowSetValueS cast a b = Shear6.map cast b := rfl

theorem Shear6_narrowGetValueS {α β : Type} (cast : β → α) (a : Shear6 β) (b : Shear6 α) :
    Gen.Shear6.narrowGetValueS cast a b = Shear6.map cast a := rfl

theorem M22_narrowCtor {α β : Type} (cast : β → α) (a : M22 β) :
    Gen.M22.narrowCtor cast a = M22.map cast a := rfl

theorem M22_narrowSetValueM {α β : Type} (cast : β → α) (a : M22 α) (b : M22 β) :
    Gen.M22.narrowSetValueM cast a b = M22.map cast b := rfl

theorem M22_narrowGetValueM {α β : Type} (cast : β → α) (a : M22 β) (b : M22 α) :
    Gen.M22.narrowGetValueM cast a b = M22.map cast a := rfl

theorem M22_narrowSetTheMatrix {α β : Type} (cast : β → α) (a : M22 α) (b : M22 β) :
    Gen.M22.narrowSetTheMatrix cast a b = M22.map cast b := rfl

theorem M33_narrowCtor {α β : Type} (cast : β → α) (a : M33 β) :
    Gen.M33.narrowCtor cast a = M33.map cast a := rfl

theorem M33_narrowSetValueM {α β : Type} (cast : β → α) (a : M33 α) (b : M33 β) :
    Gen.M33.narrowSetValueM cast a b = M33.map cast b := rfl

theorem M33_narrowGetValueM {α β : Type} (cast : β → α) (a : M33 β) (b : M33 α) :
    Gen.M33.narrowGetValueM cast a b = M33.map cast a := rfl

theorem M33_narrowSetTheMatrix {α β : Type} (cast : β → α) (a : M33 α) (b : M33 β) :
    Gen.M33.narrowSetTheMatrix cast a b = M33.map cast b := rfl

theorem M44_narrowCtor {α β : Type} (cast : β → α) (a : M44 β) :
    Gen.M44.narrowCtor cast a = M44.map cast a := rfl

theorem M44_narrowSetValueM {α β : Type} (cast : β → α) (a : M44 α) (b : M44 β) :
    Gen.M44.narrowSetValueM cast a b = M44.map cast b := rfl

theorem M44_narrowGetValueM {α β : Type} (cast : β → α) (a : M44 β) (b : M44 α) :
    Gen.M44.narrowGetValueM cast a b = M44.map cast a := rfl

theorem M44_narrowSetTheMatrix {α β : Type} (cast : β → α) (a : M44 α) (b : M44 β) :
    Gen.M44.narrowSetTheMatrix cast a b = M44.map cast b := rfl

theorem Quat_narrowCtor {α β : Type} (cast : β → α) (a : Quat β) :
    Gen.Quat.narrowCtor cast a = Quat.map cast a := rfl

theorem V4_narrowFromV3 {α β : Type} [OfNat α 1] (cast : β → α) (a : V3 β) :
    Gen.V4.narrowFromV3 cast a = ⟨cast a.x, cast a.y, cast a.z, 1⟩ := rfl

theorem C3_narrowFromV3 {α β : Type} (cast : β → α) (a : V3 β) :
    Gen.C3.narrowFromV3 cast a = V3.map cast a := rfl

theorem Shear6_narrowFromV3 {α β : Type} [OfNat α 0] (cast : β → α) (a : V3 β) (t : Shear6 α) :
    Gen.Shear6.narrowFromV3 cast a t = (⟨cast a.x, cast a.y, cast a.z, 0, 0, 0⟩, ⟨cast a.x, cast a.y, cast a.z, 0, 0, 0⟩) := rfl

/-- the statements are about the cast, not about the identity: with a cast that is not injective (truncation of a
rational to an integer part, here `Int.toNat`) distinct sources give equal results, slot by slot -/
example : Gen.V3.narrowCtor Int.toNat (⟨-1, 2, -3⟩ : V3 Int) = ⟨0, 2, 0⟩ := rfl

/-! ## Raw C arrays (`has_subscript<Base[N], Base, N>`, `has_double_subscript<Base[R][C], Base, R, C>`) -/

theorem V2_interopArr {α : Type} (a : V2 α) :
    Gen.V2.interopArr a = (a, a) := rfl

theorem V3_interopArr {α : Type} (a : V3 α) :
    Gen.V3.interopArr a = (a, a) := rfl

theorem V4_interopArr {α : Type} (a : V4 α) :
    Gen.V4.interopArr a = (a, a) := rfl

theorem M22_interopArr2 {α : Type} (a : M22 α) :
    Gen.M22.interopArr2 a = a := rfl

theorem M33_interopArr2 {α : Type} (a : M33 α) :
    Gen.M33.interopArr2 a = a := rfl

theorem M44_interopArr2 {α : Type} (a : M44 α) :
    Gen.M44.interopArr2 a = a := rfl

/-! ## Copy assignment, copy constructor and element-list constructors, each on its own -/

theorem V2_assign {α : Type} (a b : V2 α) :
    Gen.V2.assign a b = b := rfl

theorem V2_copyCtor {α : Type} (a : V2 α) :
    Gen.V2.copyCtor a = a := rfl

theorem V3_assign {α : Type} (a b : V3 α) :
    Gen.V3.assign a b = b := rfl

theorem V3_copyCtor {α : Type} (a : V3 α) :
    Gen.V3.copyCtor a = a := rfl

theorem V4_assign {α : Type} (a b : V4 α) :
    Gen.V4.assign a b = b := rfl

theorem V4_copyCtor {α : Type} (a : V4 α) :
    Gen.V4.copyCtor a = a := rfl

theorem C3_assign {α : Type} (a b : V3 α) :
    Gen.C3.assign a b = b := rfl

theorem C3_copyCtor {α : Type} (a : V3 α) :
    Gen.C3.copyCtor a = a := rfl

theorem C4_assign {α : Type} (a b : C4 α) :
    Gen.C4.assign a b = b := rfl

theorem C4_copyCtor {α : Type} (a : C4 α) :
    Gen.C4.copyCtor a = a := rfl

theorem Shear6_assign {α : Type} (a b : Shear6 α) :
    Gen.Shear6.assign a b = b := rfl

theorem Shear6_copyCtor {α : Type} (a : Shear6 α) :
    Gen.Shear6.copyCtor a = a := rfl

theorem Quat_assign {α : Type} (a b : Quat α) :
    Gen.Quat.assign a b = b := rfl

theorem Quat_copyCtor {α : Type} (a : Quat α) :
    Gen.Quat.copyCtor a = a := rfl

theorem M22_assign {α : Type} (a b : M22 α) :
    Gen.M22.assign a b = b := rfl

theorem M22_copyCtor {α : Type} (a : M22 α) :
    Gen.M22.copyCtor a = a := rfl

theorem M33_assign {α : Type} (a b : M33 α) :
    Gen.M33.assign a b = b := rfl

theorem M33_copyCtor {α : Type} (a : M33 α) :
    Gen.M33.copyCtor a = a := rfl

theorem M44_assign {α : Type} (a b : M44 α) :
    Gen.M44.assign a b = b := rfl

theorem M44_copyCtor {α : Type} (a : M44 α) :
    Gen.M44.copyCtor a = a := rfl

theorem V2_ctorElems {α : Type} (a : V2 α) :
    Gen.V2.ctorElems a = a := rfl

theorem V3_ctorElems {α : Type} (a : V3 α) :
    Gen.V3.ctorElems a = a := rfl

theorem V4_ctorElems {α : Type} (a : V4 α) :
    Gen.V4.ctorElems a = a := rfl

theorem C3_ctorElems {α : Type} (a : V3 α) :
    Gen.C3.ctorElems a = a := rfl

theorem C4_ctorElems {α : Type} (a : C4 α) :
    Gen.C4.ctorElems a = a := rfl

theorem Shear6_ctorElems {α : Type} (a : Shear6 α) :
    Gen.Shear6.ctorElems a = a := rfl

theorem M44_ctorRT {α : Type} [OfNat α 0] [OfNat α 1] (r : M33 α) (t : V3 α) :
    Gen.M44.ctorRT r t = ⟨r.x00, r.x01, r.x02, 0, r.x10, r.x11, r.x12, 0, r.x20, r.x21, r.x22, 0, t.x, t.y, t.z, 1⟩ := rfl

/-! ## Scalar on the left for Quat and Matrix

The code computes `x * s` in every slot (`*_smul` above state exactly that); for a commutative scalar
multiplication — all seven element types — this is the scalar on the left applied to each component, the
form the Vec / Color / Shear spellings compute directly. -/

theorem Quat_smul_left {α : Type} [Mul α] (hc : ∀ x y : α, x * y = y * x) (s : α) (a : Quat α) :
    Gen.Quat.smul s a = Quat.map (s * ·) a := by
  rw [Quat_smul]; simp only [Quat.map, V3.map, hc _ s]

theorem M22_smul_left {α : Type} [Mul α] (hc : ∀ x y : α, x * y = y * x) (s : α) (a : M22 α) :
    Gen.M22.smul s a = M22.map (s * ·) a := by
  rw [M22_smul]; simp only [M22.map, hc _ s]

theorem M33_smul_left {α : Type} [Mul α] (hc : ∀ x y : α, x * y = y * x) (s : α) (a : M33 α) :
    Gen.M33.smul s a = M33.map (s * ·) a := by
  rw [M33_smul]; simp only [M33.map, hc _ s]

theorem M44_smul_left {α : Type} [Mul α] (hc : ∀ x y : α, x * y = y * x) (s : α) (a : M44 α) :
    Gen.M44.smul s a = M44.map (s * ·) a := by
  rw [M44_smul]; simp only [M44.map, hc _ s]

example : ∀ x y : Int, x * y = y * x := Int.mul_comm

/-! Bridges to the usual mathematical notions over a linearly ordered ring -/

theorem sabsdiff_eq_abs {α : Type} [Ring α] [LinearOrder α] [IsOrderedRing α] (x y : α) :
    sabsdiff x y = |x - y| := by
  unfold sabsdiff
  split_ifs with h
  · rw [abs_of_pos (sub_pos.mpr h)]
  · rw [abs_of_nonpos (sub_nonpos.mpr (not_lt.mp h))]; simp

theorem sabs_eq_abs {α : Type} [Ring α] [LinearOrder α] [IsOrderedRing α] (x : α) :
    sabs x = |x| := by
  unfold sabs
  split_ifs with h
  · rw [abs_of_pos h]
  · rw [abs_of_nonpos (not_lt.mp h)]

end ImathVerif.C04
