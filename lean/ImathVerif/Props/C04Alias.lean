import ImathVerif.Basic.Maps
import ImathVerif.Gen.C04Alias
/-!
# C04 — compound operators under aliasing

The right operand of a compound-assignment operator may be the object itself (`a += a`) or one of
its own elements (`v /= v.x`).  The component-wise meaning must not change: every slot is combined
with the ORIGINAL value of the operand.  (A scalar taken by reference, or a body that reads an
already updated member, breaks exactly these cases and nothing else.)  Regenerated on every run.
-/
namespace ImathVerif.C04Alias
open ImathVerif

theorem V2_addAssignSelf {α : Type} [Add α] (a : V2 α) :
    Gen.V2.addAssignSelf a = V2.zip (· + ·) a a := rfl

theorem V2_subAssignSelf {α : Type} [Sub α] (a : V2 α) :
    Gen.V2.subAssignSelf a = V2.zip (· - ·) a a := rfl

theorem V2_mulAssignSelf {α : Type} [Mul α] (a : V2 α) :
    Gen.V2.mulAssignSelf a = V2.zip (· * ·) a a := rfl

theorem V2_divAssignSelf {α : Type} [Div α] (a : V2 α) :
    Gen.V2.divAssignSelf a = V2.zip (· / ·) a a := rfl

theorem V2_mulSAssignAliasFirst {α : Type} [Mul α] (a : V2 α) :
    Gen.V2.mulSAssignAliasFirst a = V2.map (· * a.x) a := rfl

theorem V2_mulSAssignAliasLast {α : Type} [Mul α] (a : V2 α) :
    Gen.V2.mulSAssignAliasLast a = V2.map (· * a.y) a := rfl

theorem V2_divSAssignAliasFirst {α : Type} [Div α] (a : V2 α) :
    Gen.V2.divSAssignAliasFirst a = V2.map (· / a.x) a := rfl

theorem V2_divSAssignAliasLast {α : Type} [Div α] (a : V2 α) :
    Gen.V2.divSAssignAliasLast a = V2.map (· / a.y) a := rfl

theorem V3_addAssignSelf {α : Type} [Add α] (a : V3 α) :
    Gen.V3.addAssignSelf a = V3.zip (· + ·) a a := rfl

theorem V3_subAssignSelf {α : Type} [Sub α] (a : V3 α) :
    Gen.V3.subAssignSelf a = V3.zip (· - ·) a a := rfl

theorem V3_mulAssignSelf {α : Type} [Mul α] (a : V3 α) :
    Gen.V3.mulAssignSelf a = V3.zip (· * ·) a a := rfl

theorem V3_divAssignSelf {α : Type} [Div α] (a : V3 α) :
    Gen.V3.divAssignSelf a = V3.zip (· / ·) a a := rfl

theorem V3_mulSAssignAliasFirst {α : Type} [Mul α] (a : V3 α) :
    Gen.V3.mulSAssignAliasFirst a = V3.map (· * a.x) a := rfl

theorem V3_mulSAssignAliasLast {α : Type} [Mul α] (a : V3 α) :
    Gen.V3.mulSAssignAliasLast a = V3.map (· * a.z) a := rfl

theorem V3_divSAssignAliasFirst {α : Type} [Div α] (a : V3 α) :
    Gen.V3.divSAssignAliasFirst a = V3.map (· / a.x) a := rfl

theorem V3_divSAssignAliasLast {α : Type} [Div α] (a : V3 α) :
    Gen.V3.divSAssignAliasLast a = V3.map (· / a.z) a := rfl

theorem V4_addAssignSelf {α : Type} [Add α] (a : V4 α) :
    Gen.V4.addAssignSelf a = V4.zip (· + ·) a a := rfl

theorem V4_subAssignSelf {α : Type} [Sub α] (a : V4 α) :
    Gen.V4.subAssignSelf a = V4.zip (· - ·) a a := rfl

theorem V4_mulAssignSelf {α : Type} [Mul α] (a : V4 α) :
    Gen.V4.mulAssignSelf a = V4.zip (· * ·) a a := rfl

theorem V4_divAssignSelf {α : Type} [Div α] (a : V4 α) :
    Gen.V4.divAssignSelf a = V4.zip (· / ·) a a := rfl

theorem V4_mulSAssignAliasFirst {α : Type} [Mul α] (a : V4 α) :
    Gen.V4.mulSAssignAliasFirst a = V4.map (· * a.x) a := rfl

theorem V4_mulSAssignAliasLast {α : Type} [Mul α] (a : V4 α) :
    Gen.V4.mulSAssignAliasLast a = V4.map (· * a.w) a := rfl

theorem V4_divSAssignAliasFirst {α : Type} [Div α] (a : V4 α) :
    Gen.V4.divSAssignAliasFirst a = V4.map (· / a.x) a := rfl

theorem V4_divSAssignAliasLast {α : Type} [Div α] (a : V4 α) :
    Gen.V4.divSAssignAliasLast a = V4.map (· / a.w) a := rfl

theorem C3_addAssignSelf {α : Type} [Add α] (a : V3 α) :
    Gen.C3.addAssignSelf a = V3.zip (· + ·) a a := rfl

theorem C3_subAssignSelf {α : Type} [Sub α] (a : V3 α) :
    Gen.C3.subAssignSelf a = V3.zip (· - ·) a a := rfl

theorem C3_mulAssignSelf {α : Type} [Mul α] (a : V3 α) :
    Gen.C3.mulAssignSelf a = V3.zip (· * ·) a a := rfl

theorem C3_divAssignSelf {α : Type} [Div α] (a : V3 α) :
    Gen.C3.divAssignSelf a = V3.zip (· / ·) a a := rfl

theorem C3_mulSAssignAliasFirst {α : Type} [Mul α] (a : V3 α) :
    Gen.C3.mulSAssignAliasFirst a = V3.map (· * a.x) a := rfl

theorem C3_mulSAssignAliasLast {α : Type} [Mul α] (a : V3 α) :
    Gen.C3.mulSAssignAliasLast a = V3.map (· * a.z) a := rfl

theorem C3_divSAssignAliasFirst {α : Type} [Div α] (a : V3 α) :
    Gen.C3.divSAssignAliasFirst a = V3.map (· / a.x) a := rfl

theorem C3_divSAssignAliasLast {α : Type} [Div α] (a : V3 α) :
    Gen.C3.divSAssignAliasLast a = V3.map (· / a.z) a := rfl

theorem C4_addAssignSelf {α : Type} [Add α] (a : C4 α) :
    Gen.C4.addAssignSelf a = C4.zip (· + ·) a a := rfl

theorem C4_subAssignSelf {α : Type} [Sub α] (a : C4 α) :
    Gen.C4.subAssignSelf a = C4.zip (· - ·) a a := rfl

theorem C4_mulAssignSelf {α : Type} [Mul α] (a : C4 α) :
    Gen.C4.mulAssignSelf a = C4.zip (· * ·) a a := rfl

theorem C4_divAssignSelf {α : Type} [Div α] (a : C4 α) :
    Gen.C4.divAssignSelf a = C4.zip (· / ·) a a := rfl

theorem C4_mulSAssignAliasFirst {α : Type} [Mul α] (a : C4 α) :
    Gen.C4.mulSAssignAliasFirst a = C4.map (· * a.r) a := rfl

theorem C4_mulSAssignAliasLast {α : Type} [Mul α] (a : C4 α) :
    Gen.C4.mulSAssignAliasLast a = C4.map (· * a.a) a := rfl

theorem C4_divSAssignAliasFirst {α : Type} [Div α] (a : C4 α) :
    Gen.C4.divSAssignAliasFirst a = C4.map (· / a.r) a := rfl

theorem C4_divSAssignAliasLast {α : Type} [Div α] (a : C4 α) :
    Gen.C4.divSAssignAliasLast a = C4.map (· / a.a) a := rfl

theorem Shear6_addAssignSelf {α : Type} [Add α] (a : Shear6 α) :
    Gen.Shear6.addAssignSelf a = Shear6.zip (· + ·) a a := rfl

theorem Shear6_subAssignSelf {α : Type} [Sub α] (a : Shear6 α) :
    Gen.Shear6.subAssignSelf a = Shear6.zip (· - ·) a a := rfl

theorem Shear6_mulAssignSelf {α : Type} [Mul α] (a : Shear6 α) :
    Gen.Shear6.mulAssignSelf a = Shear6.zip (· * ·) a a := rfl

theorem Shear6_divAssignSelf {α : Type} [Div α] (a : Shear6 α) :
    Gen.Shear6.divAssignSelf a = Shear6.zip (· / ·) a a := rfl

theorem Shear6_mulSAssignAliasFirst {α : Type} [Mul α] (a : Shear6 α) :
    Gen.Shear6.mulSAssignAliasFirst a = Shear6.map (· * a.xy) a := rfl

theorem Shear6_mulSAssignAliasLast {α : Type} [Mul α] (a : Shear6 α) :
    Gen.Shear6.mulSAssignAliasLast a = Shear6.map (· * a.zy) a := rfl

theorem Shear6_divSAssignAliasFirst {α : Type} [Div α] (a : Shear6 α) :
    Gen.Shear6.divSAssignAliasFirst a = Shear6.map (· / a.xy) a := rfl

theorem Shear6_divSAssignAliasLast {α : Type} [Div α] (a : Shear6 α) :
    Gen.Shear6.divSAssignAliasLast a = Shear6.map (· / a.zy) a := rfl

theorem Quat_addAssignSelf {α : Type} [Add α] (a : Quat α) :
    Gen.Quat.addAssignSelf a = Quat.zip (· + ·) a a := rfl

theorem Quat_subAssignSelf {α : Type} [Sub α] (a : Quat α) :
    Gen.Quat.subAssignSelf a = Quat.zip (· - ·) a a := rfl

theorem Quat_mulSAssignAliasFirst {α : Type} [Mul α] (a : Quat α) :
    Gen.Quat.mulSAssignAliasFirst a = Quat.map (· * a.r) a := rfl

theorem Quat_mulSAssignAliasLast {α : Type} [Mul α] (a : Quat α) :
    Gen.Quat.mulSAssignAliasLast a = Quat.map (· * a.v.z) a := rfl

theorem Quat_divSAssignAliasFirst {α : Type} [Div α] (a : Quat α) :
    Gen.Quat.divSAssignAliasFirst a = Quat.map (· / a.r) a := rfl

theorem Quat_divSAssignAliasLast {α : Type} [Div α] (a : Quat α) :
    Gen.Quat.divSAssignAliasLast a = Quat.map (· / a.v.z) a := rfl

theorem M22_addAssignSelf {α : Type} [Add α] (a : M22 α) :
    Gen.M22.addAssignSelf a = M22.zip (· + ·) a a := rfl

theorem M22_subAssignSelf {α : Type} [Sub α] (a : M22 α) :
    Gen.M22.subAssignSelf a = M22.zip (· - ·) a a := rfl

theorem M22_mulSAssignAliasFirst {α : Type} [Mul α] (a : M22 α) :
    Gen.M22.mulSAssignAliasFirst a = M22.map (· * a.x00) a := rfl

theorem M22_mulSAssignAliasLast {α : Type} [Mul α] (a : M22 α) :
    Gen.M22.mulSAssignAliasLast a = M22.map (· * a.x11) a := rfl

theorem M22_divSAssignAliasFirst {α : Type} [Div α] (a : M22 α) :
    Gen.M22.divSAssignAliasFirst a = M22.map (· / a.x00) a := rfl

theorem M22_divSAssignAliasLast {α : Type} [Div α] (a : M22 α) :
    Gen.M22.divSAssignAliasLast a = M22.map (· / a.x11) a := rfl

theorem M33_addAssignSelf {α : Type} [Add α] (a : M33 α) :
    Gen.M33.addAssignSelf a = M33.zip (· + ·) a a := rfl

theorem M33_subAssignSelf {α : Type} [Sub α] (a : M33 α) :
    Gen.M33.subAssignSelf a = M33.zip (· - ·) a a := rfl

theorem M33_mulSAssignAliasFirst {α : Type} [Mul α] (a : M33 α) :
    Gen.M33.mulSAssignAliasFirst a = M33.map (· * a.x00) a := rfl

theorem M33_mulSAssignAliasLast {α : Type} [Mul α] (a : M33 α) :
    Gen.M33.mulSAssignAliasLast a = M33.map (· * a.x22) a := rfl

theorem M33_divSAssignAliasFirst {α : Type} [Div α] (a : M33 α) :
    Gen.M33.divSAssignAliasFirst a = M33.map (· / a.x00) a := rfl

theorem M33_divSAssignAliasLast {α : Type} [Div α] (a : M33 α) :
    Gen.M33.divSAssignAliasLast a = M33.map (· / a.x22) a := rfl

theorem M44_addAssignSelf {α : Type} [Add α] (a : M44 α) :
    Gen.M44.addAssignSelf a = M44.zip (· + ·) a a := rfl

theorem M44_subAssignSelf {α : Type} [Sub α] (a : M44 α) :
    Gen.M44.subAssignSelf a = M44.zip (· - ·) a a := rfl

theorem M44_mulSAssignAliasFirst {α : Type} [Mul α] (a : M44 α) :
    Gen.M44.mulSAssignAliasFirst a = M44.map (· * a.x00) a := rfl

theorem M44_mulSAssignAliasLast {α : Type} [Mul α] (a : M44 α) :
    Gen.M44.mulSAssignAliasLast a = M44.map (· * a.x33) a := rfl

theorem M44_divSAssignAliasFirst {α : Type} [Div α] (a : M44 α) :
    Gen.M44.divSAssignAliasFirst a = M44.map (· / a.x00) a := rfl

theorem M44_divSAssignAliasLast {α : Type} [Div α] (a : M44 α) :
    Gen.M44.divSAssignAliasLast a = M44.map (· / a.x33) a := rfl

theorem M22_addSAssignAliasFirst {α : Type} [Add α] (a : M22 α) :
    Gen.M22.addSAssignAliasFirst a = M22.map (· + a.x00) a := rfl

theorem M22_subSAssignAliasFirst {α : Type} [Sub α] (a : M22 α) :
    Gen.M22.subSAssignAliasFirst a = M22.map (· - a.x00) a := rfl

theorem M33_addSAssignAliasFirst {α : Type} [Add α] (a : M33 α) :
    Gen.M33.addSAssignAliasFirst a = M33.map (· + a.x00) a := rfl

theorem M33_subSAssignAliasFirst {α : Type} [Sub α] (a : M33 α) :
    Gen.M33.subSAssignAliasFirst a = M33.map (· - a.x00) a := rfl

theorem M44_addSAssignAliasFirst {α : Type} [Add α] (a : M44 α) :
    Gen.M44.addSAssignAliasFirst a = M44.map (· + a.x00) a := rfl

theorem M44_subSAssignAliasFirst {α : Type} [Sub α] (a : M44 α) :
    Gen.M44.subSAssignAliasFirst a = M44.map (· - a.x00) a := rfl

end ImathVerif.C04Alias
