import ImathVerif.Props.C16
/-!
# C16 — culling stated about the FRUSTUM, unit normals of `planes (p, M)`, mirrored camera matrices, non-constancy witnesses

Props/C16.lean proves the culling clauses about the region cut out by the six planes that `planes (p, M)` returns
(`isVisibleSphere_*_false`, `completelyContains*_true`: any `M`) and, separately, that for an affine orientation-preserving
`M` those planes cut out the image of the frustum (`planesM_*_affine`).  Here the two are COMPOSED: the conclusions speak
about the frustum region `interiorPersp` / `interiorOrtho` itself (the clauses as written: "never false for an object that
touches it", "never true for an object with a point outside it"), for the four queries and both projection kinds.

Also: the normals of `planes (p, M)` are UNIT vectors (affine `M`, `det ≠ 0`); the mirrored case (`det < 0`): every plane
equation changes sign, so all six normals point INWARDS and `FrustumTest` reports every point invisible; and concrete
evaluations over ℚ showing that the culling functions take both values (no constant function satisfies them).
-/
set_option linter.unusedSimpArgs false
set_option linter.unusedSectionVars false
set_option linter.unusedVariables false
set_option linter.unusedTactic false
set_option linter.unreachableTactic false
namespace ImathVerif.C16
open ImathVerif ImathVerif.FrustumSpec
variable {α : Type} [Field α] [LinearOrder α] [IsStrictOrderedRing α]

/-! ## an affine matrix with `det ≠ 0` is onto: every world point is `q * M` for a camera-space point `q` -/
/-- `(w − translation) · A⁻¹` by the adjugate -/
def affinePre (M : M44 α) (w : V3 α) : V3 α :=
  ⟨((w.x - M.x30) * (M.x11 * M.x22 - M.x12 * M.x21) - (w.y - M.x31) * (M.x10 * M.x22 - M.x12 * M.x20)
      + (w.z - M.x32) * (M.x10 * M.x21 - M.x11 * M.x20)) / det3 M,
   (-((w.x - M.x30) * (M.x01 * M.x22 - M.x02 * M.x21)) + (w.y - M.x31) * (M.x00 * M.x22 - M.x02 * M.x20)
      - (w.z - M.x32) * (M.x00 * M.x21 - M.x01 * M.x20)) / det3 M,
   ((w.x - M.x30) * (M.x01 * M.x12 - M.x02 * M.x11) - (w.y - M.x31) * (M.x00 * M.x12 - M.x02 * M.x10)
      + (w.z - M.x32) * (M.x00 * M.x11 - M.x01 * M.x10)) / det3 M⟩
theorem mulM44_affinePre (M : M44 α) (hM : IsAffine M) (hdet : det3 M ≠ 0) (w : V3 α) : Gen.V3.mulM44 (affinePre M w) M = w := by
  rw [mulM44_affine M hM]
  rcases w with ⟨wx, wy, wz⟩
  simp only [affinePre]
  have kx : ((wx - M.x30) * (M.x11 * M.x22 - M.x12 * M.x21) - (wy - M.x31) * (M.x10 * M.x22 - M.x12 * M.x20)
      + (wz - M.x32) * (M.x10 * M.x21 - M.x11 * M.x20)) * M.x00
      + (-((wx - M.x30) * (M.x01 * M.x22 - M.x02 * M.x21)) + (wy - M.x31) * (M.x00 * M.x22 - M.x02 * M.x20)
      - (wz - M.x32) * (M.x00 * M.x21 - M.x01 * M.x20)) * M.x10
      + ((wx - M.x30) * (M.x01 * M.x12 - M.x02 * M.x11) - (wy - M.x31) * (M.x00 * M.x12 - M.x02 * M.x10)
      + (wz - M.x32) * (M.x00 * M.x11 - M.x01 * M.x10)) * M.x20 = (wx - M.x30) * det3 M := by simp only [det3]; ring
  have ky : ((wx - M.x30) * (M.x11 * M.x22 - M.x12 * M.x21) - (wy - M.x31) * (M.x10 * M.x22 - M.x12 * M.x20)
      + (wz - M.x32) * (M.x10 * M.x21 - M.x11 * M.x20)) * M.x01
      + (-((wx - M.x30) * (M.x01 * M.x22 - M.x02 * M.x21)) + (wy - M.x31) * (M.x00 * M.x22 - M.x02 * M.x20)
      - (wz - M.x32) * (M.x00 * M.x21 - M.x01 * M.x20)) * M.x11
      + ((wx - M.x30) * (M.x01 * M.x12 - M.x02 * M.x11) - (wy - M.x31) * (M.x00 * M.x12 - M.x02 * M.x10)
      + (wz - M.x32) * (M.x00 * M.x11 - M.x01 * M.x10)) * M.x21 = (wy - M.x31) * det3 M := by simp only [det3]; ring
  have kz : ((wx - M.x30) * (M.x11 * M.x22 - M.x12 * M.x21) - (wy - M.x31) * (M.x10 * M.x22 - M.x12 * M.x20)
      + (wz - M.x32) * (M.x10 * M.x21 - M.x11 * M.x20)) * M.x02
      + (-((wx - M.x30) * (M.x01 * M.x22 - M.x02 * M.x21)) + (wy - M.x31) * (M.x00 * M.x22 - M.x02 * M.x20)
      - (wz - M.x32) * (M.x00 * M.x21 - M.x01 * M.x20)) * M.x12
      + ((wx - M.x30) * (M.x01 * M.x12 - M.x02 * M.x11) - (wy - M.x31) * (M.x00 * M.x12 - M.x02 * M.x10)
      + (wz - M.x32) * (M.x00 * M.x11 - M.x01 * M.x10)) * M.x22 = (wz - M.x32) * det3 M := by simp only [det3]; ring
  congr 1
  · field_simp; linear_combination kx
  · field_simp; linear_combination ky
  · field_simp; linear_combination kz
/-- … and one-to-one -/
theorem affinePre_mulM44 (M : M44 α) (hM : IsAffine M) (hdet : det3 M ≠ 0) (q : V3 α) : affinePre M (Gen.V3.mulM44 q M) = q := by
  rw [mulM44_affine M hM]
  rcases q with ⟨qx, qy, qz⟩
  simp only [affinePre]
  congr 1 <;> field_simp <;> simp only [det3] <;> ring

/-! ## isVisible (point): membership in the interior of the frustum moved by `M`, for EVERY world point -/
theorem isVisiblePoint_persp_world (tmin tmax : α) (sqrt : α → α) (hlen : LenSpec (Gen.V3.length tmin tmax sqrt)) (n f l r t b : α)
    (hn : 0 < n) (hf : f ≠ 0) (hlr : l < r) (hbt : b < t) (M : M44 α) (hM : IsAffine M) (hdet : 0 < det3 M) (w : V3 α) :
    Gen.FrustumTest.isVisiblePoint_persp tmin tmax sqrt n f l r t b M w = true ↔
      ∃ q, Gen.V3.mulM44 q M = w ∧ interiorPersp n f l r t b q := by
  constructor
  · intro h
    refine ⟨affinePre M w, mulM44_affinePre M hM (ne_of_gt hdet) w, ?_⟩
    rw [← mulM44_affinePre M hM (ne_of_gt hdet) w] at h
    exact (isVisiblePoint_persp_affine tmin tmax sqrt hlen n f l r t b hn hf hlr hbt M hM hdet _).mp h
  · rintro ⟨q, rfl, hq⟩
    exact (isVisiblePoint_persp_affine tmin tmax sqrt hlen n f l r t b hn hf hlr hbt M hM hdet q).mpr hq
theorem isVisiblePoint_ortho_world (tmin tmax : α) (sqrt : α → α) (hlen : LenSpec (Gen.V3.length tmin tmax sqrt)) (n f l r t b : α)
    (hnf : n < f) (hlr : l < r) (hbt : b < t) (M : M44 α) (hM : IsAffine M) (hdet : 0 < det3 M) (w : V3 α) :
    Gen.FrustumTest.isVisiblePoint_ortho tmin tmax sqrt n f l r t b M w = true ↔
      ∃ q, Gen.V3.mulM44 q M = w ∧ interiorOrtho n f l r t b q := by
  constructor
  · intro h
    refine ⟨affinePre M w, mulM44_affinePre M hM (ne_of_gt hdet) w, ?_⟩
    rw [← mulM44_affinePre M hM (ne_of_gt hdet) w] at h
    exact (isVisiblePoint_ortho_affine tmin tmax sqrt hlen n f l r t b hnf hlr hbt M hM hdet _).mp h
  · rintro ⟨q, rfl, hq⟩
    exact (isVisiblePoint_ortho_affine tmin tmax sqrt hlen n f l r t b hnf hlr hbt M hM hdet q).mpr hq

/-! ## isVisible (sphere / box) is never false for an object that reaches the interior of the frustum -/
/-- **perspective, sphere**: if some camera-space point `q` of the OPEN FRUSTUM has its image `q * M` in the ball, the ball is visible -/
theorem isVisibleSphere_persp_touches (tmin tmax : α) (sqrt : α → α) (hlen : LenSpec (Gen.V3.length tmin tmax sqrt)) (n f l r t b : α)
    (hn : 0 < n) (hf : f ≠ 0) (hlr : l < r) (hbt : b < t) (M : M44 α) (hM : IsAffine M) (hdet : 0 < det3 M) (s : Sphere3 α)
    (hr : 0 ≤ s.radius) (q : V3 α) (hq : interiorPersp n f l r t b q) (hs : sphereMem s (Gen.V3.mulM44 q M)) :
    Gen.FrustumTest.isVisibleSphere_persp tmin tmax sqrt n f l r t b M s = true := by
  by_contra h
  exact isVisibleSphere_persp_false tmin tmax sqrt hlen n f l r t b M s hr (Bool.eq_false_iff.mpr h) _ hs
    ((planesM_persp_affine tmin tmax sqrt hlen n f l r t b hn hf hlr hbt M hM hdet q).1.mpr hq)
theorem isVisibleSphere_ortho_touches (tmin tmax : α) (sqrt : α → α) (hlen : LenSpec (Gen.V3.length tmin tmax sqrt)) (n f l r t b : α)
    (hnf : n < f) (hlr : l < r) (hbt : b < t) (M : M44 α) (hM : IsAffine M) (hdet : 0 < det3 M) (s : Sphere3 α)
    (hr : 0 ≤ s.radius) (q : V3 α) (hq : interiorOrtho n f l r t b q) (hs : sphereMem s (Gen.V3.mulM44 q M)) :
    Gen.FrustumTest.isVisibleSphere_ortho tmin tmax sqrt n f l r t b M s = true := by
  by_contra h
  exact isVisibleSphere_ortho_false tmin tmax sqrt hlen n f l r t b M s hr (Bool.eq_false_iff.mpr h) _ hs
    ((planesM_ortho_affine tmin tmax sqrt hlen n f l r t b hnf hlr hbt M hM hdet q).1.mpr hq)
theorem isVisibleBox_persp_touches (tmin tmax : α) (sqrt : α → α) (hlen : LenSpec (Gen.V3.length tmin tmax sqrt)) (n f l r t b : α)
    (hn : 0 < n) (hf : f ≠ 0) (hlr : l < r) (hbt : b < t) (M : M44 α) (hM : IsAffine M) (hdet : 0 < det3 M) (bx : Box3 α)
    (q : V3 α) (hq : interiorPersp n f l r t b q) (hs : boxMem bx (Gen.V3.mulM44 q M)) :
    Gen.FrustumTest.isVisibleBox_persp tmin tmax sqrt n f l r t b M bx = true := by
  by_contra h
  exact isVisibleBox_persp_false tmin tmax sqrt n f l r t b M bx (Bool.eq_false_iff.mpr h) _ hs
    ((planesM_persp_affine tmin tmax sqrt hlen n f l r t b hn hf hlr hbt M hM hdet q).1.mpr hq)
theorem isVisibleBox_ortho_touches (tmin tmax : α) (sqrt : α → α) (hlen : LenSpec (Gen.V3.length tmin tmax sqrt)) (n f l r t b : α)
    (hnf : n < f) (hlr : l < r) (hbt : b < t) (M : M44 α) (hM : IsAffine M) (hdet : 0 < det3 M) (bx : Box3 α)
    (q : V3 α) (hq : interiorOrtho n f l r t b q) (hs : boxMem bx (Gen.V3.mulM44 q M)) :
    Gen.FrustumTest.isVisibleBox_ortho tmin tmax sqrt n f l r t b M bx = true := by
  by_contra h
  exact isVisibleBox_ortho_false tmin tmax sqrt n f l r t b M bx (Bool.eq_false_iff.mpr h) _ hs
    ((planesM_ortho_affine tmin tmax sqrt hlen n f l r t b hnf hlr hbt M hM hdet q).1.mpr hq)

/-! ## completelyContains (sphere / box) is never true for an object with a point outside the (open) frustum -/
/-- **perspective, sphere**: if `completelyContains` is true, EVERY world point `w` of the ball is the image of a camera-space point
of the open frustum -/
theorem completelyContainsSphere_persp_inside (tmin tmax : α) (sqrt : α → α) (hlen : LenSpec (Gen.V3.length tmin tmax sqrt)) (n f l r t b : α)
    (hn : 0 < n) (hf : f ≠ 0) (hlr : l < r) (hbt : b < t) (M : M44 α) (hM : IsAffine M) (hdet : 0 < det3 M) (s : Sphere3 α)
    (hr : 0 ≤ s.radius) (h : Gen.FrustumTest.completelyContainsSphere_persp tmin tmax sqrt n f l r t b M s = true)
    (w : V3 α) (hw : sphereMem s w) : ∃ q, Gen.V3.mulM44 q M = w ∧ interiorPersp n f l r t b q := by
  have e := mulM44_affinePre M hM (ne_of_gt hdet) w
  refine ⟨affinePre M w, e, (planesM_persp_affine tmin tmax sqrt hlen n f l r t b hn hf hlr hbt M hM hdet _).1.mp ?_⟩
  rw [e]; exact completelyContainsSphere_persp_true tmin tmax sqrt hlen n f l r t b M s hr h w hw
theorem completelyContainsSphere_ortho_inside (tmin tmax : α) (sqrt : α → α) (hlen : LenSpec (Gen.V3.length tmin tmax sqrt)) (n f l r t b : α)
    (hnf : n < f) (hlr : l < r) (hbt : b < t) (M : M44 α) (hM : IsAffine M) (hdet : 0 < det3 M) (s : Sphere3 α)
    (hr : 0 ≤ s.radius) (h : Gen.FrustumTest.completelyContainsSphere_ortho tmin tmax sqrt n f l r t b M s = true)
    (w : V3 α) (hw : sphereMem s w) : ∃ q, Gen.V3.mulM44 q M = w ∧ interiorOrtho n f l r t b q := by
  have e := mulM44_affinePre M hM (ne_of_gt hdet) w
  refine ⟨affinePre M w, e, (planesM_ortho_affine tmin tmax sqrt hlen n f l r t b hnf hlr hbt M hM hdet _).1.mp ?_⟩
  rw [e]; exact completelyContainsSphere_ortho_true tmin tmax sqrt hlen n f l r t b M s hr h w hw
theorem completelyContainsBox_persp_inside (tmin tmax : α) (sqrt : α → α) (hlen : LenSpec (Gen.V3.length tmin tmax sqrt)) (n f l r t b : α)
    (hn : 0 < n) (hf : f ≠ 0) (hlr : l < r) (hbt : b < t) (M : M44 α) (hM : IsAffine M) (hdet : 0 < det3 M) (bx : Box3 α)
    (h : Gen.FrustumTest.completelyContainsBox_persp tmin tmax sqrt n f l r t b M bx = true)
    (w : V3 α) (hw : boxMem bx w) : ∃ q, Gen.V3.mulM44 q M = w ∧ interiorPersp n f l r t b q := by
  have e := mulM44_affinePre M hM (ne_of_gt hdet) w
  refine ⟨affinePre M w, e, (planesM_persp_affine tmin tmax sqrt hlen n f l r t b hn hf hlr hbt M hM hdet _).1.mp ?_⟩
  rw [e]; exact completelyContainsBox_persp_true tmin tmax sqrt n f l r t b M bx h w hw
theorem completelyContainsBox_ortho_inside (tmin tmax : α) (sqrt : α → α) (hlen : LenSpec (Gen.V3.length tmin tmax sqrt)) (n f l r t b : α)
    (hnf : n < f) (hlr : l < r) (hbt : b < t) (M : M44 α) (hM : IsAffine M) (hdet : 0 < det3 M) (bx : Box3 α)
    (h : Gen.FrustumTest.completelyContainsBox_ortho tmin tmax sqrt n f l r t b M bx = true)
    (w : V3 α) (hw : boxMem bx w) : ∃ q, Gen.V3.mulM44 q M = w ∧ interiorOrtho n f l r t b q := by
  have e := mulM44_affinePre M hM (ne_of_gt hdet) w
  refine ⟨affinePre M w, e, (planesM_ortho_affine tmin tmax sqrt hlen n f l r t b hnf hlr hbt M hM hdet _).1.mp ?_⟩
  rw [e]; exact completelyContainsBox_ortho_true tmin tmax sqrt n f l r t b M bx h w hw

/-! ## `planes (p, M)`: unit normals; mirrored `M` -/
theorem normalizeIf_normSq {len : V3 α → α} (h : LenSpec len) (v : V3 α) (hv : normSq v ≠ 0) : normSq (normalizeIf len v) = 1 := by
  have h0 := ne_of_gt (lenSpec_pos h v hv)
  simp only [normalizeIf, if_neg h0]
  exact normalizeWith_normSq h v hv
/-- a non-degenerate triangle stays non-degenerate under an affine map with `det ≠ 0` -/
theorem cross_affine_ne_zero (M : M44 α) (h : IsAffine M) (hdet : det3 M ≠ 0) (p1 p2 p3 : V3 α)
    (hc : normSq (cross (vsub p2 p1) (vsub p3 p1)) ≠ 0) :
    normSq (cross (vsub (Gen.V3.mulM44 p2 M) (Gen.V3.mulM44 p1 M)) (vsub (Gen.V3.mulM44 p3 M) (Gen.V3.mulM44 p1 M))) ≠ 0 := by
  apply normSq_ne_zero_of_vdot (w := vsub (Gen.V3.mulM44 ⟨p1.x + (cross (vsub p2 p1) (vsub p3 p1)).x,
    p1.y + (cross (vsub p2 p1) (vsub p3 p1)).y, p1.z + (cross (vsub p2 p1) (vsub p3 p1)).z⟩ M) (Gen.V3.mulM44 p1 M))
  rw [triple_affine M h]
  apply mul_ne_zero hdet
  have : vdot (cross (vsub p2 p1) (vsub p3 p1)) (vsub ⟨p1.x + (cross (vsub p2 p1) (vsub p3 p1)).x,
    p1.y + (cross (vsub p2 p1) (vsub p3 p1)).y, p1.z + (cross (vsub p2 p1) (vsub p3 p1)).z⟩ p1)
      = normSq (cross (vsub p2 p1) (vsub p3 p1)) := by
    simp only [vdot, vsub, normSq]; ring
  rw [this]; exact hc
theorem planeThroughIf_affine_unit {len : V3 α → α} (hl : LenSpec len) (M : M44 α) (h : IsAffine M) (hdet : det3 M ≠ 0)
    (p1 p2 p3 : V3 α) (hc : normSq (cross (vsub p2 p1) (vsub p3 p1)) ≠ 0) :
    normSq (planeThroughIf len (Gen.V3.mulM44 p1 M) (Gen.V3.mulM44 p2 M) (Gen.V3.mulM44 p3 M)).normal = 1 := by
  simp only [planeThroughIf]
  exact normalizeIf_normSq hl _ (cross_affine_ne_zero M h hdet p1 p2 p3 hc)
/-- all six normals have length one -/
def normalsUnit (P : Planes6 α) : Prop :=
  normSq P.1.normal = 1 ∧ normSq P.2.1.normal = 1 ∧ normSq P.2.2.1.normal = 1 ∧ normSq P.2.2.2.1.normal = 1 ∧
  normSq P.2.2.2.2.1.normal = 1 ∧ normSq P.2.2.2.2.2.normal = 1
/-- **`planes (p, M)` returns UNIT normals**, perspective: non-degenerate frustum, affine `M` with `det ≠ 0` (mirrored included) -/
theorem planesM_persp_unit (tmin tmax : α) (sqrt : α → α) (hlen : LenSpec (Gen.V3.length tmin tmax sqrt)) (n f l r t b : α)
    (hn : n ≠ 0) (hf : f ≠ 0) (hlr : l ≠ r) (hbt : b ≠ t) (M : M44 α) (hM : IsAffine M) (hdet : det3 M ≠ 0) :
    normalsUnit (planesM_persp tmin tmax sqrt n f l r t b M) := by
  have h1' : r - l ≠ 0 := sub_ne_zero.mpr (Ne.symm hlr)
  have h2' : t - b ≠ 0 := sub_ne_zero.mpr (Ne.symm hbt)
  have hs : f / n ≠ 0 := div_ne_zero hf hn
  obtain ⟨a0, a1, a2, a3, a4, a5⟩ := planesM_persp_struct tmin tmax sqrt n f l r t b M
  simp only [normalsUnit, planesM_persp, a0, a1, a2, a3, a4, a5]
  refine ⟨?_, ?_, ?_, ?_, ?_, ?_⟩
  · exact planeThroughIf_affine_unit hlen M hM hdet _ _ _ (by rw [cross_top n l r t]; exact normSq_ne_zero_of_y _ _ _ (mul_ne_zero hn h1'))
  · exact planeThroughIf_affine_unit hlen M hM hdet _ _ _ (by rw [cross_right n r t b]; exact normSq_ne_zero_of_x _ _ _ (mul_ne_zero hn h2'))
  · exact planeThroughIf_affine_unit hlen M hM hdet _ _ _ (by rw [cross_bottom n l r b]; exact normSq_ne_zero_of_y _ _ _ (neg_ne_zero.mpr (mul_ne_zero hn h1')))
  · exact planeThroughIf_affine_unit hlen M hM hdet _ _ _ (by rw [cross_left n l t b]; exact normSq_ne_zero_of_x _ _ _ (neg_ne_zero.mpr (mul_ne_zero hn h2')))
  · exact planeThroughIf_affine_unit hlen M hM hdet _ _ _ (by rw [cross_near n l r t b]; exact normSq_ne_zero_of_z _ _ _ (mul_ne_zero h1' h2'))
  · refine planeThroughIf_affine_unit hlen M hM hdet _ _ _ ?_
    rw [cross_far f (f / n * l) (f / n * r) (f / n * t) (f / n * b)]
    refine normSq_ne_zero_of_z _ _ _ (neg_ne_zero.mpr ?_)
    have : (f / n * r - f / n * l) * (f / n * t - f / n * b) = (f / n) * (f / n) * ((r - l) * (t - b)) := by ring
    rw [this]; exact mul_ne_zero (mul_ne_zero hs hs) (mul_ne_zero h1' h2')
theorem planesM_ortho_unit (tmin tmax : α) (sqrt : α → α) (hlen : LenSpec (Gen.V3.length tmin tmax sqrt)) (n f l r t b : α)
    (hnf : n ≠ f) (hlr : l ≠ r) (hbt : b ≠ t) (M : M44 α) (hM : IsAffine M) (hdet : det3 M ≠ 0) :
    normalsUnit (planesM_ortho tmin tmax sqrt n f l r t b M) := by
  have d1 : f - n ≠ 0 := sub_ne_zero.mpr (Ne.symm hnf)
  have h1' : r - l ≠ 0 := sub_ne_zero.mpr (Ne.symm hlr)
  have h2' : t - b ≠ 0 := sub_ne_zero.mpr (Ne.symm hbt)
  obtain ⟨a0, a1, a2, a3, a4, a5⟩ := planesM_ortho_struct tmin tmax sqrt n f l r t b M
  have c0 : cross (vsub ⟨r, t, -f⟩ ⟨r, t, -n⟩) (vsub ⟨l, t, -f⟩ ⟨r, t, -n⟩) = (⟨0, (f - n) * (r - l), 0⟩ : V3 α) := by
    simp only [cross, vsub]; congr 1 <;> ring
  have c1 : cross (vsub ⟨r, b, -f⟩ ⟨r, b, -n⟩) (vsub ⟨r, t, -f⟩ ⟨r, b, -n⟩) = (⟨(f - n) * (t - b), 0, 0⟩ : V3 α) := by
    simp only [cross, vsub]; congr 1 <;> ring
  have c2 : cross (vsub ⟨l, b, -f⟩ ⟨l, b, -n⟩) (vsub ⟨r, b, -f⟩ ⟨l, b, -n⟩) = (⟨0, -((f - n) * (r - l)), 0⟩ : V3 α) := by
    simp only [cross, vsub]; congr 1 <;> ring
  have c3 : cross (vsub ⟨l, t, -f⟩ ⟨l, t, -n⟩) (vsub ⟨l, b, -f⟩ ⟨l, t, -n⟩) = (⟨-((f - n) * (t - b)), 0, 0⟩ : V3 α) := by
    simp only [cross, vsub]; congr 1 <;> ring
  simp only [normalsUnit, planesM_ortho, a0, a1, a2, a3, a4, a5]
  refine ⟨?_, ?_, ?_, ?_, ?_, ?_⟩
  · exact planeThroughIf_affine_unit hlen M hM hdet _ _ _ (by rw [c0]; exact normSq_ne_zero_of_y _ _ _ (mul_ne_zero d1 h1'))
  · exact planeThroughIf_affine_unit hlen M hM hdet _ _ _ (by rw [c1]; exact normSq_ne_zero_of_x _ _ _ (mul_ne_zero d1 h2'))
  · exact planeThroughIf_affine_unit hlen M hM hdet _ _ _ (by rw [c2]; exact normSq_ne_zero_of_y _ _ _ (neg_ne_zero.mpr (mul_ne_zero d1 h1')))
  · exact planeThroughIf_affine_unit hlen M hM hdet _ _ _ (by rw [c3]; exact normSq_ne_zero_of_x _ _ _ (neg_ne_zero.mpr (mul_ne_zero d1 h2')))
  · exact planeThroughIf_affine_unit hlen M hM hdet _ _ _ (by rw [cross_near n l r t b]; exact normSq_ne_zero_of_z _ _ _ (mul_ne_zero h1' h2'))
  · exact planeThroughIf_affine_unit hlen M hM hdet _ _ _ (by rw [cross_far f l r t b]; exact normSq_ne_zero_of_z _ _ _ (neg_ne_zero.mpr (mul_ne_zero h1' h2')))

/-- a plane set from three points, moved by an ORIENTATION-REVERSING affine map: its equation at the image of `q` is a
NEGATIVE multiple of the original plane's equation at `q` (same zero set, OPPOSITE side) -/
theorem planeThroughIf_affine_neg {len : V3 α → α} (hl : LenSpec len) (M : M44 α) (h : IsAffine M) (hdet : det3 M < 0)
    (p1 p2 p3 : V3 α) (hc : normSq (cross (vsub p2 p1) (vsub p3 p1)) ≠ 0) :
    ∃ κ : α, κ < 0 ∧ ∀ q : V3 α,
      planeEval (planeThroughIf len (Gen.V3.mulM44 p1 M) (Gen.V3.mulM44 p2 M) (Gen.V3.mulM44 p3 M)) (Gen.V3.mulM44 q M)
        = κ * planeEval (planeThroughIf len p1 p2 p3) q := by
  have hc' := cross_affine_ne_zero M h (ne_of_lt hdet) p1 p2 p3 hc
  have l0 := lenSpec_pos hl _ hc
  have l1 := lenSpec_pos hl _ hc'
  refine ⟨det3 M * len (cross (vsub p2 p1) (vsub p3 p1)) /
    len (cross (vsub (Gen.V3.mulM44 p2 M) (Gen.V3.mulM44 p1 M)) (vsub (Gen.V3.mulM44 p3 M) (Gen.V3.mulM44 p1 M))),
    div_neg_of_neg_of_pos (mul_neg_of_neg_of_pos hdet l0) l1, ?_⟩
  intro q
  rw [planeThroughIf_eq _ _ _ (ne_of_gt l0), planeThroughIf_eq _ _ _ (ne_of_gt l1), planeThrough_eval hl _ _ _ hc,
    planeThrough_eval hl _ _ _ hc', triple_affine M h]
  have := ne_of_gt l0; have := ne_of_gt l1
  field_simp
/-- strictly on the POSITIVE side of all six planes -/
def strictlyOutsideAllPlanes (P : Planes6 α) (p : V3 α) : Prop :=
  0 < planeEval P.1 p ∧ 0 < planeEval P.2.1 p ∧ 0 < planeEval P.2.2.1 p ∧ 0 < planeEval P.2.2.2.1 p ∧ 0 < planeEval P.2.2.2.2.1 p ∧
    0 < planeEval P.2.2.2.2.2 p
theorem neg_mul_neg_iff {a c : α} (hc : c < 0) : c * a < 0 ↔ 0 < a := by
  constructor
  · intro h; by_contra hn; rw [not_lt] at hn; have := mul_nonneg_of_nonpos_of_nonpos hc.le hn; linarith
  · intro h; exact mul_neg_of_neg_of_pos hc h
theorem planes_neg_factors (P Q : Planes6 α) (x y : V3 α)
    (h0 : ∃ κ : α, κ < 0 ∧ planeEval P.1 x = κ * planeEval Q.1 y) (h1 : ∃ κ : α, κ < 0 ∧ planeEval P.2.1 x = κ * planeEval Q.2.1 y)
    (h2 : ∃ κ : α, κ < 0 ∧ planeEval P.2.2.1 x = κ * planeEval Q.2.2.1 y)
    (h3 : ∃ κ : α, κ < 0 ∧ planeEval P.2.2.2.1 x = κ * planeEval Q.2.2.2.1 y)
    (h4 : ∃ κ : α, κ < 0 ∧ planeEval P.2.2.2.2.1 x = κ * planeEval Q.2.2.2.2.1 y)
    (h5 : ∃ κ : α, κ < 0 ∧ planeEval P.2.2.2.2.2 x = κ * planeEval Q.2.2.2.2.2 y) :
    strictlyInAllPlanes P x ↔ strictlyOutsideAllPlanes Q y := by
  obtain ⟨k0, p0, e0⟩ := h0; obtain ⟨k1, p1, e1⟩ := h1; obtain ⟨k2, p2, e2⟩ := h2
  obtain ⟨k3, p3, e3⟩ := h3; obtain ⟨k4, p4, e4⟩ := h4; obtain ⟨k5, p5, e5⟩ := h5
  simp only [strictlyInAllPlanes, strictlyOutsideAllPlanes, e0, e1, e2, e3, e4, e5, neg_mul_neg_iff p0, neg_mul_neg_iff p1,
    neg_mul_neg_iff p2, neg_mul_neg_iff p3, neg_mul_neg_iff p4, neg_mul_neg_iff p5]

/-- **mirrored camera matrix, perspective** (`det < 0`): the six plane equations of `planes (p, M)` at `q * M` are NEGATIVE multiples
of those of `planes (p)` at `q`: the planes are the right ones but every normal points INTO the frustum -/
theorem planesM_persp_mirrored (tmin tmax : α) (sqrt : α → α) (hlen : LenSpec (Gen.V3.length tmin tmax sqrt)) (n f l r t b : α)
    (hn : 0 < n) (hf : f ≠ 0) (hlr : l < r) (hbt : b < t) (M : M44 α) (hM : IsAffine M) (hdet : det3 M < 0) (q : V3 α) :
    strictlyInAllPlanes (planesM_persp tmin tmax sqrt n f l r t b M) (Gen.V3.mulM44 q M) ↔
      strictlyOutsideAllPlanes (Gen.Frustum.planes_persp tmin tmax sqrt n f l r t b) q := by
  have hn' := ne_of_gt hn
  have h1' : r - l ≠ 0 := ne_of_gt (sub_pos.mpr hlr)
  have h2' : t - b ≠ 0 := ne_of_gt (sub_pos.mpr hbt)
  have hs : f / n ≠ 0 := div_ne_zero hf hn'
  obtain ⟨a0, a1, a2, a3, a4, a5⟩ := planesM_persp_struct tmin tmax sqrt n f l r t b M
  obtain ⟨i0, i1, i2, i3, i4, i5⟩ := planesM_persp_struct tmin tmax sqrt n f l r t b identity44
  simp only [mulM44_identity] at i0 i1 i2 i3 i4 i5
  rw [← planesM_persp_identity tmin tmax sqrt hlen n f l r t b hn hf hlr hbt]
  refine planes_neg_factors (planesM_persp tmin tmax sqrt n f l r t b M) (planesM_persp tmin tmax sqrt n f l r t b identity44)
    (Gen.V3.mulM44 q M) q ?_ ?_ ?_ ?_ ?_ ?_
  · obtain ⟨κ, hκ, e⟩ := planeThroughIf_affine_neg hlen M hM hdet ⟨0, 0, 0⟩ ⟨r, t, -n⟩ ⟨l, t, -n⟩
      (by rw [cross_top n l r t]; exact normSq_ne_zero_of_y _ _ _ (mul_ne_zero hn' h1'))
    exact ⟨κ, hκ, by simp only [planesM_persp, a0, i0]; exact e q⟩
  · obtain ⟨κ, hκ, e⟩ := planeThroughIf_affine_neg hlen M hM hdet ⟨0, 0, 0⟩ ⟨r, b, -n⟩ ⟨r, t, -n⟩
      (by rw [cross_right n r t b]; exact normSq_ne_zero_of_x _ _ _ (mul_ne_zero hn' h2'))
    exact ⟨κ, hκ, by simp only [planesM_persp, a1, i1]; exact e q⟩
  · obtain ⟨κ, hκ, e⟩ := planeThroughIf_affine_neg hlen M hM hdet ⟨0, 0, 0⟩ ⟨l, b, -n⟩ ⟨r, b, -n⟩
      (by rw [cross_bottom n l r b]; exact normSq_ne_zero_of_y _ _ _ (neg_ne_zero.mpr (mul_ne_zero hn' h1')))
    exact ⟨κ, hκ, by simp only [planesM_persp, a2, i2]; exact e q⟩
  · obtain ⟨κ, hκ, e⟩ := planeThroughIf_affine_neg hlen M hM hdet ⟨0, 0, 0⟩ ⟨l, t, -n⟩ ⟨l, b, -n⟩
      (by rw [cross_left n l t b]; exact normSq_ne_zero_of_x _ _ _ (neg_ne_zero.mpr (mul_ne_zero hn' h2')))
    exact ⟨κ, hκ, by simp only [planesM_persp, a3, i3]; exact e q⟩
  · obtain ⟨κ, hκ, e⟩ := planeThroughIf_affine_neg hlen M hM hdet ⟨l, b, -n⟩ ⟨r, b, -n⟩ ⟨r, t, -n⟩
      (by rw [cross_near n l r t b]; exact normSq_ne_zero_of_z _ _ _ (mul_ne_zero h1' h2'))
    exact ⟨κ, hκ, by simp only [planesM_persp, a4, i4]; exact e q⟩
  · obtain ⟨κ, hκ, e⟩ := planeThroughIf_affine_neg hlen M hM hdet ⟨f / n * l, f / n * b, -f⟩ ⟨f / n * l, f / n * t, -f⟩ ⟨f / n * r, f / n * t, -f⟩
      (by rw [cross_far f (f / n * l) (f / n * r) (f / n * t) (f / n * b)]
          refine normSq_ne_zero_of_z _ _ _ (neg_ne_zero.mpr ?_)
          have : (f / n * r - f / n * l) * (f / n * t - f / n * b) = (f / n) * (f / n) * ((r - l) * (t - b)) := by ring
          rw [this]; exact mul_ne_zero (mul_ne_zero hs hs) (mul_ne_zero h1' h2'))
    exact ⟨κ, hκ, by simp only [planesM_persp, a5, i5]; exact e q⟩
theorem planesM_ortho_mirrored (tmin tmax : α) (sqrt : α → α) (hlen : LenSpec (Gen.V3.length tmin tmax sqrt)) (n f l r t b : α)
    (hnf : n < f) (hlr : l < r) (hbt : b < t) (M : M44 α) (hM : IsAffine M) (hdet : det3 M < 0) (q : V3 α) :
    strictlyInAllPlanes (planesM_ortho tmin tmax sqrt n f l r t b M) (Gen.V3.mulM44 q M) ↔
      strictlyOutsideAllPlanes (Gen.Frustum.planes_ortho tmin tmax sqrt n f l r t b) q := by
  have d1 : f - n ≠ 0 := ne_of_gt (sub_pos.mpr hnf)
  have h1' : r - l ≠ 0 := ne_of_gt (sub_pos.mpr hlr)
  have h2' : t - b ≠ 0 := ne_of_gt (sub_pos.mpr hbt)
  obtain ⟨a0, a1, a2, a3, a4, a5⟩ := planesM_ortho_struct tmin tmax sqrt n f l r t b M
  obtain ⟨i0, i1, i2, i3, i4, i5⟩ := planesM_ortho_struct tmin tmax sqrt n f l r t b identity44
  simp only [mulM44_identity] at i0 i1 i2 i3 i4 i5
  have c0 : cross (vsub ⟨r, t, -f⟩ ⟨r, t, -n⟩) (vsub ⟨l, t, -f⟩ ⟨r, t, -n⟩) = (⟨0, (f - n) * (r - l), 0⟩ : V3 α) := by
    simp only [cross, vsub]; congr 1 <;> ring
  have c1 : cross (vsub ⟨r, b, -f⟩ ⟨r, b, -n⟩) (vsub ⟨r, t, -f⟩ ⟨r, b, -n⟩) = (⟨(f - n) * (t - b), 0, 0⟩ : V3 α) := by
    simp only [cross, vsub]; congr 1 <;> ring
  have c2 : cross (vsub ⟨l, b, -f⟩ ⟨l, b, -n⟩) (vsub ⟨r, b, -f⟩ ⟨l, b, -n⟩) = (⟨0, -((f - n) * (r - l)), 0⟩ : V3 α) := by
    simp only [cross, vsub]; congr 1 <;> ring
  have c3 : cross (vsub ⟨l, t, -f⟩ ⟨l, t, -n⟩) (vsub ⟨l, b, -f⟩ ⟨l, t, -n⟩) = (⟨-((f - n) * (t - b)), 0, 0⟩ : V3 α) := by
    simp only [cross, vsub]; congr 1 <;> ring
  rw [← planesM_ortho_identity tmin tmax sqrt hlen n f l r t b hnf hlr hbt]
  refine planes_neg_factors (planesM_ortho tmin tmax sqrt n f l r t b M) (planesM_ortho tmin tmax sqrt n f l r t b identity44)
    (Gen.V3.mulM44 q M) q ?_ ?_ ?_ ?_ ?_ ?_
  · obtain ⟨κ, hκ, e⟩ := planeThroughIf_affine_neg hlen M hM hdet ⟨r, t, -n⟩ ⟨r, t, -f⟩ ⟨l, t, -f⟩
      (by rw [c0]; exact normSq_ne_zero_of_y _ _ _ (mul_ne_zero d1 h1'))
    exact ⟨κ, hκ, by simp only [planesM_ortho, a0, i0]; exact e q⟩
  · obtain ⟨κ, hκ, e⟩ := planeThroughIf_affine_neg hlen M hM hdet ⟨r, b, -n⟩ ⟨r, b, -f⟩ ⟨r, t, -f⟩
      (by rw [c1]; exact normSq_ne_zero_of_x _ _ _ (mul_ne_zero d1 h2'))
    exact ⟨κ, hκ, by simp only [planesM_ortho, a1, i1]; exact e q⟩
  · obtain ⟨κ, hκ, e⟩ := planeThroughIf_affine_neg hlen M hM hdet ⟨l, b, -n⟩ ⟨l, b, -f⟩ ⟨r, b, -f⟩
      (by rw [c2]; exact normSq_ne_zero_of_y _ _ _ (neg_ne_zero.mpr (mul_ne_zero d1 h1')))
    exact ⟨κ, hκ, by simp only [planesM_ortho, a2, i2]; exact e q⟩
  · obtain ⟨κ, hκ, e⟩ := planeThroughIf_affine_neg hlen M hM hdet ⟨l, t, -n⟩ ⟨l, t, -f⟩ ⟨l, b, -f⟩
      (by rw [c3]; exact normSq_ne_zero_of_x _ _ _ (neg_ne_zero.mpr (mul_ne_zero d1 h2')))
    exact ⟨κ, hκ, by simp only [planesM_ortho, a3, i3]; exact e q⟩
  · obtain ⟨κ, hκ, e⟩ := planeThroughIf_affine_neg hlen M hM hdet ⟨l, b, -n⟩ ⟨r, b, -n⟩ ⟨r, t, -n⟩
      (by rw [cross_near n l r t b]; exact normSq_ne_zero_of_z _ _ _ (mul_ne_zero h1' h2'))
    exact ⟨κ, hκ, by simp only [planesM_ortho, a4, i4]; exact e q⟩
  · obtain ⟨κ, hκ, e⟩ := planeThroughIf_affine_neg hlen M hM hdet ⟨l, b, -f⟩ ⟨l, t, -f⟩ ⟨r, t, -f⟩
      (by rw [cross_far f l r t b]; exact normSq_ne_zero_of_z _ _ _ (neg_ne_zero.mpr (mul_ne_zero h1' h2')))
    exact ⟨κ, hκ, by simp only [planesM_ortho, a5, i5]; exact e q⟩

/-- no point is beyond the near AND the far plane of a proper frustum -/
theorem not_strictlyOutside_persp (tmin tmax : α) (sqrt : α → α) (hlen : LenSpec (Gen.V3.length tmin tmax sqrt)) (n f l r t b : α)
    (hn : 0 < n) (hnf : n < f) (hlr : l < r) (hbt : b < t) (q : V3 α) :
    ¬ strictlyOutsideAllPlanes (Gen.Frustum.planes_persp tmin tmax sqrt n f l r t b) q := by
  obtain ⟨c0, c1, c2, c3, p0, p1, p2, p3, h⟩ := planes_persp_eval tmin tmax sqrt hlen n f l r t b hn hlr hbt
  obtain ⟨e0, e1, e2, e3, e4, e5⟩ := h q
  rintro ⟨_, _, _, _, s4, s5⟩
  rw [e4] at s4; rw [e5] at s5; linarith
theorem not_strictlyOutside_ortho (tmin tmax : α) (sqrt : α → α) (hlen : LenSpec (Gen.V3.length tmin tmax sqrt)) (n f l r t b : α)
    (hnf : n < f) (q : V3 α) :
    ¬ strictlyOutsideAllPlanes (Gen.Frustum.planes_ortho tmin tmax sqrt n f l r t b) q := by
  obtain ⟨e0, e1, e2, e3, e4, e5⟩ := planes_ortho_eval tmin tmax sqrt hlen n f l r t b q
  rintro ⟨_, _, _, _, s4, s5⟩
  rw [e4] at s4; rw [e5] at s5; linarith
/-- **mirrored camera matrix ⇒ `FrustumTest` reports EVERY point invisible** (in particular the interior of the frustum is
culled).  This is what the code does for `det M < 0`; the property's quantifier ("camera matrices, rigid and scaled") is read
as orientation preserving — the check prints this as an explicit exclusion and measures that the real code behaves as stated -/
theorem isVisiblePoint_persp_mirrored (tmin tmax : α) (sqrt : α → α) (hlen : LenSpec (Gen.V3.length tmin tmax sqrt)) (n f l r t b : α)
    (hn : 0 < n) (hnf : n < f) (hlr : l < r) (hbt : b < t) (M : M44 α) (hM : IsAffine M) (hdet : det3 M < 0) (w : V3 α) :
    Gen.FrustumTest.isVisiblePoint_persp tmin tmax sqrt n f l r t b M w = false := by
  rw [Bool.eq_false_iff]
  intro h
  rw [isVisiblePoint_persp, ← mulM44_affinePre M hM (ne_of_lt hdet) w,
    planesM_persp_mirrored tmin tmax sqrt hlen n f l r t b hn (ne_of_gt (lt_trans hn hnf)) hlr hbt M hM hdet] at h
  exact not_strictlyOutside_persp tmin tmax sqrt hlen n f l r t b hn hnf hlr hbt _ h
theorem isVisiblePoint_ortho_mirrored (tmin tmax : α) (sqrt : α → α) (hlen : LenSpec (Gen.V3.length tmin tmax sqrt)) (n f l r t b : α)
    (hnf : n < f) (hlr : l < r) (hbt : b < t) (M : M44 α) (hM : IsAffine M) (hdet : det3 M < 0) (w : V3 α) :
    Gen.FrustumTest.isVisiblePoint_ortho tmin tmax sqrt n f l r t b M w = false := by
  rw [Bool.eq_false_iff]
  intro h
  rw [isVisiblePoint_ortho, ← mulM44_affinePre M hM (ne_of_lt hdet) w,
    planesM_ortho_mirrored tmin tmax sqrt hlen n f l r t b hnf hlr hbt M hM hdet] at h
  exact not_strictlyOutside_ortho tmin tmax sqrt hlen n f l r t b hnf _ h
/-- a mirrored affine matrix: reflection `x ↦ −x` -/
example : IsAffine (⟨-1, 0, 0, 0, 0, 1, 0, 0, 0, 0, 1, 0, 0, 0, 0, 1⟩ : M44 ℚ) ∧ det3 (⟨-1, 0, 0, 0, 0, 1, 0, 0, 0, 0, 1, 0, 0, 0, 0, 1⟩ : M44 ℚ) < 0 := by
  constructor
  · exact ⟨rfl, rfl, rfl, rfl⟩
  · norm_num [det3]

/-! ## the culling functions take both values (evaluated over ℚ; `tmin = 0`, `tmax = 10^6` so that `Vec3::length` is `sqrt` of the
sum of squares).  Orthographic: unit cube frustum `n=1, f=2, [0,1]²`, identity camera, `sqrt := id` (every cross product has
length 1).  Perspective: `n=4, f=8`, window `[-3,3]²` (side normals `(0,4,3)/5` …), `sqrt := wsqrt` exact on the three squared
lengths that occur. -/
/-- exact square root on 900, 1296, 20736 (the squared lengths of the six cross products of the perspective witness) -/
def wsqrt (x : ℚ) : ℚ := if x = 900 then 30 else if x = 1296 then 36 else if x = 20736 then 144 else x
/-- the six planes of the orthographic witness: the faces of the unit cube `[0,1]² × [-2,-1]` -/
theorem witness_planesM_ortho : planesM_ortho (0 : ℚ) 1000000 id 1 2 0 1 1 0 identity44 =
    (⟨⟨0, 1, 0⟩, 1⟩, ⟨⟨1, 0, 0⟩, 1⟩, ⟨⟨0, -1, 0⟩, 0⟩, ⟨⟨-1, 0, 0⟩, 0⟩, ⟨⟨0, 0, 1⟩, -1⟩, ⟨⟨0, 0, -1⟩, 2⟩) := by
  obtain ⟨h0, h1, h2, h3, h4, h5⟩ := planesM_ortho_struct (0 : ℚ) 1000000 id 1 2 0 1 1 0 identity44
  simp only [planesM_ortho, h0, h1, h2, h3, h4, h5, mulM44_identity]
  norm_num [planeThroughIf, normalizeIf, cross, vsub, vdot, Gen.V3.length]
/-- the six planes of the perspective witness: side normals `(0,4,3)/5, (4,0,3)/5, (0,-4,3)/5, (-4,0,3)/5` through the eye -/
theorem witness_planesM_persp : planesM_persp (0 : ℚ) 1000000 wsqrt 4 8 (-3) 3 3 (-3) identity44 =
    (⟨⟨0, 4/5, 3/5⟩, 0⟩, ⟨⟨4/5, 0, 3/5⟩, 0⟩, ⟨⟨0, -4/5, 3/5⟩, 0⟩, ⟨⟨-4/5, 0, 3/5⟩, 0⟩, ⟨⟨0, 0, 1⟩, -4⟩, ⟨⟨0, 0, -1⟩, 8⟩) := by
  obtain ⟨h0, h1, h2, h3, h4, h5⟩ := planesM_persp_struct (0 : ℚ) 1000000 wsqrt 4 8 (-3) 3 3 (-3) identity44
  simp only [planesM_persp, h0, h1, h2, h3, h4, h5, mulM44_identity]
  norm_num [planeThroughIf, normalizeIf, cross, vsub, vdot, Gen.V3.length, wsqrt]
macro "ft_eval_ortho" : tactic =>
  `(tactic| (simp only [witness_planesM_ortho]
             norm_num [ftBox, ftSphere, chain6, boxTerm, sphereTerm, sabs]))
macro "ft_eval_persp" : tactic =>
  `(tactic| (simp only [witness_planesM_persp]
             norm_num [ftBox, ftSphere, chain6, boxTerm, sphereTerm, sabs]))
/-- a box well inside is completely contained and visible; a box across the right plane is visible, not contained; a box beyond it
is invisible -/
theorem witness_box_ortho :
    Gen.FrustumTest.completelyContainsBox_ortho (0 : ℚ) 1000000 id 1 2 0 1 1 0 identity44 ⟨⟨1/4, 1/4, -7/4⟩, ⟨3/4, 3/4, -5/4⟩⟩ = true ∧
    Gen.FrustumTest.isVisibleBox_ortho (0 : ℚ) 1000000 id 1 2 0 1 1 0 identity44 ⟨⟨1/4, 1/4, -7/4⟩, ⟨3/4, 3/4, -5/4⟩⟩ = true ∧
    Gen.FrustumTest.completelyContainsBox_ortho (0 : ℚ) 1000000 id 1 2 0 1 1 0 identity44 ⟨⟨3/4, 1/4, -7/4⟩, ⟨5/4, 3/4, -5/4⟩⟩ = false ∧
    Gen.FrustumTest.isVisibleBox_ortho (0 : ℚ) 1000000 id 1 2 0 1 1 0 identity44 ⟨⟨3/4, 1/4, -7/4⟩, ⟨5/4, 3/4, -5/4⟩⟩ = true ∧
    Gen.FrustumTest.isVisibleBox_ortho (0 : ℚ) 1000000 id 1 2 0 1 1 0 identity44 ⟨⟨5, 1/4, -7/4⟩, ⟨6, 3/4, -5/4⟩⟩ = false := by
  refine ⟨?_, ?_, ?_, ?_, ?_⟩
  · rw [completelyContainsBox_ortho_eq]; ft_eval_ortho
  · rw [isVisibleBox_ortho_eq]; ft_eval_ortho
  · rw [completelyContainsBox_ortho_eq]; ft_eval_ortho
  · rw [isVisibleBox_ortho_eq]; ft_eval_ortho
  · rw [isVisibleBox_ortho_eq]; ft_eval_ortho
/-- spheres: inside (contained, visible), far outside (invisible), TANGENT from outside (`>=`: invisible), tangent from inside
(visible, NOT contained) -/
theorem witness_sphere_ortho :
    Gen.FrustumTest.completelyContainsSphere_ortho (0 : ℚ) 1000000 id 1 2 0 1 1 0 identity44 ⟨⟨1/2, 1/2, -3/2⟩, 1/4⟩ = true ∧
    Gen.FrustumTest.isVisibleSphere_ortho (0 : ℚ) 1000000 id 1 2 0 1 1 0 identity44 ⟨⟨1/2, 1/2, -3/2⟩, 1/4⟩ = true ∧
    Gen.FrustumTest.isVisibleSphere_ortho (0 : ℚ) 1000000 id 1 2 0 1 1 0 identity44 ⟨⟨5, 0, -3/2⟩, 1⟩ = false ∧
    Gen.FrustumTest.isVisibleSphere_ortho (0 : ℚ) 1000000 id 1 2 0 1 1 0 identity44 ⟨⟨5/4, 1/2, -3/2⟩, 1/4⟩ = false ∧
    Gen.FrustumTest.isVisibleSphere_ortho (0 : ℚ) 1000000 id 1 2 0 1 1 0 identity44 ⟨⟨3/4, 1/2, -3/2⟩, 1/4⟩ = true ∧
    Gen.FrustumTest.completelyContainsSphere_ortho (0 : ℚ) 1000000 id 1 2 0 1 1 0 identity44 ⟨⟨3/4, 1/2, -3/2⟩, 1/4⟩ = false := by
  refine ⟨?_, ?_, ?_, ?_, ?_, ?_⟩
  · rw [completelyContainsSphere_ortho_eq]; ft_eval_ortho
  · rw [isVisibleSphere_ortho_eq]; ft_eval_ortho
  · rw [isVisibleSphere_ortho_eq]; ft_eval_ortho
  · rw [isVisibleSphere_ortho_eq]; ft_eval_ortho
  · rw [isVisibleSphere_ortho_eq]; ft_eval_ortho
  · rw [completelyContainsSphere_ortho_eq]; ft_eval_ortho
theorem witness_point_ortho :
    Gen.FrustumTest.isVisiblePoint_ortho (0 : ℚ) 1000000 id 1 2 0 1 1 0 identity44 ⟨1/2, 1/2, -3/2⟩ = true ∧
    Gen.FrustumTest.isVisiblePoint_ortho (0 : ℚ) 1000000 id 1 2 0 1 1 0 identity44 ⟨1, 1/2, -3/2⟩ = false := by
  constructor
  · rw [isVisiblePoint_ortho]; simp only [strictlyInAllPlanes, planeEval]; ft_eval_ortho
  · rw [← Bool.not_eq_true, isVisiblePoint_ortho]; simp only [strictlyInAllPlanes, planeEval]; ft_eval_ortho
/-- perspective: the right plane is `4x + 3z = 0` with unit normal `(4,0,3)/5`.  Sphere of radius 1 centred on the axis at depth 6:
contained.  Centre `(6, 0, −6)` (plane value 6/5 ≥ 1): invisible; centre `(21/4, 0, −6)` (plane value 3/5 < 1): visible, not contained -/
theorem witness_sphere_persp :
    Gen.FrustumTest.completelyContainsSphere_persp (0 : ℚ) 1000000 wsqrt 4 8 (-3) 3 3 (-3) identity44 ⟨⟨0, 0, -6⟩, 1⟩ = true ∧
    Gen.FrustumTest.isVisibleSphere_persp (0 : ℚ) 1000000 wsqrt 4 8 (-3) 3 3 (-3) identity44 ⟨⟨0, 0, -6⟩, 1⟩ = true ∧
    Gen.FrustumTest.isVisibleSphere_persp (0 : ℚ) 1000000 wsqrt 4 8 (-3) 3 3 (-3) identity44 ⟨⟨6, 0, -6⟩, 1⟩ = false ∧
    Gen.FrustumTest.isVisibleSphere_persp (0 : ℚ) 1000000 wsqrt 4 8 (-3) 3 3 (-3) identity44 ⟨⟨21/4, 0, -6⟩, 1⟩ = true ∧
    Gen.FrustumTest.completelyContainsSphere_persp (0 : ℚ) 1000000 wsqrt 4 8 (-3) 3 3 (-3) identity44 ⟨⟨21/4, 0, -6⟩, 1⟩ = false ∧
    -- exact ties on the slanted right plane (impossible in binary floating point: 4/5, 3/5 are not dyadic): tangent from outside is
    -- NOT visible (`>= 0`), tangent from inside is visible but NOT completely contained
    Gen.FrustumTest.isVisibleSphere_persp (0 : ℚ) 1000000 wsqrt 4 8 (-3) 3 3 (-3) identity44 ⟨⟨5, 0, -5⟩, 1⟩ = false ∧
    Gen.FrustumTest.isVisibleSphere_persp (0 : ℚ) 1000000 wsqrt 4 8 (-3) 3 3 (-3) identity44 ⟨⟨15/4, 0, -20/3⟩, 1⟩ = true ∧
    Gen.FrustumTest.completelyContainsSphere_persp (0 : ℚ) 1000000 wsqrt 4 8 (-3) 3 3 (-3) identity44 ⟨⟨15/4, 0, -20/3⟩, 1⟩ = false := by
  refine ⟨?_, ?_, ?_, ?_, ?_, ?_, ?_, ?_⟩
  · rw [completelyContainsSphere_persp_eq]; ft_eval_persp
  · rw [isVisibleSphere_persp_eq]; ft_eval_persp
  · rw [isVisibleSphere_persp_eq]; ft_eval_persp
  · rw [isVisibleSphere_persp_eq]; ft_eval_persp
  · rw [completelyContainsSphere_persp_eq]; ft_eval_persp
  · rw [isVisibleSphere_persp_eq]; ft_eval_persp
  · rw [isVisibleSphere_persp_eq]; ft_eval_persp
  · rw [completelyContainsSphere_persp_eq]; ft_eval_persp
/-- NEGATIVE witness for the literal reading of "never false for an object that TOUCHES it": the unit ball centred at `(5, 0, −5)` meets the CLOSED
frustum (in the single point `(21/5, 0, −28/5)` of the right plane) and is reported NOT visible — the test is `>= 0`.  The clause is
proved (`isVisibleSphere_*_touches`) and claimed for objects that reach the OPEN frustum ("interior of that region"); closed tangency is outside it -/
theorem witness_tangent_outside_not_visible :
    regionPersp (4 : ℚ) 8 (-3) 3 3 (-3) ⟨21/5, 0, -28/5⟩ ∧ sphereMem (⟨⟨5, 0, -5⟩, 1⟩ : Sphere3 ℚ) ⟨21/5, 0, -28/5⟩ ∧
    ¬ interiorPersp (4 : ℚ) 8 (-3) 3 3 (-3) ⟨21/5, 0, -28/5⟩ ∧
    Gen.FrustumTest.isVisibleSphere_persp (0 : ℚ) 1000000 wsqrt 4 8 (-3) 3 3 (-3) identity44 ⟨⟨5, 0, -5⟩, 1⟩ = false := by
  refine ⟨?_, ?_, ?_, witness_sphere_persp.2.2.2.2.2.1⟩
  · norm_num [regionPersp]
  · norm_num [sphereMem]
  · norm_num [interiorPersp]
theorem witness_box_persp :
    Gen.FrustumTest.completelyContainsBox_persp (0 : ℚ) 1000000 wsqrt 4 8 (-3) 3 3 (-3) identity44 ⟨⟨-1, -1, -7⟩, ⟨1, 1, -5⟩⟩ = true ∧
    Gen.FrustumTest.isVisibleBox_persp (0 : ℚ) 1000000 wsqrt 4 8 (-3) 3 3 (-3) identity44 ⟨⟨-1, -1, -7⟩, ⟨1, 1, -5⟩⟩ = true ∧
    Gen.FrustumTest.isVisibleBox_persp (0 : ℚ) 1000000 wsqrt 4 8 (-3) 3 3 (-3) identity44 ⟨⟨10, -1, -7⟩, ⟨12, 1, -5⟩⟩ = false ∧
    Gen.FrustumTest.isVisibleBox_persp (0 : ℚ) 1000000 wsqrt 4 8 (-3) 3 3 (-3) identity44 ⟨⟨3, -1, -7⟩, ⟨5, 1, -5⟩⟩ = true ∧
    Gen.FrustumTest.completelyContainsBox_persp (0 : ℚ) 1000000 wsqrt 4 8 (-3) 3 3 (-3) identity44 ⟨⟨3, -1, -7⟩, ⟨5, 1, -5⟩⟩ = false := by
  refine ⟨?_, ?_, ?_, ?_, ?_⟩
  · rw [completelyContainsBox_persp_eq]; ft_eval_persp
  · rw [isVisibleBox_persp_eq]; ft_eval_persp
  · rw [isVisibleBox_persp_eq]; ft_eval_persp
  · rw [isVisibleBox_persp_eq]; ft_eval_persp
  · rw [completelyContainsBox_persp_eq]; ft_eval_persp
theorem witness_point_persp :
    Gen.FrustumTest.isVisiblePoint_persp (0 : ℚ) 1000000 wsqrt 4 8 (-3) 3 3 (-3) identity44 ⟨0, 0, -6⟩ = true ∧
    Gen.FrustumTest.isVisiblePoint_persp (0 : ℚ) 1000000 wsqrt 4 8 (-3) 3 3 (-3) identity44 ⟨9/2, 0, -6⟩ = false := by
  constructor
  · rw [isVisiblePoint_persp]; simp only [strictlyInAllPlanes, planeEval]; ft_eval_persp
  · rw [← Bool.not_eq_true, isVisiblePoint_persp]; simp only [strictlyInAllPlanes, planeEval]; ft_eval_persp
/-- the hypotheses of the `_touches` / `_inside` theorems are satisfiable together: frustum, affine `M`, an interior point whose image is
in a ball / box -/
example : interiorPersp (4 : ℚ) 8 (-3) 3 3 (-3) ⟨0, 0, -6⟩ ∧ sphereMem (⟨⟨0, 0, -6⟩, 1⟩ : Sphere3 ℚ) (Gen.V3.mulM44 ⟨0, 0, -6⟩ identity44) ∧
    boxMem (⟨⟨-1, -1, -7⟩, ⟨1, 1, -5⟩⟩ : Box3 ℚ) (Gen.V3.mulM44 ⟨0, 0, -6⟩ identity44) ∧ IsAffine (identity44 : M44 ℚ) ∧ 0 < det3 (identity44 : M44 ℚ) := by
  refine ⟨?_, ?_, ?_, ⟨rfl, rfl, rfl, rfl⟩, ?_⟩
  · norm_num [interiorPersp]
  · rw [mulM44_identity]; norm_num [sphereMem]
  · rw [mulM44_identity]; norm_num [boxMem]
  · norm_num [det3, identity44]


/-! ## the hand-written regions agree with the projection matrix: a point in front of the eye is in the closed frustum
exactly when the projection matrix sends it into the cube `[-1,1]³` (planes ⇄ projection consistency) -/
theorem regionPersp_iff_ndc (n f l r t b : α) (hn : 0 < n) (hnf : n < f) (hlr : l < r) (hbt : b < t) (p : V3 α) (hz : p.z < 0) :
    regionPersp n f l r t b p ↔
      (-1 ≤ (Gen.V3.mulM44 p (Gen.Frustum.projectionMatrix_persp n f l r t b)).x ∧ (Gen.V3.mulM44 p (Gen.Frustum.projectionMatrix_persp n f l r t b)).x ≤ 1 ∧
       -1 ≤ (Gen.V3.mulM44 p (Gen.Frustum.projectionMatrix_persp n f l r t b)).y ∧ (Gen.V3.mulM44 p (Gen.Frustum.projectionMatrix_persp n f l r t b)).y ≤ 1 ∧
       -1 ≤ (Gen.V3.mulM44 p (Gen.Frustum.projectionMatrix_persp n f l r t b)).z ∧ (Gen.V3.mulM44 p (Gen.Frustum.projectionMatrix_persp n f l r t b)).z ≤ 1) := by
  rcases p with ⟨x, y, z⟩
  simp only at hz
  have hw : 0 < -z := by linarith
  have h1 : 0 < r - l := sub_pos.mpr hlr
  have h2 : 0 < t - b := sub_pos.mpr hbt
  have h3 : 0 < f - n := sub_pos.mpr hnf
  have hz' : z ≠ 0 := ne_of_lt hz
  have ex : (Gen.V3.mulM44 ⟨x, y, z⟩ (Gen.Frustum.projectionMatrix_persp n f l r t b)).x = (2 * (n * x) - (r + l) * -z) / ((r - l) * -z) := by
    simp only [Gen.V3.mulM44, Gen.Frustum.projectionMatrix_persp]
    simp only [mul_zero, zero_mul, add_zero, zero_add, mul_neg, mul_one, neg_neg, neg_mul]
    field_simp; ring
  have ey : (Gen.V3.mulM44 ⟨x, y, z⟩ (Gen.Frustum.projectionMatrix_persp n f l r t b)).y = (2 * (n * y) - (t + b) * -z) / ((t - b) * -z) := by
    simp only [Gen.V3.mulM44, Gen.Frustum.projectionMatrix_persp]
    simp only [mul_zero, zero_mul, add_zero, zero_add, mul_neg, mul_one, neg_neg, neg_mul]
    field_simp; ring
  have ez : (Gen.V3.mulM44 ⟨x, y, z⟩ (Gen.Frustum.projectionMatrix_persp n f l r t b)).z = ((f + n) * -z - 2 * f * n) / ((f - n) * -z) := by
    simp only [Gen.V3.mulM44, Gen.Frustum.projectionMatrix_persp]
    simp only [mul_zero, zero_mul, add_zero, zero_add, mul_neg, mul_one, neg_neg, neg_mul]
    field_simp; ring
  rw [ex, ey, ez, le_div_iff₀ (mul_pos h1 hw), div_le_iff₀ (mul_pos h1 hw), le_div_iff₀ (mul_pos h2 hw), div_le_iff₀ (mul_pos h2 hw),
    le_div_iff₀ (mul_pos h3 hw), div_le_iff₀ (mul_pos h3 hw)]
  simp only [regionPersp]
  have hf : 0 < f := lt_trans hn hnf
  constructor
  · rintro ⟨a1, a2, a3, a4, a5, a6⟩
    refine ⟨by nlinarith, by nlinarith, by nlinarith, by nlinarith, by nlinarith, by nlinarith⟩
  · rintro ⟨a1, a2, a3, a4, a5, a6⟩
    refine ⟨?_, ?_, by nlinarith, by nlinarith, by nlinarith, by nlinarith⟩
    · by_contra hc; rw [not_le] at hc; nlinarith
    · by_contra hc; rw [not_le] at hc; nlinarith
theorem regionOrtho_iff_ndc (n f l r t b : α) (hnf : n < f) (hlr : l < r) (hbt : b < t) (p : V3 α) :
    regionOrtho n f l r t b p ↔
      (-1 ≤ (Gen.V3.mulM44 p (Gen.Frustum.projectionMatrix_ortho n f l r t b)).x ∧ (Gen.V3.mulM44 p (Gen.Frustum.projectionMatrix_ortho n f l r t b)).x ≤ 1 ∧
       -1 ≤ (Gen.V3.mulM44 p (Gen.Frustum.projectionMatrix_ortho n f l r t b)).y ∧ (Gen.V3.mulM44 p (Gen.Frustum.projectionMatrix_ortho n f l r t b)).y ≤ 1 ∧
       -1 ≤ (Gen.V3.mulM44 p (Gen.Frustum.projectionMatrix_ortho n f l r t b)).z ∧ (Gen.V3.mulM44 p (Gen.Frustum.projectionMatrix_ortho n f l r t b)).z ≤ 1) := by
  rcases p with ⟨x, y, z⟩
  have h1 : 0 < r - l := sub_pos.mpr hlr
  have h2 : 0 < t - b := sub_pos.mpr hbt
  have h3 : 0 < f - n := sub_pos.mpr hnf
  have ex : (Gen.V3.mulM44 ⟨x, y, z⟩ (Gen.Frustum.projectionMatrix_ortho n f l r t b)).x = (2 * x - (r + l)) / (r - l) := by
    simp only [Gen.V3.mulM44, Gen.Frustum.projectionMatrix_ortho]
    simp only [mul_zero, zero_mul, add_zero, zero_add, mul_neg, mul_one, neg_neg, neg_mul, div_one]
    field_simp; ring
  have ey : (Gen.V3.mulM44 ⟨x, y, z⟩ (Gen.Frustum.projectionMatrix_ortho n f l r t b)).y = (2 * y - (t + b)) / (t - b) := by
    simp only [Gen.V3.mulM44, Gen.Frustum.projectionMatrix_ortho]
    simp only [mul_zero, zero_mul, add_zero, zero_add, mul_neg, mul_one, neg_neg, neg_mul, div_one]
    field_simp; ring
  have ez : (Gen.V3.mulM44 ⟨x, y, z⟩ (Gen.Frustum.projectionMatrix_ortho n f l r t b)).z = (2 * -z - (f + n)) / (f - n) := by
    simp only [Gen.V3.mulM44, Gen.Frustum.projectionMatrix_ortho]
    simp only [mul_zero, zero_mul, add_zero, zero_add, mul_neg, mul_one, neg_neg, neg_mul, div_one]
    field_simp; ring
  rw [ex, ey, ez, le_div_iff₀ h1, div_le_iff₀ h1, le_div_iff₀ h2, div_le_iff₀ h2, le_div_iff₀ h3, div_le_iff₀ h3]
  simp only [regionOrtho]
  constructor
  · rintro ⟨a1, a2, a3, a4, a5, a6⟩
    refine ⟨by linarith, by linarith, by linarith, by linarith, by linarith, by linarith⟩
  · rintro ⟨a1, a2, a3, a4, a5, a6⟩
    refine ⟨by linarith, by linarith, by linarith, by linarith, by linarith, by linarith⟩
/-- the eight corners of the frustum lie in the closed region (and so on all the planes' non-positive sides) -/
theorem corner_mem_regionPersp (n f l r t b : α) (hn : 0 < n) (hnf : n < f) (hlr : l < r) (hbt : b < t) (cx cy cz : Bool) :
    regionPersp n f l r t b ⟨sel cx l r * (sel cz n f / n), sel cy b t * (sel cz n f / n), -(sel cz n f)⟩ := by
  have hn' := ne_of_gt hn
  have hf : 0 < f := lt_trans hn hnf
  cases cx <;> cases cy <;> cases cz <;>
    simp only [regionPersp, sel, if_true, if_false, Bool.false_eq_true, neg_neg, div_self hn', mul_one] <;>
    refine ⟨?_, ?_, ?_, ?_, ?_, ?_⟩ <;> first | linarith | (field_simp; nlinarith) | (field_simp) 
theorem corner_mem_regionOrtho (n f l r t b : α) (hnf : n < f) (hlr : l < r) (hbt : b < t) (cx cy cz : Bool) :
    regionOrtho n f l r t b ⟨sel cx l r, sel cy b t, -(sel cz n f)⟩ := by
  cases cx <;> cases cy <;> cases cz <;>
    simp only [regionOrtho, sel, if_true, if_false, Bool.false_eq_true, neg_neg] <;>
    refine ⟨?_, ?_, ?_, ?_, ?_, ?_⟩ <;> linarith

/-! ## records of behaviour OUTSIDE the proved domain (hypotheses of the planes / culling half are needed) -/
/-- RECORD of a disagreement between the two overloads outside the proved domain: for an orthographic frustum with `far < near`
`planes (p)` still returns the outward axis planes (`planes_ortho_eval` has no hypothesis), whereas `planes (p, identity)` returns the
four SIDE planes with normal and distance negated (inward); near and far agree.  (`planesM_ortho_identity` needs `n < f`.) -/
theorem planesM_ortho_identity_far_lt_near (tmin tmax : α) (sqrt : α → α) (hlen : LenSpec (Gen.V3.length tmin tmax sqrt)) (n f l r t b : α)
    (hfn : f < n) (hlr : l < r) (hbt : b < t) :
    planesM_ortho tmin tmax sqrt n f l r t b identity44 =
      (planeND (Gen.V3.length tmin tmax sqrt) ⟨0, -1, 0⟩ (-t), planeND (Gen.V3.length tmin tmax sqrt) ⟨-1, 0, 0⟩ (-r),
       planeND (Gen.V3.length tmin tmax sqrt) ⟨0, 1, 0⟩ b, planeND (Gen.V3.length tmin tmax sqrt) ⟨1, 0, 0⟩ l,
       planeND (Gen.V3.length tmin tmax sqrt) ⟨0, 0, 1⟩ (-n), planeND (Gen.V3.length tmin tmax sqrt) ⟨0, 0, -1⟩ f) := by
  obtain ⟨h0, h1, h2, h3, h4, h5⟩ := planesM_ortho_struct tmin tmax sqrt n f l r t b identity44
  have d1 : 0 < n - f := sub_pos.mpr hfn
  have d2 : 0 < r - l := sub_pos.mpr hlr
  have d3 : 0 < t - b := sub_pos.mpr hbt
  have e0 : planeThroughIf (Gen.V3.length tmin tmax sqrt) ⟨r, t, -n⟩ ⟨r, t, -f⟩ ⟨l, t, -f⟩ = planeND (Gen.V3.length tmin tmax sqrt) ⟨0, -1, 0⟩ (-t) := by
    refine planeThroughIf_of_cross hlen _ _ _ ⟨0, -1, 0⟩ ((n - f) * (r - l)) _ (mul_pos d1 d2) (by simp [normSq]) ?_ (by simp [vdot])
    simp only [cross, vsub]; congr 1 <;> ring
  have e1 : planeThroughIf (Gen.V3.length tmin tmax sqrt) ⟨r, b, -n⟩ ⟨r, b, -f⟩ ⟨r, t, -f⟩ = planeND (Gen.V3.length tmin tmax sqrt) ⟨-1, 0, 0⟩ (-r) := by
    refine planeThroughIf_of_cross hlen _ _ _ ⟨-1, 0, 0⟩ ((n - f) * (t - b)) _ (mul_pos d1 d3) (by simp [normSq]) ?_ (by simp [vdot])
    simp only [cross, vsub]; congr 1 <;> ring
  have e2 : planeThroughIf (Gen.V3.length tmin tmax sqrt) ⟨l, b, -n⟩ ⟨l, b, -f⟩ ⟨r, b, -f⟩ = planeND (Gen.V3.length tmin tmax sqrt) ⟨0, 1, 0⟩ b := by
    refine planeThroughIf_of_cross hlen _ _ _ ⟨0, 1, 0⟩ ((n - f) * (r - l)) _ (mul_pos d1 d2) (by simp [normSq]) ?_ (by simp [vdot])
    simp only [cross, vsub]; congr 1 <;> ring
  have e3 : planeThroughIf (Gen.V3.length tmin tmax sqrt) ⟨l, t, -n⟩ ⟨l, t, -f⟩ ⟨l, b, -f⟩ = planeND (Gen.V3.length tmin tmax sqrt) ⟨1, 0, 0⟩ l := by
    refine planeThroughIf_of_cross hlen _ _ _ ⟨1, 0, 0⟩ ((n - f) * (t - b)) _ (mul_pos d1 d3) (by simp [normSq]) ?_ (by simp [vdot])
    simp only [cross, vsub]; congr 1 <;> ring
  simp only [planesM_ortho, h0, h1, h2, h3, h4, h5, mulM44_identity, e0, e1, e2, e3,
    planeThrough_near hlen n l r t b (mul_pos d2 d3), planeThrough_far hlen f l r t b (mul_pos d2 d3)]
/-- RECORD: an INVERTED window (`r < l`, `t < b`; near positive) is "non-degenerate" for the projection half of the property (the
corner theorems need `≠` only), but `planes (p)` then returns the four side planes with INWARD normals: the plane equations are
NEGATIVE multiples of the defects of the frustum inequalities.  The planes / culling half is stated for `l < r`, `b < t`. -/
theorem planes_persp_eval_inverted (tmin tmax : α) (sqrt : α → α) (hlen : LenSpec (Gen.V3.length tmin tmax sqrt)) (n f l r t b : α)
    (hn : 0 < n) (hlr : r < l) (hbt : t < b) :
    ∃ c0 c1 c2 c3 : α, c0 < 0 ∧ c1 < 0 ∧ c2 < 0 ∧ c3 < 0 ∧ ∀ p : V3 α,
      let P := Gen.Frustum.planes_persp tmin tmax sqrt n f l r t b
      planeEval P.1 p = c0 * (n * p.y - t * (-p.z)) ∧ planeEval P.2.1 p = c1 * (n * p.x - r * (-p.z)) ∧
      planeEval P.2.2.1 p = c2 * (b * (-p.z) - n * p.y) ∧ planeEval P.2.2.2.1 p = c3 * (l * (-p.z) - n * p.x) := by
  have hn' := ne_of_gt hn
  have h1 : r - l < 0 := sub_neg.mpr hlr
  have h2 : t - b < 0 := sub_neg.mpr hbt
  have v0 : normSq (cross (vsub ⟨r, t, -n⟩ ⟨0, 0, 0⟩) (vsub ⟨l, t, -n⟩ ⟨0, 0, 0⟩)) ≠ 0 := by
    rw [cross_top n l r t]; exact normSq_ne_zero_of_y _ _ _ (mul_ne_zero hn' (ne_of_lt h1))
  have v1 : normSq (cross (vsub ⟨r, b, -n⟩ ⟨0, 0, 0⟩) (vsub ⟨r, t, -n⟩ ⟨0, 0, 0⟩)) ≠ 0 := by
    rw [cross_right n r t b]; exact normSq_ne_zero_of_x _ _ _ (mul_ne_zero hn' (ne_of_lt h2))
  have v2 : normSq (cross (vsub ⟨l, b, -n⟩ ⟨0, 0, 0⟩) (vsub ⟨r, b, -n⟩ ⟨0, 0, 0⟩)) ≠ 0 := by
    rw [cross_bottom n l r b]; exact normSq_ne_zero_of_y _ _ _ (neg_ne_zero.mpr (mul_ne_zero hn' (ne_of_lt h1)))
  have v3 : normSq (cross (vsub ⟨l, t, -n⟩ ⟨0, 0, 0⟩) (vsub ⟨l, b, -n⟩ ⟨0, 0, 0⟩)) ≠ 0 := by
    rw [cross_left n l t b]; exact normSq_ne_zero_of_x _ _ _ (neg_ne_zero.mpr (mul_ne_zero hn' (ne_of_lt h2)))
  have l0 := lenSpec_pos hlen _ v0
  have l1 := lenSpec_pos hlen _ v1
  have l2 := lenSpec_pos hlen _ v2
  have l3 := lenSpec_pos hlen _ v3
  refine ⟨(r - l) / _, (t - b) / _, (r - l) / _, (t - b) / _, div_neg_of_neg_of_pos h1 l0, div_neg_of_neg_of_pos h2 l1,
    div_neg_of_neg_of_pos h1 l2, div_neg_of_neg_of_pos h2 l3, ?_⟩
  intro p
  simp only [planes_persp_struct tmin tmax sqrt hlen n f l r t b hn' (ne_of_gt hlr) (ne_of_gt hbt)]
  refine ⟨?_, ?_, ?_, ?_⟩
  · rw [planeThrough_eval hlen _ _ _ v0, div_mul_eq_mul_div]; congr 1
    rw [cross_top]; simp only [vdot, vsub]; ring
  · rw [planeThrough_eval hlen _ _ _ v1, div_mul_eq_mul_div]; congr 1
    rw [cross_right]; simp only [vdot, vsub]; ring
  · rw [planeThrough_eval hlen _ _ _ v2, div_mul_eq_mul_div]; congr 1
    rw [cross_bottom]; simp only [vdot, vsub]; ring
  · rw [planeThrough_eval hlen _ _ _ v3, div_mul_eq_mul_div]; congr 1
    rw [cross_left]; simp only [vdot, vsub]; ring

end ImathVerif.C16
