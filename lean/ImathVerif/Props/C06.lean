import ImathVerif.Spec.InverseSpec
import ImathVerif.Gen.C06
import ImathVerif.Lemmas.InverseLemmas
import ImathVerif.Lemmas.GaussJordanLemmas
/-!
# C06 — matrix inversion returns a true inverse, or a clean singular outcome

EXACT SEMANTICS (this file, proved).  Rounding — the property's `cond(M)·ε·‖M⁻¹‖` accuracy clause —
is NOT proved: it is measured on every run by `harness/corr/c06_inv.cpp` (labelled partial).

* `Gen.M22/M33/M44.inverse`, `.invert` are regenerated on every run from the non-throwing C++ bodies
  (T = Sym path extraction); `tmin` is `std::numeric_limits<T>::min()`.  Specification: Mathlib's
  `Matrix.det`, `Matrix.adjugate`, matrix product.  With `r = det M`: if `|r| ≥ 1`, or every cofactor
  `s` the code looks at passes `|r| / tmin > |s|`, the result is `r⁻¹ • adjugate M`; otherwise the
  identity.  Hence a two-sided inverse when the guards pass (which forces `det M ≠ 0`), the identity
  when `det M = 0`.  No hypothesis on `tmin` is needed (`0 / tmin = 0` whatever `tmin`); the
  examples instantiate `tmin > 0`.
  The affine arms (last column `(0,…,0,1)`) look only at the cofactors of the LINEAR block; when they
  accept, their result is the general `det⁻¹ • adjugate` of the full matrix (`…_affine_eq_general`):
  no jump in exact arithmetic.
* WHAT `det M ≠ 0` GIVES (and what it does not).  `det M ≠ 0` does NOT imply that the guards pass (false for a tiny
  determinant: `example`s below with `det = 1/8`, `tmin = 1/4`).  Proved instead (`…_inverse_true_iff`, `0 < tmin`): for
  `det M ≠ 0`, `inverse()` returns the true inverse IF AND ONLY IF `|det| ≥ 1` or every entry of the exact inverse of the
  block the arm guards (the whole matrix; the linear block on the affine arms) is below `1 / tmin` in magnitude — i.e. the
  identity is returned for an invertible matrix exactly when a quotient the code would form reaches `1 / tmin`.
* The two arms DECIDE differently on an affine matrix only in that regime (`M33_arms_disagree_iff`: the 2×2 block guards pass
  but a translation cofactor `adjugate 2 j` fails the general arm's guard, i.e. `|X 2 j| ≥ 1 / tmin`; `M44_affine_vs_gj`: the
  fast path returns the identity and Gauss-Jordan the true inverse iff `det ≠ 0`, `|det| < 1` and a block guard fails).  So
  "no jump" holds for the VALUE whenever the fast path accepts (`…_affine_eq_general`) and for the DECISION whenever all
  entries of the exact inverse are below `1 / tmin`.
* `Matrix44::inverse` of a non-affine matrix is `gjInverse` (opaque call of the hand model).
* Gauss-Jordan (`Model/GaussJordan.lean`, tied to the real code bit for bit by the correspondence
  harness), for EVERY dimension `n` (so n = 3 and n = 4 in particular, nothing left `_partial`):
  `s * M = t` is preserved by every row swap / axpy / scale step of both loops (folds over the index
  lists), the final `t` is the identity when no pivot is zero, hence `s * M = 1 = M * s`; an exit
  (zero pivot after partial pivoting / zero diagonal element) happens IF AND ONLY IF `det M = 0`,
  and then the identity is returned (`std::invalid_argument` by the throwing form).
-/
set_option linter.unusedSectionVars false
set_option linter.unnecessarySeqFocus false
set_option linter.unreachableTactic false
set_option linter.unusedTactic false
set_option linter.unusedSimpArgs false
namespace ImathVerif.C06
open ImathVerif Matrix GJ

variable {α : Type} [Field α] [LinearOrder α] [IsStrictOrderedRing α]

/-! ## Matrix22 -/

/-- `Matrix22::inverse()`: `adj/det` when `|det| ≥ 1` or all four guards `|det|/tmin > |s_ij|` pass, else identity -/
theorem M22_inverse_spec (tmin : α) (a : M22 α) :
    (Gen.M22.inverse tmin a).toMat =
      if 1 ≤ |a.toMat.det| ∨ ∀ i j, |a.toMat.adjugate i j| < |a.toMat.det| / tmin
      then (a.toMat.det)⁻¹ • a.toMat.adjugate else 1 := by
  rw [M22_det_canon]
  simp only [Gen.M22.inverse, sabs_eq_abs, div_eq_mul_inv, one_mul, ← ite_and, ite_or_else, apply_ite M22.toMat]
  refine if_congr (or_congr (one_le_congr (by ring1)) ?_) ?_ ?_
  · simp [Fin.forall_fin_two, Matrix.adjugate_fin_two, M22.toMat, and_assoc]
    first | done | guards4
  · ext i j; fin_cases i <;> fin_cases j <;> simp [M22.toMat, Matrix.adjugate_fin_two] <;>
      first | ring1 | exact Or.inl (by ring1)
  · ext i j; fin_cases i <;> fin_cases j <;> simp [M22.toMat]

/-- guards pass ⇒ `det ≠ 0` and the result is a two-sided inverse -/
theorem M22_inverse_mul (tmin : α) (a : M22 α)
    (hg : 1 ≤ |a.toMat.det| ∨ ∀ i j, |a.toMat.adjugate i j| < |a.toMat.det| / tmin) :
    a.toMat.det ≠ 0 ∧ a.toMat * (Gen.M22.inverse tmin a).toMat = 1 ∧ (Gen.M22.inverse tmin a).toMat * a.toMat = 1 := by
  have hd : a.toMat.det ≠ 0 := det_ne_zero_of_guard (s := a.toMat.adjugate 0 0) (tmin := tmin) (hg.imp id fun h => h 0 0)
  rw [M22_inverse_spec, if_pos hg]
  exact ⟨hd, mul_inv_smul_adjugate _ hd⟩

/-- `det M = 0` ⇒ the identity (the guard reads `0 > |s|`) -/
theorem M22_inverse_singular (tmin : α) (a : M22 α) (h : a.toMat.det = 0) : (Gen.M22.inverse tmin a).toMat = 1 := by
  rw [M22_inverse_spec, h, if_neg]
  rintro (h1 | h1)
  · simp at h1; linarith
  · have := h1 0 0; simp at this; exact absurd this (not_lt.mpr (abs_nonneg _))

/-- `invert()` leaves exactly what `inverse()` returns -/
theorem M22_invert_eq_inverse (tmin : α) (a : M22 α) : Gen.M22.invert tmin a = Gen.M22.inverse tmin a := rfl

/-- for an invertible matrix: the true inverse is returned iff `|det| ≥ 1` or every entry of the exact inverse is below `1 / tmin` -/
theorem M22_inverse_true_iff (tmin : α) (ht : 0 < tmin) (a : M22 α) (hd : a.toMat.det ≠ 0) :
    (Gen.M22.inverse tmin a).toMat = (a.toMat.det)⁻¹ • a.toMat.adjugate ↔
      (1 ≤ |a.toMat.det| ∨ ∀ i j, |((a.toMat.det)⁻¹ • a.toMat.adjugate) i j| < 1 / tmin) := by
  rw [M22_inverse_spec, ite_eq_inverse_iff _ hd _ Or.inl]
  refine or_congr Iff.rfl (forall_congr' fun i => forall_congr' fun j => ?_)
  rw [Matrix.smul_apply, smul_eq_mul]; exact guard_iff_quot_lt hd ht

example : (1 : ℚ) ≤ |(⟨2, 1, 1, 1⟩ : M22 ℚ).toMat.det| := by simp [M22.toMat, Matrix.det_fin_two]; norm_num
/-- the overflow-singular outcome is reachable: `det = 1/8 ≠ 0`, but with `tmin = 1/4` the guard `1 < (1/8)/(1/4)` fails ⇒ identity -/
example : (⟨1 / 8, 0, 0, 1⟩ : M22 ℚ).toMat.det ≠ 0 ∧ Gen.M22.inverse (1 / 4 : ℚ) ⟨1 / 8, 0, 0, 1⟩ = ⟨1, 0, 0, 1⟩ := by
  constructor
  · simp [M22.toMat, Matrix.det_fin_two]
  · norm_num [Gen.M22.inverse, sabs]
/-- … and with `det = 1/2` the same `tmin` lets all four guards pass -/
example : Gen.M22.inverse (1 / 4 : ℚ) ⟨1 / 2, 0, 0, 1⟩ = ⟨2, 0, 0, 1⟩ := by norm_num [Gen.M22.inverse, sabs]
/-- the guarded branch is not vacuous: `|det| = 1/2 < 1`, all four guards pass with `tmin = 2⁻¹⁰` -/
example : ¬ (1 : ℚ) ≤ |(⟨1, 0, 0, 1 / 2⟩ : M22 ℚ).toMat.det| ∧
    ∀ i j, |(⟨1, 0, 0, 1 / 2⟩ : M22 ℚ).toMat.adjugate i j| < |(⟨1, 0, 0, 1 / 2⟩ : M22 ℚ).toMat.det| / (1 / 1024) := by
  constructor
  · simp [M22.toMat, Matrix.det_fin_two]; norm_num
  · intro i j; fin_cases i <;> fin_cases j <;> simp [M22.toMat, Matrix.det_fin_two, Matrix.adjugate_fin_two] <;> norm_num

/-! ## Matrix33 -/

/-- general arm (last column not `(0,0,1)`): nine cofactor guards -/
theorem M33_inverse_spec (tmin : α) (a : M33 α) (hna : ¬ a.IsAffine) :
    (Gen.M33.inverse tmin a).toMat =
      if 1 ≤ |a.toMat.det| ∨ ∀ i j, |a.toMat.adjugate i j| < |a.toMat.det| / tmin
      then (a.toMat.det)⁻¹ • a.toMat.adjugate else 1 := by
  unfold M33.IsAffine at hna
  rw [M33_det_canon]
  simp only [Gen.M33.inverse, sabs_eq_abs, div_eq_mul_inv, one_mul, ← ite_and, ite_or_else, apply_ite M33.toMat, if_neg hna]
  refine if_congr (or_congr (one_le_congr (by ring1)) ?_) ?_ ?_
  · simp [Fin.forall_fin_succ, Matrix.adjugate_fin_three, M33.toMat, and_assoc]
    first | done | guards9
  · ext i j; fin_cases i <;> fin_cases j <;> simp [M33.toMat, Matrix.adjugate_fin_three] <;>
      first | ring1 | exact Or.inl (by ring1)
  · ext i j; fin_cases i <;> fin_cases j <;> simp [M33.toMat]

/-- affine arm (last column `(0,0,1)`): only the four cofactors of the 2×2 linear block are guarded; when accepted the
result is the general `det⁻¹ • adjugate` of the full 3×3 matrix -/
theorem M33_inverse_affine_spec (tmin : α) (a : M33 α) (ha : a.IsAffine) :
    (Gen.M33.inverse tmin a).toMat =
      if 1 ≤ |a.toMat.det| ∨ ∀ i j, |a.linear.toMat.adjugate i j| < |a.toMat.det| / tmin
      then (a.toMat.det)⁻¹ • a.toMat.adjugate else 1 := by
  have ha' := ha
  obtain ⟨h02, h12, h22⟩ := ha'
  have hdet : a.toMat.det = a.x00 * a.x11 - a.x01 * a.x10 := by rw [M33_det_canon, h02, h12, h22]; ring
  unfold M33.IsAffine at ha
  rw [hdet]
  simp only [Gen.M33.inverse, sabs_eq_abs, div_eq_mul_inv, one_mul, ← ite_and, ite_or_else, apply_ite M33.toMat, if_pos ha]
  refine if_ctx_congr (or_congr (one_le_congr (by ring1)) ?_) (fun hg => ?_) (fun _ => ?_)
  · simp [Fin.forall_fin_two, Matrix.adjugate_fin_two, M33.linear, M22.toMat, and_assoc]
    first | done | guards4
  · have hd : a.x00 * a.x11 - a.x01 * a.x10 ≠ 0 :=
      det_ne_zero_of_guard_mul (s := a.linear.toMat.adjugate 0 0) (hg.imp id fun h => h 0 0)
    rw [← hdet]
    apply eq_inv_smul_adjugate_of_mul_eq_one
    ext i j; fin_cases i <;> fin_cases j <;>
      simp [M33.toMat, Matrix.mul_apply, Fin.sum_univ_three, h02, h12, h22] <;>
      first | ring1 | invtac α (a.x00 * a.x11 - a.x01 * a.x10) hd
  · ext i j; fin_cases i <;> fin_cases j <;> simp [M33.toMat]

/-- no jump in exact arithmetic: an affine matrix accepted by the fast path gets the general cofactor formula -/
theorem M33_affine_eq_general (tmin : α) (a : M33 α) (ha : a.IsAffine)
    (hg : 1 ≤ |a.toMat.det| ∨ ∀ i j, |a.linear.toMat.adjugate i j| < |a.toMat.det| / tmin) :
    (Gen.M33.inverse tmin a).toMat = (a.toMat.det)⁻¹ • a.toMat.adjugate := by
  rw [M33_inverse_affine_spec tmin a ha, if_pos hg]

/-- whichever arm: `|det| ≥ 1` ⇒ `det⁻¹ • adjugate` -/
theorem M33_inverse_of_one_le_abs_det (tmin : α) (a : M33 α) (h : 1 ≤ |a.toMat.det|) :
    (Gen.M33.inverse tmin a).toMat = (a.toMat.det)⁻¹ • a.toMat.adjugate := by
  by_cases ha : a.IsAffine
  · rw [M33_inverse_affine_spec tmin a ha, if_pos (Or.inl h)]
  · rw [M33_inverse_spec tmin a ha, if_pos (Or.inl h)]

/-- the guards of the arm taken pass ⇒ `det ≠ 0` and the result is a two-sided inverse -/
theorem M33_inverse_mul (tmin : α) (a : M33 α)
    (hga : a.IsAffine → 1 ≤ |a.toMat.det| ∨ ∀ i j, |a.linear.toMat.adjugate i j| < |a.toMat.det| / tmin)
    (hgn : ¬ a.IsAffine → 1 ≤ |a.toMat.det| ∨ ∀ i j, |a.toMat.adjugate i j| < |a.toMat.det| / tmin) :
    a.toMat.det ≠ 0 ∧ a.toMat * (Gen.M33.inverse tmin a).toMat = 1 ∧ (Gen.M33.inverse tmin a).toMat * a.toMat = 1 := by
  by_cases ha : a.IsAffine
  · have hg := hga ha
    have hd : a.toMat.det ≠ 0 := det_ne_zero_of_guard (s := a.linear.toMat.adjugate 0 0) (tmin := tmin) (hg.imp id fun h => h 0 0)
    rw [M33_inverse_affine_spec tmin a ha, if_pos hg]
    exact ⟨hd, mul_inv_smul_adjugate _ hd⟩
  · have hg := hgn ha
    have hd : a.toMat.det ≠ 0 := det_ne_zero_of_guard (s := a.toMat.adjugate 0 0) (tmin := tmin) (hg.imp id fun h => h 0 0)
    rw [M33_inverse_spec tmin a ha, if_pos hg]
    exact ⟨hd, mul_inv_smul_adjugate _ hd⟩

theorem M33_inverse_singular (tmin : α) (a : M33 α) (h : a.toMat.det = 0) : (Gen.M33.inverse tmin a).toMat = 1 := by
  by_cases ha : a.IsAffine
  · rw [M33_inverse_affine_spec tmin a ha, h, if_neg]
    rintro (h1 | h1)
    · simp at h1; linarith
    · have := h1 0 0; simp at this; exact absurd this (not_lt.mpr (abs_nonneg _))
  · rw [M33_inverse_spec tmin a ha, h, if_neg]
    rintro (h1 | h1)
    · simp at h1; linarith
    · have := h1 0 0; simp at this; exact absurd this (not_lt.mpr (abs_nonneg _))

theorem M33_invert_eq_inverse (tmin : α) (a : M33 α) : Gen.M33.invert tmin a = Gen.M33.inverse tmin a := rfl

theorem M33_inverse_true_iff (tmin : α) (ht : 0 < tmin) (a : M33 α) (hna : ¬ a.IsAffine) (hd : a.toMat.det ≠ 0) :
    (Gen.M33.inverse tmin a).toMat = (a.toMat.det)⁻¹ • a.toMat.adjugate ↔
      (1 ≤ |a.toMat.det| ∨ ∀ i j, |((a.toMat.det)⁻¹ • a.toMat.adjugate) i j| < 1 / tmin) := by
  rw [M33_inverse_spec tmin a hna, ite_eq_inverse_iff _ hd _ Or.inl]
  refine or_congr Iff.rfl (forall_congr' fun i => forall_congr' fun j => ?_)
  rw [Matrix.smul_apply, smul_eq_mul]; exact guard_iff_quot_lt hd ht

/-- determinant of an affine 3×3 matrix = determinant of its linear block -/
theorem M33_det_affine (a : M33 α) (ha : a.IsAffine) : a.toMat.det = a.linear.toMat.det := by
  obtain ⟨h02, h12, h22⟩ := ha
  rw [M33_det_canon, M22_det_canon, h02, h12, h22]; simp [M33.linear] <;> ring

/-- affine arm: the entries in question are those of the exact inverse of the 2×2 linear block -/
theorem M33_inverse_affine_true_iff (tmin : α) (ht : 0 < tmin) (a : M33 α) (ha : a.IsAffine) (hd : a.toMat.det ≠ 0) :
    (Gen.M33.inverse tmin a).toMat = (a.toMat.det)⁻¹ • a.toMat.adjugate ↔
      (1 ≤ |a.toMat.det| ∨ ∀ i j, |((a.linear.toMat.det)⁻¹ • a.linear.toMat.adjugate) i j| < 1 / tmin) := by
  rw [M33_inverse_affine_spec tmin a ha, ite_eq_inverse_iff _ hd _ Or.inl]
  refine or_congr Iff.rfl (forall_congr' fun i => forall_congr' fun j => ?_)
  rw [Matrix.smul_apply, smul_eq_mul, ← M33_det_affine a ha]; exact guard_iff_quot_lt hd ht

/-! ### when do the two arms decide differently?

The general arm guards all nine cofactors, the affine arm only the four of the linear block.  On an affine matrix
(`adjugate 0 2 = adjugate 1 2 = 0`, `adjugate 2 2 = det`, upper-left block = adjugate of the linear block) the nine guards
are the four block guards plus the two TRANSLATION cofactors `adjugate 2 0`, `adjugate 2 1` (for `0 < tmin < 1`). -/

theorem M33_general_guard_iff (tmin : α) (a : M33 α) (ha : a.IsAffine) (ht0 : 0 < tmin) (ht1 : tmin < 1) :
    (∀ i j, |a.toMat.adjugate i j| < |a.toMat.det| / tmin) ↔
      ((∀ i j, |a.linear.toMat.adjugate i j| < |a.toMat.det| / tmin) ∧
        |a.toMat.adjugate 2 0| < |a.toMat.det| / tmin ∧ |a.toMat.adjugate 2 1| < |a.toMat.det| / tmin) := by
  obtain ⟨h02, h12, h22⟩ := ha
  have hdet : a.toMat.det = a.x00 * a.x11 - a.x01 * a.x10 := by rw [M33_det_canon, h02, h12, h22]; ring
  have e00 : a.toMat.adjugate 0 0 = a.linear.toMat.adjugate 0 0 := by
    simp [Matrix.adjugate_fin_three, Matrix.adjugate_fin_two, M33.toMat, M33.linear, M22.toMat, h02, h12, h22]
  have e01 : a.toMat.adjugate 0 1 = a.linear.toMat.adjugate 0 1 := by
    simp [Matrix.adjugate_fin_three, Matrix.adjugate_fin_two, M33.toMat, M33.linear, M22.toMat, h02, h12, h22]
  have e10 : a.toMat.adjugate 1 0 = a.linear.toMat.adjugate 1 0 := by
    simp [Matrix.adjugate_fin_three, Matrix.adjugate_fin_two, M33.toMat, M33.linear, M22.toMat, h02, h12, h22]
  have e11 : a.toMat.adjugate 1 1 = a.linear.toMat.adjugate 1 1 := by
    simp [Matrix.adjugate_fin_three, Matrix.adjugate_fin_two, M33.toMat, M33.linear, M22.toMat, h02, h12, h22]
  have e02 : a.toMat.adjugate 0 2 = 0 := by
    simp [Matrix.adjugate_fin_three, M33.toMat, h02, h12, h22]
  have e12 : a.toMat.adjugate 1 2 = 0 := by
    simp [Matrix.adjugate_fin_three, M33.toMat, h02, h12, h22]
  have e22 : a.toMat.adjugate 2 2 = a.toMat.det := by
    rw [hdet]; simp [Matrix.adjugate_fin_three, M33.toMat, h02, h12, h22] <;> ring
  constructor
  · intro h
    refine ⟨fun i j => ?_, h 2 0, h 2 1⟩
    fin_cases i <;> fin_cases j
    · simpa [e00] using h 0 0
    · simpa [e01] using h 0 1
    · simpa [e10] using h 1 0
    · simpa [e11] using h 1 1
  · rintro ⟨hb, h20, h21⟩
    have hd : a.toMat.det ≠ 0 := det_ne_zero_of_guard (Or.inr (hb 0 0))
    have hpos : 0 < |a.toMat.det| / tmin := div_pos (abs_pos.mpr hd) ht0
    have hlt : |a.toMat.det| < |a.toMat.det| / tmin := by
      rw [lt_div_iff₀ ht0]; nlinarith [abs_pos.mpr hd]
    intro i j
    fin_cases i <;> fin_cases j
    · simpa [e00] using hb 0 0
    · simpa [e01] using hb 0 1
    · simpa [e02] using hpos
    · simpa [e10] using hb 1 0
    · simpa [e11] using hb 1 1
    · simpa [e12] using hpos
    · exact h20
    · exact h21
    · simpa [e22] using hlt

/-- the fast path accepts an affine matrix that the general arm would refuse (what happens to it after a one-ulp
perturbation of its last column) EXACTLY when the block guards pass and a translation cofactor fails the guard -/
theorem M33_arms_disagree_iff (tmin : α) (a : M33 α) (ha : a.IsAffine) (ht0 : 0 < tmin) (ht1 : tmin < 1) :
    ((∀ i j, |a.linear.toMat.adjugate i j| < |a.toMat.det| / tmin) ∧ ¬ ∀ i j, |a.toMat.adjugate i j| < |a.toMat.det| / tmin) ↔
      ((∀ i j, |a.linear.toMat.adjugate i j| < |a.toMat.det| / tmin) ∧
        (|a.toMat.det| / tmin ≤ |a.toMat.adjugate 2 0| ∨ |a.toMat.det| / tmin ≤ |a.toMat.adjugate 2 1|)) := by
  rw [M33_general_guard_iff tmin a ha ht0 ht1]
  constructor
  · rintro ⟨hb, hn⟩
    refine ⟨hb, ?_⟩
    by_contra hc
    rw [not_or, not_le, not_le] at hc
    exact hn ⟨hb, hc.1, hc.2⟩
  · rintro ⟨hb, hc⟩
    refine ⟨hb, fun h => ?_⟩
    rcases hc with hc | hc
    · exact absurd h.2.1 (not_lt.mpr hc)
    · exact absurd h.2.2 (not_lt.mpr hc)

/-- the general arm never accepts an affine matrix that the fast path refuses -/
theorem M33_general_guard_imp_affine_guard (tmin : α) (a : M33 α) (ha : a.IsAffine) (ht0 : 0 < tmin) (ht1 : tmin < 1)
    (h : ∀ i j, |a.toMat.adjugate i j| < |a.toMat.det| / tmin) : ∀ i j, |a.linear.toMat.adjugate i j| < |a.toMat.det| / tmin :=
  ((M33_general_guard_iff tmin a ha ht0 ht1).mp h).1

/-- … and a failing translation cofactor means that this translation entry of the exact inverse is at least `1 / tmin` -/
theorem M33_arms_disagree_entry (tmin : α) (a : M33 α) (ht0 : 0 < tmin) (hd : a.toMat.det ≠ 0) (j : Fin 3)
    (h : |a.toMat.det| / tmin ≤ |a.toMat.adjugate 2 j|) : 1 / tmin ≤ |((a.toMat.det)⁻¹ • a.toMat.adjugate) 2 j| := by
  have := (guard_iff_quot_lt (s := a.toMat.adjugate 2 j) hd ht0).not
  rw [not_lt, not_lt] at this
  rw [Matrix.smul_apply, smul_eq_mul]
  exact this.mp h

/-- the third row of the adjugate (the translation cofactors and the block determinant) does not involve the last column -/
theorem M33_adjugate_row2_of_cols (a a' : M33 α)
    (hc : a'.x00 = a.x00 ∧ a'.x01 = a.x01 ∧ a'.x10 = a.x10 ∧ a'.x11 = a.x11 ∧ a'.x20 = a.x20 ∧ a'.x21 = a.x21) (j : Fin 3) :
    a'.toMat.adjugate 2 j = a.toMat.adjugate 2 j := by
  obtain ⟨h1, h2, h3, h4, h5, h6⟩ := hc
  fin_cases j <;> simp [Matrix.adjugate_fin_three, M33.toMat, h1, h2, h3, h4, h5, h6]

/-- `M33_arms_disagree_iff` TIED TO THE EXTRACTED CODE (affine arm): for an affine matrix with `|det| < 1`, "`Gen.M33.inverse`
returns the true inverse of an invertible matrix although the general arm's nine guards do not all pass" ⇔ the block guards
pass and a translation cofactor fails.  (A statement of the form "`inverse a ≠ inverse a'` for a non-affine `a'` with the same
adjugate and determinant" would be vacuous: adjugate and a non-zero determinant determine the matrix.) -/
theorem M33_fast_path_accepts_general_refuses_iff (tmin : α) (a : M33 α) (ha : a.IsAffine) (ht0 : 0 < tmin) (ht1 : tmin < 1)
    (hd1 : |a.toMat.det| < 1) :
    ((Gen.M33.inverse tmin a).toMat = (a.toMat.det)⁻¹ • a.toMat.adjugate ∧ a.toMat.det ≠ 0 ∧
        ¬ ∀ i j, |a.toMat.adjugate i j| < |a.toMat.det| / tmin) ↔
      ((∀ i j, |a.linear.toMat.adjugate i j| < |a.toMat.det| / tmin) ∧
        (|a.toMat.det| / tmin ≤ |a.toMat.adjugate 2 0| ∨ |a.toMat.det| / tmin ≤ |a.toMat.adjugate 2 1|)) := by
  rw [← M33_arms_disagree_iff tmin a ha ht0 ht1]
  constructor
  · rintro ⟨hx, hd, hn⟩
    refine ⟨?_, hn⟩
    have := (M33_inverse_affine_true_iff tmin ht0 a ha hd).mp hx
    rcases this with h | h
    · exact absurd h (not_le.mpr hd1)
    · rw [← M33_det_affine a ha] at h
      have hdl : a.linear.toMat.det ≠ 0 := by rwa [← M33_det_affine a ha]
      have := (guards_iff_inverse_entries_lt a.linear.toMat tmin ht0 hdl).mpr (by rwa [M33_det_affine a ha] at h)
      rwa [← M33_det_affine a ha] at this
  · rintro ⟨hb, hn⟩
    have hd : a.toMat.det ≠ 0 := det_ne_zero_of_guard (Or.inr (hb 0 0))
    exact ⟨M33_affine_eq_general tmin a ha (Or.inr hb), hd, hn⟩

/-- THE JUMP, both arms of the extracted code in one statement: `a` affine, `a'` non-affine with the same first two columns
(e.g. `a` with its last column perturbed: the translation cofactors `adjugate 2 j` do not involve that column).  If the block
guards of `a` pass and a translation cofactor reaches `|det a'| / tmin` (`|det a'| < 1`), the fast path inverts `a` and the
general arm returns the identity for `a'`. -/
theorem M33_jump_of_translation_cofactor (tmin : α) (a a' : M33 α) (ha : a.IsAffine) (hna : ¬ a'.IsAffine)
    (hc : a'.x00 = a.x00 ∧ a'.x01 = a.x01 ∧ a'.x10 = a.x10 ∧ a'.x11 = a.x11 ∧ a'.x20 = a.x20 ∧ a'.x21 = a.x21)
    (hb : ∀ i j, |a.linear.toMat.adjugate i j| < |a.toMat.det| / tmin)
    (hd' : |a'.toMat.det| < 1) (j : Fin 3) (hf : |a'.toMat.det| / tmin ≤ |a.toMat.adjugate 2 j|) :
    (Gen.M33.inverse tmin a).toMat = (a.toMat.det)⁻¹ • a.toMat.adjugate ∧ a.toMat.det ≠ 0 ∧ (Gen.M33.inverse tmin a').toMat = 1 := by
  refine ⟨M33_affine_eq_general tmin a ha (Or.inr hb), det_ne_zero_of_guard (Or.inr (hb 0 0)), ?_⟩
  rw [M33_inverse_spec tmin a' hna, if_neg]
  rintro (h | h)
  · exact absurd h (not_le.mpr hd')
  · have := h 2 j
    rw [M33_adjugate_row2_of_cols a a' hc j] at this
    exact absurd this (not_lt.mpr hf)

example : (⟨1, 0, 0, 0, 1 / 2, 0, 0, 8, 1⟩ : M33 ℚ).IsAffine ∧ ¬ (⟨1, 0, 1 / 100, 0, 1 / 2, 0, 0, 8, 1⟩ : M33 ℚ).IsAffine ∧
    |(⟨1, 0, 1 / 100, 0, 1 / 2, 0, 0, 8, 1⟩ : M33 ℚ).toMat.det| < 1 ∧
    |(⟨1, 0, 1 / 100, 0, 1 / 2, 0, 0, 8, 1⟩ : M33 ℚ).toMat.det| / (1 / 4) ≤ |(⟨1, 0, 0, 0, 1 / 2, 0, 0, 8, 1⟩ : M33 ℚ).toMat.adjugate 2 1| := by
  refine ⟨by simp [M33.IsAffine], by simp [M33.IsAffine], ?_, ?_⟩
  · simp [M33.toMat, Matrix.det_fin_three]; norm_num
  · simp [M33.toMat, Matrix.det_fin_three, Matrix.adjugate_fin_three]; norm_num
example : Gen.M33.inverse (1 / 4 : ℚ) ⟨1, 0, 1 / 100, 0, 1 / 2, 0, 0, 8, 1⟩ = ⟨1, 0, 0, 0, 1, 0, 0, 0, 1⟩ := by
  norm_num [Gen.M33.inverse, sabs]

/-- non-affine 3×3, `|det| = 1/2 < 1`, all nine guards pass with `tmin = 2⁻¹⁰`: the guarded branch of the general arm -/
example : ¬ (⟨1, 0, 1, 0, 1, 0, 0, 0, 1 / 2⟩ : M33 ℚ).IsAffine ∧ ¬ (1 : ℚ) ≤ |(⟨1, 0, 1, 0, 1, 0, 0, 0, 1 / 2⟩ : M33 ℚ).toMat.det| ∧
    ∀ i j, |(⟨1, 0, 1, 0, 1, 0, 0, 0, 1 / 2⟩ : M33 ℚ).toMat.adjugate i j| < |(⟨1, 0, 1, 0, 1, 0, 0, 0, 1 / 2⟩ : M33 ℚ).toMat.det| / (1 / 1024) := by
  refine ⟨by simp [M33.IsAffine], ?_, ?_⟩
  · simp [M33.toMat, Matrix.det_fin_three]; norm_num
  · intro i j
    fin_cases i <;> fin_cases j <;> simp [M33.toMat, Matrix.det_fin_three, Matrix.adjugate_fin_three] <;> norm_num
example : Gen.M33.inverse (1 / 1024 : ℚ) ⟨1, 0, 1, 0, 1, 0, 0, 0, 1 / 2⟩ = ⟨1, 0, -2, 0, 1, 0, 0, 0, 2⟩ := by
  norm_num [Gen.M33.inverse, sabs]
/-- general arm, `det = 1/8 ≠ 0`, the guard fires ⇒ identity (the overflow-singular outcome) -/
example : Gen.M33.inverse (1 / 4 : ℚ) ⟨1, 0, 1, 0, 1, 0, 0, 0, 1 / 8⟩ = ⟨1, 0, 0, 0, 1, 0, 0, 0, 1⟩ := by
  norm_num [Gen.M33.inverse, sabs]
/-- the arms disagree on a concrete affine matrix (`tmin = 1/4`): block guards pass (`|det|/tmin = 2 > 1, 1/2`), the translation
cofactor `adjugate 2 1 = -8` fails; the fast path inverts (translation entry `-16`, `|-16| ≥ 1/tmin = 4`) -/
example : (⟨1, 0, 0, 0, 1 / 2, 0, 0, 8, 1⟩ : M33 ℚ).IsAffine ∧
    (∀ i j, |(⟨1, 0, 0, 0, 1 / 2, 0, 0, 8, 1⟩ : M33 ℚ).linear.toMat.adjugate i j| < |(⟨1, 0, 0, 0, 1 / 2, 0, 0, 8, 1⟩ : M33 ℚ).toMat.det| / (1 / 4)) ∧
    |(⟨1, 0, 0, 0, 1 / 2, 0, 0, 8, 1⟩ : M33 ℚ).toMat.det| / (1 / 4) ≤ |(⟨1, 0, 0, 0, 1 / 2, 0, 0, 8, 1⟩ : M33 ℚ).toMat.adjugate 2 1| := by
  refine ⟨by simp [M33.IsAffine], ?_, ?_⟩
  · intro i j
    fin_cases i <;> fin_cases j <;> simp [M33.toMat, M33.linear, M22.toMat, Matrix.det_fin_three, Matrix.adjugate_fin_two] <;> norm_num
  · simp [M33.toMat, Matrix.det_fin_three, Matrix.adjugate_fin_three]; norm_num
example : Gen.M33.inverse (1 / 4 : ℚ) ⟨1, 0, 0, 0, 1 / 2, 0, 0, 8, 1⟩ = ⟨1, 0, 0, 0, 2, 0, 0, -16, 1⟩ := by
  norm_num [Gen.M33.inverse, sabs]

/-- a non-affine invertible matrix over ℚ with `|det| = 2 ≥ 1` -/
example : ¬ (⟨1, 0, 1, 0, 1, 0, 0, 0, 2⟩ : M33 ℚ).IsAffine ∧ (1 : ℚ) ≤ |(⟨1, 0, 1, 0, 1, 0, 0, 0, 2⟩ : M33 ℚ).toMat.det| := by
  constructor
  · simp [M33.IsAffine]
  · simp [M33.toMat, Matrix.det_fin_three]
/-- an affine matrix (scale 1/2, translation (3,4)) with `|det| = 1/4 < 1` whose four block guards pass with `tmin = 2⁻¹⁰` -/
example : (⟨1 / 2, 0, 0, 0, 1 / 2, 0, 3, 4, 1⟩ : M33 ℚ).IsAffine ∧
    ∀ i j, |(⟨1 / 2, 0, 0, 0, 1 / 2, 0, 3, 4, 1⟩ : M33 ℚ).linear.toMat.adjugate i j|
      < |(⟨1 / 2, 0, 0, 0, 1 / 2, 0, 3, 4, 1⟩ : M33 ℚ).toMat.det| / (1 / 1024) := by
  constructor
  · simp [M33.IsAffine]
  · intro i j
    fin_cases i <;> fin_cases j <;>
      simp [M33.toMat, M33.linear, M22.toMat, Matrix.det_fin_three, Matrix.adjugate_fin_two] <;> norm_num

/-! ## Matrix44 -/

/-- determinant of an affine 4×4 matrix = determinant of its linear block -/
theorem M44_det_affine (a : M44 α) (ha : a.IsAffine) : a.toMat.det = a.linear.toMat.det := by
  obtain ⟨h03, h13, h23, h33⟩ := ha
  rw [det_fin_four]
  simp [M44.toMat, M44.linear, M33.toMat, Matrix.det_fin_three, h03, h13, h23, h33]
  ring

/-- affine arm of `Matrix44::inverse()` (last column `(0,0,0,1)`): nine guards on the cofactors of the 3×3 linear block;
when accepted the result is `det⁻¹ • adjugate` of the FULL 4×4 matrix (Mathlib's adjugate): the general formula -/
theorem M44_inverse_affine_spec (tmin : α) (a : M44 α) (ha : a.IsAffine) :
    (Gen.M44.inverse tmin a).toMat =
      if 1 ≤ |a.toMat.det| ∨ ∀ i j, |a.linear.toMat.adjugate i j| < |a.toMat.det| / tmin
      then (a.toMat.det)⁻¹ • a.toMat.adjugate else 1 := by
  have hdet : a.toMat.det = a.x00 * a.x11 * a.x22 - a.x00 * a.x12 * a.x21 - a.x01 * a.x10 * a.x22 + a.x01 * a.x12 * a.x20
      + a.x02 * a.x10 * a.x21 - a.x02 * a.x11 * a.x20 := by
    rw [M44_det_affine a ha, M33_det_canon]; rfl
  have ha' := ha
  obtain ⟨h03, h13, h23, h33⟩ := ha'
  unfold M44.IsAffine at ha
  rw [hdet]
  simp only [Gen.M44.inverse, sabs_eq_abs, div_eq_mul_inv, one_mul, ← ite_and, ite_or_else, apply_ite M44.toMat, if_pos ha]
  refine if_ctx_congr (or_congr (one_le_congr (by ring1)) ?_) (fun hg => ?_) (fun _ => ?_)
  · simp [Fin.forall_fin_succ, Matrix.adjugate_fin_three, M44.linear, M33.toMat, and_assoc]
    first | done | guards9
  · have hd : a.x00 * a.x11 * a.x22 - a.x00 * a.x12 * a.x21 - a.x01 * a.x10 * a.x22 + a.x01 * a.x12 * a.x20
        + a.x02 * a.x10 * a.x21 - a.x02 * a.x11 * a.x20 ≠ 0 :=
      det_ne_zero_of_guard_mul (s := a.linear.toMat.adjugate 0 0) (hg.imp id fun h => h 0 0)
    rw [← hdet]
    apply eq_inv_smul_adjugate_of_mul_eq_one
    ext i j; fin_cases i <;> fin_cases j <;>
      simp [M44.toMat, Matrix.mul_apply, Fin.sum_univ_four, h03, h13, h23, h33] <;>
      first | ring1 | invtac α (a.x00 * a.x11 * a.x22 - a.x00 * a.x12 * a.x21 - a.x01 * a.x10 * a.x22 + a.x01 * a.x12 * a.x20
        + a.x02 * a.x10 * a.x21 - a.x02 * a.x11 * a.x20) hd
  · ext i j; fin_cases i <;> fin_cases j <;> simp [M44.toMat]

/-- no jump in exact arithmetic: the fast path equals the general `det⁻¹ • adjugate` -/
theorem M44_affine_eq_general (tmin : α) (a : M44 α) (ha : a.IsAffine)
    (hg : 1 ≤ |a.toMat.det| ∨ ∀ i j, |a.linear.toMat.adjugate i j| < |a.toMat.det| / tmin) :
    (Gen.M44.inverse tmin a).toMat = (a.toMat.det)⁻¹ • a.toMat.adjugate := by
  rw [M44_inverse_affine_spec tmin a ha, if_pos hg]

/-- non-affine arm: `Matrix44::inverse()` IS `gjInverse()` (the hand model, see below) -/
theorem M44_inverse_nonaffine (tmin : α) (a : M44 α) (hna : ¬ a.IsAffine) : Gen.M44.inverse tmin a = a.gjInverse := by
  unfold M44.IsAffine at hna
  simp only [Gen.M44.inverse, ← ite_and, if_neg hna]

theorem M44_invert_eq_inverse (tmin : α) (a : M44 α) : Gen.M44.invert tmin a = Gen.M44.inverse tmin a := rfl

/-- affine arm, invertible matrix: the true inverse is returned iff `|det| ≥ 1` or every entry of the exact inverse of the
3×3 linear block is below `1 / tmin` -/
theorem M44_inverse_affine_true_iff (tmin : α) (ht : 0 < tmin) (a : M44 α) (ha : a.IsAffine) (hd : a.toMat.det ≠ 0) :
    (Gen.M44.inverse tmin a).toMat = (a.toMat.det)⁻¹ • a.toMat.adjugate ↔
      (1 ≤ |a.toMat.det| ∨ ∀ i j, |((a.linear.toMat.det)⁻¹ • a.linear.toMat.adjugate) i j| < 1 / tmin) := by
  rw [M44_inverse_affine_spec tmin a ha, ite_eq_inverse_iff _ hd _ Or.inl]
  refine or_congr Iff.rfl (forall_congr' fun i => forall_congr' fun j => ?_)
  rw [Matrix.smul_apply, smul_eq_mul, ← M44_det_affine a ha]; exact guard_iff_quot_lt hd ht
/-- affine 4×4, `det = 1/8 ≠ 0`, `tmin = 1/4`: a block guard fails, the fast path returns the identity -/
example : Gen.M44.inverse (1 / 4 : ℚ) ⟨1, 0, 0, 0, 0, 1, 0, 0, 0, 0, 1 / 8, 0, 3, 4, 5, 1⟩ = ⟨1, 0, 0, 0, 0, 1, 0, 0, 0, 0, 1, 0, 0, 0, 0, 1⟩ := by
  norm_num [Gen.M44.inverse, sabs]

/-- affine 4×4 (scale 1/2, translation (3,4,5)): `|det| = 1/8 < 1`, the nine block guards pass with `tmin = 2⁻¹⁰` -/
example : (⟨1 / 2, 0, 0, 0, 0, 1 / 2, 0, 0, 0, 0, 1 / 2, 0, 3, 4, 5, 1⟩ : M44 ℚ).IsAffine ∧
    ∀ i j, |(⟨1 / 2, 0, 0, 0, 0, 1 / 2, 0, 0, 0, 0, 1 / 2, 0, 3, 4, 5, 1⟩ : M44 ℚ).linear.toMat.adjugate i j|
      < |(⟨1 / 2, 0, 0, 0, 0, 1 / 2, 0, 0, 0, 0, 1 / 2, 0, 3, 4, 5, 1⟩ : M44 ℚ).toMat.det| / (1 / 1024) := by
  constructor
  · simp [M44.IsAffine]
  · intro i j
    rw [M44_det_affine _ (by simp [M44.IsAffine])]
    fin_cases i <;> fin_cases j <;>
      simp [M44.linear, M33.toMat, Matrix.det_fin_three, Matrix.adjugate_fin_three] <;> norm_num

/-! ## Gauss-Jordan (`gjInverse`), every dimension -/

section GaussJordan
variable [BEq α] [LawfulBEq α] {n : Nat}

/-- INVARIANT, forward loop (fold over `fwdIdx n = [0,…,n-2]`): `s * M = t` after all row swaps / eliminations, `t` upper triangular -/
theorem gj_forward_invariant (M : Mat n α) (st : Mat n α × Mat n α)
    (h : (fwdIdx n).foldlM forwardStep (Mat.identity, M) = some st) :
    st.1.toMatrix * M.toMatrix = st.2.toMatrix ∧ st.2.toMatrix.IsUpperTriangular := by
  obtain ⟨h1, _, h3⟩ := forward_fold M st h
  exact ⟨h1, fun r c hcr => h3 c r hcr⟩

/-- INVARIANT, backward loop (fold over `bwdIdx n = [n-1,…,0]`) from any state with `s * M = t`, `t` upper triangular:
`s * M = t` still holds at the end and the final `t` is the identity -/
theorem gj_backward_invariant (M : Matrix (Fin n) (Fin n) α) (st st' : Mat n α × Mat n α)
    (h1 : st.1.toMatrix * M = st.2.toMatrix) (h2 : DetRel M st.2) (h3 : Upper st.2)
    (h : (bwdIdx n).foldlM backwardStep st = some st') :
    st'.1.toMatrix * M = st'.2.toMatrix ∧ st'.2.toMatrix = 1 :=
  backward_fold M st st' h1 h2 h3 h

/-- no pivot zero ⇒ the result is a two-sided inverse -/
theorem gj_some (M s : Mat n α) (h : gjCore M = some s) : s.toMatrix * M.toMatrix = 1 ∧ M.toMatrix * s.toMatrix = 1 :=
  gjCore_some M s h

/-- the singular exit (zero pivot after partial pivoting in the forward loop, or zero diagonal element in the backward
loop) is taken if and only if `det M = 0` -/
theorem gj_exit_iff_det_zero (M : Mat n α) : gjCore M = none ↔ M.toMatrix.det = 0 := gjCore_none_iff M

/-- a zero pivot after partial pivoting means the whole remaining column is zero -/
theorem gj_zero_pivot_column (t : Mat n α) (i : Fin n) (h : (pivotSearch t i).2 = 0) : ∀ r, i ≤ r → t.get r i = 0 := by
  intro r hr
  have := (pivotSearch_spec t i).2.2 r hr
  rw [h] at this
  exact abs_nonpos_iff.mp this

theorem M33_gjInverse_spec (a : M33 α) (h : a.toMat.det ≠ 0) :
    a.gjInverse.toMat * a.toMat = 1 ∧ a.toMat * a.gjInverse.toMat = 1 := by
  unfold M33.gjInverse
  cases hc : gjCore a.toGJ with
  | none => exact absurd ((gjCore_none_iff _).mp hc) (by rwa [M33_toGJ_toMatrix])
  | some s =>
    have := gjCore_some _ s hc
    rw [M33_toGJ_toMatrix] at this
    simpa [M33_ofGJ_toMat] using this

theorem M33_gjInverse_singular (a : M33 α) (h : a.toMat.det = 0) : a.gjInverse = M33.identity := by
  unfold M33.gjInverse
  rw [(gjCore_none_iff a.toGJ).mpr (by rwa [M33_toGJ_toMatrix])]

theorem M44_gjInverse_spec (a : M44 α) (h : a.toMat.det ≠ 0) :
    a.gjInverse.toMat * a.toMat = 1 ∧ a.toMat * a.gjInverse.toMat = 1 := by
  unfold M44.gjInverse
  cases hc : gjCore a.toGJ with
  | none => exact absurd ((gjCore_none_iff _).mp hc) (by rwa [M44_toGJ_toMatrix])
  | some s =>
    have := gjCore_some _ s hc
    rw [M44_toGJ_toMatrix] at this
    simpa [M44_ofGJ_toMat] using this

theorem M44_gjInverse_singular (a : M44 α) (h : a.toMat.det = 0) : a.gjInverse = M44.identity := by
  unfold M44.gjInverse
  rw [(gjCore_none_iff a.toGJ).mpr (by rwa [M44_toGJ_toMatrix])]

/-- the throwing forms: `std::invalid_argument` exactly when `det M = 0`, otherwise the value of the non-throwing form -/
theorem M33_gjInverseExc_spec (a : M33 α) :
    (a.toMat.det = 0 → a.gjInverseExc = .error Exc.invalidArgument) ∧ (a.toMat.det ≠ 0 → a.gjInverseExc = .ok a.gjInverse) := by
  unfold M33.gjInverseExc M33.gjInverse
  constructor
  · intro h; rw [(gjCore_none_iff a.toGJ).mpr (by rwa [M33_toGJ_toMatrix])]
  · intro h
    cases hc : gjCore a.toGJ with
    | none => exact absurd ((gjCore_none_iff _).mp hc) (by rwa [M33_toGJ_toMatrix])
    | some s => rfl

theorem M44_gjInverseExc_spec (a : M44 α) :
    (a.toMat.det = 0 → a.gjInverseExc = .error Exc.invalidArgument) ∧ (a.toMat.det ≠ 0 → a.gjInverseExc = .ok a.gjInverse) := by
  unfold M44.gjInverseExc M44.gjInverse
  constructor
  · intro h; rw [(gjCore_none_iff a.toGJ).mpr (by rwa [M44_toGJ_toMatrix])]
  · intro h
    cases hc : gjCore a.toGJ with
    | none => exact absurd ((gjCore_none_iff _).mp hc) (by rwa [M44_toGJ_toMatrix])
    | some s => rfl

end GaussJordan

/-! ## Matrix44::inverse, both arms together -/

/-- `det M ≠ 0`, and (non-affine, or the affine arm's guards pass) ⇒ `inverse()` is a two-sided inverse -/
theorem M44_inverse_mul (tmin : α) (a : M44 α) (hd : a.toMat.det ≠ 0)
    (hg : a.IsAffine → 1 ≤ |a.toMat.det| ∨ ∀ i j, |a.linear.toMat.adjugate i j| < |a.toMat.det| / tmin) :
    a.toMat * (Gen.M44.inverse tmin a).toMat = 1 ∧ (Gen.M44.inverse tmin a).toMat * a.toMat = 1 := by
  by_cases ha : a.IsAffine
  · rw [M44_inverse_affine_spec tmin a ha, if_pos (hg ha)]
    exact mul_inv_smul_adjugate _ hd
  · rw [M44_inverse_nonaffine tmin a ha]
    exact (M44_gjInverse_spec a hd).symm

/-- `det M = 0` ⇒ `inverse()` returns the identity, on both arms -/
theorem M44_inverse_singular (tmin : α) (a : M44 α) (h : a.toMat.det = 0) : (Gen.M44.inverse tmin a).toMat = 1 := by
  by_cases ha : a.IsAffine
  · rw [M44_inverse_affine_spec tmin a ha, h, if_neg]
    rintro (h1 | h1)
    · simp at h1; linarith
    · have := h1 0 0; simp at this; exact absurd this (not_lt.mpr (abs_nonneg _))
  · rw [M44_inverse_nonaffine tmin a ha, M44_gjInverse_singular a h, M44_identity_toMat]

/-! ## Matrix44::inverse: fast path against Gauss-Jordan on the SAME affine matrix -/
section ArmsM44
variable [BEq α] [LawfulBEq α]

theorem M44_gjInverse_eq_adjugate (a : M44 α) (hd : a.toMat.det ≠ 0) : a.gjInverse.toMat = (a.toMat.det)⁻¹ • a.toMat.adjugate :=
  eq_inv_smul_adjugate_of_mul_eq_one _ _ (M44_gjInverse_spec a hd).1
theorem M33_gjInverse_eq_adjugate (a : M33 α) (hd : a.toMat.det ≠ 0) : a.gjInverse.toMat = (a.toMat.det)⁻¹ • a.toMat.adjugate :=
  eq_inv_smul_adjugate_of_mul_eq_one _ _ (M33_gjInverse_spec a hd).1

/-- on an affine matrix the fast path and Gauss-Jordan (what a one-ulp perturbation of the last column switches to) return
the same matrix EXACTLY when `det = 0` (both: identity), `|det| ≥ 1`, or the nine block guards pass -/
theorem M44_affine_vs_gj (tmin : α) (a : M44 α) (ha : a.IsAffine) :
    (Gen.M44.inverse tmin a).toMat = a.gjInverse.toMat ↔
      (a.toMat.det = 0 ∨ 1 ≤ |a.toMat.det| ∨ ∀ i j, |a.linear.toMat.adjugate i j| < |a.toMat.det| / tmin) := by
  by_cases hd : a.toMat.det = 0
  · simp only [hd, true_or, iff_true]
    rw [M44_inverse_singular tmin a hd, M44_gjInverse_singular a hd, M44_identity_toMat]
  · rw [M44_inverse_affine_spec tmin a ha, M44_gjInverse_eq_adjugate a hd]
    by_cases hg : 1 ≤ |a.toMat.det| ∨ ∀ i j, |a.linear.toMat.adjugate i j| < |a.toMat.det| / tmin
    · rw [if_pos hg]; simp [hd, hg]
    · rw [if_neg hg]
      simp only [hd, false_or, hg, iff_false]
      intro h1
      -- the exact inverse would be the identity, so the matrix is the identity and its determinant is 1
      have hm : a.toMat = 1 := by
        have h2 := (mul_inv_smul_adjugate a.toMat hd).1
        rw [← h1, Matrix.mul_one] at h2
        exact h2
      exact hg (Or.inl (by rw [hm, Matrix.det_one, abs_one]))

/-- when they differ: the fast path gives the identity, Gauss-Jordan a true inverse, and some entry of the exact inverse of
the linear block is at least `1 / tmin` in magnitude -/
theorem M44_arms_disagree (tmin : α) (a : M44 α) (ha : a.IsAffine) (ht0 : 0 < tmin)
    (h : (Gen.M44.inverse tmin a).toMat ≠ a.gjInverse.toMat) :
    (Gen.M44.inverse tmin a).toMat = 1 ∧ a.gjInverse.toMat * a.toMat = 1 ∧
      ∃ i j, 1 / tmin ≤ |((a.linear.toMat.det)⁻¹ • a.linear.toMat.adjugate) i j| := by
  rw [Ne, M44_affine_vs_gj tmin a ha, not_or, not_or] at h
  obtain ⟨hd, h1, hg⟩ := h
  refine ⟨?_, (M44_gjInverse_spec a hd).1, ?_⟩
  · rw [M44_inverse_affine_spec tmin a ha, if_neg (not_or.mpr ⟨h1, hg⟩)]
  · have hdl : a.linear.toMat.det ≠ 0 := by rwa [← M44_det_affine a ha]
    rw [M44_det_affine a ha] at hg
    rw [guards_iff_inverse_entries_lt _ tmin ht0 hdl] at hg
    by_contra hc
    exact hg fun i j => lt_of_not_ge fun hij => hc ⟨i, j, hij⟩

end ArmsM44

/-- the matrix of the `example` after `M44_inverse_affine_true_iff` (fast path: identity): Gauss-Jordan inverts it -/
example : (⟨1, 0, 0, 0, 0, 1, 0, 0, 0, 0, 1 / 8, 0, 3, 4, 5, 1⟩ : M44 ℚ).gjInverse = ⟨1, 0, 0, 0, 0, 1, 0, 0, 0, 0, 8, 0, -3, -4, -40, 1⟩ := by
  decide +kernel

/-- Gauss-Jordan on a concrete matrix that needs a row swap at the first stage: the model returns the exact inverse -/
example : (⟨0, 1, 0, 2, 0, 0, 0, 0, 4⟩ : M33 ℚ).gjInverse = ⟨0, 1 / 2, 0, 1, 0, 0, 0, 0, 1 / 4⟩ := by decide +kernel
/-- … and the identity on a rank-deficient one (zero pivot at the last stage) -/
example : (⟨1, 2, 3, 2, 4, 6, 0, 1, 1⟩ : M33 ℚ).gjInverse = M33.identity := by decide +kernel

end ImathVerif.C06
