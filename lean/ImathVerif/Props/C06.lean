import ImathVerif.Spec.InverseSpec
import ImathVerif.Gen.C06
import ImathVerif.Lemmas.InverseLemmas
import ImathVerif.Lemmas.GaussJordanLemmas
/-!
# C06 — matrix inversion returns a true inverse, or a clean singular outcome

EXACT SEMANTICS (this file, proved).  Rounding — the property's `cond(M)·ε·‖M⁻¹‖` accuracy clause —
is NOT proved: it is measured on every run by `harness/corr/c06_inv.cpp` (labelled partial).

* `Gen.M22/M33/M44.inverse`, `.invert` are regenerated on every run from the non-throwing C++ bodies
  (T = Sym path extraction); `tmin` is `std::numeric_limits<T>::min()`.  Specification: Mathlib's
  `Matrix.det`, `Matrix.adjugate`, matrix product.  With `r = det M`: if `|r| ≥ 1`, or every cofactor
  `s` the code looks at passes `|r| / tmin > |s|`, the result is `r⁻¹ • adjugate M`; otherwise the
  identity.  Hence a two-sided inverse when the guards pass (which forces `det M ≠ 0`), the identity
  when `det M = 0`.  No hypothesis on `tmin` is needed (`0 / tmin = 0` whatever `tmin`); the
  examples instantiate `tmin > 0`.
  The affine arms (last column `(0,…,0,1)`) look only at the cofactors of the LINEAR block; when they
  accept, their result is the general `det⁻¹ • adjugate` of the full matrix (`…_affine_eq_general`):
  no jump in exact arithmetic.
* `Matrix44::inverse` of a non-affine matrix is `gjInverse` (opaque call of the hand model).
* Gauss-Jordan (`Model/GaussJordan.lean`, tied to the real code bit for bit by the correspondence
  harness), for EVERY dimension `n` (so n = 3 and n = 4 in particular, nothing left `_partial`):
  `s * M = t` is preserved by every row swap / axpy / scale step of both loops (folds over the index
  lists), the final `t` is the identity when no pivot is zero, hence `s * M = 1 = M * s`; an exit
  (zero pivot after partial pivoting / zero diagonal element) happens IF AND ONLY IF `det M = 0`,
  and then the identity is returned (`std::invalid_argument` by the throwing form).
-/
set_option linter.unusedSectionVars false
set_option linter.unnecessarySeqFocus false
set_option linter.unreachableTactic false
set_option linter.unusedTactic false
set_option linter.unusedSimpArgs false
namespace ImathVerif.C06
open ImathVerif Matrix GJ

variable {α : Type} [Field α] [LinearOrder α] [IsStrictOrderedRing α]

/-! ## Matrix22 -/

/-- `Matrix22::inverse()`: `adj/det` when `|det| ≥ 1` or all four guards `|det|/tmin > |s_ij|` pass, else identity -/
theorem M22_inverse_spec (tmin : α) (a : M22 α) :
    (Gen.M22.inverse tmin a).toMat =
      if 1 ≤ |a.toMat.det| ∨ ∀ i j, |a.toMat.adjugate i j| < |a.toMat.det| / tmin
      then (a.toMat.det)⁻¹ • a.toMat.adjugate else 1 := by
  rw [M22_det_canon]
  simp only [Gen.M22.inverse, sabs_eq_abs, div_eq_mul_inv, one_mul, ← ite_and, ite_or_else, apply_ite M22.toMat]
  refine if_congr (or_congr (one_le_congr (by ring1)) ?_) ?_ ?_
  · simp [Fin.forall_fin_two, Matrix.adjugate_fin_two, M22.toMat, and_assoc]
    first | done | guards4
  · ext i j; fin_cases i <;> fin_cases j <;> simp [M22.toMat, Matrix.adjugate_fin_two] <;>
      first | ring1 | exact Or.inl (by ring1)
  · ext i j; fin_cases i <;> fin_cases j <;> simp [M22.toMat]

/-- guards pass ⇒ `det ≠ 0` and the result is a two-sided inverse -/
theorem M22_inverse_mul (tmin : α) (a : M22 α)
    (hg : 1 ≤ |a.toMat.det| ∨ ∀ i j, |a.toMat.adjugate i j| < |a.toMat.det| / tmin) :
    a.toMat.det ≠ 0 ∧ a.toMat * (Gen.M22.inverse tmin a).toMat = 1 ∧ (Gen.M22.inverse tmin a).toMat * a.toMat = 1 := by
  have hd : a.toMat.det ≠ 0 := det_ne_zero_of_guard (s := a.toMat.adjugate 0 0) (tmin := tmin) (hg.imp id fun h => h 0 0)
  rw [M22_inverse_spec, if_pos hg]
  exact ⟨hd, mul_inv_smul_adjugate _ hd⟩

/-- `det M = 0` ⇒ the identity (the guard reads `0 > |s|`) -/
theorem M22_inverse_singular (tmin : α) (a : M22 α) (h : a.toMat.det = 0) : (Gen.M22.inverse tmin a).toMat = 1 := by
  rw [M22_inverse_spec, h, if_neg]
  rintro (h1 | h1)
  · simp at h1; linarith
  · have := h1 0 0; simp at this; exact absurd this (not_lt.mpr (abs_nonneg _))

/-- `invert()` leaves exactly what `inverse()` returns -/
theorem M22_invert_eq_inverse (tmin : α) (a : M22 α) : Gen.M22.invert tmin a = Gen.M22.inverse tmin a := rfl

example : (1 : ℚ) ≤ |(⟨2, 1, 1, 1⟩ : M22 ℚ).toMat.det| := by simp [M22.toMat, Matrix.det_fin_two]; norm_num
/-- the guarded branch is not vacuous: `|det| = 1/2 < 1`, all four guards pass with `tmin = 2⁻¹⁰` -/
example : ¬ (1 : ℚ) ≤ |(⟨1, 0, 0, 1 / 2⟩ : M22 ℚ).toMat.det| ∧
    ∀ i j, |(⟨1, 0, 0, 1 / 2⟩ : M22 ℚ).toMat.adjugate i j| < |(⟨1, 0, 0, 1 / 2⟩ : M22 ℚ).toMat.det| / (1 / 1024) := by
  constructor
  · simp [M22.toMat, Matrix.det_fin_two]; norm_num
  · intro i j; fin_cases i <;> fin_cases j <;> simp [M22.toMat, Matrix.det_fin_two, Matrix.adjugate_fin_two] <;> norm_num

/-! ## Matrix33 -/

/-- general arm (last column not `(0,0,1)`): nine cofactor guards -/
theorem M33_inverse_spec (tmin : α) (a : M33 α) (hna : ¬ a.IsAffine) :
    (Gen.M33.inverse tmin a).toMat =
      if 1 ≤ |a.toMat.det| ∨ ∀ i j, |a.toMat.adjugate i j| < |a.toMat.det| / tmin
      then (a.toMat.det)⁻¹ • a.toMat.adjugate else 1 := by
  unfold M33.IsAffine at hna
  rw [M33_det_canon]
  simp only [Gen.M33.inverse, sabs_eq_abs, div_eq_mul_inv, one_mul, ← ite_and, ite_or_else, apply_ite M33.toMat, if_neg hna]
  refine if_congr (or_congr (one_le_congr (by ring1)) ?_) ?_ ?_
  · simp [Fin.forall_fin_succ, Matrix.adjugate_fin_three, M33.toMat, and_assoc]
    first | done | guards9
  · ext i j; fin_cases i <;> fin_cases j <;> simp [M33.toMat, Matrix.adjugate_fin_three] <;>
      first | ring1 | exact Or.inl (by ring1)
  · ext i j; fin_cases i <;> fin_cases j <;> simp [M33.toMat]

/-- affine arm (last column `(0,0,1)`): only the four cofactors of the 2×2 linear block are guarded; when accepted the
result is the general `det⁻¹ • adjugate` of the full 3×3 matrix -/
theorem M33_inverse_affine_spec (tmin : α) (a : M33 α) (ha : a.IsAffine) :
    (Gen.M33.inverse tmin a).toMat =
      if 1 ≤ |a.toMat.det| ∨ ∀ i j, |a.linear.toMat.adjugate i j| < |a.toMat.det| / tmin
      then (a.toMat.det)⁻¹ • a.toMat.adjugate else 1 := by
  have ha' := ha
  obtain ⟨h02, h12, h22⟩ := ha'
  have hdet : a.toMat.det = a.x00 * a.x11 - a.x01 * a.x10 := by rw [M33_det_canon, h02, h12, h22]; ring
  unfold M33.IsAffine at ha
  rw [hdet]
  simp only [Gen.M33.inverse, sabs_eq_abs, div_eq_mul_inv, one_mul, ← ite_and, ite_or_else, apply_ite M33.toMat, if_pos ha]
  refine if_ctx_congr (or_congr (one_le_congr (by ring1)) ?_) (fun hg => ?_) (fun _ => ?_)
  · simp [Fin.forall_fin_two, Matrix.adjugate_fin_two, M33.linear, M22.toMat, and_assoc]
    first | done | guards4
  · have hd : a.x00 * a.x11 - a.x01 * a.x10 ≠ 0 :=
      det_ne_zero_of_guard_mul (s := a.linear.toMat.adjugate 0 0) (hg.imp id fun h => h 0 0)
    rw [← hdet]
    apply eq_inv_smul_adjugate_of_mul_eq_one
    ext i j; fin_cases i <;> fin_cases j <;>
      simp [M33.toMat, Matrix.mul_apply, Fin.sum_univ_three, h02, h12, h22] <;>
      first | ring1 | invtac α (a.x00 * a.x11 - a.x01 * a.x10) hd
  · ext i j; fin_cases i <;> fin_cases j <;> simp [M33.toMat]

/-- no jump in exact arithmetic: an affine matrix accepted by the fast path gets the general cofactor formula -/
theorem M33_affine_eq_general (tmin : α) (a : M33 α) (ha : a.IsAffine)
    (hg : 1 ≤ |a.toMat.det| ∨ ∀ i j, |a.linear.toMat.adjugate i j| < |a.toMat.det| / tmin) :
    (Gen.M33.inverse tmin a).toMat = (a.toMat.det)⁻¹ • a.toMat.adjugate := by
  rw [M33_inverse_affine_spec tmin a ha, if_pos hg]

/-- whichever arm: `|det| ≥ 1` ⇒ `det⁻¹ • adjugate` -/
theorem M33_inverse_of_one_le_abs_det (tmin : α) (a : M33 α) (h : 1 ≤ |a.toMat.det|) :
    (Gen.M33.inverse tmin a).toMat = (a.toMat.det)⁻¹ • a.toMat.adjugate := by
  by_cases ha : a.IsAffine
  · rw [M33_inverse_affine_spec tmin a ha, if_pos (Or.inl h)]
  · rw [M33_inverse_spec tmin a ha, if_pos (Or.inl h)]

/-- the guards of the arm taken pass ⇒ `det ≠ 0` and the result is a two-sided inverse -/
theorem M33_inverse_mul (tmin : α) (a : M33 α)
    (hga : a.IsAffine → 1 ≤ |a.toMat.det| ∨ ∀ i j, |a.linear.toMat.adjugate i j| < |a.toMat.det| / tmin)
    (hgn : ¬ a.IsAffine → 1 ≤ |a.toMat.det| ∨ ∀ i j, |a.toMat.adjugate i j| < |a.toMat.det| / tmin) :
    a.toMat.det ≠ 0 ∧ a.toMat * (Gen.M33.inverse tmin a).toMat = 1 ∧ (Gen.M33.inverse tmin a).toMat * a.toMat = 1 := by
  by_cases ha : a.IsAffine
  · have hg := hga ha
    have hd : a.toMat.det ≠ 0 := det_ne_zero_of_guard (s := a.linear.toMat.adjugate 0 0) (tmin := tmin) (hg.imp id fun h => h 0 0)
    rw [M33_inverse_affine_spec tmin a ha, if_pos hg]
    exact ⟨hd, mul_inv_smul_adjugate _ hd⟩
  · have hg := hgn ha
    have hd : a.toMat.det ≠ 0 := det_ne_zero_of_guard (s := a.toMat.adjugate 0 0) (tmin := tmin) (hg.imp id fun h => h 0 0)
    rw [M33_inverse_spec tmin a ha, if_pos hg]
    exact ⟨hd, mul_inv_smul_adjugate _ hd⟩

theorem M33_inverse_singular (tmin : α) (a : M33 α) (h : a.toMat.det = 0) : (Gen.M33.inverse tmin a).toMat = 1 := by
  by_cases ha : a.IsAffine
  · rw [M33_inverse_affine_spec tmin a ha, h, if_neg]
    rintro (h1 | h1)
    · simp at h1; linarith
    · have := h1 0 0; simp at this; exact absurd this (not_lt.mpr (abs_nonneg _))
  · rw [M33_inverse_spec tmin a ha, h, if_neg]
    rintro (h1 | h1)
    · simp at h1; linarith
    · have := h1 0 0; simp at this; exact absurd this (not_lt.mpr (abs_nonneg _))

theorem M33_invert_eq_inverse (tmin : α) (a : M33 α) : Gen.M33.invert tmin a = Gen.M33.inverse tmin a := rfl

/-- a non-affine invertible matrix over ℚ with `|det| = 2 ≥ 1` -/
example : ¬ (⟨1, 0, 1, 0, 1, 0, 0, 0, 2⟩ : M33 ℚ).IsAffine ∧ (1 : ℚ) ≤ |(⟨1, 0, 1, 0, 1, 0, 0, 0, 2⟩ : M33 ℚ).toMat.det| := by
  constructor
  · simp [M33.IsAffine]
  · simp [M33.toMat, Matrix.det_fin_three]
/-- an affine matrix (scale 1/2, translation (3,4)) with `|det| = 1/4 < 1` whose four block guards pass with `tmin = 2⁻¹⁰` -/
example : (⟨1 / 2, 0, 0, 0, 1 / 2, 0, 3, 4, 1⟩ : M33 ℚ).IsAffine ∧
    ∀ i j, |(⟨1 / 2, 0, 0, 0, 1 / 2, 0, 3, 4, 1⟩ : M33 ℚ).linear.toMat.adjugate i j|
      < |(⟨1 / 2, 0, 0, 0, 1 / 2, 0, 3, 4, 1⟩ : M33 ℚ).toMat.det| / (1 / 1024) := by
  constructor
  · simp [M33.IsAffine]
  · intro i j
    fin_cases i <;> fin_cases j <;>
      simp [M33.toMat, M33.linear, M22.toMat, Matrix.det_fin_three, Matrix.adjugate_fin_two] <;> norm_num

/-! ## Matrix44 -/

/-- determinant of an affine 4×4 matrix = determinant of its linear block -/
theorem M44_det_affine (a : M44 α) (ha : a.IsAffine) : a.toMat.det = a.linear.toMat.det := by
  obtain ⟨h03, h13, h23, h33⟩ := ha
  rw [det_fin_four]
  simp [M44.toMat, M44.linear, M33.toMat, Matrix.det_fin_three, h03, h13, h23, h33]
  ring

/-- affine arm of `Matrix44::inverse()` (last column `(0,0,0,1)`): nine guards on the cofactors of the 3×3 linear block;
when accepted the result is `det⁻¹ • adjugate` of the FULL 4×4 matrix (Mathlib's adjugate): the general formula -/
theorem M44_inverse_affine_spec (tmin : α) (a : M44 α) (ha : a.IsAffine) :
    (Gen.M44.inverse tmin a).toMat =
      if 1 ≤ |a.toMat.det| ∨ ∀ i j, |a.linear.toMat.adjugate i j| < |a.toMat.det| / tmin
      then (a.toMat.det)⁻¹ • a.toMat.adjugate else 1 := by
  have hdet : a.toMat.det = a.x00 * a.x11 * a.x22 - a.x00 * a.x12 * a.x21 - a.x01 * a.x10 * a.x22 + a.x01 * a.x12 * a.x20
      + a.x02 * a.x10 * a.x21 - a.x02 * a.x11 * a.x20 := by
    rw [M44_det_affine a ha, M33_det_canon]; rfl
  have ha' := ha
  obtain ⟨h03, h13, h23, h33⟩ := ha'
  unfold M44.IsAffine at ha
  rw [hdet]
  simp only [Gen.M44.inverse, sabs_eq_abs, div_eq_mul_inv, one_mul, ← ite_and, ite_or_else, apply_ite M44.toMat, if_pos ha]
  refine if_ctx_congr (or_congr (one_le_congr (by ring1)) ?_) (fun hg => ?_) (fun _ => ?_)
  · simp [Fin.forall_fin_succ, Matrix.adjugate_fin_three, M44.linear, M33.toMat, and_assoc]
    first | done | guards9
  · have hd : a.x00 * a.x11 * a.x22 - a.x00 * a.x12 * a.x21 - a.x01 * a.x10 * a.x22 + a.x01 * a.x12 * a.x20
        + a.x02 * a.x10 * a.x21 - a.x02 * a.x11 * a.x20 ≠ 0 :=
      det_ne_zero_of_guard_mul (s := a.linear.toMat.adjugate 0 0) (hg.imp id fun h => h 0 0)
    rw [← hdet]
    apply eq_inv_smul_adjugate_of_mul_eq_one
    ext i j; fin_cases i <;> fin_cases j <;>
      simp [M44.toMat, Matrix.mul_apply, Fin.sum_univ_four, h03, h13, h23, h33] <;>
      first | ring1 | invtac α (a.x00 * a.x11 * a.x22 - a.x00 * a.x12 * a.x21 - a.x01 * a.x10 * a.x22 + a.x01 * a.x12 * a.x20
        + a.x02 * a.x10 * a.x21 - a.x02 * a.x11 * a.x20) hd
  · ext i j; fin_cases i <;> fin_cases j <;> simp [M44.toMat]

/-- no jump in exact arithmetic: the fast path equals the general `det⁻¹ • adjugate` -/
theorem M44_affine_eq_general (tmin : α) (a : M44 α) (ha : a.IsAffine)
    (hg : 1 ≤ |a.toMat.det| ∨ ∀ i j, |a.linear.toMat.adjugate i j| < |a.toMat.det| / tmin) :
    (Gen.M44.inverse tmin a).toMat = (a.toMat.det)⁻¹ • a.toMat.adjugate := by
  rw [M44_inverse_affine_spec tmin a ha, if_pos hg]

/-- non-affine arm: `Matrix44::inverse()` IS `gjInverse()` (the hand model, see below) -/
theorem M44_inverse_nonaffine (tmin : α) (a : M44 α) (hna : ¬ a.IsAffine) : Gen.M44.inverse tmin a = a.gjInverse := by
  unfold M44.IsAffine at hna
  simp only [Gen.M44.inverse, ← ite_and, if_neg hna]

theorem M44_invert_eq_inverse (tmin : α) (a : M44 α) : Gen.M44.invert tmin a = Gen.M44.inverse tmin a := rfl

/-- affine 4×4 (scale 1/2, translation (3,4,5)): `|det| = 1/8 < 1`, the nine block guards pass with `tmin = 2⁻¹⁰` -/
example : (⟨1 / 2, 0, 0, 0, 0, 1 / 2, 0, 0, 0, 0, 1 / 2, 0, 3, 4, 5, 1⟩ : M44 ℚ).IsAffine ∧
    ∀ i j, |(⟨1 / 2, 0, 0, 0, 0, 1 / 2, 0, 0, 0, 0, 1 / 2, 0, 3, 4, 5, 1⟩ : M44 ℚ).linear.toMat.adjugate i j|
      < |(⟨1 / 2, 0, 0, 0, 0, 1 / 2, 0, 0, 0, 0, 1 / 2, 0, 3, 4, 5, 1⟩ : M44 ℚ).toMat.det| / (1 / 1024) := by
  constructor
  · simp [M44.IsAffine]
  · intro i j
    rw [M44_det_affine _ (by simp [M44.IsAffine])]
    fin_cases i <;> fin_cases j <;>
      simp [M44.linear, M33.toMat, Matrix.det_fin_three, Matrix.adjugate_fin_three] <;> norm_num

/-! ## Gauss-Jordan (`gjInverse`), every dimension -/

section GaussJordan
variable [BEq α] [LawfulBEq α] {n : Nat}

/-- INVARIANT, forward loop (fold over `fwdIdx n = [0,…,n-2]`): `s * M = t` after all row swaps / eliminations, `t` upper triangular -/
theorem gj_forward_invariant (M : Mat n α) (st : Mat n α × Mat n α)
    (h : (fwdIdx n).foldlM forwardStep (Mat.identity, M) = some st) :
    st.1.toMatrix * M.toMatrix = st.2.toMatrix ∧ st.2.toMatrix.IsUpperTriangular := by
  obtain ⟨h1, _, h3⟩ := forward_fold M st h
  exact ⟨h1, fun r c hcr => h3 c r hcr⟩

/-- INVARIANT, backward loop (fold over `bwdIdx n = [n-1,…,0]`) from any state with `s * M = t`, `t` upper triangular:
`s * M = t` still holds at the end and the final `t` is the identity -/
theorem gj_backward_invariant (M : Matrix (Fin n) (Fin n) α) (st st' : Mat n α × Mat n α)
    (h1 : st.1.toMatrix * M = st.2.toMatrix) (h2 : DetRel M st.2) (h3 : Upper st.2)
    (h : (bwdIdx n).foldlM backwardStep st = some st') :
    st'.1.toMatrix * M = st'.2.toMatrix ∧ st'.2.toMatrix = 1 :=
  backward_fold M st st' h1 h2 h3 h

/-- no pivot zero ⇒ the result is a two-sided inverse -/
theorem gj_some (M s : Mat n α) (h : gjCore M = some s) : s.toMatrix * M.toMatrix = 1 ∧ M.toMatrix * s.toMatrix = 1 :=
  gjCore_some M s h

/-- the singular exit (zero pivot after partial pivoting in the forward loop, or zero diagonal element in the backward
loop) is taken if and only if `det M = 0` -/
theorem gj_exit_iff_det_zero (M : Mat n α) : gjCore M = none ↔ M.toMatrix.det = 0 := gjCore_none_iff M

/-- a zero pivot after partial pivoting means the whole remaining column is zero -/
theorem gj_zero_pivot_column (t : Mat n α) (i : Fin n) (h : (pivotSearch t i).2 = 0) : ∀ r, i ≤ r → t.get r i = 0 := by
  intro r hr
  have := (pivotSearch_spec t i).2.2 r hr
  rw [h] at this
  exact abs_nonpos_iff.mp this

theorem M33_gjInverse_spec (a : M33 α) (h : a.toMat.det ≠ 0) :
    a.gjInverse.toMat * a.toMat = 1 ∧ a.toMat * a.gjInverse.toMat = 1 := by
  unfold M33.gjInverse
  cases hc : gjCore a.toGJ with
  | none => exact absurd ((gjCore_none_iff _).mp hc) (by rwa [M33_toGJ_toMatrix])
  | some s =>
    have := gjCore_some _ s hc
    rw [M33_toGJ_toMatrix] at this
    simpa [M33_ofGJ_toMat] using this

theorem M33_gjInverse_singular (a : M33 α) (h : a.toMat.det = 0) : a.gjInverse = M33.identity := by
  unfold M33.gjInverse
  rw [(gjCore_none_iff a.toGJ).mpr (by rwa [M33_toGJ_toMatrix])]

theorem M44_gjInverse_spec (a : M44 α) (h : a.toMat.det ≠ 0) :
    a.gjInverse.toMat * a.toMat = 1 ∧ a.toMat * a.gjInverse.toMat = 1 := by
  unfold M44.gjInverse
  cases hc : gjCore a.toGJ with
  | none => exact absurd ((gjCore_none_iff _).mp hc) (by rwa [M44_toGJ_toMatrix])
  | some s =>
    have := gjCore_some _ s hc
    rw [M44_toGJ_toMatrix] at this
    simpa [M44_ofGJ_toMat] using this

theorem M44_gjInverse_singular (a : M44 α) (h : a.toMat.det = 0) : a.gjInverse = M44.identity := by
  unfold M44.gjInverse
  rw [(gjCore_none_iff a.toGJ).mpr (by rwa [M44_toGJ_toMatrix])]

/-- the throwing forms: `std::invalid_argument` exactly when `det M = 0`, otherwise the value of the non-throwing form -/
theorem M33_gjInverseExc_spec (a : M33 α) :
    (a.toMat.det = 0 → a.gjInverseExc = .error Exc.invalidArgument) ∧ (a.toMat.det ≠ 0 → a.gjInverseExc = .ok a.gjInverse) := by
  unfold M33.gjInverseExc M33.gjInverse
  constructor
  · intro h; rw [(gjCore_none_iff a.toGJ).mpr (by rwa [M33_toGJ_toMatrix])]
  · intro h
    cases hc : gjCore a.toGJ with
    | none => exact absurd ((gjCore_none_iff _).mp hc) (by rwa [M33_toGJ_toMatrix])
    | some s => rfl

theorem M44_gjInverseExc_spec (a : M44 α) :
    (a.toMat.det = 0 → a.gjInverseExc = .error Exc.invalidArgument) ∧ (a.toMat.det ≠ 0 → a.gjInverseExc = .ok a.gjInverse) := by
  unfold M44.gjInverseExc M44.gjInverse
  constructor
  · intro h; rw [(gjCore_none_iff a.toGJ).mpr (by rwa [M44_toGJ_toMatrix])]
  · intro h
    cases hc : gjCore a.toGJ with
    | none => exact absurd ((gjCore_none_iff _).mp hc) (by rwa [M44_toGJ_toMatrix])
    | some s => rfl

end GaussJordan

/-! ## Matrix44::inverse, both arms together -/

/-- `det M ≠ 0`, and (non-affine, or the affine arm's guards pass) ⇒ `inverse()` is a two-sided inverse -/
theorem M44_inverse_mul (tmin : α) (a : M44 α) (hd : a.toMat.det ≠ 0)
    (hg : a.IsAffine → 1 ≤ |a.toMat.det| ∨ ∀ i j, |a.linear.toMat.adjugate i j| < |a.toMat.det| / tmin) :
    a.toMat * (Gen.M44.inverse tmin a).toMat = 1 ∧ (Gen.M44.inverse tmin a).toMat * a.toMat = 1 := by
  by_cases ha : a.IsAffine
  · rw [M44_inverse_affine_spec tmin a ha, if_pos (hg ha)]
    exact mul_inv_smul_adjugate _ hd
  · rw [M44_inverse_nonaffine tmin a ha]
    exact (M44_gjInverse_spec a hd).symm

/-- `det M = 0` ⇒ `inverse()` returns the identity, on both arms -/
theorem M44_inverse_singular (tmin : α) (a : M44 α) (h : a.toMat.det = 0) : (Gen.M44.inverse tmin a).toMat = 1 := by
  by_cases ha : a.IsAffine
  · rw [M44_inverse_affine_spec tmin a ha, h, if_neg]
    rintro (h1 | h1)
    · simp at h1; linarith
    · have := h1 0 0; simp at this; exact absurd this (not_lt.mpr (abs_nonneg _))
  · rw [M44_inverse_nonaffine tmin a ha, M44_gjInverse_singular a h, M44_identity_toMat]

/-- Gauss-Jordan on a concrete matrix that needs a row swap at the first stage: the model returns the exact inverse -/
example : (⟨0, 1, 0, 2, 0, 0, 0, 0, 4⟩ : M33 ℚ).gjInverse = ⟨0, 1 / 2, 0, 1, 0, 0, 0, 0, 1 / 4⟩ := by decide +kernel
/-- … and the identity on a rank-deficient one (zero pivot at the last stage) -/
example : (⟨1, 2, 3, 2, 4, 6, 0, 1, 1⟩ : M33 ℚ).gjInverse = M33.identity := by decide +kernel

end ImathVerif.C06
