import ImathVerif.Spec.MatSpec
import ImathVerif.Spec.TransformSpec
import ImathVerif.Gen.C05
import ImathVerif.Gen.C09Mat
import ImathVerif.Gen.C09Frame
import ImathVerif.Lemmas.C09Lemmas
import ImathVerif.Lemmas.C08Lemmas
import ImathVerif.Lemmas.C09FrameLemmas
import ImathVerif.Lemmas.C09NextFrame
import Mathlib.Analysis.SpecialFunctions.Trigonometric.Inverse
import Mathlib.Tactic.Ring
import Mathlib.Tactic.FinCases
import Mathlib.Tactic.LinearCombination
import Mathlib.Analysis.SpecialFunctions.Trigonometric.Basic
/-!
# C09 — transform builders act as documented; in-place forms pre-multiply

`Gen.*` is regenerated from the current headers on every run (T = Sym path extraction; modules
`Gen/C09Mat`, `C09Frame`, `C09Align`, `C09Next`, `C09Quat`, `C09Up`, `C09Rot`; this file: matrices, computeLocalFrame, firstFrame,
lastFrame, addOffset; `Props/C09Align.lean`: alignZAxisWithTargetDir, rotationMatrixWithUpDir; `Props/C09Next.lean`: nextFrame;
`Props/C09Quat.lean`: rotationMatrix).  Imath matrices act on ROW vectors from the right,
so "the set* matrix on the left" (`S * M`) means: apply `S` first, then the old `M`.

* `sin`, `cos`, `acos` are arbitrary functions (parameters of the extracted definitions); where a theorem needs it,
  the only assumption is `∀ x, sin x ^ 2 + cos x ^ 2 = 1` (`example` below: `Real.sin`, `Real.cos`).
* `Vec3::length()` is the opaque `Gen.V3.length tmin tmax sqrt` (real body in `Gen/Leaf.lean`, analysed by C08); theorems
  that need it assume `LenSpec (Gen.V3.length tmin tmax sqrt)`, i.e. `len v ^ 2 = v·v ∧ 0 ≤ len v` for all `v`
  (`example` below: satisfied over ℝ with `Real.sqrt`).
* every `set*` entry also takes the CURRENT matrix `m0`; the theorems hold for all `m0`, i.e. `set*` overwrites every slot.
* rounding is not covered by these theorems (DESIGN.md §3): it is measured by the check (harness/corr/c09_residue.cpp).
-/
set_option linter.unreachableTactic false
set_option linter.unusedTactic false
set_option linter.unusedSectionVars false
set_option linter.unusedSimpArgs false
set_option linter.unusedVariables false
namespace ImathVerif.C09
open ImathVerif Matrix

/-- the trigonometric assumption is satisfiable: real sine and cosine -/
example : ∀ x : ℝ, Real.sin x ^ 2 + Real.cos x ^ 2 = 1 := Real.sin_sq_add_cos_sq

/-! ## Matrix44 set* builders: action on homogeneous row vectors (points `(p,1)` and directions `(d,0)`) -/

theorem M44_setTranslation_point {α : Type} [CommRing α] (m0 : M44 α) (t p : V3 α) :
    p.homog ᵥ* (Gen.M44.setTranslation m0 t).toMat = (vadd p t).homog := by
  ext j; fin_cases j <;> simp [Gen.M44.setTranslation, M44.toMat, V3.homog, vadd, Matrix.vecMul, dotProduct, Fin.sum_univ_four]
theorem M44_setTranslation_dir {α : Type} [CommRing α] (m0 : M44 α) (t d : V3 α) :
    d.homogDir ᵥ* (Gen.M44.setTranslation m0 t).toMat = d.homogDir := by
  ext j; fin_cases j <;> simp [Gen.M44.setTranslation, M44.toMat, V3.homogDir, Matrix.vecMul, dotProduct, Fin.sum_univ_four]
/-- `translation()` returns the translation row … -/
theorem M44_translation {α : Type} (m : M44 α) : Gen.M44.translation m = ⟨m.x30, m.x31, m.x32⟩ := rfl
/-- … in particular it reads back what `setTranslation` stored -/
theorem M44_translation_setTranslation {α : Type} [CommRing α] (m0 : M44 α) (t : V3 α) :
    Gen.M44.translation (Gen.M44.setTranslation m0 t) = t := rfl

theorem M44_setScaleV_point {α : Type} [CommRing α] (m0 : M44 α) (s p : V3 α) :
    p.homog ᵥ* (Gen.M44.setScaleV m0 s).toMat = (⟨p.x * s.x, p.y * s.y, p.z * s.z⟩ : V3 α).homog := by
  ext j; fin_cases j <;> simp [Gen.M44.setScaleV, M44.toMat, V3.homog, Matrix.vecMul, dotProduct, Fin.sum_univ_four]
theorem M44_setScaleV_dir {α : Type} [CommRing α] (m0 : M44 α) (s d : V3 α) :
    d.homogDir ᵥ* (Gen.M44.setScaleV m0 s).toMat = (⟨d.x * s.x, d.y * s.y, d.z * s.z⟩ : V3 α).homogDir := by
  ext j; fin_cases j <;> simp [Gen.M44.setScaleV, M44.toMat, V3.homogDir, Matrix.vecMul, dotProduct, Fin.sum_univ_four]
/-- the scalar overload is the vector overload with equal factors -/
theorem M44_setScaleS {α : Type} [CommRing α] (m0 : M44 α) (s : α) :
    Gen.M44.setScaleS m0 s = Gen.M44.setScaleV m0 ⟨s, s, s⟩ := rfl

/-- documented (ImathMatrix.h): "shear x for each y coord. by a factor of h[0]; x for each z coord. by h[1];
y for each z coord. by h[2]" -/
theorem M44_setShearV_point {α : Type} [CommRing α] (m0 : M44 α) (h p : V3 α) :
    p.homog ᵥ* (Gen.M44.setShearV m0 h).toMat = (⟨p.x + h.x * p.y + h.y * p.z, p.y + h.z * p.z, p.z⟩ : V3 α).homog := by
  ext j; fin_cases j <;> simp [Gen.M44.setShearV, M44.toMat, V3.homog, Matrix.vecMul, dotProduct, Fin.sum_univ_four] <;> ring
theorem M44_setShearV_dir {α : Type} [CommRing α] (m0 : M44 α) (h d : V3 α) :
    d.homogDir ᵥ* (Gen.M44.setShearV m0 h).toMat = (⟨d.x + h.x * d.y + h.y * d.z, d.y + h.z * d.z, d.z⟩ : V3 α).homogDir := by
  ext j; fin_cases j <;> simp [Gen.M44.setShearV, M44.toMat, V3.homogDir, Matrix.vecMul, dotProduct, Fin.sum_univ_four] <;> ring
/-- documented: "shear x for each y coord. by h.xy; x for each z by h.xz; y for each z by h.yz; y for each x by h.yx;
z for each x by h.zx; z for each y by h.zy" -/
theorem M44_setShear6_point {α : Type} [CommRing α] (m0 : M44 α) (h : Shear6 α) (p : V3 α) :
    p.homog ᵥ* (Gen.M44.setShear6 m0 h).toMat =
      (⟨p.x + h.xy * p.y + h.xz * p.z, p.y + h.yx * p.x + h.yz * p.z, p.z + h.zx * p.x + h.zy * p.y⟩ : V3 α).homog := by
  ext j; fin_cases j <;> simp [Gen.M44.setShear6, M44.toMat, V3.homog, Matrix.vecMul, dotProduct, Fin.sum_univ_four] <;> ring
theorem M44_setShear6_dir {α : Type} [CommRing α] (m0 : M44 α) (h : Shear6 α) (d : V3 α) :
    d.homogDir ᵥ* (Gen.M44.setShear6 m0 h).toMat =
      (⟨d.x + h.xy * d.y + h.xz * d.z, d.y + h.yx * d.x + h.yz * d.z, d.z + h.zx * d.x + h.zy * d.y⟩ : V3 α).homogDir := by
  ext j; fin_cases j <;> simp [Gen.M44.setShear6, M44.toMat, V3.homogDir, Matrix.vecMul, dotProduct, Fin.sum_univ_four] <;> ring
/-- the Vec3 overload is the Shear6 overload with `(xy, xz, yz) = h` and zero lower factors -/
theorem M44_setShearV_eq_setShear6 {α : Type} [CommRing α] (m0 : M44 α) (h : V3 α) :
    Gen.M44.setShearV m0 h = Gen.M44.setShear6 m0 ⟨h.x, h.y, h.z, 0, 0, 0⟩ := rfl

/-! ## Matrix44 rotations -/

/-- `setEulerAngles r` = (rotation about x by r.x) then (about y by r.y) then (about z by r.z), for row vectors -/
theorem M44_setEulerAngles {α : Type} [CommRing α] (sin cos : α → α) (m0 : M44 α) (r : V3 α) :
    (Gen.M44.setEulerAngles sin cos m0 r).toMat
      = rotX (sin r.x) (cos r.x) * rotY (sin r.y) (cos r.y) * rotZ (sin r.z) (cos r.z) := by
  ext i j; fin_cases i <;> fin_cases j <;>
    simp [Gen.M44.setEulerAngles, M44.toMat, rotX, rotY, rotZ, Matrix.mul_apply, Fin.sum_univ_four] <;> ring
/-- … and it is a rotation: orthonormal rows, determinant +1, affine -/
theorem M44_setEulerAngles_rotation {α : Type} [CommRing α] (sin cos : α → α)
    (hsc : ∀ x, sin x ^ 2 + cos x ^ 2 = 1) (m0 : M44 α) (r : V3 α) :
    IsFrame (Gen.M44.setEulerAngles sin cos m0 r) ∧ row3 (Gen.M44.setEulerAngles sin cos m0 r) = ⟨0, 0, 0⟩ := by
  refine ⟨⟨?_, ⟨rfl, rfl, rfl, rfl⟩⟩, rfl⟩
  have e : rot3 (Gen.M44.setEulerAngles sin cos m0 r) = rx3 (sin r.x) (cos r.x) * ry3 (sin r.y) (cos r.y) * rz3 (sin r.z) (cos r.z) := by
    ext i j; fin_cases i <;> fin_cases j <;>
      simp [Gen.M44.setEulerAngles, rot3, rx3, ry3, rz3, Matrix.mul_apply, Fin.sum_univ_three] <;> ring
  rw [e]
  exact ((isRot_rx3 (hsc _)).mul (isRot_ry3 (hsc _))).mul (isRot_rz3 (hsc _))

/-- in-place `rotate r` = `setEulerAngles r` on the LEFT of the current (arbitrary) matrix -/
theorem M44_rotate {α : Type} [CommRing α] (sin cos : α → α) (m m0 : M44 α) (r : V3 α) :
    (Gen.M44.rotate sin cos m r).toMat = (Gen.M44.setEulerAngles sin cos m0 r).toMat * m.toMat := by
  ext i j; fin_cases i <;> fin_cases j <;>
    simp [Gen.M44.rotate, Gen.M44.setEulerAngles, M44.toMat, Matrix.mul_apply, Fin.sum_univ_four] <;> ring

/-- the `LenSpec` assumption on the extracted `Vec3::length` holds whenever `sqrt` is a square root on the non-negatives, for ALL limits
`tmin`, `tmax` (this is C08's theorem `V3_length_sq` about the real body of `length()`, `lengthTiny` included) … -/
theorem lenSpec_of_sqrt {α : Type} [Field α] [LinearOrder α] [IsStrictOrderedRing α] (tmin tmax : α) (sqrt : α → α)
    (hsqrt : ∀ x, 0 ≤ x → sqrt x * sqrt x = x ∧ 0 ≤ sqrt x) : LenSpec (Gen.V3.length tmin tmax sqrt) := by
  intro v
  obtain ⟨h1, h2⟩ := C08.V3_length_sq tmin tmax hsqrt v
  exact ⟨by rw [pow_two, h1]; rfl, h2⟩
/-- … in particular over ℝ with `Real.sqrt` -/
example (tmin tmax : ℝ) : LenSpec (Gen.V3.length tmin tmax Real.sqrt) :=
  lenSpec_of_sqrt tmin tmax Real.sqrt (fun x hx => ⟨Real.mul_self_sqrt hx, Real.sqrt_nonneg x⟩)

/-- non-zero-axis path of the extracted `setAxisAngle`: it writes `axisAngleM44` (TransformSpec), the axis/angle matrix of the
normalised axis -/
theorem M44_setAxisAngle_eq_of_len {α : Type} [Field α] [LinearOrder α] [IsStrictOrderedRing α]
    (tmin tmax : α) (sqrt sin cos : α → α) (m0 : M44 α) (axis : V3 α) (angle : α) (h : Gen.V3.length tmin tmax sqrt axis ≠ 0) :
    Gen.M44.setAxisAngle tmin tmax sqrt sin cos m0 axis angle
      = axisAngleM44 (Gen.V3.length tmin tmax sqrt) (sin angle) (cos angle) axis := by
  obtain ⟨x, y, z⟩ := axis
  unfold axisAngleM44
  rw [nrm_of_ne h]
  simp only [Gen.M44.setAxisAngle, if_neg h]
  unfold frameM44 aaRow0 aaRow1 aaRow2
  congr 1 <;> ring1
theorem M44_setAxisAngle_eq {α : Type} [Field α] [LinearOrder α] [IsStrictOrderedRing α]
    (tmin tmax : α) (sqrt sin cos : α → α) (hlen : LenSpec (Gen.V3.length tmin tmax sqrt)) (m0 : M44 α) (axis : V3 α) (angle : α)
    (hax : axis ≠ ⟨0, 0, 0⟩) :
    Gen.M44.setAxisAngle tmin tmax sqrt sin cos m0 axis angle = axisAngleM44 (Gen.V3.length tmin tmax sqrt) (sin angle) (cos angle) axis :=
  M44_setAxisAngle_eq_of_len tmin tmax sqrt sin cos m0 axis angle (len_ne_zero hlen hax)

/-- `setAxisAngle axis angle` for ANY non-zero axis is a rotation (orthonormal rows, det +1), affine, no translation -/
theorem M44_setAxisAngle_rotation {α : Type} [Field α] [LinearOrder α] [IsStrictOrderedRing α]
    (tmin tmax : α) (sqrt sin cos : α → α) (hlen : LenSpec (Gen.V3.length tmin tmax sqrt))
    (hsc : ∀ x, sin x ^ 2 + cos x ^ 2 = 1) (m0 : M44 α) (axis : V3 α) (angle : α) (hax : axis ≠ ⟨0, 0, 0⟩) :
    IsFrame (Gen.M44.setAxisAngle tmin tmax sqrt sin cos m0 axis angle) ∧
      row3 (Gen.M44.setAxisAngle tmin tmax sqrt sin cos m0 axis angle) = ⟨0, 0, 0⟩ := by
  have h := mt (len_eq_zero_iff hlen axis).mp hax
  rw [M44_setAxisAngle_eq_of_len tmin tmax sqrt sin cos m0 axis angle h]
  exact axisAngleM44_isFrame hlen (hsc angle) h
example : (⟨1, 2, 2⟩ : V3 ℝ) ≠ ⟨0, 0, 0⟩ := by simp

/-- … it turns every point `p` about the normalised axis `u = axis/|axis|` by `angle` (Rodrigues' formula, right-hand rule):
`p ↦ cos·p + (1 − cos)(u·p) u + sin·(u × p)` -/
theorem M44_setAxisAngle_point {α : Type} [Field α] [LinearOrder α] [IsStrictOrderedRing α]
    (tmin tmax : α) (sqrt sin cos : α → α) (hlen : LenSpec (Gen.V3.length tmin tmax sqrt))
    (m0 : M44 α) (axis : V3 α) (angle : α) (hax : axis ≠ ⟨0, 0, 0⟩) (p : V3 α) :
    p.homog ᵥ* (Gen.M44.setAxisAngle tmin tmax sqrt sin cos m0 axis angle).toMat
      = (rodrigues (sin angle) (cos angle) (nrm (Gen.V3.length tmin tmax sqrt) axis) p).homog := by
  have h := mt (len_eq_zero_iff hlen axis).mp hax
  rw [M44_setAxisAngle_eq_of_len tmin tmax sqrt sin cos m0 axis angle h, ← axisAngle_apply]
  unfold axisAngleM44
  ext j; fin_cases j <;>
    simp [frameM44, M44.toMat, V3.homog, vadd, smul, Matrix.vecMul, dotProduct, Fin.sum_univ_four]
/-- … and leaves the axis itself fixed -/
theorem M44_setAxisAngle_axis_fixed {α : Type} [Field α] [LinearOrder α] [IsStrictOrderedRing α]
    (tmin tmax : α) (sqrt sin cos : α → α) (hlen : LenSpec (Gen.V3.length tmin tmax sqrt))
    (m0 : M44 α) (axis : V3 α) (angle : α) (hax : axis ≠ ⟨0, 0, 0⟩) :
    axis.homogDir ᵥ* (Gen.M44.setAxisAngle tmin tmax sqrt sin cos m0 axis angle).toMat = axis.homogDir := by
  have h := mt (len_eq_zero_iff hlen axis).mp hax
  have hu := nrm_unit hlen h
  have hfix := rodrigues_axis (s := sin angle) (c := cos angle) hu
  rw [← axisAngle_apply, nrm_of_ne h] at hfix
  rw [M44_setAxisAngle_eq_of_len tmin tmax sqrt sin cos m0 axis angle h]
  unfold axisAngleM44
  rw [nrm_of_ne h]
  simp only [vadd, smul, V3.mk.injEq] at hfix
  obtain ⟨h1, h2, h3⟩ := hfix
  have hl : Gen.V3.length tmin tmax sqrt axis ≠ 0 := h
  ext j; fin_cases j <;>
    simp [frameM44, M44.toMat, V3.homogDir, Matrix.vecMul, dotProduct, Fin.sum_univ_four]
  · field_simp at h1 ⊢; linear_combination h1
  · field_simp at h2 ⊢; linear_combination h2
  · field_simp at h3 ⊢; linear_combination h3

/-- about the coordinate axes `setAxisAngle` gives the axis rotations used by `setEulerAngles` … -/
theorem M44_setAxisAngle_X {α : Type} [Field α] [LinearOrder α] [IsStrictOrderedRing α]
    (tmin tmax : α) (sqrt sin cos : α → α) (hlen : LenSpec (Gen.V3.length tmin tmax sqrt)) (m0 : M44 α) (angle : α) :
    (Gen.M44.setAxisAngle tmin tmax sqrt sin cos m0 ⟨1, 0, 0⟩ angle).toMat = rotX (sin angle) (cos angle) := by
  have h1 : Gen.V3.length tmin tmax sqrt ⟨1, 0, 0⟩ = 1 := len_eq_one hlen (by simp [dot])
  rw [M44_setAxisAngle_eq_of_len tmin tmax sqrt sin cos m0 _ angle (by rw [h1]; exact one_ne_zero)]
  unfold axisAngleM44
  rw [nrm_of_ne (by rw [h1]; exact one_ne_zero), h1]
  ext i j; fin_cases i <;> fin_cases j <;> simp [frameM44, aaRow0, aaRow1, aaRow2, M44.toMat, rotX]
theorem M44_setAxisAngle_Y {α : Type} [Field α] [LinearOrder α] [IsStrictOrderedRing α]
    (tmin tmax : α) (sqrt sin cos : α → α) (hlen : LenSpec (Gen.V3.length tmin tmax sqrt)) (m0 : M44 α) (angle : α) :
    (Gen.M44.setAxisAngle tmin tmax sqrt sin cos m0 ⟨0, 1, 0⟩ angle).toMat = rotY (sin angle) (cos angle) := by
  have h1 : Gen.V3.length tmin tmax sqrt ⟨0, 1, 0⟩ = 1 := len_eq_one hlen (by simp [dot])
  rw [M44_setAxisAngle_eq_of_len tmin tmax sqrt sin cos m0 _ angle (by rw [h1]; exact one_ne_zero)]
  unfold axisAngleM44
  rw [nrm_of_ne (by rw [h1]; exact one_ne_zero), h1]
  ext i j; fin_cases i <;> fin_cases j <;> simp [frameM44, aaRow0, aaRow1, aaRow2, M44.toMat, rotY]
theorem M44_setAxisAngle_Z {α : Type} [Field α] [LinearOrder α] [IsStrictOrderedRing α]
    (tmin tmax : α) (sqrt sin cos : α → α) (hlen : LenSpec (Gen.V3.length tmin tmax sqrt)) (m0 : M44 α) (angle : α) :
    (Gen.M44.setAxisAngle tmin tmax sqrt sin cos m0 ⟨0, 0, 1⟩ angle).toMat = rotZ (sin angle) (cos angle) := by
  have h1 : Gen.V3.length tmin tmax sqrt ⟨0, 0, 1⟩ = 1 := len_eq_one hlen (by simp [dot])
  rw [M44_setAxisAngle_eq_of_len tmin tmax sqrt sin cos m0 _ angle (by rw [h1]; exact one_ne_zero)]
  unfold axisAngleM44
  rw [nrm_of_ne (by rw [h1]; exact one_ne_zero), h1]
  ext i j; fin_cases i <;> fin_cases j <;> simp [frameM44, aaRow0, aaRow1, aaRow2, M44.toMat, rotZ]
/-- … so `setEulerAngles r` = `setAxisAngle x̂ r.x` · `setAxisAngle ŷ r.y` · `setAxisAngle ẑ r.z` (documented XYZ order) -/
theorem M44_setEulerAngles_eq_axisAngles {α : Type} [Field α] [LinearOrder α] [IsStrictOrderedRing α]
    (tmin tmax : α) (sqrt sin cos : α → α) (hlen : LenSpec (Gen.V3.length tmin tmax sqrt)) (m0 m1 m2 m3 : M44 α) (r : V3 α) :
    (Gen.M44.setEulerAngles sin cos m0 r).toMat
      = (Gen.M44.setAxisAngle tmin tmax sqrt sin cos m1 ⟨1, 0, 0⟩ r.x).toMat
        * (Gen.M44.setAxisAngle tmin tmax sqrt sin cos m2 ⟨0, 1, 0⟩ r.y).toMat
        * (Gen.M44.setAxisAngle tmin tmax sqrt sin cos m3 ⟨0, 0, 1⟩ r.z).toMat := by
  rw [M44_setEulerAngles, M44_setAxisAngle_X _ _ _ _ _ hlen, M44_setAxisAngle_Y _ _ _ _ _ hlen, M44_setAxisAngle_Z _ _ _ _ _ hlen]

/-! ## Matrix44 in-place forms, for an ARBITRARY current matrix `m` (all 16 entries free): `set*(…) * m` -/

theorem M44_translate {α : Type} [CommRing α] (m m0 : M44 α) (t : V3 α) :
    (Gen.M44.translate m t).toMat = (Gen.M44.setTranslation m0 t).toMat * m.toMat := by
  ext i j; fin_cases i <;> fin_cases j <;>
    simp [Gen.M44.translate, Gen.M44.setTranslation, M44.toMat, Matrix.mul_apply, Fin.sum_univ_four] <;> ring
/-- the reference returned by `translate` is the updated matrix -/
theorem M44_translateRet {α : Type} [CommRing α] (m : M44 α) (t : V3 α) :
    Gen.M44.translateRet m t = Gen.M44.translate m t := by
  unfold Gen.M44.translateRet Gen.M44.translate; congr 1 <;> ring1
theorem M44_scale {α : Type} [CommRing α] (m m0 : M44 α) (s : V3 α) :
    (Gen.M44.scale m s).toMat = (Gen.M44.setScaleV m0 s).toMat * m.toMat := by
  ext i j; fin_cases i <;> fin_cases j <;>
    simp [Gen.M44.scale, Gen.M44.setScaleV, M44.toMat, Matrix.mul_apply, Fin.sum_univ_four] <;> ring
theorem M44_shearV {α : Type} [CommRing α] (m m0 : M44 α) (h : V3 α) :
    (Gen.M44.shearV m h).toMat = (Gen.M44.setShearV m0 h).toMat * m.toMat := by
  ext i j; fin_cases i <;> fin_cases j <;>
    simp [Gen.M44.shearV, Gen.M44.setShearV, M44.toMat, Matrix.mul_apply, Fin.sum_univ_four] <;> ring
theorem M44_shear6 {α : Type} [CommRing α] (m m0 : M44 α) (h : Shear6 α) :
    (Gen.M44.shear6 m h).toMat = (Gen.M44.setShear6 m0 h).toMat * m.toMat := by
  ext i j; fin_cases i <;> fin_cases j <;>
    simp [Gen.M44.shear6, Gen.M44.setShear6, M44.toMat, Matrix.mul_apply, Fin.sum_univ_four] <;> ring
/-- the same statements through the extracted product `Matrix44::operator*` of C05 -/
theorem M44_translate_mul {α : Type} [CommRing α] (m m0 : M44 α) (t : V3 α) :
    Gen.M44.translate m t = Gen.M44.mul (Gen.M44.setTranslation m0 t) m := by
  unfold Gen.M44.translate Gen.M44.mul Gen.M44.setTranslation; congr 1 <;> ring1
theorem M44_shear6_mul {α : Type} [CommRing α] (m m0 : M44 α) (h : Shear6 α) :
    Gen.M44.shear6 m h = Gen.M44.mul (Gen.M44.setShear6 m0 h) m := by
  unfold Gen.M44.shear6 Gen.M44.mul Gen.M44.setShear6; congr 1 <;> ring1

/-! ## Matrix33 (2-D homogeneous transforms) -/

theorem M33_setTranslation_point {α : Type} [CommRing α] (m0 : M33 α) (t p : V2 α) :
    p.homog ᵥ* (Gen.M33.setTranslation m0 t).toMat = (⟨p.x + t.x, p.y + t.y⟩ : V2 α).homog := by
  ext j; fin_cases j <;> simp [Gen.M33.setTranslation, M33.toMat, V2.homog, Matrix.vecMul, dotProduct, Fin.sum_univ_three]
theorem M33_setTranslation_dir {α : Type} [CommRing α] (m0 : M33 α) (t d : V2 α) :
    d.homogDir ᵥ* (Gen.M33.setTranslation m0 t).toMat = d.homogDir := by
  ext j; fin_cases j <;> simp [Gen.M33.setTranslation, M33.toMat, V2.homogDir, Matrix.vecMul, dotProduct, Fin.sum_univ_three]
theorem M33_translation {α : Type} (m : M33 α) : Gen.M33.translation m = ⟨m.x20, m.x21⟩ := rfl
theorem M33_translation_setTranslation {α : Type} [CommRing α] (m0 : M33 α) (t : V2 α) :
    Gen.M33.translation (Gen.M33.setTranslation m0 t) = t := rfl
theorem M33_setScaleV_point {α : Type} [CommRing α] (m0 : M33 α) (s p : V2 α) :
    p.homog ᵥ* (Gen.M33.setScaleV m0 s).toMat = (⟨p.x * s.x, p.y * s.y⟩ : V2 α).homog := by
  ext j; fin_cases j <;> simp [Gen.M33.setScaleV, M33.toMat, V2.homog, Matrix.vecMul, dotProduct, Fin.sum_univ_three]
theorem M33_setScaleV_dir {α : Type} [CommRing α] (m0 : M33 α) (s d : V2 α) :
    d.homogDir ᵥ* (Gen.M33.setScaleV m0 s).toMat = (⟨d.x * s.x, d.y * s.y⟩ : V2 α).homogDir := by
  ext j; fin_cases j <;> simp [Gen.M33.setScaleV, M33.toMat, V2.homogDir, Matrix.vecMul, dotProduct, Fin.sum_univ_three]
theorem M33_setScaleS {α : Type} [CommRing α] (m0 : M33 α) (s : α) :
    Gen.M33.setScaleS m0 s = Gen.M33.setScaleV m0 ⟨s, s⟩ := rfl
/-- documented: "shear x for each y coord. by given factor xy" -/
theorem M33_setShearS_point {α : Type} [CommRing α] (m0 : M33 α) (xy : α) (p : V2 α) :
    p.homog ᵥ* (Gen.M33.setShearS m0 xy).toMat = (⟨p.x + xy * p.y, p.y⟩ : V2 α).homog := by
  ext j; fin_cases j <;> simp [Gen.M33.setShearS, M33.toMat, V2.homog, Matrix.vecMul, dotProduct, Fin.sum_univ_three] <;> ring
/-- documented: "shear x for each y coord. by given factor h.x and shear y for each x coord. by given factor h.y" -/
theorem M33_setShearV_point {α : Type} [CommRing α] (m0 : M33 α) (h p : V2 α) :
    p.homog ᵥ* (Gen.M33.setShearV m0 h).toMat = (⟨p.x + h.x * p.y, p.y + h.y * p.x⟩ : V2 α).homog := by
  ext j; fin_cases j <;> simp [Gen.M33.setShearV, M33.toMat, V2.homog, Matrix.vecMul, dotProduct, Fin.sum_univ_three] <;> ring
theorem M33_setShearV_dir {α : Type} [CommRing α] (m0 : M33 α) (h d : V2 α) :
    d.homogDir ᵥ* (Gen.M33.setShearV m0 h).toMat = (⟨d.x + h.x * d.y, d.y + h.y * d.x⟩ : V2 α).homogDir := by
  ext j; fin_cases j <;> simp [Gen.M33.setShearV, M33.toMat, V2.homogDir, Matrix.vecMul, dotProduct, Fin.sum_univ_three] <;> ring
theorem M33_setShearS_eq_setShearV {α : Type} [CommRing α] (m0 : M33 α) (xy : α) :
    Gen.M33.setShearS m0 xy = Gen.M33.setShearV m0 ⟨xy, 0⟩ := rfl

/-- `setRotation r` turns a 2-D point counter-clockwise by `r`: `(x, y) ↦ (x cos r − y sin r, x sin r + y cos r)` -/
theorem M33_setRotation_point {α : Type} [CommRing α] (sin cos : α → α) (m0 : M33 α) (r : α) (p : V2 α) :
    p.homog ᵥ* (Gen.M33.setRotation sin cos m0 r).toMat = (⟨p.x * cos r - p.y * sin r, p.x * sin r + p.y * cos r⟩ : V2 α).homog := by
  ext j; fin_cases j <;> simp [Gen.M33.setRotation, M33.toMat, V2.homog, Matrix.vecMul, dotProduct, Fin.sum_univ_three] <;> ring
/-- … it is orthonormal with determinant +1 -/
theorem M33_setRotation_rotation {α : Type} [CommRing α] (sin cos : α → α) (hsc : ∀ x, sin x ^ 2 + cos x ^ 2 = 1) (m0 : M33 α) (r : α) :
    (Gen.M33.setRotation sin cos m0 r).toMat * (Gen.M33.setRotation sin cos m0 r).toMatᵀ = 1 ∧
      (Gen.M33.setRotation sin cos m0 r).toMat.det = 1 := by
  have e : (Gen.M33.setRotation sin cos m0 r).toMat = rz3 (sin r) (cos r) := by
    ext i j; fin_cases i <;> fin_cases j <;> simp [Gen.M33.setRotation, M33.toMat, rz3]
  rw [e]; exact isRot_rz3 (hsc r)

/-- Matrix33 in-place forms for an arbitrary current matrix: translate/scale/shear PRE-multiply … -/
theorem M33_translate {α : Type} [CommRing α] (m m0 : M33 α) (t : V2 α) :
    (Gen.M33.translate m t).toMat = (Gen.M33.setTranslation m0 t).toMat * m.toMat := by
  ext i j; fin_cases i <;> fin_cases j <;>
    simp [Gen.M33.translate, Gen.M33.setTranslation, M33.toMat, Matrix.mul_apply, Fin.sum_univ_three] <;> ring
theorem M33_scale {α : Type} [CommRing α] (m m0 : M33 α) (s : V2 α) :
    (Gen.M33.scale m s).toMat = (Gen.M33.setScaleV m0 s).toMat * m.toMat := by
  ext i j; fin_cases i <;> fin_cases j <;>
    simp [Gen.M33.scale, Gen.M33.setScaleV, M33.toMat, Matrix.mul_apply, Fin.sum_univ_three] <;> ring
theorem M33_shearS {α : Type} [CommRing α] (m m0 : M33 α) (xy : α) :
    (Gen.M33.shearS m xy).toMat = (Gen.M33.setShearS m0 xy).toMat * m.toMat := by
  ext i j; fin_cases i <;> fin_cases j <;>
    simp [Gen.M33.shearS, Gen.M33.setShearS, M33.toMat, Matrix.mul_apply, Fin.sum_univ_three] <;> ring
theorem M33_shearV {α : Type} [CommRing α] (m m0 : M33 α) (h : V2 α) :
    (Gen.M33.shearV m h).toMat = (Gen.M33.setShearV m0 h).toMat * m.toMat := by
  ext i j; fin_cases i <;> fin_cases j <;>
    simp [Gen.M33.shearV, Gen.M33.setShearV, M33.toMat, Matrix.mul_apply, Fin.sum_univ_three] <;> ring
/-- … while `rotate` POST-multiplies: `M * setRotation r` -/
theorem M33_rotate {α : Type} [CommRing α] (sin cos : α → α) (m m0 : M33 α) (r : α) :
    (Gen.M33.rotate sin cos m r).toMat = m.toMat * (Gen.M33.setRotation sin cos m0 r).toMat := by
  ext i j; fin_cases i <;> fin_cases j <;>
    simp [Gen.M33.rotate, Gen.M33.setRotation, M33.toMat, Matrix.mul_apply, Fin.sum_univ_three] <;> ring

/-! ## Matrix22 -/

theorem M22_setRotation {α : Type} [CommRing α] (sin cos : α → α) (m0 : M22 α) (r : α) :
    (Gen.M22.setRotation sin cos m0 r).toMat = !![cos r, sin r; -sin r, cos r] := by
  ext i j; fin_cases i <;> fin_cases j <;> simp [Gen.M22.setRotation, M22.toMat]
theorem M22_setRotation_point {α : Type} [CommRing α] (sin cos : α → α) (m0 : M22 α) (r : α) (p : V2 α) :
    p.toVec ᵥ* (Gen.M22.setRotation sin cos m0 r).toMat = (⟨p.x * cos r - p.y * sin r, p.x * sin r + p.y * cos r⟩ : V2 α).toVec := by
  ext j; fin_cases j <;> simp [Gen.M22.setRotation, M22.toMat, V2.toVec, Matrix.vecMul, dotProduct, Fin.sum_univ_two] <;> ring
theorem M22_setRotation_rotation {α : Type} [CommRing α] (sin cos : α → α) (hsc : ∀ x, sin x ^ 2 + cos x ^ 2 = 1) (m0 : M22 α) (r : α) :
    (Gen.M22.setRotation sin cos m0 r).toMat * (Gen.M22.setRotation sin cos m0 r).toMatᵀ = 1 ∧
      (Gen.M22.setRotation sin cos m0 r).toMat.det = 1 := by
  have h := hsc r
  constructor
  · ext i j; fin_cases i <;> fin_cases j <;>
      simp [Gen.M22.setRotation, M22.toMat, Matrix.mul_apply, Fin.sum_univ_two] <;> first | ring1 | linear_combination h
  · simp [Gen.M22.setRotation, M22.toMat, Matrix.det_fin_two]; linear_combination h
theorem M22_rotate {α : Type} [CommRing α] (sin cos : α → α) (m m0 : M22 α) (r : α) :
    (Gen.M22.rotate sin cos m r).toMat = m.toMat * (Gen.M22.setRotation sin cos m0 r).toMat := by
  ext i j; fin_cases i <;> fin_cases j <;>
    simp [Gen.M22.rotate, Gen.M22.setRotation, M22.toMat, Matrix.mul_apply, Fin.sum_univ_two] <;> ring
theorem M22_setScaleV_point {α : Type} [CommRing α] (m0 : M22 α) (s p : V2 α) :
    p.toVec ᵥ* (Gen.M22.setScaleV m0 s).toMat = (⟨p.x * s.x, p.y * s.y⟩ : V2 α).toVec := by
  ext j; fin_cases j <;> simp [Gen.M22.setScaleV, M22.toMat, V2.toVec, Matrix.vecMul, dotProduct, Fin.sum_univ_two]
theorem M22_setScaleS {α : Type} [CommRing α] (m0 : M22 α) (s : α) :
    Gen.M22.setScaleS m0 s = Gen.M22.setScaleV m0 ⟨s, s⟩ := rfl
theorem M22_scale {α : Type} [CommRing α] (m m0 : M22 α) (s : V2 α) :
    (Gen.M22.scale m s).toMat = (Gen.M22.setScaleV m0 s).toMat * m.toMat := by
  ext i j; fin_cases i <;> fin_cases j <;>
    simp [Gen.M22.scale, Gen.M22.setScaleV, M22.toMat, Matrix.mul_apply, Fin.sum_univ_two] <;> ring


/-! ## the reference RETURNED by the in-place forms is the updated matrix (`return *this`), for every in-place form of the property -/
theorem M44_scaleRet {α : Type} [CommRing α] (m : M44 α) (s : V3 α) : Gen.M44.scaleRet m s = Gen.M44.scale m s := by
  simp only [Gen.M44.scaleRet, Gen.M44.scale] <;> first | rfl | (congr 1 <;> ring1)
theorem M44_shearVRet {α : Type} [CommRing α] (m : M44 α) (h : V3 α) : Gen.M44.shearVRet m h = Gen.M44.shearV m h := by
  simp only [Gen.M44.shearVRet, Gen.M44.shearV] <;> first | rfl | (congr 1 <;> ring1)
theorem M44_shear6Ret {α : Type} [CommRing α] (m : M44 α) (h : Shear6 α) : Gen.M44.shear6Ret m h = Gen.M44.shear6 m h := by
  simp only [Gen.M44.shear6Ret, Gen.M44.shear6] <;> first | rfl | (congr 1 <;> ring1)
theorem M44_rotateRet {α : Type} [CommRing α] (sin cos : α → α) (m : M44 α) (r : V3 α) :
    Gen.M44.rotateRet sin cos m r = Gen.M44.rotate sin cos m r := by
  simp only [Gen.M44.rotateRet, Gen.M44.rotate] <;> first | rfl | (congr 1 <;> ring1)
theorem M33_translateRet {α : Type} [CommRing α] (m : M33 α) (t : V2 α) : Gen.M33.translateRet m t = Gen.M33.translate m t := by
  simp only [Gen.M33.translateRet, Gen.M33.translate] <;> first | rfl | (congr 1 <;> ring1)
theorem M33_scaleRet {α : Type} [CommRing α] (m : M33 α) (s : V2 α) : Gen.M33.scaleRet m s = Gen.M33.scale m s := by
  simp only [Gen.M33.scaleRet, Gen.M33.scale] <;> first | rfl | (congr 1 <;> ring1)
theorem M33_shearSRet {α : Type} [CommRing α] (m : M33 α) (xy : α) : Gen.M33.shearSRet m xy = Gen.M33.shearS m xy := by
  simp only [Gen.M33.shearSRet, Gen.M33.shearS] <;> first | rfl | (congr 1 <;> ring1)
theorem M33_shearVRet {α : Type} [CommRing α] (m : M33 α) (h : V2 α) : Gen.M33.shearVRet m h = Gen.M33.shearV m h := by
  simp only [Gen.M33.shearVRet, Gen.M33.shearV] <;> first | rfl | (congr 1 <;> ring1)
theorem M33_rotateRet {α : Type} [CommRing α] (sin cos : α → α) (m : M33 α) (r : α) :
    Gen.M33.rotateRet sin cos m r = Gen.M33.rotate sin cos m r := by
  simp only [Gen.M33.rotateRet, Gen.M33.rotate] <;> first | rfl | (congr 1 <;> ring1)
theorem M22_rotateRet {α : Type} [CommRing α] (sin cos : α → α) (m : M22 α) (r : α) :
    Gen.M22.rotateRet sin cos m r = Gen.M22.rotate sin cos m r := by
  simp only [Gen.M22.rotateRet, Gen.M22.rotate] <;> first | rfl | (congr 1 <;> ring1)
theorem M22_scaleRet {α : Type} [CommRing α] (m : M22 α) (s : V2 α) : Gen.M22.scaleRet m s = Gen.M22.scale m s := by
  simp only [Gen.M22.scaleRet, Gen.M22.scale] <;> first | rfl | (congr 1 <;> ring1)

theorem transMat_eq_setTranslation {α : Type} [CommRing α] (m0 : M44 α) (v : V3 α) :
    transMat v = (Gen.M44.setTranslation m0 v).toMat := by
  ext i j; fin_cases i <;> fin_cases j <;> simp [Gen.M44.setTranslation, transMat, M44.toMat]
/-! ## Frame builders

`IsFrame M`: the 3×3 block of `M` has orthonormal rows and determinant +1 (right-handed) and the last column is `(0,0,0,1)`.
`nrm len v` is `Vec3::normalized()` (`v / len v`, zero for zero length); `row0..row2` are the axes, `row3` the origin. -/

section Frames
variable {α : Type} [Field α] [LinearOrder α] [IsStrictOrderedRing α]

/-- `computeLocalFrame`: extracted tree = `x̂ = xDir^`, `ŷ = (normal × x̂)^`, `ẑ = (x̂ × ŷ)^`, origin `p` -/
theorem computeLocalFrame_spec (tmin tmax : α) (sqrt : α → α) (p xDir normal : V3 α) :
    Gen.Frame.computeLocalFrame tmin tmax sqrt p xDir normal = computeLocalFrameSpec (Gen.V3.length tmin tmax sqrt) p xDir normal := by
  obtain ⟨px, py, pz⟩ := p
  obtain ⟨xx, xy, xz⟩ := xDir
  obtain ⟨nx, ny, nz⟩ := normal
  simp only [Gen.Frame.computeLocalFrame, computeLocalFrameSpec, nrmIP, cross, frameM44]
  generalize Gen.V3.length tmin tmax sqrt = len
  tree_eq
/-- for `xDir ≠ 0` not parallel to `normal`: an orthonormal right-handed frame at `p` with the x-axis along `xDir`, the y-axis
along `normal × xDir` (so `normal` is normal to the y-axis), z = x × y, and z along `normal` when `normal ⟂ xDir` (documented) -/
theorem computeLocalFrame_frame (tmin tmax : α) (sqrt : α → α) (hlen : LenSpec (Gen.V3.length tmin tmax sqrt)) (p xDir normal : V3 α)
    (hx : xDir ≠ ⟨0, 0, 0⟩) (hn : cross normal xDir ≠ ⟨0, 0, 0⟩) :
    IsFrame (Gen.Frame.computeLocalFrame tmin tmax sqrt p xDir normal) ∧
      row3 (Gen.Frame.computeLocalFrame tmin tmax sqrt p xDir normal) = p ∧
      row0 (Gen.Frame.computeLocalFrame tmin tmax sqrt p xDir normal) = nrm (Gen.V3.length tmin tmax sqrt) xDir ∧
      row1 (Gen.Frame.computeLocalFrame tmin tmax sqrt p xDir normal) = nrm (Gen.V3.length tmin tmax sqrt) (cross normal xDir) ∧
      row2 (Gen.Frame.computeLocalFrame tmin tmax sqrt p xDir normal)
        = cross (nrm (Gen.V3.length tmin tmax sqrt) xDir) (nrm (Gen.V3.length tmin tmax sqrt) (cross normal xDir)) ∧
      (dot xDir normal = 0 → row2 (Gen.Frame.computeLocalFrame tmin tmax sqrt p xDir normal) = nrm (Gen.V3.length tmin tmax sqrt) normal) := by
  rw [computeLocalFrame_spec]; exact computeLocalFrameSpec_frame hlen p hx hn
example : (⟨2, 0, 0⟩ : V3 ℝ) ≠ ⟨0, 0, 0⟩ ∧ cross (⟨0, 0, 3⟩ : V3 ℝ) ⟨2, 0, 0⟩ ≠ ⟨0, 0, 0⟩ ∧ dot (⟨2, 0, 0⟩ : V3 ℝ) ⟨0, 0, 3⟩ = 0 := by
  refine ⟨by simp, by simp [cross], by simp [dot]⟩

/-- `firstFrame`: extracted 18-path tree = the documented construction; `pi = pj` is the `domain_error` path.
That the SHIPPED build (noexcept configuration on) really delivers that exception to the caller is OBSERVED, in a fork()ed child, by
`harness/corr/c09_noexcept.cpp` (obligation "shipped build …" of the check); while `firstFrame` was declared `noexcept` it did not —
`std::terminate` (finding `c09_noexcept:firstFrame:pi=pj`, fixed by /repo 24cea33).  The extractor no longer overrides `IMATH_NOEXCEPT`. -/
theorem firstFrame_spec (tmin tmax : α) (sqrt : α → α) (pi pj pk : V3 α) :
    Gen.Frame.firstFrame tmin tmax sqrt pi pj pk = firstFrameSpec (Gen.V3.length tmin tmax sqrt) pi pj pk := by
  obtain ⟨ix, iy, iz⟩ := pi
  obtain ⟨jx, jy, jz⟩ := pj
  obtain ⟨kx, ky, kz⟩ := pk
  simp only [Gen.Frame.firstFrame, firstFrameSpec, nrmIP, ffAxis, cross, vsub, frameM44]
  generalize Gen.V3.length tmin tmax sqrt = len
  simp only [mul_zero, zero_mul, mul_one, one_mul, sub_zero, zero_sub, sub_self, zero_div]
  tree_eq
/-- three non-collinear points: orthonormal right-handed frame at `pi`, tangent (x-row) along `pj − pi`, y-row along
`(pj − pi) × (pk − pi)` (the plane normal), z-row = x × y -/
theorem firstFrame_frame (tmin tmax : α) (sqrt : α → α) (hlen : LenSpec (Gen.V3.length tmin tmax sqrt)) (pi pj pk : V3 α)
    (hd : vsub pj pi ≠ ⟨0, 0, 0⟩) (hc : cross (vsub pj pi) (vsub pk pi) ≠ ⟨0, 0, 0⟩) :
    ∃ M, Gen.Frame.firstFrame tmin tmax sqrt pi pj pk = .ok M ∧ IsFrame M ∧ row3 M = pi ∧
      row0 M = nrm (Gen.V3.length tmin tmax sqrt) (vsub pj pi) ∧
      row1 M = nrm (Gen.V3.length tmin tmax sqrt) (cross (vsub pj pi) (vsub pk pi)) ∧ row2 M = cross (row0 M) (row1 M) := by
  rw [firstFrame_spec]; exact firstFrameSpec_main hlen hd hc
example : vsub (⟨1, 0, 0⟩ : V3 ℝ) ⟨0, 0, 0⟩ ≠ ⟨0, 0, 0⟩ ∧
    cross (vsub (⟨1, 0, 0⟩ : V3 ℝ) ⟨0, 0, 0⟩) (vsub (⟨0, 1, 0⟩ : V3 ℝ) ⟨0, 0, 0⟩) ≠ ⟨0, 0, 0⟩ := by
  constructor <;> simp [vsub, cross]
/-- collinear points ("an arbitrary twist value will be chosen"): still an orthonormal right-handed frame at `pi` with the tangent
along `pj − pi`; the twist is fixed by the coordinate axis along which the tangent is smallest -/
theorem firstFrame_collinear (tmin tmax : α) (sqrt : α → α) (hlen : LenSpec (Gen.V3.length tmin tmax sqrt)) (pi pj pk : V3 α)
    (hd : vsub pj pi ≠ ⟨0, 0, 0⟩) (hc : cross (vsub pj pi) (vsub pk pi) = ⟨0, 0, 0⟩) :
    ∃ M, Gen.Frame.firstFrame tmin tmax sqrt pi pj pk = .ok M ∧ IsFrame M ∧ row3 M = pi ∧
      row0 M = nrm (Gen.V3.length tmin tmax sqrt) (vsub pj pi) ∧ row2 M = cross (row0 M) (row1 M) := by
  rw [firstFrame_spec]
  obtain ⟨M, h1, h2, h3, h4, _, h6⟩ := firstFrameSpec_collinear hlen hd hc
  exact ⟨M, h1, h2, h3, h4, h6⟩
/-- coincident first two points: the documented `std::domain_error` path (of the model; for the shipped build see `firstFrame_spec`) -/
theorem firstFrame_coincident (tmin tmax : α) (sqrt : α → α) (hlen : LenSpec (Gen.V3.length tmin tmax sqrt)) (pi pk : V3 α) :
    Gen.Frame.firstFrame tmin tmax sqrt pi pi pk = .error Exc.domainError := by
  rw [firstFrame_spec]
  have : Gen.V3.length tmin tmax sqrt (vsub pi pi) = 0 := (len_eq_zero_iff hlen _).mpr (by simp [vsub])
  simp [firstFrameSpec, this]

/-- `lastFrame (Mi, pi, pj)` = `Mi` followed by the translation `pj − pi` … -/
theorem lastFrame_eq (Mi m0 : M44 α) (pi pj : V3 α) :
    (Gen.Frame.lastFrame Mi pi pj).toMat = Mi.toMat * (Gen.M44.setTranslation m0 (vsub pj pi)).toMat := by
  ext i j; fin_cases i <;> fin_cases j <;>
    simp [Gen.Frame.lastFrame, Gen.M44.setTranslation, vsub, M44.toMat, Matrix.mul_apply, Fin.sum_univ_four] <;> ring
/-- … so an orthonormal right-handed frame with origin `pi` becomes the same axes with origin `pj` -/
theorem lastFrame_frame (Mi : M44 α) (pi pj : V3 α) (hMi : IsFrame Mi) (hpi : row3 Mi = pi) :
    IsFrame (Gen.Frame.lastFrame Mi pi pj) ∧ rot3 (Gen.Frame.lastFrame Mi pi pj) = rot3 Mi ∧
      row3 (Gen.Frame.lastFrame Mi pi pj) = pj := by
  have hT := lastFrame_eq Mi M44.identity pi pj
  rw [← transMat_eq_setTranslation] at hT
  obtain ⟨h1, h2, h3⟩ := frame_mul_trans hMi hT
  refine ⟨h1, h2, ?_⟩
  rw [h3, hpi]
  obtain ⟨x, y, z⟩ := pi
  obtain ⟨x', y', z'⟩ := pj
  simp [vadd, vsub]
example : IsFrame (M44.identity : M44 ℝ) ∧ row3 (M44.identity : M44 ℝ) = ⟨0, 0, 0⟩ := by
  refine ⟨⟨?_, rfl, rfl, rfl, rfl⟩, rfl⟩
  have : rot3 (M44.identity : M44 ℝ) = 1 := by
    ext i j; fin_cases i <;> fin_cases j <;> simp [rot3, M44.identity]
  rw [this]; exact IsRot.one

set_option maxHeartbeats 1000000 in
/-- `addOffset (inMat, t, r, s, ref)` = scale(s) · rotateXYZ(r · π/180) · translate(t) · inMat · ref, the degree→radian factor being the
double nearest π/180 (`degToRad = 5030569068109113 / 2^58`) -/
theorem addOffset_eq (sin cos : α → α) (inMat ref m0 m1 m2 : M44 α) (tOffset rOffset sOffset : V3 α) :
    (Gen.Frame.addOffset sin cos inMat tOffset rOffset sOffset ref).toMat =
      (Gen.M44.setScaleV m0 sOffset).toMat
        * ((Gen.M44.setEulerAngles sin cos m1 (smul degToRad rOffset)).toMat * (Gen.M44.setTranslation m2 tOffset).toMat)
        * inMat.toMat * ref.toMat := by
  obtain ⟨rx, ry, rz⟩ := rOffset
  simp only [smul, degToRad]
  have e : ∀ x : α, x * ((5030569068109113 : α) / 288230376151711744) = (5030569068109113 : α) / 288230376151711744 * x :=
    fun x => mul_comm _ _
  generalize hsx : sin ((5030569068109113 : α) / 288230376151711744 * rx) = sx
  generalize hsy : sin ((5030569068109113 : α) / 288230376151711744 * ry) = sy
  generalize hsz : sin ((5030569068109113 : α) / 288230376151711744 * rz) = sz
  generalize hcx : cos ((5030569068109113 : α) / 288230376151711744 * rx) = cx
  generalize hcy : cos ((5030569068109113 : α) / 288230376151711744 * ry) = cy
  generalize hcz : cos ((5030569068109113 : α) / 288230376151711744 * rz) = cz
  ext i j; fin_cases i <;> fin_cases j <;>
    simp [Gen.Frame.addOffset, Gen.M44.setScaleV, Gen.M44.setEulerAngles, Gen.M44.setTranslation, M44.toMat, Matrix.mul_apply,
      Fin.sum_univ_four, e, hsx, hsy, hsz, hcx, hcy, hcz] <;> ring1
example : |(degToRad : ℝ) * 180 - 3.14159265358979| < 1 / 10 ^ 14 := by
  unfold degToRad; rw [abs_lt]; constructor <;> norm_num


end Frames

end ImathVerif.C09
