import ImathVerif.Spec.MatSpec
import ImathVerif.Spec.TransformSpec
import ImathVerif.Gen.C05
import ImathVerif.Gen.C09Mat
import ImathVerif.Gen.C09Frame
import ImathVerif.Gen.C09Next
import ImathVerif.Gen.C09Quat
import ImathVerif.Gen.C09Up
import ImathVerif.Props.C05
import ImathVerif.Lemmas.C09Lemmas
import ImathVerif.Lemmas.C09AlignTree
import ImathVerif.Lemmas.C09FrameLemmas
import ImathVerif.Lemmas.C09NextFrame
import ImathVerif.Lemmas.C09Quat
import Mathlib.Analysis.SpecialFunctions.Trigonometric.Inverse
import Mathlib.Tactic.Ring
import Mathlib.Tactic.FinCases
import Mathlib.Tactic.LinearCombination
import Mathlib.Analysis.SpecialFunctions.Trigonometric.Basic
/-!
# C09 — transform builders act as documented; in-place forms pre-multiply

`Gen.*` is regenerated from the current headers on every run (T = Sym path extraction; modules
`Gen/C09Mat.lean`, `Gen/C09Frame.lean`, `Gen/C09Next.lean`, `Gen/C09Quat.lean`, `Gen/C09Up.lean`).  Imath matrices act on ROW vectors from the right,
so "the set* matrix on the left" (`S * M`) means: apply `S` first, then the old `M`.

* `sin`, `cos`, `acos` are arbitrary functions (parameters of the extracted definitions); where a theorem needs it,
  the only assumption is `∀ x, sin x ^ 2 + cos x ^ 2 = 1` (`example` below: `Real.sin`, `Real.cos`).
* `Vec3::length()` is the opaque `Gen.V3.length tmin sqrt` (real body in `Gen/Leaf.lean`, analysed by C08); theorems
  that need it assume `LenSpec (Gen.V3.length tmin sqrt)`, i.e. `len v ^ 2 = v·v ∧ 0 ≤ len v` for all `v`
  (`example` below: satisfied over ℝ with `Real.sqrt`).
* every `set*` entry also takes the CURRENT matrix `m0`; the theorems hold for all `m0`, i.e. `set*` overwrites every slot.
* rounding is not covered by these theorems (DESIGN.md §3): it is measured by the check (harness/corr/c09_residue.cpp).
-/
set_option linter.unreachableTactic false
set_option linter.unusedTactic false
namespace ImathVerif.C09
open ImathVerif Matrix

/-- the trigonometric assumption is satisfiable: real sine and cosine -/
example : ∀ x : ℝ, Real.sin x ^ 2 + Real.cos x ^ 2 = 1 := Real.sin_sq_add_cos_sq

/-! ## Matrix44 set* builders: action on homogeneous row vectors (points `(p,1)` and directions `(d,0)`) -/

theorem M44_setTranslation_point {α : Type} [CommRing α] (m0 : M44 α) (t p : V3 α) :
    p.homog ᵥ* (Gen.M44.setTranslation m0 t).toMat = (vadd p t).homog := by
  ext j; fin_cases j <;> simp [Gen.M44.setTranslation, M44.toMat, V3.homog, vadd, Matrix.vecMul, dotProduct, Fin.sum_univ_four]
theorem M44_setTranslation_dir {α : Type} [CommRing α] (m0 : M44 α) (t d : V3 α) :
    d.homogDir ᵥ* (Gen.M44.setTranslation m0 t).toMat = d.homogDir := by
  ext j; fin_cases j <;> simp [Gen.M44.setTranslation, M44.toMat, V3.homogDir, Matrix.vecMul, dotProduct, Fin.sum_univ_four]
/-- `translation()` returns the translation row … -/
theorem M44_translation {α : Type} (m : M44 α) : Gen.M44.translation m = ⟨m.x30, m.x31, m.x32⟩ := rfl
/-- … in particular it reads back what `setTranslation` stored -/
theorem M44_translation_setTranslation {α : Type} [CommRing α] (m0 : M44 α) (t : V3 α) :
    Gen.M44.translation (Gen.M44.setTranslation m0 t) = t := rfl

theorem M44_setScaleV_point {α : Type} [CommRing α] (m0 : M44 α) (s p : V3 α) :
    p.homog ᵥ* (Gen.M44.setScaleV m0 s).toMat = (⟨p.x * s.x, p.y * s.y, p.z * s.z⟩ : V3 α).homog := by
  ext j; fin_cases j <;> simp [Gen.M44.setScaleV, M44.toMat, V3.homog, Matrix.vecMul, dotProduct, Fin.sum_univ_four]
theorem M44_setScaleV_dir {α : Type} [CommRing α] (m0 : M44 α) (s d : V3 α) :
    d.homogDir ᵥ* (Gen.M44.setScaleV m0 s).toMat = (⟨d.x * s.x, d.y * s.y, d.z * s.z⟩ : V3 α).homogDir := by
  ext j; fin_cases j <;> simp [Gen.M44.setScaleV, M44.toMat, V3.homogDir, Matrix.vecMul, dotProduct, Fin.sum_univ_four]
/-- the scalar overload is the vector overload with equal factors -/
theorem M44_setScaleS {α : Type} [CommRing α] (m0 : M44 α) (s : α) :
    Gen.M44.setScaleS m0 s = Gen.M44.setScaleV m0 ⟨s, s, s⟩ := rfl

/-- documented (ImathMatrix.h): "shear x for each y coord. by a factor of h[0]; x for each z coord. by h[1];
y for each z coord. by h[2]" -/
theorem M44_setShearV_point {α : Type} [CommRing α] (m0 : M44 α) (h p : V3 α) :
    p.homog ᵥ* (Gen.M44.setShearV m0 h).toMat = (⟨p.x + h.x * p.y + h.y * p.z, p.y + h.z * p.z, p.z⟩ : V3 α).homog := by
  ext j; fin_cases j <;> simp [Gen.M44.setShearV, M44.toMat, V3.homog, Matrix.vecMul, dotProduct, Fin.sum_univ_four] <;> ring
theorem M44_setShearV_dir {α : Type} [CommRing α] (m0 : M44 α) (h d : V3 α) :
    d.homogDir ᵥ* (Gen.M44.setShearV m0 h).toMat = (⟨d.x + h.x * d.y + h.y * d.z, d.y + h.z * d.z, d.z⟩ : V3 α).homogDir := by
  ext j; fin_cases j <;> simp [Gen.M44.setShearV, M44.toMat, V3.homogDir, Matrix.vecMul, dotProduct, Fin.sum_univ_four] <;> ring
/-- documented: "shear x for each y coord. by h.xy; x for each z by h.xz; y for each z by h.yz; y for each x by h.yx;
z for each x by h.zx; z for each y by h.zy" -/
theorem M44_setShear6_point {α : Type} [CommRing α] (m0 : M44 α) (h : Shear6 α) (p : V3 α) :
    p.homog ᵥ* (Gen.M44.setShear6 m0 h).toMat =
      (⟨p.x + h.xy * p.y + h.xz * p.z, p.y + h.yx * p.x + h.yz * p.z, p.z + h.zx * p.x + h.zy * p.y⟩ : V3 α).homog := by
  ext j; fin_cases j <;> simp [Gen.M44.setShear6, M44.toMat, V3.homog, Matrix.vecMul, dotProduct, Fin.sum_univ_four] <;> ring
theorem M44_setShear6_dir {α : Type} [CommRing α] (m0 : M44 α) (h : Shear6 α) (d : V3 α) :
    d.homogDir ᵥ* (Gen.M44.setShear6 m0 h).toMat =
      (⟨d.x + h.xy * d.y + h.xz * d.z, d.y + h.yx * d.x + h.yz * d.z, d.z + h.zx * d.x + h.zy * d.y⟩ : V3 α).homogDir := by
  ext j; fin_cases j <;> simp [Gen.M44.setShear6, M44.toMat, V3.homogDir, Matrix.vecMul, dotProduct, Fin.sum_univ_four] <;> ring
/-- the Vec3 overload is the Shear6 overload with `(xy, xz, yz) = h` and zero lower factors -/
theorem M44_setShearV_eq_setShear6 {α : Type} [CommRing α] (m0 : M44 α) (h : V3 α) :
    Gen.M44.setShearV m0 h = Gen.M44.setShear6 m0 ⟨h.x, h.y, h.z, 0, 0, 0⟩ := rfl

/-! ## Matrix44 rotations -/

/-- `setEulerAngles r` = (rotation about x by r.x) then (about y by r.y) then (about z by r.z), for row vectors -/
theorem M44_setEulerAngles {α : Type} [CommRing α] (sin cos : α → α) (m0 : M44 α) (r : V3 α) :
    (Gen.M44.setEulerAngles sin cos m0 r).toMat
      = rotX (sin r.x) (cos r.x) * rotY (sin r.y) (cos r.y) * rotZ (sin r.z) (cos r.z) := by
  ext i j; fin_cases i <;> fin_cases j <;>
    simp [Gen.M44.setEulerAngles, M44.toMat, rotX, rotY, rotZ, Matrix.mul_apply, Fin.sum_univ_four] <;> ring
/-- … and it is a rotation: orthonormal rows, determinant +1, affine -/
theorem M44_setEulerAngles_rotation {α : Type} [CommRing α] (sin cos : α → α)
    (hsc : ∀ x, sin x ^ 2 + cos x ^ 2 = 1) (m0 : M44 α) (r : V3 α) :
    IsFrame (Gen.M44.setEulerAngles sin cos m0 r) ∧ row3 (Gen.M44.setEulerAngles sin cos m0 r) = ⟨0, 0, 0⟩ :=
  setEulerAngles_isFrame sin cos hsc m0 r

/-- in-place `rotate r` = `setEulerAngles r` on the LEFT of the current (arbitrary) matrix -/
theorem M44_rotate {α : Type} [CommRing α] (sin cos : α → α) (m m0 : M44 α) (r : V3 α) :
    (Gen.M44.rotate sin cos m r).toMat = (Gen.M44.setEulerAngles sin cos m0 r).toMat * m.toMat := by
  ext i j; fin_cases i <;> fin_cases j <;>
    simp [Gen.M44.rotate, Gen.M44.setEulerAngles, M44.toMat, Matrix.mul_apply, Fin.sum_univ_four] <;> ring

/-- the `LenSpec` assumption on the extracted `Vec3::length` is satisfiable: over ℝ with `Real.sqrt`
(and `tmin = 0`, which disables the `lengthTiny` branch; C08 treats the general case) -/
example : LenSpec (Gen.V3.length (0 : ℝ) Real.sqrt) := by
  intro v
  have h0 : ¬ (v.x * v.x + v.y * v.y + v.z * v.z < 2 * 0) := by
    nlinarith [mul_self_nonneg v.x, mul_self_nonneg v.y, mul_self_nonneg v.z]
  have e : Gen.V3.length (0 : ℝ) Real.sqrt v = Real.sqrt (v.x * v.x + v.y * v.y + v.z * v.z) := by
    simp only [Gen.V3.length, if_neg h0]
  rw [e]
  exact ⟨Real.sq_sqrt (dot_self_nonneg v), Real.sqrt_nonneg _⟩

/-- `setAxisAngle axis angle` for ANY non-zero axis is a rotation (orthonormal rows, det +1), affine, no translation -/
theorem M44_setAxisAngle_rotation {α : Type} [Field α] [LinearOrder α] [IsStrictOrderedRing α]
    (tmin : α) (sqrt sin cos : α → α) (hlen : LenSpec (Gen.V3.length tmin sqrt))
    (hsc : ∀ x, sin x ^ 2 + cos x ^ 2 = 1) (m0 : M44 α) (axis : V3 α) (angle : α) (hax : axis ≠ ⟨0, 0, 0⟩) :
    IsFrame (Gen.M44.setAxisAngle tmin sqrt sin cos m0 axis angle) ∧
      row3 (Gen.M44.setAxisAngle tmin sqrt sin cos m0 axis angle) = ⟨0, 0, 0⟩ := by
  have h := mt (len_eq_zero_iff hlen axis).mp hax
  rw [setAxisAngle_eq tmin sqrt sin cos m0 axis angle h]
  exact ⟨⟨isRot_axisAngle (nrm_unit hlen h) (hsc angle), isAffine_frameM44 _ _ _ _⟩, rfl⟩
example : (⟨1, 2, 2⟩ : V3 ℝ) ≠ ⟨0, 0, 0⟩ := by simp

/-- for a non-zero axis the matrix written is `axisAngleM44` (TransformSpec): the axis/angle matrix of the normalised axis -/
theorem M44_setAxisAngle_eq {α : Type} [Field α] [LinearOrder α] [IsStrictOrderedRing α]
    (tmin : α) (sqrt sin cos : α → α) (hlen : LenSpec (Gen.V3.length tmin sqrt)) (m0 : M44 α) (axis : V3 α) (angle : α)
    (hax : axis ≠ ⟨0, 0, 0⟩) :
    Gen.M44.setAxisAngle tmin sqrt sin cos m0 axis angle = axisAngleM44 (Gen.V3.length tmin sqrt) (sin angle) (cos angle) axis :=
  setAxisAngle_eq' tmin sqrt sin cos m0 axis angle (len_ne_zero hlen hax)

/-- … it turns every point `p` about the normalised axis `u = axis/|axis|` by `angle` (Rodrigues' formula, right-hand rule):
`p ↦ cos·p + (1 − cos)(u·p) u + sin·(u × p)` -/
theorem M44_setAxisAngle_point {α : Type} [Field α] [LinearOrder α] [IsStrictOrderedRing α]
    (tmin : α) (sqrt sin cos : α → α) (hlen : LenSpec (Gen.V3.length tmin sqrt))
    (m0 : M44 α) (axis : V3 α) (angle : α) (hax : axis ≠ ⟨0, 0, 0⟩) (p : V3 α) :
    p.homog ᵥ* (Gen.M44.setAxisAngle tmin sqrt sin cos m0 axis angle).toMat
      = (rodrigues (sin angle) (cos angle) (nrm (Gen.V3.length tmin sqrt) axis) p).homog := by
  have h := mt (len_eq_zero_iff hlen axis).mp hax
  rw [setAxisAngle_eq tmin sqrt sin cos m0 axis angle h, ← axisAngle_apply]
  ext j; fin_cases j <;>
    simp [frameM44, M44.toMat, V3.homog, vadd, smul, Matrix.vecMul, dotProduct, Fin.sum_univ_four]
/-- … and leaves the axis itself fixed -/
theorem M44_setAxisAngle_axis_fixed {α : Type} [Field α] [LinearOrder α] [IsStrictOrderedRing α]
    (tmin : α) (sqrt sin cos : α → α) (hlen : LenSpec (Gen.V3.length tmin sqrt))
    (m0 : M44 α) (axis : V3 α) (angle : α) (hax : axis ≠ ⟨0, 0, 0⟩) :
    axis.homogDir ᵥ* (Gen.M44.setAxisAngle tmin sqrt sin cos m0 axis angle).toMat = axis.homogDir := by
  have h := mt (len_eq_zero_iff hlen axis).mp hax
  have hu := nrm_unit hlen h
  have hfix := rodrigues_axis (s := sin angle) (c := cos angle) hu
  rw [← axisAngle_apply, nrm_of_ne h] at hfix
  rw [setAxisAngle_eq tmin sqrt sin cos m0 axis angle h, nrm_of_ne h]
  simp only [vadd, smul, V3.mk.injEq] at hfix
  obtain ⟨h1, h2, h3⟩ := hfix
  have hl : Gen.V3.length tmin sqrt axis ≠ 0 := h
  ext j; fin_cases j <;>
    simp [frameM44, M44.toMat, V3.homogDir, Matrix.vecMul, dotProduct, Fin.sum_univ_four]
  · field_simp at h1 ⊢; linear_combination h1
  · field_simp at h2 ⊢; linear_combination h2
  · field_simp at h3 ⊢; linear_combination h3

/-- about the coordinate axes `setAxisAngle` gives the axis rotations used by `setEulerAngles` … -/
theorem M44_setAxisAngle_X {α : Type} [Field α] [LinearOrder α] [IsStrictOrderedRing α]
    (tmin : α) (sqrt sin cos : α → α) (hlen : LenSpec (Gen.V3.length tmin sqrt)) (m0 : M44 α) (angle : α) :
    (Gen.M44.setAxisAngle tmin sqrt sin cos m0 ⟨1, 0, 0⟩ angle).toMat = rotX (sin angle) (cos angle) := by
  have h1 : Gen.V3.length tmin sqrt ⟨1, 0, 0⟩ = 1 := len_eq_one hlen (by simp [dot])
  rw [setAxisAngle_eq tmin sqrt sin cos m0 _ angle (by rw [h1]; exact one_ne_zero), nrm_of_ne (by rw [h1]; exact one_ne_zero), h1]
  ext i j; fin_cases i <;> fin_cases j <;> simp [frameM44, aaRow0, aaRow1, aaRow2, M44.toMat, rotX]
theorem M44_setAxisAngle_Y {α : Type} [Field α] [LinearOrder α] [IsStrictOrderedRing α]
    (tmin : α) (sqrt sin cos : α → α) (hlen : LenSpec (Gen.V3.length tmin sqrt)) (m0 : M44 α) (angle : α) :
    (Gen.M44.setAxisAngle tmin sqrt sin cos m0 ⟨0, 1, 0⟩ angle).toMat = rotY (sin angle) (cos angle) := by
  have h1 : Gen.V3.length tmin sqrt ⟨0, 1, 0⟩ = 1 := len_eq_one hlen (by simp [dot])
  rw [setAxisAngle_eq tmin sqrt sin cos m0 _ angle (by rw [h1]; exact one_ne_zero), nrm_of_ne (by rw [h1]; exact one_ne_zero), h1]
  ext i j; fin_cases i <;> fin_cases j <;> simp [frameM44, aaRow0, aaRow1, aaRow2, M44.toMat, rotY]
theorem M44_setAxisAngle_Z {α : Type} [Field α] [LinearOrder α] [IsStrictOrderedRing α]
    (tmin : α) (sqrt sin cos : α → α) (hlen : LenSpec (Gen.V3.length tmin sqrt)) (m0 : M44 α) (angle : α) :
    (Gen.M44.setAxisAngle tmin sqrt sin cos m0 ⟨0, 0, 1⟩ angle).toMat = rotZ (sin angle) (cos angle) := by
  have h1 : Gen.V3.length tmin sqrt ⟨0, 0, 1⟩ = 1 := len_eq_one hlen (by simp [dot])
  rw [setAxisAngle_eq tmin sqrt sin cos m0 _ angle (by rw [h1]; exact one_ne_zero), nrm_of_ne (by rw [h1]; exact one_ne_zero), h1]
  ext i j; fin_cases i <;> fin_cases j <;> simp [frameM44, aaRow0, aaRow1, aaRow2, M44.toMat, rotZ]
/-- … so `setEulerAngles r` = `setAxisAngle x̂ r.x` · `setAxisAngle ŷ r.y` · `setAxisAngle ẑ r.z` (documented XYZ order) -/
theorem M44_setEulerAngles_eq_axisAngles {α : Type} [Field α] [LinearOrder α] [IsStrictOrderedRing α]
    (tmin : α) (sqrt sin cos : α → α) (hlen : LenSpec (Gen.V3.length tmin sqrt)) (m0 m1 m2 m3 : M44 α) (r : V3 α) :
    (Gen.M44.setEulerAngles sin cos m0 r).toMat
      = (Gen.M44.setAxisAngle tmin sqrt sin cos m1 ⟨1, 0, 0⟩ r.x).toMat
        * (Gen.M44.setAxisAngle tmin sqrt sin cos m2 ⟨0, 1, 0⟩ r.y).toMat
        * (Gen.M44.setAxisAngle tmin sqrt sin cos m3 ⟨0, 0, 1⟩ r.z).toMat := by
  rw [M44_setEulerAngles, M44_setAxisAngle_X _ _ _ _ hlen, M44_setAxisAngle_Y _ _ _ _ hlen, M44_setAxisAngle_Z _ _ _ _ hlen]

/-! ## Matrix44 in-place forms, for an ARBITRARY current matrix `m` (all 16 entries free): `set*(…) * m` -/

theorem M44_translate {α : Type} [CommRing α] (m m0 : M44 α) (t : V3 α) :
    (Gen.M44.translate m t).toMat = (Gen.M44.setTranslation m0 t).toMat * m.toMat := by
  ext i j; fin_cases i <;> fin_cases j <;>
    simp [Gen.M44.translate, Gen.M44.setTranslation, M44.toMat, Matrix.mul_apply, Fin.sum_univ_four] <;> ring
/-- the reference returned by `translate` is the updated matrix -/
theorem M44_translateRet {α : Type} [CommRing α] (m : M44 α) (t : V3 α) :
    Gen.M44.translateRet m t = Gen.M44.translate m t := by
  unfold Gen.M44.translateRet Gen.M44.translate; congr 1 <;> ring1
theorem M44_scale {α : Type} [CommRing α] (m m0 : M44 α) (s : V3 α) :
    (Gen.M44.scale m s).toMat = (Gen.M44.setScaleV m0 s).toMat * m.toMat := by
  ext i j; fin_cases i <;> fin_cases j <;>
    simp [Gen.M44.scale, Gen.M44.setScaleV, M44.toMat, Matrix.mul_apply, Fin.sum_univ_four] <;> ring
theorem M44_shearV {α : Type} [CommRing α] (m m0 : M44 α) (h : V3 α) :
    (Gen.M44.shearV m h).toMat = (Gen.M44.setShearV m0 h).toMat * m.toMat := by
  ext i j; fin_cases i <;> fin_cases j <;>
    simp [Gen.M44.shearV, Gen.M44.setShearV, M44.toMat, Matrix.mul_apply, Fin.sum_univ_four] <;> ring
theorem M44_shear6 {α : Type} [CommRing α] (m m0 : M44 α) (h : Shear6 α) :
    (Gen.M44.shear6 m h).toMat = (Gen.M44.setShear6 m0 h).toMat * m.toMat := by
  ext i j; fin_cases i <;> fin_cases j <;>
    simp [Gen.M44.shear6, Gen.M44.setShear6, M44.toMat, Matrix.mul_apply, Fin.sum_univ_four] <;> ring
/-- the same statements through the extracted product `Matrix44::operator*` of C05 -/
theorem M44_translate_mul {α : Type} [CommRing α] (m m0 : M44 α) (t : V3 α) :
    Gen.M44.translate m t = Gen.M44.mul (Gen.M44.setTranslation m0 t) m := by
  unfold Gen.M44.translate Gen.M44.mul Gen.M44.setTranslation; congr 1 <;> ring1
theorem M44_shear6_mul {α : Type} [CommRing α] (m m0 : M44 α) (h : Shear6 α) :
    Gen.M44.shear6 m h = Gen.M44.mul (Gen.M44.setShear6 m0 h) m := by
  unfold Gen.M44.shear6 Gen.M44.mul Gen.M44.setShear6; congr 1 <;> ring1

/-! ## Matrix33 (2-D homogeneous transforms) -/

theorem M33_setTranslation_point {α : Type} [CommRing α] (m0 : M33 α) (t p : V2 α) :
    p.homog ᵥ* (Gen.M33.setTranslation m0 t).toMat = (⟨p.x + t.x, p.y + t.y⟩ : V2 α).homog := by
  ext j; fin_cases j <;> simp [Gen.M33.setTranslation, M33.toMat, V2.homog, Matrix.vecMul, dotProduct, Fin.sum_univ_three]
theorem M33_setTranslation_dir {α : Type} [CommRing α] (m0 : M33 α) (t d : V2 α) :
    d.homogDir ᵥ* (Gen.M33.setTranslation m0 t).toMat = d.homogDir := by
  ext j; fin_cases j <;> simp [Gen.M33.setTranslation, M33.toMat, V2.homogDir, Matrix.vecMul, dotProduct, Fin.sum_univ_three]
theorem M33_translation {α : Type} (m : M33 α) : Gen.M33.translation m = ⟨m.x20, m.x21⟩ := rfl
theorem M33_translation_setTranslation {α : Type} [CommRing α] (m0 : M33 α) (t : V2 α) :
    Gen.M33.translation (Gen.M33.setTranslation m0 t) = t := rfl
theorem M33_setScaleV_point {α : Type} [CommRing α] (m0 : M33 α) (s p : V2 α) :
    p.homog ᵥ* (Gen.M33.setScaleV m0 s).toMat = (⟨p.x * s.x, p.y * s.y⟩ : V2 α).homog := by
  ext j; fin_cases j <;> simp [Gen.M33.setScaleV, M33.toMat, V2.homog, Matrix.vecMul, dotProduct, Fin.sum_univ_three]
theorem M33_setScaleV_dir {α : Type} [CommRing α] (m0 : M33 α) (s d : V2 α) :
    d.homogDir ᵥ* (Gen.M33.setScaleV m0 s).toMat = (⟨d.x * s.x, d.y * s.y⟩ : V2 α).homogDir := by
  ext j; fin_cases j <;> simp [Gen.M33.setScaleV, M33.toMat, V2.homogDir, Matrix.vecMul, dotProduct, Fin.sum_univ_three]
theorem M33_setScaleS {α : Type} [CommRing α] (m0 : M33 α) (s : α) :
    Gen.M33.setScaleS m0 s = Gen.M33.setScaleV m0 ⟨s, s⟩ := rfl
/-- documented: "shear x for each y coord. by given factor xy" -/
theorem M33_setShearS_point {α : Type} [CommRing α] (m0 : M33 α) (xy : α) (p : V2 α) :
    p.homog ᵥ* (Gen.M33.setShearS m0 xy).toMat = (⟨p.x + xy * p.y, p.y⟩ : V2 α).homog := by
  ext j; fin_cases j <;> simp [Gen.M33.setShearS, M33.toMat, V2.homog, Matrix.vecMul, dotProduct, Fin.sum_univ_three] <;> ring
/-- documented: "shear x for each y coord. by given factor h.x and shear y for each x coord. by given factor h.y" -/
theorem M33_setShearV_point {α : Type} [CommRing α] (m0 : M33 α) (h p : V2 α) :
    p.homog ᵥ* (Gen.M33.setShearV m0 h).toMat = (⟨p.x + h.x * p.y, p.y + h.y * p.x⟩ : V2 α).homog := by
  ext j; fin_cases j <;> simp [Gen.M33.setShearV, M33.toMat, V2.homog, Matrix.vecMul, dotProduct, Fin.sum_univ_three] <;> ring
theorem M33_setShearV_dir {α : Type} [CommRing α] (m0 : M33 α) (h d : V2 α) :
    d.homogDir ᵥ* (Gen.M33.setShearV m0 h).toMat = (⟨d.x + h.x * d.y, d.y + h.y * d.x⟩ : V2 α).homogDir := by
  ext j; fin_cases j <;> simp [Gen.M33.setShearV, M33.toMat, V2.homogDir, Matrix.vecMul, dotProduct, Fin.sum_univ_three] <;> ring
theorem M33_setShearS_eq_setShearV {α : Type} [CommRing α] (m0 : M33 α) (xy : α) :
    Gen.M33.setShearS m0 xy = Gen.M33.setShearV m0 ⟨xy, 0⟩ := rfl

/-- `setRotation r` turns a 2-D point counter-clockwise by `r`: `(x, y) ↦ (x cos r − y sin r, x sin r + y cos r)` -/
theorem M33_setRotation_point {α : Type} [CommRing α] (sin cos : α → α) (m0 : M33 α) (r : α) (p : V2 α) :
    p.homog ᵥ* (Gen.M33.setRotation sin cos m0 r).toMat = (⟨p.x * cos r - p.y * sin r, p.x * sin r + p.y * cos r⟩ : V2 α).homog := by
  ext j; fin_cases j <;> simp [Gen.M33.setRotation, M33.toMat, V2.homog, Matrix.vecMul, dotProduct, Fin.sum_univ_three] <;> ring
/-- … it is orthonormal with determinant +1 -/
theorem M33_setRotation_rotation {α : Type} [CommRing α] (sin cos : α → α) (hsc : ∀ x, sin x ^ 2 + cos x ^ 2 = 1) (m0 : M33 α) (r : α) :
    (Gen.M33.setRotation sin cos m0 r).toMat * (Gen.M33.setRotation sin cos m0 r).toMatᵀ = 1 ∧
      (Gen.M33.setRotation sin cos m0 r).toMat.det = 1 := by
  have e : (Gen.M33.setRotation sin cos m0 r).toMat = rz3 (sin r) (cos r) := by
    ext i j; fin_cases i <;> fin_cases j <;> simp [Gen.M33.setRotation, M33.toMat, rz3]
  rw [e]; exact isRot_rz3 (hsc r)

/-- Matrix33 in-place forms for an arbitrary current matrix: translate/scale/shear PRE-multiply … -/
theorem M33_translate {α : Type} [CommRing α] (m m0 : M33 α) (t : V2 α) :
    (Gen.M33.translate m t).toMat = (Gen.M33.setTranslation m0 t).toMat * m.toMat := by
  ext i j; fin_cases i <;> fin_cases j <;>
    simp [Gen.M33.translate, Gen.M33.setTranslation, M33.toMat, Matrix.mul_apply, Fin.sum_univ_three] <;> ring
theorem M33_scale {α : Type} [CommRing α] (m m0 : M33 α) (s : V2 α) :
    (Gen.M33.scale m s).toMat = (Gen.M33.setScaleV m0 s).toMat * m.toMat := by
  ext i j; fin_cases i <;> fin_cases j <;>
    simp [Gen.M33.scale, Gen.M33.setScaleV, M33.toMat, Matrix.mul_apply, Fin.sum_univ_three] <;> ring
theorem M33_shearS {α : Type} [CommRing α] (m m0 : M33 α) (xy : α) :
    (Gen.M33.shearS m xy).toMat = (Gen.M33.setShearS m0 xy).toMat * m.toMat := by
  ext i j; fin_cases i <;> fin_cases j <;>
    simp [Gen.M33.shearS, Gen.M33.setShearS, M33.toMat, Matrix.mul_apply, Fin.sum_univ_three] <;> ring
theorem M33_shearV {α : Type} [CommRing α] (m m0 : M33 α) (h : V2 α) :
    (Gen.M33.shearV m h).toMat = (Gen.M33.setShearV m0 h).toMat * m.toMat := by
  ext i j; fin_cases i <;> fin_cases j <;>
    simp [Gen.M33.shearV, Gen.M33.setShearV, M33.toMat, Matrix.mul_apply, Fin.sum_univ_three] <;> ring
/-- … while `rotate` POST-multiplies: `M * setRotation r` -/
theorem M33_rotate {α : Type} [CommRing α] (sin cos : α → α) (m m0 : M33 α) (r : α) :
    (Gen.M33.rotate sin cos m r).toMat = m.toMat * (Gen.M33.setRotation sin cos m0 r).toMat := by
  ext i j; fin_cases i <;> fin_cases j <;>
    simp [Gen.M33.rotate, Gen.M33.setRotation, M33.toMat, Matrix.mul_apply, Fin.sum_univ_three] <;> ring

/-! ## Matrix22 -/

theorem M22_setRotation {α : Type} [CommRing α] (sin cos : α → α) (m0 : M22 α) (r : α) :
    (Gen.M22.setRotation sin cos m0 r).toMat = !![cos r, sin r; -sin r, cos r] := by
  ext i j; fin_cases i <;> fin_cases j <;> simp [Gen.M22.setRotation, M22.toMat]
theorem M22_setRotation_point {α : Type} [CommRing α] (sin cos : α → α) (m0 : M22 α) (r : α) (p : V2 α) :
    p.toVec ᵥ* (Gen.M22.setRotation sin cos m0 r).toMat = (⟨p.x * cos r - p.y * sin r, p.x * sin r + p.y * cos r⟩ : V2 α).toVec := by
  ext j; fin_cases j <;> simp [Gen.M22.setRotation, M22.toMat, V2.toVec, Matrix.vecMul, dotProduct, Fin.sum_univ_two] <;> ring
theorem M22_setRotation_rotation {α : Type} [CommRing α] (sin cos : α → α) (hsc : ∀ x, sin x ^ 2 + cos x ^ 2 = 1) (m0 : M22 α) (r : α) :
    (Gen.M22.setRotation sin cos m0 r).toMat * (Gen.M22.setRotation sin cos m0 r).toMatᵀ = 1 ∧
      (Gen.M22.setRotation sin cos m0 r).toMat.det = 1 := by
  have h := hsc r
  constructor
  · ext i j; fin_cases i <;> fin_cases j <;>
      simp [Gen.M22.setRotation, M22.toMat, Matrix.mul_apply, Fin.sum_univ_two] <;> first | ring1 | linear_combination h
  · simp [Gen.M22.setRotation, M22.toMat, Matrix.det_fin_two]; linear_combination h
theorem M22_rotate {α : Type} [CommRing α] (sin cos : α → α) (m m0 : M22 α) (r : α) :
    (Gen.M22.rotate sin cos m r).toMat = m.toMat * (Gen.M22.setRotation sin cos m0 r).toMat := by
  ext i j; fin_cases i <;> fin_cases j <;>
    simp [Gen.M22.rotate, Gen.M22.setRotation, M22.toMat, Matrix.mul_apply, Fin.sum_univ_two] <;> ring
theorem M22_setScaleV_point {α : Type} [CommRing α] (m0 : M22 α) (s p : V2 α) :
    p.toVec ᵥ* (Gen.M22.setScaleV m0 s).toMat = (⟨p.x * s.x, p.y * s.y⟩ : V2 α).toVec := by
  ext j; fin_cases j <;> simp [Gen.M22.setScaleV, M22.toMat, V2.toVec, Matrix.vecMul, dotProduct, Fin.sum_univ_two]
theorem M22_setScaleS {α : Type} [CommRing α] (m0 : M22 α) (s : α) :
    Gen.M22.setScaleS m0 s = Gen.M22.setScaleV m0 ⟨s, s⟩ := rfl
theorem M22_scale {α : Type} [CommRing α] (m m0 : M22 α) (s : V2 α) :
    (Gen.M22.scale m s).toMat = (Gen.M22.setScaleV m0 s).toMat * m.toMat := by
  ext i j; fin_cases i <;> fin_cases j <;>
    simp [Gen.M22.scale, Gen.M22.setScaleV, M22.toMat, Matrix.mul_apply, Fin.sum_univ_two] <;> ring

/-! ## Frame builders

`IsFrame M`: the 3×3 block of `M` has orthonormal rows and determinant +1 (right-handed) and the last column is `(0,0,0,1)`.
`nrm len v` is `Vec3::normalized()` (`v / len v`, zero for zero length); `row0..row2` are the axes, `row3` the origin. -/

section Frames
variable {α : Type} [Field α] [LinearOrder α] [IsStrictOrderedRing α]

/-- `alignZAxisWithTargetDir`: the extracted 60-path tree equals the documented case analysis (`alignZSpec`), structurally -/
theorem alignZAxisWithTargetDir_spec (tmin : α) (sqrt : α → α) (targetDir upDir : V3 α) :
    Gen.Frame.alignZAxisWithTargetDir tmin sqrt targetDir upDir = alignZSpec (Gen.V3.length tmin sqrt) targetDir upDir :=
  alignZ_eq_spec tmin sqrt targetDir upDir

/-- EVERY path — zero target, zero up, up ∥ target (both fallback axes), generic — yields an orthonormal right-handed
frame without translation whose z-row is the normalised target (`+z` for a zero target) -/
theorem alignZAxisWithTargetDir_frame (tmin : α) (sqrt : α → α) (hlen : LenSpec (Gen.V3.length tmin sqrt)) (targetDir upDir : V3 α) :
    IsFrame (Gen.Frame.alignZAxisWithTargetDir tmin sqrt targetDir upDir) ∧
      row3 (Gen.Frame.alignZAxisWithTargetDir tmin sqrt targetDir upDir) = ⟨0, 0, 0⟩ ∧
      row2 (Gen.Frame.alignZAxisWithTargetDir tmin sqrt targetDir upDir)
        = nrm (Gen.V3.length tmin sqrt) (if targetDir = ⟨0, 0, 0⟩ then ⟨0, 0, 1⟩ else targetDir) := by
  rw [alignZ_eq_spec]
  have h := alignZSpec_isFrame hlen targetDir upDir
  refine ⟨h.1, h.2.1, ?_⟩
  rw [h.2.2]; congr 1
  simp only [azTarget, len_eq_zero_iff hlen]

/-- generic inputs (target ≠ 0, up not parallel to it): the documented axes — x-row `up × target`, y-row
`target × (up × target)`, z-row `target`, all normalised -/
theorem alignZAxisWithTargetDir_axes (tmin : α) (sqrt : α → α) (hlen : LenSpec (Gen.V3.length tmin sqrt)) (targetDir upDir : V3 α)
    (ht : targetDir ≠ ⟨0, 0, 0⟩) (hut : cross upDir targetDir ≠ ⟨0, 0, 0⟩) :
    Gen.Frame.alignZAxisWithTargetDir tmin sqrt targetDir upDir =
      frameM44 (nrm (Gen.V3.length tmin sqrt) (cross upDir targetDir))
               (nrm (Gen.V3.length tmin sqrt) (cross targetDir (cross upDir targetDir)))
               (nrm (Gen.V3.length tmin sqrt) targetDir) ⟨0, 0, 0⟩ := by
  rw [alignZ_eq_spec]; exact alignZSpec_main hlen ht hut
example : (⟨0, 0, 2⟩ : V3 ℝ) ≠ ⟨0, 0, 0⟩ ∧ cross (⟨0, 3, 0⟩ : V3 ℝ) ⟨0, 0, 2⟩ ≠ ⟨0, 0, 0⟩ := by
  constructor <;> simp [cross]

/-- fallbacks: a zero target is replaced by `+z`, a zero up by `+y` … -/
theorem alignZAxisWithTargetDir_zero_target (tmin : α) (sqrt : α → α) (hlen : LenSpec (Gen.V3.length tmin sqrt)) (upDir : V3 α) :
    Gen.Frame.alignZAxisWithTargetDir tmin sqrt ⟨0, 0, 0⟩ upDir = Gen.Frame.alignZAxisWithTargetDir tmin sqrt ⟨0, 0, 1⟩ upDir := by
  rw [alignZ_eq_spec, alignZ_eq_spec]; exact alignZSpec_zero_target hlen upDir
theorem alignZAxisWithTargetDir_zero_up (tmin : α) (sqrt : α → α) (hlen : LenSpec (Gen.V3.length tmin sqrt)) (targetDir : V3 α) :
    Gen.Frame.alignZAxisWithTargetDir tmin sqrt targetDir ⟨0, 0, 0⟩ = Gen.Frame.alignZAxisWithTargetDir tmin sqrt targetDir ⟨0, 1, 0⟩ := by
  rw [alignZ_eq_spec, alignZ_eq_spec]; exact alignZSpec_zero_up hlen targetDir
/-- … and an up direction exactly parallel to the target by `target × x̂`, or by `target × ẑ` when the target is along x;
the substituted up is never parallel to the target -/
theorem alignZAxisWithTargetDir_parallel (tmin : α) (sqrt : α → α) (hlen : LenSpec (Gen.V3.length tmin sqrt)) (targetDir upDir : V3 α)
    (ht : targetDir ≠ ⟨0, 0, 0⟩) (hu : upDir ≠ ⟨0, 0, 0⟩) (hut : cross upDir targetDir = ⟨0, 0, 0⟩) :
    Gen.Frame.alignZAxisWithTargetDir tmin sqrt targetDir upDir
        = Gen.Frame.alignZAxisWithTargetDir tmin sqrt targetDir
            (if cross targetDir ⟨1, 0, 0⟩ = ⟨0, 0, 0⟩ then cross targetDir ⟨0, 0, 1⟩ else cross targetDir ⟨1, 0, 0⟩) ∧
      cross (if cross targetDir ⟨1, 0, 0⟩ = ⟨0, 0, 0⟩ then cross targetDir ⟨0, 0, 1⟩ else cross targetDir ⟨1, 0, 0⟩) targetDir
        ≠ ⟨0, 0, 0⟩ := by
  have h := alignZSpec_parallel hlen ht hu hut
  have e : azFallbackUp (Gen.V3.length tmin sqrt) targetDir
      = (if cross targetDir ⟨1, 0, 0⟩ = ⟨0, 0, 0⟩ then cross targetDir ⟨0, 0, 1⟩ else cross targetDir ⟨1, 0, 0⟩) := by
    simp only [azFallbackUp, len_eq_zero_iff hlen]
  rw [alignZ_eq_spec, alignZ_eq_spec, ← e]; exact h
example : (⟨0, 0, 2⟩ : V3 ℝ) ≠ ⟨0, 0, 0⟩ ∧ (⟨0, 0, -5⟩ : V3 ℝ) ≠ ⟨0, 0, 0⟩ ∧ cross (⟨0, 0, -5⟩ : V3 ℝ) ⟨0, 0, 2⟩ = ⟨0, 0, 0⟩ := by
  refine ⟨by simp, by simp, by simp [cross]⟩

/-- `rotationMatrixWithUpDir`: identity for a zero `fromDir`, otherwise `alignZ(fromDir, +y)ᵀ · alignZ(toDir, upDir)` -/
theorem rotationMatrixWithUpDir_eq_alignZ (tmin : α) (sqrt : α → α) (fromDir toDir upDir : V3 α) :
    (Gen.Frame.rotationMatrixWithUpDir tmin sqrt fromDir toDir upDir).toMat =
      if Gen.V3.length tmin sqrt fromDir = 0 then 1
      else (Gen.Frame.alignZAxisWithTargetDir tmin sqrt fromDir ⟨0, 1, 0⟩).toMatᵀ
            * (Gen.Frame.alignZAxisWithTargetDir tmin sqrt toDir upDir).toMat :=
  rotationMatrixWithUpDir_eq tmin sqrt fromDir toDir upDir

/-- for ANY `toDir`, `upDir` (zero and parallel included) and `fromDir ≠ 0`: an orthonormal right-handed frame without
translation that takes the direction of `fromDir` to the direction of `toDir` (`+z` for a zero `toDir`) -/
theorem rotationMatrixWithUpDir_frame (tmin : α) (sqrt : α → α) (hlen : LenSpec (Gen.V3.length tmin sqrt)) (fromDir toDir upDir : V3 α)
    (hf : fromDir ≠ ⟨0, 0, 0⟩) :
    IsFrame (Gen.Frame.rotationMatrixWithUpDir tmin sqrt fromDir toDir upDir) ∧
      row3 (Gen.Frame.rotationMatrixWithUpDir tmin sqrt fromDir toDir upDir) = ⟨0, 0, 0⟩ ∧
      (nrm (Gen.V3.length tmin sqrt) fromDir).toVec ᵥ* rot3 (Gen.Frame.rotationMatrixWithUpDir tmin sqrt fromDir toDir upDir)
        = (nrm (Gen.V3.length tmin sqrt) (if toDir = ⟨0, 0, 0⟩ then ⟨0, 0, 1⟩ else toDir)).toVec := by
  have hA := alignZAxisWithTargetDir_frame tmin sqrt hlen fromDir ⟨0, 1, 0⟩
  have hB := alignZAxisWithTargetDir_frame tmin sqrt hlen toDir upDir
  have hl : Gen.V3.length tmin sqrt fromDir ≠ 0 := len_ne_zero hlen hf
  have e := rotationMatrixWithUpDir_eq tmin sqrt fromDir toDir upDir
  rw [if_neg hl] at e
  obtain ⟨hF, h3, hr⟩ := isFrame_transpose_mul hA.1 hA.2.1 hB.1 hB.2.1 e
  refine ⟨hF, h3, ?_⟩
  rw [hr, ← Matrix.vecMul_vecMul]
  have hrow : (nrm (Gen.V3.length tmin sqrt) fromDir).toVec
      = fun j => rot3 (Gen.Frame.alignZAxisWithTargetDir tmin sqrt fromDir ⟨0, 1, 0⟩) 2 j := by
    have := hA.2.2
    rw [if_neg hf] at this
    rw [← this]
    ext j; fin_cases j <;> simp [V3.toVec, row2, rot3]
  rw [hrow, vecMul_transpose_row2 hA.1.1, ← hB.2.2]
  ext j; fin_cases j <;> simp [V3.toVec, row2, rot3, Matrix.vecMul, dotProduct, Fin.sum_univ_three]
/-- a zero `fromDir` gives the identity -/
theorem rotationMatrixWithUpDir_zero_from (tmin : α) (sqrt : α → α) (hlen : LenSpec (Gen.V3.length tmin sqrt)) (toDir upDir : V3 α) :
    (Gen.Frame.rotationMatrixWithUpDir tmin sqrt ⟨0, 0, 0⟩ toDir upDir).toMat = 1 := by
  rw [rotationMatrixWithUpDir_eq, if_pos ((len_eq_zero_iff hlen _).mpr rfl)]

/-- `computeLocalFrame`: extracted tree = `x̂ = xDir^`, `ŷ = (normal × x̂)^`, `ẑ = (x̂ × ŷ)^`, origin `p` -/
theorem computeLocalFrame_spec (tmin : α) (sqrt : α → α) (p xDir normal : V3 α) :
    Gen.Frame.computeLocalFrame tmin sqrt p xDir normal = computeLocalFrameSpec (Gen.V3.length tmin sqrt) p xDir normal :=
  computeLocalFrame_eq_spec tmin sqrt p xDir normal
/-- for `xDir ≠ 0` not parallel to `normal`: an orthonormal right-handed frame at `p` with the x-axis along `xDir`, the y-axis
along `normal × xDir` (so `normal` is normal to the y-axis), z = x × y, and z along `normal` when `normal ⟂ xDir` (documented) -/
theorem computeLocalFrame_frame (tmin : α) (sqrt : α → α) (hlen : LenSpec (Gen.V3.length tmin sqrt)) (p xDir normal : V3 α)
    (hx : xDir ≠ ⟨0, 0, 0⟩) (hn : cross normal xDir ≠ ⟨0, 0, 0⟩) :
    IsFrame (Gen.Frame.computeLocalFrame tmin sqrt p xDir normal) ∧
      row3 (Gen.Frame.computeLocalFrame tmin sqrt p xDir normal) = p ∧
      row0 (Gen.Frame.computeLocalFrame tmin sqrt p xDir normal) = nrm (Gen.V3.length tmin sqrt) xDir ∧
      row1 (Gen.Frame.computeLocalFrame tmin sqrt p xDir normal) = nrm (Gen.V3.length tmin sqrt) (cross normal xDir) ∧
      row2 (Gen.Frame.computeLocalFrame tmin sqrt p xDir normal)
        = cross (nrm (Gen.V3.length tmin sqrt) xDir) (nrm (Gen.V3.length tmin sqrt) (cross normal xDir)) ∧
      (dot xDir normal = 0 → row2 (Gen.Frame.computeLocalFrame tmin sqrt p xDir normal) = nrm (Gen.V3.length tmin sqrt) normal) := by
  rw [computeLocalFrame_eq_spec]; exact computeLocalFrameSpec_frame hlen p hx hn
example : (⟨2, 0, 0⟩ : V3 ℝ) ≠ ⟨0, 0, 0⟩ ∧ cross (⟨0, 0, 3⟩ : V3 ℝ) ⟨2, 0, 0⟩ ≠ ⟨0, 0, 0⟩ ∧ dot (⟨2, 0, 0⟩ : V3 ℝ) ⟨0, 0, 3⟩ = 0 := by
  refine ⟨by simp, by simp [cross], by simp [dot]⟩

/-- `firstFrame`: extracted 18-path tree = the documented construction; `pi = pj` is the `domain_error` path
(NB the real function is declared `noexcept`, so that path terminates the program instead of throwing — see the check's notes) -/
theorem firstFrame_spec (tmin : α) (sqrt : α → α) (pi pj pk : V3 α) :
    Gen.Frame.firstFrame tmin sqrt pi pj pk = firstFrameSpec (Gen.V3.length tmin sqrt) pi pj pk :=
  firstFrame_eq_spec tmin sqrt pi pj pk
/-- three non-collinear points: orthonormal right-handed frame at `pi`, tangent (x-row) along `pj − pi`, y-row along
`(pj − pi) × (pk − pi)` (the plane normal), z-row = x × y -/
theorem firstFrame_frame (tmin : α) (sqrt : α → α) (hlen : LenSpec (Gen.V3.length tmin sqrt)) (pi pj pk : V3 α)
    (hd : vsub pj pi ≠ ⟨0, 0, 0⟩) (hc : cross (vsub pj pi) (vsub pk pi) ≠ ⟨0, 0, 0⟩) :
    ∃ M, Gen.Frame.firstFrame tmin sqrt pi pj pk = .ok M ∧ IsFrame M ∧ row3 M = pi ∧
      row0 M = nrm (Gen.V3.length tmin sqrt) (vsub pj pi) ∧
      row1 M = nrm (Gen.V3.length tmin sqrt) (cross (vsub pj pi) (vsub pk pi)) ∧ row2 M = cross (row0 M) (row1 M) := by
  rw [firstFrame_eq_spec]; exact firstFrameSpec_main hlen hd hc
example : vsub (⟨1, 0, 0⟩ : V3 ℝ) ⟨0, 0, 0⟩ ≠ ⟨0, 0, 0⟩ ∧
    cross (vsub (⟨1, 0, 0⟩ : V3 ℝ) ⟨0, 0, 0⟩) (vsub (⟨0, 1, 0⟩ : V3 ℝ) ⟨0, 0, 0⟩) ≠ ⟨0, 0, 0⟩ := by
  constructor <;> simp [vsub, cross]
/-- collinear points ("an arbitrary twist value will be chosen"): still an orthonormal right-handed frame at `pi` with the tangent
along `pj − pi`; the twist is fixed by the coordinate axis along which the tangent is smallest -/
theorem firstFrame_collinear (tmin : α) (sqrt : α → α) (hlen : LenSpec (Gen.V3.length tmin sqrt)) (pi pj pk : V3 α)
    (hd : vsub pj pi ≠ ⟨0, 0, 0⟩) (hc : cross (vsub pj pi) (vsub pk pi) = ⟨0, 0, 0⟩) :
    ∃ M, Gen.Frame.firstFrame tmin sqrt pi pj pk = .ok M ∧ IsFrame M ∧ row3 M = pi ∧
      row0 M = nrm (Gen.V3.length tmin sqrt) (vsub pj pi) ∧ row2 M = cross (row0 M) (row1 M) := by
  rw [firstFrame_eq_spec]
  obtain ⟨M, h1, h2, h3, h4, _, h6⟩ := firstFrameSpec_collinear hlen hd hc
  exact ⟨M, h1, h2, h3, h4, h6⟩
/-- coincident first two points: the `std::domain_error` path -/
theorem firstFrame_coincident (tmin : α) (sqrt : α → α) (hlen : LenSpec (Gen.V3.length tmin sqrt)) (pi pk : V3 α) :
    Gen.Frame.firstFrame tmin sqrt pi pi pk = .error Exc.domainError := by
  rw [firstFrame_eq_spec]
  have : Gen.V3.length tmin sqrt (vsub pi pi) = 0 := (len_eq_zero_iff hlen _).mpr (by simp [vsub])
  simp [firstFrameSpec, this]

/-- `lastFrame (Mi, pi, pj)` = `Mi` followed by the translation `pj − pi` … -/
theorem lastFrame_eq (Mi m0 : M44 α) (pi pj : V3 α) :
    (Gen.Frame.lastFrame Mi pi pj).toMat = Mi.toMat * (Gen.M44.setTranslation m0 (vsub pj pi)).toMat := by
  rw [lastFrame_toMat, transMat_eq_setTranslation m0]
/-- … so an orthonormal right-handed frame with origin `pi` becomes the same axes with origin `pj` -/
theorem lastFrame_frame (Mi : M44 α) (pi pj : V3 α) (hMi : IsFrame Mi) (hpi : row3 Mi = pi) :
    IsFrame (Gen.Frame.lastFrame Mi pi pj) ∧ rot3 (Gen.Frame.lastFrame Mi pi pj) = rot3 Mi ∧
      row3 (Gen.Frame.lastFrame Mi pi pj) = pj := by
  obtain ⟨h1, h2, h3⟩ := frame_mul_trans hMi (lastFrame_toMat Mi pi pj)
  refine ⟨h1, h2, ?_⟩
  rw [h3, hpi]
  obtain ⟨x, y, z⟩ := pi
  obtain ⟨x', y', z'⟩ := pj
  simp [vadd, vsub]
example : IsFrame (M44.identity : M44 ℝ) ∧ row3 (M44.identity : M44 ℝ) = ⟨0, 0, 0⟩ := by
  refine ⟨⟨?_, rfl, rfl, rfl, rfl⟩, rfl⟩
  have : rot3 (M44.identity : M44 ℝ) = 1 := by
    ext i j; fin_cases i <;> fin_cases j <;> simp [rot3, M44.identity]
  rw [this]; exact IsRot.one

/-- `nextFrame`: the extracted 13-path tree as Mathlib matrices — `Mi · T(−pi) · R · T(pj)` with `R = axisAngleM44 (ti^ × tj^) (acos (ti^·tj^))`, the matrix `setAxisAngle` writes (`M44_setAxisAngle_eq`), when both tangents
are non-zero, not parallel and the angle is non-zero, else `Mi · T(pj − pi)` (`nextFrameStep`; `acos` is a parameter: the code calls
`acosf` for every element type, see the check's notes) -/
theorem nextFrame_eq (tmin : α) (sqrt sin cos acos : α → α) (Mi : M44 α) (pi pj ti tj : V3 α) :
    (Gen.Frame.nextFrame tmin sqrt sin cos acos Mi pi pj ti tj).1.toMat
      = Mi.toMat * nextFrameStep tmin sqrt sin cos acos pi pj ti tj :=
  nextFrame_toMat tmin sqrt sin cos acos Mi pi pj ti tj
/-- EVERY path (zero / parallel tangents included): an orthonormal right-handed previous frame with origin `pi` becomes an orthonormal
right-handed frame with origin `pj`, its axes turned by the rotation `nextFrameRot` -/
theorem nextFrame_frame (tmin : α) (sqrt sin cos acos : α → α) (hlen : LenSpec (Gen.V3.length tmin sqrt))
    (hsc : ∀ x, sin x ^ 2 + cos x ^ 2 = 1) (Mi : M44 α) (pi pj ti tj : V3 α) (hMi : IsFrame Mi) (hpi : row3 Mi = pi) :
    IsFrame (Gen.Frame.nextFrame tmin sqrt sin cos acos Mi pi pj ti tj).1 ∧
      row3 (Gen.Frame.nextFrame tmin sqrt sin cos acos Mi pi pj ti tj).1 = pj ∧
      rot3 (Gen.Frame.nextFrame tmin sqrt sin cos acos Mi pi pj ti tj).1 = rot3 Mi * nextFrameRot tmin sqrt sin cos acos ti tj ∧
      IsRot (nextFrameRot tmin sqrt sin cos acos ti tj) :=
  nextFrame_isFrame tmin sqrt sin cos acos hlen hsc Mi pi pj ti tj hMi hpi
/-- for non-zero, non-parallel tangents that rotation takes the direction of `ti` to the direction of `tj` (so a frame whose x-row is the
old tangent gets the new tangent as x-row). Assumed of `acos`: `cos (acos x) = x ∧ 0 ≤ sin (acos x)` on `[−1, 1]`, and `cos 0 = 1` -/
theorem nextFrame_tangent (tmin : α) (sqrt sin cos acos : α → α) (hlen : LenSpec (Gen.V3.length tmin sqrt))
    (hac : AcosSpec sin cos acos) (ti tj : V3 α) (hi : ti ≠ ⟨0, 0, 0⟩) (hj : tj ≠ ⟨0, 0, 0⟩) (hij : cross ti tj ≠ ⟨0, 0, 0⟩) :
    (nrm (Gen.V3.length tmin sqrt) ti).toVec ᵥ* nextFrameRot tmin sqrt sin cos acos ti tj
      = (nrm (Gen.V3.length tmin sqrt) tj).toVec :=
  nextFrameRot_align tmin sqrt sin cos acos hlen hac ti tj hi hj hij
/-- real `arccos`, `sin`, `cos` satisfy the assumption -/
example : AcosSpec Real.sin Real.cos Real.arccos :=
  ⟨Real.sin_sq_add_cos_sq, Real.cos_zero, fun x h1 h2 => ⟨Real.cos_arccos h1 h2, Real.sin_arccos x ▸ Real.sqrt_nonneg _⟩⟩
/-- the tangents are normalised in place (non-const reference arguments) when both are non-zero, else left alone -/
theorem nextFrame_tangents_out (tmin : α) (sqrt sin cos acos : α → α) (Mi : M44 α) (pi pj ti tj : V3 α) :
    (Gen.Frame.nextFrame tmin sqrt sin cos acos Mi pi pj ti tj).2 =
      if ¬ Gen.V3.length tmin sqrt ti = 0 ∧ ¬ Gen.V3.length tmin sqrt tj = 0 then
        (⟨ti.x / Gen.V3.length tmin sqrt ti, ti.y / Gen.V3.length tmin sqrt ti, ti.z / Gen.V3.length tmin sqrt ti⟩,
         ⟨tj.x / Gen.V3.length tmin sqrt tj, tj.y / Gen.V3.length tmin sqrt tj, tj.z / Gen.V3.length tmin sqrt tj⟩)
      else (ti, tj) :=
  nextFrame_tangents tmin sqrt sin cos acos Mi pi pj ti tj

/-- `addOffset (inMat, t, r, s, ref)` = scale(s) · rotateXYZ(r · π/180) · translate(t) · inMat · ref, the degree→radian factor being the
double nearest π/180 (`degToRad = 5030569068109113 / 2^58`) -/
theorem addOffset_eq (sin cos : α → α) (inMat ref m0 m1 m2 : M44 α) (tOffset rOffset sOffset : V3 α) :
    (Gen.Frame.addOffset sin cos inMat tOffset rOffset sOffset ref).toMat =
      (Gen.M44.setScaleV m0 sOffset).toMat
        * ((Gen.M44.setEulerAngles sin cos m1 (smul degToRad rOffset)).toMat * (Gen.M44.setTranslation m2 tOffset).toMat)
        * inMat.toMat * ref.toMat := by
  rw [addOffset_toMat sin cos inMat ref m0 m1, transMat_eq_setTranslation m2]
example : |(degToRad : ℝ) * 180 - 3.14159265358979| < 1 / 10 ^ 14 := by
  unfold degToRad; rw [abs_lt]; constructor <;> norm_num

/-- `rotationMatrix (from, to)` = `Quat::setRotation (from, to).toMatrix44 ()`; for non-zero `from`, `to` the 115-path tree of
`setRotation` equals the documented case analysis `quatSetRotationSpec` (angle ≤ π/2: one half-way quaternion; larger: product of two;
`|from^ + to^|² ≤ (8ε)²`, i.e. opposite to within rounding: half-turn about an axis ⟂ `from`).  `teps` is `numeric_limits<T>::epsilon()`. -/
theorem rotationMatrix_spec (tmin teps : α) (sqrt : α → α) (hlen : LenSpec (Gen.V3.length tmin sqrt)) (fromDir toDir : V3 α)
    (hf : fromDir ≠ ⟨0, 0, 0⟩) (ht : toDir ≠ ⟨0, 0, 0⟩) :
    Gen.Frame.rotationMatrix tmin teps sqrt fromDir toDir
      = Gen.Frame.quatToMatrix44 (quatSetRotationSpec (Gen.V3.length tmin sqrt) teps fromDir toDir) :=
  rotationMatrix_eq tmin teps sqrt fromDir toDir (len_ne_zero hlen hf) (len_ne_zero hlen ht)
/-- non-zero directions at an angle ≤ π/2: orthonormal, right-handed, no translation, takes `from^` to `to^` -/
theorem rotationMatrix_acute (tmin teps : α) (sqrt : α → α) (hlen : LenSpec (Gen.V3.length tmin sqrt)) (fromDir toDir : V3 α)
    (hf : fromDir ≠ ⟨0, 0, 0⟩) (ht : toDir ≠ ⟨0, 0, 0⟩)
    (hd : 0 ≤ dot (nrm (Gen.V3.length tmin sqrt) fromDir) (nrm (Gen.V3.length tmin sqrt) toDir)) :
    IsFrame (Gen.Frame.rotationMatrix tmin teps sqrt fromDir toDir) ∧ row3 (Gen.Frame.rotationMatrix tmin teps sqrt fromDir toDir) = ⟨0, 0, 0⟩ ∧
      (nrm (Gen.V3.length tmin sqrt) fromDir).toVec ᵥ* rot3 (Gen.Frame.rotationMatrix tmin teps sqrt fromDir toDir)
        = (nrm (Gen.V3.length tmin sqrt) toDir).toVec := by
  rw [rotationMatrix_spec tmin teps sqrt hlen fromDir toDir hf ht]; exact rotationMatrixSpec_acute hlen teps hf ht hd
/-- exactly opposite directions: a half-turn about an axis perpendicular to `from`; takes `from^` to `to^ = −from^` -/
theorem rotationMatrix_opposite (tmin teps : α) (sqrt : α → α) (hlen : LenSpec (Gen.V3.length tmin sqrt)) (fromDir toDir : V3 α)
    (hf : fromDir ≠ ⟨0, 0, 0⟩) (ht : toDir ≠ ⟨0, 0, 0⟩)
    (hopp : vadd (nrm (Gen.V3.length tmin sqrt) fromDir) (nrm (Gen.V3.length tmin sqrt) toDir) = ⟨0, 0, 0⟩) :
    IsFrame (Gen.Frame.rotationMatrix tmin teps sqrt fromDir toDir) ∧ row3 (Gen.Frame.rotationMatrix tmin teps sqrt fromDir toDir) = ⟨0, 0, 0⟩ ∧
      (nrm (Gen.V3.length tmin sqrt) fromDir).toVec ᵥ* rot3 (Gen.Frame.rotationMatrix tmin teps sqrt fromDir toDir)
        = (nrm (Gen.V3.length tmin sqrt) toDir).toVec := by
  rw [rotationMatrix_spec tmin teps sqrt hlen fromDir toDir hf ht]; exact rotationMatrixSpec_opposite hlen teps hf ht hopp
/-- opposite to within `|from^ + to^|² ≤ (8ε)²`: still an exact half-turn (orthonormal, right-handed); it takes `from^` to `−from^`,
which differs from `to^` by at most `8ε` in norm -/
theorem rotationMatrix_nearOpposite (tmin teps : α) (sqrt : α → α) (hlen : LenSpec (Gen.V3.length tmin sqrt)) (fromDir toDir : V3 α)
    (hf : fromDir ≠ ⟨0, 0, 0⟩) (ht : toDir ≠ ⟨0, 0, 0⟩)
    (hd : dot (nrm (Gen.V3.length tmin sqrt) fromDir) (nrm (Gen.V3.length tmin sqrt) toDir) < 0)
    (hopp : dot (vadd (nrm (Gen.V3.length tmin sqrt) fromDir) (nrm (Gen.V3.length tmin sqrt) toDir))
                (vadd (nrm (Gen.V3.length tmin sqrt) fromDir) (nrm (Gen.V3.length tmin sqrt) toDir)) ≤ (8 * teps) * (8 * teps)) :
    IsFrame (Gen.Frame.rotationMatrix tmin teps sqrt fromDir toDir) ∧ row3 (Gen.Frame.rotationMatrix tmin teps sqrt fromDir toDir) = ⟨0, 0, 0⟩ ∧
      (nrm (Gen.V3.length tmin sqrt) fromDir).toVec ᵥ* rot3 (Gen.Frame.rotationMatrix tmin teps sqrt fromDir toDir)
        = (vneg (nrm (Gen.V3.length tmin sqrt) fromDir)).toVec := by
  rw [rotationMatrix_spec tmin teps sqrt hlen fromDir toDir hf ht]; exact rotationMatrixSpec_nearOpposite hlen teps hf ht hd hopp
/- FULL statement for the remaining case (angle > π/2, `|from^ + to^|² > (8ε)²`): as `rotationMatrix_acute`, i.e. orthonormal right-handed
   AND `from^ ᵥ* R = to^`.  Proved below: orthonormal, right-handed, affine, no translation (product of two unit quaternions).
   MISSING: `from^ ᵥ* R = to^` for this branch — it needs `M(q₁q₂) = M(q₂)M(q₁)` together with the fact that the two half rotations
   share their axis (nested normalisations); it is measured by the residue harness (`rotationMatrix.from->to`). -/
theorem rotationMatrix_obtuse_partial (tmin teps : α) (sqrt : α → α) (hlen : LenSpec (Gen.V3.length tmin sqrt)) (fromDir toDir : V3 α)
    (hf : fromDir ≠ ⟨0, 0, 0⟩) (ht : toDir ≠ ⟨0, 0, 0⟩)
    (hd : dot (nrm (Gen.V3.length tmin sqrt) fromDir) (nrm (Gen.V3.length tmin sqrt) toDir) < 0)
    (hbig : (8 * teps) * (8 * teps) < dot (vadd (nrm (Gen.V3.length tmin sqrt) fromDir) (nrm (Gen.V3.length tmin sqrt) toDir))
                (vadd (nrm (Gen.V3.length tmin sqrt) fromDir) (nrm (Gen.V3.length tmin sqrt) toDir))) :
    IsFrame (Gen.Frame.rotationMatrix tmin teps sqrt fromDir toDir) ∧ row3 (Gen.Frame.rotationMatrix tmin teps sqrt fromDir toDir) = ⟨0, 0, 0⟩ := by
  rw [rotationMatrix_spec tmin teps sqrt hlen fromDir toDir hf ht]; exact rotationMatrixSpec_obtuse hlen teps hf ht hd hbig
/-- hence for ALL non-zero `from`, `to` (parallel, opposite and nearly opposite included) and every `teps`: an orthonormal right-handed
frame without translation -/
theorem rotationMatrix_frame (tmin teps : α) (sqrt : α → α) (hlen : LenSpec (Gen.V3.length tmin sqrt)) (fromDir toDir : V3 α)
    (hf : fromDir ≠ ⟨0, 0, 0⟩) (ht : toDir ≠ ⟨0, 0, 0⟩) :
    IsFrame (Gen.Frame.rotationMatrix tmin teps sqrt fromDir toDir) ∧ row3 (Gen.Frame.rotationMatrix tmin teps sqrt fromDir toDir) = ⟨0, 0, 0⟩ := by
  by_cases hd : 0 ≤ dot (nrm (Gen.V3.length tmin sqrt) fromDir) (nrm (Gen.V3.length tmin sqrt) toDir)
  · exact ⟨(rotationMatrix_acute tmin teps sqrt hlen fromDir toDir hf ht hd).1, (rotationMatrix_acute tmin teps sqrt hlen fromDir toDir hf ht hd).2.1⟩
  · by_cases hbig : (8 * teps) * (8 * teps) < dot (vadd (nrm (Gen.V3.length tmin sqrt) fromDir) (nrm (Gen.V3.length tmin sqrt) toDir))
        (vadd (nrm (Gen.V3.length tmin sqrt) fromDir) (nrm (Gen.V3.length tmin sqrt) toDir))
    · exact rotationMatrix_obtuse_partial tmin teps sqrt hlen fromDir toDir hf ht (not_le.mp hd) hbig
    · have h := rotationMatrix_nearOpposite tmin teps sqrt hlen fromDir toDir hf ht (not_le.mp hd) (not_lt.mp hbig)
      exact ⟨h.1, h.2.1⟩
example : (⟨1, 0, 0⟩ : V3 ℝ) ≠ ⟨0, 0, 0⟩ ∧ (⟨-3, 1, 0⟩ : V3 ℝ) ≠ ⟨0, 0, 0⟩ := by constructor <;> simp

end Frames

end ImathVerif.C09
