import ImathVerif.Spec.Rand48Field
import Mathlib.Tactic.Linarith
import Mathlib.Tactic.Ring
import Mathlib.Tactic.FieldSimp
import Mathlib.Tactic.NormNum
import Mathlib.Algebra.BigOperators.Fin
import ImathVerif.Gen.C18Samplers
import ImathVerif.Lemmas.C15LengthSpec
import Mathlib.Tactic.FinCases
/-!
# C18 — the sphere samplers: the hand loop models are iterations of the REGENERATED step

`Gen.C18.solidSphereN_iter`, `Gen.C18.hollowSphereN_iter`, `Gen.C18.gaussSphereN_body` (N = 2, 3, 4) are
extracted on every run from the real templates `solidSphereRand`, `hollowSphereRand`, `gaussSphereRand` of
ImathRandom.h, instantiated with a scripted generator (harness/sym/ops_c18.h): the candidate `v` is what the
`for (i < dimensions ()) v[i] = rand.nextf (-1, 1)` pass drew; `.error Exc.outOfRange` means the `while`
condition held (a further candidate is drawn), `.ok r` that the function returned `r`.  `Vec::length ()` is the
generated `Gen.V?.length` (with `lengthTiny`), whose Euclidean-length specification is DERIVED in
Lemmas/C15LengthSpec.lean from `sqrt x * sqrt x = x ∧ 0 ≤ sqrt x`.

Proved here, for every ordered field and every candidate:
* `*_iter_eq`: the generated step IS the step of the hand model (loop condition and returned value);
* `*_is_gen`: the hand loops `Field.solidSphereRand / hollowSphereRand` are `loopGen` of the generated steps;
* `*_loop_exit`: the postconditions, stated directly on the loop over the generated step — inside the closed
  unit ball; `0 < length ≤ 1`, result `v / length`, Euclidean norm² exactly 1; `gaussSphereRand` = that unit
  vector times the factor `g` returned by `gaussRand`, norm² `g²`.

gaussRand itself is `float`-typed whatever the vector type and cannot be regenerated; its loop model
`Field.gaussRandLoop` is tied by the scripted-generator correspondence of tools/props/c18.py (lattice of candidates).
-/
namespace ImathVerif.Rand48.C18
open ImathVerif ImathVerif.Rand48.Field ImathVerif.Geo
set_option linter.unusedSectionVars false

variable {K : Type} [Field K] [LinearOrder K] [IsStrictOrderedRing K] {σ : Type}

theorem length2_fn2 (v : V2 K) : length2 (fn2 v) = v.x * v.x + v.y * v.y := by
  simp [length2, fn2, Fin.sum_univ_two]
theorem length2_fn3 (v : V3 K) : length2 (fn3 v) = v.x * v.x + v.y * v.y + v.z * v.z := by
  simp [length2, fn3, Fin.sum_univ_three]
theorem length2_fn4 (v : V4 K) : length2 (fn4 v) = v.x * v.x + v.y * v.y + v.z * v.z + v.w * v.w := by
  simp [length2, fn4, Fin.sum_univ_four]

/-- whatever a loop over a step returns was accepted by the step on one of the drawn candidates -/
theorem loopGen_exit {β γ : Type} (step : β → Except Exc γ) (draw : σ → β × σ) (fuel : Nat) (s : σ) (r : γ × σ)
    (h : loopGen step draw fuel s = some r) : ∃ s0, step (draw s0).1 = .ok r.1 ∧ (draw s0).2 = r.2 := by
  induction fuel generalizing s with
  | zero => simp [loopGen] at h
  | succ fuel ih =>
    simp only [loopGen] at h
    split at h
    · rename_i r0 hr; cases h; exact ⟨s, hr, rfl⟩
    · exact ih _ h
    · cases h

/-! ## solidSphereRand -/

theorem solidSphere2_iter_eq (v : V2 K) :
    Gen.C18.solidSphere2_iter v = if length2 (fn2 v) > 1 then .error Exc.outOfRange else .ok v := by
  simp only [Gen.C18.solidSphere2_iter, length2_fn2, gt_iff_lt]
theorem solidSphere3_iter_eq (v : V3 K) :
    Gen.C18.solidSphere3_iter v = if length2 (fn3 v) > 1 then .error Exc.outOfRange else .ok v := by
  simp only [Gen.C18.solidSphere3_iter, length2_fn3, gt_iff_lt]
theorem solidSphere4_iter_eq (v : V4 K) :
    Gen.C18.solidSphere4_iter v = if length2 (fn4 v) > 1 then .error Exc.outOfRange else .ok v := by
  simp only [Gen.C18.solidSphere4_iter, length2_fn4, gt_iff_lt]

/-- the hand model of solidSphereRand (Spec/Rand48Field.lean) is the loop over the generated step -/
theorem solidSphereRand_is_gen2 (draw : σ → V2 K × σ) (fuel : Nat) (s : σ) :
    solidSphereRand (fun s => (fn2 (draw s).1, (draw s).2)) fuel s =
      (loopGen Gen.C18.solidSphere2_iter draw fuel s).map (fun r => (fn2 r.1, r.2)) := by
  induction fuel generalizing s with
  | zero => rfl
  | succ fuel ih => simp only [solidSphereRand, loopGen, solidSphere2_iter_eq]; split_ifs <;> simp [ih]
theorem solidSphereRand_is_gen3 (draw : σ → V3 K × σ) (fuel : Nat) (s : σ) :
    solidSphereRand (fun s => (fn3 (draw s).1, (draw s).2)) fuel s =
      (loopGen Gen.C18.solidSphere3_iter draw fuel s).map (fun r => (fn3 r.1, r.2)) := by
  induction fuel generalizing s with
  | zero => rfl
  | succ fuel ih => simp only [solidSphereRand, loopGen, solidSphere3_iter_eq]; split_ifs <;> simp [ih]
theorem solidSphereRand_is_gen4 (draw : σ → V4 K × σ) (fuel : Nat) (s : σ) :
    solidSphereRand (fun s => (fn4 (draw s).1, (draw s).2)) fuel s =
      (loopGen Gen.C18.solidSphere4_iter draw fuel s).map (fun r => (fn4 r.1, r.2)) := by
  induction fuel generalizing s with
  | zero => rfl
  | succ fuel ih => simp only [solidSphereRand, loopGen, solidSphere4_iter_eq]; split_ifs <;> simp [ih]

/-- solidSphereRand, on the loop over the GENERATED step: the returned point is one of the candidates, unchanged,
and lies in the closed unit ball. -/
theorem solidSphere2_loop_exit (draw : σ → V2 K × σ) (fuel : Nat) (s : σ) (r : V2 K × σ)
    (h : loopGen Gen.C18.solidSphere2_iter draw fuel s = some r) :
    dot2 r.1 r.1 ≤ 1 ∧ ∃ s0, draw s0 = r := by
  obtain ⟨s0, h1, h2⟩ := loopGen_exit _ _ _ _ _ h
  rw [solidSphere2_iter_eq, length2_fn2] at h1
  split_ifs at h1 with hc
  injection h1 with h1
  exact ⟨by rw [← h1]; exact not_lt.mp hc, s0, Prod.ext h1 h2⟩
theorem solidSphere3_loop_exit (draw : σ → V3 K × σ) (fuel : Nat) (s : σ) (r : V3 K × σ)
    (h : loopGen Gen.C18.solidSphere3_iter draw fuel s = some r) :
    dot r.1 r.1 ≤ 1 ∧ ∃ s0, draw s0 = r := by
  obtain ⟨s0, h1, h2⟩ := loopGen_exit _ _ _ _ _ h
  rw [solidSphere3_iter_eq, length2_fn3] at h1
  split_ifs at h1 with hc
  injection h1 with h1
  exact ⟨by rw [← h1]; exact not_lt.mp hc, s0, Prod.ext h1 h2⟩
theorem solidSphere4_loop_exit (draw : σ → V4 K × σ) (fuel : Nat) (s : σ) (r : V4 K × σ)
    (h : loopGen Gen.C18.solidSphere4_iter draw fuel s = some r) :
    dot4 r.1 r.1 ≤ 1 ∧ ∃ s0, draw s0 = r := by
  obtain ⟨s0, h1, h2⟩ := loopGen_exit _ _ _ _ _ h
  rw [solidSphere4_iter_eq, length2_fn4] at h1
  split_ifs at h1 with hc
  injection h1 with h1
  exact ⟨by rw [← h1]; exact not_lt.mp hc, s0, Prod.ext h1 h2⟩

/-- non-vacuity: first candidate (1,1,1) rejected, second (1/2,1/2,1/2) accepted -/
def demoDraw3 : Nat → V3 ℚ × Nat := fun s => (if s = 0 then ⟨1, 1, 1⟩ else ⟨1 / 2, 1 / 2, 1 / 2⟩, s + 1)
example : loopGen Gen.C18.solidSphere3_iter demoDraw3 5 0 = some (⟨1 / 2, 1 / 2, 1 / 2⟩, 2) := by decide +kernel

/-! ## hollowSphereRand -/

theorem hollowSphere2_iter_eq (tmin tmax : K) (sqrt : K → K) (v : V2 K) :
    Gen.C18.hollowSphere2_iter tmin tmax sqrt v =
      if Gen.V2.length tmin tmax sqrt v > 1 ∨ Gen.V2.length tmin tmax sqrt v = 0 then .error Exc.outOfRange
      else .ok ⟨v.x / Gen.V2.length tmin tmax sqrt v, v.y / Gen.V2.length tmin tmax sqrt v⟩ := by
  have e : (⟨v.x, v.y⟩ : V2 K) = v := rfl
  simp only [Gen.C18.hollowSphere2_iter, gt_iff_lt, e]
  by_cases h1 : 1 < Gen.V2.length tmin tmax sqrt v <;> by_cases h0 : Gen.V2.length tmin tmax sqrt v = 0 <;> simp [h1, h0]
theorem hollowSphere3_iter_eq (tmin tmax : K) (sqrt : K → K) (v : V3 K) :
    Gen.C18.hollowSphere3_iter tmin tmax sqrt v =
      if Gen.V3.length tmin tmax sqrt v > 1 ∨ Gen.V3.length tmin tmax sqrt v = 0 then .error Exc.outOfRange
      else .ok ⟨v.x / Gen.V3.length tmin tmax sqrt v, v.y / Gen.V3.length tmin tmax sqrt v,
                v.z / Gen.V3.length tmin tmax sqrt v⟩ := by
  have e : (⟨v.x, v.y, v.z⟩ : V3 K) = v := rfl
  simp only [Gen.C18.hollowSphere3_iter, gt_iff_lt, e]
  by_cases h1 : 1 < Gen.V3.length tmin tmax sqrt v <;> by_cases h0 : Gen.V3.length tmin tmax sqrt v = 0 <;> simp [h1, h0]
theorem hollowSphere4_iter_eq (tmin tmax : K) (sqrt : K → K) (v : V4 K) :
    Gen.C18.hollowSphere4_iter tmin tmax sqrt v =
      if Gen.V4.length tmin tmax sqrt v > 1 ∨ Gen.V4.length tmin tmax sqrt v = 0 then .error Exc.outOfRange
      else .ok ⟨v.x / Gen.V4.length tmin tmax sqrt v, v.y / Gen.V4.length tmin tmax sqrt v,
                v.z / Gen.V4.length tmin tmax sqrt v, v.w / Gen.V4.length tmin tmax sqrt v⟩ := by
  have e : (⟨v.x, v.y, v.z, v.w⟩ : V4 K) = v := rfl
  simp only [Gen.C18.hollowSphere4_iter, gt_iff_lt, e]
  by_cases h1 : 1 < Gen.V4.length tmin tmax sqrt v <;> by_cases h0 : Gen.V4.length tmin tmax sqrt v = 0 <;> simp [h1, h0]

theorem of2_fn2 (v : V2 K) : of2 (fn2 v) = v := rfl
theorem of3_fn3 (v : V3 K) : of3 (fn3 v) = v := rfl
theorem of4_fn4 (v : V4 K) : of4 (fn4 v) = v := rfl

/-- the hand model of hollowSphereRand, with `len` := the generated `Vec::length ()`, is the loop over the generated step -/
theorem hollowSphereRand_is_gen2 (tmin tmax : K) (sqrt : K → K) (draw : σ → V2 K × σ) (fuel : Nat) (s : σ) :
    hollowSphereRand (fun u => Gen.V2.length tmin tmax sqrt (of2 u)) (fun s => (fn2 (draw s).1, (draw s).2)) fuel s =
      (loopGen (Gen.C18.hollowSphere2_iter tmin tmax sqrt) draw fuel s).map (fun r => (fn2 r.1, r.2)) := by
  induction fuel generalizing s with
  | zero => rfl
  | succ fuel ih =>
    simp only [hollowSphereRand, loopGen, hollowSphere2_iter_eq]
    split
    · rename_i hc
      have hc' : Gen.V2.length tmin tmax sqrt (draw s).1 > 1 ∨ Gen.V2.length tmin tmax sqrt (draw s).1 = 0 := hc
      rw [if_pos hc']; exact ih _
    · rename_i hc
      have hc' : ¬(Gen.V2.length tmin tmax sqrt (draw s).1 > 1 ∨ Gen.V2.length tmin tmax sqrt (draw s).1 = 0) := hc
      rw [if_neg hc']
      refine congrArg some (Prod.ext ?_ rfl)
      funext i; fin_cases i <;> rfl
theorem hollowSphereRand_is_gen3 (tmin tmax : K) (sqrt : K → K) (draw : σ → V3 K × σ) (fuel : Nat) (s : σ) :
    hollowSphereRand (fun u => Gen.V3.length tmin tmax sqrt (of3 u)) (fun s => (fn3 (draw s).1, (draw s).2)) fuel s =
      (loopGen (Gen.C18.hollowSphere3_iter tmin tmax sqrt) draw fuel s).map (fun r => (fn3 r.1, r.2)) := by
  induction fuel generalizing s with
  | zero => rfl
  | succ fuel ih =>
    simp only [hollowSphereRand, loopGen, hollowSphere3_iter_eq]
    split
    · rename_i hc
      have hc' : Gen.V3.length tmin tmax sqrt (draw s).1 > 1 ∨ Gen.V3.length tmin tmax sqrt (draw s).1 = 0 := hc
      rw [if_pos hc']; exact ih _
    · rename_i hc
      have hc' : ¬(Gen.V3.length tmin tmax sqrt (draw s).1 > 1 ∨ Gen.V3.length tmin tmax sqrt (draw s).1 = 0) := hc
      rw [if_neg hc']
      refine congrArg some (Prod.ext ?_ rfl)
      funext i; fin_cases i <;> rfl
theorem hollowSphereRand_is_gen4 (tmin tmax : K) (sqrt : K → K) (draw : σ → V4 K × σ) (fuel : Nat) (s : σ) :
    hollowSphereRand (fun u => Gen.V4.length tmin tmax sqrt (of4 u)) (fun s => (fn4 (draw s).1, (draw s).2)) fuel s =
      (loopGen (Gen.C18.hollowSphere4_iter tmin tmax sqrt) draw fuel s).map (fun r => (fn4 r.1, r.2)) := by
  induction fuel generalizing s with
  | zero => rfl
  | succ fuel ih =>
    simp only [hollowSphereRand, loopGen, hollowSphere4_iter_eq]
    split
    · rename_i hc
      have hc' : Gen.V4.length tmin tmax sqrt (draw s).1 > 1 ∨ Gen.V4.length tmin tmax sqrt (draw s).1 = 0 := hc
      rw [if_pos hc']; exact ih _
    · rename_i hc
      have hc' : ¬(Gen.V4.length tmin tmax sqrt (draw s).1 > 1 ∨ Gen.V4.length tmin tmax sqrt (draw s).1 = 0) := hc
      rw [if_neg hc']
      refine congrArg some (Prod.ext ?_ rfl)
      funext i; fin_cases i <;> rfl

/-- hollowSphereRand, on the loop over the GENERATED step with the generated `Vec::length ()` and any `sqrt` with
`sqrt x * sqrt x = x ∧ 0 ≤ sqrt x` on `x ≥ 0`: the result is `v / length` for a drawn candidate with
`0 < length ≤ 1` (no division by zero, no candidate outside the ball) and its Euclidean norm² is exactly 1. -/
theorem hollowSphere2_loop_exit (tmin tmax : K) (sqrt : K → K) (hs : SqrtSpec sqrt)
    (draw : σ → V2 K × σ) (fuel : Nat) (s : σ) (r : V2 K × σ)
    (h : loopGen (Gen.C18.hollowSphere2_iter tmin tmax sqrt) draw fuel s = some r) :
    ∃ s0, 0 < Gen.V2.length tmin tmax sqrt (draw s0).1 ∧ Gen.V2.length tmin tmax sqrt (draw s0).1 ≤ 1 ∧
      r = (⟨(draw s0).1.x / Gen.V2.length tmin tmax sqrt (draw s0).1,
            (draw s0).1.y / Gen.V2.length tmin tmax sqrt (draw s0).1⟩, (draw s0).2) ∧
      dot2 r.1 r.1 = 1 := by
  obtain ⟨s0, h1, h2⟩ := loopGen_exit _ _ _ _ _ h
  rw [hollowSphere2_iter_eq] at h1
  obtain ⟨hsq, hnn⟩ := V2_length_spec tmin tmax sqrt hs (draw s0).1
  refine ⟨s0, ?_⟩
  generalize Gen.V2.length tmin tmax sqrt (draw s0).1 = l at *
  split_ifs at h1 with hc
  rw [not_or] at hc
  have hpos : 0 < l := lt_of_le_of_ne hnn (Ne.symm hc.2)
  injection h1 with h1
  have hr : r = (⟨(draw s0).1.x / l, (draw s0).1.y / l⟩, (draw s0).2) := Prod.ext h1.symm h2.symm
  refine ⟨hpos, not_lt.mp hc.1, hr, ?_⟩
  have h0 : l ≠ 0 := ne_of_gt hpos
  rw [hr]; simp only [dot2] at hsq ⊢
  field_simp; linarith
theorem hollowSphere3_loop_exit (tmin tmax : K) (sqrt : K → K) (hs : SqrtSpec sqrt)
    (draw : σ → V3 K × σ) (fuel : Nat) (s : σ) (r : V3 K × σ)
    (h : loopGen (Gen.C18.hollowSphere3_iter tmin tmax sqrt) draw fuel s = some r) :
    ∃ s0, 0 < Gen.V3.length tmin tmax sqrt (draw s0).1 ∧ Gen.V3.length tmin tmax sqrt (draw s0).1 ≤ 1 ∧
      r = (⟨(draw s0).1.x / Gen.V3.length tmin tmax sqrt (draw s0).1,
            (draw s0).1.y / Gen.V3.length tmin tmax sqrt (draw s0).1,
            (draw s0).1.z / Gen.V3.length tmin tmax sqrt (draw s0).1⟩, (draw s0).2) ∧
      dot r.1 r.1 = 1 := by
  obtain ⟨s0, h1, h2⟩ := loopGen_exit _ _ _ _ _ h
  rw [hollowSphere3_iter_eq] at h1
  obtain ⟨hsq, hnn⟩ := V3_length_spec tmin tmax sqrt hs (draw s0).1
  refine ⟨s0, ?_⟩
  generalize Gen.V3.length tmin tmax sqrt (draw s0).1 = l at *
  split_ifs at h1 with hc
  rw [not_or] at hc
  have hpos : 0 < l := lt_of_le_of_ne hnn (Ne.symm hc.2)
  injection h1 with h1
  have hr : r = (⟨(draw s0).1.x / l, (draw s0).1.y / l, (draw s0).1.z / l⟩, (draw s0).2) := Prod.ext h1.symm h2.symm
  refine ⟨hpos, not_lt.mp hc.1, hr, ?_⟩
  have h0 : l ≠ 0 := ne_of_gt hpos
  rw [hr]; simp only [dot] at hsq ⊢
  field_simp; linarith
theorem hollowSphere4_loop_exit (tmin tmax : K) (sqrt : K → K) (hs : SqrtSpec sqrt)
    (draw : σ → V4 K × σ) (fuel : Nat) (s : σ) (r : V4 K × σ)
    (h : loopGen (Gen.C18.hollowSphere4_iter tmin tmax sqrt) draw fuel s = some r) :
    ∃ s0, 0 < Gen.V4.length tmin tmax sqrt (draw s0).1 ∧ Gen.V4.length tmin tmax sqrt (draw s0).1 ≤ 1 ∧
      r = (⟨(draw s0).1.x / Gen.V4.length tmin tmax sqrt (draw s0).1,
            (draw s0).1.y / Gen.V4.length tmin tmax sqrt (draw s0).1,
            (draw s0).1.z / Gen.V4.length tmin tmax sqrt (draw s0).1,
            (draw s0).1.w / Gen.V4.length tmin tmax sqrt (draw s0).1⟩, (draw s0).2) ∧
      dot4 r.1 r.1 = 1 := by
  obtain ⟨s0, h1, h2⟩ := loopGen_exit _ _ _ _ _ h
  rw [hollowSphere4_iter_eq] at h1
  obtain ⟨hsq, hnn⟩ := V4_length_spec tmin tmax sqrt hs (draw s0).1
  refine ⟨s0, ?_⟩
  generalize Gen.V4.length tmin tmax sqrt (draw s0).1 = l at *
  split_ifs at h1 with hc
  rw [not_or] at hc
  have hpos : 0 < l := lt_of_le_of_ne hnn (Ne.symm hc.2)
  injection h1 with h1
  have hr : r = (⟨(draw s0).1.x / l, (draw s0).1.y / l, (draw s0).1.z / l, (draw s0).1.w / l⟩, (draw s0).2) := Prod.ext h1.symm h2.symm
  refine ⟨hpos, not_lt.mp hc.1, hr, ?_⟩
  have h0 : l ≠ 0 := ne_of_gt hpos
  rw [hr]; simp only [dot4] at hsq ⊢
  field_simp; linarith

/-- the hypothesis on `sqrt` is satisfied by the real square root -/
example : SqrtSpec Real.sqrt := realSqrtSpec

/-! ## gaussSphereRand = hollowSphereRand (rand) * gaussRand (rand) -/

/-- the generated body of gaussSphereRand: the hollow-sphere step, its result scaled component-wise by the
factor `g` that `gaussRand` returned -/
theorem gaussSphere2_body_eq (tmin tmax : K) (sqrt : K → K) (g : K) (v : V2 K) :
    Gen.C18.gaussSphere2_body tmin tmax sqrt g v =
      (Gen.C18.hollowSphere2_iter tmin tmax sqrt v).map (fun u => ⟨u.x * g, u.y * g⟩) := by
  simp only [Gen.C18.gaussSphere2_body, Gen.C18.hollowSphere2_iter]
  split_ifs <;> rfl
theorem gaussSphere3_body_eq (tmin tmax : K) (sqrt : K → K) (g : K) (v : V3 K) :
    Gen.C18.gaussSphere3_body tmin tmax sqrt g v =
      (Gen.C18.hollowSphere3_iter tmin tmax sqrt v).map (fun u => ⟨u.x * g, u.y * g, u.z * g⟩) := by
  simp only [Gen.C18.gaussSphere3_body, Gen.C18.hollowSphere3_iter]
  split_ifs <;> rfl
theorem gaussSphere4_body_eq (tmin tmax : K) (sqrt : K → K) (g : K) (v : V4 K) :
    Gen.C18.gaussSphere4_body tmin tmax sqrt g v =
      (Gen.C18.hollowSphere4_iter tmin tmax sqrt v).map (fun u => ⟨u.x * g, u.y * g, u.z * g, u.w * g⟩) := by
  simp only [Gen.C18.gaussSphere4_body, Gen.C18.hollowSphere4_iter]
  split_ifs <;> rfl

/-- gaussSphereRand in dimension 2: when the body returns `r` (the hollow-sphere step accepted the candidate `v`),
`0 < length v ≤ 1` and `r` has Euclidean norm² exactly `g²`, `g` the factor returned by `gaussRand` -/
theorem gaussSphere2_body_norm (tmin tmax : K) (sqrt : K → K) (hs : SqrtSpec sqrt) (g : K) (v r : V2 K)
    (h : Gen.C18.gaussSphere2_body tmin tmax sqrt g v = .ok r) :
    0 < Gen.V2.length tmin tmax sqrt v ∧ Gen.V2.length tmin tmax sqrt v ≤ 1 ∧ dot2 r r = g * g := by
  rw [gaussSphere2_body_eq, hollowSphere2_iter_eq] at h
  obtain ⟨hsq, hnn⟩ := V2_length_spec tmin tmax sqrt hs v
  generalize Gen.V2.length tmin tmax sqrt v = l at *
  split_ifs at h with hc
  · simp [Except.map] at h
  · rw [not_or] at hc
    have hpos : 0 < l := lt_of_le_of_ne hnn (Ne.symm hc.2)
    simp only [Except.map] at h
    injection h with h
    subst h
    refine ⟨hpos, not_lt.mp hc.1, ?_⟩
    have h0 : l ≠ 0 := ne_of_gt hpos
    simp only [dot2] at hsq ⊢
    field_simp
    rw [hsq]; ring
/-- gaussSphereRand in dimension 3: when the body returns `r` (the hollow-sphere step accepted the candidate `v`),
`0 < length v ≤ 1` and `r` has Euclidean norm² exactly `g²`, `g` the factor returned by `gaussRand` -/
theorem gaussSphere3_body_norm (tmin tmax : K) (sqrt : K → K) (hs : SqrtSpec sqrt) (g : K) (v r : V3 K)
    (h : Gen.C18.gaussSphere3_body tmin tmax sqrt g v = .ok r) :
    0 < Gen.V3.length tmin tmax sqrt v ∧ Gen.V3.length tmin tmax sqrt v ≤ 1 ∧ dot r r = g * g := by
  rw [gaussSphere3_body_eq, hollowSphere3_iter_eq] at h
  obtain ⟨hsq, hnn⟩ := V3_length_spec tmin tmax sqrt hs v
  generalize Gen.V3.length tmin tmax sqrt v = l at *
  split_ifs at h with hc
  · simp [Except.map] at h
  · rw [not_or] at hc
    have hpos : 0 < l := lt_of_le_of_ne hnn (Ne.symm hc.2)
    simp only [Except.map] at h
    injection h with h
    subst h
    refine ⟨hpos, not_lt.mp hc.1, ?_⟩
    have h0 : l ≠ 0 := ne_of_gt hpos
    simp only [dot] at hsq ⊢
    field_simp
    rw [hsq]; ring
/-- gaussSphereRand in dimension 4: when the body returns `r` (the hollow-sphere step accepted the candidate `v`),
`0 < length v ≤ 1` and `r` has Euclidean norm² exactly `g²`, `g` the factor returned by `gaussRand` -/
theorem gaussSphere4_body_norm (tmin tmax : K) (sqrt : K → K) (hs : SqrtSpec sqrt) (g : K) (v r : V4 K)
    (h : Gen.C18.gaussSphere4_body tmin tmax sqrt g v = .ok r) :
    0 < Gen.V4.length tmin tmax sqrt v ∧ Gen.V4.length tmin tmax sqrt v ≤ 1 ∧ dot4 r r = g * g := by
  rw [gaussSphere4_body_eq, hollowSphere4_iter_eq] at h
  obtain ⟨hsq, hnn⟩ := V4_length_spec tmin tmax sqrt hs v
  generalize Gen.V4.length tmin tmax sqrt v = l at *
  split_ifs at h with hc
  · simp [Except.map] at h
  · rw [not_or] at hc
    have hpos : 0 < l := lt_of_le_of_ne hnn (Ne.symm hc.2)
    simp only [Except.map] at h
    injection h with h
    subst h
    refine ⟨hpos, not_lt.mp hc.1, ?_⟩
    have h0 : l ≠ 0 := ne_of_gt hpos
    simp only [dot4] at hsq ⊢
    field_simp
    rw [hsq]; ring

/-- a unit vector scaled by `g` has norm² `g²` (dimension 3; `gaussSphereRand_length2` is the dimension-generic form) -/
theorem gaussSphere3_norm (u : V3 K) (g : K) (hu : dot u u = 1) :
    dot (⟨u.x * g, u.y * g, u.z * g⟩ : V3 K) ⟨u.x * g, u.y * g, u.z * g⟩ = g * g := by
  simp only [dot] at hu ⊢
  have : u.x * g * (u.x * g) + u.y * g * (u.y * g) + u.z * g * (u.z * g) = g * g * (u.x * u.x + u.y * u.y + u.z * u.z) := by ring
  rw [this, hu, mul_one]

end ImathVerif.Rand48.C18
