import ImathVerif.Lemmas.C12Wrap
import ImathVerif.Lemmas.C12Post
import ImathVerif.Lemmas.C12Angles
import ImathVerif.Lemmas.C12Eigen
import ImathVerif.Lemmas.C12EigenAngles
import ImathVerif.Lemmas.C12Total
import ImathVerif.Lemmas.C12Loops
import Mathlib.Analysis.SpecialFunctions.Complex.Arg
import Mathlib.Analysis.SpecialFunctions.Sqrt
/-!
# C12 — matrix factorisations recompose to their input with structured factors

Two kinds of model (DESIGN.md §2.2):
* **H-route** `Model/SHRT.lean` (`ear33`, `ear44` = 2-D / 3-D `extractAndRemoveScalingAndShear`) and
  `Model/Jacobi.lean` (one Jacobi rotation, SVD post-passes): hand models mirroring the C++ statement by
  statement, tied to the real code on every run by BITWISE correspondence at `Float`
  (harness/corr/c12_corr.cpp vs lean/Driver/SHRT.lean).
* **T-route** `Gen/C12.lean`: the wrappers (`extractScaling`, `sansScaling`, `extractSHRT`, …) regenerated from
  ImathMatrixAlgo.h on every run, with the inner function an opaque call of the hand model.

Exact arithmetic over an ordered field.  `sqrt`, `sin`, `cos`, `atan2` are parameters with explicit
hypotheses (`SqrtSpec`, `TrigSpec`), each shown to hold for the real functions (examples at the end).
`none` = the function returns `false` (or throws `std::domain_error` when `exc`).
Rounding, convergence and accuracy of the iterative solvers, procrustes optimality: NOT proved, measured
(harness/corr/c12_residue.cpp) — partial.

The full-strength recomposition of the 2-D `sansScaling` / `removeScaling` is in `Props/C12Recompose.lean`
(it did not hold before /repo commit ec5bcdd, where `Matrix33::rotate` post-multiplied the translation).
-/
namespace ImathVerif.C12
open ImathVerif ImathVerif.SHRT ImathVerif.Jacobi Matrix
set_option linter.unusedSectionVars false
variable {α : Type} [Field α] [LinearOrder α] [IsStrictOrderedRing α]

/-! ## A.1 The inner function (hand model): scale * shear * R = linear part, R a rotation -/

/-- 2-D `extractAndRemoveScalingAndShear (Matrix33)`: when it returns true,
`scale * shear * R = M_linear`, `R` orthonormal with determinant +1, every other entry of the matrix untouched,
non-zero scales (the X scale positive). -/
theorem M33_extractAndRemoveScalingAndShear {tmin tmax : α} {sqrt : α → α} (hs : SqrtSpec sqrt) {m : M33 α} {r : Res2 α}
    (h : ear33 tmax (Gen.V2.length tmin tmax sqrt) m = some r) :
    scaleMat2 r.scl * shearMat2 r.shr * lin2 r.m = lin2 m ∧
    lin2 r.m * (lin2 r.m)ᵀ = 1 ∧ (lin2 r.m).det = 1 ∧
    r.m.x02 = m.x02 ∧ r.m.x12 = m.x12 ∧ r.m.x20 = m.x20 ∧ r.m.x21 = m.x21 ∧ r.m.x22 = m.x22 ∧
    0 < r.scl.x ∧ r.scl.y ≠ 0 :=
  ear33_spec (V2_length_spec hs) h

/-- 3-D `extractAndRemoveScalingAndShear (Matrix44)`, including the coordinate-system flip. -/
theorem M44_extractAndRemoveScalingAndShear {tmin tmax : α} {sqrt : α → α} (hs : SqrtSpec sqrt) {m : M44 α} {r : Res3 α}
    (h : ear44 tmax (Gen.V3.length tmin tmax sqrt) m = some r) :
    scaleMat3 r.scl * shearMat3 r.shr * lin3 r.m = lin3 m ∧
    lin3 r.m * (lin3 r.m)ᵀ = 1 ∧ (lin3 r.m).det = 1 ∧
    r.m.x03 = m.x03 ∧ r.m.x13 = m.x13 ∧ r.m.x23 = m.x23 ∧
    r.m.x30 = m.x30 ∧ r.m.x31 = m.x31 ∧ r.m.x32 = m.x32 ∧ r.m.x33 = m.x33 ∧
    r.scl.x ≠ 0 ∧ r.scl.y ≠ 0 ∧ r.scl.z ≠ 0 :=
  ear44_spec (V3_length_spec hs) h

/-- degenerate input is reported, not decomposed (2-D): a singular linear part makes the function return false / throw -/
theorem M33_extractAndRemoveScalingAndShear_degenerate {tmin tmax : α} {sqrt : α → α} (hs : SqrtSpec sqrt) {m : M33 α}
    (hd : (lin2 m).det = 0) : ear33 tmax (Gen.V2.length tmin tmax sqrt) m = none := by
  cases h : ear33 tmax (Gen.V2.length tmin tmax sqrt) m with
  | none => rfl
  | some r =>
    exfalso
    obtain ⟨e, _, hR, _, _, _, _, _, px, py⟩ := ear33_spec (V2_length_spec hs) h
    have := congrArg Matrix.det e
    rw [Matrix.det_mul, Matrix.det_mul, hR, hd] at this
    simp [scaleMat2, shearMat2, Matrix.det_fin_two] at this
    rcases this with h1 | h1
    · exact (ne_of_gt px) h1
    · exact py h1

/-- degenerate input is reported, not decomposed (3-D) -/
theorem M44_extractAndRemoveScalingAndShear_degenerate {tmin tmax : α} {sqrt : α → α} (hs : SqrtSpec sqrt) {m : M44 α}
    (hd : (lin3 m).det = 0) : ear44 tmax (Gen.V3.length tmin tmax sqrt) m = none := by
  cases h : ear44 tmax (Gen.V3.length tmin tmax sqrt) m with
  | none => rfl
  | some r =>
    exfalso
    obtain ⟨e, _, hR, _, _, _, _, _, _, _, px, py, pz⟩ := ear44_spec (V3_length_spec hs) h
    have := congrArg Matrix.det e
    rw [Matrix.det_mul, Matrix.det_mul, hR, hd] at this
    simp [scaleMat3, shearMat3, Matrix.det_fin_three] at this
    rcases this with (h1 | h1) | h1
    · exact px h1
    · exact py h1
    · exact pz h1

/-- "degenerate input is reported RATHER THAN decomposed", both directions (2-D): with `1 < numeric_limits<T>::max ()` the function
returns `true` EXACTLY on the matrices whose linear part is non-singular.  In exact arithmetic the overflow guards of
`checkForZeroScaleInRow` fire only for a zero scale (each guarded scale dominates the row it guards), so no well-conditioned —
indeed no non-singular — input is rejected; together with the recomposition theorem this makes the property unconditional. -/
theorem M33_extractAndRemoveScalingAndShear_succeeds_iff {tmin tmax : α} {sqrt : α → α} (hs : SqrtSpec sqrt) (ht : 1 < tmax) (m : M33 α) :
    (ear33 tmax (Gen.V2.length tmin tmax sqrt) m).isSome ↔ (lin2 m).det ≠ 0 := by
  constructor
  · intro h hd
    rw [M33_extractAndRemoveScalingAndShear_degenerate hs hd] at h
    simp at h
  · exact ear33_isSome_of_det ht (V2_length_spec hs)

/-- the same in 3-D -/
theorem M44_extractAndRemoveScalingAndShear_succeeds_iff {tmin tmax : α} {sqrt : α → α} (hs : SqrtSpec sqrt) (ht : 1 < tmax) (m : M44 α) :
    (ear44 tmax (Gen.V3.length tmin tmax sqrt) m).isSome ↔ (lin3 m).det ≠ 0 := by
  constructor
  · intro h hd
    rw [M44_extractAndRemoveScalingAndShear_degenerate hs hd] at h
    simp at h
  · exact ear44_isSome_of_det ht (V3_length_spec hs)

/-- `= none ↔ det = 0` (the form of the audit) -/
theorem extractAndRemoveScalingAndShear_none_iff {tmin tmax : α} {sqrt : α → α} (hs : SqrtSpec sqrt) (ht : 1 < tmax) (m3 : M33 α) (m4 : M44 α) :
    (ear33 tmax (Gen.V2.length tmin tmax sqrt) m3 = none ↔ (lin2 m3).det = 0) ∧
    (ear44 tmax (Gen.V3.length tmin tmax sqrt) m4 = none ↔ (lin3 m4).det = 0) := by
  constructor
  · rw [← not_iff_not, ← ne_eq, Option.ne_none_iff_isSome]
    exact M33_extractAndRemoveScalingAndShear_succeeds_iff hs ht m3
  · rw [← not_iff_not, ← ne_eq, Option.ne_none_iff_isSome]
    exact M44_extractAndRemoveScalingAndShear_succeeds_iff hs ht m4

/-- non-vacuity of `1 < max` and of a non-singular input: over ℝ with any `max > 1` the 3-4-5 witness has determinant 1 -/
theorem nonvacuity_succeeds : (lin2 (W345 : M33 ℝ)).det ≠ 0 ∧ (1 : ℝ) < 2 := by
  constructor
  · simp [lin2, W345, Matrix.det_fin_two]; norm_num
  · norm_num

/-! ## A.2 `checkForZeroScaleInRow` (T-route; the hand model uses the same guard) -/

theorem V3_checkForZeroScaleInRow (tmax scl : α) (row : V3 α) :
    Gen.V3.checkForZeroScaleInRow tmax scl row = checkRow3 tmax scl row := by
  simp only [Gen.V3.checkForZeroScaleInRow, checkRow3, tooSmall]
  by_cases h : sabs scl < 1 <;> simp [h]
theorem V2_checkForZeroScaleInRow (tmax scl : α) (row : V2 α) :
    Gen.V2.checkForZeroScaleInRow tmax scl row = checkRow2 tmax scl row := by
  simp only [Gen.V2.checkForZeroScaleInRow, checkRow2, tooSmall]
  by_cases h : sabs scl < 1 <;> simp [h]
/-- the guard: `|scl| < 1` and some `|row_i| ≥ max·|scl|` ⇒ `false` -/
theorem V3_checkForZeroScaleInRow_guard (tmax scl : α) (row : V3 α) :
    Gen.V3.checkForZeroScaleInRow tmax scl row = false ↔
      |scl| < 1 ∧ (tmax * |scl| ≤ |row.x| ∨ tmax * |scl| ≤ |row.y| ∨ tmax * |scl| ≤ |row.z|) := by
  simp only [Gen.V3.checkForZeroScaleInRow, sabs_eq_abs]
  split_ifs <;> simp_all
theorem V2_checkForZeroScaleInRow_guard (tmax scl : α) (row : V2 α) :
    Gen.V2.checkForZeroScaleInRow tmax scl row = false ↔
      |scl| < 1 ∧ (tmax * |scl| ≤ |row.x| ∨ tmax * |scl| ≤ |row.y|) := by
  simp only [Gen.V2.checkForZeroScaleInRow, sabs_eq_abs]
  split_ifs <;> simp_all
/-- `exc = true`: the same guard throws `std::domain_error` -/
theorem V3_checkForZeroScaleInRowExc (tmax scl : α) (row : V3 α) :
    Gen.V3.checkForZeroScaleInRowExc tmax scl row =
      if Gen.V3.checkForZeroScaleInRow tmax scl row then .ok true else .error Exc.domainError := by
  simp only [Gen.V3.checkForZeroScaleInRowExc, Gen.V3.checkForZeroScaleInRow]
  split_ifs <;> simp_all
theorem V2_checkForZeroScaleInRowExc (tmax scl : α) (row : V2 α) :
    Gen.V2.checkForZeroScaleInRowExc tmax scl row =
      if Gen.V2.checkForZeroScaleInRow tmax scl row then .ok true else .error Exc.domainError := by
  simp only [Gen.V2.checkForZeroScaleInRowExc, Gen.V2.checkForZeroScaleInRow]
  split_ifs <;> simp_all
/-- a zero scale is never removed, whatever the row and whatever `max` is -/
theorem checkForZeroScaleInRow_zero (tmax : α) (r3 : V3 α) (r2 : V2 α) :
    Gen.V3.checkForZeroScaleInRow tmax 0 r3 = false ∧ Gen.V2.checkForZeroScaleInRow tmax 0 r2 = false := by
  rw [V3_checkForZeroScaleInRow, V2_checkForZeroScaleInRow]
  simp [checkRow3, checkRow2, tooSmall_zero]

/-! ## A.3 2-D wrappers (T-route) -/

theorem M33_extractScaling (tmin tmax : α) (sqrt : α → α) (m : M33 α) :
    Gen.M33.extractScaling tmin tmax sqrt m =
      match ear33 tmax (Gen.V2.length tmin tmax sqrt) m with
      | some r => (true, r.scl)
      | none => (false, ⟨0, 0⟩) := by
  obtain ⟨m00, m01, m02, m10, m11, m12, m20, m21, m22⟩ := m
  cases h : ear33 tmax (Gen.V2.length tmin tmax sqrt) ⟨m00, m01, m02, m10, m11, m12, m20, m21, m22⟩ with
  | none => simp [Gen.M33.extractScaling, ear33_adapters_none h]
  | some r =>
    obtain ⟨e1, e2, e3, e4⟩ := ear33_adapters_some h
    simp [Gen.M33.extractScaling, e1, e3]

theorem M33_extractEuler_rotation {tmin tmax : α} {sqrt sin cos : α → α} {atan2 : α → α → α} (hs : SqrtSpec sqrt)
    (ht : TrigSpec sin cos atan2) {m : M33 α} (ho : lin2 m * (lin2 m)ᵀ = 1) (hd : (lin2 m).det = 1) :
    rotH2 (cos (Gen.M33.extractEuler tmin tmax sqrt atan2 m)) (sin (Gen.M33.extractEuler tmin tmax sqrt atan2 m)) = linH2 m := by
  obtain ⟨h0, e11, e01, hc⟩ := rot2_shape ho hd
  obtain ⟨m00, m01, m02, m10, m11, m12, m20, m21, m22⟩ := m
  simp only at h0 e11 e01 hc
  subst e11 e01
  have l0 := len_eq_one (V2_length_spec (tmin := tmin) (tmax := tmax) hs) m11 (-m10) h0
  have l1 : Gen.V2.length tmin tmax sqrt ⟨m10, m11⟩ = 1 := by
    apply len_eq_one (V2_length_spec hs); rw [← hc]; ring
  obtain ⟨tc, ts⟩ := ht m11 m10 hc
  simp only [Gen.M33.extractEuler, l0, l1, one_ne_zero, if_false, div_one, tc, ts, rotH2, linH2]
  simp

theorem M33_extractScalingAndShear (tmin tmax : α) (sqrt : α → α) (m : M33 α) :
    Gen.M33.extractScalingAndShear tmin tmax sqrt m =
      match ear33 tmax (Gen.V2.length tmin tmax sqrt) m with
      | some r => (true, r.scl, r.shr)
      | none => (false, ⟨0, 0⟩, 0) := by
  obtain ⟨m00, m01, m02, m10, m11, m12, m20, m21, m22⟩ := m
  cases h : ear33 tmax (Gen.V2.length tmin tmax sqrt) ⟨m00, m01, m02, m10, m11, m12, m20, m21, m22⟩ with
  | none => simp [Gen.M33.extractScalingAndShear, ear33_adapters_none h]
  | some r =>
    obtain ⟨e1, e2, e3, e4⟩ := ear33_adapters_some h
    simp [Gen.M33.extractScalingAndShear, e1, e3, e4]

theorem M33_sansScalingAndShear (tmin tmax : α) (sqrt : α → α) (m : M33 α) :
    Gen.M33.sansScalingAndShear tmin tmax sqrt m =
      match ear33 tmax (Gen.V2.length tmin tmax sqrt) m with
      | some r => r.m
      | none => m := by
  obtain ⟨m00, m01, m02, m10, m11, m12, m20, m21, m22⟩ := m
  cases h : ear33 tmax (Gen.V2.length tmin tmax sqrt) ⟨m00, m01, m02, m10, m11, m12, m20, m21, m22⟩ with
  | none => simp [Gen.M33.sansScalingAndShear, ear33_adapters_none h]
  | some r =>
    obtain ⟨e1, e2, e3, e4⟩ := ear33_adapters_some h
    simp [Gen.M33.sansScalingAndShear, e1, e2]

/-- `exc = true`: degenerate input throws `std::domain_error` -/
theorem M33_sansScalingAndShearExc (tmin tmax : α) (sqrt : α → α) (m : M33 α) :
    Gen.M33.sansScalingAndShearExc tmin tmax sqrt m =
      match ear33 tmax (Gen.V2.length tmin tmax sqrt) m with
      | some r => .ok r.m
      | none => .error Exc.domainError := by
  obtain ⟨m00, m01, m02, m10, m11, m12, m20, m21, m22⟩ := m
  cases h : ear33 tmax (Gen.V2.length tmin tmax sqrt) ⟨m00, m01, m02, m10, m11, m12, m20, m21, m22⟩ with
  | none => simp [Gen.M33.sansScalingAndShearExc, ear33_adapters_none h]
  | some r =>
    obtain ⟨e1, e2, e3, e4⟩ := ear33_adapters_some h
    simp [Gen.M33.sansScalingAndShearExc, e1, e2]

theorem M33_removeScalingAndShear (tmin tmax : α) (sqrt : α → α) (m : M33 α) :
    Gen.M33.removeScalingAndShear tmin tmax sqrt m =
      match ear33 tmax (Gen.V2.length tmin tmax sqrt) m with
      | some r => (true, r.m)
      | none => (false, m) := by
  obtain ⟨m00, m01, m02, m10, m11, m12, m20, m21, m22⟩ := m
  cases h : ear33 tmax (Gen.V2.length tmin tmax sqrt) ⟨m00, m01, m02, m10, m11, m12, m20, m21, m22⟩ with
  | none => simp [Gen.M33.removeScalingAndShear, ear33_adapters_none h]
  | some r =>
    obtain ⟨e1, e2, e3, e4⟩ := ear33_adapters_some h
    simp [Gen.M33.removeScalingAndShear, e1, e2]

theorem M33_extractSHRT (tmin tmax : α) (sqrt : α → α) (atan2 : α → α → α) (m : M33 α) :
    Gen.M33.extractSHRT tmin tmax sqrt atan2 m =
      match ear33 tmax (Gen.V2.length tmin tmax sqrt) m with
      | some r => (true, r.scl, r.shr, Gen.M33.extractEuler tmin tmax sqrt atan2 r.m, ⟨m.x20, m.x21⟩)
      | none => (false, ⟨0, 0⟩, 0, 0, ⟨0, 0⟩) := by
  obtain ⟨m00, m01, m02, m10, m11, m12, m20, m21, m22⟩ := m
  cases h : ear33 tmax (Gen.V2.length tmin tmax sqrt) ⟨m00, m01, m02, m10, m11, m12, m20, m21, m22⟩ with
  | none => simp [Gen.M33.extractSHRT, ear33_adapters_none h]
  | some r =>
    obtain ⟨e1, e2, e3, e4⟩ := ear33_adapters_some h
    simp only [Gen.M33.extractSHRT, Gen.M33.extractEuler, e1, e2, e3, e4, one_ne_zero, if_false]
    split_ifs <;> rfl

/-- extractSHRT (2-D): when it returns true, `scale * shear * rotation * translation = M` -/
theorem M33_extractSHRT_recompose {tmin tmax : α} {sqrt sin cos : α → α} {atan2 : α → α → α}
    (hs : SqrtSpec sqrt) (ht : TrigSpec sin cos atan2) {m : M33 α} (ha : Affine2 m)
    {s t : V2 α} {h rot : α} (hr : Gen.M33.extractSHRT tmin tmax sqrt atan2 m = (true, s, h, rot, t)) :
    scaleH2 s * shearH2 h * rotH2 (cos rot) (sin rot) * transH2 t = m.toMat := by
  rw [M33_extractSHRT] at hr
  cases he : ear33 tmax (Gen.V2.length tmin tmax sqrt) m with
  | none => rw [he] at hr; simp at hr
  | some r =>
    rw [he] at hr
    simp only [Prod.mk.injEq, true_and] at hr
    obtain ⟨rfl, rfl, rfl, rfl⟩ := hr
    obtain ⟨e, ho, hd, _⟩ := ear33_spec (V2_length_spec hs) he
    rw [M33_extractEuler_rotation hs ht ho hd]
    exact homog2 ha e


/-- UNCONDITIONAL form (2-D): for every affine `M` with non-singular linear part (and `1 < max`) `extractSHRT` returns true and
`scale * shear * rotation * translation = M`; for a singular linear part it returns false -/
theorem M33_extractSHRT_total {tmin tmax : α} {sqrt sin cos : α → α} {atan2 : α → α → α}
    (hs : SqrtSpec sqrt) (ht : TrigSpec sin cos atan2) (h1 : 1 < tmax) {m : M33 α} (ha : Affine2 m) :
    ((lin2 m).det ≠ 0 → ∃ s h rot t, Gen.M33.extractSHRT tmin tmax sqrt atan2 m = (true, s, h, rot, t) ∧
      scaleH2 s * shearH2 h * rotH2 (cos rot) (sin rot) * transH2 t = m.toMat) ∧
    ((lin2 m).det = 0 → (Gen.M33.extractSHRT tmin tmax sqrt atan2 m).1 = false) := by
  constructor
  · intro hd
    obtain ⟨r, he⟩ := Option.isSome_iff_exists.mp ((M33_extractAndRemoveScalingAndShear_succeeds_iff (tmin := tmin) hs h1 m).mpr hd)
    have e : Gen.M33.extractSHRT tmin tmax sqrt atan2 m = (true, r.scl, r.shr, Gen.M33.extractEuler tmin tmax sqrt atan2 r.m, ⟨m.x20, m.x21⟩) := by
      rw [M33_extractSHRT, he]
    exact ⟨_, _, _, _, e, M33_extractSHRT_recompose hs ht ha e⟩
  · intro hd
    rw [M33_extractSHRT, M33_extractAndRemoveScalingAndShear_degenerate hs hd]

/-- `removeScaling (Matrix33)` is `sansScaling` plus the success flag (`m` unchanged on failure) -/
theorem M33_removeScaling (tmin tmax : α) (sqrt sin cos : α → α) (atan2 : α → α → α) (m : M33 α) :
    Gen.M33.removeScaling tmin tmax sqrt sin cos atan2 m =
      match ear33 tmax (Gen.V2.length tmin tmax sqrt) m with
      | some _ => (true, Gen.M33.sansScaling tmin tmax sqrt sin cos atan2 m)
      | none => (false, m) := by
  obtain ⟨m00, m01, m02, m10, m11, m12, m20, m21, m22⟩ := m
  cases h : ear33 tmax (Gen.V2.length tmin tmax sqrt) ⟨m00, m01, m02, m10, m11, m12, m20, m21, m22⟩ with
  | none => simp [Gen.M33.removeScaling, ear33_adapters_none h]
  | some r =>
    obtain ⟨e1, e2, e3, e4⟩ := ear33_adapters_some h
    simp only [Gen.M33.removeScaling, Gen.M33.sansScaling, e1, e2, e4, one_ne_zero, if_false]
    split_ifs <;> first | rfl | (congr 2 <;> ring)
/-- degenerate input: `sansScaling` returns its argument, the `exc` form throws -/
theorem M33_sansScaling_degenerate {tmin tmax : α} {sqrt sin cos : α → α} {atan2 : α → α → α} {m : M33 α}
    (h : ear33 tmax (Gen.V2.length tmin tmax sqrt) m = none) :
    Gen.M33.sansScaling tmin tmax sqrt sin cos atan2 m = m ∧
    Gen.M33.sansScalingExc tmin tmax sqrt sin cos atan2 m = .error Exc.domainError := by
  obtain ⟨m00, m01, m02, m10, m11, m12, m20, m21, m22⟩ := m
  simp [Gen.M33.sansScaling, Gen.M33.sansScalingExc, ear33_adapters_none h]
/-- the two forms agree on non-degenerate input -/
theorem M33_sansScalingExc {tmin tmax : α} {sqrt sin cos : α → α} {atan2 : α → α → α} {m : M33 α} {r : Res2 α}
    (h : ear33 tmax (Gen.V2.length tmin tmax sqrt) m = some r) :
    Gen.M33.sansScalingExc tmin tmax sqrt sin cos atan2 m = .ok (Gen.M33.sansScaling tmin tmax sqrt sin cos atan2 m) := by
  obtain ⟨m00, m01, m02, m10, m11, m12, m20, m21, m22⟩ := m
  obtain ⟨e1, e2, e3, e4⟩ := ear33_adapters_some h
  simp only [Gen.M33.sansScalingExc, Gen.M33.sansScaling, e1, e2, e4, one_ne_zero, if_false]
  split_ifs <;> rfl

/- FULL statement (Props/C12Recompose.lean, `M33_sansScaling_recompose`):
     (sansScaling m).toMat = shearH2 r.shr * linH2 r.m * transH2 (m.x20, m.x21)      -- shear * rotation * translation
   It is FALSE on a tree whose `sansScaling` recomposes with `M.translate; M.rotate; M.shear` because
   `Matrix33::rotate` post-multiplies (the state of /repo before commit ec5bcdd).  What holds
   regardless: the linear block is shear * rotation, the result is affine, and the whole statement holds when the
   translation is zero. -/
theorem M33_sansScaling_recompose_partial {tmin tmax : α} {sqrt sin cos : α → α} {atan2 : α → α → α}
    (hs : SqrtSpec sqrt) (ht : TrigSpec sin cos atan2) {m : M33 α} {r : Res2 α}
    (he : ear33 tmax (Gen.V2.length tmin tmax sqrt) m = some r) :
    lin2 (Gen.M33.sansScaling tmin tmax sqrt sin cos atan2 m) = shearMat2 r.shr * lin2 r.m ∧
    Affine2 (Gen.M33.sansScaling tmin tmax sqrt sin cos atan2 m) ∧
    (m.x20 = 0 → m.x21 = 0 →
      (Gen.M33.sansScaling tmin tmax sqrt sin cos atan2 m).toMat = shearH2 r.shr * linH2 r.m * transH2 ⟨m.x20, m.x21⟩) := by
  obtain ⟨e, ho, hd, _⟩ := ear33_spec (V2_length_spec hs) he
  obtain ⟨h0, e11, e01, hc⟩ := rot2_shape ho hd
  obtain ⟨e1, e2, e3, e4⟩ := ear33_adapters_some he
  obtain ⟨m00, m01, m02, m10, m11, m12, m20, m21, m22⟩ := m
  obtain ⟨⟨R00, R01, R02, R10, R11, R12, R20, R21, R22⟩, scl, shr⟩ := r
  simp only at h0 e11 e01 hc e2 e4
  subst e11 e01
  have l0 := len_eq_one (V2_length_spec (tmin := tmin) (tmax := tmax) hs) R11 (-R10) h0
  have l1 : Gen.V2.length tmin tmax sqrt ⟨R10, R11⟩ = 1 := by
    apply len_eq_one (V2_length_spec hs); rw [← hc]; ring
  obtain ⟨tc, ts⟩ := ht R11 R10 hc
  simp only [Gen.M33.sansScaling, e1, e2, e4, l0, l1, one_ne_zero, if_false, div_one, tc, ts]
  refine ⟨?_, ?_, ?_⟩
  · ext i j
    fin_cases i <;> fin_cases j <;>
      simp [lin2, shearMat2, Matrix.mul_apply, Fin.sum_univ_two] <;> ring
  · refine ⟨?_, ?_, ?_⟩ <;> simp
  · intro z0 z1
    change m20 = 0 at z0
    change m21 = 0 at z1
    subst z0 z1
    ext i j
    fin_cases i <;> fin_cases j <;>
      simp [M33.toMat, shearH2, transH2, linH2, Matrix.mul_apply, Fin.sum_univ_three] <;> ring

/-- the two textual copies of the 2-D `extractEuler` (Matrix22, Matrix33) read the same angle off the same 2×2 block -/
theorem M22_extractEuler_eq_M33 (tmin tmax : α) (sqrt : α → α) (atan2 : α → α → α) (m : M33 α) :
    Gen.M22.extractEuler tmin tmax sqrt atan2 ⟨m.x00, m.x01, m.x10, m.x11⟩ = Gen.M33.extractEuler tmin tmax sqrt atan2 m := by
  simp only [Gen.M22.extractEuler, Gen.M33.extractEuler]

/-- the statement sequence `M.translate (t); M.rotate (r); M.shear (h)` on a 3×3 matrix (with which `sansScaling (Matrix33)`
recomposed before /repo ec5bcdd) is `shear * TRANSLATION * ROTATION`: `Matrix33::rotate` post-multiplies, so the translation is
rotated too — the algebraic content of the repaired 2-D defect, for every `t`, `r`, `h` -/
theorem M33_composeTRH (sin cos : α → α) (t : V2 α) (r h : α) :
    (Gen.M33.composeTRH sin cos t r h).toMat = shearH2 h * transH2 t * rotH2 (cos r) (sin r) := by
  ext i j
  fin_cases i <;> fin_cases j <;>
    simp [Gen.M33.composeTRH, M33.toMat, shearH2, transH2, rotH2, Matrix.mul_apply, Fin.sum_univ_three] <;> ring

/-! ## A.4 3-D wrappers (T-route) -/

theorem M44_extractScaling (tmin tmax : α) (sqrt : α → α) (m : M44 α) :
    Gen.M44.extractScaling tmin tmax sqrt m =
      match ear44 tmax (Gen.V3.length tmin tmax sqrt) m with
      | some r => (true, r.scl)
      | none => (false, ⟨0, 0, 0⟩) := by
  obtain ⟨m00, m01, m02, m03, m10, m11, m12, m13, m20, m21, m22, m23, m30, m31, m32, m33⟩ := m
  cases h : ear44 tmax (Gen.V3.length tmin tmax sqrt) ⟨m00, m01, m02, m03, m10, m11, m12, m13, m20, m21, m22, m23, m30, m31, m32, m33⟩ with
  | none => simp [Gen.M44.extractScaling, ear44_adapters_none h]
  | some r =>
    obtain ⟨e1, e2, e3, e4⟩ := ear44_adapters_some h
    simp [Gen.M44.extractScaling, e1, e3]
theorem M44_extractScalingExc (tmin tmax : α) (sqrt : α → α) (m : M44 α) :
    Gen.M44.extractScalingExc tmin tmax sqrt m =
      match ear44 tmax (Gen.V3.length tmin tmax sqrt) m with
      | some r => .ok (true, r.scl)
      | none => .error Exc.domainError := by
  obtain ⟨m00, m01, m02, m03, m10, m11, m12, m13, m20, m21, m22, m23, m30, m31, m32, m33⟩ := m
  cases h : ear44 tmax (Gen.V3.length tmin tmax sqrt) ⟨m00, m01, m02, m03, m10, m11, m12, m13, m20, m21, m22, m23, m30, m31, m32, m33⟩ with
  | none => simp [Gen.M44.extractScalingExc, ear44_adapters_none h]
  | some r =>
    obtain ⟨e1, e2, e3, e4⟩ := ear44_adapters_some h
    simp [Gen.M44.extractScalingExc, e1, e3]
theorem M44_extractScalingAndShear (tmin tmax : α) (sqrt : α → α) (m : M44 α) :
    Gen.M44.extractScalingAndShear tmin tmax sqrt m =
      match ear44 tmax (Gen.V3.length tmin tmax sqrt) m with
      | some r => (true, r.scl, r.shr)
      | none => (false, ⟨0, 0, 0⟩, ⟨0, 0, 0⟩) := by
  obtain ⟨m00, m01, m02, m03, m10, m11, m12, m13, m20, m21, m22, m23, m30, m31, m32, m33⟩ := m
  cases h : ear44 tmax (Gen.V3.length tmin tmax sqrt) ⟨m00, m01, m02, m03, m10, m11, m12, m13, m20, m21, m22, m23, m30, m31, m32, m33⟩ with
  | none => simp [Gen.M44.extractScalingAndShear, ear44_adapters_none h]
  | some r =>
    obtain ⟨e1, e2, e3, e4⟩ := ear44_adapters_some h
    simp [Gen.M44.extractScalingAndShear, e1, e3, e4]
/-- `sansScalingAndShear` returns the residual `R` with the translation row of `m` (= rotation * translation) -/
theorem M44_sansScalingAndShear (tmin tmax : α) (sqrt : α → α) (m : M44 α) :
    Gen.M44.sansScalingAndShear tmin tmax sqrt m =
      match ear44 tmax (Gen.V3.length tmin tmax sqrt) m with
      | some r => r.m
      | none => m := by
  obtain ⟨m00, m01, m02, m03, m10, m11, m12, m13, m20, m21, m22, m23, m30, m31, m32, m33⟩ := m
  cases h : ear44 tmax (Gen.V3.length tmin tmax sqrt) ⟨m00, m01, m02, m03, m10, m11, m12, m13, m20, m21, m22, m23, m30, m31, m32, m33⟩ with
  | none => simp [Gen.M44.sansScalingAndShear, ear44_adapters_none h]
  | some r =>
    obtain ⟨e1, e2, e3, e4⟩ := ear44_adapters_some h
    simp [Gen.M44.sansScalingAndShear, e1, e2]
theorem M44_sansScalingAndShearExc (tmin tmax : α) (sqrt : α → α) (m : M44 α) :
    Gen.M44.sansScalingAndShearExc tmin tmax sqrt m =
      match ear44 tmax (Gen.V3.length tmin tmax sqrt) m with
      | some r => .ok r.m
      | none => .error Exc.domainError := by
  obtain ⟨m00, m01, m02, m03, m10, m11, m12, m13, m20, m21, m22, m23, m30, m31, m32, m33⟩ := m
  cases h : ear44 tmax (Gen.V3.length tmin tmax sqrt) ⟨m00, m01, m02, m03, m10, m11, m12, m13, m20, m21, m22, m23, m30, m31, m32, m33⟩ with
  | none => simp [Gen.M44.sansScalingAndShearExc, ear44_adapters_none h]
  | some r =>
    obtain ⟨e1, e2, e3, e4⟩ := ear44_adapters_some h
    simp [Gen.M44.sansScalingAndShearExc, e1, e2]
/-- the out-parameter overload decomposes `result` IN PLACE (as documented: "Extract scaling and shear from the
given 4x4 matrix in-place"); `mat` is only the value returned when `result` is degenerate -/
theorem M44_sansScalingAndShearOut (tmin tmax : α) (sqrt : α → α) (result m : M44 α) :
    Gen.M44.sansScalingAndShearOut tmin tmax sqrt result m =
      match ear44 tmax (Gen.V3.length tmin tmax sqrt) result with
      | some r => r.m
      | none => m := by
  obtain ⟨m00, m01, m02, m03, m10, m11, m12, m13, m20, m21, m22, m23, m30, m31, m32, m33⟩ := m
  obtain ⟨r00, r01, r02, r03, r10, r11, r12, r13, r20, r21, r22, r23, r30, r31, r32, r33⟩ := result
  cases h : ear44 tmax (Gen.V3.length tmin tmax sqrt) ⟨r00, r01, r02, r03, r10, r11, r12, r13, r20, r21, r22, r23, r30, r31, r32, r33⟩ with
  | none => simp [Gen.M44.sansScalingAndShearOut, ear44_adapters_none h]
  | some r =>
    obtain ⟨e1, e2, e3, e4⟩ := ear44_adapters_some h
    simp [Gen.M44.sansScalingAndShearOut, e1, e2]
theorem M44_removeScalingAndShear (tmin tmax : α) (sqrt : α → α) (m : M44 α) :
    Gen.M44.removeScalingAndShear tmin tmax sqrt m =
      match ear44 tmax (Gen.V3.length tmin tmax sqrt) m with
      | some r => (true, r.m)
      | none => (false, m) := by
  obtain ⟨m00, m01, m02, m03, m10, m11, m12, m13, m20, m21, m22, m23, m30, m31, m32, m33⟩ := m
  cases h : ear44 tmax (Gen.V3.length tmin tmax sqrt) ⟨m00, m01, m02, m03, m10, m11, m12, m13, m20, m21, m22, m23, m30, m31, m32, m33⟩ with
  | none => simp [Gen.M44.removeScalingAndShear, ear44_adapters_none h]
  | some r =>
    obtain ⟨e1, e2, e3, e4⟩ := ear44_adapters_some h
    simp [Gen.M44.removeScalingAndShear, e1, e2]
/-- rotation * translation: for an affine `m` the result of `sansScalingAndShear` is `R · T` -/
theorem M44_sansScalingAndShear_factors {tmin tmax : α} {sqrt : α → α} (hs : SqrtSpec sqrt) {m : M44 α} {r : Res3 α}
    (ha : Affine3 m) (h : ear44 tmax (Gen.V3.length tmin tmax sqrt) m = some r) :
    (Gen.M44.sansScalingAndShear tmin tmax sqrt m).toMat = linH3 r.m * transH3 ⟨m.x30, m.x31, m.x32⟩ ∧
    scaleH3 r.scl * shearH3 r.shr * (Gen.M44.sansScalingAndShear tmin tmax sqrt m).toMat = m.toMat := by
  rw [M44_sansScalingAndShear, h]
  obtain ⟨e, _, _, c0, c1, c2, t0, t1, t2, t3, _⟩ := ear44_spec (V3_length_spec hs) h
  obtain ⟨a0, a1, a2, a3⟩ := ha
  have hE : ∀ i j : Fin 3, (scaleMat3 r.scl * shearMat3 r.shr * lin3 r.m) i j = lin3 m i j := fun i j => by rw [e]
  have h00 := hE 0 0; have h01 := hE 0 1; have h02 := hE 0 2
  have h10 := hE 1 0; have h11 := hE 1 1; have h12 := hE 1 2
  have h20 := hE 2 0; have h21 := hE 2 1; have h22 := hE 2 2
  simp [scaleMat3, shearMat3, lin3, Matrix.mul_apply, Fin.sum_univ_three] at h00 h01 h02 h10 h11 h12 h20 h21 h22
  constructor
  · ext i j
    fin_cases i <;> fin_cases j <;>
      simp [M44.toMat, linH3, transH3, Matrix.mul_apply, Fin.sum_univ_four, c0, c1, c2, t0, t1, t2, t3, a0, a1, a2, a3]
  · ext i j
    fin_cases i <;> fin_cases j <;>
      simp [M44.toMat, scaleH3, shearH3, Matrix.mul_apply, Fin.sum_univ_four, c0, c1, c2, t0, t1, t2, t3, a0, a1, a2, a3] <;>
      linarith

theorem M44_extractSHRT (tmin tmax : α) (sqrt sin cos : α → α) (atan2 : α → α → α) (m : M44 α) :
    Gen.M44.extractSHRT tmin tmax sqrt sin cos atan2 m =
      match ear44 tmax (Gen.V3.length tmin tmax sqrt) m with
      | some r => (true, r.scl, r.shr, Gen.M44.extractEulerXYZ tmin tmax sqrt sin cos atan2 r.m, ⟨m.x30, m.x31, m.x32⟩)
      | none => (false, ⟨0, 0, 0⟩, ⟨0, 0, 0⟩, ⟨0, 0, 0⟩, ⟨0, 0, 0⟩) := by
  obtain ⟨m00, m01, m02, m03, m10, m11, m12, m13, m20, m21, m22, m23, m30, m31, m32, m33⟩ := m
  cases h : ear44 tmax (Gen.V3.length tmin tmax sqrt) ⟨m00, m01, m02, m03, m10, m11, m12, m13, m20, m21, m22, m23, m30, m31, m32, m33⟩ with
  | none => simp [Gen.M44.extractSHRT, ear44_adapters_none h]
  | some r =>
    obtain ⟨e1, e2, e3, e4⟩ := ear44_adapters_some h
    simp only [Gen.M44.extractSHRT, Gen.M44.extractEulerXYZ, e1, e2, e3, e4, one_ne_zero, if_false]
    split_ifs <;> rfl

theorem M44_composeTRH (sin cos : α → α) (t r h : V3 α) :
    (Gen.M44.composeTRH sin cos t r h).toMat = shearH3 h * rotH3 sin cos r * transH3 t := by
  ext i j
  fin_cases i <;> fin_cases j <;>
    simp [Gen.M44.composeTRH, M44.toMat, shearH3, transH3, rotH3, Matrix.mul_apply, Fin.sum_univ_four] <;> ring

theorem M44_composeTRS (sin cos : α → α) (t r s : V3 α) :
    (Gen.M44.composeTRS sin cos t r s).toMat = scaleH3 s * rotH3 sin cos r * transH3 t := by
  ext i j
  fin_cases i <;> fin_cases j <;>
    simp [Gen.M44.composeTRS, M44.toMat, scaleH3, transH3, rotH3, Matrix.mul_apply, Fin.sum_univ_four] <;> ring

theorem M44_sansScaling_eq (tmin tmax : α) (sqrt sin cos : α → α) (atan2 : α → α → α) (m : M44 α) :
    Gen.M44.sansScaling tmin tmax sqrt sin cos atan2 m =
      match ear44 tmax (Gen.V3.length tmin tmax sqrt) m with
      | some r => Gen.M44.composeTRH sin cos ⟨m.x30, m.x31, m.x32⟩ (Gen.M44.extractEulerXYZ tmin tmax sqrt sin cos atan2 r.m) r.shr
      | none => m := by
  obtain ⟨m00, m01, m02, m03, m10, m11, m12, m13, m20, m21, m22, m23, m30, m31, m32, m33⟩ := m
  cases h : ear44 tmax (Gen.V3.length tmin tmax sqrt) ⟨m00, m01, m02, m03, m10, m11, m12, m13, m20, m21, m22, m23, m30, m31, m32, m33⟩ with
  | none => simp [Gen.M44.sansScaling, ear44_adapters_none h]
  | some r =>
    obtain ⟨e1, e2, e3, e4⟩ := ear44_adapters_some h
    simp only [Gen.M44.sansScaling, Gen.M44.extractEulerXYZ, e1, e2, e4, one_ne_zero, if_false]
    split_ifs <;> first | rfl | (simp only [Gen.M44.composeTRH]; congr 1 <;> ring)


/-- 3-D `sansScaling`: shear * rotation * translation, where "rotation" is the XYZ Euler rotation matrix
(`Matrix44::rotate`) of the angles that `extractEulerXYZ` reads off the residual `R` -/
theorem M44_sansScaling {tmin tmax : α} {sqrt sin cos : α → α} {atan2 : α → α → α} {m : M44 α} {r : Res3 α}
    (he : ear44 tmax (Gen.V3.length tmin tmax sqrt) m = some r) :
    (Gen.M44.sansScaling tmin tmax sqrt sin cos atan2 m).toMat =
      shearH3 r.shr * rotH3 sin cos (Gen.M44.extractEulerXYZ tmin tmax sqrt sin cos atan2 r.m) * transH3 ⟨m.x30, m.x31, m.x32⟩ := by
  rw [M44_sansScaling_eq, he]
  exact M44_composeTRH _ _ _ _ _
theorem M44_sansScaling_degenerate {tmin tmax : α} {sqrt sin cos : α → α} {atan2 : α → α → α} {m : M44 α}
    (h : ear44 tmax (Gen.V3.length tmin tmax sqrt) m = none) :
    Gen.M44.sansScaling tmin tmax sqrt sin cos atan2 m = m ∧
    Gen.M44.sansScalingExc tmin tmax sqrt sin cos atan2 m = .error Exc.domainError := by
  obtain ⟨m00, m01, m02, m03, m10, m11, m12, m13, m20, m21, m22, m23, m30, m31, m32, m33⟩ := m
  simp [Gen.M44.sansScaling, Gen.M44.sansScalingExc, ear44_adapters_none h]
theorem M44_removeScaling (tmin tmax : α) (sqrt sin cos : α → α) (atan2 : α → α → α) (m : M44 α) :
    Gen.M44.removeScaling tmin tmax sqrt sin cos atan2 m =
      match ear44 tmax (Gen.V3.length tmin tmax sqrt) m with
      | some _ => (true, Gen.M44.sansScaling tmin tmax sqrt sin cos atan2 m)
      | none => (false, m) := by
  obtain ⟨m00, m01, m02, m03, m10, m11, m12, m13, m20, m21, m22, m23, m30, m31, m32, m33⟩ := m
  cases h : ear44 tmax (Gen.V3.length tmin tmax sqrt) ⟨m00, m01, m02, m03, m10, m11, m12, m13, m20, m21, m22, m23, m30, m31, m32, m33⟩ with
  | none => simp [Gen.M44.removeScaling, ear44_adapters_none h]
  | some r =>
    obtain ⟨e1, e2, e3, e4⟩ := ear44_adapters_some h
    simp only [Gen.M44.removeScaling, Gen.M44.sansScaling, e1, e2, e4, one_ne_zero, if_false]
    split_ifs <;> first | rfl | (congr 2 <;> ring)

/- FULL statement for `extractSHRT` / `sansScaling` (3-D): with `(true, s, h, r, t) = extractSHRT m`,
     scaleH3 s * shearH3 h * rotH3 sin cos r * transH3 t = m.toMat.
   The two theorems below keep the Euler round trip `rotH3 (extractEulerXYZ R) = R` for a rotation `R` as a
   hypothesis `hE`.  That hypothesis is DISCHARGED in `Props/C12Link.lean` (`rotH3_extractEulerXYZ`: every rotation
   matrix, gimbal lock included), where the statements are proved at FULL strength with no hypothesis on the Euler angles:
   `C12Link.M44_extractSHRT_recompose`, `C12Link.M44_sansScaling_recompose`, `C12Link.M44_removeScaling_recompose`.
   The `_partial` forms stay here because this file does not import C11. -/
theorem M44_extractSHRT_recompose_partial {tmin tmax : α} {sqrt sin cos : α → α} {atan2 : α → α → α}
    (hs : SqrtSpec sqrt) {m : M44 α} (ha : Affine3 m) {s h rot t : V3 α}
    (hr : Gen.M44.extractSHRT tmin tmax sqrt sin cos atan2 m = (true, s, h, rot, t))
    (hE : ∀ R : M44 α, lin3 R * (lin3 R)ᵀ = 1 → (lin3 R).det = 1 →
      rotH3 sin cos (Gen.M44.extractEulerXYZ tmin tmax sqrt sin cos atan2 R) = linH3 R) :
    scaleH3 s * shearH3 h * rotH3 sin cos rot * transH3 t = m.toMat := by
  rw [M44_extractSHRT] at hr
  cases he : ear44 tmax (Gen.V3.length tmin tmax sqrt) m with
  | none => rw [he] at hr; simp at hr
  | some r =>
    rw [he] at hr
    simp only [Prod.mk.injEq, true_and] at hr
    obtain ⟨rfl, rfl, rfl, rfl⟩ := hr
    obtain ⟨_, ho, hd, _⟩ := ear44_spec (V3_length_spec hs) he
    rw [hE r.m ho hd]
    have := (M44_sansScalingAndShear_factors hs ha he)
    rw [this.1, ← Matrix.mul_assoc] at this
    exact this.2
/-- same for `sansScaling`: `scale * sansScaling (m) = m` -/
theorem M44_sansScaling_recompose_partial {tmin tmax : α} {sqrt sin cos : α → α} {atan2 : α → α → α}
    (hs : SqrtSpec sqrt) {m : M44 α} (ha : Affine3 m) {r : Res3 α}
    (he : ear44 tmax (Gen.V3.length tmin tmax sqrt) m = some r)
    (hE : ∀ R : M44 α, lin3 R * (lin3 R)ᵀ = 1 → (lin3 R).det = 1 →
      rotH3 sin cos (Gen.M44.extractEulerXYZ tmin tmax sqrt sin cos atan2 R) = linH3 R) :
    (Gen.M44.sansScaling tmin tmax sqrt sin cos atan2 m).toMat = shearH3 r.shr * linH3 r.m * transH3 ⟨m.x30, m.x31, m.x32⟩ ∧
    scaleH3 r.scl * (Gen.M44.sansScaling tmin tmax sqrt sin cos atan2 m).toMat = m.toMat := by
  obtain ⟨_, ho, hd, _⟩ := ear44_spec (V3_length_spec hs) he
  have e := M44_sansScaling (sin := sin) (cos := cos) (atan2 := atan2) he
  rw [hE r.m ho hd] at e
  refine ⟨e, ?_⟩
  have := (M44_sansScalingAndShear_factors hs ha he)
  rw [this.1, ← Matrix.mul_assoc] at this
  rw [e, ← Matrix.mul_assoc, ← Matrix.mul_assoc]
  exact this.2

/-- `computeRSMatrix` rebuilds its result with `makeIdentity; translate (t); rotate (r); scale (s)`, which is
`scale * rotation * translation` -/
theorem M44_computeRSMatrix_tail (sin cos : α → α) (t r s : V3 α) :
    (Gen.M44.composeTRS sin cos t r s).toMat = scaleH3 s * rotH3 sin cos r * transH3 t :=
  M44_composeTRS sin cos t r s
/- FULL statement: computeRSMatrix (keepRotateA, keepScaleA, A, B) =
     composeTRS (translation of A) (rotation of keepRotateA ? A : B) (scale of keepScaleA ? A : B), factors from extractSHRT,
   and std::domain_error when A or B is degenerate.  The 73-path trees make the Lean proof of the factor selection too
   expensive; PROVED: the tail algebra (above) and the degenerate-A arm (below); the factor selection is checked on the
   real code bit for bit against the sequence of real calls (harness/corr/c12_corr.cpp, "rs" lines). -/
theorem M44_computeRSMatrix_degenerate_partial {tmin tmax : α} {sqrt sin cos : α → α} {atan2 : α → α → α} {A : M44 α} (B : M44 α)
    (h : ear44 tmax (Gen.V3.length tmin tmax sqrt) A = none) :
    Gen.M44.computeRSMatrix_1_1 tmin tmax sqrt sin cos atan2 A B = .error Exc.domainError ∧
    Gen.M44.computeRSMatrix_1_0 tmin tmax sqrt sin cos atan2 A B = .error Exc.domainError ∧
    Gen.M44.computeRSMatrix_0_1 tmin tmax sqrt sin cos atan2 A B = .error Exc.domainError ∧
    Gen.M44.computeRSMatrix_0_0 tmin tmax sqrt sin cos atan2 A B = .error Exc.domainError := by
  obtain ⟨a00, a01, a02, a03, a10, a11, a12, a13, a20, a21, a22, a23, a30, a31, a32, a33⟩ := A
  have e := ear44_adapters_none h
  refine ⟨?_, ?_, ?_, ?_⟩
  · simp [Gen.M44.computeRSMatrix_1_1, e]
  · simp [Gen.M44.computeRSMatrix_1_0, e]
  · simp [Gen.M44.computeRSMatrix_0_1, e]
  · simp [Gen.M44.computeRSMatrix_0_0, e]

/-! ## B. Jacobi: one two-sided rotation is an orthogonal similarity — for any number of rotations -/

/-- ONE rotation of `twoSidedJacobiRotation` (3×3: `<j,k,l>` ∈ {(0,1,2),(0,2,1),(1,2,0)}): with parameters that are
unit pairs and diagonalise the 2×2 block (or the early exit on an already-zero off-diagonal pair),
`U'·A'·V'ᵀ = U·A·Vᵀ`, `U'·U'ᵀ = U·Uᵀ`, `V'·V'ᵀ = V·Vᵀ`. -/
theorem twoSidedJacobiRotation_invariant3 {α : Type} [CommRing α] {st : SVDState α} {j k : Nat} {p : Angles α}
    (h : StepOK 3 st j k p) :
    prodUAV 3 (svdApply j k p st).2 = prodUAV 3 st ∧
    toM 3 (svdApply j k p st).2.U * (toM 3 (svdApply j k p st).2.U)ᵀ = toM 3 st.U * (toM 3 st.U)ᵀ ∧
    toM 3 (svdApply j k p st).2.V * (toM 3 (svdApply j k p st).2.V)ᵀ = toM 3 st.V * (toM 3 st.V)ᵀ :=
  svdApply_invariant3 h
/-- the 4×4 rotation, any pair `j < k < 4` -/
theorem twoSidedJacobiRotation_invariant4 {α : Type} [CommRing α] {st : SVDState α} {j k : Nat} {p : Angles α}
    (h : StepOK 4 st j k p) :
    prodUAV 4 (svdApply j k p st).2 = prodUAV 4 st ∧
    toM 4 (svdApply j k p st).2.U * (toM 4 (svdApply j k p st).2.U)ᵀ = toM 4 st.U * (toM 4 st.U)ᵀ ∧
    toM 4 (svdApply j k p st).2.V * (toM 4 (svdApply j k p st).2.V)ᵀ = toM 4 st.V * (toM 4 st.V)ᵀ :=
  svdApply_invariant4 h

/-- the invariant for ANY list of rotations (any number of sweeps, any order of pairs), by induction (3×3) -/
theorem jacobiSVD_run_invariant3 {α : Type} [CommRing α] (steps : List (Nat × Nat × Angles α)) (st : SVDState α)
    (h : RunOK 3 st steps) :
    prodUAV 3 (runSteps st steps) = prodUAV 3 st ∧
    toM 3 (runSteps st steps).U * (toM 3 (runSteps st steps).U)ᵀ = toM 3 st.U * (toM 3 st.U)ᵀ ∧
    toM 3 (runSteps st steps).V * (toM 3 (runSteps st steps).V)ᵀ = toM 3 st.V * (toM 3 st.V)ᵀ := by
  induction steps generalizing st with
  | nil => exact ⟨rfl, rfl, rfl⟩
  | cons s ss ih =>
    obtain ⟨h1, h2⟩ := h
    obtain ⟨a, b, c⟩ := svdApply_invariant3 h1
    obtain ⟨a', b', c'⟩ := ih _ h2
    exact ⟨a'.trans a, b'.trans b, c'.trans c⟩
theorem jacobiSVD_run_invariant4 {α : Type} [CommRing α] (steps : List (Nat × Nat × Angles α)) (st : SVDState α)
    (h : RunOK 4 st steps) :
    prodUAV 4 (runSteps st steps) = prodUAV 4 st ∧
    toM 4 (runSteps st steps).U * (toM 4 (runSteps st steps).U)ᵀ = toM 4 st.U * (toM 4 st.U)ᵀ ∧
    toM 4 (runSteps st steps).V * (toM 4 (runSteps st steps).V)ᵀ = toM 4 st.V * (toM 4 st.V)ᵀ := by
  induction steps generalizing st with
  | nil => exact ⟨rfl, rfl, rfl⟩
  | cons s ss ih =>
    obtain ⟨h1, h2⟩ := h
    obtain ⟨a, b, c⟩ := svdApply_invariant4 h1
    obtain ⟨a', b', c'⟩ := ih _ h2
    exact ⟨a'.trans a, b'.trans b, c'.trans c⟩

/-- started from `U = V = 1` (as `twoSidedJacobiSVD` does): after any exact run `U·A'·Vᵀ = A`, `U`, `V` orthogonal -/
theorem jacobiSVD_from_identity3 {α : Type} [CommRing α] (steps : List (Nat × Nat × Angles α)) (A : Mat α)
    (h : RunOK 3 ⟨A, fun i j => if i = j then 1 else 0, fun i j => if i = j then 1 else 0⟩ steps) :
    let st := runSteps ⟨A, fun i j => if i = j then 1 else 0, fun i j => if i = j then 1 else 0⟩ steps
    toM 3 st.U * toM 3 st.A * (toM 3 st.V)ᵀ = toM 3 A ∧ toM 3 st.U * (toM 3 st.U)ᵀ = 1 ∧ toM 3 st.V * (toM 3 st.V)ᵀ = 1 := by
  intro st
  obtain ⟨a, b, c⟩ := jacobiSVD_run_invariant3 steps _ h
  have hI : toM 3 (fun i j => if i = j then (1 : α) else 0) = 1 := by
    ext i j; fin_cases i <;> fin_cases j <;> simp [toM]
  simp only [prodUAV, hI] at a b c
  refine ⟨?_, ?_, ?_⟩
  · rw [a]; simp
  · rw [b]; simp
  · rw [c]; simp
theorem jacobiSVD_from_identity4 {α : Type} [CommRing α] (steps : List (Nat × Nat × Angles α)) (A : Mat α)
    (h : RunOK 4 ⟨A, fun i j => if i = j then 1 else 0, fun i j => if i = j then 1 else 0⟩ steps) :
    let st := runSteps ⟨A, fun i j => if i = j then 1 else 0, fun i j => if i = j then 1 else 0⟩ steps
    toM 4 st.U * toM 4 st.A * (toM 4 st.V)ᵀ = toM 4 A ∧ toM 4 st.U * (toM 4 st.U)ᵀ = 1 ∧ toM 4 st.V * (toM 4 st.V)ᵀ = 1 := by
  intro st
  obtain ⟨a, b, c⟩ := jacobiSVD_run_invariant4 steps _ h
  have hI : toM 4 (fun i j => if i = j then (1 : α) else 0) = 1 := by
    ext i j; fin_cases i <;> fin_cases j <;> simp [toM]
  simp only [prodUAV, hI] at a b c
  refine ⟨?_, ?_, ?_⟩
  · rw [a]; simp
  · rw [b]; simp
  · rw [c]; simp

/-! ### the COMPUTED rotation parameters (tolerance 0) -/

/-- the parameters that `twoSidedJacobiRotation` computes from the 2×2 block `[[w, x], [y, z]]` with tolerance 0
(symmetrise with `rho = (w+z)/(x-y)`, then diagonalise with `t = sign(rho₂)/(|rho₂| + sqrt (1 + rho₂²))`) are unit pairs
that diagonalise the block EXACTLY; the early exit happens only when `x = y = 0`.  (With a positive tolerance the
code treats nearly symmetric / nearly diagonal blocks as exact: that approximation is measured, not proved.) -/
theorem twoSidedJacobiRotation_computed_parameters {sqrt : α → α} (hs : SqrtSpec sqrt) (w x y z : α) :
    ((svdAngles 0 sqrt w x y z).changed = true ∧ Diagonalises (svdAngles 0 sqrt w x y z) w x y z) ∨
    ((svdAngles 0 sqrt w x y z).changed = false ∧ x = 0 ∧ y = 0) :=
  svdAngles_diagonalises hs w x y z

/-- so with tolerance 0 the WHOLE rotation (parameters computed from the matrix, no hypothesis on them) is an
orthogonal similarity, 3×3 and 4×4 -/
theorem twoSidedJacobiRotation_tol0_invariant {sqrt : α → α} (hs : SqrtSpec sqrt) (j k : Nat) (hjk : j < k) (st : SVDState α) :
    (k < 3 → prodUAV 3 (twoSidedJacobiRotation 0 sqrt j k st).2 = prodUAV 3 st ∧
      toM 3 (twoSidedJacobiRotation 0 sqrt j k st).2.U * (toM 3 (twoSidedJacobiRotation 0 sqrt j k st).2.U)ᵀ = toM 3 st.U * (toM 3 st.U)ᵀ ∧
      toM 3 (twoSidedJacobiRotation 0 sqrt j k st).2.V * (toM 3 (twoSidedJacobiRotation 0 sqrt j k st).2.V)ᵀ = toM 3 st.V * (toM 3 st.V)ᵀ) ∧
    (k < 4 → prodUAV 4 (twoSidedJacobiRotation 0 sqrt j k st).2 = prodUAV 4 st ∧
      toM 4 (twoSidedJacobiRotation 0 sqrt j k st).2.U * (toM 4 (twoSidedJacobiRotation 0 sqrt j k st).2.U)ᵀ = toM 4 st.U * (toM 4 st.U)ᵀ ∧
      toM 4 (twoSidedJacobiRotation 0 sqrt j k st).2.V * (toM 4 (twoSidedJacobiRotation 0 sqrt j k st).2.V)ᵀ = toM 4 st.V * (toM 4 st.V)ᵀ) :=
  ⟨fun hk => svdApply_invariant3 (stepOK_tol0 hs 3 j k hjk hk st), fun hk => svdApply_invariant4 (stepOK_tol0 hs 4 j k hjk hk st)⟩

/-- any number of sweeps (any list of index pairs `j < k < n`) with tolerance 0 preserves `U·A·Vᵀ` and orthogonality -/
theorem jacobiSVD_sweeps_tol0_invariant3 {sqrt : α → α} (hs : SqrtSpec sqrt) (pairs : List (Nat × Nat))
    (hp : ∀ jk ∈ pairs, jk.1 < jk.2 ∧ jk.2 < 3) (st : SVDState α) :
    prodUAV 3 (runPairs sqrt st pairs) = prodUAV 3 st ∧
    toM 3 (runPairs sqrt st pairs).U * (toM 3 (runPairs sqrt st pairs).U)ᵀ = toM 3 st.U * (toM 3 st.U)ᵀ ∧
    toM 3 (runPairs sqrt st pairs).V * (toM 3 (runPairs sqrt st pairs).V)ᵀ = toM 3 st.V * (toM 3 st.V)ᵀ := by
  induction pairs generalizing st with
  | nil => exact ⟨rfl, rfl, rfl⟩
  | cons jk rest ih =>
    have h := hp jk (List.mem_cons_self ..)
    obtain ⟨a, b, c⟩ := svdApply_invariant3 (stepOK_tol0 hs 3 jk.1 jk.2 h.1 h.2 st)
    obtain ⟨a', b', c'⟩ := ih (fun q hq => hp q (List.mem_cons_of_mem _ hq)) (twoSidedJacobiRotation 0 sqrt jk.1 jk.2 st).2
    exact ⟨a'.trans a, b'.trans b, c'.trans c⟩
theorem jacobiSVD_sweeps_tol0_invariant4 {sqrt : α → α} (hs : SqrtSpec sqrt) (pairs : List (Nat × Nat))
    (hp : ∀ jk ∈ pairs, jk.1 < jk.2 ∧ jk.2 < 4) (st : SVDState α) :
    prodUAV 4 (runPairs sqrt st pairs) = prodUAV 4 st ∧
    toM 4 (runPairs sqrt st pairs).U * (toM 4 (runPairs sqrt st pairs).U)ᵀ = toM 4 st.U * (toM 4 st.U)ᵀ ∧
    toM 4 (runPairs sqrt st pairs).V * (toM 4 (runPairs sqrt st pairs).V)ᵀ = toM 4 st.V * (toM 4 st.V)ᵀ := by
  induction pairs generalizing st with
  | nil => exact ⟨rfl, rfl, rfl⟩
  | cons jk rest ih =>
    have h := hp jk (List.mem_cons_self ..)
    obtain ⟨a, b, c⟩ := svdApply_invariant4 (stepOK_tol0 hs 4 jk.1 jk.2 h.1 h.2 st)
    obtain ⟨a', b', c'⟩ := ih (fun q hq => hp q (List.mem_cons_of_mem _ hq)) (twoSidedJacobiRotation 0 sqrt jk.1 jk.2 st).2
    exact ⟨a'.trans a, b'.trans b, c'.trans c⟩

/-! ### the symmetric eigen solver: one `jacobiRotation` -/

/-- ONE rotation of `jacobiRotation` (eigen solver, which keeps only the upper triangle of the symmetric `A`):
given parameters `(t, c, s, tau)` that rotate the 2×2 block `[[x, y], [y, z]]` onto `diag (x - t*y, z + t*y)`
(`EigDiag`; e.g. `s = t*c`, `c²(1+t²) = 1`, `s*tau = 1 - c`, `y t² + (z-x) t - y = 0`: `eigDiag_of`),
`V'·sym(A')·V'ᵀ = V·sym(A)·Vᵀ` and `V'·V'ᵀ = V·Vᵀ` — 3×3 and 4×4, every pair; hence for any number of rotations. -/
theorem jacobiRotation_invariant {α : Type} [CommRing α] (j k : Nat) (hjk : j < k) (p : EigAngles α) (st : EigState α)
    (h : EigDiag p (st.A j j) (st.A j k) (st.A k k)) :
    (k < 3 → toM 3 (eigApply 3 j k p st).V * symM 3 (eigApply 3 j k p st).A * (toM 3 (eigApply 3 j k p st).V)ᵀ =
        toM 3 st.V * symM 3 st.A * (toM 3 st.V)ᵀ ∧
      toM 3 (eigApply 3 j k p st).V * (toM 3 (eigApply 3 j k p st).V)ᵀ = toM 3 st.V * (toM 3 st.V)ᵀ) ∧
    (k < 4 → toM 4 (eigApply 4 j k p st).V * symM 4 (eigApply 4 j k p st).A * (toM 4 (eigApply 4 j k p st).V)ᵀ =
        toM 4 st.V * symM 4 st.A * (toM 4 st.V)ᵀ ∧
      toM 4 (eigApply 4 j k p st).V * (toM 4 (eigApply 4 j k p st).V)ᵀ = toM 4 st.V * (toM 4 st.V)ᵀ) :=
  ⟨fun hk => eigApply_invariant3 j k hjk hk p st h, fun hk => eigApply_invariant4 j k hjk hk p st h⟩

/-- the natural description of the parameters implies `EigDiag` -/
theorem jacobiRotation_parameters {α : Type} [CommRing α] {p : EigAngles α} {x y z : α} (hs : p.s = p.t * p.c)
    (hc : p.c * p.c * (1 + p.t * p.t) = 1) (htau : p.s * p.tau = 1 - p.c) (ht : y * p.t * p.t + (z - x) * p.t - y = 0) :
    EigDiag p x y z := eigDiag_of hs hc htau ht

/-- non-vacuity: `[[0, 12], [12, 7]]` with `t = 3/4`, `c = 4/5`, `s = 3/5`, `tau = 1/3` -/
example : EigDiag (⟨3/4, 4/5, 3/5, 1/3⟩ : EigAngles ℚ) 0 12 7 :=
  eigDiag_of (by norm_num) (by norm_num) (by norm_num) (by norm_num)

/-- the parameters that `jacobiRotation` COMPUTES from the block `[[x, y], [y, z]]` with tolerance 0 (`rho = (z - x)/(2y)`,
`t = sign(rho)/(|rho| + sqrt (1 + rho²))`, `c = 1/sqrt (1 + t²)`, `s = t*c` in the 3×3 body / `c*t` in the 4×4 body (`cs`),
`tau = s/(1 + c)`) satisfy `EigDiag`; the early exit happens only when `y = 0`.  (The analogue of
`twoSidedJacobiRotation_computed_parameters`: a slip such as `rho = mu2/mu1`, `tau = s/(1 - c)` or `h = -t*y` breaks this theorem.) -/
theorem jacobiRotation_computed_parameters {sqrt : α → α} (hs : SqrtSpec sqrt) (cs : Bool) (x y z : α) :
    (∀ p, eigAngles 0 sqrt cs x y z = some p → EigDiag p x y z) ∧ (eigAngles 0 sqrt cs x y z = none → y = 0) :=
  eigAngles_diag hs cs x y z

/-- so with tolerance 0 the WHOLE rotation of the eigen solver (parameters computed from the matrix) is an orthogonal similarity -/
theorem jacobiRotation_tol0 {sqrt : α → α} (hs : SqrtSpec sqrt) (j k : Nat) (hjk : j < k) (st : EigState α) :
    (k < 3 → toM 3 (jacobiRotation 0 sqrt 3 j k st).2.V * symM 3 (jacobiRotation 0 sqrt 3 j k st).2.A * (toM 3 (jacobiRotation 0 sqrt 3 j k st).2.V)ᵀ =
        toM 3 st.V * symM 3 st.A * (toM 3 st.V)ᵀ ∧
      toM 3 (jacobiRotation 0 sqrt 3 j k st).2.V * (toM 3 (jacobiRotation 0 sqrt 3 j k st).2.V)ᵀ = toM 3 st.V * (toM 3 st.V)ᵀ) ∧
    (k < 4 → toM 4 (jacobiRotation 0 sqrt 4 j k st).2.V * symM 4 (jacobiRotation 0 sqrt 4 j k st).2.A * (toM 4 (jacobiRotation 0 sqrt 4 j k st).2.V)ᵀ =
        toM 4 st.V * symM 4 st.A * (toM 4 st.V)ᵀ ∧
      toM 4 (jacobiRotation 0 sqrt 4 j k st).2.V * (toM 4 (jacobiRotation 0 sqrt 4 j k st).2.V)ᵀ = toM 4 st.V * (toM 4 st.V)ᵀ) :=
  jacobiRotation_tol0_invariant hs j k hjk st

/-- any number of sweeps of the eigen solver (any list of index pairs `j < k < n`) with tolerance 0 preserves
`V·sym(A)·Vᵀ` and `V·Vᵀ`; started from `V = 1`: `V·sym(A')·Vᵀ = sym(A)`, `V` orthogonal -/
theorem jacobiEigenSolver_sweeps_tol0_invariant3 {sqrt : α → α} (hs : SqrtSpec sqrt) (pairs : List (Nat × Nat))
    (hp : ∀ jk ∈ pairs, jk.1 < jk.2 ∧ jk.2 < 3) (st : EigState α) :
    toM 3 (runEigPairs sqrt 3 st pairs).V * symM 3 (runEigPairs sqrt 3 st pairs).A * (toM 3 (runEigPairs sqrt 3 st pairs).V)ᵀ =
      toM 3 st.V * symM 3 st.A * (toM 3 st.V)ᵀ ∧
    toM 3 (runEigPairs sqrt 3 st pairs).V * (toM 3 (runEigPairs sqrt 3 st pairs).V)ᵀ = toM 3 st.V * (toM 3 st.V)ᵀ := by
  induction pairs generalizing st with
  | nil => exact ⟨rfl, rfl⟩
  | cons jk rest ih =>
    have h := hp jk (List.mem_cons_self ..)
    obtain ⟨a, b⟩ := (jacobiRotation_tol0_invariant hs jk.1 jk.2 h.1 st).1 h.2
    obtain ⟨a', b'⟩ := ih (fun q hq => hp q (List.mem_cons_of_mem _ hq)) (jacobiRotation 0 sqrt 3 jk.1 jk.2 st).2
    exact ⟨a'.trans a, b'.trans b⟩
theorem jacobiEigenSolver_sweeps_tol0_invariant4 {sqrt : α → α} (hs : SqrtSpec sqrt) (pairs : List (Nat × Nat))
    (hp : ∀ jk ∈ pairs, jk.1 < jk.2 ∧ jk.2 < 4) (st : EigState α) :
    toM 4 (runEigPairs sqrt 4 st pairs).V * symM 4 (runEigPairs sqrt 4 st pairs).A * (toM 4 (runEigPairs sqrt 4 st pairs).V)ᵀ =
      toM 4 st.V * symM 4 st.A * (toM 4 st.V)ᵀ ∧
    toM 4 (runEigPairs sqrt 4 st pairs).V * (toM 4 (runEigPairs sqrt 4 st pairs).V)ᵀ = toM 4 st.V * (toM 4 st.V)ᵀ := by
  induction pairs generalizing st with
  | nil => exact ⟨rfl, rfl⟩
  | cons jk rest ih =>
    have h := hp jk (List.mem_cons_self ..)
    obtain ⟨a, b⟩ := (jacobiRotation_tol0_invariant hs jk.1 jk.2 h.1 st).2 h.2
    obtain ⟨a', b'⟩ := ih (fun q hq => hp q (List.mem_cons_of_mem _ hq)) (jacobiRotation 0 sqrt 4 jk.1 jk.2 st).2
    exact ⟨a'.trans a, b'.trans b⟩

/-- the accumulator `Z` of a rotation tracks the change of the diagonal of `A`, so that the end-of-sweep update
`S[i] += Z[i]; A[i][i] = S[i]` keeps the returned eigenvalues `S` equal to the diagonal of the rotated matrix -/
theorem jacobiRotation_Z_tracks_diagonal {β : Type} [CommRing β] (n j k : Nat) (hjk : j < k) (p : EigAngles β) (st : EigState β) (i : Nat) :
    (eigApply n j k p st).A i i - st.A i i = (eigApply n j k p st).Z i - st.Z i :=
  eigApply_Z_tracks_diagonal n j k hjk p st i

/-- non-vacuity: over ℝ the block `[[0, 12], [12, 7]]` is not an early exit and its computed parameters satisfy `EigDiag` -/
theorem nonvacuity_eigAngles : ∃ p, eigAngles (0 : ℝ) Real.sqrt false 0 12 7 = some p ∧ EigDiag p (0 : ℝ) 12 7 := by
  have hsr : SqrtSpec Real.sqrt := fun x hx => ⟨Real.sqrt_nonneg x, Real.mul_self_sqrt hx⟩
  obtain ⟨h1, h2⟩ := eigAngles_diag hsr false (0 : ℝ) 12 7
  cases h : eigAngles (0 : ℝ) Real.sqrt false 0 12 7 with
  | none => exact absurd (h2 h) (by norm_num)
  | some p => exact ⟨p, rfl, h1 p h⟩

/-! ### the solver LOOPS (`Model/Jacobi.lean`, section `loops` — the definitions the driver executes and the correspondence ties
bit for bit to `jacobiSVD` / `jacobiEigenSolver` at double and float) -/

/-- the re-tabulation of the state after every rotation (for speed) is the identity function -/
theorem loops_tabulation_is_identity [Inhabited α] (n : Nat) (f : Mat α) (v : Nat → α) :
    matOfArr n f (matArr n f) = f ∧ vecOfArr n v (vecArr n v) = v :=
  ⟨matOfArr_matArr n f, vecOfArr_vecArr n v⟩

/-- `twoSidedJacobiSVD`'s loop, ANY tolerance / threshold / fuel: it only ever applies `twoSidedJacobiRotation` to pairs of `pairs n`
— whatever every such rotation preserves, the loop preserves -/
theorem jacobiSVD_loop_induction [Inhabited α] (tol : α) (sqrt : α → α) (n : Nat) (absTol : α) (P : SVDState α → Prop)
    (hstep : ∀ jk ∈ pairs n, ∀ st, P st → P (twoSidedJacobiRotation tol sqrt jk.1 jk.2 st).2)
    (fuel numIter : Nat) (st : SVDState α) (h : P st) : P (svdLoop tol sqrt n absTol fuel numIter st) :=
  svdLoop_induction tol sqrt n absTol P hstep fuel numIter st h

/-- with tolerance 0 in the rotations the loop (any threshold, any number of sweeps) preserves `U·A·Vᵀ`, `U·Uᵀ`, `V·Vᵀ` -/
theorem jacobiSVD_loop_tol0_invariant [Inhabited α] {sqrt : α → α} (hs : SqrtSpec sqrt) (absTol : α) (fuel numIter : Nat) (st : SVDState α) :
    (prodUAV 3 (svdLoop 0 sqrt 3 absTol fuel numIter st) = prodUAV 3 st ∧
      toM 3 (svdLoop 0 sqrt 3 absTol fuel numIter st).U * (toM 3 (svdLoop 0 sqrt 3 absTol fuel numIter st).U)ᵀ = toM 3 st.U * (toM 3 st.U)ᵀ ∧
      toM 3 (svdLoop 0 sqrt 3 absTol fuel numIter st).V * (toM 3 (svdLoop 0 sqrt 3 absTol fuel numIter st).V)ᵀ = toM 3 st.V * (toM 3 st.V)ᵀ) ∧
    (prodUAV 4 (svdLoop 0 sqrt 4 absTol fuel numIter st) = prodUAV 4 st ∧
      toM 4 (svdLoop 0 sqrt 4 absTol fuel numIter st).U * (toM 4 (svdLoop 0 sqrt 4 absTol fuel numIter st).U)ᵀ = toM 4 st.U * (toM 4 st.U)ᵀ ∧
      toM 4 (svdLoop 0 sqrt 4 absTol fuel numIter st).V * (toM 4 (svdLoop 0 sqrt 4 absTol fuel numIter st).V)ᵀ = toM 4 st.V * (toM 4 st.V)ᵀ) :=
  ⟨svdLoop_tol0_invariant3 hs absTol fuel numIter st, svdLoop_tol0_invariant4 hs absTol fuel numIter st⟩

/-- the whole `twoSidedJacobiSVD`: iteration, `S` read off the diagonal, post-pass, forcePositiveDeterminant -/
theorem jacobiSVD_whole [Inhabited α] (n : Nat) (force : Bool) (detU detV tol : α) (sqrt : α → α) (A : Mat α) :
    svdFull n force detU detV tol sqrt A =
      (let st := svdIterate tol sqrt n A
       let t : USV α := ⟨st.U, fun i => st.A i i, st.V⟩
       let t := if n == 3 then post3 t else post4 t
       if force then forcePos (n - 1) detU detV t else t) :=
  svdFull_eq n force detU detV tol sqrt A

/-- eigen solver, one sweep, ANY tolerance: the accumulator tracks the diagonal, `A'[i][i] = A[i][i] + Z[i]` -/
theorem jacobiEigenSolver_sweep_Z_tracks_diagonal [Inhabited α] (tol : α) (sqrt : α → α) (n : Nat) (hn : n = 3 ∨ n = 4) (A V : Mat α) (i : Nat) :
    (eigSweep tol sqrt n A V).2.A i i = A i i + (eigSweep tol sqrt n A V).2.Z i :=
  eigSweep_diag tol sqrt n hn A V i

/-- hence the end-of-sweep update `S[i] += Z[i]; A[i][i] = S[i]` leaves the rotated matrix as it is and makes `S` its diagonal -/
theorem jacobiEigenSolver_update [Inhabited α] (tol : α) (sqrt : α → α) (n : Nat) (hn : n = 3 ∨ n = 4) (st : EigRun α)
    (hS : ∀ i, i < n → st.S i = st.A i i) :
    (eigUpdate n st (eigSweep tol sqrt n st.A st.V).2).A = (eigSweep tol sqrt n st.A st.V).2.A ∧
    (eigUpdate n st (eigSweep tol sqrt n st.A st.V).2).V = (eigSweep tol sqrt n st.A st.V).2.V ∧
    (∀ i, i < n → (eigUpdate n st (eigSweep tol sqrt n st.A st.V).2).S i = (eigUpdate n st (eigSweep tol sqrt n st.A st.V).2).A i i) :=
  eigUpdate_eq tol sqrt n hn st hS

/-- `jacobiEigenSolver` as a whole, ANY tolerance: the returned eigenvalues `S` are the diagonal of the returned (rotated) matrix -/
theorem jacobiEigenSolver_S_is_diagonal [Inhabited α] (n : Nat) (hn : n = 3 ∨ n = 4) (tol : α) (sqrt : α → α) (A : Mat α) (i : Nat) (hi : i < n) :
    (eigFull n tol sqrt A).S i = (eigFull n tol sqrt A).A i i :=
  eigFull_S_eq_diag n hn tol sqrt A i hi

/-- with tolerance 0 in the rotations the eigen loop (any threshold, any number of sweeps, `Z` reset and the diagonal update
included) preserves `V·sym(A)·Vᵀ` and `V·Vᵀ`, and `S` stays the diagonal -/
theorem jacobiEigenSolver_loop_tol0_invariant [Inhabited α] {sqrt : α → α} (hs : SqrtSpec sqrt) (absTol : α) (fuel numIter : Nat) (st : EigRun α) :
    ((∀ i, i < 3 → st.S i = st.A i i) →
      (toM 3 (eigLoop 0 sqrt 3 absTol fuel numIter st).V * symM 3 (eigLoop 0 sqrt 3 absTol fuel numIter st).A *
          (toM 3 (eigLoop 0 sqrt 3 absTol fuel numIter st).V)ᵀ = toM 3 st.V * symM 3 st.A * (toM 3 st.V)ᵀ ∧
        toM 3 (eigLoop 0 sqrt 3 absTol fuel numIter st).V * (toM 3 (eigLoop 0 sqrt 3 absTol fuel numIter st).V)ᵀ = toM 3 st.V * (toM 3 st.V)ᵀ) ∧
      ∀ i, i < 3 → (eigLoop 0 sqrt 3 absTol fuel numIter st).S i = (eigLoop 0 sqrt 3 absTol fuel numIter st).A i i) ∧
    ((∀ i, i < 4 → st.S i = st.A i i) →
      (toM 4 (eigLoop 0 sqrt 4 absTol fuel numIter st).V * symM 4 (eigLoop 0 sqrt 4 absTol fuel numIter st).A *
          (toM 4 (eigLoop 0 sqrt 4 absTol fuel numIter st).V)ᵀ = toM 4 st.V * symM 4 st.A * (toM 4 st.V)ᵀ ∧
        toM 4 (eigLoop 0 sqrt 4 absTol fuel numIter st).V * (toM 4 (eigLoop 0 sqrt 4 absTol fuel numIter st).V)ᵀ = toM 4 st.V * (toM 4 st.V)ᵀ) ∧
      ∀ i, i < 4 → (eigLoop 0 sqrt 4 absTol fuel numIter st).S i = (eigLoop 0 sqrt 4 absTol fuel numIter st).A i i) :=
  ⟨eigLoop_tol0_invariant3 hs absTol fuel numIter st, eigLoop_tol0_invariant4 hs absTol fuel numIter st⟩

/-- non-vacuity: the initial state of `jacobiEigenSolver` (`S` = diagonal of `A`) satisfies the hypothesis of the loop theorems -/
theorem nonvacuity_eigen_loop (A : Mat ℚ) : ∀ i, i < 3 → (⟨A, fun i => A i i, identM⟩ : EigRun ℚ).S i = (⟨A, fun i => A i i, identM⟩ : EigRun ℚ).A i i :=
  fun _ _ => rfl

/-! ### post-passes: sign fix-up, sorting, forcePositiveDeterminant preserve `U·diag(S)·Vᵀ`, `U·Uᵀ`, `V·Vᵀ` -/

/-- 3×3: after sign fix-up and the two bubble passes the product and the Gram matrices are unchanged,
the singular values are non-negative and descending -/
theorem jacobiSVD_post3 (t : USV α) :
    Same 3 (post3 t) t ∧ (post3 t).S 0 ≥ (post3 t).S 1 ∧ (post3 t).S 1 ≥ (post3 t).S 2 ∧ (post3 t).S 2 ≥ 0 :=
  ⟨post3_same t, post3_sorted t⟩
/-- 4×4: the same with four values (sign fix-up, three insertions on `|S|`): product and Gram matrices preserved, the singular
values non-negative and descending -/
theorem jacobiSVD_post4 (t : USV α) :
    Same 4 (post4 t) t ∧ (post4 t).S 0 ≥ (post4 t).S 1 ∧ (post4 t).S 1 ≥ (post4 t).S 2 ∧ (post4 t).S 2 ≥ (post4 t).S 3 ∧ (post4 t).S 3 ≥ 0 :=
  ⟨post4_same t, post4_sorted t⟩
/-- (kept under its former name: the part of `jacobiSVD_post4` that needs no order) -/
theorem jacobiSVD_post4_partial (t : USV α) : Same 4 (post4 t) t := post4_same t
/-- forcePositiveDeterminant: flipping the last column of `U` (resp. `V`) together with the last singular value
preserves the product and orthogonality; only the LAST singular value can change sign -/
theorem jacobiSVD_forcePositiveDeterminant (dU dV : α) (t : USV α) :
    Same 3 (forcePos 2 dU dV t) t ∧ Same 4 (forcePos 3 dU dV t) t ∧
    (∀ c, c ≠ 2 → (forcePos 2 dU dV t).S c = t.S c) ∧ (∀ c, c ≠ 3 → (forcePos 3 dU dV t).S c = t.S c) := by
  refine ⟨forcePos_same3 dU dV t, forcePos_same4 dU dV t, ?_, ?_⟩ <;>
  · intro c hc
    simp only [forcePos]
    split_ifs <;> simp [hc]

/-- `forcePositiveDeterminant`, determinants: the flip of the last column multiplies `det U` (resp. `det V`) by `-1` exactly when
the determinant passed in is negative; so with `dU = det U ≠ 0`, `dV = det V ≠ 0` (what the C++ passes: `U.determinant ()`,
`V.determinant ()`, tied by the correspondence) both determinants are POSITIVE afterwards — 3×3 and 4×4 -/
theorem jacobiSVD_forcePositiveDeterminant_det (t : USV α) :
    ((toM 3 t.U).det ≠ 0 → 0 < (toM 3 (forcePos 2 (toM 3 t.U).det (toM 3 t.V).det t).U).det) ∧
    ((toM 3 t.V).det ≠ 0 → 0 < (toM 3 (forcePos 2 (toM 3 t.U).det (toM 3 t.V).det t).V).det) ∧
    ((toM 4 t.U).det ≠ 0 → 0 < (toM 4 (forcePos 3 (toM 4 t.U).det (toM 4 t.V).det t).U).det) ∧
    ((toM 4 t.V).det ≠ 0 → 0 < (toM 4 (forcePos 3 (toM 4 t.U).det (toM 4 t.V).det t).V).det) := by
  have key : ∀ d : α, d ≠ 0 → 0 < (if d < 0 then (-1 : α) else 1) * d := by
    intro d hd
    split_ifs with h
    · linarith
    · rw [one_mul]; exact lt_of_le_of_ne (not_lt.mp h) (Ne.symm hd)
  refine ⟨fun h => ?_, fun h => ?_, fun h => ?_, fun h => ?_⟩
  · rw [(forcePos_det3 _ _ t).1]; exact key _ h
  · rw [(forcePos_det3 _ _ t).2]; exact key _ h
  · rw [(forcePos_det4 _ _ t).1]; exact key _ h
  · rw [(forcePos_det4 _ _ t).2]; exact key _ h
/-- for ANY determinants passed in: the effect on `det U`, `det V` -/
theorem jacobiSVD_forcePositiveDeterminant_sign (dU dV : α) (t : USV α) :
    (toM 3 (forcePos 2 dU dV t).U).det = (if dU < 0 then -1 else 1) * (toM 3 t.U).det ∧
    (toM 3 (forcePos 2 dU dV t).V).det = (if dV < 0 then -1 else 1) * (toM 3 t.V).det ∧
    (toM 4 (forcePos 3 dU dV t).U).det = (if dU < 0 then -1 else 1) * (toM 4 t.U).det ∧
    (toM 4 (forcePos 3 dU dV t).V).det = (if dV < 0 then -1 else 1) * (toM 4 t.V).det :=
  ⟨(forcePos_det3 dU dV t).1, (forcePos_det3 dU dV t).2, (forcePos_det4 dU dV t).1, (forcePos_det4 dU dV t).2⟩

/-- `maxEigenVector` / `minEigenVector` select the index of the eigenvalue of largest / smallest ABSOLUTE value
(first one on ties) -/
theorem maxEigenVector_index3 (S : Nat → α) :
    |S (maxIdx 3 S)| ≥ |S 0| ∧ |S (maxIdx 3 S)| ≥ |S 1| ∧ |S (maxIdx 3 S)| ≥ |S 2| ∧ maxIdx 3 S < 3 := by
  simp only [maxIdx, List.range, List.range.loop, List.foldl, sabs_eq_abs, if_true, one_ne_zero, if_false, OfNat.ofNat_ne_zero]
  split_ifs with h1 h2 h3 <;> (refine ⟨?_, ?_, ?_, ?_⟩ <;> first | linarith | norm_num)
theorem minEigenVector_index3 (S : Nat → α) :
    |S (minIdx 3 S)| ≤ |S 0| ∧ |S (minIdx 3 S)| ≤ |S 1| ∧ |S (minIdx 3 S)| ≤ |S 2| ∧ minIdx 3 S < 3 := by
  simp only [minIdx, List.range, List.range.loop, List.foldl, sabs_eq_abs, if_true, one_ne_zero, if_false, OfNat.ofNat_ne_zero]
  split_ifs with h1 h2 h3 <;> (refine ⟨?_, ?_, ?_, ?_⟩ <;> first | linarith | norm_num)

theorem maxEigenVector_index4 (S : Nat → α) :
    |S (maxIdx 4 S)| ≥ |S 0| ∧ |S (maxIdx 4 S)| ≥ |S 1| ∧ |S (maxIdx 4 S)| ≥ |S 2| ∧ |S (maxIdx 4 S)| ≥ |S 3| ∧ maxIdx 4 S < 4 := by
  simp only [maxIdx, List.range, List.range.loop, List.foldl, sabs_eq_abs, if_true, one_ne_zero, if_false, OfNat.ofNat_ne_zero]
  split_ifs <;> (refine ⟨?_, ?_, ?_, ?_, ?_⟩ <;> first | linarith | norm_num)
theorem minEigenVector_index4 (S : Nat → α) :
    |S (minIdx 4 S)| ≤ |S 0| ∧ |S (minIdx 4 S)| ≤ |S 1| ∧ |S (minIdx 4 S)| ≤ |S 2| ∧ |S (minIdx 4 S)| ≤ |S 3| ∧ minIdx 4 S < 4 := by
  simp only [minIdx, List.range, List.range.loop, List.foldl, sabs_eq_abs, if_true, one_ne_zero, if_false, OfNat.ofNat_ne_zero]
  split_ifs <;> (refine ⟨?_, ?_, ?_, ?_, ?_⟩ <;> first | linarith | norm_num)

/-! ## The hypotheses are satisfiable (non-vacuity) -/

/-- the real square root satisfies `SqrtSpec` -/
example : SqrtSpec Real.sqrt := fun x hx => ⟨Real.sqrt_nonneg x, Real.mul_self_sqrt hx⟩

/-- the real `sin`, `cos` and `atan2 y x = arg (x + iy)` satisfy `TrigSpec` -/
theorem trigSpec_real : TrigSpec Real.sin Real.cos (fun y x => Complex.arg ⟨x, y⟩) := by
  intro x y h
  have hn2 : ‖(⟨x, y⟩ : ℂ)‖ ^ 2 = 1 := by
    rw [Complex.sq_norm, Complex.normSq_apply]; exact h
  have hn : ‖(⟨x, y⟩ : ℂ)‖ = 1 := by
    have h0 := norm_nonneg (⟨x, y⟩ : ℂ)
    nlinarith [hn2, h0]
  have hz : (⟨x, y⟩ : ℂ) ≠ 0 := by
    intro hz; rw [hz] at hn; simp at hn
  constructor
  · rw [Real.cos_neg, Complex.cos_arg hz, hn]; simp
  · rw [Real.sin_neg, Complex.sin_arg, hn]; simp

/-- a non-degenerate input: the 3-4-5 rotation with translation (3, 4) decomposes into itself, unit scale, zero shear -/
example : ear33 (2 : ℝ) (Gen.V2.length (1 / 1024 : ℝ) 2 Real.sqrt) W345 = some ⟨W345, ⟨1, 1⟩, 0⟩ :=
  ear33_W345 (by norm_num) (V2_length_spec (fun x hx => ⟨Real.sqrt_nonneg x, Real.mul_self_sqrt hx⟩))

/-- an exact rotation step: the 2×2 block `[[0, 12], [12, 7]]` is diagonalised by the 3-4-5 rotation on both sides -/
example : StepOK 3 (⟨fun i j => if i = 0 ∧ j = 1 ∨ i = 1 ∧ j = 0 then 12 else if i = 1 ∧ j = 1 then 7 else 0,
      fun i j => if i = j then 1 else 0, fun i j => if i = j then 1 else 0⟩ : SVDState ℚ) 0 1 ⟨1, 0, 4/5, 3/5, true⟩ := by
  refine ⟨by norm_num, by norm_num, Or.inl ⟨rfl, ?_⟩⟩
  constructor <;> norm_num [Jacobi.c1, Jacobi.s1]

end ImathVerif.C12
