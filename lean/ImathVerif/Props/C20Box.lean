import ImathVerif.Gen.C13Box
import ImathVerif.Lemmas.C13Lemmas
import ImathVerif.Lemmas.DispatchLemmas
import ImathVerif.Props.C20
import Mathlib.Order.MinMax
import Mathlib.Order.Fin.Basic

/-!
# C20 / W7 — the reduction `Box.extendBy (array)` at the GENERATED `Box<V>::extendBy`

`Gen.Box2/3.extendByPoint`, `extendByBox`, `default`, `ofPoint` are regenerated from /repo's
ImathBox.h on every run (`Gen/C13Box.lean`); this file is re-elaborated against them.  Proved here:

* `gen_box{2,3}_extendBy_joinLaws`   — `extendBy (box)` is associative, commutative, idempotent and has the
  default-constructed (empty) box as right identity, over any LINEAR order with the type bounds
  `tlowest ≤ x ≤ tmax` (`numeric_limits<T>::lowest ()/max ()`), exactly the assumptions of Props/C13.lean;
* `gen_box{2,3}_extendByPoint_eq_box` — `extendBy (point)` is `extendBy (Box (point))`;
* `gen_box{2,3}_extendBy_partition_independent` / `_cover_independent` — the LITERAL two-function
  reduction of PyImathBox.cpp:224-256 (`Dispatch.boxExtendBy2`: `boxes[tid].extendBy (points[p])` in the
  task, `box.extendBy (boxes[i])` in the merge, default-constructed partial boxes) equals folding the
  points into the box one after another, for every admissible pool script (any ranges, any order, any
  assignment of worker ids below `workers ()`, repeated ids included) and also without a pool.

The proofs first establish slot-wise normal forms (`gen_box{2,3}_extendByBox_eq`, `…Point_eq`: every slot is
Mathlib's `min`/`max` of the corresponding slots) by a tactic that accepts the `std::min/std::max` spelling
(either argument order) as well as the generic template's `if (a < b) ...` spelling, and then use only
Mathlib's `min_assoc`, `min_comm`, `min_self`, `min_eq_left`, ...: harmless rewrites of the C++ do not
break them, a change of the computed value does.

NaN caveat (stated honestly): the laws need a LINEAR order.  IEEE floats with NaN are not one (every
comparison with NaN is false, so `extendBy` is not even commutative there, see the example at the end);
the reduction datasets of the MODEL tie are integer; the general exerciser does feed NaN points to the real
`Box?f.extendBy(array)` (whose `if (p[i] < min[i])` never admits a NaN) and compares bitwise across partitions;
the theorems say nothing about NaN coordinates.
-/
-- the normal-form proofs carry a fallback branch for the generic-template spelling of the C++; on the
-- current source the first branch succeeds and the linters would report the fallback as unused
set_option linter.unreachableTactic false
set_option linter.unusedTactic false

namespace ImathVerif.Dispatch
open ImathVerif ImathVerif.C13

section laws
variable {α : Type} [LinearOrder α]

/-! ## D = 3 -/

/-- what the regenerated `extendBy (box)` computes, slot by slot (Mathlib `min`/`max`).  Proof robust to the
    spelling: `std::min/std::max` calls (either argument order) or the generic template's `if (o.min[i] < min[i]) ...`. -/
theorem gen_box3_extendByBox_eq (b o : Box3 α) :
    Gen.Box3.extendByBox b o = ⟨⟨min b.min.x o.min.x, min b.min.y o.min.y, min b.min.z o.min.z⟩, ⟨max b.max.x o.max.x, max b.max.y o.max.y, max b.max.z o.max.z⟩⟩ := by
  first
  | (simp only [Gen.Box3.extendByBox, smin_eq_min, smax_eq_max]
     try (congr 2 <;> first | rfl | ac_rfl)
     done)
  | (simp only [← smin_eq_min, ← smax_eq_max]
     unfold Gen.Box3.extendByBox smin smax
     casesplit h0a : o.min.x < b.min.x <;>
     casesplit h0b : b.max.x < o.max.x <;>
     casesplit h1a : o.min.y < b.min.y <;>
     casesplit h1b : b.max.y < o.max.y <;>
     casesplit h2a : o.min.z < b.min.z <;>
     casesplit h2b : b.max.z < o.max.z)

theorem gen_box3_extendByPoint_eq (b : Box3 α) (p : V3 α) :
    Gen.Box3.extendByPoint b p = ⟨⟨min b.min.x p.x, min b.min.y p.y, min b.min.z p.z⟩, ⟨max b.max.x p.x, max b.max.y p.y, max b.max.z p.z⟩⟩ := by
  first
  | (simp only [Gen.Box3.extendByPoint, smin_eq_min, smax_eq_max]
     try (congr 2 <;> first | rfl | ac_rfl)
     done)
  | (simp only [← smin_eq_min, ← smax_eq_max]
     unfold Gen.Box3.extendByPoint smin smax
     casesplit h0a : p.x < b.min.x <;>
     casesplit h0b : b.max.x < p.x <;>
     casesplit h1a : p.y < b.min.y <;>
     casesplit h1b : b.max.y < p.y <;>
     casesplit h2a : p.z < b.min.z <;>
     casesplit h2b : b.max.z < p.z)

/-- `Box<V3>::extendBy (const Box&)` is associative, commutative, idempotent, and the default-constructed
    (empty) box is its right identity. -/
theorem gen_box3_extendBy_joinLaws (tmax tlowest : α) (hr : ∀ x : α, tlowest ≤ x ∧ x ≤ tmax) :
    JoinLaws (Gen.Box3.extendByBox (α := α)) (Gen.Box3.default tmax tlowest) where
  assoc := by
    intro a b c
    simp only [gen_box3_extendByBox_eq, min_assoc, max_assoc]
  comm := by
    intro a b
    rw [gen_box3_extendByBox_eq, gen_box3_extendByBox_eq]
    congr 2 <;> first | exact min_comm _ _ | exact max_comm _ _
  idem := by
    rintro ⟨⟨a0, a1, a2⟩, ⟨a3, a4, a5⟩⟩
    simp only [gen_box3_extendByBox_eq, min_self, max_self]
  id_right := by
    rintro ⟨⟨a0, a1, a2⟩, ⟨a3, a4, a5⟩⟩
    have h1 : ∀ x : α, min x tmax = x := fun x => min_eq_left (hr x).2
    have h2 : ∀ x : α, max x tlowest = x := fun x => max_eq_left (hr x).1
    have hd : Gen.Box3.default tmax tlowest = ⟨⟨tmax, tmax, tmax⟩, ⟨tlowest, tlowest, tlowest⟩⟩ := by
      simp only [Gen.Box3.default]
    simp only [gen_box3_extendByBox_eq, hd, h1, h2]

/-- `extendBy (point)` is `extendBy (Box (point))` -/
theorem gen_box3_extendByPoint_eq_box (b : Box3 α) (p : V3 α) :
    Gen.Box3.extendByPoint b p = Gen.Box3.extendByBox b (Gen.Box3.ofPoint p) := by
  have ho : Gen.Box3.ofPoint p = ⟨⟨p.x, p.y, p.z⟩, ⟨p.x, p.y, p.z⟩⟩ := by
    simp only [Gen.Box3.ofPoint]
  rw [gen_box3_extendByPoint_eq, gen_box3_extendByBox_eq, ho]

/-- `Box3.extendBy (V3Array)` with the generated member functions, literally as PyImathBox.cpp runs it:
    every admissible pool script gives the box obtained by extending with the points one after another. -/
theorem gen_box3_extendBy_partition_independent (tmax tlowest : α) (hr : ∀ x : α, tlowest ≤ x ∧ x ≤ tmax)
    (pool : Option Pool) (pts : Nat → V3 α) (len : Nat) (box : Box3 α) (hok : PoolOK IsPartition pool len) :
    boxExtendBy2 Gen.Box3.extendByPoint Gen.Box3.extendByBox (Gen.Box3.default tmax tlowest) pool pts len box =
      foldPoints2 Gen.Box3.extendByPoint pts len box := by
  rw [boxExtendBy2_eq_boxExtendBy _ _ Gen.Box3.ofPoint gen_box3_extendByPoint_eq_box,
    foldPoints2_eq_foldPoints _ _ Gen.Box3.ofPoint gen_box3_extendByPoint_eq_box]
  exact reduction_partition_independent (gen_box3_extendBy_joinLaws tmax tlowest hr) pool _ len box hok

/-- ... and, thanks to idempotence, also for scripts whose sub-ranges overlap. -/
theorem gen_box3_extendBy_cover_independent (tmax tlowest : α) (hr : ∀ x : α, tlowest ≤ x ∧ x ≤ tmax)
    (pool : Option Pool) (pts : Nat → V3 α) (len : Nat) (box : Box3 α) (hok : PoolOK IsCover pool len) :
    boxExtendBy2 Gen.Box3.extendByPoint Gen.Box3.extendByBox (Gen.Box3.default tmax tlowest) pool pts len box =
      foldPoints2 Gen.Box3.extendByPoint pts len box := by
  rw [boxExtendBy2_eq_boxExtendBy _ _ Gen.Box3.ofPoint gen_box3_extendByPoint_eq_box,
    foldPoints2_eq_foldPoints _ _ Gen.Box3.ofPoint gen_box3_extendByPoint_eq_box]
  exact reduction_cover_independent (gen_box3_extendBy_joinLaws tmax tlowest hr) pool _ len box hok

/-! ## D = 2 -/

/-- what the regenerated `extendBy (box)` computes, slot by slot (Mathlib `min`/`max`).  Proof robust to the
    spelling: `std::min/std::max` calls (either argument order) or the generic template's `if (o.min[i] < min[i]) ...`. -/
theorem gen_box2_extendByBox_eq (b o : Box2 α) :
    Gen.Box2.extendByBox b o = ⟨⟨min b.min.x o.min.x, min b.min.y o.min.y⟩, ⟨max b.max.x o.max.x, max b.max.y o.max.y⟩⟩ := by
  first
  | (simp only [Gen.Box2.extendByBox, smin_eq_min, smax_eq_max]
     try (congr 2 <;> first | rfl | ac_rfl)
     done)
  | (simp only [← smin_eq_min, ← smax_eq_max]
     unfold Gen.Box2.extendByBox smin smax
     casesplit h0a : o.min.x < b.min.x <;>
     casesplit h0b : b.max.x < o.max.x <;>
     casesplit h1a : o.min.y < b.min.y <;>
     casesplit h1b : b.max.y < o.max.y)

theorem gen_box2_extendByPoint_eq (b : Box2 α) (p : V2 α) :
    Gen.Box2.extendByPoint b p = ⟨⟨min b.min.x p.x, min b.min.y p.y⟩, ⟨max b.max.x p.x, max b.max.y p.y⟩⟩ := by
  first
  | (simp only [Gen.Box2.extendByPoint, smin_eq_min, smax_eq_max]
     try (congr 2 <;> first | rfl | ac_rfl)
     done)
  | (simp only [← smin_eq_min, ← smax_eq_max]
     unfold Gen.Box2.extendByPoint smin smax
     casesplit h0a : p.x < b.min.x <;>
     casesplit h0b : b.max.x < p.x <;>
     casesplit h1a : p.y < b.min.y <;>
     casesplit h1b : b.max.y < p.y)

/-- `Box<V2>::extendBy (const Box&)` is associative, commutative, idempotent, and the default-constructed
    (empty) box is its right identity. -/
theorem gen_box2_extendBy_joinLaws (tmax tlowest : α) (hr : ∀ x : α, tlowest ≤ x ∧ x ≤ tmax) :
    JoinLaws (Gen.Box2.extendByBox (α := α)) (Gen.Box2.default tmax tlowest) where
  assoc := by
    intro a b c
    simp only [gen_box2_extendByBox_eq, min_assoc, max_assoc]
  comm := by
    intro a b
    rw [gen_box2_extendByBox_eq, gen_box2_extendByBox_eq]
    congr 2 <;> first | exact min_comm _ _ | exact max_comm _ _
  idem := by
    rintro ⟨⟨a0, a1⟩, ⟨a2, a3⟩⟩
    simp only [gen_box2_extendByBox_eq, min_self, max_self]
  id_right := by
    rintro ⟨⟨a0, a1⟩, ⟨a2, a3⟩⟩
    have h1 : ∀ x : α, min x tmax = x := fun x => min_eq_left (hr x).2
    have h2 : ∀ x : α, max x tlowest = x := fun x => max_eq_left (hr x).1
    have hd : Gen.Box2.default tmax tlowest = ⟨⟨tmax, tmax⟩, ⟨tlowest, tlowest⟩⟩ := by
      simp only [Gen.Box2.default]
    simp only [gen_box2_extendByBox_eq, hd, h1, h2]

/-- `extendBy (point)` is `extendBy (Box (point))` -/
theorem gen_box2_extendByPoint_eq_box (b : Box2 α) (p : V2 α) :
    Gen.Box2.extendByPoint b p = Gen.Box2.extendByBox b (Gen.Box2.ofPoint p) := by
  have ho : Gen.Box2.ofPoint p = ⟨⟨p.x, p.y⟩, ⟨p.x, p.y⟩⟩ := by
    simp only [Gen.Box2.ofPoint]
  rw [gen_box2_extendByPoint_eq, gen_box2_extendByBox_eq, ho]

/-- `Box2.extendBy (V2Array)` with the generated member functions, literally as PyImathBox.cpp runs it:
    every admissible pool script gives the box obtained by extending with the points one after another. -/
theorem gen_box2_extendBy_partition_independent (tmax tlowest : α) (hr : ∀ x : α, tlowest ≤ x ∧ x ≤ tmax)
    (pool : Option Pool) (pts : Nat → V2 α) (len : Nat) (box : Box2 α) (hok : PoolOK IsPartition pool len) :
    boxExtendBy2 Gen.Box2.extendByPoint Gen.Box2.extendByBox (Gen.Box2.default tmax tlowest) pool pts len box =
      foldPoints2 Gen.Box2.extendByPoint pts len box := by
  rw [boxExtendBy2_eq_boxExtendBy _ _ Gen.Box2.ofPoint gen_box2_extendByPoint_eq_box,
    foldPoints2_eq_foldPoints _ _ Gen.Box2.ofPoint gen_box2_extendByPoint_eq_box]
  exact reduction_partition_independent (gen_box2_extendBy_joinLaws tmax tlowest hr) pool _ len box hok

/-- ... and, thanks to idempotence, also for scripts whose sub-ranges overlap. -/
theorem gen_box2_extendBy_cover_independent (tmax tlowest : α) (hr : ∀ x : α, tlowest ≤ x ∧ x ≤ tmax)
    (pool : Option Pool) (pts : Nat → V2 α) (len : Nat) (box : Box2 α) (hok : PoolOK IsCover pool len) :
    boxExtendBy2 Gen.Box2.extendByPoint Gen.Box2.extendByBox (Gen.Box2.default tmax tlowest) pool pts len box =
      foldPoints2 Gen.Box2.extendByPoint pts len box := by
  rw [boxExtendBy2_eq_boxExtendBy _ _ Gen.Box2.ofPoint gen_box2_extendByPoint_eq_box,
    foldPoints2_eq_foldPoints _ _ Gen.Box2.ofPoint gen_box2_extendByPoint_eq_box]
  exact reduction_cover_independent (gen_box2_extendBy_joinLaws tmax tlowest hr) pool _ len box hok

end laws

/-! ## Non-vacuity: a concrete bounded linear order and the reused-id pool -/

/-- `Fin 8` with `tmax = 7`, `tlowest = 0` satisfies the type-bound hypothesis -/
theorem fin8_bounds : ∀ x : Fin 8, (0 : Fin 8) ≤ x ∧ x ≤ (7 : Fin 8) := by decide

theorem exPoolReuse_ok : PoolOK IsPartition (some exPoolReuse) 257 := by
  intro p hp
  cases hp
  exact ⟨by decide, by decide +kernel, by decide⟩

example (pts : Nat → V3 (Fin 8)) (box : Box3 (Fin 8)) :
    boxExtendBy2 Gen.Box3.extendByPoint Gen.Box3.extendByBox (Gen.Box3.default 7 0) (some exPoolReuse) pts 257 box =
      foldPoints2 Gen.Box3.extendByPoint pts 257 box :=
  gen_box3_extendBy_partition_independent 7 0 fin8_bounds _ pts 257 box exPoolReuse_ok

example (pts : Nat → V2 (Fin 8)) (box : Box2 (Fin 8)) :
    boxExtendBy2 Gen.Box2.extendByPoint Gen.Box2.extendByBox (Gen.Box2.default 7 0) (some exPoolReuse) pts 257 box =
      foldPoints2 Gen.Box2.extendByPoint pts 257 box :=
  gen_box2_extendBy_partition_independent 7 0 fin8_bounds _ pts 257 box exPoolReuse_ok

/-- a concrete run on a small pool (2 workers, 3 sub-ranges out of order, worker 1 used twice):
    points (1,5) (3,2) (0,0) (6,4) into the empty box give `[0,6] × [0,5]`, as the serial fold does -/
def exPoolSmall : Pool :=
  { workers := 2, inWorkerThread := false, script := fun _ => [⟨2, 3, 1⟩, ⟨0, 2, 0⟩, ⟨3, 4, 1⟩] }
def exPts : Nat → V2 (Fin 8) := fun p => [⟨1, 5⟩, ⟨3, 2⟩, ⟨0, 0⟩, ⟨6, 4⟩].getD p ⟨0, 0⟩

example :
    (Pool.dispatch exPoolSmall (reduceTask2 Gen.Box2.extendByPoint exPts) 4 (fun _ => Gen.Box2.default 7 0)) 1 =
      (⟨⟨0, 0⟩, ⟨6, 4⟩⟩ : Box2 (Fin 8)) ∧
    foldPoints2 Gen.Box2.extendByPoint exPts 4 (Gen.Box2.default 7 0) = (⟨⟨0, 0⟩, ⟨6, 5⟩⟩ : Box2 (Fin 8)) := by
  constructor
  · simp only [Pool.dispatch, exPoolSmall, runRanges, List.foldl, reduceTask2, exec_eq_runList]; decide
  · decide

/-! ## The NaN caveat

The hypothesis `[LinearOrder α]` is essential.  A model of IEEE comparison with one unordered value:
`Fl.nan` plays NaN (`x < NaN` and `NaN < x` are both false).  On it the GENERATED `extendBy` is not
commutative: `std::min (a, NaN) = a` but `std::min (NaN, a) = NaN`.  Float boxes with NaN coordinates are
therefore outside the theorems above (the model tie uses integer boxes). -/

/-- a scalar type with one unordered value -/
inductive Fl where
  | nan
  | num (n : Nat)
  deriving DecidableEq, Repr

/-- IEEE-style strict comparison: false whenever a NaN is involved -/
def Fl.ltb : Fl → Fl → Bool
  | .num x, .num y => decide (x < y)
  | _, _ => false
instance : LT Fl := ⟨fun a b => Fl.ltb a b = true⟩
instance : DecidableLT Fl := fun a b => inferInstanceAs (Decidable (Fl.ltb a b = true))

example :
    Gen.Box2.extendByBox (Gen.Box2.ofPoint (⟨.num 1, .num 1⟩ : V2 Fl)) (Gen.Box2.ofPoint ⟨.nan, .num 1⟩) ≠
    Gen.Box2.extendByBox (Gen.Box2.ofPoint (⟨.nan, .num 1⟩ : V2 Fl)) (Gen.Box2.ofPoint ⟨.num 1, .num 1⟩) := by
  decide

end ImathVerif.Dispatch
