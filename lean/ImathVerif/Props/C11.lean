import ImathVerif.Lemmas.C11Lemmas
import Mathlib.Data.Finset.Card
import ImathVerif.Lemmas.C11Analysis
import Mathlib.Tactic.SplitIfs
/-!
# C11 — Euler angles round-trip through matrices and quaternions in all 24 orders

`Gen.Euler.*` (Gen/C11Euler.lean, Gen/C11Algo.lean) is regenerated from ImathEuler.h,
ImathMatrixAlgo.h, ImathMatrix.h, ImathQuat.h on every run (T = Sym path extraction, one
definition per member and per enumerator of `Euler<T>::Order`); `Gen.EulerOrder` holds the
enumerators' values read from the current header.  `Lemmas/C11Tables.lean` dispatches the 24
per-order definitions over the inductive `Euler.Ord`, so "for each of the 24 orders" is a
theorem `∀ o : Ord`.  `sin`, `cos`, `sqrt`, `atan2` are parameters; hypotheses on them are
stated explicitly and each is shown to hold for the real functions on ℝ by an `example`.

The SPEC (Spec/EulerSpec.lean): an Euler triple of order `o` denotes the product of three
elementary rotations `R_i(θ₁)·R_j(θ₂)·R_h(θ₃)` about the axes decoded from the order bits
(row-vector convention; reversed angle order for the rotating-frame orders).

`toMatrix33 (extract M) = M` for EVERY rotation matrix and all 24 orders (gimbal lock included), surjectivity, the
re-ordering constructor, `makeNear` with a target of another order and the scale invariance of the free functions are in
Props/C11Round.lean (which imports this file).  What is NOT proved (measured by harness/corr/c11_residue.cpp, see
tools/props/c11.py): rounding, in particular the gimbal NEIGHBOURHOODS in floating point.
-/
set_option autoImplicit false
set_option linter.unusedTactic false
set_option linter.unreachableTactic false
set_option linter.unusedSimpArgs false
namespace ImathVerif.C11
open ImathVerif ImathVerif.Euler Matrix Real
open ImathVerif.Model.Euler (Bits setOrder order legal angleOrder angleMapping)

/-! ## 1. The order enumeration and its bit packing -/

/-- the inductive `Ord` lists exactly the enumerators of the CURRENT header, with their values -/
theorem orders_match_header : Ord.all.map (fun o => (o.name, o.code)) = Gen.EulerOrder.orders := by
  decide

/-- `order ()` returns the order that was set, for each of the 24 orders (model of `setOrder`/`order`,
    tied to the real members over all 2^16 bit patterns by the driver correspondence) -/
theorem order_setOrder (o : Ord) : order (setOrder o.code) = o.code := by
  cases o <;> decide

/-- all 24 orders are `legal` -/
theorem legal_orders (o : Ord) : legal Gen.EulerOrder.Legal o.code = true := by
  cases o <;> decide

/-- conversely `setOrder (order b) = b` for every state of the bit fields with a valid axis -/
theorem setOrder_order (b : Bits) (h : b.initialAxis < 3) : setOrder (order b) = b := by
  obtain ⟨fs, ir, pe, ax⟩ := b
  have : ax = 0 ∨ ax = 1 ∨ ax = 2 := by simp only at h; omega
  rcases this with rfl | rfl | rfl <;> cases fs <;> cases ir <;> cases pe <;> decide

/-- the 24 orders are pairwise distinct bit patterns, so `o ↦ o.code` is injective -/
theorem code_injective : Function.Injective Ord.code := by
  intro a b h
  cases a <;> cases b <;> first | rfl | (exact absurd h (by decide))

/-! `legal ()` accepts MORE than the 24 enumerators: `(order & ~Legal) == 0` with `Legal = 0x3111` holds for all 32 combinations of
the five mask bits, i.e. also for the 8 patterns `0x3***` that set BOTH axis bits.  These are not enumerators of `Order`.  What the
code does with them is well defined and harmless: `setOrder` tests bit `0x2000` first, so `0x3abc` is stored exactly like the Z-axis
order `0x2abc` (`initialAxis = 2`, never 3) and `order ()` reads back `0x2abc`.  The property quantifies over "the 24 legal orders" —
the enumerators — so this is recorded as a theorem about the code, not as a violation.  Scope: the 2^16 patterns that the
correspondence of tools/props/c11.py pushes through the real `legal` (every other `int` has a bit above `0x3fff` and is rejected). -/

/-- the non-enumerator patterns `legal ()` accepts -/
def legalAliases : List Nat := [0x3000, 0x3001, 0x3010, 0x3011, 0x3100, 0x3101, 0x3110, 0x3111]

/-- number of patterns below `n` that `legal` accepts (accumulator form, for the kernel) -/
def legalCount : Nat → Nat → Nat
  | 0, acc => acc
  | n + 1, acc => legalCount n (if legal Gen.EulerOrder.Legal n then acc + 1 else acc)

theorem legalCount_eq (n acc : Nat) :
    legalCount n acc = acc + ((Finset.range n).filter (fun p => legal Gen.EulerOrder.Legal p = true)).card := by
  induction n generalizing acc with
  | zero => simp [legalCount]
  | succ n ih =>
    simp only [legalCount]
    rw [ih, Finset.range_add_one, Finset.filter_insert]
    split_ifs with h
    · rw [Finset.card_insert_of_notMem (by simp)]; omega
    · rfl

/-- EXACTLY which of the 65,536 bit patterns `legal ()` accepts: the 24 enumerators and the 8 aliases `0x3***`, nothing else
    (kernel count of the accepted patterns = 32 = number of distinct listed patterns, all of which are accepted) -/
theorem legal_iff (p : Nat) (hp : p < 65536) :
    legal Gen.EulerOrder.Legal p = true ↔ p ∈ Ord.all.map Ord.code ++ legalAliases := by
  have hc : ((Finset.range 65536).filter (fun p => legal Gen.EulerOrder.Legal p = true)).card = 32 := by
    have h := legalCount_eq 65536 0
    rw [show legalCount 65536 0 = 32 by decide +kernel] at h
    omega
  have hnd : (Ord.all.map Ord.code ++ legalAliases).Nodup := by decide
  have hlen : (Ord.all.map Ord.code ++ legalAliases).length = 32 := by decide
  have hsub : (Ord.all.map Ord.code ++ legalAliases).toFinset ⊆ (Finset.range 65536).filter (fun p => legal Gen.EulerOrder.Legal p = true) := by
    intro q hq
    rw [List.mem_toFinset] at hq
    have : ∀ q ∈ Ord.all.map Ord.code ++ legalAliases, q < 65536 ∧ legal Gen.EulerOrder.Legal q = true := by decide
    simp only [Finset.mem_filter, Finset.mem_range]
    exact this q hq
  have heq := Finset.eq_of_subset_of_card_le hsub (by rw [hc, List.toFinset_card_of_nodup hnd, hlen])
  constructor
  · intro h
    have : p ∈ (Finset.range 65536).filter (fun p => legal Gen.EulerOrder.Legal p = true) := by
      simp only [Finset.mem_filter, Finset.mem_range]; exact ⟨hp, h⟩
    rw [← heq, List.mem_toFinset] at this
    exact this
  · intro h
    have : p ∈ (Ord.all.map Ord.code ++ legalAliases).toFinset := List.mem_toFinset.mpr h
    rw [heq] at this
    simp only [Finset.mem_filter, Finset.mem_range] at this
    exact this.2
/-- the 24 enumerators and the 8 aliases are 32 distinct patterns -/
theorem legal_patterns_distinct :
    (Ord.all.map Ord.code ++ legalAliases).Nodup ∧ (Ord.all.map Ord.code ++ legalAliases).length = 32 := by decide

/-- what the code does on an alias `0x3abc`: exactly what it does on the Z-axis enumerator `0x2abc` — same bit fields
    (`initialAxis = 2`, not 3), and `order ()` returns `0x2abc`; in particular `order (setOrder p) ≠ p` for the aliases -/
theorem legal_aliases_behave (p : Nat) (hp : p ∈ legalAliases) :
    setOrder p = setOrder (p - 0x1000) ∧ order (setOrder p) = p - 0x1000 ∧ (p - 0x1000) ∈ Ord.all.map Ord.code
    ∧ (setOrder p).initialAxis = 2 ∧ order (setOrder p) ≠ p := by
  revert p; decide

/-- T-route cross-check: the REAL `order()`, `legal()`, `frameStatic()`, `initialRepeated()`,
    `parityEven()`, `initialAxis()` evaluated by the extractor on `Euler<T> e (O)` for each of the 24
    enumerators give the enumerator's value, `true`, and the bits the model decodes -/
theorem real_order_eq_model (o : Ord) :
    orderG o = ((o.code : Int), legal Gen.EulerOrder.Legal o.code, o.bits.frameStatic, o.bits.initialRepeated,
                o.bits.parityEven, (o.bits.initialAxis : Int)) := by
  cases o <;> decide

/-- the REAL `angleOrder` / `angleMapping` on each of the 24 orders agree with the model -/
theorem real_angleOrder_eq_model (o : Ord) :
    angleOrderG o = (((angleOrder o.bits).1 : Int), ((angleOrder o.bits).2.1 : Int), ((angleOrder o.bits).2.2 : Int)) := by
  cases o <;> decide
theorem real_angleMapping_eq_model (o : Ord) :
    angleMappingG o = (((angleMapping o.bits).1 : Int), ((angleMapping o.bits).2.1 : Int), ((angleMapping o.bits).2.2 : Int)) := by
  cases o <;> decide

/-- `angleOrder` is a permutation of (0,1,2): the cyclic successor pattern `(i, i+1, i+2)` exactly
    for the parity-even orders and `(i, i+2, i+1)` (an odd permutation) for the parity-odd ones -/
theorem angleOrder_permutation (o : Ord) :
    (o.even = true → o.j = o.i + 1 ∧ o.k = o.i + 2) ∧ (o.even = false → o.j = o.i + 2 ∧ o.k = o.i + 1)
    ∧ o.i ≠ o.j ∧ o.j ≠ o.k ∧ o.i ≠ o.k := by
  cases o <;> decide

/-- `angleMapping` is the inverse permutation of `angleOrder`: it sends axis `i` to slot 0, axis `j`
    to slot 1 and axis `k` to slot 2 (all 24 orders) -/
theorem angleMapping_inverts_angleOrder (o : Ord) :
    let m : Fin 3 → Nat := fun ax => match ax with
      | 0 => (angleMapping o.bits).1 | 1 => (angleMapping o.bits).2.1 | 2 => (angleMapping o.bits).2.2
    m o.i = 0 ∧ m o.j = 1 ∧ m o.k = 2 := by
  cases o <;> decide

/-! ## 2. XYZ-layout constructor, setXYZVector, toXYZVector: mutually inverse slot permutations -/

set_option maxHeartbeats 1000000 in
/-- `toXYZVector` puts the angle about axis X into `.x`, about Y into `.y`, about Z into `.z`:
    slot `i` of the result is the first angle, slot `j` the second, slot `k` the third -/
theorem toXYZVector_slots {α : Type} [Field α] (o : Ord) (e : V3 α) :
    slot (toXYZ o e) o.i = e.x ∧ slot (toXYZ o e) o.j = e.y ∧ slot (toXYZ o e) o.k = e.z := by
  cases o <;> (unfold_toXYZ; simp only [Ord.i_table, Ord.j_table, Ord.k_table, slot, and_self])

set_option maxHeartbeats 1000000 in
theorem toXYZVector_setXYZVector {α : Type} [Field α] (o : Ord) (e v : V3 α) : toXYZ o (setXYZ o e v) = v := by
  cases o <;> (unfold_toXYZ; unfold_setXYZ)

set_option maxHeartbeats 1000000 in
theorem setXYZVector_toXYZVector {α : Type} [Field α] (o : Ord) (e a : V3 α) : setXYZ o a (toXYZ o e) = e := by
  cases o <;> (unfold_toXYZ; unfold_setXYZ)

set_option maxHeartbeats 1000000 in
/-- the XYZ-layout constructors (vector and three-scalar forms) are `setOrder` followed by `setXYZVector`;
    the IJK-layout constructor stores the angles unchanged; all of them set the requested order -/
theorem ctor_layouts {α : Type} [Field α] (o : Ord) (e v : V3 α) :
    ctorXYZ o v = (setXYZ o e v, (o.code : Int)) ∧ ctorXYZs o v.x v.y v.z = (setXYZ o e v, (o.code : Int))
    ∧ ctorIJK o v = (v, (o.code : Int)) := by
  cases o <;> (unfold_ctorXYZ; unfold_ctorXYZs; unfold_ctorIJK; unfold_setXYZ; exact ⟨rfl, rfl, rfl⟩)

set_option maxHeartbeats 1000000 in
/-- hence constructor and `toXYZVector` are mutually inverse -/
theorem toXYZVector_ctorXYZLayout {α : Type} [Field α] (o : Ord) (v : V3 α) : toXYZ o (ctorXYZ o v).1 = v := by
  rw [(ctor_layouts o v v).1]; exact toXYZVector_setXYZVector o v v

set_option maxHeartbeats 1000000 in
/-- `setOrder` does not touch the angles -/
theorem setOrder_keeps_angles {α : Type} [Field α] (o : Ord) (a : V3 α) : setOrderKeeps o a = (a, (o.code : Int)) := by
  cases o <;> (unfold_setOrderKeeps; rfl)

set_option maxHeartbeats 1000000 in
/-- the copy constructor and `operator= (Euler)` copy angles and order; `operator= (Vec3)` replaces the
    angles and keeps the order -/
theorem copy_and_assign {α : Type} [Field α] (o : Ord) (a v : V3 α) :
    copyAssign o a v = (a, (o.code : Int), a, (o.code : Int), v, (o.code : Int)) := by
  cases o <;> (unfold_copyAssign; rfl)

/-! ## 3. toMatrix33 / toMatrix44 / toQuat: three textual copies of the Shoemake formulas -/

/-! Raw product forms, without any hypothesis on `sin`/`cos`: `sg`/`ng`/`ngq` (Lemmas/C11Lemmas.lean) record
    the sign manipulations of the code for parity-odd orders (`angles *= -1.0`; `angles.y = -angles.y`, `parity`). -/

set_option maxHeartbeats 4000000 in
/-- each of the 24 extracted `toMatrix33` is a product of three elementary rotations (M33 level) -/
theorem toM33_raw {α : Type} [Field α] (o : Ord) (sin cos : α → α) (a : V3 α) :
    toM33 o sin cos a =
      mul33 (mul33 (rotAxM o.i (sg o.even (sin (ng o.even (angles o a).1))) (cos (ng o.even (angles o a).1)))
                   (rotAxM o.j (sg o.even (sin (ng o.even (angles o a).2.1))) (cos (ng o.even (angles o a).2.1))))
                   (rotAxM o.h (sg o.even (sin (ng o.even (angles o a).2.2))) (cos (ng o.even (angles o a).2.2))) := by
  cases o <;>
  (unfold_toM33
   ordtabs
   apply M33.ext' <;> ring)

/-- … as Mathlib matrices -/
theorem toM33_raw_toMat {α : Type} [Field α] (o : Ord) (sin cos : α → α) (a : V3 α) :
    (toM33 o sin cos a).toMat =
      eulerMatSC o (sg o.even (sin (ng o.even (angles o a).1))) (cos (ng o.even (angles o a).1))
                   (sg o.even (sin (ng o.even (angles o a).2.1))) (cos (ng o.even (angles o a).2.1))
                   (sg o.even (sin (ng o.even (angles o a).2.2))) (cos (ng o.even (angles o a).2.2)) := by
  rw [toM33_raw, mul33_toMat, mul33_toMat, rotAxM_toMat, rotAxM_toMat, rotAxM_toMat, eulerMatSC]

set_option maxHeartbeats 4000000 in
/-- each of the 24 extracted `toQuat` is a product of three axis quaternions -/
theorem toQuat_raw {α : Type} [Field α] (o : Ord) (sin cos : α → α) (a : V3 α) :
    toQuat o sin cos a =
      eulerQuatSC o (sin ((angles o a).1 * (1 / 2))) (cos ((angles o a).1 * (1 / 2)))
                    (sg o.even (sin (ngq o.even (angles o a).2.1 * (1 / 2)))) (cos (ngq o.even (angles o a).2.1 * (1 / 2)))
                    (sin ((angles o a).2.2 * (1 / 2))) (cos ((angles o a).2.2 * (1 / 2))) := by
  cases o <;>
  (unfold_toQuat
   simp only [eulerQuatSC]
   ordtabs
   apply Quat.ext' <;> ring)


set_option maxHeartbeats 4000000 in
/-- `toMatrix44` is `toMatrix33` in the upper-left block of the identity (all 24 orders) -/
theorem toMatrix44_eq_embed_toMatrix33 {α : Type} [Field α] (o : Ord) (sin cos : α → α) (a : V3 α) :
    toM44 o sin cos a = embed33 (toM33 o sin cos a) := by
  cases o <;>
  (unfold_toM44; unfold_toM33; simp only [embed33] <;> try (apply M44.ext' <;> ring))

/-- `toMatrix33` is the product of the three elementary rotations about the decoded axes (SPEC),
    for `sin` odd and `cos` even (the parity-odd orders negate the angles) -/
theorem toMatrix33_eq_spec {α : Type} [Field α] (o : Ord) (sin cos : α → α) (a : V3 α)
    (hodd : ∀ x, sin (-x) = -sin x) (heven : ∀ x, cos (-x) = cos x) :
    (toM33 o sin cos a).toMat = eulerMat o sin cos a := by
  rw [toM33_raw_toMat, eulerMat]
  cases h : o.even <;> simp [sg, ng, hodd, heven]

/-- `toMatrix33` is orthonormal with determinant one (all 24 orders), for any `sin`, `cos` with
    `sin² + cos² = 1` -/
theorem toMatrix33_orthonormal_det_one {α : Type} [Field α] (o : Ord) (sin cos : α → α) (a : V3 α)
    (hsc : ∀ x, sin x ^ 2 + cos x ^ 2 = 1) :
    (toM33 o sin cos a).toMat * (toM33 o sin cos a).toMatᵀ = 1
    ∧ (toM33 o sin cos a).toMatᵀ * (toM33 o sin cos a).toMat = 1
    ∧ (toM33 o sin cos a).toMat.det = 1 := by
  rw [toM33_raw_toMat]
  exact eulerMatSC_orthonormal o _ _ _ _ _ _ (sg_sq _ _ _ (hsc _)) (sg_sq _ _ _ (hsc _)) (sg_sq _ _ _ (hsc _))

/-- half-angle functions -/
def halfOf {α : Type} [Field α] (f : α → α) : α → α := fun x => f (x * (1 / 2))

/-- `toQuat` is the product of the three axis quaternions (SPEC) -/
theorem toQuat_eq_spec {α : Type} [Field α] (o : Ord) (sin cos : α → α) (a : V3 α)
    (hodd : ∀ x, sin (-x) = -sin x) (heven : ∀ x, cos (-x) = cos x) :
    toQuat o sin cos a = eulerQuat o (halfOf sin) (halfOf cos) a := by
  rw [toQuat_raw, eulerQuat]
  cases h : o.even <;> simp [sg, ngq, halfOf, hodd, heven, neg_mul]

/-- `toQuat` is a unit quaternion -/
theorem toQuat_unit {α : Type} [Field α] (o : Ord) (sin cos : α → α) (a : V3 α)
    (hsc : ∀ x, sin x ^ 2 + cos x ^ 2 = 1) : qnorm2 (toQuat o sin cos a) = 1 := by
  rw [toQuat_raw]
  exact qnorm2_eulerQuatSC o _ _ _ _ _ _ (hsc _) (sg_sq _ _ _ (hsc _)) (hsc _)

/-- `toQuat ()` represents the rotation of `toMatrix33 ()`: `Quat::toMatrix33` of the one is the other
    (all 24 orders), under the double-angle identities for the `sin`/`cos` parameters -/
theorem toQuat_toMatrix33_eq_toMatrix33 {α : Type} [Field α] (o : Ord) (sin cos : α → α) (a : V3 α)
    (hsc : ∀ x, sin x ^ 2 + cos x ^ 2 = 1)
    (hodd : ∀ x, sin (-x) = -sin x) (heven : ∀ x, cos (-x) = cos x)
    (hsin2 : ∀ x, sin x = 2 * sin (x * (1 / 2)) * cos (x * (1 / 2)))
    (hcos2 : ∀ x, cos x = cos (x * (1 / 2)) ^ 2 - sin (x * (1 / 2)) ^ 2) :
    Gen.Euler.Quat_toMatrix33 (toQuat o sin cos a) = toM33 o sin cos a := by
  apply M33.toMat_injective
  rw [toMatrix33_eq_spec o sin cos a hodd heven, toQuat_eq_spec o sin cos a hodd heven, eulerQuat, eulerMat]
  simp only [halfOf]
  rw [Quat_toMatrix33_eulerQuatSC o _ _ _ _ _ _ (hsc _) (hsc _) (hsc _),
    ← hsin2, ← hsin2, ← hsin2, ← hcos2, ← hcos2, ← hcos2]

/-- for order XYZ, `toMatrix44` agrees with `Matrix44::setEulerAngles` -/
theorem toMatrix44_XYZ_eq_setEulerAngles {α : Type} [Field α] (sin cos : α → α) (a : V3 α) :
    toM44 .XYZ sin cos a = Gen.Euler.M44_setEulerAngles sin cos a := by
  simp only [toM44, Gen.Euler.toMatrix44_XYZ, Gen.Euler.M44_setEulerAngles]
  apply M44.ext' <;> ring

/-! ## 4. extract: the Matrix33 and Matrix44 copies, the quaternion and constructor forms -/

set_option maxHeartbeats 4000000 in
/-- `extract (Matrix44)` yields exactly the angles `extract (Matrix33)` yields on the upper-left block,
    for EVERY 4×4 matrix and all 24 orders (two textual copies of the algorithm) -/
theorem extract_M44_eq_extract_M33 {α : Type} [Field α] (o : Ord) (sqrt sin cos : α → α) (atan2 : α → α → α) (m : M44 α) :
    exM44 o sqrt sin cos atan2 m = exM33 o sqrt sin cos atan2 (upper33 m) := by
  cases o <;>
  (unfold_exM44; unfold_exM33; simp only [upper33, zero_mul, mul_zero, add_zero, zero_add, one_mul])

/-- in particular on the 4×4 embedding of a 3×3 matrix -/
theorem extract_embed33 {α : Type} [Field α] (o : Ord) (sqrt sin cos : α → α) (atan2 : α → α → α) (m : M33 α) :
    exM44 o sqrt sin cos atan2 (embed33 m) = exM33 o sqrt sin cos atan2 m := by
  rw [extract_M44_eq_extract_M33]; rfl

set_option maxHeartbeats 4000000 in
/-- `extract (Quat)` is `extract (q.toMatrix33 ())` -/
theorem extract_Quat_eq {α : Type} [Field α] (o : Ord) (sqrt sin cos : α → α) (atan2 : α → α → α) (q : Quat α) :
    exQuat o sqrt sin cos atan2 q = exM33 o sqrt sin cos atan2 (Gen.Euler.Quat_toMatrix33 q) := by
  cases o <;> (unfold_exQuat; unfold_exM33; simp only [Gen.Euler.Quat_toMatrix33])

set_option maxHeartbeats 4000000 in
/-- the matrix constructors are `setOrder` followed by `extract` -/
theorem ctor_matrix_eq_extract {α : Type} [Field α] (o : Ord) (sqrt sin cos : α → α) (atan2 : α → α → α) (m : M33 α) (m4 : M44 α) :
    ctorM33 o sqrt sin cos atan2 m = (exM33 o sqrt sin cos atan2 m, (o.code : Int))
    ∧ ctorM44 o sqrt sin cos atan2 m4 = (exM44 o sqrt sin cos atan2 m4, (o.code : Int)) := by
  cases o <;> (unfold_ctorM33; unfold_ctorM44; unfold_exM33; unfold_exM44; exact ⟨rfl, rfl⟩)

set_option maxHeartbeats 4000000 in
/-- the re-ordering constructor `Euler (e, newOrder)` is `extract` (new order) of `toMatrix33` (old
    order): checked from XYZ to every order and from every order to ZYXr -/
theorem reorder_ctor_eq {α : Type} [Field α] (o : Ord) (sqrt sin cos : α → α) (atan2 : α → α → α) (a : V3 α) :
    reorderFromXYZ o sqrt sin cos atan2 a = (exM33 o sqrt sin cos atan2 (toM33 .XYZ sin cos a), (o.code : Int))
    ∧ reorderToZYXr o sqrt sin cos atan2 a = (exM33 .ZYXr sqrt sin cos atan2 (toM33 o sin cos a), (Ord.ZYXr.code : Int)) := by
  cases o <;> (unfold_reorderFromXYZ; unfold_reorderToZYXr; unfold_exM33; unfold_toM33; exact ⟨rfl, rfl⟩)

set_option maxHeartbeats 4000000 in
/-- the same identity for two further pairs whose source is not XYZ and whose target is not ZYXr (YXYr → XZX: rotating repeated →
    static repeated; ZXY → YZXr: static → rotating): the constructor's body does not depend on either order -/
theorem reorder_ctor_eq_other_pairs {α : Type} [Field α] (sqrt sin cos : α → α) (atan2 : α → α → α) (a : V3 α) :
    Gen.Euler.reorder_YXYr_XZX sqrt sin cos atan2 a = (exM33 .XZX sqrt sin cos atan2 (toM33 .YXYr sin cos a), (Ord.XZX.code : Int))
    ∧ Gen.Euler.reorder_ZXY_YZXr sqrt sin cos atan2 a = (exM33 .YZXr sqrt sin cos atan2 (toM33 .ZXY sin cos a), (Ord.YZXr.code : Int)) := by
  simp only [Gen.Euler.reorder_YXYr_XZX, Gen.Euler.reorder_ZXY_YZXr]
  unfold_exM33; unfold_toM33
  exact ⟨rfl, rfl⟩

/-! ## 5. `(π+x, π−y, π+z)`, simpleXYZRotation, nearestRotation, makeNear

`pi` is a parameter in the flip identity; `nearestRotation` uses the literal `M_PI` (`mpi`, a double:
not π), so the hypotheses below say that `sin`/`cos` treat `mpi` as their half period.  They are
satisfiable (see the rescaled real functions in Lemmas/C11Analysis.lean); for the true `Real.sin` they
hold up to |M_PI − π| ≈ 1.2e-16, which is part of the measured residue ("to single precision").
`angleMod` is an uninterpreted parameter of the extracted definitions: any function that changes its
argument by a multiple of the period (`hmodS`, `hmodC`) and lands in `[-mpi, mpi]` (`hrange`);
the hand model of the real `angleMod` has both properties (`angleMod_*` in Lemmas/C11Analysis.lean). -/

set_option maxHeartbeats 4000000 in
/-- `(π+x, π−y, π+z)` is the same rotation as `(x, y, z)` for every NON-REPEATED order (the six
    static ones of the property and the six rotating ones) -/
theorem flip_same_rotation {α : Type} [Field α] (o : Ord) (hnr : o.repeated = false) (sin cos : α → α) (pi : α) (a : V3 α)
    (hodd : ∀ x, sin (-x) = -sin x) (heven : ∀ x, cos (-x) = cos x)
    (hsp : ∀ x, sin (pi + x) = -sin x) (hcp : ∀ x, cos (pi + x) = -cos x)
    (hsm : ∀ x, sin (pi - x) = sin x) (hcm : ∀ x, cos (pi - x) = -cos x) :
    toM33 o sin cos ⟨pi + a.x, pi - a.y, pi + a.z⟩ = toM33 o sin cos a := by
  cases o <;> first
    | exact absurd hnr (by decide)
    | (unfold_toM33
       simp only [mul_neg, mul_one, hodd, heven, hsp, hcp, hsm, hcm, neg_neg]
       apply M33.ext' <;> ring)

/-- `simpleXYZRotation` changes each angle by a period: sines and cosines are unchanged -/
theorem simpleXYZRotation_preserves {α : Type} [Field α] (sin cos angleMod : α → α) (xyz tgt : V3 α)
    (hmodS : ∀ t d, sin (t + angleMod d) = sin (t + d)) (hmodC : ∀ t d, cos (t + angleMod d) = cos (t + d)) :
    let r := Gen.Euler.simpleXYZRotation angleMod xyz tgt
    (sin r.x = sin xyz.x ∧ cos r.x = cos xyz.x) ∧ (sin r.y = sin xyz.y ∧ cos r.y = cos xyz.y)
      ∧ (sin r.z = sin xyz.z ∧ cos r.z = cos xyz.z) := by
  simp only [Gen.Euler.simpleXYZRotation, hmodS, hmodC, add_sub_cancel, and_self]

/-- … and brings every angle within `bound` of the target, for ANY bound on `|angleMod|`.  The honest instances:
    `bound = mpi` (the double `M_PI`) for the exact model of `angleMod` (`angleMod_in_range` with `pi := mpi`), and
    `bound = float (M_PI) = 13176795 / 4194304 > mpi` for the REAL `Euler<T>::angleMod`, which returns `float`
    (for `T = float` checked on all 2^32 arguments, for `T = double` sampled: tools/props/c11.py `anglemod-float-all`). -/
theorem simpleXYZRotation_within {α : Type} [Field α] [LinearOrder α] [IsStrictOrderedRing α] (angleMod : α → α) (bound : α) (xyz tgt : V3 α)
    (hrange : ∀ d, |angleMod d| ≤ bound) :
    let r := Gen.Euler.simpleXYZRotation angleMod xyz tgt
    |r.x - tgt.x| ≤ bound ∧ |r.y - tgt.y| ≤ bound ∧ |r.z - tgt.z| ≤ bound := by
  simp only [Gen.Euler.simpleXYZRotation, add_sub_cancel_left]
  exact ⟨hrange _, hrange _, hrange _⟩

/-- … and brings every angle within `mpi` of the target -/
theorem simpleXYZRotation_within_pi {α : Type} [Field α] [LinearOrder α] [IsStrictOrderedRing α] (angleMod : α → α) (xyz tgt : V3 α)
    (hrange : ∀ d, -mpi ≤ angleMod d ∧ angleMod d ≤ mpi) :
    let r := Gen.Euler.simpleXYZRotation angleMod xyz tgt
    |r.x - tgt.x| ≤ mpi ∧ |r.y - tgt.y| ≤ mpi ∧ |r.z - tgt.z| ≤ mpi := by
  simp only [Gen.Euler.simpleXYZRotation, add_sub_cancel_left, abs_le]
  exact ⟨hrange _, hrange _, hrange _⟩

set_option maxHeartbeats 4000000 in
/-- `makeNear` (target of the same order) leaves the represented rotation unchanged, for every
    non-repeated order, and keeps the order -/
theorem makeNear_preserves_rotation {α : Type} [Field α] [LinearOrder α] (o : Ord) (hnr : o.repeated = false)
    (sin cos angleMod : α → α) (a t : V3 α)
    (hodd : ∀ x, sin (-x) = -sin x) (heven : ∀ x, cos (-x) = cos x)
    (hsp : ∀ x, sin (mpi + x) = -sin x) (hcp : ∀ x, cos (mpi + x) = -cos x)
    (hsm : ∀ x, sin (mpi - x) = sin x) (hcm : ∀ x, cos (mpi - x) = -cos x)
    (hmodS : ∀ t d, sin (t + angleMod d) = sin (t + d)) (hmodC : ∀ t d, cos (t + angleMod d) = cos (t + d)) :
    toM33 o sin cos (makeNear o angleMod a t).1 = toM33 o sin cos a ∧ (makeNear o angleMod a t).2 = (o.code : Int) := by
  simp only [mpi] at hsp hcp hsm hcm
  cases o <;> first
    | exact absurd hnr (by decide)
    | (unfold_makeNear
       split_ifs <;>
       (refine ⟨?_, rfl⟩
        unfold_toM33
        simp only [mul_neg, mul_one, hodd, heven, hmodS, hmodC, add_sub_cancel, hsp, hcp, hsm, hcm, neg_neg] <;>
        (apply M33.ext' <;> ring)))

set_option maxHeartbeats 4000000 in
/-- `makeNear` brings every angle within `bound` of the target's, for any bound on `|angleMod|` (all 24 orders, target of the
    same order; see `simpleXYZRotation_within` for the two honest instances of `bound`) -/
theorem makeNear_within {α : Type} [Field α] [LinearOrder α] [IsStrictOrderedRing α] (o : Ord) (angleMod : α → α) (bound : α) (a t : V3 α)
    (hrange : ∀ d, |angleMod d| ≤ bound) :
    |(makeNear o angleMod a t).1.x - t.x| ≤ bound ∧ |(makeNear o angleMod a t).1.y - t.y| ≤ bound
      ∧ |(makeNear o angleMod a t).1.z - t.z| ≤ bound := by
  cases o <;>
  (unfold_makeNear
   split_ifs <;>
   (simp only [add_sub_cancel_left]; exact ⟨hrange _, hrange _, hrange _⟩))

set_option maxHeartbeats 4000000 in
/-- `makeNear` brings every angle within `mpi` of the target's (all 24 orders, target of the same order) -/
theorem makeNear_within_pi {α : Type} [Field α] [LinearOrder α] [IsStrictOrderedRing α] (o : Ord) (angleMod : α → α) (a t : V3 α)
    (hrange : ∀ d, -mpi ≤ angleMod d ∧ angleMod d ≤ mpi) :
    |(makeNear o angleMod a t).1.x - t.x| ≤ mpi ∧ |(makeNear o angleMod a t).1.y - t.y| ≤ mpi
      ∧ |(makeNear o angleMod a t).1.z - t.z| ≤ mpi := by
  cases o <;>
  (unfold_makeNear
   split_ifs <;>
   (simp only [add_sub_cancel_left, abs_le]; exact ⟨hrange _, hrange _, hrange _⟩))

set_option maxHeartbeats 4000000 in
/-- `nearestRotation` (angles in XYZ layout, as `makeNear` passes them) leaves the rotation unchanged
    for every non-repeated order -/
theorem nearestRotation_preserves_rotation {α : Type} [Field α] [LinearOrder α] (o : Ord) (hnr : o.repeated = false)
    (sin cos angleMod : α → α) (e xyz tgt : V3 α)
    (hodd : ∀ x, sin (-x) = -sin x) (heven : ∀ x, cos (-x) = cos x)
    (hsp : ∀ x, sin (mpi + x) = -sin x) (hcp : ∀ x, cos (mpi + x) = -cos x)
    (hsm : ∀ x, sin (mpi - x) = sin x) (hcm : ∀ x, cos (mpi - x) = -cos x)
    (hmodS : ∀ t d, sin (t + angleMod d) = sin (t + d)) (hmodC : ∀ t d, cos (t + angleMod d) = cos (t + d)) :
    toM33 o sin cos (setXYZ o e (nearest o angleMod xyz tgt)) = toM33 o sin cos (setXYZ o e xyz) := by
  simp only [mpi] at hsp hcp hsm hcm
  cases o <;> first
    | exact absurd hnr (by decide)
    | (unfold_nearest
       split_ifs <;>
       (unfold_setXYZ; unfold_toM33
        simp only [mul_neg, mul_one, hodd, heven, hmodS, hmodC, add_sub_cancel, hsp, hcp, hsm, hcm, neg_neg] <;>
        (apply M33.ext' <;> ring)))

set_option maxHeartbeats 4000000 in
/-- … and brings every angle within `bound` of the target, for any bound on `|angleMod|` (all 24 orders) -/
theorem nearestRotation_within {α : Type} [Field α] [LinearOrder α] [IsStrictOrderedRing α] (o : Ord) (angleMod : α → α) (bound : α) (xyz tgt : V3 α)
    (hrange : ∀ d, |angleMod d| ≤ bound) :
    |(nearest o angleMod xyz tgt).x - tgt.x| ≤ bound ∧ |(nearest o angleMod xyz tgt).y - tgt.y| ≤ bound
      ∧ |(nearest o angleMod xyz tgt).z - tgt.z| ≤ bound := by
  cases o <;>
  (unfold_nearest
   split_ifs <;>
   (simp only [add_sub_cancel_left]; exact ⟨hrange _, hrange _, hrange _⟩))

set_option maxHeartbeats 4000000 in
/-- … and brings every angle within `mpi` of the target (all 24 orders) -/
theorem nearestRotation_within_pi {α : Type} [Field α] [LinearOrder α] [IsStrictOrderedRing α] (o : Ord) (angleMod : α → α) (xyz tgt : V3 α)
    (hrange : ∀ d, -mpi ≤ angleMod d ∧ angleMod d ≤ mpi) :
    |(nearest o angleMod xyz tgt).x - tgt.x| ≤ mpi ∧ |(nearest o angleMod xyz tgt).y - tgt.y| ≤ mpi
      ∧ |(nearest o angleMod xyz tgt).z - tgt.z| ≤ mpi := by
  cases o <;>
  (unfold_nearest
   split_ifs <;>
   (simp only [add_sub_cancel_left, abs_le]; exact ⟨hrange _, hrange _, hrange _⟩))

/-! ## 6. angleMod (hand model of the real body, tied by the driver correspondence)

`Model.Euler.angleMod trunc pi x` mirrors `fmod (x, 2π_T)` followed by the two wrap-around steps, in
exact arithmetic; `pi` stands for `static_cast<T> (M_PI)`.  The real function additionally rounds
(`angle += 2*pi` in `T`, then the `float` return type): the correspondence checks |real − model| ≤ 2^-22
("to single precision") on structured inputs. -/

/-- `angleMod` returns a value in `[-pi, pi]` -/
theorem angleMod_in_range {α : Type} [Field α] [LinearOrder α] [IsStrictOrderedRing α] [FloorRing α]
    (trunc : α → Int) (ht : IsTrunc trunc) (pi x : α) (hpi : 0 < pi) :
    -pi ≤ Model.Euler.angleMod trunc pi x ∧ Model.Euler.angleMod trunc pi x ≤ pi :=
  angleMod_range trunc ht pi x hpi

/-- … congruent to its argument modulo `2·pi` -/
theorem angleMod_congruent {α : Type} [Field α] [LinearOrder α] [IsStrictOrderedRing α] [FloorRing α]
    (trunc : α → Int) (pi x : α) : ∃ k : ℤ, Model.Euler.angleMod trunc pi x = x + (k : α) * (2 * pi) :=
  angleMod_congr trunc pi x

/-- the instance the driver executes (`ratTrunc` on ℚ) rounds toward zero, so both theorems apply to it -/
theorem angleMod_driver_instance (pi x : ℚ) (hpi : 0 < pi) :
    (-pi ≤ Model.Euler.angleMod Model.Euler.ratTrunc pi x ∧ Model.Euler.angleMod Model.Euler.ratTrunc pi x ≤ pi)
    ∧ ∃ k : ℤ, Model.Euler.angleMod Model.Euler.ratTrunc pi x = x + (k : ℚ) * (2 * pi) :=
  ⟨angleMod_range _ ratTrunc_isTrunc pi x hpi, angleMod_congr _ pi x⟩

/-! ## 8. The inverse direction: extract ∘ toMatrix on the principal range (over ℝ)

Full statement of the property: for EVERY rotation matrix `M` (any order, including gimbal lock)
`toMatrix33 (extract M) = M`, also through 4×4 matrices and quaternions, and the re-ordering
constructor `Euler (e, newOrder)` preserves the rotation.
PROVED below (`…_partial`): for all 24 orders and every `M = toMatrix33 a` with `a` in the OPEN
principal range of the order, `extract M = a` exactly (hence the round trip), over ℝ with the real
`sin/cos/sqrt` and `atan2 y x = arg (x + i y)`; likewise through `toMatrix44` and `toQuat`, and for the
free functions `extractEulerXYZ / extractEulerZYX / extractEuler` against their builders.
The OTHER composition — the property's direction — is proved in full in Props/C11Round.lean: `toMatrix33_extract`
(every rotation matrix, all 24 orders, gimbal lock and angles ±π included, any ordered field), `toMatrix33_surjective`,
`reorder_preserves_rotation`.  What stays `_partial` here is only that the ANGLES themselves are reproduced: that cannot hold
outside the principal box (at gimbal lock the angles of a matrix are not unique).  Rounding (1e-k neighbourhoods of gimbal
lock in floating point) is measured by harness/corr/c11_residue.cpp on all 24 orders × float/double. -/

/-! One theorem per family (static / rotating × non-repeated / repeated), each by `cases o` over the extracted
    definitions; `extract_inverts_toMatrix33_partial` below combines them. -/

set_option maxHeartbeats 4000000 in
theorem extract_toMatrix33_static (o : Ord) (hs : o.static = true) (hnr : o.repeated = false) (a : V3 ℝ)
    (hx : a.x ∈ Set.Ioo (-π) π) (hy : a.y ∈ Set.Ioo (-(π / 2)) (π / 2)) (hz : a.z ∈ Set.Ioo (-π) π) :
    exM33 o Real.sqrt Real.sin Real.cos atan2R (toM33 o Real.sin Real.cos a) = a := by
  have hcy : 0 < Real.cos a.y := Real.cos_pos_of_mem_Ioo hy
  have sx := Real.sin_sq_add_cos_sq a.x
  have sz := Real.sin_sq_add_cos_sq a.z
  have hxe : atan2R (Real.cos a.y * Real.sin a.x) (Real.cos a.y * Real.cos a.x) = a.x :=
    atan2R_eq (Real.cos a.y) a.x hcy ⟨hx.1, hx.2.le⟩ rfl rfl
  have hxo : atan2R (-(Real.cos a.y * Real.sin a.x)) (Real.cos a.y * Real.cos a.x) = -a.x :=
    atan2R_eq_neg (Real.cos a.y) a.x hcy ⟨hx.1.le, hx.2⟩ rfl rfl
  cases o <;> first
    | exact absurd hs (by decide)
    | exact absurd hnr (by decide)
    | (unfold_exM33; unfold_toM33
       (try simp only [mul_neg, mul_one, Real.sin_neg, Real.cos_neg])
       simp only [Real.sin_zero, Real.cos_zero, hxe, hxo, Real.sin_neg, Real.cos_neg, mul_zero, zero_mul, add_zero, zero_add, mul_one, one_mul, neg_zero, neg_neg]
       apply V3.ext'
       · rfl
       · simp only
         first
           | (refine atan2R_eq 1 a.y one_pos (Ioo_sub_Ioc hy) (by ring) ?_
              rw [one_mul]; exact sqrt_eq_of_sq hcy.le (by linear_combination (Real.cos a.y) ^ 2 * sz))
           | (rw [neg_eq_iff_eq_neg]
              refine atan2R_eq_neg 1 a.y one_pos (Ioo_sub_Ico hy) (by ring) ?_
              rw [one_mul]; exact sqrt_eq_of_sq hcy.le (by linear_combination (Real.cos a.y) ^ 2 * sz))
       · simp only
         first
           | exact atan2R_eq 1 a.z one_pos ⟨hz.1, hz.2.le⟩ (by linear_combination (Real.sin a.z) * sx) (by linear_combination (Real.cos a.z) * sx)
           | (rw [neg_eq_iff_eq_neg]
              exact atan2R_eq_neg 1 a.z one_pos ⟨hz.1.le, hz.2⟩ (by linear_combination (-Real.sin a.z) * sx) (by linear_combination (Real.cos a.z) * sx)))
set_option maxHeartbeats 4000000 in
theorem extract_toMatrix33_rotating (o : Ord) (hs : o.static = false) (hnr : o.repeated = false) (a : V3 ℝ)
    (hx : a.z ∈ Set.Ioo (-π) π) (hy : a.y ∈ Set.Ioo (-(π / 2)) (π / 2)) (hz : a.x ∈ Set.Ioo (-π) π) :
    exM33 o Real.sqrt Real.sin Real.cos atan2R (toM33 o Real.sin Real.cos a) = a := by
  have hcy : 0 < Real.cos a.y := Real.cos_pos_of_mem_Ioo hy
  have sx := Real.sin_sq_add_cos_sq a.z
  have sz := Real.sin_sq_add_cos_sq a.x
  have hxe : atan2R (Real.cos a.y * Real.sin a.z) (Real.cos a.y * Real.cos a.z) = a.z :=
    atan2R_eq (Real.cos a.y) a.z hcy ⟨hx.1, hx.2.le⟩ rfl rfl
  have hxo : atan2R (-(Real.cos a.y * Real.sin a.z)) (Real.cos a.y * Real.cos a.z) = -a.z :=
    atan2R_eq_neg (Real.cos a.y) a.z hcy ⟨hx.1.le, hx.2⟩ rfl rfl
  cases o <;> first
    | exact absurd hs (by decide)
    | exact absurd hnr (by decide)
    | (unfold_exM33; unfold_toM33
       (try simp only [mul_neg, mul_one, Real.sin_neg, Real.cos_neg])
       simp only [Real.sin_zero, Real.cos_zero, hxe, hxo, Real.sin_neg, Real.cos_neg, mul_zero, zero_mul, add_zero, zero_add, mul_one, one_mul, neg_zero, neg_neg]
       apply V3.ext'
       · simp only
         first
           | exact atan2R_eq 1 a.x one_pos ⟨hz.1, hz.2.le⟩ (by linear_combination (Real.sin a.x) * sx) (by linear_combination (Real.cos a.x) * sx)
           | (rw [neg_eq_iff_eq_neg]
              exact atan2R_eq_neg 1 a.x one_pos ⟨hz.1.le, hz.2⟩ (by linear_combination (-Real.sin a.x) * sx) (by linear_combination (Real.cos a.x) * sx))
       · simp only
         first
           | (refine atan2R_eq 1 a.y one_pos (Ioo_sub_Ioc hy) (by ring) ?_
              rw [one_mul]; exact sqrt_eq_of_sq hcy.le (by linear_combination (Real.cos a.y) ^ 2 * sz))
           | (rw [neg_eq_iff_eq_neg]
              refine atan2R_eq_neg 1 a.y one_pos (Ioo_sub_Ico hy) (by ring) ?_
              rw [one_mul]; exact sqrt_eq_of_sq hcy.le (by linear_combination (Real.cos a.y) ^ 2 * sz))
       · rfl)


set_option maxHeartbeats 4000000 in
theorem extract_toMatrix33_static_rep (o : Ord) (hs : o.static = true) (hr : o.repeated = true) (a : V3 ℝ)
    (hx : a.x ∈ Set.Ioo (-π) π) (hy : if o.even then a.y ∈ Set.Ioo 0 π else a.y ∈ Set.Ioo (-π) 0) (hz : a.z ∈ Set.Ioo (-π) π) :
    exM33 o Real.sqrt Real.sin Real.cos atan2R (toM33 o Real.sin Real.cos a) = a := by
  have sx := Real.sin_sq_add_cos_sq a.x
  have sz := Real.sin_sq_add_cos_sq a.z
  cases o <;> first
    | exact absurd hs (by decide)
    | exact absurd hr (by decide)
    | (simp only [Ord.even_table, if_true] at hy
       have hsy : 0 < Real.sin a.y := Real.sin_pos_of_pos_of_lt_pi hy.1 hy.2
       have hxe : atan2R (Real.sin a.y * Real.sin a.x) (Real.sin a.y * Real.cos a.x) = a.x :=
         atan2R_eq (Real.sin a.y) a.x hsy ⟨hx.1, hx.2.le⟩ rfl rfl
       unfold_exM33; unfold_toM33
       simp only [Real.sin_zero, Real.cos_zero, hxe, Real.sin_neg, Real.cos_neg, mul_zero, zero_mul, add_zero, zero_add, mul_one, one_mul, neg_zero, neg_neg]
       apply V3.ext'
       · rfl
       · simp only
         refine atan2R_eq 1 a.y one_pos ⟨by linarith [hy.1, Real.pi_pos], hy.2.le⟩ ?_ (by ring)
         rw [one_mul]; exact sqrt_eq_of_sq hsy.le (by linear_combination (Real.sin a.y) ^ 2 * (Real.sin a.x ^ 2 + Real.cos a.x ^ 2 + 1) * sx)
       · simp only
         exact atan2R_eq 1 a.z one_pos ⟨hz.1, hz.2.le⟩ (by linear_combination (Real.sin a.z) * sx) (by linear_combination (Real.cos a.z) * sx))
    | (simp only [Ord.even_table, if_false, Bool.false_eq_true] at hy
       have hsy : 0 < -Real.sin a.y := by
         have := Real.sin_pos_of_pos_of_lt_pi (x := -a.y) (by linarith [hy.2]) (by linarith [hy.1])
         rwa [Real.sin_neg] at this
       have hxo : atan2R (Real.sin a.y * Real.sin a.x) (-(Real.sin a.y * Real.cos a.x)) = -a.x :=
         atan2R_eq_neg (-Real.sin a.y) a.x hsy ⟨hx.1.le, hx.2⟩ (by ring) (by ring)
       unfold_exM33; unfold_toM33
       simp only [mul_neg, neg_mul, mul_one, Real.sin_neg, Real.cos_neg, neg_neg]
       simp only [Real.sin_zero, Real.cos_zero, hxo, Real.sin_neg, Real.cos_neg, mul_zero, zero_mul, add_zero, zero_add, mul_one, one_mul, neg_zero, neg_neg]
       apply V3.ext'
       · rfl
       · simp only
         rw [neg_eq_iff_eq_neg]
         refine atan2R_eq_neg 1 a.y one_pos ⟨hy.1.le, by linarith [hy.2, Real.pi_pos]⟩ ?_ (by ring)
         rw [one_mul]; exact sqrt_eq_of_sq hsy.le (by linear_combination (Real.sin a.y) ^ 2 * (Real.sin a.x ^ 2 + Real.cos a.x ^ 2 + 1) * sx)
       · simp only
         rw [neg_eq_iff_eq_neg]
         exact atan2R_eq_neg 1 a.z one_pos ⟨hz.1.le, hz.2⟩ (by linear_combination (-Real.sin a.z) * sx) (by linear_combination (Real.cos a.z) * sx))

set_option maxHeartbeats 4000000 in
theorem extract_toMatrix33_rotating_rep (o : Ord) (hs : o.static = false) (hr : o.repeated = true) (a : V3 ℝ)
    (hx : a.z ∈ Set.Ioo (-π) π) (hy : if o.even then a.y ∈ Set.Ioo 0 π else a.y ∈ Set.Ioo (-π) 0) (hz : a.x ∈ Set.Ioo (-π) π) :
    exM33 o Real.sqrt Real.sin Real.cos atan2R (toM33 o Real.sin Real.cos a) = a := by
  have sx := Real.sin_sq_add_cos_sq a.z
  have sz := Real.sin_sq_add_cos_sq a.x
  cases o <;> first
    | exact absurd hs (by decide)
    | exact absurd hr (by decide)
    | (simp only [Ord.even_table, if_true] at hy
       have hsy : 0 < Real.sin a.y := Real.sin_pos_of_pos_of_lt_pi hy.1 hy.2
       have hxe : atan2R (Real.sin a.y * Real.sin a.z) (Real.sin a.y * Real.cos a.z) = a.z :=
         atan2R_eq (Real.sin a.y) a.z hsy ⟨hx.1, hx.2.le⟩ rfl rfl
       unfold_exM33; unfold_toM33
       simp only [Real.sin_zero, Real.cos_zero, hxe, Real.sin_neg, Real.cos_neg, mul_zero, zero_mul, add_zero, zero_add, mul_one, one_mul, neg_zero, neg_neg]
       apply V3.ext'
       · simp only
         exact atan2R_eq 1 a.x one_pos ⟨hz.1, hz.2.le⟩ (by linear_combination (Real.sin a.x) * sx) (by linear_combination (Real.cos a.x) * sx)
       · simp only
         refine atan2R_eq 1 a.y one_pos ⟨by linarith [hy.1, Real.pi_pos], hy.2.le⟩ ?_ (by ring)
         rw [one_mul]; exact sqrt_eq_of_sq hsy.le (by linear_combination (Real.sin a.y) ^ 2 * (Real.sin a.z ^ 2 + Real.cos a.z ^ 2 + 1) * sx)
       · rfl)
    | (simp only [Ord.even_table, if_false, Bool.false_eq_true] at hy
       have hsy : 0 < -Real.sin a.y := by
         have := Real.sin_pos_of_pos_of_lt_pi (x := -a.y) (by linarith [hy.2]) (by linarith [hy.1])
         rwa [Real.sin_neg] at this
       have hxo : atan2R (Real.sin a.y * Real.sin a.z) (-(Real.sin a.y * Real.cos a.z)) = -a.z :=
         atan2R_eq_neg (-Real.sin a.y) a.z hsy ⟨hx.1.le, hx.2⟩ (by ring) (by ring)
       unfold_exM33; unfold_toM33
       simp only [mul_neg, neg_mul, mul_one, Real.sin_neg, Real.cos_neg, neg_neg]
       simp only [Real.sin_zero, Real.cos_zero, hxo, Real.sin_neg, Real.cos_neg, mul_zero, zero_mul, add_zero, zero_add, mul_one, one_mul, neg_zero, neg_neg]
       apply V3.ext'
       · simp only
         rw [neg_eq_iff_eq_neg]
         exact atan2R_eq_neg 1 a.x one_pos ⟨hz.1.le, hz.2⟩ (by linear_combination (-Real.sin a.x) * sx) (by linear_combination (Real.cos a.x) * sx)
       · simp only
         rw [neg_eq_iff_eq_neg]
         refine atan2R_eq_neg 1 a.y one_pos ⟨hy.1.le, by linarith [hy.2, Real.pi_pos]⟩ ?_ (by ring)
         rw [one_mul]; exact sqrt_eq_of_sq hsy.le (by linear_combination (Real.sin a.y) ^ 2 * (Real.sin a.z ^ 2 + Real.cos a.z ^ 2 + 1) * sx)
       · rfl)



/-! ## `extractEulerXYZ` / `extractEulerZYX` are `Euler::extract (Matrix44)` after a normalisation that is the
identity on matrices with unit rows -/

set_option maxHeartbeats 2000000 in
/-- on a matrix whose three rows already have length 1 the normalisation step of `extractEulerXYZ`
    is the identity and the rest is, term for term, `Euler::extract (Matrix44)` for order XYZ -/
theorem extractEulerXYZ_eq_member {α : Type} [Field α] [LinearOrder α] [IsStrictOrderedRing α]
    (tmin tmax : α) (sqrt sin cos : α → α) (atan2 : α → α → α) (m : M44 α)
    (h0 : Gen.V3.length tmin tmax sqrt ⟨m.x00, m.x01, m.x02⟩ = 1) (h1 : Gen.V3.length tmin tmax sqrt ⟨m.x10, m.x11, m.x12⟩ = 1)
    (h2 : Gen.V3.length tmin tmax sqrt ⟨m.x20, m.x21, m.x22⟩ = 1) :
    Gen.Euler.extractEulerXYZ tmin tmax sqrt sin cos atan2 m = exM44 .XYZ sqrt sin cos atan2 m := by
  simp only [Gen.Euler.extractEulerXYZ, exM44, Gen.Euler.extractM44_XYZ, h0, h1, h2, one_ne_zero, if_false, div_one]
  apply V3.ext' <;> simp only [zero_mul, mul_zero, add_zero, zero_add, one_mul, mul_one]

set_option maxHeartbeats 2000000 in
theorem extractEulerZYX_eq_member {α : Type} [Field α] [LinearOrder α] [IsStrictOrderedRing α]
    (tmin tmax : α) (sqrt sin cos : α → α) (atan2 : α → α → α) (m : M44 α)
    (h0 : Gen.V3.length tmin tmax sqrt ⟨m.x00, m.x01, m.x02⟩ = 1) (h1 : Gen.V3.length tmin tmax sqrt ⟨m.x10, m.x11, m.x12⟩ = 1)
    (h2 : Gen.V3.length tmin tmax sqrt ⟨m.x20, m.x21, m.x22⟩ = 1) :
    Gen.Euler.extractEulerZYX tmin tmax sqrt sin cos atan2 m = exM44 .ZYX sqrt sin cos atan2 m := by
  simp only [Gen.Euler.extractEulerZYX, exM44, Gen.Euler.extractM44_ZYX, h0, h1, h2, one_ne_zero, if_false, div_one]
  apply V3.ext' <;> simp only [zero_mul, mul_zero, add_zero, zero_add, one_mul, mul_one, neg_neg, mul_neg]

/-- the open principal range of order `o` -/
def principal (o : Ord) (a : V3 ℝ) : Prop :=
  a.x ∈ Set.Ioo (-Real.pi) Real.pi ∧ a.z ∈ Set.Ioo (-Real.pi) Real.pi ∧
    (if o.repeated then (if o.even then a.y ∈ Set.Ioo 0 Real.pi else a.y ∈ Set.Ioo (-Real.pi) 0)
     else a.y ∈ Set.Ioo (-(Real.pi / 2)) (Real.pi / 2))

/-- `extract (Matrix33)` inverts `toMatrix33` on the principal range, for all 24 orders -/
theorem extract_inverts_toMatrix33_partial (o : Ord) (a : V3 ℝ) (h : principal o a) :
    exM33 o Real.sqrt Real.sin Real.cos atan2R (toM33 o Real.sin Real.cos a) = a := by
  obtain ⟨hx, hz, hy⟩ := h
  cases hr : o.repeated <;> cases hs : o.static <;> simp only [hr, if_true, if_false, Bool.false_eq_true] at hy
  · exact extract_toMatrix33_rotating o hs hr a hz hy hx
  · exact extract_toMatrix33_static o hs hr a hx hy hz
  · exact extract_toMatrix33_rotating_rep o hs hr a hz hy hx
  · exact extract_toMatrix33_static_rep o hs hr a hx hy hz

/-- hence converting the extracted angles back reproduces the rotation -/
theorem toMatrix33_extract_roundtrip_partial (o : Ord) (a : V3 ℝ) (h : principal o a) :
    toM33 o Real.sin Real.cos (exM33 o Real.sqrt Real.sin Real.cos atan2R (toM33 o Real.sin Real.cos a))
      = toM33 o Real.sin Real.cos a := by
  rw [extract_inverts_toMatrix33_partial o a h]

/-- the same through 4×4 matrices … -/
theorem extract_inverts_toMatrix44_partial (o : Ord) (a : V3 ℝ) (h : principal o a) :
    exM44 o Real.sqrt Real.sin Real.cos atan2R (toM44 o Real.sin Real.cos a) = a := by
  rw [toMatrix44_eq_embed_toMatrix33, extract_embed33, extract_inverts_toMatrix33_partial o a h]

/-- … and through quaternions -/
theorem extract_inverts_toQuat_partial (o : Ord) (a : V3 ℝ) (h : principal o a) :
    exQuat o Real.sqrt Real.sin Real.cos atan2R (toQuat o Real.sin Real.cos a) = a := by
  rw [extract_Quat_eq, toQuat_toMatrix33_eq_toMatrix33 o _ _ a real_hsc real_hodd real_heven real_hsin2 real_hcos2,
    extract_inverts_toMatrix33_partial o a h]

/-- `extractEulerXYZ` inverts `Matrix44::setEulerAngles` -/
theorem extractEulerXYZ_inverts_setEulerAngles (tmin tmax : ℝ) (a : V3 ℝ) (h : principal .XYZ a) :
    Gen.Euler.extractEulerXYZ tmin tmax Real.sqrt Real.sin Real.cos atan2R (Gen.Euler.M44_setEulerAngles Real.sin Real.cos a) = a := by
  have sx := Real.sin_sq_add_cos_sq a.x
  have sy := Real.sin_sq_add_cos_sq a.y
  have sz := Real.sin_sq_add_cos_sq a.z
  rw [← toMatrix44_XYZ_eq_setEulerAngles, extractEulerXYZ_eq_member, extract_inverts_toMatrix44_partial .XYZ a h]
  all_goals (apply V3_length_unit; simp only [toM44, Gen.Euler.toMatrix44_XYZ])
  · linear_combination (Real.cos a.y) ^ 2 * sz + sy
  · linear_combination (Real.cos a.x ^ 2 + Real.sin a.y ^ 2 * Real.sin a.x ^ 2) * sz + Real.sin a.x ^ 2 * sy + sx
  · linear_combination (Real.sin a.x ^ 2 + Real.sin a.y ^ 2 * Real.cos a.x ^ 2) * sz + Real.cos a.x ^ 2 * sy + sx

/-- `extractEulerZYX` inverts the ZYX builder (`Euler (a, ZYX).toMatrix44 ()`) -/
theorem extractEulerZYX_inverts_builder (tmin tmax : ℝ) (a : V3 ℝ) (h : principal .ZYX a) :
    Gen.Euler.extractEulerZYX tmin tmax Real.sqrt Real.sin Real.cos atan2R (toM44 .ZYX Real.sin Real.cos a) = a := by
  have sx := Real.sin_sq_add_cos_sq a.x
  have sy := Real.sin_sq_add_cos_sq a.y
  have sz := Real.sin_sq_add_cos_sq a.z
  rw [extractEulerZYX_eq_member, extract_inverts_toMatrix44_partial .ZYX a h]
  all_goals (apply V3_length_unit; simp only [toM44, Gen.Euler.toMatrix44_ZYX, mul_neg, mul_one, Real.sin_neg, Real.cos_neg])
  · linear_combination (Real.sin a.x ^ 2 + Real.sin a.y ^ 2 * Real.cos a.x ^ 2) * sz + Real.cos a.x ^ 2 * sy + sx
  · linear_combination (Real.cos a.x ^ 2 + Real.sin a.y ^ 2 * Real.sin a.x ^ 2) * sz + Real.sin a.x ^ 2 * sy + sx
  · linear_combination (Real.cos a.y) ^ 2 * sz + sy

/-- `extractEuler (Matrix22)` / `extractEuler (Matrix33)` invert `setRotation` -/
theorem extractEuler_inverts_setRotation (tmin tmax r : ℝ) (hr : r ∈ Set.Ico (-Real.pi) Real.pi) :
    Gen.Euler.extractEuler22 tmin tmax Real.sqrt atan2R (Gen.Euler.M22_setRotation Real.sin Real.cos r) = r
    ∧ Gen.Euler.extractEuler33 tmin tmax Real.sqrt atan2R (Gen.Euler.M33_setRotation Real.sin Real.cos r) = r := by
  have s := Real.sin_sq_add_cos_sq r
  have l0 : Gen.V2.length tmin tmax Real.sqrt ⟨Real.cos r, Real.sin r⟩ = 1 := V2_length_unit _ _ _ (by simp only; linear_combination s)
  have l1 : Gen.V2.length tmin tmax Real.sqrt ⟨-Real.sin r, Real.cos r⟩ = 1 := V2_length_unit _ _ _ (by simp only; linear_combination s)
  constructor
  · simp only [Gen.Euler.extractEuler22, Gen.Euler.M22_setRotation, l0, l1, one_ne_zero, if_false, div_one]
    rw [neg_eq_iff_eq_neg]; exact atan2R_eq_neg 1 r one_pos hr (by ring) (by ring)
  · simp only [Gen.Euler.extractEuler33, Gen.Euler.M33_setRotation, l0, l1, one_ne_zero, if_false, div_one]
    rw [neg_eq_iff_eq_neg]; exact atan2R_eq_neg 1 r one_pos hr (by ring) (by ring)

/-- the principal ranges are inhabited: a concrete non-trivial triple for a non-repeated and a repeated order -/
theorem nonvacuity_principal : principal .YZX ⟨1, -1 / 2, -3 / 2⟩ ∧ principal .ZXZr ⟨-3 / 2, -1, 1⟩ := by
  have := Real.two_le_pi
  refine ⟨⟨⟨by linarith, by linarith⟩, ⟨by linarith, by linarith⟩, ?_⟩, ⟨⟨by linarith, by linarith⟩, ⟨by linarith, by linarith⟩, ?_⟩⟩
  · simp only [Ord.repeated_table, if_false, Bool.false_eq_true]; constructor <;> linarith
  · simp only [Ord.repeated_table, Ord.even_table, if_true, if_false, Bool.false_eq_true]; constructor <;> linarith

/-! ## 7. Non-vacuity: the real functions satisfy the hypotheses -/

/-- on ℝ with the real sine and cosine: quaternion, matrix and spec agree for all 24 orders -/
theorem nonvacuity_real_sin_cos (o : Ord) (a : V3 ℝ) :
    Gen.Euler.Quat_toMatrix33 (toQuat o Real.sin Real.cos a) = toM33 o Real.sin Real.cos a
    ∧ (toM33 o Real.sin Real.cos a).toMat = eulerMat o Real.sin Real.cos a
    ∧ (toM33 o Real.sin Real.cos a).toMat.det = 1 :=
  ⟨toQuat_toMatrix33_eq_toMatrix33 o _ _ a real_hsc real_hodd real_heven real_hsin2 real_hcos2,
   toMatrix33_eq_spec o _ _ a real_hodd real_heven,
   (toMatrix33_orthonormal_det_one o _ _ a real_hsc).2.2⟩

/-- the flip identity with the true π -/
theorem nonvacuity_flip_real (a : V3 ℝ) : toM33 .ZXY Real.sin Real.cos ⟨Real.pi + a.x, Real.pi - a.y, Real.pi + a.z⟩ = toM33 .ZXY Real.sin Real.cos a :=
  flip_same_rotation .ZXY rfl _ _ Real.pi a real_hodd real_heven real_hsp real_hcp real_hsm real_hcm

/-- `makeNear` with the model of `angleMod`, for functions whose half period is exactly the double `M_PI` -/
theorem nonvacuity_makeNear (a t : V3 ℝ) :
    toM33 .YXZ sinM cosM (makeNear .YXZ (Model.Euler.angleMod truncF mpi) a t).1 = toM33 .YXZ sinM cosM a
    ∧ |(makeNear .YXZ (Model.Euler.angleMod truncF mpi) a t).1.x - t.x| ≤ mpi :=
  ⟨(makeNear_preserves_rotation .YXZ rfl sinM cosM _ a t sinM_cosM_hyps.2.1 sinM_cosM_hyps.2.2.1 sinM_cosM_hyps.2.2.2.1
      sinM_cosM_hyps.2.2.2.2.1 sinM_cosM_hyps.2.2.2.2.2.1 sinM_cosM_hyps.2.2.2.2.2.2
      sinM_cosM_angleMod_hyps.1 sinM_cosM_angleMod_hyps.2.1).1,
   (makeNear_within_pi .YXZ _ a t sinM_cosM_angleMod_hyps.2.2).1⟩

/-- `float (M_PI)`, exactly: the bound the REAL (float-returning) `angleMod` satisfies; it is larger than the double `M_PI` -/
def piF {α : Type} [Div α] [OfNat α 13176795] [OfNat α 4194304] : α := (13176795 : α) / (4194304 : α)

/-- the `_within` theorems are not vacuous at the honest float bound: the exact model with `pi := float (M_PI)` stays within `piF`
    (paper remark, not a checked claim: for `T = float` `fmod` and, by Sterbenz, the two wrap steps are exact, so the code should
    compute exactly this model; what IS checked on all 2^32 arguments is `|r| ≤ piF` and exact congruence, which fix `r` up to the
    choice between `+piF` and `−piF` at the boundary),
    and `piF` exceeds the double `M_PI` by ≈ 8.7e-8, so the `mpi` version of the bound does NOT apply to it -/
theorem nonvacuity_float_bound (a t : V3 ℝ) :
    (mpi : ℝ) < piF ∧ (∀ d : ℝ, |Model.Euler.angleMod truncF (piF : ℝ) d| ≤ piF)
    ∧ |(makeNear .ZXY (Model.Euler.angleMod truncF (piF : ℝ)) a t).1.y - t.y| ≤ piF := by
  have hp : (0 : ℝ) < piF := by unfold piF; positivity
  have hr : ∀ d : ℝ, |Model.Euler.angleMod truncF (piF : ℝ) d| ≤ piF := fun d => abs_le.mpr (angleMod_range truncF truncF_isTrunc piF d hp)
  refine ⟨by unfold mpi piF; norm_num, hr, (makeNear_within .ZXY _ piF a t hr).2.1⟩

/-- a concrete instance of the slot permutations: order YZX (first angle about Y, second about Z, third about X) -/
theorem nonvacuity_slots_YZX : toXYZ .YZX (⟨1, 2, 3⟩ : V3 ℚ) = ⟨3, 1, 2⟩ ∧ setXYZ .YZX (⟨0, 0, 0⟩ : V3 ℚ) ⟨3, 1, 2⟩ = ⟨1, 2, 3⟩ := by
  constructor <;> rfl

/-- `angleMod` model on a concrete input: 7 ↦ 7 − 2·(22/7) with pi := 22/7 -/
theorem nonvacuity_angleMod : Model.Euler.angleMod Model.Euler.ratTrunc (22 / 7 : ℚ) 7 = 7 - 44 / 7 := by decide +kernel

end ImathVerif.C11
