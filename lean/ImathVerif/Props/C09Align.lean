import ImathVerif.Spec.MatSpec
import ImathVerif.Spec.TransformSpec
import ImathVerif.Gen.C09Align
import ImathVerif.Gen.C09Up
import ImathVerif.Lemmas.C09Lemmas
import ImathVerif.Lemmas.C09FrameLemmas
import Mathlib.Tactic.Ring
import Mathlib.Tactic.FinCases
import Mathlib.Analysis.SpecialFunctions.Trigonometric.Basic
/-!
# C09 (part 2) — alignZAxisWithTargetDir, rotationMatrixWithUpDir

See `Props/C09.lean` for the conventions (`IsFrame`, `nrm`, `LenSpec`, row-vector convention).  `Gen.Frame.alignZAxisWithTargetDir` is
regenerated from ImathMatrixAlgo.h (`Gen/C09Align.lean`); `Gen.Frame.rotationMatrixWithUpDir` (`Gen/C09Up.lean`) is extracted with
`alignZAxisWithTargetDir` as an opaque call of that definition.
-/
set_option linter.unreachableTactic false
set_option linter.unusedTactic false
set_option linter.unusedSectionVars false
set_option linter.unusedSimpArgs false
set_option linter.unusedVariables false
namespace ImathVerif.C09
open ImathVerif Matrix

section Frames
variable {α : Type} [Field α] [LinearOrder α] [IsStrictOrderedRing α]

set_option maxHeartbeats 1600000 in
/-- `alignZAxisWithTargetDir`: the extracted 60-path tree equals the documented case analysis (`alignZSpec`), structurally -/
theorem alignZAxisWithTargetDir_spec (tmin tmax : α) (sqrt : α → α) (targetDir upDir : V3 α) :
    Gen.Frame.alignZAxisWithTargetDir tmin tmax sqrt targetDir upDir = alignZSpec (Gen.V3.length tmin tmax sqrt) targetDir upDir := by
  obtain ⟨tx, ty, tz⟩ := targetDir
  obtain ⟨ux, uy, uz⟩ := upDir
  simp only [Gen.Frame.alignZAxisWithTargetDir, alignZSpec, nrm, cross, frameM44]
  generalize Gen.V3.length tmin tmax sqrt = len
  simp only [mul_zero, zero_mul, mul_one, one_mul, sub_zero, zero_sub, sub_self, zero_div]
  split_ifs <;> first | rfl | (simp_all; done)

/-- EVERY path — zero target, zero up, up ∥ target (both fallback axes), generic — yields an orthonormal right-handed
frame without translation whose z-row is the normalised target (`+z` for a zero target) -/
theorem alignZAxisWithTargetDir_frame (tmin tmax : α) (sqrt : α → α) (hlen : LenSpec (Gen.V3.length tmin tmax sqrt)) (targetDir upDir : V3 α) :
    IsFrame (Gen.Frame.alignZAxisWithTargetDir tmin tmax sqrt targetDir upDir) ∧
      row3 (Gen.Frame.alignZAxisWithTargetDir tmin tmax sqrt targetDir upDir) = ⟨0, 0, 0⟩ ∧
      row2 (Gen.Frame.alignZAxisWithTargetDir tmin tmax sqrt targetDir upDir)
        = nrm (Gen.V3.length tmin tmax sqrt) (if targetDir = ⟨0, 0, 0⟩ then ⟨0, 0, 1⟩ else targetDir) := by
  rw [alignZAxisWithTargetDir_spec]
  have h := alignZSpec_isFrame hlen targetDir upDir
  refine ⟨h.1, h.2.1, ?_⟩
  rw [h.2.2]; congr 1
  simp only [azTarget, len_eq_zero_iff hlen]

/-- generic inputs (target ≠ 0, up not parallel to it): the documented axes — x-row `up × target`, y-row
`target × (up × target)`, z-row `target`, all normalised -/
theorem alignZAxisWithTargetDir_axes (tmin tmax : α) (sqrt : α → α) (hlen : LenSpec (Gen.V3.length tmin tmax sqrt)) (targetDir upDir : V3 α)
    (ht : targetDir ≠ ⟨0, 0, 0⟩) (hut : cross upDir targetDir ≠ ⟨0, 0, 0⟩) :
    Gen.Frame.alignZAxisWithTargetDir tmin tmax sqrt targetDir upDir =
      frameM44 (nrm (Gen.V3.length tmin tmax sqrt) (cross upDir targetDir))
               (nrm (Gen.V3.length tmin tmax sqrt) (cross targetDir (cross upDir targetDir)))
               (nrm (Gen.V3.length tmin tmax sqrt) targetDir) ⟨0, 0, 0⟩ := by
  rw [alignZAxisWithTargetDir_spec]; exact alignZSpec_main hlen ht hut
example : (⟨0, 0, 2⟩ : V3 ℝ) ≠ ⟨0, 0, 0⟩ ∧ cross (⟨0, 3, 0⟩ : V3 ℝ) ⟨0, 0, 2⟩ ≠ ⟨0, 0, 0⟩ := by
  constructor <;> simp [cross]

/-- fallbacks: a zero target is replaced by `+z`, a zero up by `+y` … -/
theorem alignZAxisWithTargetDir_zero_target (tmin tmax : α) (sqrt : α → α) (hlen : LenSpec (Gen.V3.length tmin tmax sqrt)) (upDir : V3 α) :
    Gen.Frame.alignZAxisWithTargetDir tmin tmax sqrt ⟨0, 0, 0⟩ upDir = Gen.Frame.alignZAxisWithTargetDir tmin tmax sqrt ⟨0, 0, 1⟩ upDir := by
  rw [alignZAxisWithTargetDir_spec, alignZAxisWithTargetDir_spec]; exact alignZSpec_zero_target hlen upDir
theorem alignZAxisWithTargetDir_zero_up (tmin tmax : α) (sqrt : α → α) (hlen : LenSpec (Gen.V3.length tmin tmax sqrt)) (targetDir : V3 α) :
    Gen.Frame.alignZAxisWithTargetDir tmin tmax sqrt targetDir ⟨0, 0, 0⟩ = Gen.Frame.alignZAxisWithTargetDir tmin tmax sqrt targetDir ⟨0, 1, 0⟩ := by
  rw [alignZAxisWithTargetDir_spec, alignZAxisWithTargetDir_spec]; exact alignZSpec_zero_up hlen targetDir
/-- … and an up direction exactly parallel to the target by `target × x̂`, or by `target × ẑ` when the target is along x;
the substituted up is never parallel to the target -/
theorem alignZAxisWithTargetDir_parallel (tmin tmax : α) (sqrt : α → α) (hlen : LenSpec (Gen.V3.length tmin tmax sqrt)) (targetDir upDir : V3 α)
    (ht : targetDir ≠ ⟨0, 0, 0⟩) (hu : upDir ≠ ⟨0, 0, 0⟩) (hut : cross upDir targetDir = ⟨0, 0, 0⟩) :
    Gen.Frame.alignZAxisWithTargetDir tmin tmax sqrt targetDir upDir
        = Gen.Frame.alignZAxisWithTargetDir tmin tmax sqrt targetDir
            (if cross targetDir ⟨1, 0, 0⟩ = ⟨0, 0, 0⟩ then cross targetDir ⟨0, 0, 1⟩ else cross targetDir ⟨1, 0, 0⟩) ∧
      cross (if cross targetDir ⟨1, 0, 0⟩ = ⟨0, 0, 0⟩ then cross targetDir ⟨0, 0, 1⟩ else cross targetDir ⟨1, 0, 0⟩) targetDir
        ≠ ⟨0, 0, 0⟩ := by
  have h := alignZSpec_parallel hlen ht hu hut
  have e : azFallbackUp (Gen.V3.length tmin tmax sqrt) targetDir
      = (if cross targetDir ⟨1, 0, 0⟩ = ⟨0, 0, 0⟩ then cross targetDir ⟨0, 0, 1⟩ else cross targetDir ⟨1, 0, 0⟩) := by
    simp only [azFallbackUp, len_eq_zero_iff hlen]
  rw [alignZAxisWithTargetDir_spec, alignZAxisWithTargetDir_spec, ← e]; exact h
example : (⟨0, 0, 2⟩ : V3 ℝ) ≠ ⟨0, 0, 0⟩ ∧ (⟨0, 0, -5⟩ : V3 ℝ) ≠ ⟨0, 0, 0⟩ ∧ cross (⟨0, 0, -5⟩ : V3 ℝ) ⟨0, 0, 2⟩ = ⟨0, 0, 0⟩ := by
  refine ⟨by simp, by simp, by simp [cross]⟩

/-- `rotationMatrixWithUpDir`: identity for a zero `fromDir`, otherwise `alignZ(fromDir, +y)ᵀ · alignZ(toDir, upDir)` -/
theorem rotationMatrixWithUpDir_eq_alignZ (tmin tmax : α) (sqrt : α → α) (fromDir toDir upDir : V3 α) :
    (Gen.Frame.rotationMatrixWithUpDir tmin tmax sqrt fromDir toDir upDir).toMat =
      if Gen.V3.length tmin tmax sqrt fromDir = 0 then 1
      else (Gen.Frame.alignZAxisWithTargetDir tmin tmax sqrt fromDir ⟨0, 1, 0⟩).toMatᵀ
            * (Gen.Frame.alignZAxisWithTargetDir tmin tmax sqrt toDir upDir).toMat := by
  obtain ⟨fx, fy, fz⟩ := fromDir
  obtain ⟨tx, ty, tz⟩ := toDir
  obtain ⟨ux, uy, uz⟩ := upDir
  simp only [Gen.Frame.rotationMatrixWithUpDir]
  split_ifs with h
  · ext i j; fin_cases i <;> fin_cases j <;> simp [M44.toMat]
  · ext i j; fin_cases i <;> fin_cases j <;>
      simp [M44.toMat, Matrix.mul_apply, Fin.sum_univ_four]

/-- for ANY `toDir`, `upDir` (zero and parallel included) and `fromDir ≠ 0`: an orthonormal right-handed frame without
translation that takes the direction of `fromDir` to the direction of `toDir` (`+z` for a zero `toDir`) -/
theorem rotationMatrixWithUpDir_frame (tmin tmax : α) (sqrt : α → α) (hlen : LenSpec (Gen.V3.length tmin tmax sqrt)) (fromDir toDir upDir : V3 α)
    (hf : fromDir ≠ ⟨0, 0, 0⟩) :
    IsFrame (Gen.Frame.rotationMatrixWithUpDir tmin tmax sqrt fromDir toDir upDir) ∧
      row3 (Gen.Frame.rotationMatrixWithUpDir tmin tmax sqrt fromDir toDir upDir) = ⟨0, 0, 0⟩ ∧
      (nrm (Gen.V3.length tmin tmax sqrt) fromDir).toVec ᵥ* rot3 (Gen.Frame.rotationMatrixWithUpDir tmin tmax sqrt fromDir toDir upDir)
        = (nrm (Gen.V3.length tmin tmax sqrt) (if toDir = ⟨0, 0, 0⟩ then ⟨0, 0, 1⟩ else toDir)).toVec := by
  have hA := alignZAxisWithTargetDir_frame tmin tmax sqrt hlen fromDir ⟨0, 1, 0⟩
  have hB := alignZAxisWithTargetDir_frame tmin tmax sqrt hlen toDir upDir
  have hl : Gen.V3.length tmin tmax sqrt fromDir ≠ 0 := len_ne_zero hlen hf
  have e := rotationMatrixWithUpDir_eq_alignZ tmin tmax sqrt fromDir toDir upDir
  rw [if_neg hl] at e
  obtain ⟨hF, h3, hr⟩ := isFrame_transpose_mul hA.1 hA.2.1 hB.1 hB.2.1 e
  refine ⟨hF, h3, ?_⟩
  rw [hr, ← Matrix.vecMul_vecMul]
  have hrow : (nrm (Gen.V3.length tmin tmax sqrt) fromDir).toVec
      = fun j => rot3 (Gen.Frame.alignZAxisWithTargetDir tmin tmax sqrt fromDir ⟨0, 1, 0⟩) 2 j := by
    have := hA.2.2
    rw [if_neg hf] at this
    rw [← this]
    ext j; fin_cases j <;> simp [V3.toVec, row2, rot3]
  rw [hrow, vecMul_transpose_row2 hA.1.1, ← hB.2.2]
  ext j; fin_cases j <;> simp [V3.toVec, row2, rot3, Matrix.vecMul, dotProduct, Fin.sum_univ_three]
/-- a zero `fromDir` gives the identity -/
theorem rotationMatrixWithUpDir_zero_from (tmin tmax : α) (sqrt : α → α) (hlen : LenSpec (Gen.V3.length tmin tmax sqrt)) (toDir upDir : V3 α) :
    (Gen.Frame.rotationMatrixWithUpDir tmin tmax sqrt ⟨0, 0, 0⟩ toDir upDir).toMat = 1 := by
  rw [rotationMatrixWithUpDir_eq_alignZ, if_pos ((len_eq_zero_iff hlen _).mpr rfl)]

end Frames

end ImathVerif.C09
