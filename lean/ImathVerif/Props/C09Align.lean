import ImathVerif.Spec.MatSpec
import ImathVerif.Spec.TransformSpec
import ImathVerif.Gen.C09Align
import ImathVerif.Gen.C09Up
import ImathVerif.Lemmas.C09Lemmas
import ImathVerif.Lemmas.C09FrameLemmas
import ImathVerif.Lemmas.C09AlignZ
import ImathVerif.Lemmas.C09UpDir
import Mathlib.Tactic.Ring
import Mathlib.Tactic.FinCases
import Mathlib.Analysis.SpecialFunctions.Trigonometric.Basic
/-!
# C09 (part 2) — alignZAxisWithTargetDir, rotationMatrixWithUpDir

See `Props/C09.lean` for the conventions (`IsFrame`, `nrm`, `LenSpec`, row-vector convention).  `Gen.Frame.alignZAxisWithTargetDir` is
regenerated from ImathMatrixAlgo.h (`Gen/C09Align.lean`); `Gen.Frame.rotationMatrixWithUpDir` (`Gen/C09Up.lean`) is extracted with
`alignZAxisWithTargetDir` as an opaque call of that definition.
-/
set_option linter.unreachableTactic false
set_option linter.unusedTactic false
set_option linter.unusedSectionVars false
set_option linter.unusedSimpArgs false
set_option linter.unusedVariables false
namespace ImathVerif.C09
open ImathVerif Matrix

section Frames
variable {α : Type} [Field α] [LinearOrder α] [IsStrictOrderedRing α]

set_option maxHeartbeats 1600000 in
/-- `alignZAxisWithTargetDir`: the extracted 80-path tree equals the documented case analysis (`alignZSpec`: zero replacement, rescaling of
both arguments by their largest component — /repo 8e640b7 —, parallel fallbacks, the three normalised rows), structurally -/
theorem alignZAxisWithTargetDir_spec (tmin tmax : α) (sqrt : α → α) (targetDir upDir : V3 α) :
    Gen.Frame.alignZAxisWithTargetDir tmin tmax sqrt targetDir upDir = alignZSpec (Gen.V3.length tmin tmax sqrt) targetDir upDir := by
  obtain ⟨tx, ty, tz⟩ := targetDir
  obtain ⟨ux, uy, uz⟩ := upDir
  simp only [Gen.Frame.alignZAxisWithTargetDir, alignZSpec, scaleMax, maxAbs, nrm, cross, frameM44]
  generalize Gen.V3.length tmin tmax sqrt = len
  -- the two zero tests come first in the code; below them the (rescaled) components are opaque
  by_cases ht : len ⟨tx, ty, tz⟩ = 0 <;> by_cases hu : len ⟨ux, uy, uz⟩ = 0 <;> simp only [ht, hu, if_true, if_false]
  · generalize smax (smax (sabs (0 : α)) (sabs 0)) (sabs 1) = m1
    generalize smax (smax (sabs (0 : α)) (sabs 1)) (sabs 0) = m2
    generalize (0 : α) / m1 = a0; generalize (1 : α) / m1 = a1; generalize (0 : α) / m2 = b0; generalize (1 : α) / m2 = b1
    split_ifs <;> first | rfl | (simp_all; done)
  · generalize smax (smax (sabs (0 : α)) (sabs 0)) (sabs 1) = m1
    generalize smax (smax (sabs ux) (sabs uy)) (sabs uz) = mu
    generalize (0 : α) / m1 = a0; generalize (1 : α) / m1 = a1
    generalize ux / mu = b1; generalize uy / mu = b2; generalize uz / mu = b3
    split_ifs <;> first | rfl | (simp_all; done)
  · generalize smax (smax (sabs (0 : α)) (sabs 1)) (sabs 0) = m2
    generalize smax (smax (sabs tx) (sabs ty)) (sabs tz) = mt
    generalize (0 : α) / m2 = b0; generalize (1 : α) / m2 = b1
    generalize tx / mt = a1; generalize ty / mt = a2; generalize tz / mt = a3
    split_ifs <;> first | rfl | (simp_all; done)
  · generalize smax (smax (sabs tx) (sabs ty)) (sabs tz) = mt
    generalize smax (smax (sabs ux) (sabs uy)) (sabs uz) = mu
    generalize tx / mt = a1; generalize ty / mt = a2; generalize tz / mt = a3
    generalize ux / mu = b1; generalize uy / mu = b2; generalize uz / mu = b3
    split_ifs <;> first | rfl | (simp_all; done)

/-- EVERY path — zero target, zero up, up ∥ target (both fallback axes), generic — yields an orthonormal right-handed
frame without translation whose z-row is the normalised target (`+z` for a zero target) -/
theorem alignZAxisWithTargetDir_frame (tmin tmax : α) (sqrt : α → α) (hlen : LenSpec (Gen.V3.length tmin tmax sqrt)) (targetDir upDir : V3 α) :
    IsFrame (Gen.Frame.alignZAxisWithTargetDir tmin tmax sqrt targetDir upDir) ∧
      row3 (Gen.Frame.alignZAxisWithTargetDir tmin tmax sqrt targetDir upDir) = ⟨0, 0, 0⟩ ∧
      row2 (Gen.Frame.alignZAxisWithTargetDir tmin tmax sqrt targetDir upDir)
        = nrm (Gen.V3.length tmin tmax sqrt) (if targetDir = ⟨0, 0, 0⟩ then ⟨0, 0, 1⟩ else targetDir) := by
  rw [alignZAxisWithTargetDir_spec]
  have h := alignZSpec_isFrame hlen targetDir upDir
  refine ⟨h.1, h.2.1, ?_⟩
  rw [h.2.2]; congr 1
  simp only [azTarget0, len_eq_zero_iff hlen]

/-- generic inputs (target ≠ 0, up not parallel to it): the documented axes — x-row `up × target`, y-row
`target × (up × target)`, z-row `target`, all normalised -/
theorem alignZAxisWithTargetDir_axes (tmin tmax : α) (sqrt : α → α) (hlen : LenSpec (Gen.V3.length tmin tmax sqrt)) (targetDir upDir : V3 α)
    (ht : targetDir ≠ ⟨0, 0, 0⟩) (hut : cross upDir targetDir ≠ ⟨0, 0, 0⟩) :
    Gen.Frame.alignZAxisWithTargetDir tmin tmax sqrt targetDir upDir =
      frameM44 (nrm (Gen.V3.length tmin tmax sqrt) (cross upDir targetDir))
               (nrm (Gen.V3.length tmin tmax sqrt) (cross targetDir (cross upDir targetDir)))
               (nrm (Gen.V3.length tmin tmax sqrt) targetDir) ⟨0, 0, 0⟩ := by
  rw [alignZAxisWithTargetDir_spec]; exact alignZSpec_main hlen ht hut
example : (⟨0, 0, 2⟩ : V3 ℝ) ≠ ⟨0, 0, 0⟩ ∧ cross (⟨0, 3, 0⟩ : V3 ℝ) ⟨0, 0, 2⟩ ≠ ⟨0, 0, 0⟩ := by
  constructor <;> simp [cross]

/-- the documented PURPOSE of `upDir` ("the up vector pointing in a certain direction"), stated without reference to the cross-product order
of the code: for a non-zero target and an up direction not parallel to it, the frame's y-row has a strictly POSITIVE component along
`upDir`, its x-row none — `upDir` lies in the half plane `y > 0` of the frame's y–z plane — and the z-row is the target direction -/
theorem alignZAxisWithTargetDir_up (tmin tmax : α) (sqrt : α → α) (hlen : LenSpec (Gen.V3.length tmin tmax sqrt)) (targetDir upDir : V3 α)
    (ht : targetDir ≠ ⟨0, 0, 0⟩) (hut : cross upDir targetDir ≠ ⟨0, 0, 0⟩) :
    0 < dot (row1 (Gen.Frame.alignZAxisWithTargetDir tmin tmax sqrt targetDir upDir)) upDir ∧
      dot (row0 (Gen.Frame.alignZAxisWithTargetDir tmin tmax sqrt targetDir upDir)) upDir = 0 ∧
      row2 (Gen.Frame.alignZAxisWithTargetDir tmin tmax sqrt targetDir upDir) = nrm (Gen.V3.length tmin tmax sqrt) targetDir := by
  rw [alignZAxisWithTargetDir_axes tmin tmax sqrt hlen targetDir upDir ht hut]
  obtain ⟨h1, h2⟩ := up_component_pos hlen ht hut
  exact ⟨h1, h2, rfl⟩
example : (⟨1, 0, 2⟩ : V3 ℝ) ≠ ⟨0, 0, 0⟩ ∧ cross (⟨0, 1, 0⟩ : V3 ℝ) ⟨1, 0, 2⟩ ≠ ⟨0, 0, 0⟩ := by
  constructor <;> simp [cross]

/-- fallbacks: a zero target is replaced by `+z`, a zero up by `+y` … -/
theorem alignZAxisWithTargetDir_zero_target (tmin tmax : α) (sqrt : α → α) (hlen : LenSpec (Gen.V3.length tmin tmax sqrt)) (upDir : V3 α) :
    Gen.Frame.alignZAxisWithTargetDir tmin tmax sqrt ⟨0, 0, 0⟩ upDir = Gen.Frame.alignZAxisWithTargetDir tmin tmax sqrt ⟨0, 0, 1⟩ upDir := by
  rw [alignZAxisWithTargetDir_spec, alignZAxisWithTargetDir_spec]; exact alignZSpec_zero_target hlen upDir
theorem alignZAxisWithTargetDir_zero_up (tmin tmax : α) (sqrt : α → α) (hlen : LenSpec (Gen.V3.length tmin tmax sqrt)) (targetDir : V3 α) :
    Gen.Frame.alignZAxisWithTargetDir tmin tmax sqrt targetDir ⟨0, 0, 0⟩ = Gen.Frame.alignZAxisWithTargetDir tmin tmax sqrt targetDir ⟨0, 1, 0⟩ := by
  rw [alignZAxisWithTargetDir_spec, alignZAxisWithTargetDir_spec]; exact alignZSpec_zero_up hlen targetDir
/-- the same when `upDir` is zero (documented substitute `+y`), for a target not along `±y` -/
theorem alignZAxisWithTargetDir_up_default (tmin tmax : α) (sqrt : α → α) (hlen : LenSpec (Gen.V3.length tmin tmax sqrt)) (targetDir : V3 α)
    (ht : targetDir ≠ ⟨0, 0, 0⟩) (hut : cross ⟨0, 1, 0⟩ targetDir ≠ ⟨0, 0, 0⟩) :
    0 < dot (row1 (Gen.Frame.alignZAxisWithTargetDir tmin tmax sqrt targetDir ⟨0, 0, 0⟩)) ⟨0, 1, 0⟩ := by
  rw [alignZAxisWithTargetDir_zero_up tmin tmax sqrt hlen]
  exact (alignZAxisWithTargetDir_up tmin tmax sqrt hlen targetDir ⟨0, 1, 0⟩ ht hut).1
/-- … and an up direction exactly parallel to the target by `target × x̂`, or by `target × ẑ` when the target is along x;
the substituted up is never parallel to the target -/
theorem alignZAxisWithTargetDir_parallel (tmin tmax : α) (sqrt : α → α) (hlen : LenSpec (Gen.V3.length tmin tmax sqrt)) (targetDir upDir : V3 α)
    (ht : targetDir ≠ ⟨0, 0, 0⟩) (hu : upDir ≠ ⟨0, 0, 0⟩) (hut : cross upDir targetDir = ⟨0, 0, 0⟩) :
    Gen.Frame.alignZAxisWithTargetDir tmin tmax sqrt targetDir upDir
        = Gen.Frame.alignZAxisWithTargetDir tmin tmax sqrt targetDir
            (if cross targetDir ⟨1, 0, 0⟩ = ⟨0, 0, 0⟩ then cross targetDir ⟨0, 0, 1⟩ else cross targetDir ⟨1, 0, 0⟩) ∧
      cross (if cross targetDir ⟨1, 0, 0⟩ = ⟨0, 0, 0⟩ then cross targetDir ⟨0, 0, 1⟩ else cross targetDir ⟨1, 0, 0⟩) targetDir
        ≠ ⟨0, 0, 0⟩ := by
  have h := alignZSpec_parallel hlen ht hu hut
  have e : azFallbackUp (Gen.V3.length tmin tmax sqrt) targetDir
      = (if cross targetDir ⟨1, 0, 0⟩ = ⟨0, 0, 0⟩ then cross targetDir ⟨0, 0, 1⟩ else cross targetDir ⟨1, 0, 0⟩) := by
    simp only [azFallbackUp, len_eq_zero_iff hlen]
  rw [alignZAxisWithTargetDir_spec, alignZAxisWithTargetDir_spec, ← e]; exact h
example : (⟨0, 0, 2⟩ : V3 ℝ) ≠ ⟨0, 0, 0⟩ ∧ (⟨0, 0, -5⟩ : V3 ℝ) ≠ ⟨0, 0, 0⟩ ∧ cross (⟨0, 0, -5⟩ : V3 ℝ) ⟨0, 0, 2⟩ = ⟨0, 0, 0⟩ := by
  refine ⟨by simp, by simp, by simp [cross]⟩

/-- `rotationMatrixWithUpDir`: identity for a zero `fromDir`, otherwise `alignZ(fromDir, +y)ᵀ · alignZ(toDir, upDir)` -/
theorem rotationMatrixWithUpDir_eq_alignZ (tmin tmax : α) (sqrt : α → α) (fromDir toDir upDir : V3 α) :
    (Gen.Frame.rotationMatrixWithUpDir tmin tmax sqrt fromDir toDir upDir).toMat =
      if Gen.V3.length tmin tmax sqrt fromDir = 0 then 1
      else (Gen.Frame.alignZAxisWithTargetDir tmin tmax sqrt fromDir ⟨0, 1, 0⟩).toMatᵀ
            * (Gen.Frame.alignZAxisWithTargetDir tmin tmax sqrt toDir upDir).toMat := by
  obtain ⟨fx, fy, fz⟩ := fromDir
  obtain ⟨tx, ty, tz⟩ := toDir
  obtain ⟨ux, uy, uz⟩ := upDir
  simp only [Gen.Frame.rotationMatrixWithUpDir]
  split_ifs with h
  · ext i j; fin_cases i <;> fin_cases j <;> simp [M44.toMat]
  · ext i j; fin_cases i <;> fin_cases j <;>
      simp [M44.toMat, Matrix.mul_apply, Fin.sum_univ_four]

/-- for ANY `toDir`, `upDir` (zero and parallel included) and `fromDir ≠ 0`: an orthonormal right-handed frame without
translation that takes the direction of `fromDir` to the direction of `toDir` (`+z` for a zero `toDir`) -/
theorem rotationMatrixWithUpDir_frame (tmin tmax : α) (sqrt : α → α) (hlen : LenSpec (Gen.V3.length tmin tmax sqrt)) (fromDir toDir upDir : V3 α)
    (hf : fromDir ≠ ⟨0, 0, 0⟩) :
    IsFrame (Gen.Frame.rotationMatrixWithUpDir tmin tmax sqrt fromDir toDir upDir) ∧
      row3 (Gen.Frame.rotationMatrixWithUpDir tmin tmax sqrt fromDir toDir upDir) = ⟨0, 0, 0⟩ ∧
      (nrm (Gen.V3.length tmin tmax sqrt) fromDir).toVec ᵥ* rot3 (Gen.Frame.rotationMatrixWithUpDir tmin tmax sqrt fromDir toDir upDir)
        = (nrm (Gen.V3.length tmin tmax sqrt) (if toDir = ⟨0, 0, 0⟩ then ⟨0, 0, 1⟩ else toDir)).toVec := by
  have hA := alignZAxisWithTargetDir_frame tmin tmax sqrt hlen fromDir ⟨0, 1, 0⟩
  have hB := alignZAxisWithTargetDir_frame tmin tmax sqrt hlen toDir upDir
  have hl : Gen.V3.length tmin tmax sqrt fromDir ≠ 0 := len_ne_zero hlen hf
  have e := rotationMatrixWithUpDir_eq_alignZ tmin tmax sqrt fromDir toDir upDir
  rw [if_neg hl] at e
  obtain ⟨hF, h3, hr⟩ := isFrame_transpose_mul hA.1 hA.2.1 hB.1 hB.2.1 e
  refine ⟨hF, h3, ?_⟩
  rw [hr, ← Matrix.vecMul_vecMul]
  have hrow : (nrm (Gen.V3.length tmin tmax sqrt) fromDir).toVec
      = fun j => rot3 (Gen.Frame.alignZAxisWithTargetDir tmin tmax sqrt fromDir ⟨0, 1, 0⟩) 2 j := by
    have := hA.2.2
    rw [if_neg hf] at this
    rw [← this]
    ext j; fin_cases j <;> simp [V3.toVec, row2, rot3]
  rw [hrow, vecMul_transpose_row2 hA.1.1, ← hB.2.2]
  ext j; fin_cases j <;> simp [V3.toVec, row2, rot3, Matrix.vecMul, dotProduct, Fin.sum_univ_three]
/-- WHAT the rotation is, row by row: `rotationMatrixWithUpDir (from, to, up)` takes the whole frame `alignZ (from, +y)` (z-row `from^`,
y-row "world up seen perpendicular to `from`") onto the frame `alignZ (to, up)` (z-row `to^`, y-row towards `up`) — for ANY `toDir`,
`upDir` (fallbacks included) and `fromDir ≠ 0` -/
theorem rotationMatrixWithUpDir_frames (tmin tmax : α) (sqrt : α → α) (hlen : LenSpec (Gen.V3.length tmin tmax sqrt)) (fromDir toDir upDir : V3 α)
    (hf : fromDir ≠ ⟨0, 0, 0⟩) :
    rot3 (Gen.Frame.alignZAxisWithTargetDir tmin tmax sqrt fromDir ⟨0, 1, 0⟩) * rot3 (Gen.Frame.rotationMatrixWithUpDir tmin tmax sqrt fromDir toDir upDir)
      = rot3 (Gen.Frame.alignZAxisWithTargetDir tmin tmax sqrt toDir upDir) := by
  have hA := alignZAxisWithTargetDir_frame tmin tmax sqrt hlen fromDir ⟨0, 1, 0⟩
  have hB := alignZAxisWithTargetDir_frame tmin tmax sqrt hlen toDir upDir
  have hl : Gen.V3.length tmin tmax sqrt fromDir ≠ 0 := len_ne_zero hlen hf
  have e := rotationMatrixWithUpDir_eq_alignZ tmin tmax sqrt fromDir toDir upDir
  rw [if_neg hl] at e
  obtain ⟨_, _, hr⟩ := isFrame_transpose_mul hA.1 hA.2.1 hB.1 hB.2.1 e
  rw [hr]; exact rot_mul_transpose_mul hA.1.1
/-- the up-direction clause: the from-frame's up axis (y-row of `alignZ (from, +y)`) is sent to a unit vector with a strictly POSITIVE
component along `upDir` and perpendicular to `to` (namely the y-row of `alignZ (to, up)`), whenever `toDir ≠ 0` and `upDir ∦ toDir` -/
theorem rotationMatrixWithUpDir_up (tmin tmax : α) (sqrt : α → α) (hlen : LenSpec (Gen.V3.length tmin tmax sqrt)) (fromDir toDir upDir : V3 α)
    (hf : fromDir ≠ ⟨0, 0, 0⟩) (ht : toDir ≠ ⟨0, 0, 0⟩) (hut : cross upDir toDir ≠ ⟨0, 0, 0⟩) :
    (row1 (Gen.Frame.alignZAxisWithTargetDir tmin tmax sqrt fromDir ⟨0, 1, 0⟩)).toVec
        ᵥ* rot3 (Gen.Frame.rotationMatrixWithUpDir tmin tmax sqrt fromDir toDir upDir)
      = (row1 (Gen.Frame.alignZAxisWithTargetDir tmin tmax sqrt toDir upDir)).toVec ∧
    0 < dot (row1 (Gen.Frame.alignZAxisWithTargetDir tmin tmax sqrt toDir upDir)) upDir := by
  refine ⟨?_, (alignZAxisWithTargetDir_up tmin tmax sqrt hlen toDir upDir ht hut).1⟩
  rw [row1_toVec, row_vecMul, rotationMatrixWithUpDir_frames tmin tmax sqrt hlen fromDir toDir upDir hf, row1_toVec]
example : (⟨1, 0, 0⟩ : V3 ℝ) ≠ ⟨0, 0, 0⟩ ∧ (⟨1, 0, 2⟩ : V3 ℝ) ≠ ⟨0, 0, 0⟩ ∧ cross (⟨0, 1, 0⟩ : V3 ℝ) ⟨1, 0, 2⟩ ≠ ⟨0, 0, 0⟩ := by
  refine ⟨by simp, by simp, by simp [cross]⟩
/-- a zero `fromDir` gives the identity -/
theorem rotationMatrixWithUpDir_zero_from (tmin tmax : α) (sqrt : α → α) (hlen : LenSpec (Gen.V3.length tmin tmax sqrt)) (toDir upDir : V3 α) :
    (Gen.Frame.rotationMatrixWithUpDir tmin tmax sqrt ⟨0, 0, 0⟩ toDir upDir).toMat = 1 := by
  rw [rotationMatrixWithUpDir_eq_alignZ, if_pos ((len_eq_zero_iff hlen _).mpr rfl)]

end Frames

end ImathVerif.C09
