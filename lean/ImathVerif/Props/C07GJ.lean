import ImathVerif.Lemmas.C07Lemmas
import ImathVerif.Gen.C07GJ
import ImathVerif.Lemmas.C07GJLink
import ImathVerif.Props.C06
/-!
# C07 — Matrix33::gjInverse () / gjInverse (false) / gjInverse (true), gjInvert likewise

The three Gauss-Jordan bodies are separate textual copies of ~90 lines (1,312 paths each, completely enumerated).
The pair theorems compare the regenerated trees leaf by leaf (`unexc` / `errIs` pushed through the `if`s), so an edit
to ONE copy (a pivot test, a swapped index, a dropped `singExc` test) breaks them.  The 4×4 members have far too many
paths; they are decided by correspondence (harness `c07_pairs`), and enter `Props/C07.lean` as parameters.

Second half (audit W6 / C06-S4): `Lemmas/C07GJLink.lean` proves that the extracted checked form IS the Gauss-Jordan hand model of
C06 at `n = 3` (leaf by leaf over the 1,312 paths).  With C06's correctness theorems this gives the failure equivalence in BOTH
directions (`M33_gjInverse_failure`), the exact characterisation "throws ⇔ det = 0" and "returns ⇒ two-sided inverse" for the
EXTRACTED trees.  `==` of the model is any lawful `BEq` (`[BEq α] [LawfulBEq α]`, as in C06); every ordered field has one.
-/
set_option linter.unusedSectionVars false
set_option linter.unusedVariables false
set_option linter.unusedSimpArgs false
set_option maxRecDepth 4000
namespace ImathVerif.C07
open ImathVerif

variable {α : Type} [Field α] [LinearOrder α] [IsStrictOrderedRing α]

/-- identity matrix (what the unchecked form returns for a singular matrix) -/
def M33.id (α : Type) [OfNat α 0] [OfNat α 1] : M33 α := ⟨1, 0, 0, 0, 1, 0, 0, 0, 1⟩

/-- `gjInverse (true)` seen through `unexc`: its value when it returns, the identity when it throws, is `gjInverse ()` -/
theorem M33_gjInverseT_unexc (a : M33 α) :
    unexc (M33.id α) (Gen.C07.M33.gjInverseT a) = Gen.C07.M33.gjInverse0 a := by
  unfold M33.id
  simp only [Gen.C07.M33.gjInverseT, Gen.C07.M33.gjInverse0, apply_ite (unexc _), unexc_ok, unexc_error]

theorem M33_gjInverseT_kind (a : M33 α) : errIs Exc.invalidArgument (Gen.C07.M33.gjInverseT a) = true := by
  simp only [Gen.C07.M33.gjInverseT, apply_ite (errIs _), errIs_ok, errIs_error, decide_true, ite_self]

/-- the checked form returns ⇒ the unchecked form returns the same matrix -/
theorem M33_gjInverseT_ok (a y : M33 α) (h : Gen.C07.M33.gjInverseT a = .ok y) : Gen.C07.M33.gjInverse0 a = y :=
  unexc_ok_imp (M33_gjInverseT_unexc a) y h

/-- the checked form throws only `std::invalid_argument`, and then the unchecked form returns the identity -/
theorem M33_gjInverseT_error (a : M33 α) (k : Exc) (h : Gen.C07.M33.gjInverseT a = .error k) :
    k = Exc.invalidArgument ∧ Gen.C07.M33.gjInverse0 a = M33.id α :=
  ⟨errIs_imp (M33_gjInverseT_kind a) k h, unexc_error_imp (M33_gjInverseT_unexc a) k h⟩

/-- the duplicated bodies are the same function -/
theorem M33_gjInverseF_eq (a : M33 α) : Gen.C07.M33.gjInverseF a = Gen.C07.M33.gjInverse0 a := by
  simp only [Gen.C07.M33.gjInverseF, Gen.C07.M33.gjInverse0]

/-- the in-place forms equal the value forms -/
theorem M33_gjInvert_eq (a : M33 α) :
    Gen.C07.M33.gjInvert0 a = Gen.C07.M33.gjInverse0 a ∧ Gen.C07.M33.gjInvertF a = Gen.C07.M33.gjInverseF a ∧
    Gen.C07.M33.gjInvertT a = Gen.C07.M33.gjInverseT a := by
  refine ⟨?_, ?_, ?_⟩
  · simp only [Gen.C07.M33.gjInvert0, Gen.C07.M33.gjInverse0]
  · simp only [Gen.C07.M33.gjInvertF, Gen.C07.M33.gjInverseF]
  · simp only [Gen.C07.M33.gjInvertT, Gen.C07.M33.gjInverseT]

/-! ## the extracted trees are the C06 model: determinant characterisation and the converse of the failure equivalence -/

section model
variable [BEq α] [LawfulBEq α]
open Matrix

/-- the extracted `gjInverse (true)` is the hand model `M33.gjInverseExc` (Model/GaussJordan.lean at `n = 3`) -/
theorem M33_gjInverseT_eq_model (a : M33 α) : Gen.C07.M33.gjInverseT a = M33.gjInverseExc a :=
  C07GJLink.M33_gjInverseT_eq_model a

/-- ... and so is the unchecked copy: `gjInverse ()` is `M33.gjInverse` -/
theorem M33_gjInverse0_eq_model (a : M33 α) : Gen.C07.M33.gjInverse0 a = M33.gjInverse a := by
  rw [← M33_gjInverseT_unexc, M33_gjInverseT_eq_model]
  unfold M33.gjInverseExc M33.gjInverse M33.id
  cases GJ.gjCore a.toGJ <;> rfl

/-- `gjInverse (true)` throws (`std::invalid_argument`) exactly for a singular matrix (Mathlib's determinant) -/
theorem M33_gjInverseT_error_iff (a : M33 α) (k : Exc) :
    Gen.C07.M33.gjInverseT a = .error k ↔ (k = Exc.invalidArgument ∧ a.toMat.det = 0) := by
  rw [M33_gjInverseT_eq_model]
  by_cases hd : a.toMat.det = 0
  · rw [(C06.M33_gjInverseExc_spec a).1 hd]
    constructor
    · intro h; cases h; exact ⟨rfl, hd⟩
    · rintro ⟨rfl, _⟩; rfl
  · rw [(C06.M33_gjInverseExc_spec a).2 hd]
    constructor
    · intro h; cases h
    · rintro ⟨_, h0⟩; exact absurd h0 hd

/-- when it returns, the result is a two-sided inverse -/
theorem M33_gjInverseT_ok_mul (a y : M33 α) (h : Gen.C07.M33.gjInverseT a = .ok y) :
    y.toMat * a.toMat = 1 ∧ a.toMat * y.toMat = 1 := by
  rw [M33_gjInverseT_eq_model] at h
  by_cases hd : a.toMat.det = 0
  · rw [(C06.M33_gjInverseExc_spec a).1 hd] at h; cases h
  · rw [(C06.M33_gjInverseExc_spec a).2 hd] at h
    cases h
    exact C06.M33_gjInverse_spec a hd

theorem M33_id_toMat : (M33.id α).toMat = 1 := by
  ext i j; fin_cases i <;> fin_cases j <;> simp [M33.id, M33.toMat]

theorem M33_eq_id_of_toMat (a : M33 α) (h : a.toMat = 1) : a = M33.id α := by
  have e := fun i j => congrFun (congrFun h i) j
  have e00 := e 0 0; have e01 := e 0 1; have e02 := e 0 2
  have e10 := e 1 0; have e11 := e 1 1; have e12 := e 1 2
  have e20 := e 2 0; have e21 := e 2 1; have e22 := e 2 2
  simp [M33.toMat] at e00 e01 e02 e10 e11 e12 e20 e21 e22
  have ea : a = ⟨a.x00, a.x01, a.x02, a.x10, a.x11, a.x12, a.x20, a.x21, a.x22⟩ := rfl
  rw [ea]
  simp only [M33.id, M33.mk.injEq]
  exact ⟨e00, e01, e02, e10, e11, e12, e20, e21, e22⟩

/-- FULL STRENGTH, both directions (audit W6): `Matrix33::gjInverse (true)` throws exactly when `gjInverse ()` reports failure,
i.e. returns the identity for a matrix that is not the identity -/
theorem M33_gjInverse_failure (a : M33 α) :
    Gen.C07.M33.gjInverseT a = .error Exc.invalidArgument ↔ (Gen.C07.M33.gjInverse0 a = M33.id α ∧ a ≠ M33.id α) := by
  constructor
  · intro h
    refine ⟨(M33_gjInverseT_error a _ h).2, ?_⟩
    rintro rfl
    have hd := ((M33_gjInverseT_error_iff _ _).mp h).2
    rw [M33_id_toMat, det_one] at hd
    exact one_ne_zero hd
  · rintro ⟨h1, hne⟩
    cases hT : Gen.C07.M33.gjInverseT a with
    | error k => rw [(M33_gjInverseT_error a k hT).1]
    | ok y =>
      exfalso
      have hy : y = M33.id α := by rw [← h1]; exact (M33_gjInverseT_ok a y hT).symm
      have hm := (M33_gjInverseT_ok_mul a y hT).1
      rw [hy, M33_id_toMat, one_mul] at hm
      exact hne (M33_eq_id_of_toMat a hm)

/-- the same for the other copies: `gjInverse (false)` and the in-place `gjInvert` forms -/
theorem M33_gjInverse_failure_copies (a : M33 α) :
    (Gen.C07.M33.gjInverseT a = .error Exc.invalidArgument ↔ (Gen.C07.M33.gjInverseF a = M33.id α ∧ a ≠ M33.id α)) ∧
    (Gen.C07.M33.gjInvertT a = .error Exc.invalidArgument ↔ (Gen.C07.M33.gjInvert0 a = M33.id α ∧ a ≠ M33.id α)) ∧
    (Gen.C07.M33.gjInvertT a = .error Exc.invalidArgument ↔ (Gen.C07.M33.gjInvertF a = M33.id α ∧ a ≠ M33.id α)) := by
  obtain ⟨h0, hF, hT⟩ := M33_gjInvert_eq a
  rw [M33_gjInverseF_eq, h0, hF, hT, M33_gjInverseF_eq]
  exact ⟨M33_gjInverse_failure a, M33_gjInverse_failure a, M33_gjInverse_failure a⟩

/-- well-conditioned input never throws: any non-singular matrix -/
theorem M33_gjInverseT_never (a : M33 α) (h : a.toMat.det ≠ 0) :
    Gen.C07.M33.gjInverseT a = .ok (Gen.C07.M33.gjInverse0 a) := by
  cases hT : Gen.C07.M33.gjInverseT a with
  | error k => exact absurd ((M33_gjInverseT_error_iff a k).mp hT).2 h
  | ok y => rw [M33_gjInverseT_ok a y hT]

example : (⟨2, 1, 0, 1, 1, 0, 0, 0, 3⟩ : M33 ℚ).toMat.det ≠ 0 := by
  rw [det_fin_three]; simp [M33.toMat]; norm_num

end model

/-- both outcomes are reachable: a zero first column makes the first pivot search fail; the identity is inverted -/
example : Gen.C07.M33.gjInverseT (⟨0, 1, 2, 0, 3, 4, 0, 5, 6⟩ : M33 ℚ) = .error Exc.invalidArgument := by
  simp [Gen.C07.M33.gjInverseT]
example : Gen.C07.M33.gjInverseT (⟨2, 0, 0, 0, 1, 0, 0, 0, 1⟩ : M33 ℚ) = .ok ⟨1 / 2, 0, 0, 0, 1, 0, 0, 0, 1⟩ := by
  norm_num [Gen.C07.M33.gjInverseT]

end ImathVerif.C07
