import ImathVerif.Lemmas.C07Lemmas
import ImathVerif.Gen.C07GJ
/-!
# C07 — Matrix33::gjInverse () / gjInverse (false) / gjInverse (true), gjInvert likewise

The three Gauss-Jordan bodies are separate textual copies of ~90 lines (1,312 paths each, completely enumerated).
The pair theorems compare the regenerated trees leaf by leaf (`unexc` / `errIs` pushed through the `if`s), so an edit
to ONE copy (a pivot test, a swapped index, a dropped `singExc` test) breaks them.  The 4×4 members have far too many
paths; they are decided by correspondence (harness `c07_pairs`), and enter `Props/C07.lean` as parameters.
-/
set_option linter.unusedSectionVars false
set_option linter.unusedVariables false
set_option linter.unusedSimpArgs false
set_option maxRecDepth 4000
namespace ImathVerif.C07
open ImathVerif

variable {α : Type} [Field α] [LinearOrder α] [IsStrictOrderedRing α]

/-- identity matrix (what the unchecked form returns for a singular matrix) -/
def M33.id (α : Type) [OfNat α 0] [OfNat α 1] : M33 α := ⟨1, 0, 0, 0, 1, 0, 0, 0, 1⟩

/-- `gjInverse (true)` seen through `unexc`: its value when it returns, the identity when it throws, is `gjInverse ()` -/
theorem M33_gjInverseT_unexc (a : M33 α) :
    unexc (M33.id α) (Gen.C07.M33.gjInverseT a) = Gen.C07.M33.gjInverse0 a := by
  unfold M33.id
  simp only [Gen.C07.M33.gjInverseT, Gen.C07.M33.gjInverse0, apply_ite (unexc _), unexc_ok, unexc_error]

theorem M33_gjInverseT_kind (a : M33 α) : errIs Exc.invalidArgument (Gen.C07.M33.gjInverseT a) = true := by
  simp only [Gen.C07.M33.gjInverseT, apply_ite (errIs _), errIs_ok, errIs_error, decide_true, ite_self]

/-- the checked form returns ⇒ the unchecked form returns the same matrix -/
theorem M33_gjInverseT_ok (a y : M33 α) (h : Gen.C07.M33.gjInverseT a = .ok y) : Gen.C07.M33.gjInverse0 a = y :=
  unexc_ok_imp (M33_gjInverseT_unexc a) y h

/-- the checked form throws only `std::invalid_argument`, and then the unchecked form returns the identity -/
theorem M33_gjInverseT_error (a : M33 α) (k : Exc) (h : Gen.C07.M33.gjInverseT a = .error k) :
    k = Exc.invalidArgument ∧ Gen.C07.M33.gjInverse0 a = M33.id α :=
  ⟨errIs_imp (M33_gjInverseT_kind a) k h, unexc_error_imp (M33_gjInverseT_unexc a) k h⟩

/-- the duplicated bodies are the same function -/
theorem M33_gjInverseF_eq (a : M33 α) : Gen.C07.M33.gjInverseF a = Gen.C07.M33.gjInverse0 a := by
  simp only [Gen.C07.M33.gjInverseF, Gen.C07.M33.gjInverse0]

/-- the in-place forms equal the value forms -/
theorem M33_gjInvert_eq (a : M33 α) :
    Gen.C07.M33.gjInvert0 a = Gen.C07.M33.gjInverse0 a ∧ Gen.C07.M33.gjInvertF a = Gen.C07.M33.gjInverseF a ∧
    Gen.C07.M33.gjInvertT a = Gen.C07.M33.gjInverseT a := by
  refine ⟨?_, ?_, ?_⟩
  · simp only [Gen.C07.M33.gjInvert0, Gen.C07.M33.gjInverse0]
  · simp only [Gen.C07.M33.gjInvertF, Gen.C07.M33.gjInverseF]
  · simp only [Gen.C07.M33.gjInvertT, Gen.C07.M33.gjInverseT]

/-- both outcomes are reachable: a zero first column makes the first pivot search fail; the identity is inverted -/
example : Gen.C07.M33.gjInverseT (⟨0, 1, 2, 0, 3, 4, 0, 5, 6⟩ : M33 ℚ) = .error Exc.invalidArgument := by
  simp [Gen.C07.M33.gjInverseT]
example : Gen.C07.M33.gjInverseT (⟨2, 0, 0, 0, 1, 0, 0, 0, 1⟩ : M33 ℚ) = .ok ⟨1 / 2, 0, 0, 0, 1, 0, 0, 0, 1⟩ := by
  norm_num [Gen.C07.M33.gjInverseT]

end ImathVerif.C07
