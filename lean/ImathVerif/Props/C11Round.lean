import ImathVerif.Props.C11
import ImathVerif.Lemmas.C11Round
/-!
# C11, the property's direction of the round trip: `toMatrix33 (extract M) = M` for EVERY rotation matrix

`Props/C11.lean` §8 proves `extract (toMatrix33 a) = a` on the OPEN principal box of each order.  The property asks
for the other composition, quantified over all rotation matrices and explicitly "including at gimbal lock".  This
file proves it for ALL 24 orders, with no non-degeneracy hypothesis, over any ordered field with `sqrt`, `sin`,
`cos`, `atan2` satisfying `SqrtOK` / `TrigSpec` (nothing is asked of `atan2 (0, 0)`); `Real.sqrt/sin/cos` and
`atan2R y x = arg (x + iy)` satisfy them (`trigSpec_real`).

Method (Lemmas/C11Round.lean): each extracted `Euler::extract (Matrix33)` IS one of two core functions applied to
the matrix with rows/columns relabelled by the order's decoded axes, followed by the sign (parity) and x↔z swap
(rotating frame) of the code (`exM33_eq_core`); each extracted `toMatrix33` of such a triple IS the core builder,
relabelled back (`toM33_eq_core`); both by `cases o` on the REGENERATED definitions.  The core round trips are the
algorithm's own argument ("remove the first rotation so that gimbal lock cannot occur").

Consequences: the round trip through 4×4 matrices and (unit) quaternions, surjectivity of `toMatrix33` onto the
rotation matrices for every order, and that the re-ordering constructor PRESERVES THE ROTATION (`reorder_any_pair`: all 576 pairs
for the composition `extract_n ∘ toMatrix33_o`; the extracted constructor on 50 pairs).
-/
set_option autoImplicit false
set_option linter.unusedTactic false
set_option linter.unreachableTactic false
set_option linter.unusedSimpArgs false
set_option linter.unusedSectionVars false
namespace ImathVerif.C11
open ImathVerif ImathVerif.Euler Matrix

variable {α : Type} [Field α] [LinearOrder α] [IsStrictOrderedRing α]

/-- what the code does to the three extracted angles at the end of `extract`: `*this *= -1` for parity-odd orders,
    then `x ↔ z` for rotating frames -/
def post (o : Ord) (v : V3 α) : V3 α :=
  let w : V3 α := if o.even then v else ⟨-v.x, -v.y, -v.z⟩
  if o.static then w else ⟨w.z, w.y, w.x⟩

def coreEx (rep : Bool) (sqrt sin cos : α → α) (atan2 : α → α → α) (m : M33 α) : V3 α :=
  if rep then coreExR sqrt sin cos atan2 m else coreExNR sqrt sin cos atan2 m

def coreM (rep : Bool) (si ci sj cj sh ch : α) : M33 α :=
  if rep then coreMR si ci sj cj sh ch else coreMNR si ci sj cj sh ch

macro "permtabs" : tactic => `(tactic| simp only [post, coreEx, coreM, coreExNR, coreExR, coreMNR, coreMR, permM, unpermM, ent, M33.toMat,
  Ord.sig_table, Ord.sigInv_table, Ord.i_table, Ord.j_table, Ord.k_table, Ord.static_table, Ord.even_table, Ord.repeated_table,
  if_true, if_false, Bool.false_eq_true, Matrix.of_apply, Matrix.cons_val', Matrix.cons_val_zero, Matrix.cons_val_one,
  Matrix.cons_val_two, Matrix.empty_val', Matrix.cons_val_fin_one, Matrix.head_cons, Matrix.tail_cons, Matrix.head_fin_const])

set_option maxHeartbeats 8000000 in
/-- every extracted `Euler::extract (Matrix33)` is the core extraction on the relabelled matrix, then sign and swap -/
theorem exM33_eq_core (o : Ord) {sqrt sin cos : α → α} {atan2 : α → α → α} (ht : TrigSpec sin cos atan2) (m : M33 α) :
    exM33 o sqrt sin cos atan2 m = post o (coreEx o.repeated sqrt sin cos atan2 (permM o m)) := by
  obtain ⟨a, b, c, d, e, f, g, h, i⟩ := m
  cases o <;>
  (unfold_exM33
   permtabs
   simp only [ht.sin_zero, ht.cos_zero, ht.sin_neg, ht.cos_neg, mul_zero, zero_mul, mul_one, one_mul, add_zero, zero_add,
     neg_zero, mul_neg, neg_mul, neg_neg]
   try ring_nf)

set_option maxHeartbeats 8000000 in
/-- every extracted `toMatrix33`, on a triple that went through the code's sign / swap, is the core builder relabelled back -/
theorem toM33_eq_core (o : Ord) (sin cos : α → α) (v : V3 α) :
    toM33 o sin cos (post o v) =
      unpermM o (coreM o.repeated (sin v.x) (cos v.x) (sin v.y) (cos v.y) (sin v.z) (cos v.z)) := by
  obtain ⟨x, y, z⟩ := v
  cases o <;>
  (unfold_toM33
   permtabs
   try simp only [mul_neg, neg_mul, mul_one, neg_neg]
   try (apply M33.ext' <;> ring))

/-! ## The round trip, every rotation matrix, all 24 orders -/

/-- `toMatrix33 (extract M) = M` for EVERY rotation matrix `M` and each of the 24 orders — gimbal lock included
    (no hypothesis excludes `cos y = 0`, resp. `sin y = 0` for the repeated-axis orders) -/
theorem toMatrix33_extract (o : Ord) {sqrt sin cos : α → α} {atan2 : α → α → α} (hs : SqrtOK sqrt) (ht : TrigSpec sin cos atan2)
    (M : M33 α) (ho : M.toMat * M.toMatᵀ = 1) (hd : M.toMat.det = 1) :
    toM33 o sin cos (exM33 o sqrt sin cos atan2 M) = M := by
  rw [exM33_eq_core o ht, toM33_eq_core o sin cos]
  have hr := IsRot.of_toMat (permM_rot o M ho hd).1 (permM_rot o M ho hd).2
  have hc : coreM o.repeated (sin (coreEx o.repeated sqrt sin cos atan2 (permM o M)).x) (cos (coreEx o.repeated sqrt sin cos atan2 (permM o M)).x)
      (sin (coreEx o.repeated sqrt sin cos atan2 (permM o M)).y) (cos (coreEx o.repeated sqrt sin cos atan2 (permM o M)).y)
      (sin (coreEx o.repeated sqrt sin cos atan2 (permM o M)).z) (cos (coreEx o.repeated sqrt sin cos atan2 (permM o M)).z) = permM o M := by
    cases h : o.repeated <;> simp only [coreM, coreEx, if_true, if_false, Bool.false_eq_true]
    · exact core_NR hs ht _ hr
    · exact core_R hs ht _ hr
  rw [hc, unpermM_permM]

/-- the same through 4×4 matrices: `toMatrix44 (extract M)` is the rotation block of `M` in the identity -/
theorem toMatrix44_extract (o : Ord) {sqrt sin cos : α → α} {atan2 : α → α → α} (hs : SqrtOK sqrt) (ht : TrigSpec sin cos atan2)
    (M : M44 α) (ho : (upper33 M).toMat * (upper33 M).toMatᵀ = 1) (hd : (upper33 M).toMat.det = 1) :
    toM44 o sin cos (exM44 o sqrt sin cos atan2 M) = embed33 (upper33 M) := by
  rw [toMatrix44_eq_embed_toMatrix33, extract_M44_eq_extract_M33, toMatrix33_extract o hs ht _ ho hd]

theorem quatHom_orthonormal {β : Type} [CommRing β] (q : Quat β) :
    quatHom q * (quatHom q)ᵀ = (qnorm2 q * qnorm2 q) • (1 : Matrix (Fin 3) (Fin 3) β) ∧ (quatHom q).det = qnorm2 q * qnorm2 q * qnorm2 q := by
  constructor
  · ext i j
    fin_cases i <;> fin_cases j <;>
      simp [quatHom, qnorm2, Matrix.mul_apply, Fin.sum_univ_three, Matrix.one_apply] <;> ring
  · simp [quatHom, qnorm2, Matrix.det_fin_three]; ring

/-- `Quat::toMatrix33` of a unit quaternion is a rotation matrix -/
theorem Quat_toMatrix33_rotation (q : Quat α) (hq : qnorm2 q = 1) :
    (Gen.Euler.Quat_toMatrix33 q).toMat * (Gen.Euler.Quat_toMatrix33 q).toMatᵀ = 1 ∧ (Gen.Euler.Quat_toMatrix33 q).toMat.det = 1 := by
  rw [Quat_toMatrix33_eq_hom q hq, (quatHom_orthonormal q).1, (quatHom_orthonormal q).2, hq]
  simp

/-- … and through quaternions: the angles extracted from a UNIT quaternion rebuild its rotation matrix -/
theorem toMatrix33_extract_quat (o : Ord) {sqrt sin cos : α → α} {atan2 : α → α → α} (hs : SqrtOK sqrt) (ht : TrigSpec sin cos atan2)
    (q : Quat α) (hq : qnorm2 q = 1) :
    toM33 o sin cos (exQuat o sqrt sin cos atan2 q) = Gen.Euler.Quat_toMatrix33 q := by
  rw [extract_Quat_eq]
  exact toMatrix33_extract o hs ht _ (Quat_toMatrix33_rotation q hq).1 (Quat_toMatrix33_rotation q hq).2

theorem trig_hsc {sin cos : α → α} {atan2 : α → α → α} (ht : TrigSpec sin cos atan2) : ∀ x, sin x ^ 2 + cos x ^ 2 = 1 := by
  intro x; rw [pow_two, pow_two]; exact ht.sq x

/-- for ANY angle triple (any number of periods, at gimbal lock or not): extracting the angles of `toMatrix33 a` and
    converting back reproduces the rotation (the angles themselves are reproduced only on the principal box:
    `extract_inverts_toMatrix33_partial`) -/
theorem toMatrix33_extract_toMatrix33 (o : Ord) {sqrt sin cos : α → α} {atan2 : α → α → α} (hs : SqrtOK sqrt) (ht : TrigSpec sin cos atan2)
    (a : V3 α) : toM33 o sin cos (exM33 o sqrt sin cos atan2 (toM33 o sin cos a)) = toM33 o sin cos a :=
  toMatrix33_extract o hs ht _ (toMatrix33_orthonormal_det_one o sin cos a (trig_hsc ht)).1 (toMatrix33_orthonormal_det_one o sin cos a (trig_hsc ht)).2.2

/-- surjectivity (listed as missing in Props/C11.lean §8): EVERY rotation matrix is `toMatrix33 a` for some triple, in each order -/
theorem toMatrix33_surjective (o : Ord) {sqrt sin cos : α → α} {atan2 : α → α → α} (hs : SqrtOK sqrt) (ht : TrigSpec sin cos atan2)
    (M : M33 α) (ho : M.toMat * M.toMatᵀ = 1) (hd : M.toMat.det = 1) : ∃ a : V3 α, toM33 o sin cos a = M :=
  ⟨_, toMatrix33_extract o hs ht M ho hd⟩

/-! ## The re-ordering constructor preserves the rotation -/

/-- `Euler (e, newOrder)` represents the same rotation as `e`, in the new order: from XYZ to each of the 24 orders and
    from each of the 24 orders to ZYXr (the constructor's body does not depend on either order: `reorder_ctor_eq`);
    any angle triple, gimbal lock included -/
theorem reorder_preserves_rotation (o : Ord) {sqrt sin cos : α → α} {atan2 : α → α → α} (hs : SqrtOK sqrt) (ht : TrigSpec sin cos atan2)
    (a : V3 α) :
    (toM33 o sin cos (reorderFromXYZ o sqrt sin cos atan2 a).1 = toM33 .XYZ sin cos a
      ∧ (reorderFromXYZ o sqrt sin cos atan2 a).2 = (o.code : Int))
    ∧ (toM33 .ZYXr sin cos (reorderToZYXr o sqrt sin cos atan2 a).1 = toM33 o sin cos a
      ∧ (reorderToZYXr o sqrt sin cos atan2 a).2 = (Ord.ZYXr.code : Int)) := by
  rw [(reorder_ctor_eq o sqrt sin cos atan2 a).1, (reorder_ctor_eq o sqrt sin cos atan2 a).2]
  refine ⟨⟨?_, rfl⟩, ⟨?_, rfl⟩⟩
  · exact toMatrix33_extract o hs ht _ (toMatrix33_orthonormal_det_one .XYZ sin cos a (trig_hsc ht)).1 (toMatrix33_orthonormal_det_one .XYZ sin cos a (trig_hsc ht)).2.2
  · exact toMatrix33_extract .ZYXr hs ht _ (toMatrix33_orthonormal_det_one o sin cos a (trig_hsc ht)).1 (toMatrix33_orthonormal_det_one o sin cos a (trig_hsc ht)).2.2

/-- the general fact behind it, for EVERY pair of orders (576 pairs): converting the angles of any triple of order `o` to order `n`
    by `extract_n ∘ toMatrix33_o` — which is what the constructor's order-agnostic body does (`reorder_ctor_eq`, witnessed by
    extraction for XYZ → n, o → ZYXr and YXYr → XZX) — gives a triple of order `n` with the same rotation matrix -/
theorem reorder_any_pair (o n : Ord) {sqrt sin cos : α → α} {atan2 : α → α → α} (hs : SqrtOK sqrt) (ht : TrigSpec sin cos atan2) (a : V3 α) :
    toM33 n sin cos (exM33 n sqrt sin cos atan2 (toM33 o sin cos a)) = toM33 o sin cos a :=
  toMatrix33_extract n hs ht _ (toMatrix33_orthonormal_det_one o sin cos a (trig_hsc ht)).1 (toMatrix33_orthonormal_det_one o sin cos a (trig_hsc ht)).2.2

/-- the two additionally extracted pairs preserve the rotation and set the new order -/
theorem reorder_other_pairs_preserve_rotation {sqrt sin cos : α → α} {atan2 : α → α → α} (hs : SqrtOK sqrt) (ht : TrigSpec sin cos atan2) (a : V3 α) :
    (toM33 .XZX sin cos (Gen.Euler.reorder_YXYr_XZX sqrt sin cos atan2 a).1 = toM33 .YXYr sin cos a
      ∧ (Gen.Euler.reorder_YXYr_XZX sqrt sin cos atan2 a).2 = (Ord.XZX.code : Int))
    ∧ (toM33 .YZXr sin cos (Gen.Euler.reorder_ZXY_YZXr sqrt sin cos atan2 a).1 = toM33 .ZXY sin cos a
      ∧ (Gen.Euler.reorder_ZXY_YZXr sqrt sin cos atan2 a).2 = (Ord.YZXr.code : Int)) := by
  rw [(reorder_ctor_eq_other_pairs sqrt sin cos atan2 a).1, (reorder_ctor_eq_other_pairs sqrt sin cos atan2 a).2]
  exact ⟨⟨reorder_any_pair .YXYr .XZX hs ht a, rfl⟩, ⟨reorder_any_pair .ZXY .YZXr hs ht a, rfl⟩⟩

/-- the matrix constructors: `Euler (M, order).toMatrix33 () = M` for every rotation matrix -/
theorem ctor_matrix_roundtrip (o : Ord) {sqrt sin cos : α → α} {atan2 : α → α → α} (hs : SqrtOK sqrt) (ht : TrigSpec sin cos atan2)
    (M : M33 α) (ho : M.toMat * M.toMatᵀ = 1) (hd : M.toMat.det = 1) :
    toM33 o sin cos (ctorM33 o sqrt sin cos atan2 M).1 = M ∧ (ctorM33 o sqrt sin cos atan2 M).2 = (o.code : Int) := by
  rw [(ctor_matrix_eq_extract o sqrt sin cos atan2 M (embed33 M)).1]
  exact ⟨toMatrix33_extract o hs ht M ho hd, rfl⟩

/-! ## The real functions; non-vacuity -/

theorem sqrtOK_real : SqrtOK Real.sqrt := real_hsqrt

/-- `Real.sin`, `Real.cos` and `atan2R y x = arg (x + iy)` satisfy `TrigSpec` -/
theorem trigSpec_real : TrigSpec Real.sin Real.cos atan2R where
  sin_zero := Real.sin_zero
  cos_zero := Real.cos_zero
  sin_neg := Real.sin_neg
  cos_neg := Real.cos_neg
  sq t := by have := Real.sin_sq_add_cos_sq t; nlinarith
  atan2_spec x y r hr h := by
    have hn2 : ‖(⟨x, y⟩ : ℂ)‖ ^ 2 = r ^ 2 := by
      rw [Complex.sq_norm, Complex.normSq_apply]; linarith
    have hn : ‖(⟨x, y⟩ : ℂ)‖ = r := by
      have h0 := norm_nonneg (⟨x, y⟩ : ℂ)
      nlinarith [hn2, h0]
    have hz : (⟨x, y⟩ : ℂ) ≠ 0 := by
      intro hz; rw [hz] at hn; simp at hn; linarith
    have hr0 := hr.ne'
    constructor
    · simp only [atan2R]; rw [Complex.cos_arg hz, hn]; field_simp
    · simp only [atan2R]; rw [Complex.sin_arg, hn]; field_simp

/-- over ℝ with the real functions, all 24 orders, every rotation matrix -/
theorem toMatrix33_extract_real (o : Ord) (M : M33 ℝ) (ho : M.toMat * M.toMatᵀ = 1) (hd : M.toMat.det = 1) :
    toM33 o Real.sin Real.cos (exM33 o Real.sqrt Real.sin Real.cos atan2R M) = M :=
  toMatrix33_extract o sqrtOK_real trigSpec_real M ho hd

/-- a rotation AT gimbal lock for the non-repeated orders with middle axis Y (90° about Y: `M[0][2] = −1`, `M[1][2] = M[2][2] = 0`),
    and one at gimbal lock for the repeated-axis orders (the identity: middle angle 0) -/
def gimbalY : M33 ℝ := ⟨0, 0, -1, 0, 1, 0, 1, 0, 0⟩
def ident33 : M33 ℝ := ⟨1, 0, 0, 0, 1, 0, 0, 0, 1⟩

theorem gimbalY_rot : gimbalY.toMat * gimbalY.toMatᵀ = 1 ∧ gimbalY.toMat.det = 1 := by
  constructor
  · ext i j; fin_cases i <;> fin_cases j <;> simp [gimbalY, M33.toMat, Matrix.mul_apply, Fin.sum_univ_three]
  · simp [gimbalY, M33.toMat, Matrix.det_fin_three]

theorem ident33_rot : ident33.toMat * ident33.toMatᵀ = 1 ∧ ident33.toMat.det = 1 := by
  constructor
  · ext i j; fin_cases i <;> fin_cases j <;> simp [ident33, M33.toMat, Matrix.mul_apply, Fin.sum_univ_three]
  · simp [ident33, M33.toMat, Matrix.det_fin_three]

/-- the round trip holds AT gimbal lock: for XYZ on `gimbalY` (`cos y = 0`, `atan2 (0, 0)` is evaluated for the first
    angle) and for the repeated-axis order ZXZ on the identity (`sin y = 0`, again `atan2 (0, 0)`) -/
theorem nonvacuity_gimbal :
    toM33 .XYZ Real.sin Real.cos (exM33 .XYZ Real.sqrt Real.sin Real.cos atan2R gimbalY) = gimbalY
    ∧ toM33 .ZXZ Real.sin Real.cos (exM33 .ZXZ Real.sqrt Real.sin Real.cos atan2R ident33) = ident33
    ∧ gimbalY.x12 = 0 ∧ gimbalY.x22 = 0 ∧ ident33.x10 = 0 ∧ ident33.x20 = 0 :=
  ⟨toMatrix33_extract_real .XYZ gimbalY gimbalY_rot.1 gimbalY_rot.2,
   toMatrix33_extract_real .ZXZ ident33 ident33_rot.1 ident33_rot.2, rfl, rfl, rfl, rfl⟩

/-- re-ordering over ℝ: e.g. XYZ → YXYr and XZXr → ZYXr keep the rotation for every triple -/
theorem nonvacuity_reorder (a : V3 ℝ) :
    toM33 .YXYr Real.sin Real.cos (reorderFromXYZ .YXYr Real.sqrt Real.sin Real.cos atan2R a).1 = toM33 .XYZ Real.sin Real.cos a
    ∧ toM33 .ZYXr Real.sin Real.cos (reorderToZYXr .XZXr Real.sqrt Real.sin Real.cos atan2R a).1 = toM33 .XZXr Real.sin Real.cos a :=
  ⟨(reorder_preserves_rotation .YXYr sqrtOK_real trigSpec_real a).1.1, (reorder_preserves_rotation .XZXr sqrtOK_real trigSpec_real a).2.1⟩

/-! ## `extractEulerXYZ` / `extractEulerZYX` / `extractEuler`: the row normalisation, scale invariance, every (scaled) rotation

`Props/C11.lean` identifies the free functions with the member `extract` on matrices whose rows ALREADY have length 1.
Here: for EVERY matrix they are the member `extract` applied to the matrix with each of the three rows divided by its
`length ()` (left alone if that is 0) — so multiplying the rows by positive factors (uniform or per-row scale) does not
change the angles, and for a scaled rotation matrix the angles rebuild the rotation. -/

/-- `Vec::normalize ()` as the free functions use it: divide by the length unless it is 0 -/
def nrm (l x : α) : α := if l = 0 then x else x / l

/-- the three rows of the upper-left block, each normalised -/
def normRows3 (tmin tmax : α) (sqrt : α → α) (m : M44 α) : M33 α :=
  ⟨nrm (Gen.V3.length tmin tmax sqrt ⟨m.x00, m.x01, m.x02⟩) m.x00, nrm (Gen.V3.length tmin tmax sqrt ⟨m.x00, m.x01, m.x02⟩) m.x01,
   nrm (Gen.V3.length tmin tmax sqrt ⟨m.x00, m.x01, m.x02⟩) m.x02,
   nrm (Gen.V3.length tmin tmax sqrt ⟨m.x10, m.x11, m.x12⟩) m.x10, nrm (Gen.V3.length tmin tmax sqrt ⟨m.x10, m.x11, m.x12⟩) m.x11,
   nrm (Gen.V3.length tmin tmax sqrt ⟨m.x10, m.x11, m.x12⟩) m.x12,
   nrm (Gen.V3.length tmin tmax sqrt ⟨m.x20, m.x21, m.x22⟩) m.x20, nrm (Gen.V3.length tmin tmax sqrt ⟨m.x20, m.x21, m.x22⟩) m.x21,
   nrm (Gen.V3.length tmin tmax sqrt ⟨m.x20, m.x21, m.x22⟩) m.x22⟩

/-- rows of the upper-left block multiplied by `k0`, `k1`, `k2` (everything else untouched) -/
def scaleRows3 (k0 k1 k2 : α) (m : M44 α) : M44 α :=
  ⟨k0 * m.x00, k0 * m.x01, k0 * m.x02, m.x03, k1 * m.x10, k1 * m.x11, k1 * m.x12, m.x13,
   k2 * m.x20, k2 * m.x21, k2 * m.x22, m.x23, m.x30, m.x31, m.x32, m.x33⟩

set_option maxHeartbeats 8000000 in
/-- for EVERY 4×4 matrix, `extractEulerXYZ` is `Euler::extract`, order XYZ, of the row-normalised upper-left block
    (all 8 paths of the three `normalize ()` calls) -/
theorem extractEulerXYZ_eq_member_normalized (tmin tmax : α) (sqrt sin cos : α → α) (atan2 : α → α → α) (m : M44 α) :
    Gen.Euler.extractEulerXYZ tmin tmax sqrt sin cos atan2 m = exM33 .XYZ sqrt sin cos atan2 (normRows3 tmin tmax sqrt m) := by
  simp only [Gen.Euler.extractEulerXYZ, exM33, Gen.Euler.extractM33_XYZ, normRows3, nrm]
  split_ifs <;>
    (apply V3.ext' <;> simp only [zero_mul, mul_zero, add_zero, zero_add, one_mul, mul_one] <;> try ring_nf)

set_option maxHeartbeats 8000000 in
theorem extractEulerZYX_eq_member_normalized (tmin tmax : α) (sqrt sin cos : α → α) (atan2 : α → α → α) (m : M44 α) :
    Gen.Euler.extractEulerZYX tmin tmax sqrt sin cos atan2 m = exM33 .ZYX sqrt sin cos atan2 (normRows3 tmin tmax sqrt m) := by
  simp only [Gen.Euler.extractEulerZYX, exM33, Gen.Euler.extractM33_ZYX, normRows3, nrm]
  split_ifs <;>
    (apply V3.ext' <;> simp only [zero_mul, mul_zero, add_zero, zero_add, one_mul, mul_one, neg_neg, mul_neg] <;> try ring_nf)

theorem len3_smul {tmin tmax : α} {sqrt : α → α} (hs : SqrtOK sqrt) {k : α} (hk : 0 ≤ k) (a b c : α) :
    Gen.V3.length tmin tmax sqrt ⟨k * a, k * b, k * c⟩ = k * Gen.V3.length tmin tmax sqrt ⟨a, b, c⟩ := by
  obtain ⟨l1, l0⟩ := C08.V3_length_sq tmin tmax hs ⟨a, b, c⟩
  rw [C08.V3_length_eq tmin tmax hs ⟨k * a, k * b, k * c⟩]
  exact sqrt_unique' hs (mul_nonneg hk l0) (by simp only at l1 ⊢; linear_combination (k * k) * l1)

theorem len3_eq_zero {tmin tmax : α} {sqrt : α → α} (hs : SqrtOK sqrt) {a b c : α}
    (h : Gen.V3.length tmin tmax sqrt ⟨a, b, c⟩ = 0) : a = 0 ∧ b = 0 ∧ c = 0 := by
  obtain ⟨l1, _⟩ := C08.V3_length_sq tmin tmax hs ⟨a, b, c⟩
  rw [h] at l1
  exact C08.sumsq3_eq_zero.mp (by simp only at l1; linarith)

theorem nrm_smul {l x k : α} (hk : 0 < k) (hx : l = 0 → x = 0) : nrm (k * l) (k * x) = nrm l x := by
  simp only [nrm]
  by_cases h : l = 0
  · simp [h, hx h]
  · have : k * l ≠ 0 := mul_ne_zero hk.ne' h
    simp only [this, h, if_false]
    field_simp

/-- positive row factors disappear in the normalisation -/
theorem normRows3_scaleRows3 {tmin tmax : α} {sqrt : α → α} (hs : SqrtOK sqrt) {k0 k1 k2 : α} (h0 : 0 < k0) (h1 : 0 < k1) (h2 : 0 < k2)
    (m : M44 α) : normRows3 tmin tmax sqrt (scaleRows3 k0 k1 k2 m) = normRows3 tmin tmax sqrt m := by
  simp only [normRows3, scaleRows3, len3_smul hs h0.le, len3_smul hs h1.le, len3_smul hs h2.le]
  apply M33.ext' <;> simp only <;> apply nrm_smul (by assumption) <;> intro h
  · exact (len3_eq_zero hs h).1
  · exact (len3_eq_zero hs h).2.1
  · exact (len3_eq_zero hs h).2.2
  · exact (len3_eq_zero hs h).1
  · exact (len3_eq_zero hs h).2.1
  · exact (len3_eq_zero hs h).2.2
  · exact (len3_eq_zero hs h).1
  · exact (len3_eq_zero hs h).2.1
  · exact (len3_eq_zero hs h).2.2

/-- SCALE INVARIANCE: multiplying the three rows by positive factors (uniform scale `k0 = k1 = k2`, or per-row scale)
    leaves the angles `extractEulerXYZ` / `extractEulerZYX` return unchanged — EVERY matrix -/
theorem extractEulerXYZ_scale_invariant {tmin tmax : α} {sqrt : α → α} (hs : SqrtOK sqrt) (sin cos : α → α) (atan2 : α → α → α)
    {k0 k1 k2 : α} (h0 : 0 < k0) (h1 : 0 < k1) (h2 : 0 < k2) (m : M44 α) :
    Gen.Euler.extractEulerXYZ tmin tmax sqrt sin cos atan2 (scaleRows3 k0 k1 k2 m) = Gen.Euler.extractEulerXYZ tmin tmax sqrt sin cos atan2 m := by
  rw [extractEulerXYZ_eq_member_normalized, extractEulerXYZ_eq_member_normalized, normRows3_scaleRows3 hs h0 h1 h2]

theorem extractEulerZYX_scale_invariant {tmin tmax : α} {sqrt : α → α} (hs : SqrtOK sqrt) (sin cos : α → α) (atan2 : α → α → α)
    {k0 k1 k2 : α} (h0 : 0 < k0) (h1 : 0 < k1) (h2 : 0 < k2) (m : M44 α) :
    Gen.Euler.extractEulerZYX tmin tmax sqrt sin cos atan2 (scaleRows3 k0 k1 k2 m) = Gen.Euler.extractEulerZYX tmin tmax sqrt sin cos atan2 m := by
  rw [extractEulerZYX_eq_member_normalized, extractEulerZYX_eq_member_normalized, normRows3_scaleRows3 hs h0 h1 h2]

/-- a matrix with unit rows is its own normalisation -/
theorem normRows3_of_rotation {tmin tmax : α} {sqrt : α → α} (hs : SqrtOK sqrt) (m : M44 α)
    (ho : (upper33 m).toMat * (upper33 m).toMatᵀ = 1) : normRows3 tmin tmax sqrt m = upper33 m := by
  obtain ⟨a, b, c, m03, d, e, f, m13, g, h, i, m23, m30, m31, m32, m33⟩ := m
  have r00 := congrFun (congrFun ho 0) 0
  have r11 := congrFun (congrFun ho 1) 1
  have r22 := congrFun (congrFun ho 2) 2
  simp [upper33, M33.toMat, Matrix.mul_apply, Fin.sum_univ_three] at r00 r11 r22
  have l0 : Gen.V3.length tmin tmax sqrt ⟨a, b, c⟩ = 1 := by
    rw [C08.V3_length_eq tmin tmax hs]; exact sqrt_unique' hs zero_le_one (by simp only; linarith)
  have l1 : Gen.V3.length tmin tmax sqrt ⟨d, e, f⟩ = 1 := by
    rw [C08.V3_length_eq tmin tmax hs]; exact sqrt_unique' hs zero_le_one (by simp only; linarith)
  have l2 : Gen.V3.length tmin tmax sqrt ⟨g, h, i⟩ = 1 := by
    rw [C08.V3_length_eq tmin tmax hs]; exact sqrt_unique' hs zero_le_one (by simp only; linarith)
  simp only [normRows3, nrm, l0, l1, l2, one_ne_zero, if_false, div_one, upper33]

/-- `extractEulerXYZ` / `extractEulerZYX` on EVERY positively row-scaled rotation matrix (gimbal lock included): the angles
    rebuild the rotation, through `Matrix44::setEulerAngles` resp. `Euler (…, ZYX).toMatrix44 ()` -/
theorem extractEulerXYZ_rebuilds_scaled_rotation {tmin tmax : α} {sqrt sin cos : α → α} {atan2 : α → α → α} (hs : SqrtOK sqrt)
    (ht : TrigSpec sin cos atan2) {k0 k1 k2 : α} (h0 : 0 < k0) (h1 : 0 < k1) (h2 : 0 < k2) (R : M44 α)
    (ho : (upper33 R).toMat * (upper33 R).toMatᵀ = 1) (hd : (upper33 R).toMat.det = 1) :
    Gen.Euler.M44_setEulerAngles sin cos (Gen.Euler.extractEulerXYZ tmin tmax sqrt sin cos atan2 (scaleRows3 k0 k1 k2 R)) = embed33 (upper33 R)
    ∧ toM44 .ZYX sin cos (Gen.Euler.extractEulerZYX tmin tmax sqrt sin cos atan2 (scaleRows3 k0 k1 k2 R)) = embed33 (upper33 R) := by
  rw [extractEulerXYZ_scale_invariant hs sin cos atan2 h0 h1 h2, extractEulerZYX_scale_invariant hs sin cos atan2 h0 h1 h2,
    extractEulerXYZ_eq_member_normalized, extractEulerZYX_eq_member_normalized, normRows3_of_rotation hs R ho,
    ← toMatrix44_XYZ_eq_setEulerAngles, toMatrix44_eq_embed_toMatrix33, toMatrix44_eq_embed_toMatrix33,
    toMatrix33_extract .XYZ hs ht _ ho hd, toMatrix33_extract .ZYX hs ht _ ho hd]
  exact ⟨rfl, rfl⟩

/-- 2-D: `extractEuler (Matrix22)` and `extractEuler (Matrix33)` normalise the two rows; positive row factors do not change the angle -/
theorem extractEuler_scale_invariant {tmin tmax : α} {sqrt : α → α} (hs : SqrtOK sqrt) (atan2 : α → α → α)
    {k0 k1 : α} (h0 : 0 < k0) (h1 : 0 < k1) (m : M22 α) (n : M33 α) :
    Gen.Euler.extractEuler22 tmin tmax sqrt atan2 ⟨k0 * m.x00, k0 * m.x01, k1 * m.x10, k1 * m.x11⟩ = Gen.Euler.extractEuler22 tmin tmax sqrt atan2 m
    ∧ Gen.Euler.extractEuler33 tmin tmax sqrt atan2 ⟨k0 * n.x00, k0 * n.x01, n.x02, k1 * n.x10, k1 * n.x11, n.x12, n.x20, n.x21, n.x22⟩
        = Gen.Euler.extractEuler33 tmin tmax sqrt atan2 n := by
  have len2 : ∀ (k a b : α), 0 ≤ k → Gen.V2.length tmin tmax sqrt ⟨k * a, k * b⟩ = k * Gen.V2.length tmin tmax sqrt ⟨a, b⟩ := by
    intro k a b hk
    obtain ⟨l1, l0⟩ := C08.V2_length_sq tmin tmax hs ⟨a, b⟩
    rw [C08.V2_length_eq tmin tmax hs ⟨k * a, k * b⟩]
    exact sqrt_unique' hs (mul_nonneg hk l0) (by simp only at l1 ⊢; linear_combination (k * k) * l1)
  have z2 : ∀ (a b : α), Gen.V2.length tmin tmax sqrt ⟨a, b⟩ = 0 → a = 0 := by
    intro a b h
    obtain ⟨l1, _⟩ := C08.V2_length_sq tmin tmax hs ⟨a, b⟩
    rw [h] at l1
    exact (C08.sumsq2_eq_zero.mp (by simp only at l1; linarith)).1
  have key : ∀ (a b c d : α), (if Gen.V2.length tmin tmax sqrt ⟨k0 * a, k0 * b⟩ = 0 then
        (if Gen.V2.length tmin tmax sqrt ⟨k1 * c, k1 * d⟩ = 0 then -(atan2 (k1 * c) (k0 * a))
         else -(atan2 (k1 * c / Gen.V2.length tmin tmax sqrt ⟨k1 * c, k1 * d⟩) (k0 * a)))
      else (if Gen.V2.length tmin tmax sqrt ⟨k1 * c, k1 * d⟩ = 0 then -(atan2 (k1 * c) (k0 * a / Gen.V2.length tmin tmax sqrt ⟨k0 * a, k0 * b⟩))
         else -(atan2 (k1 * c / Gen.V2.length tmin tmax sqrt ⟨k1 * c, k1 * d⟩) (k0 * a / Gen.V2.length tmin tmax sqrt ⟨k0 * a, k0 * b⟩))))
      = -(atan2 (nrm (Gen.V2.length tmin tmax sqrt ⟨c, d⟩) c) (nrm (Gen.V2.length tmin tmax sqrt ⟨a, b⟩) a)) := by
    intro a b c d
    rw [← nrm_smul h0 (z2 a b), ← nrm_smul h1 (z2 c d), ← len2 k0 a b h0.le, ← len2 k1 c d h1.le]
    simp only [nrm]
    split_ifs <;> rfl
  have key1 : ∀ (a b c d : α), (if Gen.V2.length tmin tmax sqrt ⟨a, b⟩ = 0 then
        (if Gen.V2.length tmin tmax sqrt ⟨c, d⟩ = 0 then -(atan2 c a) else -(atan2 (c / Gen.V2.length tmin tmax sqrt ⟨c, d⟩) a))
      else (if Gen.V2.length tmin tmax sqrt ⟨c, d⟩ = 0 then -(atan2 c (a / Gen.V2.length tmin tmax sqrt ⟨a, b⟩))
         else -(atan2 (c / Gen.V2.length tmin tmax sqrt ⟨c, d⟩) (a / Gen.V2.length tmin tmax sqrt ⟨a, b⟩))))
      = -(atan2 (nrm (Gen.V2.length tmin tmax sqrt ⟨c, d⟩) c) (nrm (Gen.V2.length tmin tmax sqrt ⟨a, b⟩) a)) := by
    intro a b c d
    simp only [nrm]
    split_ifs <;> rfl
  constructor
  · simp only [Gen.Euler.extractEuler22]
    rw [key, key1]
  · simp only [Gen.Euler.extractEuler33]
    rw [key, key1]

/-- the hypotheses are satisfiable and the statement is not about unit rows only: scale (2, 3, 1/2) on the gimbal-locked rotation -/
theorem nonvacuity_scaled_rotation :
    Gen.Euler.M44_setEulerAngles Real.sin Real.cos
      (Gen.Euler.extractEulerXYZ (1 / 1024) 2 Real.sqrt Real.sin Real.cos atan2R (scaleRows3 2 3 (1 / 2) (embed33 gimbalY))) = embed33 gimbalY :=
  (extractEulerXYZ_rebuilds_scaled_rotation (tmin := 1 / 1024) (tmax := 2) sqrtOK_real trigSpec_real (by norm_num) (by norm_num) (by norm_num)
    (embed33 gimbalY) gimbalY_rot.1 gimbalY_rot.2).1

/-! ## `makeNear` with a target of a DIFFERENT order (ImathEuler.h: `if (order () != target.order ())`) -/

set_option maxHeartbeats 16000000 in
/-- `e.makeNear (target)` with `target` of order XYZ resp. ZYXr and `e` of order `o`: the target is first converted to order `o`
    by the re-ordering constructor (`reorderFromXYZ o`; for ZYXr: `extract_o (toMatrix33_ZYXr t)`, which is what that constructor
    is by `reorder_ctor_eq`), then `makeNear` proceeds as for a same-order target.  For `o` = the target's own order the
    conversion is skipped.  All 24 orders of `e`. -/
theorem makeNear_other_order {β : Type} [Field β] [LinearOrder β] (o : Ord) (sqrt sin cos : β → β) (atan2 : β → β → β) (angleMod : β → β) (a t : V3 β) :
    makeNearXYZ o sqrt sin cos atan2 angleMod a t
        = makeNear o angleMod a (if o = .XYZ then t else (reorderFromXYZ o sqrt sin cos atan2 t).1)
    ∧ makeNearZYXr o sqrt sin cos atan2 angleMod a t
        = makeNear o angleMod a (if o = .ZYXr then t else exM33 o sqrt sin cos atan2 (toM33 .ZYXr sin cos t)) := by
  cases o <;>
  (simp only [reduceCtorEq, if_true, if_false]
   exact ⟨rfl, rfl⟩)

/-- hence the represented rotation is unchanged and the order kept, also when the target comes in another order
    (non-repeated orders of `e`; same hypotheses as `makeNear_preserves_rotation`) -/
theorem makeNear_other_order_preserves_rotation {β : Type} [Field β] [LinearOrder β] (o : Ord) (hnr : o.repeated = false)
    (sqrt sin cos : β → β) (atan2 : β → β → β) (angleMod : β → β) (a t : V3 β)
    (hodd : ∀ x, sin (-x) = -sin x) (heven : ∀ x, cos (-x) = cos x)
    (hsp : ∀ x, sin (mpi + x) = -sin x) (hcp : ∀ x, cos (mpi + x) = -cos x)
    (hsm : ∀ x, sin (mpi - x) = sin x) (hcm : ∀ x, cos (mpi - x) = -cos x)
    (hmodS : ∀ t d, sin (t + angleMod d) = sin (t + d)) (hmodC : ∀ t d, cos (t + angleMod d) = cos (t + d)) :
    (toM33 o sin cos (makeNearXYZ o sqrt sin cos atan2 angleMod a t).1 = toM33 o sin cos a
      ∧ (makeNearXYZ o sqrt sin cos atan2 angleMod a t).2 = (o.code : Int))
    ∧ (toM33 o sin cos (makeNearZYXr o sqrt sin cos atan2 angleMod a t).1 = toM33 o sin cos a
      ∧ (makeNearZYXr o sqrt sin cos atan2 angleMod a t).2 = (o.code : Int)) := by
  rw [(makeNear_other_order o sqrt sin cos atan2 angleMod a t).1, (makeNear_other_order o sqrt sin cos atan2 angleMod a t).2]
  exact ⟨makeNear_preserves_rotation o hnr sin cos angleMod a _ hodd heven hsp hcp hsm hcm hmodS hmodC,
    makeNear_preserves_rotation o hnr sin cos angleMod a _ hodd heven hsp hcp hsm hcm hmodS hmodC⟩

/-- … and every angle ends within `bound` of the CONVERTED target `t'`, which represents the same rotation as the given one
    (`toM33 o t' = toM33 .XYZ t`: `reorder_preserves_rotation`) -/
theorem makeNear_other_order_within (o : Ord) (ho : o ≠ .XYZ) {sqrt sin cos : α → α} {atan2 : α → α → α} (hs : SqrtOK sqrt) (ht : TrigSpec sin cos atan2)
    (angleMod : α → α) (bound : α) (a t : V3 α) (hrange : ∀ d, |angleMod d| ≤ bound) :
    ∃ t' : V3 α, toM33 o sin cos t' = toM33 .XYZ sin cos t
      ∧ |(makeNearXYZ o sqrt sin cos atan2 angleMod a t).1.x - t'.x| ≤ bound
      ∧ |(makeNearXYZ o sqrt sin cos atan2 angleMod a t).1.y - t'.y| ≤ bound
      ∧ |(makeNearXYZ o sqrt sin cos atan2 angleMod a t).1.z - t'.z| ≤ bound := by
  refine ⟨(reorderFromXYZ o sqrt sin cos atan2 t).1, (reorder_preserves_rotation o hs ht t).1.1, ?_⟩
  rw [(makeNear_other_order o sqrt sin cos atan2 angleMod a t).1, if_neg ho]
  exact makeNear_within o angleMod bound a _ hrange

/-- the same for a target of order ZYXr (the other extracted target order): within `bound` of the converted target
    `t' = extract_o (toMatrix33_ZYXr t)`, which represents the target's rotation (`reorder_any_pair`) -/
theorem makeNear_other_order_within_ZYXr (o : Ord) (ho : o ≠ .ZYXr) {sqrt sin cos : α → α} {atan2 : α → α → α} (hs : SqrtOK sqrt) (ht : TrigSpec sin cos atan2)
    (angleMod : α → α) (bound : α) (a t : V3 α) (hrange : ∀ d, |angleMod d| ≤ bound) :
    ∃ t' : V3 α, toM33 o sin cos t' = toM33 .ZYXr sin cos t
      ∧ |(makeNearZYXr o sqrt sin cos atan2 angleMod a t).1.x - t'.x| ≤ bound
      ∧ |(makeNearZYXr o sqrt sin cos atan2 angleMod a t).1.y - t'.y| ≤ bound
      ∧ |(makeNearZYXr o sqrt sin cos atan2 angleMod a t).1.z - t'.z| ≤ bound := by
  refine ⟨exM33 o sqrt sin cos atan2 (toM33 .ZYXr sin cos t), reorder_any_pair .ZYXr o hs ht t, ?_⟩
  rw [(makeNear_other_order o sqrt sin cos atan2 angleMod a t).2, if_neg ho]
  exact makeNear_within o angleMod bound a _ hrange

/-- non-vacuity over ℝ (rescaled sine / cosine with half period `M_PI`, exact model of `angleMod`): target in order ZYXr, `e` in order YXZ -/
theorem nonvacuity_makeNear_other_order (a t : V3 ℝ) :
    toM33 .YXZ sinM cosM (makeNearZYXr .YXZ Real.sqrt sinM cosM atan2R (Model.Euler.angleMod truncF mpi) a t).1 = toM33 .YXZ sinM cosM a :=
  (makeNear_other_order_preserves_rotation .YXZ rfl Real.sqrt sinM cosM atan2R _ a t sinM_cosM_hyps.2.1 sinM_cosM_hyps.2.2.1 sinM_cosM_hyps.2.2.2.1
      sinM_cosM_hyps.2.2.2.2.1 sinM_cosM_hyps.2.2.2.2.2.1 sinM_cosM_hyps.2.2.2.2.2.2
      sinM_cosM_angleMod_hyps.1 sinM_cosM_angleMod_hyps.2.1).2.1

end ImathVerif.C11
